(** * [TokenStream] of the parol runtime and the way the two parsers use it
      (crates/parol_runtime/src/lexer/token_stream.rs, token_buffer.rs;
       parser/parser_types.rs and lr_parser/parser_types.rs: [handle_additional_tokens], the
       terminal-match step, [call_action]; parser_common/parse_tree_stack.rs: [pop_n])

    What is transcribed
    - [TokenBuffer]: [len] (counts tokens that are not [is_effectively_skip_token]),
      [non_skip_token_at], [take_skip_tokens], [is_empty], [consume] (with its two
      [InternalError]s).
    - [TokenStream]: [new_with_skip_tokens] (the iterator gets the caller's [k], the stream uses
      [max(1,k)], the buffer is filled at once), [read_tokens] (loop over the iterator: mode
      BEFORE the read decides [state_skip]; counts tokens that are not effectively skipped; stops
      as soon as [n] were read - also when [n = 0], i.e. it always reads at least one token if
      there is one; then [Token::eoi(MAX)] fillers), [ensure_buffer], [lookahead] /
      [lookahead_token_type], [take_skip_tokens], [consume], [all_input_consumed].
      [stream_new] is the current constructor ([TokenIter] created with [max(1,k)]),
      [stream_new_old] the one of the pinned commit ([TokenIter] created with the caller's [k]).
      The recovery-only operations ([replace_token_type_at], [insert_token_at],
      [remove_token_at], [enter_recovery_mode]) are not part of this file ([s_recovering] stays
      [false]; the LL recovery is modelled in Runtime/LLParser.v on significant tokens).
    - How the parsers drive the stream: see the sections "LL" and "LR" below.

    Which predicate is used where (Rust):
      [is_effectively_skip_token]  everywhere in [TokenBuffer] and in [TokenStream::read_tokens];
      [is_skip_token]              [TokenIter::token_from_match] (token numbering); at the PINNED
                                   COMMIT also [LRParser::call_action] (TWICE: the [pop_n]
                                   predicate and, via [LRParseTree::is_skip_token], the filter
                                   that builds the action's arguments) - defect D9, repaired
                                   since: both places now use [is_effectively_skip_token]
                                   ([lr_skip_pred] / [lr_skip_pred_old] below);
      [is_comment_token]           [handle_additional_tokens] of both parsers, [token_from_match].
    The LL parser never looks at skip predicates itself: its parse tree stack only receives
    consumed tokens and non-terminals. *)
From Coq Require Import List Arith NArith Bool Lia.
From Parol Require Import Runtime.TokenBuffer.
From Parol Require Runtime.LLParser.
Import ListNotations.

(** ** List helpers *)
Section ListHelpers.
Variable A : Type.
Variable f : A -> bool.

Fixpoint take_while (l : list A) : list A :=
  match l with
  | [] => []
  | x :: l' => if f x then x :: take_while l' else []
  end.

Fixpoint drop_while (l : list A) : list A :=
  match l with
  | [] => []
  | x :: l' => if f x then drop_while l' else l
  end.

Lemma take_drop_while l : take_while l ++ drop_while l = l.
Proof.
  induction l as [|x l IH]; cbn [take_while drop_while]; [reflexivity|].
  destruct (f x); cbn [app]; [rewrite IH|]; reflexivity.
Qed.

Lemma take_while_all l : forallb f (take_while l) = true.
Proof.
  induction l as [|x l IH]; cbn [take_while]; [reflexivity|].
  destruct (f x) eqn:E; cbn [forallb]; [rewrite E, IH|]; reflexivity.
Qed.

Lemma drop_while_head l x r : drop_while l = x :: r -> f x = false.
Proof.
  induction l as [|y l IH]; cbn [drop_while]; [discriminate|].
  destruct (f y) eqn:E; [exact IH|]. intros H. inversion H; subst. exact E.
Qed.

(** Appending a list that does not start with an [f]-element changes nothing. *)
Lemma take_while_app_stop l r :
  (forall x r', r = x :: r' -> f x = false) ->
  take_while (l ++ r) = take_while l /\ drop_while (l ++ r) = drop_while l ++ r.
Proof.
  intros Hr. induction l as [|x l IH]; cbn [app take_while drop_while].
  - destruct r as [|y r']; cbn [take_while drop_while]; [split; reflexivity|].
    rewrite (Hr y r' eq_refl). split; reflexivity.
  - destruct (f x); [|split; reflexivity].
    destruct IH as (IH1 & IH2). rewrite IH1, IH2. split; reflexivity.
Qed.

(** If [l] contains a non-[f] element, what follows [l] is irrelevant. *)
Lemma take_while_app_inside l r :
  forallb f l = false ->
  take_while (l ++ r) = take_while l /\ drop_while (l ++ r) = drop_while l ++ r.
Proof.
  induction l as [|x l IH]; cbn [app take_while drop_while forallb]; [discriminate|].
  destruct (f x); cbn [andb]; [|split; reflexivity].
  intros H. destruct (IH H) as (IH1 & IH2). rewrite IH1, IH2. split; reflexivity.
Qed.

End ListHelpers.
Arguments take_while {A} f l.
Arguments drop_while {A} f l.

Lemma filter_drop_while_neg (A : Type) (f : A -> bool) l :
  filter (fun x => negb (f x)) (drop_while f l) = filter (fun x => negb (f x)) l.
Proof.
  induction l as [|x l IH]; cbn [drop_while filter]; [reflexivity|].
  destruct (f x) eqn:E; cbn [negb filter]; [exact IH|]. rewrite E. reflexivity.
Qed.

Lemma forallb_filter_neg (A : Type) (f : A -> bool) l :
  forallb f l = true -> filter (fun x => negb (f x)) l = [].
Proof.
  induction l as [|x l IH]; cbn [forallb filter]; [reflexivity|].
  destruct (f x); cbn [andb negb]; [exact IH|discriminate].
Qed.

Lemma filter_neg_nil_forallb (A : Type) (f : A -> bool) l :
  filter (fun x => negb (f x)) l = [] -> forallb f l = true.
Proof.
  induction l as [|x l IH]; cbn [forallb filter]; [reflexivity|].
  destruct (f x); cbn [andb negb]; [exact IH|discriminate].
Qed.

Lemma significant_filter l : filter significant l = filter (fun t => negb (is_effectively_skip_token t)) l.
Proof. reflexivity. Qed.

Lemma filter_sig_drop p :
  filter significant (drop_while is_effectively_skip_token p) = filter significant p.
Proof. apply (filter_drop_while_neg _ is_effectively_skip_token). Qed.

Lemma filter_sig_repeat m : filter significant (repeat eoi_filler m) = repeat eoi_filler m.
Proof. induction m as [|m IH]; cbn [repeat filter]; [reflexivity|]. cbn. f_equal. exact IH. Qed.

Lemma in_repeat (A : Type) (x y : A) m : In y (repeat x m) -> y = x.
Proof. apply repeat_spec. Qed.

(** ** Errors, operations, events *)
Inductive lexerr :=
| LookaheadExceedsMaximum
| LookaheadExceedsTokenBufferLength
| InternalError (site : nat).
(** [InternalError] sites: 0 "non_skip_token_at returned None despite len check",
    1 "Consume on empty buffer is impossible", 2 "non_skip_token_at(0) returned None on non-empty
    buffer", 3 "Try to consume from an empty buffer", 4 "Try to consume with skip tokens at the
    beginning of the buffer". *)

Inductive op := OpLookahead (n : nat) | OpConsume | OpTakeSkip.

Inductive event :=
| EvLook (r : lexerr + token)       (* result of [lookahead(n)] *)
| EvConsume (r : lexerr + token)    (* result of [consume()] *)
| EvSkip (ts : list token).         (* result of [take_skip_tokens()] *)

(** ** [TokenBuffer] operations *)
Definition buf_len (b : tbuf) : nat := length (filter significant (b_toks b)).

Definition non_skip_token_at (b : tbuf) (i : nat) : option token :=
  nth_error (filter significant (b_toks b)) i.

Definition buf_take_skip_tokens (b : tbuf) : list token * tbuf :=
  (take_while is_effectively_skip_token (b_toks b),
   mkBuf (drop_while is_effectively_skip_token (b_toks b)) (b_last_loc b) (b_last_num b)).

Definition buf_is_empty (b : tbuf) : bool := forallb is_effectively_skip_token (b_toks b).

Definition buf_is_buffer_empty (b : tbuf) : bool :=
  match b_toks b with [] => true | _ => false end.

Definition buf_consume (b : tbuf) : lexerr + (token * tbuf) :=
  match b_toks b with
  | [] => inl (InternalError 3)
  | t :: r =>
      if is_effectively_skip_token t then inl (InternalError 4)
      else inr (t, mkBuf r (b_last_loc b) (b_last_num b))
  end.

(** ** [TokenStream] *)
Record stream := mkStream {
  s_k : nat;                     (* k (already max(1, k)) *)
  s_iter : list (N * token);     (* what the TokenIter will still yield, with the mode before *)
  s_buf : tbuf;                  (* tokens *)
  s_recovering : bool            (* recovering *)
}.

Definition set_buf (st : stream) (b : tbuf) : stream :=
  mkStream (s_k st) (s_iter st) b (s_recovering st).

Section Stream.

Variable skips : list (list N).

(** The [while let] loop of [read_tokens]; [cnt] is [tokens_read]. *)
Fixpoint read_loop (n : nat) (it : list (N * token)) (b : tbuf) (cnt : nat)
  : list (N * token) * tbuf * nat :=
  match it with
  | [] => ([], b, cnt)
  | mt :: it' =>
      let t := flag_token skips mt in
      let cnt' := if is_effectively_skip_token t then cnt else S cnt in
      let b' := buf_add t b in
      if (n <=? cnt')%nat then (it', b', cnt') else read_loop n it' b' cnt'
  end.

(** [while tokens_read < n { self.tokens.add(Token::eoi(MAX)); tokens_read += 1 }] *)
Fixpoint fill_eoi (m : nat) (b : tbuf) : tbuf :=
  match m with
  | O => b
  | S m' => fill_eoi m' (buf_add eoi_filler b)
  end.

Definition read_tokens (n : nat) (st : stream) : stream :=
  match read_loop n (s_iter st) (s_buf st) 0 with
  | (it', b', cnt) => mkStream (s_k st) it' (fill_eoi (n - cnt) b') (s_recovering st)
  end.

Definition ensure_buffer (st : stream) : stream :=
  let fill_len := buf_len (s_buf st) in
  if (fill_len <? s_k st)%nat then read_tokens (s_k st - fill_len) st else st.

(** [lookahead(n)]; the stream is returned because [ensure_buffer] may have changed it. *)
Definition lookahead (n : nat) (st : stream) : (lexerr + token) * stream :=
  if (s_k st <=? n)%nat then (inl LookaheadExceedsMaximum, st)
  else
    let st1 := ensure_buffer st in
    if (buf_len (s_buf st1) <=? n)%nat then
      if buf_is_empty (s_buf st1) && s_recovering st1 then (inr eoi_filler, st1)
      else (inl LookaheadExceedsTokenBufferLength, st1)
    else
      match non_skip_token_at (s_buf st1) n with
      | Some t => (inr t, st1)
      | None => (inl (InternalError 0), st1)
      end.

(** [lookahead_token_type(n)] is the same code returning [token.token_type]. *)
Definition lookahead_token_type (n : nat) (st : stream) : (lexerr + N) * stream :=
  match lookahead n st with
  | (inl e, st') => (inl e, st')
  | (inr t, st') => (inr (t_type t), st')
  end.

Definition take_skip_tokens (st : stream) : list token * stream :=
  let r := buf_take_skip_tokens (s_buf st) in (fst r, set_buf st (snd r)).

Definition consume (st : stream) : (lexerr + token) * stream :=
  let st1 := ensure_buffer st in
  if buf_is_empty (s_buf st1) then (inl (InternalError 1), st1)
  else
    match non_skip_token_at (s_buf st1) 0 with
    | None => (inl (InternalError 2), st1)
    | Some _ =>
        match buf_consume (s_buf st1) with
        | inl e => (inl e, st1)
        | inr (t, b') => (inr t, ensure_buffer (set_buf st1 b'))
        end
    end.

Definition all_input_consumed (st : stream) : bool :=
  if buf_is_buffer_empty (s_buf st) then true
  else
    match non_skip_token_at (s_buf st) 0 with
    | Some t => N.eqb (t_type t) EOI
    | None => true
    end.

Variable len : N.
Variable final_mode : N.

(** A stream with lookahead size [k] over a [TokenIter] created with [ki]; the buffer is filled
    at once ([read_tokens(k)]). *)
Definition stream_init (ms : list smatch) (k ki : nat) : stream :=
  read_tokens k (mkStream k (token_iter len final_mode ms ki) buf_new false).

(** [TokenStream::new_with_skip_tokens(input, .., k0, skips)] on the scanner output [ms]:
    [let k = max(1, k0)] comes first, the [TokenIter] and the stream both get [k]. *)
Definition stream_new (ms : list smatch) (k0 : nat) : stream :=
  stream_init ms (Nat.max 1 k0) (Nat.max 1 k0).

(** The same at the pinned commit: the [TokenIter] got the caller's [k0] (possibly 0), only the
    stream used [max(1, k0)]. *)
Definition stream_new_old (ms : list smatch) (k0 : nat) : stream :=
  stream_init ms (Nat.max 1 k0) k0.

(** ** Schedules *)
Definition step (st : stream) (o : op) : stream * event :=
  match o with
  | OpLookahead n => let r := lookahead n st in (snd r, EvLook (fst r))
  | OpConsume => let r := consume st in (snd r, EvConsume (fst r))
  | OpTakeSkip => let r := take_skip_tokens st in (snd r, EvSkip (fst r))
  end.

Fixpoint run (st : stream) (ops : list op) : list event :=
  match ops with
  | [] => []
  | o :: ops' => snd (step st o) :: run (fst (step st o)) ops'
  end.

Fixpoint run_state (st : stream) (ops : list op) : stream :=
  match ops with
  | [] => st
  | o :: ops' => run_state (fst (step st o)) ops'
  end.

(** ** Specification: a stream without a buffer
    The state is the list of tokens not yet handed out ([pending]); behind it there are infinitely
    many [eoi_filler]s.  Nothing here depends on [k] except the range check of [lookahead]. *)
Definition pick (l : list token) (n : nat) : token :=
  match nth_error l n with Some t => t | None => eoi_filler end.

Definition spec_lookahead (k n : nat) (p : list token) : lexerr + token :=
  if (k <=? n)%nat then inl LookaheadExceedsMaximum else inr (pick (filter significant p) n).

Definition spec_consume (p : list token) : (lexerr + token) * list token :=
  match p with
  | [] => (inr eoi_filler, [])
  | t :: p' => if is_effectively_skip_token t then (inl (InternalError 4), p) else (inr t, p')
  end.

Definition spec_step (k : nat) (p : list token) (o : op) : list token * event :=
  match o with
  | OpLookahead n => (p, EvLook (spec_lookahead k n p))
  | OpConsume => let r := spec_consume p in (snd r, EvConsume (fst r))
  | OpTakeSkip => (drop_while is_effectively_skip_token p, EvSkip (take_while is_effectively_skip_token p))
  end.

Fixpoint spec_run (k : nat) (p : list token) (ops : list op) : list event :=
  match ops with
  | [] => []
  | o :: ops' => snd (spec_step k p o) :: spec_run k (fst (spec_step k p o)) ops'
  end.

Fixpoint spec_state (k : nat) (p : list token) (ops : list op) : list token :=
  match ops with
  | [] => p
  | o :: ops' => spec_state k (fst (spec_step k p o)) ops'
  end.

(** ** The buffered stream refines the specification *)

Definition pending_of (st : stream) : list token :=
  b_toks (s_buf st) ++
  gapped (b_last_loc (s_buf st)) (b_last_num (s_buf st)) (map (flag_token skips) (s_iter st)).

(** [Rel st p]: buffer contents followed by what the iterator will still deliver (with gaps) is
    [p], possibly followed by fillers - and fillers exist only when the iterator is exhausted. *)
Definition Rel (st : stream) (p : list token) : Prop :=
  exists m, pending_of st = p ++ repeat eoi_filler m /\ (m <> O -> s_iter st = []).

Definition Full (k : nat) (st : stream) : Prop :=
  s_k st = k /\ buf_len (s_buf st) = k /\ (1 <= k)%nat.

Lemma gap_for_not_significant last lastnum t : filter significant (gap_for last lastnum t) = [].
Proof. unfold gap_for. destruct (N.ltb last (t_start t)); reflexivity. Qed.

Lemma buf_len_add t b :
  buf_len (buf_add t b) = (buf_len b + if is_effectively_skip_token t then 0 else 1)%nat.
Proof.
  unfold buf_len, buf_add; cbn [b_toks]. rewrite !filter_app, gap_for_not_significant.
  cbn [app filter]. unfold significant at 2. rewrite app_length.
  destruct (is_effectively_skip_token t); cbn [negb length]; lia.
Qed.

Lemma read_loop_spec it : forall n b cnt it' b' cnt',
  read_loop n it b cnt = (it', b', cnt') ->
  b_toks b' ++ gapped (b_last_loc b') (b_last_num b') (map (flag_token skips) it')
  = b_toks b ++ gapped (b_last_loc b) (b_last_num b) (map (flag_token skips) it)
  /\ (buf_len b' + cnt = buf_len b + cnt')%nat
  /\ ((cnt' < n)%nat -> it' = [])
  /\ ((cnt < n)%nat -> (cnt' <= n)%nat)
  /\ (it = [] -> it' = []).
Proof.
  induction it as [|mt it IH]; intros n b cnt it' b' cnt' H; cbn [read_loop] in H.
  - inversion H; subst. repeat split; try reflexivity; lia.
  - set (t := flag_token skips mt) in *.
    set (c1 := if is_effectively_skip_token t then cnt else S cnt) in *.
    assert (Hlen : (buf_len (buf_add t b) + cnt = buf_len b + c1)%nat).
    { rewrite buf_len_add. unfold c1. destruct (is_effectively_skip_token t); lia. }
    assert (Htoks : forall l, b_toks (buf_add t b) ++ gapped (t_end t) (t_num t) l
                    = b_toks b ++ gapped (b_last_loc b) (b_last_num b) (t :: l)).
    { intros l. unfold buf_add; cbn [b_toks gapped]. rewrite <- !app_assoc. reflexivity. }
    destruct (Nat.leb_spec n c1) as [Hle|Hgt].
    + inversion H; subst it' b' cnt'. cbn [map]. fold t.
      change (b_last_loc (buf_add t b)) with (t_end t).
      change (b_last_num (buf_add t b)) with (t_num t).
      rewrite Htoks. repeat split; try reflexivity.
      * exact Hlen.
      * lia.
      * unfold c1. destruct (is_effectively_skip_token t); lia.
      * discriminate.
    + destruct (IH _ _ _ _ _ _ H) as (H1 & H2 & H3 & H4 & _).
      cbn [map]. fold t.
      change (b_last_loc (buf_add t b)) with (t_end t) in H1.
      change (b_last_num (buf_add t b)) with (t_num t) in H1.
      rewrite Htoks in H1. repeat split.
      * exact H1.
      * lia.
      * exact H3.
      * intros _. apply H4. exact Hgt.
      * discriminate.
Qed.

Lemma fill_eoi_spec m : forall b,
  b_toks (fill_eoi m b) = b_toks b ++ repeat eoi_filler m /\
  buf_len (fill_eoi m b) = (buf_len b + m)%nat.
Proof.
  induction m as [|m IH]; intros b; cbn [fill_eoi repeat].
  - rewrite app_nil_r. split; [reflexivity|lia].
  - destruct (IH (buf_add eoi_filler b)) as (IH1 & IH2). rewrite IH1, IH2, buf_len_add.
    split.
    + unfold buf_add; cbn [b_toks]. unfold gap_for. cbn [t_start eoi_filler].
      destruct (b_last_loc b); cbn [N.ltb N.compare app]; rewrite <- app_assoc; reflexivity.
    + cbn. lia.
Qed.

Lemma read_tokens_rel n st p : (1 <= n)%nat -> Rel st p ->
  Rel (read_tokens n st) p /\
  buf_len (s_buf (read_tokens n st)) = (buf_len (s_buf st) + n)%nat /\
  s_k (read_tokens n st) = s_k st.
Proof.
  intros Hn (m & Hp & Hm). unfold read_tokens.
  destruct (read_loop n (s_iter st) (s_buf st) 0) as [[it' b'] cnt'] eqn:E.
  destruct (read_loop_spec _ _ _ _ _ _ _ E) as (H1 & H2 & H3 & H4 & H5).
  destruct (fill_eoi_spec (n - cnt') b') as (F1 & F2).
  assert (Hc : (cnt' <= n)%nat) by (apply H4; lia).
  split; [|split].
  - unfold Rel, pending_of; cbn [s_buf s_iter].
    destruct (Nat.eq_dec cnt' n) as [->|Hne].
    + rewrite Nat.sub_diag. cbn [fill_eoi]. exists m. split.
      * rewrite H1. exact Hp.
      * intros Hm0. apply H5. apply Hm. exact Hm0.
    + assert (Hit : it' = []) by (apply H3; lia). subst it'.
      exists (m + (n - cnt'))%nat. split; [|reflexivity].
      cbn [map gapped] in *. rewrite app_nil_r in *. rewrite F1, H1.
      unfold pending_of in Hp. rewrite Hp, repeat_app, app_assoc. reflexivity.
  - cbn [s_buf]. rewrite F2. lia.
  - reflexivity.
Qed.

Lemma ensure_rel k st p : Rel st p -> s_k st = k -> (1 <= k)%nat -> (buf_len (s_buf st) <= k)%nat ->
  Rel (ensure_buffer st) p /\ Full k (ensure_buffer st).
Proof.
  intros HR Hk Hk1 Hle. unfold ensure_buffer. rewrite Hk.
  destruct (Nat.ltb_spec (buf_len (s_buf st)) k) as [Hlt|Hge].
  - destruct (read_tokens_rel (k - buf_len (s_buf st)) st p) as (R1 & R2 & R3); [lia|exact HR|].
    split; [exact R1|]. unfold Full. rewrite R2, R3. repeat split; lia.
  - split; [exact HR|]. unfold Full. repeat split; lia.
Qed.

Lemma ensure_full k st : Full k st -> ensure_buffer st = st.
Proof.
  intros (Hk & Hl & _). unfold ensure_buffer. rewrite Hk, Hl, Nat.ltb_irrefl. reflexivity.
Qed.

Lemma buf_len_pos_not_empty b : (1 <= buf_len b)%nat -> buf_is_empty b = false.
Proof.
  unfold buf_len, buf_is_empty. intros H.
  destruct (forallb is_effectively_skip_token (b_toks b)) eqn:E; [|reflexivity].
  rewrite significant_filter, (forallb_filter_neg _ _ _ E) in H. cbn in H. lia.
Qed.

Lemma repeat_filler_stop m : forall x r', repeat eoi_filler m = x :: r' -> is_effectively_skip_token x = false.
Proof. intros x r' H. destruct m; cbn in H; [discriminate|]. inversion H; subst. reflexivity. Qed.

(** *** [take_skip_tokens] *)
Lemma take_skip_refines k st p : Rel st p -> Full k st ->
  fst (take_skip_tokens st) = take_while is_effectively_skip_token p /\
  Rel (snd (take_skip_tokens st)) (drop_while is_effectively_skip_token p) /\
  Full k (snd (take_skip_tokens st)).
Proof.
  intros (m & Hp & Hm) (Hk & Hl & Hk1).
  assert (Hne : forallb is_effectively_skip_token (b_toks (s_buf st)) = false).
  { apply buf_len_pos_not_empty. lia. }
  unfold pending_of in Hp.
  destruct (take_while_app_inside _ is_effectively_skip_token (b_toks (s_buf st))
              (gapped (b_last_loc (s_buf st)) (b_last_num (s_buf st)) (map (flag_token skips) (s_iter st))) Hne)
    as (T1 & T2).
  destruct (take_while_app_stop _ is_effectively_skip_token p (repeat eoi_filler m) (repeat_filler_stop m))
    as (T3 & T4).
  rewrite Hp in T1, T2. rewrite T3 in T1. rewrite T4 in T2.
  unfold take_skip_tokens, buf_take_skip_tokens; cbn [fst snd].
  split; [symmetry; exact T1|]. split.
  - exists m. split; [|exact Hm]. unfold pending_of; cbn [set_buf s_buf s_iter b_toks b_last_loc b_last_num].
    symmetry. exact T2.
  - unfold Full; cbn [set_buf s_k s_buf]. repeat split; try assumption.
    unfold buf_len; cbn [b_toks]. rewrite significant_filter, filter_drop_while_neg.
    exact Hl.
Qed.

(** *** [lookahead] *)
Lemma lookahead_refines k st p n : Rel st p -> Full k st ->
  fst (lookahead n st) = spec_lookahead k n p /\ snd (lookahead n st) = st.
Proof.
  intros (m & Hp & Hm) HF. pose proof HF as (Hk & Hl & Hk1).
  unfold lookahead, spec_lookahead. rewrite Hk.
  destruct (Nat.leb_spec k n) as [Hle|Hgt]; [split; reflexivity|].
  rewrite (ensure_full k st HF), Hl.
  destruct (Nat.leb_spec k n) as [Hle|_]; [lia|].
  unfold non_skip_token_at.
  assert (Hlt : (n < length (filter significant (b_toks (s_buf st))))%nat) by (unfold buf_len in Hl; lia).
  destruct (nth_error (filter significant (b_toks (s_buf st))) n) as [t|] eqn:E.
  2:{ apply nth_error_None in E. lia. }
  cbn [fst snd]. split; [|reflexivity]. f_equal.
  assert (E2 : nth_error (filter significant (p ++ repeat eoi_filler m)) n = Some t).
  { rewrite <- Hp. unfold pending_of. rewrite filter_app, nth_error_app1; assumption. }
  rewrite filter_app, filter_sig_repeat in E2. unfold pick.
  destruct (Nat.lt_ge_cases n (length (filter significant p))) as [Hin|Hout].
  - rewrite nth_error_app1 in E2 by exact Hin. rewrite E2. reflexivity.
  - rewrite nth_error_app2 in E2 by exact Hout.
    apply nth_error_In, in_repeat in E2. subst t.
    destruct (nth_error (filter significant p) n) eqn:E3; [|reflexivity].
    assert (Hsome : nth_error (filter significant p) n <> None) by congruence.
    apply nth_error_Some in Hsome. lia.
Qed.

(** *** [consume] *)
Lemma consume_refines k st p : Rel st p -> Full k st ->
  fst (consume st) = fst (spec_consume p) /\
  Rel (snd (consume st)) (snd (spec_consume p)) /\
  Full k (snd (consume st)).
Proof.
  intros HR HF. pose proof HR as (m & Hp & Hm). pose proof HF as (Hk & Hl & Hk1).
  unfold consume. rewrite (ensure_full k st HF).
  rewrite (buf_len_pos_not_empty (s_buf st)) by lia.
  unfold non_skip_token_at.
  destruct (nth_error (filter significant (b_toks (s_buf st))) 0) as [t0|] eqn:E0.
  2:{ apply nth_error_None in E0. unfold buf_len in Hl. lia. }
  unfold buf_consume. unfold pending_of in Hp.
  destruct (b_toks (s_buf st)) as [|t r] eqn:Et.
  { unfold buf_len in Hl. rewrite Et in Hl. cbn in Hl. lia. }
  destruct (is_effectively_skip_token t) eqn:Eskip.
  - (* skip token at the head of the buffer *)
    cbn [fst snd]. destruct p as [|t' p'].
    + cbn [app] in Hp. destruct m as [|m']; cbn [repeat] in Hp; [discriminate|].
      inversion Hp; subst t. discriminate.
    + cbn [app] in Hp. inversion Hp; subst t'. cbn [spec_consume]. rewrite Eskip. cbn [fst snd].
      repeat split; assumption.
  - cbn [fst snd].
    set (st1 := set_buf st (mkBuf r (b_last_loc (s_buf st)) (b_last_num (s_buf st)))).
    assert (Hlen1 : (buf_len (s_buf st1) <= k)%nat).
    { unfold st1, buf_len in *; cbn [set_buf s_buf b_toks]. rewrite Et in Hl. cbn [filter] in Hl.
      destruct (significant t); cbn [length] in Hl; lia. }
    assert (Hk' : s_k st1 = k) by exact Hk.
    destruct p as [|t' p'].
    + cbn [app] in Hp. destruct m as [|m']; cbn [repeat] in Hp; [discriminate|].
      inversion Hp as [[Ht Hr]]. cbn [spec_consume fst snd].
      assert (HR1 : Rel st1 []).
      { exists m'. split.
        - unfold pending_of, st1; cbn [set_buf s_buf s_iter b_toks b_last_loc b_last_num]. exact Hr.
        - intros _. apply Hm. discriminate. }
      destruct (ensure_rel k st1 [] HR1 Hk' Hk1 Hlen1) as (R1 & R2).
      split; [first [reflexivity|congruence]|split; assumption].
    + cbn [app] in Hp. inversion Hp as [[Ht Hr]]. subst t'. cbn [spec_consume]. rewrite Eskip.
      cbn [fst snd].
      assert (HR1 : Rel st1 p').
      { exists m. split; [|exact Hm].
        unfold pending_of, st1; cbn [set_buf s_buf s_iter b_toks b_last_loc b_last_num]. exact Hr. }
      destruct (ensure_rel k st1 p' HR1 Hk' Hk1 Hlen1) as (R1 & R2).
      split; [reflexivity|split; assumption].
Qed.

Lemma step_refines k st p o : Rel st p -> Full k st ->
  snd (step st o) = snd (spec_step k p o) /\
  Rel (fst (step st o)) (fst (spec_step k p o)) /\ Full k (fst (step st o)).
Proof.
  intros HR HF. destruct o as [n| |]; cbn [step spec_step fst snd].
  - destruct (lookahead_refines k st p n HR HF) as (H1 & H2). rewrite H1, H2.
    split; [reflexivity|split; assumption].
  - destruct (consume_refines k st p HR HF) as (H1 & H2 & H3). rewrite H1.
    split; [reflexivity|split; assumption].
  - destruct (take_skip_refines k st p HR HF) as (H1 & H2 & H3). rewrite H1.
    split; [reflexivity|split; assumption].
Qed.

Theorem run_refines ops : forall k st p, Rel st p -> Full k st ->
  run st ops = spec_run k p ops /\
  Rel (run_state st ops) (spec_state k p ops) /\ Full k (run_state st ops).
Proof.
  induction ops as [|o ops IH]; intros k st p HR HF; cbn [run spec_run run_state spec_state].
  - split; [reflexivity|split; assumption].
  - destruct (step_refines k st p o HR HF) as (H1 & H2 & H3).
    destruct (IH k _ _ H2 H3) as (I1 & I2 & I3).
    rewrite H1, I1. split; [reflexivity|split; assumption].
Qed.

Lemma stream_init_rel ms k ki : (1 <= k)%nat ->
  Rel (stream_init ms k ki) (stream_tokens_old skips len final_mode ms ki) /\
  Full k (stream_init ms k ki).
Proof.
  intros Hk1. unfold stream_init.
  set (st0 := mkStream k (token_iter len final_mode ms ki) buf_new false).
  assert (HR0 : Rel st0 (stream_tokens_old skips len final_mode ms ki)).
  { exists O. split; [|intros H; exfalso; apply H; reflexivity].
    unfold pending_of, st0; cbn [s_buf s_iter buf_new b_toks b_last_loc b_last_num app repeat].
    rewrite app_nil_r. reflexivity. }
  destruct (read_tokens_rel k st0 _ Hk1 HR0) as (R1 & R2 & R3).
  split; [exact R1|]. unfold Full. rewrite R2, R3.
  change (buf_len (s_buf st0)) with O. change (s_k st0) with k. repeat split; lia.
Qed.

Lemma stream_new_rel ms k0 :
  Rel (stream_new ms k0) (stream_tokens skips len final_mode ms k0) /\
  Full (Nat.max 1 k0) (stream_new ms k0).
Proof. apply stream_init_rel. lia. Qed.

Lemma stream_new_old_rel ms k0 :
  Rel (stream_new_old ms k0) (stream_tokens_old skips len final_mode ms k0) /\
  Full (Nat.max 1 k0) (stream_new_old ms k0).
Proof. apply stream_init_rel. lia. Qed.

(** The buffered stream with lookahead size [max(1,k0)] behaves exactly like the buffer-less
    specification on [stream_tokens]. *)
Theorem stream_refines_spec ms k0 ops :
  run (stream_new ms k0) ops =
  spec_run (Nat.max 1 k0) (stream_tokens skips len final_mode ms k0) ops.
Proof.
  destruct (stream_new_rel ms k0) as (HR & HF).
  apply (run_refines ops _ _ _ HR HF).
Qed.

Theorem stream_refines_spec_old ms k0 ops :
  run (stream_new_old ms k0) ops =
  spec_run (Nat.max 1 k0) (stream_tokens_old skips len final_mode ms k0) ops.
Proof.
  destruct (stream_new_old_rel ms k0) as (HR & HF).
  apply (run_refines ops _ _ _ HR HF).
Qed.

End Stream.

(** ** What a schedule delivers *)
Definition ev_tokens (e : event) : list token :=
  match e with
  | EvConsume (inr t) => [t]
  | EvSkip ts => ts
  | _ => []
  end.

(** All tokens handed out by [consume] and [take_skip_tokens], in the order of the calls. *)
Definition delivered (evs : list event) : list token := flat_map ev_tokens evs.

Lemma spec_state_nil k ops : spec_state k [] ops = [].
Proof.
  induction ops as [|o ops IH]; cbn [spec_state]; [reflexivity|].
  destruct o; cbn [spec_step spec_consume fst snd drop_while]; exact IH.
Qed.

Lemma spec_step_delivered k p o : exists m,
  ev_tokens (snd (spec_step k p o)) ++ fst (spec_step k p o) = p ++ repeat eoi_filler m /\
  (m <> O -> fst (spec_step k p o) = []).
Proof.
  destruct o as [n| |]; cbn [spec_step fst snd ev_tokens].
  - exists O. cbn [repeat app]. rewrite app_nil_r. split; [reflexivity|]. intros H; exfalso; apply H; reflexivity.
  - destruct p as [|t p']; cbn [spec_consume].
    + exists 1%nat. split; reflexivity.
    + exists O. cbn [repeat]. rewrite app_nil_r.
      destruct (is_effectively_skip_token t); cbn [fst snd ev_tokens app];
        (split; [reflexivity|intros H; exfalso; apply H; reflexivity]).
  - exists O. cbn [repeat]. rewrite app_nil_r, take_drop_while.
    split; [reflexivity|intros H; exfalso; apply H; reflexivity].
Qed.

(** Whatever the schedule: what was delivered, followed by what is still pending, is the
    initial pending list followed by fillers. *)
Lemma spec_delivered ops : forall k p, exists m,
  delivered (spec_run k p ops) ++ spec_state k p ops = p ++ repeat eoi_filler m /\
  (m <> O -> spec_state k p ops = []).
Proof.
  induction ops as [|o ops IH]; intros k p; cbn [spec_run spec_state delivered flat_map].
  - exists O. cbn [repeat app]. rewrite app_nil_r. split; [reflexivity|]. intros H; exfalso; apply H; reflexivity.
  - destruct (spec_step_delivered k p o) as (m1 & H1 & Hm1).
    destruct (IH k (fst (spec_step k p o))) as (m2 & H2 & Hm2).
    exists (m1 + m2)%nat. split.
    + fold (delivered (spec_run k (fst (spec_step k p o)) ops)).
      rewrite <- app_assoc, H2, app_assoc, H1, <- app_assoc, <- repeat_app. reflexivity.
    + intros Hm. destruct m2 as [|m2].
      * rewrite Hm1 by lia. apply spec_state_nil.
      * apply Hm2. discriminate.
Qed.

(** [buffer_contiguous]: for every lookahead size [k0] and every schedule, the tokens ever
    delivered are: a part [d0] of [all_tokens ++ eoi_tokens] (the end-of-input tokens are empty
    tokens at [len]) possibly followed by [eoi_filler]s; [d0] is contiguous from offset 0 and
    what was not yet delivered continues contiguously up to [len]. *)
Theorem buffer_contiguous skips len fm ms k0 ops :
  matches_ok len ms = true ->
  exists d0 j rest,
    delivered (run skips (stream_new skips len fm ms k0) ops) = d0 ++ repeat eoi_filler j /\
    d0 ++ rest = all_tokens skips len ms ++ eoi_tokens skips len fm ms k0 /\
    (j <> O -> rest = []) /\
    exists b, chain 0 d0 b /\ chain b rest len.
Proof.
  intros Hok. rewrite stream_refines_spec.
  pose proof (stream_tokens_eq skips len fm ms k0) as Heq.
  set (p := stream_tokens skips len fm ms k0) in *.
  destruct (spec_delivered ops (Nat.max 1 k0) p) as (m & H & Hm).
  assert (Hchain : chain 0 p len).
  { rewrite Heq. apply (chain_app _ 0 len).
    - apply all_tokens_contiguous. exact Hok.
    - apply eoi_tokens_chain. }
  rewrite <- Heq.
  destruct m as [|m].
  - cbn [repeat] in H. rewrite app_nil_r in H.
    eexists _, O, _. cbn [repeat]. rewrite app_nil_r. split; [reflexivity|].
    split; [exact H|]. split; [intros Hj; exfalso; apply Hj; reflexivity|].
    rewrite <- H in Hchain. apply chain_split. exact Hchain.
  - rewrite Hm in H by discriminate. rewrite app_nil_r in H.
    exists p, (S m), [].
    split; [exact H|]. rewrite app_nil_r. split; [reflexivity|]. split; [reflexivity|].
    exists len. split; [exact Hchain|reflexivity].
Qed.

(** ** The tokens do not depend on the lookahead size nor on the schedule *)

(** An end-of-input token that is not skipped through a skip list. *)
Definition eoi_plain (t : token) : Prop := t_type t = EOI /\ t_state_skip t = false.

(** End-of-input tokens differ in location and number ([TokenIter]'s are at [len], the fillers
    have the default location and number [MAX]); [norm_token] identifies them. *)
Definition norm_token (t : token) : token := if N.eqb (t_type t) EOI then eoi_filler else t.

Definition norm_result (r : lexerr + token) : lexerr + token :=
  match r with inl e => inl e | inr t => inr (norm_token t) end.

Definition norm_event (e : event) : event :=
  match e with
  | EvLook r => EvLook (norm_result r)
  | EvConsume r => EvConsume (norm_result r)
  | EvSkip ts => EvSkip (map norm_token ts)
  end.

Lemma eoi_plain_not_skip t : eoi_plain t -> is_effectively_skip_token t = false.
Proof.
  intros (Ht & Hs). unfold is_effectively_skip_token, is_skip_token. rewrite Ht, Hs. reflexivity.
Qed.

Lemma eoi_plain_norm t : eoi_plain t -> norm_token t = eoi_filler.
Proof. intros (Ht & _). unfold norm_token. rewrite Ht. reflexivity. Qed.

Lemma filter_sig_plain e : Forall eoi_plain e -> filter significant e = e.
Proof.
  induction 1 as [|t e Ht _ IH]; cbn [filter]; [reflexivity|].
  unfold significant at 1. rewrite (eoi_plain_not_skip t Ht). cbn [negb]. f_equal. exact IH.
Qed.

Lemma plain_stop e : Forall eoi_plain e ->
  forall x r', e = x :: r' -> is_effectively_skip_token x = false.
Proof. intros H x r' ->. inversion H; subst. apply eoi_plain_not_skip. assumption. Qed.

Lemma pick_norm a e1 e2 n : Forall eoi_plain e1 -> Forall eoi_plain e2 ->
  norm_token (pick (a ++ e1) n) = norm_token (pick (a ++ e2) n).
Proof.
  intros H1 H2. unfold pick.
  destruct (Nat.lt_ge_cases n (length a)) as [Hin|Hout].
  - rewrite !nth_error_app1 by exact Hin. reflexivity.
  - rewrite !nth_error_app2 by exact Hout.
    assert (Hn : forall e, Forall eoi_plain e ->
              norm_token (match nth_error e (n - length a) with Some t => t | None => eoi_filler end) = eoi_filler).
    { intros e He. destruct (nth_error e (n - length a)) as [t|] eqn:E; [|reflexivity].
      apply eoi_plain_norm. rewrite Forall_forall in He. apply He. apply (nth_error_In _ _ E). }
    rewrite (Hn e1 H1), (Hn e2 H2). reflexivity.
Qed.

(** Two pending lists that differ only in their trailing end-of-input tokens give the same
    events, up to the identity of the end-of-input tokens. *)
Lemma spec_eoi_sim ops : forall k1 k2 a e1 e2,
  Forall eoi_plain e1 -> Forall eoi_plain e2 ->
  (forall n, In (OpLookahead n) ops -> (n < k1)%nat /\ (n < k2)%nat) ->
  map norm_event (spec_run k1 (a ++ e1) ops) = map norm_event (spec_run k2 (a ++ e2) ops).
Proof.
  induction ops as [|o ops IH]; intros k1 k2 a e1 e2 H1 H2 Hn; cbn [spec_run map]; [reflexivity|].
  assert (Hn' : forall n, In (OpLookahead n) ops -> (n < k1)%nat /\ (n < k2)%nat).
  { intros n Hin. apply Hn. right. exact Hin. }
  destruct o as [n| |].
  - cbn [spec_step fst snd]. f_equal; [|apply IH; assumption].
    destruct (Hn n (or_introl eq_refl)) as (Hk1 & Hk2).
    unfold spec_lookahead.
    destruct (Nat.leb_spec k1 n) as [Hle|_]; [lia|]. destruct (Nat.leb_spec k2 n) as [Hle|_]; [lia|].
    cbn [norm_event norm_result]. do 2 f_equal.
    rewrite !filter_app, (filter_sig_plain e1 H1), (filter_sig_plain e2 H2).
    apply pick_norm; assumption.
  - destruct a as [|t a'].
    + cbn [app]. destruct e1 as [|x1 e1']; destruct e2 as [|x2 e2']; cbn [spec_step spec_consume fst snd].
      * f_equal. apply (IH k1 k2 [] [] []); assumption.
      * inversion H2 as [|? ? Hx2 He2']; subst.
        rewrite (eoi_plain_not_skip x2 Hx2). cbn [fst snd norm_event norm_result].
        rewrite (eoi_plain_norm x2 Hx2). f_equal. apply (IH k1 k2 [] [] e2'); assumption.
      * inversion H1 as [|? ? Hx1 He1']; subst.
        rewrite (eoi_plain_not_skip x1 Hx1). cbn [fst snd norm_event norm_result].
        rewrite (eoi_plain_norm x1 Hx1). f_equal. apply (IH k1 k2 [] e1' []); assumption.
      * inversion H1 as [|? ? Hx1 He1']; inversion H2 as [|? ? Hx2 He2']; subst.
        rewrite (eoi_plain_not_skip x1 Hx1), (eoi_plain_not_skip x2 Hx2).
        cbn [fst snd norm_event norm_result].
        rewrite (eoi_plain_norm x1 Hx1), (eoi_plain_norm x2 Hx2). f_equal.
        apply (IH k1 k2 [] e1' e2'); assumption.
    + cbn [app spec_step spec_consume]. destruct (is_effectively_skip_token t); cbn [fst snd].
      * f_equal. apply (IH k1 k2 (t :: a')); assumption.
      * f_equal. apply IH; assumption.
  - cbn [spec_step fst snd].
    destruct (take_while_app_stop _ is_effectively_skip_token a e1 (plain_stop e1 H1)) as (T1 & D1).
    destruct (take_while_app_stop _ is_effectively_skip_token a e2 (plain_stop e2 H2)) as (T2 & D2).
    rewrite T1, T2, D1, D2. f_equal. apply IH; assumption.
Qed.

Lemma eoi_tokens_old_plain skips len fm ms k0 :
  is_state_skip skips EOI fm = false -> Forall eoi_plain (eoi_tokens_old skips len fm ms k0).
Proof.
  intros H. unfold eoi_tokens_old. generalize (iter_num ms 0).
  induction k0 as [|k0 IH]; intros num; cbn [iter_eois map]; constructor.
  - split; [reflexivity|]. cbn. exact H.
  - apply IH.
Qed.

Lemma eoi_tokens_plain skips len fm ms k0 :
  is_state_skip skips EOI fm = false -> Forall eoi_plain (eoi_tokens skips len fm ms k0).
Proof. apply eoi_tokens_old_plain. Qed.

(** [stream_k_independent]: for all lookahead sizes [k1, k2] and every schedule (whose
    lookahead indices are legal for both), the results of all calls are the same - up to the
    location/number of end-of-input tokens - and they are those of the buffer-less specification
    on [all_tokens ++ eoi_tokens] ([stream_refines_spec], [stream_tokens_eq]).
    Hypothesis: the end-of-input terminal is not in the skip list of the final scanner mode (it
    cannot be named in a parol grammar). *)
Theorem stream_k_independent skips len fm ms k1 k2 ops :
  is_state_skip skips EOI fm = false ->
  (forall n, In (OpLookahead n) ops -> (n < Nat.max 1 k1)%nat /\ (n < Nat.max 1 k2)%nat) ->
  map norm_event (run skips (stream_new skips len fm ms k1) ops) =
  map norm_event (run skips (stream_new skips len fm ms k2) ops).
Proof.
  intros Hskip Hn. rewrite !stream_refines_spec.
  rewrite (stream_tokens_eq skips len fm ms k1), (stream_tokens_eq skips len fm ms k2).
  apply spec_eoi_sim; try assumption; apply eoi_tokens_plain; exact Hskip.
Qed.

(** The delivered tokens are a prefix of the fixed sequence [all_tokens ++ eoi_tokens ++
    fillers], for every [k0] and every schedule. *)
Theorem delivered_prefix skips len fm ms k0 ops :
  exists m,
    delivered (run skips (stream_new skips len fm ms k0) ops) ++
    spec_state (Nat.max 1 k0) (stream_tokens skips len fm ms k0) ops
    = all_tokens skips len ms ++ eoi_tokens skips len fm ms k0 ++ repeat eoi_filler m.
Proof.
  rewrite stream_refines_spec.
  destruct (spec_delivered ops (Nat.max 1 k0) (stream_tokens skips len fm ms k0)) as (m & H & _).
  exists m. rewrite H, (stream_tokens_eq skips len fm ms k0), app_assoc. reflexivity.
Qed.

(** ** When everything was delivered *)

(** No scanner match has the type of the end-of-input terminal. *)
Definition types_ok (ms : list smatch) : bool := forallb (fun m => negb (N.eqb (m_type m) EOI)) ms.

Lemma gapped_Forall (Q : token -> Prop) ts : forall a n,
  (forall a n s, Q (gap_token a n s)) -> Forall Q ts -> Forall Q (gapped a n ts).
Proof.
  induction ts as [|t ts IH]; intros a n Hg H; cbn [gapped]; [constructor|].
  inversion H as [|? ? Ht Hts]; subst. apply Forall_app. split.
  - unfold gap_for. destruct (N.ltb a (t_start t)); [constructor; [apply Hg|constructor]|constructor].
  - constructor; [exact Ht|]. apply IH; assumption.
Qed.

Lemma match_tokens_types skips ms : forall num,
  map t_type (map (flag_token skips) (iter_matches ms num)) = map m_type ms.
Proof.
  induction ms as [|m ms IH]; intros num; cbn [iter_matches map]; [reflexivity|].
  rewrite IH. reflexivity.
Qed.

Lemma all_tokens_no_eoi skips len ms : types_ok ms = true ->
  Forall (fun t => t_type t <> EOI) (all_tokens skips len ms).
Proof.
  intros H. unfold all_tokens. apply Forall_app. split.
  - apply gapped_Forall; [intros a n s; cbn; discriminate|].
    unfold match_tokens. generalize 0%N.
    induction ms as [|m ms IH]; intros num; cbn [iter_matches map]; constructor.
    + cbn [types_ok forallb] in H. apply andb_prop in H. destruct H as (H & _).
      cbn. intros E. rewrite E in H. discriminate.
    + apply IH. cbn [types_ok forallb] in H. apply andb_prop in H. apply H.
  - unfold trailing_gap. destruct (N.ltb _ len); constructor; [cbn; discriminate|constructor].
Qed.

(** If [x] is not an element of kind [Q] but all of [a] is, a split [l1 ++ x :: l2 = a ++ e] puts
    [x] into [e]. *)
Lemma split_after (Q : token -> Prop) a : forall l1 x l2 e,
  Forall Q a -> ~ Q x -> l1 ++ x :: l2 = a ++ e -> exists e0, l1 = a ++ e0 /\ e = e0 ++ x :: l2.
Proof.
  induction a as [|y a IH]; intros l1 x l2 e Ha Hx H; cbn [app] in *.
  - exists l1. split; [reflexivity|symmetry; exact H].
  - inversion Ha as [|? ? Hy Ha']; subst. destruct l1 as [|z l1]; cbn [app] in H.
    + inversion H; subst. contradiction.
    + inversion H; subst. destruct (IH l1 x l2 e Ha' Hx H2) as (e0 & E1 & E2).
      exists e0. split; [rewrite E1; reflexivity|exact E2].
Qed.

Lemma spec_run_app k ops1 : forall p ops2,
  spec_run k p (ops1 ++ ops2) = spec_run k p ops1 ++ spec_run k (spec_state k p ops1) ops2.
Proof.
  induction ops1 as [|o ops1 IH]; intros p ops2; cbn [app spec_run spec_state]; [reflexivity|].
  rewrite IH. reflexivity.
Qed.

Lemma delivered_app e1 e2 : delivered (e1 ++ e2) = delivered e1 ++ delivered e2.
Proof. apply flat_map_app. Qed.

Lemma last_last_two (A : Type) (l : list A) a b d : last (l ++ [a; b]) d = b.
Proof.
  induction l as [|x l IH]; [reflexivity|].
  cbn [app]. destruct (l ++ [a; b]) eqn:E; [destruct l; discriminate|].
  cbn [last]. cbn [last] in IH. exact IH.
Qed.

Lemma eoi_tokens_old_types skips len fm ms k0 :
  Forall (fun x => t_type x = EOI) (eoi_tokens_old skips len fm ms k0).
Proof.
  unfold eoi_tokens_old. generalize (iter_num ms 0).
  induction k0 as [|k0 IH]; intros num; cbn [iter_eois map]; constructor; [reflexivity|apply IH].
Qed.

Lemma eoi_tokens_types skips len fm ms k0 :
  Forall (fun x => t_type x = EOI) (eoi_tokens skips len fm ms k0).
Proof. apply eoi_tokens_old_types. Qed.

(** Both parsers finish with [handle_additional_tokens] and a look at the first remaining
    token ([all_input_consumed] / the [Accept] action on end of input).  If that token is the
    end of input, ALL tokens were delivered: the delivered tokens are [all_tokens] followed by
    end-of-input tokens only (those the parser consumed before, normally none). *)
Theorem delivered_complete skips len fm ms k0 ops t : types_ok ms = true ->
  last (run skips (stream_new skips len fm ms k0) (ops ++ [OpTakeSkip; OpLookahead 0])) (EvSkip [])
    = EvLook (inr t) ->
  t_type t = EOI ->
  exists e0,
    delivered (run skips (stream_new skips len fm ms k0) (ops ++ [OpTakeSkip; OpLookahead 0]))
      = all_tokens skips len ms ++ e0 /\
    Forall (fun x => t_type x = EOI) e0.
Proof.
  intros Hty Hlast Ht. rewrite stream_refines_spec in Hlast. rewrite stream_refines_spec.
  pose proof (stream_tokens_eq skips len fm ms k0) as Heq.
  pose proof (eoi_tokens_types skips len fm ms k0) as Heois0.
  set (p := stream_tokens skips len fm ms k0) in *. set (k := Nat.max 1 k0) in *.
  rewrite spec_run_app in Hlast. rewrite spec_run_app, delivered_app.
  destruct (spec_delivered ops k p) as (m & H & Hm).
  set (p0 := spec_state k p ops) in *.
  cbn [spec_run spec_step fst snd] in Hlast. cbn [spec_run spec_step fst snd].
  rewrite last_last_two in Hlast.
  cbn [delivered flat_map ev_tokens app]. rewrite app_nil_r.
  pose proof (take_drop_while _ is_effectively_skip_token p0) as Htd.
  assert (Heois : Forall (fun x => t_type x = EOI) (eoi_tokens skips len fm ms k0 ++ repeat eoi_filler m)).
  { apply Forall_app. split; [exact Heois0|].
    apply Forall_forall. intros x Hx. apply in_repeat in Hx. subst x. reflexivity. }
  assert (Hall : (delivered (spec_run k p ops) ++ take_while is_effectively_skip_token p0)
                 ++ drop_while is_effectively_skip_token p0
                 = all_tokens skips len ms ++ (eoi_tokens skips len fm ms k0 ++ repeat eoi_filler m)).
  { rewrite <- app_assoc, Htd, H, Heq, <- app_assoc. reflexivity. }
  destruct (drop_while is_effectively_skip_token p0) as [|x l2] eqn:Ed.
  - rewrite app_nil_r in Hall. eexists. split; [exact Hall|exact Heois].
  - assert (Hx : is_effectively_skip_token x = false) by (apply (drop_while_head _ _ _ _ _ Ed)).
    assert (Hxt : x = t).
    { unfold spec_lookahead in Hlast. destruct (k <=? 0)%nat; [discriminate|].
      cbn [filter] in Hlast. unfold significant at 1 in Hlast. rewrite Hx in Hlast.
      cbn [negb pick nth_error] in Hlast. inversion Hlast. reflexivity. }
    subst x.
    destruct (split_after (fun y => t_type y <> EOI) (all_tokens skips len ms) _ t l2 _
                (all_tokens_no_eoi skips len ms Hty) (fun Hc => Hc Ht) Hall) as (e0 & E1 & E2).
    exists e0. split; [exact E1|]. rewrite E2 in Heois. apply Forall_app in Heois. apply Heois.
Qed.

(** ** Comments
    [handle_additional_tokens] (the only caller of [take_skip_tokens] in both parsers) hands every
    comment token among the tokens it took to [on_comment], in order. *)
Definition comments_of (ts : list token) : list token := filter is_comment_token ts.

Definition comment_trace (evs : list event) : list token :=
  flat_map (fun e => match e with EvSkip ts => comments_of ts | _ => [] end) evs.

Lemma comments_of_app a b : comments_of (a ++ b) = comments_of a ++ comments_of b.
Proof. apply filter_app. Qed.

Lemma comment_is_skip t : is_comment_token t = true -> is_effectively_skip_token t = true.
Proof.
  unfold is_comment_token, is_effectively_skip_token, is_skip_token, LINE_COMMENT, BLOCK_COMMENT.
  intros H. apply orb_prop in H. destruct H as [H|H]; apply N.eqb_eq in H; rewrite H; reflexivity.
Qed.

(** Comments are never consumed: the on_comment calls are exactly the comments among the
    delivered tokens. *)
Lemma spec_comment_trace ops : forall k p,
  comment_trace (spec_run k p ops) = comments_of (delivered (spec_run k p ops)).
Proof.
  induction ops as [|o ops IH]; intros k p; cbn [spec_run]; [reflexivity|].
  change (comment_trace (snd (spec_step k p o) :: spec_run k (fst (spec_step k p o)) ops))
    with ((match snd (spec_step k p o) with EvSkip ts => comments_of ts | _ => [] end)
          ++ comment_trace (spec_run k (fst (spec_step k p o)) ops)).
  change (delivered (snd (spec_step k p o) :: spec_run k (fst (spec_step k p o)) ops))
    with (ev_tokens (snd (spec_step k p o)) ++ delivered (spec_run k (fst (spec_step k p o)) ops)).
  rewrite comments_of_app, IH. f_equal.
  destruct o as [n| |]; cbn [spec_step snd ev_tokens]; try reflexivity.
  destruct p as [|t p']; cbn [spec_consume]; [reflexivity|].
  destruct (is_effectively_skip_token t) eqn:E; cbn [fst ev_tokens]; [reflexivity|].
  unfold comments_of; cbn [filter].
  destruct (is_comment_token t) eqn:Ec; [|reflexivity].
  rewrite (comment_is_skip t Ec) in E. discriminate.
Qed.

Lemma comments_of_eois l : Forall (fun x => t_type x = EOI) l -> comments_of l = [].
Proof.
  induction 1 as [|x l Hx _ IH]; cbn [comments_of filter]; [reflexivity|].
  unfold is_comment_token. rewrite Hx. cbn. exact IH.
Qed.

(** [comments_once_in_order]: for every [k0] and every schedule, the sequence of tokens
    handed to [on_comment] followed by the comments among the tokens not yet delivered is the
    list of all comment tokens of the input, in input order: every comment the parse reaches is
    reported exactly once, in order, none is invented. *)
Theorem comments_once_in_order_all_k skips len fm ms k0 ops :
  comment_trace (run skips (stream_new skips len fm ms k0) ops) ++
  comments_of (spec_state (Nat.max 1 k0) (stream_tokens skips len fm ms k0) ops)
  = comments_of (all_tokens skips len ms).
Proof.
  destruct (delivered_prefix skips len fm ms k0 ops) as (m & H).
  rewrite stream_refines_spec in H. rewrite stream_refines_spec, spec_comment_trace.
  rewrite <- comments_of_app, H, !comments_of_app.
  rewrite (comments_of_eois (eoi_tokens skips len fm ms k0) (eoi_tokens_types skips len fm ms k0)).
  rewrite (comments_of_eois (repeat eoi_filler m)), app_nil_r; [reflexivity|].
  apply Forall_forall. intros x Hx. apply in_repeat in Hx. subst x. reflexivity.
Qed.

(** The statement as first pinned; since [TokenStream::new] hands [max(1,k)] to the iterator the
    hypothesis [1 <= k0] is no longer needed ([comments_once_in_order_all_k]). *)
Theorem comments_once_in_order skips len fm ms k0 ops : (1 <= k0)%nat ->
  comment_trace (run skips (stream_new skips len fm ms k0) ops) ++
  comments_of (spec_state (Nat.max 1 k0) (stream_tokens skips len fm ms k0) ops)
  = comments_of (all_tokens skips len ms).
Proof. intros _. apply comments_once_in_order_all_k. Qed.

(** ... and all of them when the parse reached the end of the input. *)
Theorem comments_all_delivered_all_k skips len fm ms k0 ops t : types_ok ms = true ->
  last (run skips (stream_new skips len fm ms k0) (ops ++ [OpTakeSkip; OpLookahead 0])) (EvSkip [])
    = EvLook (inr t) ->
  t_type t = EOI ->
  comment_trace (run skips (stream_new skips len fm ms k0) (ops ++ [OpTakeSkip; OpLookahead 0]))
  = comments_of (all_tokens skips len ms).
Proof.
  intros Hty Hlast Ht.
  destruct (delivered_complete skips len fm ms k0 ops t Hty Hlast Ht) as (e0 & H & He0).
  rewrite stream_refines_spec in H. rewrite stream_refines_spec, spec_comment_trace, H.
  rewrite comments_of_app, (comments_of_eois e0 He0), app_nil_r. reflexivity.
Qed.

Theorem comments_all_delivered skips len fm ms k0 ops t : (1 <= k0)%nat -> types_ok ms = true ->
  last (run skips (stream_new skips len fm ms k0) (ops ++ [OpTakeSkip; OpLookahead 0])) (EvSkip [])
    = EvLook (inr t) ->
  t_type t = EOI ->
  comment_trace (run skips (stream_new skips len fm ms k0) (ops ++ [OpTakeSkip; OpLookahead 0]))
  = comments_of (all_tokens skips len ms).
Proof. intros _. apply comments_all_delivered_all_k. Qed.

(** ** The parser input as a function of the scanner output *)
Definition type_is_skip (ty : N) : bool :=
  (N.ltb EOI ty && N.ltb ty FIRST_USER_TOKEN) || N.eqb ty INVALID_TOKEN.

(** A match yields a token the parser sees: neither a built-in skip type nor in the skip list of
    the mode in which it was produced. *)
Definition match_significant (skips : list (list N)) (m : smatch) : bool :=
  negb (type_is_skip (m_type m) || is_state_skip skips (m_type m) (m_mode m)).

(** The token types the parser gets (without the trailing end of input). *)
Definition parser_input (skips : list (list N)) (ms : list smatch) : list N :=
  map m_type (filter (match_significant skips) ms).

Lemma filter_sig_gapped ts : forall a n, filter significant (gapped a n ts) = filter significant ts.
Proof.
  induction ts as [|t ts IH]; intros a n; cbn [gapped]; [reflexivity|].
  rewrite filter_app, gap_for_not_significant. cbn [app filter]. rewrite IH. reflexivity.
Qed.

Theorem parser_input_spec skips len ms :
  map t_type (significant_tokens skips len ms) = parser_input skips ms.
Proof.
  unfold significant_tokens, all_tokens, parser_input.
  rewrite filter_app, filter_sig_gapped.
  assert (Htg : forall a n, filter significant (trailing_gap len a n) = []).
  { intros a n. unfold trailing_gap. destruct (N.ltb a len); reflexivity. }
  rewrite Htg, app_nil_r. unfold match_tokens. generalize 0%N.
  induction ms as [|m ms IH]; intros num; cbn [iter_matches map filter]; [reflexivity|].
  unfold significant at 1, match_significant at 1.
  change (is_effectively_skip_token (flag_token skips (m_mode m, fst (token_from_match m num))))
    with (type_is_skip (m_type m) || is_state_skip skips (m_type m) (m_mode m)).
  destruct (negb (type_is_skip (m_type m) || is_state_skip skips (m_type m) (m_mode m)));
    cbn [map]; rewrite IH; reflexivity.
Qed.

(** Skip lists without entries: only the built-in skip tokens. *)
Definition no_skip_lists (skips : list (list N)) : Prop := Forall (fun l => l = []) skips.

Lemma no_skip_lists_state_skip skips ty mode : no_skip_lists skips -> is_state_skip skips ty mode = false.
Proof.
  intros H. unfold is_state_skip. destruct (nth_error skips (N.to_nat mode)) as [l|] eqn:E; [|reflexivity].
  apply nth_error_In in E. unfold no_skip_lists in H. rewrite Forall_forall in H.
  rewrite (H l E). reflexivity.
Qed.

(** With built-in skip tokens only, the parser input is the list of match types that are not
    1..4 or [INVALID_TOKEN] - independent of positions, gaps, modes and of all skipped matches. *)
Theorem parser_input_builtin skips ms : no_skip_lists skips ->
  parser_input skips ms = filter (fun ty => negb (type_is_skip ty)) (map m_type ms).
Proof.
  intros H. unfold parser_input. induction ms as [|m ms IH]; cbn [filter map]; [reflexivity|].
  unfold match_significant at 1. rewrite (no_skip_lists_state_skip skips _ _ H), orb_false_r.
  destruct (negb (type_is_skip (m_type m))); cbn [map]; rewrite IH; reflexivity.
Qed.

(** The significant part of the stream: [parser_input] followed by [k0] end-of-input tokens. *)
Lemma stream_view_types skips len fm ms k0 : is_state_skip skips EOI fm = false ->
  map t_type (filter significant (stream_tokens skips len fm ms k0)) =
  parser_input skips ms ++ repeat EOI (Nat.max 1 k0).
Proof.
  intros Hs. rewrite (stream_tokens_eq skips len fm ms k0), filter_app, map_app.
  fold (significant_tokens skips len ms). rewrite parser_input_spec. f_equal.
  rewrite (filter_sig_plain _ (eoi_tokens_plain skips len fm ms k0 Hs)).
  unfold eoi_tokens, eoi_tokens_old. generalize (iter_num ms 0). generalize (Nat.max 1 k0).
  intros k. induction k as [|k IH]; intros num; cbn [iter_eois map repeat]; [reflexivity|].
  rewrite IH. reflexivity.
Qed.

(** ** LL parser: how [LLKParser::parse_into] drives the stream
    - [LLLookahead n]: [lookahead_token_type(n)] from [LookaheadDFA::eval] (prediction), [n < k];
    - [LLMatch]: the terminal-match step for a terminal on the parse stack:
        [let token = stream.lookahead(0)?; if token.token_type == t {]
        [handle_additional_tokens(..)?; stream.consume()?; .. add_token(&token) ..]
      i.e. [lookahead(0)], [take_skip_tokens] (every token is added to the tree, comments go to
      [on_comment]), [consume];
    - [LLFinish]: the [handle_additional_tokens] after the main loop.
    The LL parser itself evaluates no skip predicate; all decisions are functions of the results
    of [lookahead]/[consume]. *)
Inductive ll_op := LLLookahead (n : nat) | LLMatch | LLFinish.

Definition ll_sched1 (o : ll_op) : list op :=
  match o with
  | LLLookahead n => [OpLookahead n]
  | LLMatch => [OpLookahead 0; OpTakeSkip; OpConsume]
  | LLFinish => [OpTakeSkip]
  end.

Definition ll_sched (l : list ll_op) : list op := flat_map ll_sched1 l.

Section Views.
Variable A : Type.
Variable proj : token -> A.     (* what is compared: e.g. [t_type], or type and text *)

Definition proj_result (r : lexerr + token) : lexerr + A :=
  match r with inl e => inl e | inr t => inr (proj t) end.

(** What the parser can base decisions on: results of [lookahead] and [consume]. *)
Definition visible (e : event) : list (lexerr + A) :=
  match e with
  | EvLook r => [proj_result r]
  | EvConsume r => [proj_result r]
  | EvSkip _ => []
  end.

Definition observations (evs : list event) : list (lexerr + A) := flat_map visible evs.

(** Two pending lists have the same significant tokens (as far as [proj] can tell). *)
Definition same_view (p1 p2 : list token) : Prop :=
  map proj (filter significant p1) = map proj (filter significant p2).

Lemma pick_proj l1 l2 n : map proj l1 = map proj l2 -> proj (pick l1 n) = proj (pick l2 n).
Proof.
  intros H. unfold pick.
  assert (E : option_map proj (nth_error l1 n) = option_map proj (nth_error l2 n)).
  { rewrite <- !nth_error_map, H. reflexivity. }
  destruct (nth_error l1 n), (nth_error l2 n); cbn [option_map] in E; congruence.
Qed.

Lemma view_look k n p1 p2 : same_view p1 p2 ->
  proj_result (spec_lookahead k n p1) = proj_result (spec_lookahead k n p2).
Proof.
  intros H. unfold spec_lookahead. destruct (k <=? n)%nat; [reflexivity|].
  cbn [proj_result]. f_equal. apply pick_proj. exact H.
Qed.

Lemma view_drop p1 p2 : same_view p1 p2 ->
  same_view (drop_while is_effectively_skip_token p1) (drop_while is_effectively_skip_token p2).
Proof.
  unfold same_view. rewrite !filter_sig_drop. intros H; exact H.
Qed.

(** A list that does not start with a skip token. *)
Definition head_ok (q : list token) : Prop :=
  forall x r, q = x :: r -> is_effectively_skip_token x = false.

Lemma drop_while_head_ok p : head_ok (drop_while is_effectively_skip_token p).
Proof. intros x r H. apply (drop_while_head _ _ _ _ _ H). Qed.

Lemma view_consume q1 q2 : head_ok q1 -> head_ok q2 -> same_view q1 q2 ->
  proj_result (fst (spec_consume q1)) = proj_result (fst (spec_consume q2)) /\
  same_view (snd (spec_consume q1)) (snd (spec_consume q2)).
Proof.
  intros H1 H2 H. unfold same_view in *.
  assert (Hs : forall q x r, head_ok q -> q = x :: r -> significant x = true).
  { intros q x r Hq E. unfold significant. rewrite (Hq x r E). reflexivity. }
  destruct q1 as [|t1 r1]; destruct q2 as [|t2 r2]; cbn [spec_consume].
  - split; reflexivity.
  - cbn [filter] in H. rewrite (Hs _ t2 r2 H2 eq_refl) in H. discriminate.
  - cbn [filter] in H. rewrite (Hs _ t1 r1 H1 eq_refl) in H. discriminate.
  - cbn [filter] in H. rewrite (Hs _ t1 r1 H1 eq_refl), (Hs _ t2 r2 H2 eq_refl) in H.
    rewrite (H1 t1 r1 eq_refl), (H2 t2 r2 eq_refl). cbn [map] in H.
    inversion H as [[Ht Hr]]. cbn [fst snd proj_result]. split; [f_equal; exact Ht|exact Hr].
Qed.

(** [skip_irrelevant_ll] on the specification: the observations of an LL parser depend only on
    the significant tokens. *)
Theorem skip_irrelevant_ll_spec lops : forall k p1 p2, same_view p1 p2 ->
  observations (spec_run k p1 (ll_sched lops)) = observations (spec_run k p2 (ll_sched lops)).
Proof.
  induction lops as [|o lops IH]; intros k p1 p2 H; [reflexivity|].
  destruct o as [n| |]; cbn [ll_sched flat_map ll_sched1 app spec_run spec_step fst snd observations visible].
  - f_equal; [apply view_look; exact H|]. apply (IH k p1 p2 H).
  - pose proof (view_drop p1 p2 H) as Hd.
    destruct (view_consume _ _ (drop_while_head_ok p1) (drop_while_head_ok p2) Hd) as (C1 & C2).
    f_equal; [apply view_look; exact H|]. f_equal; [exact C1|]. apply (IH k _ _ C2).
  - apply (IH k _ _ (view_drop p1 p2 H)).
Qed.

End Views.

(** The token [LLMatch] adds to the tree (the clone returned by [lookahead(0)]) is the token
    [consume] removes. *)
Lemma ll_match_same_token k p t : spec_lookahead k 0 p = inr t ->
  fst (spec_consume (drop_while is_effectively_skip_token p)) = inr t.
Proof.
  unfold spec_lookahead. destruct (k <=? 0)%nat; [discriminate|]. intros H. inversion H as [Ht]. clear H.
  rewrite <- (filter_sig_drop p).
  pose proof (drop_while_head_ok p) as Hh.
  destruct (drop_while is_effectively_skip_token p) as [|x r]; [reflexivity|].
  cbn [spec_consume filter]. unfold significant at 1. rewrite (Hh x r eq_refl). reflexivity.
Qed.

(** [skip_irrelevant_ll]: two inputs (texts, scanner outputs, skip lists may all differ) whose
    significant token sequences agree under [proj] give the LL parser the same observations,
    whatever it does.  No condition on the skip lists: the LL parser is not affected by D9. *)
Theorem skip_irrelevant_ll (A : Type) (proj : token -> A)
    skips1 len1 fm1 ms1 skips2 len2 fm2 ms2 k0 lops :
  same_view A proj (stream_tokens skips1 len1 fm1 ms1 k0) (stream_tokens skips2 len2 fm2 ms2 k0) ->
  observations A proj (run skips1 (stream_new skips1 len1 fm1 ms1 k0) (ll_sched lops)) =
  observations A proj (run skips2 (stream_new skips2 len2 fm2 ms2 k0) (ll_sched lops)).
Proof. intros H. rewrite !stream_refines_spec. apply skip_irrelevant_ll_spec. exact H. Qed.

(** Instance: compare token types.  The parser input is [parser_input]; with built-in skip
    tokens only it is the filtered list of match types ([parser_input_builtin]). *)
Corollary skip_irrelevant_ll_types skips1 len1 fm1 ms1 skips2 len2 fm2 ms2 k0 lops :
  is_state_skip skips1 EOI fm1 = false -> is_state_skip skips2 EOI fm2 = false ->
  parser_input skips1 ms1 = parser_input skips2 ms2 ->
  observations N t_type (run skips1 (stream_new skips1 len1 fm1 ms1 k0) (ll_sched lops)) =
  observations N t_type (run skips2 (stream_new skips2 len2 fm2 ms2 k0) (ll_sched lops)).
Proof.
  intros H1 H2 H. apply skip_irrelevant_ll. unfold same_view.
  rewrite (stream_view_types skips1 len1 fm1 ms1 k0 H1), (stream_view_types skips2 len2 fm2 ms2 k0 H2), H.
  reflexivity.
Qed.

(** ** LR parser: parse tree stack, [pop_n], [call_action] *)

(** A stream implementation: the three operations the parsers use. *)
Record impl (St : Type) := mkImpl {
  i_look : nat -> St -> (lexerr + token) * St;
  i_cons : St -> (lexerr + token) * St;
  i_skip : St -> list token * St
}.
Arguments i_look {St} _ _ _.
Arguments i_cons {St} _ _.
Arguments i_skip {St} _ _.

Definition real_impl (skips : list (list N)) : impl stream :=
  mkImpl stream (lookahead skips) (consume skips) take_skip_tokens.

Definition spec_impl (k : nat) : impl (list token) :=
  mkImpl (list token)
    (fun n p => (spec_lookahead k n p, p))
    spec_consume
    (fun p => (take_while is_effectively_skip_token p, drop_while is_effectively_skip_token p)).

(** [LRParseTree] (with [trim_parse_tree = false]: children are always kept). *)
Inductive lrtree :=
| LRTerminal (t : token)
| LRNonTerminal (nt : N) (children : list lrtree).

(** [ParseTreeType] as handed to the semantic action ([From<&LRParseTree>]). *)
Inductive arg := ArgT (t : token) | ArgN (nt : N).

Definition to_arg (x : lrtree) : arg :=
  match x with LRTerminal t => ArgT t | LRNonTerminal nt _ => ArgN nt end.

Fixpoint leaves (x : lrtree) : list token :=
  match x with
  | LRTerminal t => [t]
  | LRNonTerminal _ cs => flat_map leaves cs
  end.

(** The leaves of a parse tree stack (top first), read from the bottom. *)
Definition stack_leaves (stack : list lrtree) : list token := flat_map leaves (rev stack).

(** [handle_additional_tokens] pushes the skip tokens in order. *)
Definition push_terminals (ts : list token) (stack : list lrtree) : list lrtree :=
  rev (map LRTerminal ts) ++ stack.

Lemma filter_rev (A : Type) (f : A -> bool) l : filter f (rev l) = rev (filter f l).
Proof.
  induction l as [|x l IH]; cbn [rev filter]; [reflexivity|].
  rewrite filter_app, IH. cbn [filter]. destruct (f x); cbn [rev]; [reflexivity|apply app_nil_r].
Qed.

Lemma leaves_terminals ts : flat_map leaves (map LRTerminal ts) = ts.
Proof. induction ts as [|t ts IH]; cbn [map flat_map leaves app]; [reflexivity|]. rewrite IH. reflexivity. Qed.

Lemma stack_leaves_push ts stack : stack_leaves (push_terminals ts stack) = stack_leaves stack ++ ts.
Proof.
  unfold stack_leaves, push_terminals.
  rewrite rev_app_distr, rev_involutive, flat_map_app, leaves_terminals. reflexivity.
Qed.

Lemma stack_leaves_cons_terminal t stack : stack_leaves (LRTerminal t :: stack) = stack_leaves stack ++ [t].
Proof. unfold stack_leaves. cbn [rev]. rewrite flat_map_app. reflexivity. Qed.

Section LRStack.

(** The skip predicate used by [call_action], in BOTH places.  Current code:
    [is_effectively_skip_token] ([lr_skip_pred]); pinned commit: [is_skip_token]
    ([lr_skip_pred_old]). *)
Variable P : token -> bool.

(** The closure given to [pop_n] / the negated filter on the children. *)
Definition counts (x : lrtree) : bool :=
  match x with LRTerminal t => negb (P t) | LRNonTerminal _ _ => true end.

(** The [while i < n && len < self.stack.len()] loop of [pop_n]: the resulting [len];
    [stack] is top first, [n] is the number of nodes still to be counted. *)
Fixpoint pop_len (stack : list lrtree) (n : nat) : nat :=
  match stack with
  | [] => O
  | x :: stack' =>
      match n with
      | O => O
      | S n' => S (pop_len stack' (if counts x then n' else S n'))
      end
  end.

(** [pop_n]: the popped nodes (bottom first, as [split_off] returns them) and the rest. *)
Definition pop_n (n : nat) (stack : list lrtree) : list lrtree * list lrtree :=
  let l := pop_len stack n in (rev (firstn l stack), skipn l stack).

(** [call_action] for a production of length [n] and left-hand side [nt]: the arguments handed
    to the semantic action and the new parse tree stack.  (A debug build additionally asserts
    that there are [n] arguments.) *)
Definition call_action (n : nat) (nt : N) (stack : list lrtree) : list arg * list lrtree :=
  let r := pop_n n stack in
  (map to_arg (filter counts (fst r)), LRNonTerminal nt (fst r) :: snd r).

(** The stack as the LR automaton sees it: the counted nodes. *)
Definition sview (stack : list lrtree) : list arg := map to_arg (filter counts stack).

Lemma pop_len_spec stack : forall n,
  filter counts (firstn (pop_len stack n) stack) = firstn n (filter counts stack) /\
  filter counts (skipn (pop_len stack n) stack) = skipn n (filter counts stack).
Proof.
  induction stack as [|x stack IH]; intros n; cbn [pop_len].
  - cbn [firstn skipn filter]. rewrite firstn_nil, skipn_nil. split; reflexivity.
  - destruct n as [|n']; [split; reflexivity|].
    cbn [firstn skipn filter]. destruct (counts x) eqn:E.
    + destruct (IH n') as (I1 & I2). cbn [firstn skipn]. rewrite I1, I2. split; reflexivity.
    + destruct (IH (S n')) as (I1 & I2). rewrite I1, I2. split; reflexivity.
Qed.

(** [call_action] hands the action the [n] topmost counted nodes and replaces them by the new
    non-terminal - for EVERY predicate [P]. *)
Theorem call_action_spec n nt stack :
  fst (call_action n nt stack) = rev (firstn n (sview stack)) /\
  sview (snd (call_action n nt stack)) = ArgN nt :: skipn n (sview stack).
Proof.
  unfold call_action, pop_n, sview; cbn [fst snd filter counts map to_arg].
  destruct (pop_len_spec stack n) as (H1 & H2).
  rewrite filter_rev, H1, H2, map_rev, firstn_map, skipn_map. split; reflexivity.
Qed.

(** ... and never loses a leaf. *)
Lemma call_action_leaves n nt stack : stack_leaves (snd (call_action n nt stack)) = stack_leaves stack.
Proof.
  unfold call_action, pop_n, stack_leaves; cbn [fst snd rev].
  rewrite flat_map_app. cbn [flat_map leaves]. rewrite app_nil_r, <- flat_map_app, <- rev_app_distr, firstn_skipn.
  reflexivity.
Qed.

Lemma sview_push_skips ts stack : Forall (fun t => P t = true) ts ->
  sview (push_terminals ts stack) = sview stack.
Proof.
  intros H. unfold sview, push_terminals. rewrite filter_app.
  assert (E : filter counts (rev (map LRTerminal ts)) = []).
  { rewrite filter_rev. replace (filter counts (map LRTerminal ts)) with (@nil lrtree); [reflexivity|].
    induction H as [|t ts Ht _ IH]; cbn [map filter counts]; [reflexivity|]. rewrite Ht. cbn [negb]. exact IH. }
  rewrite E. reflexivity.
Qed.

Lemma sview_push_token t stack : P t = false -> sview (LRTerminal t :: stack) = ArgT t :: sview stack.
Proof. intros H. unfold sview. cbn [filter counts]. rewrite H. reflexivity. Qed.

(** *** The parse loop of [LRParser::parse_into] as far as stream and parse tree stack go
    Each loop iteration starts with [handle_additional_tokens] and
    [lookahead_token_type(0)]; then, depending on the table's action,
    - [ItShift]: [consume], push the token;
    - [ItReduce n nt]: [call_action] for a production of length [n] ([Reduce], and [Accept] with
      the start production);
    - [ItFinish] is the [handle_additional_tokens] after the loop. *)
Inductive lr_iter := ItShift | ItReduce (n : nat) (nt : N) | ItFinish.

Inductive lr_obs :=
| LObsLook (r : lexerr + token)     (* the lookahead (the parser uses its type) *)
| LObsShift (r : lexerr + token)    (* the shifted token *)
| LObsArgs (l : list arg).          (* arguments of the semantic action *)

Section LRDriver.
Variable St : Type.
Variable im : impl St.

(** stream, parse tree stack (top first), tokens handed to [on_comment] so far *)
Definition lr_conf : Type := St * list lrtree * list token.

Definition lc_stream (c : lr_conf) : St := fst (fst c).
Definition lc_stack (c : lr_conf) : list lrtree := snd (fst c).
Definition lc_comments (c : lr_conf) : list token := snd c.

Definition lr_handle_additional_tokens (c : lr_conf) : lr_conf :=
  let r := i_skip im (lc_stream c) in
  (snd r, push_terminals (fst r) (lc_stack c), lc_comments c ++ comments_of (fst r)).

Definition lr_iter_step (it : lr_iter) (c : lr_conf) : lr_conf * list lr_obs :=
  let c1 := lr_handle_additional_tokens c in
  match it with
  | ItFinish => (c1, [])
  | ItShift =>
      let r := i_look im 0 (lc_stream c1) in
      let r2 := i_cons im (snd r) in
      ((snd r2,
        match fst r2 with inr t => LRTerminal t :: lc_stack c1 | inl _ => lc_stack c1 end,
        lc_comments c1),
       [LObsLook (fst r); LObsShift (fst r2)])
  | ItReduce n nt =>
      let r := i_look im 0 (lc_stream c1) in
      let ca := call_action n nt (lc_stack c1) in
      ((snd r, snd ca, lc_comments c1), [LObsLook (fst r); LObsArgs (fst ca)])
  end.

Fixpoint lr_run (its : list lr_iter) (c : lr_conf) : lr_conf * list lr_obs :=
  match its with
  | [] => (c, [])
  | it :: its' =>
      let r := lr_iter_step it c in
      let r' := lr_run its' (fst r) in
      (fst r', snd r ++ snd r')
  end.

End LRDriver.
End LRStack.

Arguments lc_stream {St} c.
Arguments lc_stack {St} c.
Arguments lc_comments {St} c.

(** Two stream implementations that answer every call alike drive the LR parser alike. *)
Section LRBisim.
Variable P : token -> bool.
Variables St1 St2 : Type.
Variable im1 : impl St1.
Variable im2 : impl St2.
Variable R : St1 -> St2 -> Prop.
Hypothesis Hlook : forall n s1 s2, R s1 s2 ->
  fst (i_look im1 n s1) = fst (i_look im2 n s2) /\ R (snd (i_look im1 n s1)) (snd (i_look im2 n s2)).
Hypothesis Hcons : forall s1 s2, R s1 s2 ->
  fst (i_cons im1 s1) = fst (i_cons im2 s2) /\ R (snd (i_cons im1 s1)) (snd (i_cons im2 s2)).
Hypothesis Hskip : forall s1 s2, R s1 s2 ->
  fst (i_skip im1 s1) = fst (i_skip im2 s2) /\ R (snd (i_skip im1 s1)) (snd (i_skip im2 s2)).

Definition conf_rel (c1 : lr_conf St1) (c2 : lr_conf St2) : Prop :=
  R (lc_stream c1) (lc_stream c2) /\ lc_stack c1 = lc_stack c2 /\ lc_comments c1 = lc_comments c2.

Lemma lr_iter_step_bisim it c1 c2 : conf_rel c1 c2 ->
  snd (lr_iter_step P St1 im1 it c1) = snd (lr_iter_step P St2 im2 it c2) /\
  conf_rel (fst (lr_iter_step P St1 im1 it c1)) (fst (lr_iter_step P St2 im2 it c2)).
Proof.
  intros (HR & Hst & Hcm). unfold lr_iter_step, lr_handle_additional_tokens.
  destruct (Hskip _ _ HR) as (S1 & S2).
  destruct it as [|n nt|]; cbn [fst snd lc_stream lc_stack lc_comments].
  - destruct (Hlook 0 _ _ S2) as (L1 & L2). destruct (Hcons _ _ L2) as (C1 & C2).
    rewrite L1, C1, S1, Hst, Hcm. split; [reflexivity|].
    unfold conf_rel; cbn [fst snd lc_stream lc_stack lc_comments]. repeat split; assumption.
  - destruct (Hlook 0 _ _ S2) as (L1 & L2).
    rewrite L1, S1, Hst, Hcm. split; [reflexivity|].
    unfold conf_rel; cbn [fst snd lc_stream lc_stack lc_comments]. repeat split; assumption.
  - rewrite S1, Hst, Hcm. split; [reflexivity|].
    unfold conf_rel; cbn [fst snd lc_stream lc_stack lc_comments]. repeat split; assumption.
Qed.

Lemma lr_run_bisim its : forall c1 c2, conf_rel c1 c2 ->
  snd (lr_run P St1 im1 its c1) = snd (lr_run P St2 im2 its c2) /\
  conf_rel (fst (lr_run P St1 im1 its c1)) (fst (lr_run P St2 im2 its c2)).
Proof.
  induction its as [|it its IH]; intros c1 c2 H; cbn [lr_run fst snd].
  - split; [reflexivity|exact H].
  - destruct (lr_iter_step_bisim it c1 c2 H) as (E1 & E2).
    destruct (IH _ _ E2) as (I1 & I2). rewrite E1, I1. split; [reflexivity|exact I2].
Qed.

End LRBisim.

(** The buffered stream and the specification drive the LR parser alike. *)
Lemma lr_real_vs_spec P skips k its st p stack cm : Rel skips st p -> Full k st ->
  snd (lr_run P stream (real_impl skips) its (st, stack, cm)) =
  snd (lr_run P (list token) (spec_impl k) its (p, stack, cm)) /\
  lc_stack (fst (lr_run P stream (real_impl skips) its (st, stack, cm))) =
  lc_stack (fst (lr_run P (list token) (spec_impl k) its (p, stack, cm))) /\
  lc_comments (fst (lr_run P stream (real_impl skips) its (st, stack, cm))) =
  lc_comments (fst (lr_run P (list token) (spec_impl k) its (p, stack, cm))).
Proof.
  intros HR HF.
  destruct (lr_run_bisim P stream (list token) (real_impl skips) (spec_impl k)
              (fun s q => Rel skips s q /\ Full k s)) with (its := its)
              (c1 := (st, stack, cm)) (c2 := (p, stack, cm)) as (E1 & _ & E2 & E3).
  - intros n s1 s2 (H1 & H2). cbn [real_impl spec_impl i_look fst snd].
    destruct (lookahead_refines skips k s1 s2 n H1 H2) as (L1 & L2). rewrite L1, L2.
    split; [reflexivity|split; assumption].
  - intros s1 s2 (H1 & H2). cbn [real_impl spec_impl i_cons].
    destruct (consume_refines skips k s1 s2 H1 H2) as (C1 & C2 & C3).
    split; [exact C1|split; assumption].
  - intros s1 s2 (H1 & H2). cbn [real_impl spec_impl i_skip fst snd].
    destruct (take_skip_refines skips k s1 s2 H1 H2) as (T1 & T2 & T3).
    split; [exact T1|split; assumption].
  - unfold conf_rel; cbn [lc_stream lc_stack lc_comments fst snd].
    split; [split; assumption|split; reflexivity].
  - split; [exact E1|split; assumption].
Qed.

(** *** Skipped tokens and the LR parser *)
Section LRViews.
Variable P : token -> bool.
Variable A : Type.
Variable proj : token -> A.

Inductive plobs :=
| PLook (r : lexerr + A)
| PShift (r : lexerr + A)
| PArgs (l : list (A + N)).

Definition parg (a : arg) : A + N := match a with ArgT t => inl (proj t) | ArgN nt => inr nt end.

Definition pobs (o : lr_obs) : plobs :=
  match o with
  | LObsLook r => PLook (proj_result A proj r)
  | LObsShift r => PShift (proj_result A proj r)
  | LObsArgs l => PArgs (map parg l)
  end.

(** [call_action]'s predicate agrees with the predicate of the token buffer on these tokens. *)
Definition agree (p : list token) : Prop := Forall (fun t => P t = is_effectively_skip_token t) p.

Hypothesis HPf : P eoi_filler = false.

Lemma agree_split p : agree p ->
  Forall (fun t => P t = true) (take_while is_effectively_skip_token p) /\
  agree (drop_while is_effectively_skip_token p).
Proof.
  intros H. unfold agree in *.
  rewrite <- (take_drop_while _ is_effectively_skip_token p) in H. apply Forall_app in H.
  destruct H as (H1 & H2). split; [|exact H2].
  pose proof (take_while_all _ is_effectively_skip_token p) as Hall.
  rewrite forallb_forall in Hall. rewrite Forall_forall in *. intros t Ht.
  rewrite (H1 t Ht). apply Hall. exact Ht.
Qed.

Lemma consume_head_ok q : head_ok q -> agree q ->
  exists x, fst (spec_consume q) = inr x /\ P x = false /\ agree (snd (spec_consume q)).
Proof.
  intros Hh Ha. destruct q as [|t r]; cbn [spec_consume].
  - exists eoi_filler. repeat split; [exact HPf|constructor].
  - rewrite (Hh t r eq_refl). cbn [fst snd]. inversion Ha as [|? ? Ht Hr]; subst.
    exists t. repeat split; [rewrite Ht; apply (Hh t r eq_refl)|exact Hr].
Qed.

(** The relation kept by the LR loop: same significant pending tokens, same counted stack. *)
Definition lr_view (c1 c2 : lr_conf (list token)) : Prop :=
  same_view A proj (lc_stream c1) (lc_stream c2) /\
  agree (lc_stream c1) /\ agree (lc_stream c2) /\
  map parg (sview P (lc_stack c1)) = map parg (sview P (lc_stack c2)).

Lemma lr_iter_step_view k it c1 c2 : lr_view c1 c2 ->
  map pobs (snd (lr_iter_step P _ (spec_impl k) it c1)) = map pobs (snd (lr_iter_step P _ (spec_impl k) it c2)) /\
  lr_view (fst (lr_iter_step P _ (spec_impl k) it c1)) (fst (lr_iter_step P _ (spec_impl k) it c2)).
Proof.
  intros (Hv & Ha1 & Ha2 & Hs).
  destruct c1 as [[p1 st1] cm1]; destruct c2 as [[p2 st2] cm2].
  cbn [lc_stream lc_stack lc_comments fst snd] in *.
  unfold lr_iter_step, lr_handle_additional_tokens.
  cbn [spec_impl i_skip i_look i_cons fst snd lc_stream lc_stack lc_comments].
  destruct (agree_split p1 Ha1) as (T1 & D1). destruct (agree_split p2 Ha2) as (T2 & D2).
  pose proof (view_drop A proj p1 p2 Hv) as Hd.
  set (q1 := drop_while is_effectively_skip_token p1) in *.
  set (q2 := drop_while is_effectively_skip_token p2) in *.
  pose proof (sview_push_skips P _ st1 T1) as V1. pose proof (sview_push_skips P _ st2 T2) as V2.
  set (s1 := push_terminals (take_while is_effectively_skip_token p1) st1) in *.
  set (s2 := push_terminals (take_while is_effectively_skip_token p2) st2) in *.
  assert (Hs' : map parg (sview P s1) = map parg (sview P s2)) by (rewrite V1, V2; exact Hs).
  destruct it as [|n nt|]; cbn [fst snd map pobs].
  - destruct (view_consume A proj q1 q2 (drop_while_head_ok p1) (drop_while_head_ok p2) Hd) as (C1 & C2).
    destruct (consume_head_ok q1 (drop_while_head_ok p1) D1) as (x1 & E1 & Px1 & A1).
    destruct (consume_head_ok q2 (drop_while_head_ok p2) D2) as (x2 & E2 & Px2 & A2).
    split.
    + rewrite (view_look A proj k 0 q1 q2 Hd), C1. reflexivity.
    + unfold lr_view; cbn [lc_stream lc_stack fst snd]. rewrite E1, E2.
      rewrite E1, E2 in C1. cbn [proj_result] in C1. inversion C1 as [Hx].
      rewrite (sview_push_token P x1 s1 Px1), (sview_push_token P x2 s2 Px2). cbn [map parg].
      rewrite Hx, Hs'. repeat split; assumption.
  - destruct (call_action_spec P n nt s1) as (F1 & G1). destruct (call_action_spec P n nt s2) as (F2 & G2).
    split.
    + rewrite (view_look A proj k 0 q1 q2 Hd), F1, F2, !map_rev, <- !firstn_map, Hs'. reflexivity.
    + unfold lr_view; cbn [lc_stream lc_stack fst snd]. rewrite G1, G2. cbn [map parg].
      rewrite <- !skipn_map, Hs'. repeat split; assumption.
  - split; [reflexivity|]. unfold lr_view; cbn [lc_stream lc_stack fst snd]. repeat split; assumption.
Qed.

Theorem lr_run_view k its : forall c1 c2, lr_view c1 c2 ->
  map pobs (snd (lr_run P _ (spec_impl k) its c1)) = map pobs (snd (lr_run P _ (spec_impl k) its c2)).
Proof.
  induction its as [|it its IH]; intros c1 c2 H; cbn [lr_run fst snd]; [reflexivity|].
  destruct (lr_iter_step_view k it c1 c2 H) as (E1 & E2).
  rewrite !map_app, E1, (IH _ _ E2). reflexivity.
Qed.

End LRViews.

(** *** [skip_irrelevant_lr], [lr_skip_listed_ok], [lr_skip_listed_refuted] *)

(** [call_action]'s predicate in the current code and at the pinned commit. *)
Definition lr_skip_pred : token -> bool := is_effectively_skip_token.
Definition lr_skip_pred_old : token -> bool := is_skip_token.

(** The LR loop on the buffered stream: current code / pinned commit.  ([real_impl] has no
    predicate in it; [real_impl_old] is the same stream implementation, named for symmetry.) *)
Definition real_impl_old : list (list N) -> impl stream := real_impl.

Definition lr_parse (skips : list (list N)) (its : list lr_iter) (st : stream)
  : lr_conf stream * list lr_obs :=
  lr_run lr_skip_pred stream (real_impl skips) its (st, [], []).

Definition lr_parse_old (skips : list (list N)) (its : list lr_iter) (st : stream)
  : lr_conf stream * list lr_obs :=
  lr_run lr_skip_pred_old stream (real_impl_old skips) its (st, [], []).

Lemma stream_tokens_no_flags skips len fm ms k0 : no_skip_lists skips ->
  Forall (fun t => t_state_skip t = false) (stream_tokens skips len fm ms k0).
Proof.
  intros H. unfold stream_tokens, stream_tokens_old. apply gapped_Forall; [reflexivity|].
  apply Forall_forall. intros t Ht. apply in_map_iff in Ht. destruct Ht as (mt & E & _). subst t.
  cbn. apply no_skip_lists_state_skip. exact H.
Qed.

(** Generic form: whenever [call_action]'s predicate [P] agrees with
    [is_effectively_skip_token] on the tokens of both inputs, the observations of the LR parser
    (lookaheads, shifted tokens, action arguments) depend only on the significant tokens. *)
Theorem lr_skip_irrelevant_gen (P : token -> bool) (A : Type) (proj : token -> A)
    skips1 len1 fm1 ms1 skips2 len2 fm2 ms2 k0 its :
  P eoi_filler = false ->
  agree P (stream_tokens skips1 len1 fm1 ms1 k0) -> agree P (stream_tokens skips2 len2 fm2 ms2 k0) ->
  same_view A proj (stream_tokens skips1 len1 fm1 ms1 k0) (stream_tokens skips2 len2 fm2 ms2 k0) ->
  map (pobs A proj) (snd (lr_run P stream (real_impl skips1) its (stream_new skips1 len1 fm1 ms1 k0, [], []))) =
  map (pobs A proj) (snd (lr_run P stream (real_impl skips2) its (stream_new skips2 len2 fm2 ms2 k0, [], []))).
Proof.
  intros HPf Ha1 Ha2 Hv.
  destruct (stream_new_rel skips1 len1 fm1 ms1 k0) as (R1 & F1).
  destruct (stream_new_rel skips2 len2 fm2 ms2 k0) as (R2 & F2).
  destruct (lr_real_vs_spec P skips1 _ its _ _ [] [] R1 F1) as (E1 & _).
  destruct (lr_real_vs_spec P skips2 _ its _ _ [] [] R2 F2) as (E2 & _).
  rewrite E1, E2. apply (lr_run_view P A proj HPf).
  unfold lr_view; cbn [lc_stream lc_stack fst snd]. repeat split; assumption.
Qed.

(** [skip_irrelevant_lr]: [call_action] with the predicate of the pinned commit
    ([is_skip_token] = [lr_skip_pred_old]) and built-in skip tokens only (no entries in the skip
    lists; then both predicates coincide).  For the current code see [lr_skip_listed_ok]. *)
Theorem skip_irrelevant_lr (A : Type) (proj : token -> A)
    skips1 len1 fm1 ms1 skips2 len2 fm2 ms2 k0 its :
  no_skip_lists skips1 -> no_skip_lists skips2 ->
  same_view A proj (stream_tokens skips1 len1 fm1 ms1 k0) (stream_tokens skips2 len2 fm2 ms2 k0) ->
  map (pobs A proj) (snd (lr_run is_skip_token stream (real_impl skips1) its (stream_new skips1 len1 fm1 ms1 k0, [], []))) =
  map (pobs A proj) (snd (lr_run is_skip_token stream (real_impl skips2) its (stream_new skips2 len2 fm2 ms2 k0, [], []))).
Proof.
  intros H1 H2 Hv. apply lr_skip_irrelevant_gen; try assumption; try reflexivity.
  - eapply Forall_impl; [|apply (stream_tokens_no_flags skips1 len1 fm1 ms1 k0 H1)].
    intros t Ht. unfold is_effectively_skip_token. rewrite Ht, orb_false_r. reflexivity.
  - eapply Forall_impl; [|apply (stream_tokens_no_flags skips2 len2 fm2 ms2 k0 H2)].
    intros t Ht. unfold is_effectively_skip_token. rewrite Ht, orb_false_r. reflexivity.
Qed.

(** [lr_skip_listed_ok]: the CURRENT code ([is_effectively_skip_token] = [lr_skip_pred] in both
    places of [call_action]): the statement holds for arbitrary skip lists.
    ([snd (lr_parse skips its st)] is this [lr_run] by definition.) *)
Theorem lr_skip_listed_ok (A : Type) (proj : token -> A)
    skips1 len1 fm1 ms1 skips2 len2 fm2 ms2 k0 its :
  same_view A proj (stream_tokens skips1 len1 fm1 ms1 k0) (stream_tokens skips2 len2 fm2 ms2 k0) ->
  map (pobs A proj) (snd (lr_run is_effectively_skip_token stream (real_impl skips1) its
                            (stream_new skips1 len1 fm1 ms1 k0, [], []))) =
  map (pobs A proj) (snd (lr_run is_effectively_skip_token stream (real_impl skips2) its
                            (stream_new skips2 len2 fm2 ms2 k0, [], []))).
Proof.
  intros Hv. apply lr_skip_irrelevant_gen; try assumption; try reflexivity;
    apply Forall_forall; intros t _; reflexivity.
Qed.

(** D9 witness.  Terminals a = 5, b = 6, c = 7; production 0 is [S: a b]; scanner mode 0 has
    [%skip c]; text "acb" (and "ab" for comparison).  The LR loop does: shift, shift, reduce by
    production 0 (length 2, left-hand side 0). *)
Definition d9_skips : list (list N) := [[7%N]].
Definition d9_acb : list smatch := [mkMatch 5 0 1 0; mkMatch 7 1 2 0; mkMatch 6 2 3 0].
Definition d9_ab : list smatch := [mkMatch 5 0 1 0; mkMatch 6 1 2 0].
Definition d9_its : list lr_iter := [ItShift; ItShift; ItReduce 2 0].

Definition action_args (obs : list lr_obs) : list (list N) :=
  flat_map (fun o => match o with
                     | LObsArgs l => [flat_map (fun a => match a with ArgT t => [t_type t] | ArgN _ => [] end) l]
                     | _ => [] end) obs.

(** Pinned commit: the action for [S: a b] gets the tokens (c, b). *)
Example d9_actual_args :
  action_args (snd (lr_parse_old d9_skips d9_its (stream_new_old d9_skips 3 0 d9_acb 1))) = [[7%N; 6%N]].
Proof. vm_compute. reflexivity. Qed.

(** Current code: (a, b). *)
Example d9_repaired_args :
  action_args (snd (lr_parse d9_skips d9_its (stream_new d9_skips 3 0 d9_acb 1))) = [[5%N; 6%N]].
Proof. vm_compute. reflexivity. Qed.

(** Pinned commit (D9): both inputs present the same significant tokens to the parser, the LR
    automaton makes the same moves - but [call_action] with [is_skip_token] hands different
    arguments to the action.  ([stream_tokens_old .. 1] and [stream_tokens .. 1] are the same
    list, [stream_new_old .. 1] and [stream_new .. 1] the same stream.) *)
Theorem lr_skip_listed_refuted :
  exists skips len1 ms1 len2 ms2 its,
    same_view N t_type (stream_tokens_old skips len1 0 ms1 1) (stream_tokens_old skips len2 0 ms2 1) /\
    parser_input skips ms1 = parser_input skips ms2 /\
    map (pobs N t_type) (snd (lr_run lr_skip_pred_old stream (real_impl_old skips) its
                                (stream_new_old skips len1 0 ms1 1, [], []))) <>
    map (pobs N t_type) (snd (lr_run lr_skip_pred_old stream (real_impl_old skips) its
                                (stream_new_old skips len2 0 ms2 1, [], []))).
Proof.
  exists d9_skips, 3%N, d9_acb, 2%N, d9_ab, d9_its.
  split; [vm_compute; reflexivity|]. split; [vm_compute; reflexivity|].
  vm_compute. intros H. discriminate H.
Qed.

(** The same witness is harmless for the current code. *)
Example d9_current_ok :
  map (pobs N t_type) (snd (lr_parse d9_skips d9_its (stream_new d9_skips 3 0 d9_acb 1))) =
  map (pobs N t_type) (snd (lr_parse d9_skips d9_its (stream_new d9_skips 2 0 d9_ab 1))).
Proof. vm_compute. reflexivity. Qed.

(** *** The LR parse tree stack keeps every token ([pop_n] keeps interleaved skip tokens) *)
Lemma comments_of_not_skip t : is_effectively_skip_token t = false -> comments_of [t] = [].
Proof.
  intros H. unfold comments_of; cbn [filter]. destruct (is_comment_token t) eqn:E; [|reflexivity].
  rewrite (comment_is_skip t E) in H. discriminate.
Qed.

Lemma lr_iter_step_leaves P k it p stack cm :
  exists d m,
    stack_leaves (lc_stack (fst (lr_iter_step P _ (spec_impl k) it (p, stack, cm)))) = stack_leaves stack ++ d /\
    d ++ lc_stream (fst (lr_iter_step P _ (spec_impl k) it (p, stack, cm))) = p ++ repeat eoi_filler m /\
    lc_comments (fst (lr_iter_step P _ (spec_impl k) it (p, stack, cm))) = cm ++ comments_of d.
Proof.
  unfold lr_iter_step, lr_handle_additional_tokens.
  cbn [spec_impl i_skip i_look i_cons fst snd lc_stream lc_stack lc_comments].
  pose proof (take_drop_while _ is_effectively_skip_token p) as Htd.
  pose proof (drop_while_head_ok p) as Hh.
  set (ts := take_while is_effectively_skip_token p) in *.
  set (q := drop_while is_effectively_skip_token p) in *.
  destruct it as [|n nt|]; cbn [fst snd lc_stream lc_stack lc_comments].
  - destruct q as [|t r]; cbn [spec_consume fst snd].
    + exists (ts ++ [eoi_filler]), 1%nat.
      rewrite stack_leaves_cons_terminal, stack_leaves_push, <- app_assoc.
      rewrite app_nil_r in Htd. rewrite <- Htd. rewrite app_nil_r, comments_of_app. cbn [repeat].
      repeat split. unfold comments_of at 3. cbn. rewrite app_nil_r. reflexivity.
    + rewrite (Hh t r eq_refl). cbn [fst snd]. exists (ts ++ [t]), O.
      rewrite stack_leaves_cons_terminal, stack_leaves_push, <- !app_assoc. cbn [app repeat].
      rewrite Htd, app_nil_r, comments_of_app, (comments_of_not_skip t (Hh t r eq_refl)), app_nil_r.
      repeat split.
  - exists ts, O. rewrite call_action_leaves, stack_leaves_push. cbn [repeat].
    rewrite Htd, app_nil_r. repeat split.
  - exists ts, O. rewrite stack_leaves_push. cbn [repeat]. rewrite Htd, app_nil_r. repeat split.
Qed.

Lemma lr_run_leaves P k its : forall p stack cm,
  exists d m,
    stack_leaves (lc_stack (fst (lr_run P _ (spec_impl k) its (p, stack, cm)))) = stack_leaves stack ++ d /\
    d ++ lc_stream (fst (lr_run P _ (spec_impl k) its (p, stack, cm))) = p ++ repeat eoi_filler m /\
    lc_comments (fst (lr_run P _ (spec_impl k) its (p, stack, cm))) = cm ++ comments_of d.
Proof.
  induction its as [|it its IH]; intros p stack cm; cbn [lr_run fst snd].
  - exists [], O. cbn [lc_stack lc_stream lc_comments fst snd repeat app comments_of filter].
    rewrite !app_nil_r. repeat split.
  - destruct (lr_iter_step_leaves P k it p stack cm) as (d1 & m1 & A1 & B1 & C1).
    destruct (fst (lr_iter_step P (list token) (spec_impl k) it (p, stack, cm))) as [[p1 s1] c1].
    cbn [lc_stack lc_stream lc_comments fst snd] in *.
    destruct (IH p1 s1 c1) as (d2 & m2 & A2 & B2 & C2).
    exists (d1 ++ d2), (m1 + m2)%nat.
    split; [rewrite A2, A1, app_assoc; reflexivity|]. split.
    + rewrite <- app_assoc, B2, app_assoc, B1, <- app_assoc, <- repeat_app. reflexivity.
    + rewrite C2, C1, comments_of_app, app_assoc. reflexivity.
Qed.

(** [lr_leaves_all_tokens]: for every predicate [P] (so also with D9), every [k0] and every
    sequence of LR moves: the leaves of the parse tree stack, read left to right, followed by the
    tokens still pending, are exactly the delivered token sequence [stream_tokens] (followed by
    fillers if the parser shifted end-of-input tokens), and the tokens handed to [on_comment] are
    the comment tokens among those leaves, in order. *)
Theorem lr_leaves_all_tokens P skips len fm ms k0 its :
  exists pending m,
    stack_leaves (lc_stack (fst (lr_run P stream (real_impl skips) its (stream_new skips len fm ms k0, [], []))))
      ++ pending = stream_tokens skips len fm ms k0 ++ repeat eoi_filler m /\
    lc_comments (fst (lr_run P stream (real_impl skips) its (stream_new skips len fm ms k0, [], [])))
      = comments_of (stack_leaves (lc_stack (fst (lr_run P stream (real_impl skips) its
                                                   (stream_new skips len fm ms k0, [], []))))).
Proof.
  destruct (stream_new_rel skips len fm ms k0) as (R1 & F1).
  destruct (lr_real_vs_spec P skips _ its _ _ [] [] R1 F1) as (_ & E2 & E3).
  rewrite E2, E3.
  destruct (lr_run_leaves P (Nat.max 1 k0) its (stream_tokens skips len fm ms k0) [] []) as (d & m & A1 & B1 & C1).
  cbn [stack_leaves rev flat_map app] in A1. cbn [app] in C1.
  eexists _, m. rewrite A1, C1. split; [exact B1|reflexivity].
Qed.

(** ** Lookahead size 0 (grammars without alternatives get [MAX_K = 0])
    PINNED COMMIT ([stream_new_old]): [TokenStream::new] handed the unchanged [k] to the
    [TokenIter], which then yielded NO end-of-input token; the stream (which uses [max(1,k)])
    filled the buffer with [Token::eoi(MAX)] at the default location.  Nothing was added at
    [input.len()], so unmatched text at the very end of the input never became a gap token: the
    delivered tokens were not lossless.  Repaired: [stream_new] creates the iterator with
    [max(1,k)] and [buffer_contiguous] holds for every [k0]. *)
Theorem buffer_contiguous_k0_refuted :
  exists skips len fm ms ops,
    matches_ok len ms = true /\
    last (run skips (stream_new_old skips len fm ms 0) ops) (EvSkip []) = EvLook (inr eoi_filler) /\
    ~ chain 0 (delivered (run skips (stream_new_old skips len fm ms 0) ops)) len.
Proof.
  exists [], 2%N, 0%N, [mkMatch 5 0 1 0], [OpTakeSkip; OpConsume; OpTakeSkip; OpLookahead 0].
  split; [reflexivity|]. split; [vm_compute; reflexivity|].
  vm_compute. intros (_ & _ & H). discriminate H.
Qed.

(** Current code, same input and schedule, [k0 = 0]: the gap token 1..2 is delivered and the
    end-of-input token is at [input.len()]. *)
Example k0_zero_delivers_gap :
  delivered (run [] (stream_new [] 2 0 [mkMatch 5 0 1 0] 0) [OpTakeSkip; OpConsume; OpTakeSkip; OpLookahead 0])
  = [mkTok 5 0 1 0 false; mkTok INVALID_TOKEN 1 2 1 false] /\
  last (run [] (stream_new [] 2 0 [mkMatch 5 0 1 0] 0) [OpTakeSkip; OpConsume; OpTakeSkip; OpLookahead 0]) (EvSkip [])
  = EvLook (inr (mkTok EOI 2 2 2 false)).
Proof. split; vm_compute; reflexivity. Qed.

Example k0_one_delivers_gap :
  delivered (run [] (stream_new [] 2 0 [mkMatch 5 0 1 0] 1) [OpTakeSkip; OpConsume; OpTakeSkip; OpLookahead 0])
  = [mkTok 5 0 1 0 false; mkTok INVALID_TOKEN 1 2 1 false].
Proof. vm_compute. reflexivity. Qed.

(** [stream_new] and [stream_new_old] are the same stream whenever [k0 >= 1]. *)
Lemma stream_new_old_eq skips len fm ms k0 : (1 <= k0)%nat ->
  stream_new_old skips len fm ms k0 = stream_new skips len fm ms k0.
Proof. intros H. unfold stream_new_old, stream_new. replace (Nat.max 1 k0) with k0 by lia. reflexivity. Qed.

(** ** Link to the parser models
    Runtime/LLParser.v ([ll_run]) and Runtime/LRParser.v ([lr_run]) take the list of significant
    token types; [LLParser.significant] is their domain check (not 0, not 1..4, not
    [INVALID_TOKEN]).  [parser_input] is inside that domain. *)
Theorem parser_input_domain skips ms : types_ok ms = true ->
  forallb LLParser.significant (parser_input skips ms) = true.
Proof.
  unfold parser_input. induction ms as [|m ms IH]; intros H; cbn [filter map forallb]; [reflexivity|].
  cbn [types_ok forallb] in H. apply andb_prop in H. destruct H as (Hm & H).
  destruct (match_significant skips m) eqn:E; [|apply IH; exact H].
  cbn [map forallb]. rewrite (IH H), andb_true_r.
  unfold match_significant in E. apply negb_true_iff, orb_false_elim in E. destruct E as (E & _).
  apply negb_true_iff in Hm.
  unfold type_is_skip, EOI, FIRST_USER_TOKEN, INVALID_TOKEN in *.
  unfold LLParser.significant, LLParser.INVALID_TOKEN.
  destruct (N.eqb_spec (m_type m) 0); [discriminate|].
  destruct (N.eqb_spec (m_type m) 65534); [rewrite orb_true_r in E; discriminate|].
  rewrite orb_false_r in E.
  destruct (N.ltb_spec 0 (m_type m)); [|lia].
  destruct (N.ltb_spec (m_type m) 5); [discriminate|].
  destruct (N.leb_spec 1 (m_type m)); [|lia].
  destruct (N.leb_spec (m_type m) 4); [lia|]. reflexivity.
Qed.

(** ** [all_input_consumed] *)
Lemma all_input_consumed_spec skips k st p : Rel skips st p -> Full k st ->
  all_input_consumed st = N.eqb (t_type (pick (filter significant p) 0)) EOI.
Proof.
  intros HR HF. destruct (lookahead_refines skips k st p 0 HR HF) as (H1 & _).
  pose proof HF as (Hk & Hl & Hk1).
  unfold lookahead in H1. rewrite Hk in H1. destruct (Nat.leb_spec k 0) as [Hle|_]; [lia|].
  rewrite (ensure_full skips k st HF), Hl in H1. destruct (Nat.leb_spec k 0) as [Hle|_]; [lia|].
  unfold spec_lookahead in H1. destruct (Nat.leb_spec k 0) as [Hle|_]; [lia|].
  unfold all_input_consumed.
  assert (He : buf_is_buffer_empty (s_buf st) = false).
  { unfold buf_is_buffer_empty. destruct (b_toks (s_buf st)) eqn:E; [|reflexivity].
    unfold buf_len in Hl. rewrite E in Hl. cbn in Hl. lia. }
  rewrite He. destruct (non_skip_token_at (s_buf st) 0); cbn [fst] in H1; [|discriminate].
  inversion H1. reflexivity.
Qed.

(** ** Examples *)

(** "ab  c??" (see [ex_matches] in TokenBuffer.v), skip list [7] in mode 0; schedule of an LL
    parse of [a b]: predict with LA(0), match a, match b, finish, look. *)
Definition ex_sched : list op :=
  ll_sched [LLLookahead 0; LLMatch; LLMatch; LLFinish] ++ [OpTakeSkip; OpLookahead 0].

Example ex_delivered_k1 :
  delivered (run [[7%N]] (stream_new [[7%N]] 7 0 ex_matches 1) ex_sched) = all_tokens [[7%N]] 7 ex_matches.
Proof. vm_compute. reflexivity. Qed.

Example ex_delivered_k3 :
  delivered (run [[7%N]] (stream_new [[7%N]] 7 0 ex_matches 3) ex_sched) = all_tokens [[7%N]] 7 ex_matches.
Proof. vm_compute. reflexivity. Qed.

(** Hypotheses of [stream_k_independent] / [buffer_contiguous] / [delivered_complete] on this
    instance. *)
Example ex_hyps :
  matches_ok 7 ex_matches = true /\ types_ok ex_matches = true /\
  is_state_skip [[7%N]] EOI 0 = false /\
  (forall n, In (OpLookahead n) ex_sched -> (n < 1)%nat /\ (n < 3)%nat) /\
  exists t, last (run [[7%N]] (stream_new [[7%N]] 7 0 ex_matches 1) ex_sched) (EvSkip []) = EvLook (inr t)
            /\ t_type t = EOI.
Proof.
  repeat split; try reflexivity.
  - cbn in H. repeat (destruct H as [H|H]; [inversion H; subst; lia|]). contradiction.
  - cbn in H. repeat (destruct H as [H|H]; [inversion H; subst; lia|]). contradiction.
  - eexists. split; [vm_compute; reflexivity|reflexivity].
Qed.

(** The events for k = 1 and k = 3 are literally equal here (no end-of-input token beyond the
    first is looked at). *)
Example ex_k_independent :
  run [[7%N]] (stream_new [[7%N]] 7 0 ex_matches 1) ex_sched =
  run [[7%N]] (stream_new [[7%N]] 7 0 ex_matches 3) ex_sched.
Proof. vm_compute. reflexivity. Qed.

(** Comments: "a/*x*/ b//y" + newline: a 0..1, block comment 1..6, whitespace 6..7, b 7..8, line
    comment 8..12 (incl. the line end). *)
Definition ex_comment_matches : list smatch :=
  [mkMatch 5 0 1 0; mkMatch 4 1 6 0; mkMatch 2 6 7 0; mkMatch 6 7 8 0; mkMatch 3 8 12 0].

Example ex_comment_trace :
  comment_trace (run [] (stream_new [] 12 0 ex_comment_matches 2)
                   (ll_sched [LLLookahead 0; LLLookahead 1; LLMatch; LLMatch; LLFinish]))
  = [mkTok 4 1 6 1 false; mkTok 3 8 12 3 false].
Proof. vm_compute. reflexivity. Qed.

Example ex_comments_of :
  comments_of (all_tokens [] 12 ex_comment_matches) = [mkTok 4 1 6 1 false; mkTok 3 8 12 3 false].
Proof. vm_compute. reflexivity. Qed.

(** Skip irrelevance: "ab" and "a/*x*/ b//y\n" have the same parser input. *)
Example ex_same_input :
  parser_input [] ex_comment_matches = parser_input [] d9_ab /\
  no_skip_lists [] /\
  same_view N t_type (stream_tokens [] 12 0 ex_comment_matches 1) (stream_tokens [] 2 0 d9_ab 1).
Proof. split; [reflexivity|]. split; [constructor|vm_compute; reflexivity]. Qed.

Example ex_ll_observations :
  observations N t_type (run [] (stream_new [] 12 0 ex_comment_matches 1) (ll_sched [LLLookahead 0; LLMatch; LLMatch; LLFinish]))
  = observations N t_type (run [] (stream_new [] 2 0 d9_ab 1) (ll_sched [LLLookahead 0; LLMatch; LLMatch; LLFinish])).
Proof. vm_compute. reflexivity. Qed.

Example ex_lr_observations :
  map (pobs N t_type) (snd (lr_run is_skip_token stream (real_impl []) (d9_its ++ [ItFinish])
                              (stream_new [] 12 0 ex_comment_matches 1, [], [])))
  = map (pobs N t_type) (snd (lr_run is_skip_token stream (real_impl []) (d9_its ++ [ItFinish])
                              (stream_new [] 2 0 d9_ab 1, [], []))).
Proof. vm_compute. reflexivity. Qed.

(** The LR parse tree stack after shift, shift, reduce, finish: one node whose leaves are all
    tokens before the trailing comment, and the trailing comment itself. *)
Example ex_lr_leaves :
  stack_leaves (lc_stack (fst (lr_run is_skip_token stream (real_impl []) (d9_its ++ [ItFinish])
                                 (stream_new [] 12 0 ex_comment_matches 1, [], []))))
  = all_tokens [] 12 ex_comment_matches.
Proof. vm_compute. reflexivity. Qed.

(** Hypothesis of [lr_skip_listed_ok] on the D9 instance. *)
Example ex_d9_same_view :
  same_view N t_type (stream_tokens d9_skips 3 0 d9_acb 1) (stream_tokens d9_skips 2 0 d9_ab 1).
Proof. vm_compute. reflexivity. Qed.

Print Assumptions stream_refines_spec.
Print Assumptions stream_refines_spec_old.
Print Assumptions comments_once_in_order_all_k.
Print Assumptions comments_all_delivered_all_k.
Print Assumptions buffer_contiguous.
Print Assumptions stream_k_independent.
Print Assumptions delivered_prefix.
Print Assumptions delivered_complete.
Print Assumptions comments_once_in_order.
Print Assumptions comments_all_delivered.
Print Assumptions parser_input_spec.
Print Assumptions parser_input_builtin.
Print Assumptions skip_irrelevant_ll.
Print Assumptions skip_irrelevant_ll_types.
Print Assumptions call_action_spec.
Print Assumptions skip_irrelevant_lr.
Print Assumptions lr_skip_listed_ok.
Print Assumptions lr_skip_listed_refuted.
Print Assumptions lr_leaves_all_tokens.
Print Assumptions buffer_contiguous_k0_refuted.
Print Assumptions all_input_consumed_spec.
Print Assumptions parser_input_domain.
