(** * Regular expressions over code points: denotational semantics, Brzozowski derivatives.

    The real scanner ([scnr2], external crate) compiles the terminal regexes (parsed by
    [regex-syntax]) to DFAs.  Here a regex is modelled by its denotational semantics
    [matches : regex -> list N -> Prop]; the executable side is [nullable]/[deriv]/[matchb]
    (Brzozowski derivatives with simplifying smart constructors), proved equivalent to [matches].

    Characters are code points ([N]).  A character class is a list of inclusive ranges; a negated
    class is represented by the caller as the complemented range list over 0..0x10FFFF.
    [Plus], [Opt], bounded repetition and literals are derived forms ([rplus], [ropt], [rrep],
    [rrep_from], [rchar], [rstr]). *)
From Coq Require Import List NArith Bool Lia Arith.
Import ListNotations.

Inductive regex : Type :=
| Empty                              (* matches nothing *)
| Eps                                (* matches the empty word *)
| Cls (ranges : list (N * N))        (* one character lying in one of the inclusive ranges *)
| Cat (r s : regex)
| Alt (r s : regex)
| Star (r : regex).

Definition in_range (c : N) (p : N * N) : bool := N.leb (fst p) c && N.leb c (snd p).
Definition in_ranges (c : N) (rs : list (N * N)) : bool := existsb (in_range c) rs.

Inductive matches : regex -> list N -> Prop :=
| MEps : matches Eps []
| MCls : forall rs c, in_ranges c rs = true -> matches (Cls rs) [c]
| MCat : forall r s u v, matches r u -> matches s v -> matches (Cat r s) (u ++ v)
| MAltL : forall r s u, matches r u -> matches (Alt r s) u
| MAltR : forall r s u, matches s u -> matches (Alt r s) u
| MStar0 : forall r, matches (Star r) []
| MStarS : forall r u v, matches r u -> matches (Star r) v -> matches (Star r) (u ++ v).

(** ** Inversion lemmas *)

Lemma matches_Empty_iff w : matches Empty w <-> False.
Proof. split; intros H; [inversion H | destruct H]. Qed.

Lemma matches_Eps_iff w : matches Eps w <-> w = [].
Proof. split; intros H; [inversion H; reflexivity | subst; constructor]. Qed.

Lemma matches_Cls_iff rs w : matches (Cls rs) w <-> exists c, w = [c] /\ in_ranges c rs = true.
Proof.
  split; intros H.
  - inversion H as [|rs' c Hc| | | | |]; subst. exists c. split; [reflexivity|assumption].
  - destruct H as [c [Hw Hc]]. subst. constructor. assumption.
Qed.

Lemma matches_Cat_iff r s w :
  matches (Cat r s) w <-> exists u v, w = u ++ v /\ matches r u /\ matches s v.
Proof.
  split; intros H.
  - inversion H as [| |r' s' u v Hu Hv| | | |]; subst. exists u, v. auto.
  - destruct H as [u [v [Hw [Hu Hv]]]]. subst. constructor; assumption.
Qed.

Lemma matches_Alt_iff r s w : matches (Alt r s) w <-> matches r w \/ matches s w.
Proof.
  split; intros H.
  - inversion H; subst; auto.
  - destruct H as [H|H]; [apply MAltL | apply MAltR]; assumption.
Qed.

(** A non-empty match of [Star r] starts with a non-empty match of [r]. *)
Lemma matches_Star_inv r w :
  matches (Star r) w ->
  w = [] \/ exists u v, u <> [] /\ w = u ++ v /\ matches r u /\ matches (Star r) v.
Proof.
  intros H. remember (Star r) as q eqn:Hq. revert Hq.
  induction H as [| | | | | r0 | r0 u v Hu _ Hv IHv]; intros Hq; try discriminate.
  - left. reflexivity.
  - inversion Hq; subst. destruct u as [|c u].
    + simpl. apply IHv. reflexivity.
    + right. exists (c :: u), v. repeat split; try assumption. discriminate.
Qed.

Lemma matches_Star_one r w : matches r w -> matches (Star r) w.
Proof. intros H. rewrite <- (app_nil_r w). apply MStarS; [assumption | constructor]. Qed.

Lemma matches_Star_app r u v : matches (Star r) u -> matches (Star r) v -> matches (Star r) (u ++ v).
Proof.
  intros Hu Hv. remember (Star r) as q eqn:Hq. revert Hq Hv.
  induction Hu as [| | | | | r0 | r0 a b Ha _ Hb IHb]; intros Hq Hv; try discriminate.
  - simpl. assumption.
  - inversion Hq; subst. rewrite <- app_assoc. apply MStarS; [assumption|].
    apply IHb; [reflexivity | assumption].
Qed.

(** ** Derived forms *)

Definition rplus (r : regex) : regex := Cat r (Star r).
Definition ropt (r : regex) : regex := Alt Eps r.
Fixpoint rpow (r : regex) (n : nat) : regex :=
  match n with O => Eps | S n' => Cat r (rpow r n') end.
(** between 0 and [k] copies of [r] (nested so that the term stays linear in [k]) *)
Fixpoint ropts (r : regex) (k : nat) : regex :=
  match k with O => Eps | S k' => Alt Eps (Cat r (ropts r k')) end.
(** [r{m,n}]; nothing if [n < m] *)
Definition rrep (r : regex) (m n : nat) : regex :=
  if Nat.ltb n m then Empty else Cat (rpow r m) (ropts r (n - m)).
(** [r{m,}] *)
Definition rrep_from (r : regex) (m : nat) : regex := Cat (rpow r m) (Star r).
Definition rchar (c : N) : regex := Cls [(c, c)].
Fixpoint rstr (cs : list N) : regex :=
  match cs with [] => Eps | c :: cs' => Cat (rchar c) (rstr cs') end.

Lemma matches_rplus r w :
  matches (rplus r) w <-> exists u v, w = u ++ v /\ matches r u /\ matches (Star r) v.
Proof. unfold rplus. apply matches_Cat_iff. Qed.

Lemma matches_ropt r w : matches (ropt r) w <-> w = [] \/ matches r w.
Proof. unfold ropt. rewrite matches_Alt_iff, matches_Eps_iff. reflexivity. Qed.

Lemma matches_rpow_app r a b u v :
  matches (rpow r a) u -> matches (rpow r b) v -> matches (rpow r (a + b)) (u ++ v).
Proof.
  revert u. induction a as [|a IH]; intros u Hu Hv; cbn [rpow Nat.add] in *.
  - apply matches_Eps_iff in Hu. subst. assumption.
  - apply matches_Cat_iff in Hu. destruct Hu as [x [y [Hw [Hx Hy]]]]. subst.
    rewrite <- app_assoc. constructor; [assumption|]. apply IH; assumption.
Qed.

Lemma matches_rpow_split r a b w :
  matches (rpow r (a + b)) w -> exists u v, w = u ++ v /\ matches (rpow r a) u /\ matches (rpow r b) v.
Proof.
  revert w. induction a as [|a IH]; intros w Hw; cbn [rpow Nat.add] in *.
  - exists [], w. repeat split; [constructor | assumption].
  - apply matches_Cat_iff in Hw. destruct Hw as [x [y [Hw [Hx Hy]]]]. subst.
    apply IH in Hy. destruct Hy as [u [v [Hy [Hu Hv]]]]. subst.
    exists (x ++ u), v. rewrite app_assoc. repeat split; [|assumption].
    constructor; assumption.
Qed.

Lemma matches_Star_rpow r w : matches (Star r) w <-> exists k, matches (rpow r k) w.
Proof.
  split.
  - intros H. remember (Star r) as q eqn:Hq. revert Hq.
    induction H as [| | | | | r0 | r0 u v Hu _ Hv IHv]; intros Hq; try discriminate.
    + exists 0. constructor.
    + inversion Hq; subst. destruct (IHv eq_refl) as [k Hk]. exists (S k).
      cbn [rpow]. constructor; assumption.
  - intros [k Hk]. revert w Hk. induction k as [|k IH]; intros w Hk; cbn [rpow] in Hk.
    + apply matches_Eps_iff in Hk. subst. constructor.
    + apply matches_Cat_iff in Hk. destruct Hk as [u [v [Hw [Hu Hv]]]]. subst.
      apply MStarS; [assumption | apply IH; assumption].
Qed.

Lemma matches_ropts r k w : matches (ropts r k) w <-> exists j, j <= k /\ matches (rpow r j) w.
Proof.
  revert w. induction k as [|k IH]; intros w; cbn [ropts].
  - rewrite matches_Eps_iff. split.
    + intros Hw. subst. exists 0. split; [lia | constructor].
    + intros [j [Hj Hm]]. assert (j = 0) by lia. subst. cbn [rpow] in Hm.
      apply matches_Eps_iff. assumption.
  - rewrite matches_Alt_iff, matches_Eps_iff, matches_Cat_iff. split.
    + intros [Hw | [u [v [Hw [Hu Hv]]]]].
      * subst. exists 0. split; [lia | constructor].
      * subst. apply IH in Hv. destruct Hv as [j [Hj Hm]]. exists (S j). split; [lia|].
        cbn [rpow]. constructor; assumption.
    + intros [[|j] [Hj Hm]]; cbn [rpow] in Hm.
      * left. apply matches_Eps_iff. assumption.
      * right. apply matches_Cat_iff in Hm. destruct Hm as [u [v [Hw [Hu Hv]]]].
        exists u, v. repeat split; try assumption. apply IH. exists j. split; [lia | assumption].
Qed.

Lemma matches_rrep r m n w :
  matches (rrep r m n) w <-> exists k, m <= k /\ k <= n /\ matches (rpow r k) w.
Proof.
  unfold rrep. destruct (Nat.ltb_spec n m) as [Hlt|Hge].
  - rewrite matches_Empty_iff. split; [intros [] | intros [k [H1 [H2 _]]]; lia].
  - rewrite matches_Cat_iff. split.
    + intros [u [v [Hw [Hu Hv]]]]. subst. apply matches_ropts in Hv. destruct Hv as [j [Hj Hm]].
      exists (m + j). repeat split; try lia. apply matches_rpow_app; assumption.
    + intros [k [H1 [H2 Hk]]]. replace k with (m + (k - m)) in Hk by lia.
      apply matches_rpow_split in Hk. destruct Hk as [u [v [Hw [Hu Hv]]]].
      exists u, v. repeat split; try assumption. apply matches_ropts.
      exists (k - m). split; [lia | assumption].
Qed.

Lemma matches_rrep_from r m w :
  matches (rrep_from r m) w <-> exists k, m <= k /\ matches (rpow r k) w.
Proof.
  unfold rrep_from. rewrite matches_Cat_iff. split.
  - intros [u [v [Hw [Hu Hv]]]]. subst. apply matches_Star_rpow in Hv. destruct Hv as [j Hj].
    exists (m + j). split; [lia|]. apply matches_rpow_app; assumption.
  - intros [k [H1 Hk]]. replace k with (m + (k - m)) in Hk by lia.
    apply matches_rpow_split in Hk. destruct Hk as [u [v [Hw [Hu Hv]]]].
    exists u, v. repeat split; try assumption. apply matches_Star_rpow. exists (k - m). assumption.
Qed.

Lemma matches_rchar c w : matches (rchar c) w <-> w = [c].
Proof.
  unfold rchar. rewrite matches_Cls_iff. unfold in_ranges, in_range. cbn [existsb fst snd].
  split.
  - intros [d [Hw Hd]]. subst. rewrite orb_false_r in Hd. apply andb_prop in Hd as [H1 H2].
    apply N.leb_le in H1. apply N.leb_le in H2. f_equal. lia.
  - intros Hw. exists c. split; [assumption|]. rewrite N.leb_refl. reflexivity.
Qed.

Lemma matches_rstr cs w : matches (rstr cs) w <-> w = cs.
Proof.
  revert w. induction cs as [|c cs IH]; intros w; cbn [rstr].
  - apply matches_Eps_iff.
  - rewrite matches_Cat_iff. split.
    + intros [u [v [Hw [Hu Hv]]]]. apply matches_rchar in Hu. apply IH in Hv. subst. reflexivity.
    + intros Hw. exists [c], cs. repeat split; [assumption | apply matches_rchar | apply IH];
        reflexivity.
Qed.

(** ** A total order on regexes (used for ACI-normalisation of [Alt] and as decidable equality) *)

Fixpoint ranges_compare (a b : list (N * N)) : comparison :=
  match a, b with
  | [], [] => Eq
  | [], _ :: _ => Lt
  | _ :: _, [] => Gt
  | (l1, h1) :: a', (l2, h2) :: b' =>
    match N.compare l1 l2 with
    | Eq => match N.compare h1 h2 with Eq => ranges_compare a' b' | x => x end
    | x => x
    end
  end.

Fixpoint regex_compare (r s : regex) : comparison :=
  match r, s with
  | Empty, Empty => Eq
  | Empty, _ => Lt
  | Eps, Empty => Gt
  | Eps, Eps => Eq
  | Eps, _ => Lt
  | Cls _, Empty => Gt
  | Cls _, Eps => Gt
  | Cls a, Cls b => ranges_compare a b
  | Cls _, _ => Lt
  | Cat _ _, Empty => Gt
  | Cat _ _, Eps => Gt
  | Cat _ _, Cls _ => Gt
  | Cat a b, Cat c d => match regex_compare a c with Eq => regex_compare b d | x => x end
  | Cat _ _, _ => Lt
  | Alt a b, Alt c d => match regex_compare a c with Eq => regex_compare b d | x => x end
  | Alt _ _, Star _ => Lt
  | Alt _ _, _ => Gt
  | Star a, Star b => regex_compare a b
  | Star _, _ => Gt
  end.

Definition regex_eqb (r s : regex) : bool :=
  match regex_compare r s with Eq => true | _ => false end.

Lemma ranges_compare_eq a : forall b, ranges_compare a b = Eq -> a = b.
Proof.
  induction a as [|[l1 h1] a IH]; intros [|[l2 h2] b] H; cbn [ranges_compare] in H;
    try discriminate; try reflexivity.
  destruct (N.compare l1 l2) eqn:E1; try discriminate.
  destruct (N.compare h1 h2) eqn:E2; try discriminate.
  apply N.compare_eq_iff in E1. apply N.compare_eq_iff in E2. apply IH in H. subst. reflexivity.
Qed.

Lemma ranges_compare_refl a : ranges_compare a a = Eq.
Proof.
  induction a as [|[l h] a IH]; cbn [ranges_compare]; [reflexivity|].
  rewrite !N.compare_refl. assumption.
Qed.

Lemma regex_compare_eq r : forall s, regex_compare r s = Eq -> r = s.
Proof.
  induction r as [| |a|a IHa b IHb|a IHa b IHb|a IHa]; intros [| |c|c d|c d|c] H;
    cbn [regex_compare] in H; try discriminate; try reflexivity.
  - apply ranges_compare_eq in H. subst. reflexivity.
  - destruct (regex_compare a c) eqn:E; try discriminate.
    apply IHa in E. apply IHb in H. subst. reflexivity.
  - destruct (regex_compare a c) eqn:E; try discriminate.
    apply IHa in E. apply IHb in H. subst. reflexivity.
  - apply IHa in H. subst. reflexivity.
Qed.

Lemma regex_compare_refl r : regex_compare r r = Eq.
Proof.
  induction r as [| |a|a IHa b IHb|a IHa b IHb|a IHa]; cbn [regex_compare];
    try reflexivity.
  - apply ranges_compare_refl.
  - rewrite IHa. assumption.
  - rewrite IHa. assumption.
  - assumption.
Qed.

Lemma regex_eqb_eq r s : regex_eqb r s = true <-> r = s.
Proof.
  unfold regex_eqb. split.
  - intros H. destruct (regex_compare r s) eqn:E; try discriminate.
    apply regex_compare_eq. assumption.
  - intros H. subst. rewrite regex_compare_refl. reflexivity.
Qed.

(** ** Smart constructors

    [mkCat] removes [Empty]/[Eps] units.  [mkAlt r s] flattens [r], and inserts its alternatives
    into the (right-nested, sorted, duplicate-free) alternative list [s]: this is Brzozowski's
    ACI-similarity, which keeps the set of iterated derivatives finite and the terms small.
    Correctness of the constructors does not depend on the sortedness invariant. *)

Definition mkCat (r s : regex) : regex :=
  match r with
  | Empty => Empty
  | Eps => s
  | _ => match s with Empty => Empty | Eps => r | _ => Cat r s end
  end.

Fixpoint alt_insert (x s : regex) : regex :=
  match s with
  | Empty => x
  | Alt a b =>
    match regex_compare x a with
    | Eq => s
    | Lt => Alt x s
    | Gt => Alt a (alt_insert x b)
    end
  | _ =>
    match regex_compare x s with
    | Eq => s
    | Lt => Alt x s
    | Gt => Alt s x
    end
  end.

Fixpoint mkAlt (r s : regex) : regex :=
  match r with
  | Empty => s
  | Alt a b => mkAlt a (mkAlt b s)
  | _ => alt_insert r s
  end.

Lemma matches_mkCat r s w : matches (mkCat r s) w <-> matches (Cat r s) w.
Proof.
  assert (HE : forall q, matches (Cat Empty q) w <-> False).
  { intros q. rewrite matches_Cat_iff. split; [|intros []].
    intros [u [v [_ [Hu _]]]]. inversion Hu. }
  assert (HE' : forall q, matches (Cat q Empty) w <-> False).
  { intros q. rewrite matches_Cat_iff. split; [|intros []].
    intros [u [v [_ [_ Hv]]]]. inversion Hv. }
  assert (H1 : forall q, matches (Cat Eps q) w <-> matches q w).
  { intros q. rewrite matches_Cat_iff. split.
    - intros [u [v [Hw [Hu Hv]]]]. apply matches_Eps_iff in Hu. subst. assumption.
    - intros Hq. exists [], w. repeat split; [constructor | assumption]. }
  assert (H1' : forall q, matches (Cat q Eps) w <-> matches q w).
  { intros q. rewrite matches_Cat_iff. split.
    - intros [u [v [Hw [Hu Hv]]]]. apply matches_Eps_iff in Hv. subst.
      rewrite app_nil_r. assumption.
    - intros Hq. exists w, []. rewrite app_nil_r. repeat split; [assumption | constructor]. }
  destruct r; cbn [mkCat];
    try (rewrite HE; apply matches_Empty_iff);
    try (rewrite H1; reflexivity);
    destruct s;
    try (rewrite HE'; apply matches_Empty_iff);
    try (rewrite H1'; reflexivity);
    reflexivity.
Qed.

Lemma matches_alt_insert x s w : matches (alt_insert x s) w <-> matches x w \/ matches s w.
Proof.
  assert (G : forall q, q <> Empty ->
    matches (match regex_compare x q with Eq => q | Lt => Alt x q | Gt => Alt q x end) w
    <-> matches x w \/ matches q w).
  { intros q _. destruct (regex_compare x q) eqn:E.
    - apply regex_compare_eq in E. subst. tauto.
    - rewrite matches_Alt_iff. reflexivity.
    - rewrite matches_Alt_iff. tauto. }
  induction s as [| |a|a _ b _|a _ b IHb|a _]; cbn [alt_insert];
    try (apply G; discriminate).
  - rewrite matches_Empty_iff. tauto.
  - destruct (regex_compare x a) eqn:E.
    + apply regex_compare_eq in E. subst. rewrite matches_Alt_iff. tauto.
    + rewrite !matches_Alt_iff. reflexivity.
    + rewrite !matches_Alt_iff, IHb. tauto.
Qed.

Lemma matches_mkAlt r : forall s w, matches (mkAlt r s) w <-> matches r w \/ matches s w.
Proof.
  induction r as [| |a|a _ b _|a IHa b IHb|a _]; intros s w; cbn [mkAlt];
    try apply matches_alt_insert.
  - rewrite matches_Empty_iff. tauto.
  - rewrite IHa, IHb, matches_Alt_iff. tauto.
Qed.

(** ** Nullability and derivatives *)

Fixpoint nullable (r : regex) : bool :=
  match r with
  | Empty => false
  | Eps => true
  | Cls _ => false
  | Cat a b => nullable a && nullable b
  | Alt a b => nullable a || nullable b
  | Star _ => true
  end.

Fixpoint deriv (c : N) (r : regex) : regex :=
  match r with
  | Empty => Empty
  | Eps => Empty
  | Cls rs => if in_ranges c rs then Eps else Empty
  | Cat a b =>
    if nullable a then mkAlt (mkCat (deriv c a) b) (deriv c b) else mkCat (deriv c a) b
  | Alt a b => mkAlt (deriv c a) (deriv c b)
  | Star a => mkCat (deriv c a) r
  end.

(** iterated derivative w.r.t. a word *)
Definition derivs (r : regex) (w : list N) : regex := fold_left (fun q c => deriv c q) w r.

Definition matchb (r : regex) (w : list N) : bool := nullable (derivs r w).

Definition is_empty (r : regex) : bool := match r with Empty => true | _ => false end.

Theorem nullable_spec r : nullable r = true <-> matches r [].
Proof.
  induction r as [| |a|a IHa b IHb|a IHa b IHb|a _]; cbn [nullable].
  - rewrite matches_Empty_iff. split; [discriminate | intros []].
  - split; [constructor | reflexivity].
  - rewrite matches_Cls_iff. split; [discriminate | intros [c [Hc _]]; discriminate].
  - rewrite andb_true_iff, IHa, IHb, matches_Cat_iff. split.
    + intros [Ha Hb]. exists [], []. auto.
    + intros [u [v [Hw [Hu Hv]]]]. symmetry in Hw. apply app_eq_nil in Hw as [-> ->]. auto.
  - rewrite orb_true_iff, IHa, IHb, matches_Alt_iff. reflexivity.
  - split; [constructor | reflexivity].
Qed.

Theorem deriv_spec c r : forall w, matches (deriv c r) w <-> matches r (c :: w).
Proof.
  induction r as [| |rs|a IHa b IHb|a IHa b IHb|a IHa]; intros w; cbn [deriv].
  - rewrite !matches_Empty_iff. reflexivity.
  - rewrite matches_Empty_iff, matches_Eps_iff. split; [intros [] | discriminate].
  - rewrite matches_Cls_iff. destruct (in_ranges c rs) eqn:E.
    + rewrite matches_Eps_iff. split.
      * intros Hw. subst. exists c. auto.
      * intros [d [Hw _]]. inversion Hw. reflexivity.
    + rewrite matches_Empty_iff. split; [intros [] |].
      intros [d [Hw Hd]]. inversion Hw; subst. congruence.
  - assert (HL : matches (mkCat (deriv c a) b) w <->
                 exists u v, w = u ++ v /\ matches a (c :: u) /\ matches b v).
    { rewrite matches_mkCat, matches_Cat_iff. split; intros [u [v [Hw [Hu Hv]]]];
        exists u, v; repeat split; try assumption; apply IHa; assumption. }
    rewrite matches_Cat_iff. destruct (nullable a) eqn:Na.
    + rewrite matches_mkAlt, HL, IHb. split.
      * intros [[u [v [Hw [Hu Hv]]]] | Hb].
        -- exists (c :: u), v. subst. auto.
        -- exists [], (c :: w). repeat split; [apply nullable_spec|]; assumption.
      * intros [[|d u] [v [Hw [Hu Hv]]]].
        -- right. simpl in Hw. subst. assumption.
        -- left. inversion Hw; subst. exists u, v. auto.
    + rewrite HL. split.
      * intros [u [v [Hw [Hu Hv]]]]. exists (c :: u), v. subst. auto.
      * intros [[|d u] [v [Hw [Hu Hv]]]].
        -- apply nullable_spec in Hu. congruence.
        -- inversion Hw; subst. exists u, v. auto.
  - rewrite matches_mkAlt, IHa, IHb, matches_Alt_iff. reflexivity.
  - rewrite matches_mkCat, matches_Cat_iff. split.
    + intros [u [v [Hw [Hu Hv]]]]. subst. apply IHa in Hu.
      change (c :: u ++ v) with ((c :: u) ++ v). apply MStarS; assumption.
    + intros H. apply matches_Star_inv in H. destruct H as [H | [u [v [Hne [Hw [Hu Hv]]]]]].
      * discriminate.
      * destruct u as [|d u]; [congruence|]. inversion Hw; subst.
        exists u, v. repeat split; try assumption. apply IHa. assumption.
Qed.

Lemma derivs_spec w : forall r v, matches (derivs r w) v <-> matches r (w ++ v).
Proof.
  unfold derivs. induction w as [|c w IH]; intros r v; cbn [fold_left app].
  - reflexivity.
  - rewrite IH, deriv_spec. reflexivity.
Qed.

Lemma derivs_app r u v : derivs r (u ++ v) = derivs (derivs r u) v.
Proof. unfold derivs. apply fold_left_app. Qed.

Theorem matchb_spec r w : matchb r w = true <-> matches r w.
Proof.
  unfold matchb. rewrite nullable_spec, derivs_spec, app_nil_r. reflexivity.
Qed.

Lemma matchb_false r w : matchb r w = false <-> ~ matches r w.
Proof.
  rewrite <- matchb_spec. destruct (matchb r w); split; congruence.
Qed.

Lemma matches_dec r w : {matches r w} + {~ matches r w}.
Proof.
  destruct (matchb r w) eqn:E; [left; apply matchb_spec | right; apply matchb_false]; assumption.
Defined.

Lemma is_empty_spec r : is_empty r = true -> forall w, ~ matches r w.
Proof. destruct r; cbn [is_empty]; try discriminate. intros _ w H. inversion H. Qed.

(** ** Examples (the hypotheses/uses above are satisfiable on concrete instances) *)

(* [a-c]+ x? *)
Example ex_regex : regex := Cat (rplus (Cls [(97, 99)%N])) (ropt (rchar 120)).
Example ex_matchb_1 : matchb ex_regex [97; 98; 99; 120]%N = true.
Proof. vm_compute. reflexivity. Qed.
Example ex_matchb_2 : matchb ex_regex [120]%N = false.
Proof. vm_compute. reflexivity. Qed.
Example ex_matches_1 : matches ex_regex [97; 98; 99; 120]%N.
Proof. apply matchb_spec. vm_compute. reflexivity. Qed.
Example ex_rrep : matchb (rrep (rchar 97) 2 3) [97; 97; 97]%N = true
                  /\ matchb (rrep (rchar 97) 2 3) [97]%N = false
                  /\ matchb (rrep (rchar 97) 2 3) [97; 97; 97; 97]%N = false.
Proof. vm_compute. auto. Qed.
(* ACI normalisation keeps derivatives of (a|b)*abb finite: 60 steps stay small *)
Example ex_small :
  derivs (Cat (Star (Alt (rchar 97) (rchar 98))) (rstr [97; 98; 98]%N))
         (concat (repeat [97; 98; 98; 97; 97; 98]%N 10))
  = derivs (Cat (Star (Alt (rchar 97) (rchar 98))) (rstr [97; 98; 98]%N)) [97; 98]%N.
Proof. vm_compute. reflexivity. Qed.

Print Assumptions nullable_spec.
Print Assumptions deriv_spec.
Print Assumptions matchb_spec.
