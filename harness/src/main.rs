//! `pv` — harness that runs the real parol / parol_runtime code on generated inputs and prints
//! one S-expression per case on stdout. The OCaml driver (extracted Coq model) consumes them.
mod rng;
mod sx;
mod c26;
mod dynscan;
mod c31;
mod par;
mod idents;
mod roundtrip;
mod scanlist;
mod c32;
mod alpha;
mod c01;
mod c03;
mod c06;
mod rt;
mod c07;
mod c08;
mod gram;
mod c09;
mod c10;
mod c11;
mod c12;
mod rx;
mod c13;
mod c14;
mod c15;
mod c16;
mod c18;
mod c19;
mod c20;
mod c21;

pub struct Args {
    pub cmd: String,
    pub seed: u64,
    pub n: usize,
    pub shard: usize,
    pub nshards: usize,
    pub thorough: bool,
    pub rest: Vec<String>,
}

fn parse_args() -> Args {
    let mut it = std::env::args().skip(1);
    let cmd = it.next().unwrap_or_else(|| {
        eprintln!("usage: pv <cmd> [--seed N] [--n N] [--shard i/n] [--thorough] ...");
        std::process::exit(2)
    });
    let mut a = Args { cmd, seed: 1, n: 100, shard: 0, nshards: 1, thorough: false, rest: vec![] };
    while let Some(x) = it.next() {
        match x.as_str() {
            "--seed" => a.seed = it.next().unwrap().parse().unwrap(),
            "--n" => a.n = it.next().unwrap().parse().unwrap(),
            "--shard" => {
                let v = it.next().unwrap();
                let (i, n) = v.split_once('/').unwrap();
                a.shard = i.parse().unwrap();
                a.nshards = n.parse().unwrap();
            }
            "--thorough" => a.thorough = true,
            _ => a.rest.push(x),
        }
    }
    a
}

fn main() {
    // keep panics of the code under test quiet; they are caught and reported as data
    if std::env::var("PV_LOUD").is_err() {
        std::panic::set_hook(Box::new(|_| {}));
    }
    let a = parse_args();
    match a.cmd.as_str() {
        "c26" => c26::run(&a),
        "c31" => c31::run(&a),
        "par" => par::run(&a),
        "idents" => idents::run(&a),
        "roundtrip" => roundtrip::run(&a),
        "scanlist" => scanlist::run(&a),
        "c32" => c32::run(&a),
        "c06" => c06::run_ff(&a),
        "c05" => c06::run_dec(&a),
        "c01" => c01::run(&a),
        "c03" => c03::run(&a),
        "c07" => c07::run(&a),
        "c08" => c08::run(&a),
        "c09" => c09::run(&a),
        "c10" => c10::run(&a),
        "c11" => c11::run(&a),
        "c12" => c12::run(&a),
        "c13" => c13::run(&a),
        "c14" => c14::run(&a),
        "c15" => c15::run(&a),
        "c16" => c16::run(&a),
        "c18" => c18::run(&a),
        "c19" => c19::run(&a),
        "c20" => c20::run(&a),
        "c21" => c21::run(&a),
        other => {
            eprintln!("unknown subcommand {other}");
            std::process::exit(2)
        }
    }
}
