//! C01 / C02 / C20 / C19: the real LLKParser driven with the tables parol generates (export model).
use crate::{alpha, c07, gram::*, rng::Rng, rt, Args};
use parol_runtime::parser::{LLKParser, LookaheadDFA, ParseType, Production, Trans};

pub struct Parts {
    pub start: usize,
    pub automata: &'static [LookaheadDFA],
    pub productions: &'static [Production],
    pub names: &'static [&'static str],
    pub k: usize,
    pub tables_sx: String,
}

pub fn parts(b: &c07::LlBuilt) -> Parts {
    let e = &b.export;
    let mut autos: Vec<LookaheadDFA> = vec![];
    let mut autos_sx = vec![];
    let mut sorted = e.lookahead_automata.clone();
    sorted.sort_by_key(|a| a.non_terminal_index);
    for a in &sorted {
        let tr: Vec<Trans> = a.transitions.iter().map(|t| Trans(t.from_state, t.term, t.to_state, t.prod_num)).collect();
        autos_sx.push(format!("({} {} ({}))", a.prod0, a.k,
            a.transitions.iter().map(|t| format!("({} {} {} {})", t.from_state, t.term, t.to_state, t.prod_num)).collect::<Vec<_>>().join(" ")));
        autos.push(LookaheadDFA::new(a.prod0, Box::leak(tr.into_boxed_slice()), a.k));
    }
    let mut prods: Vec<Production> = vec![];
    let mut prods_sx = vec![];
    // the symbol enum of the export model is not nameable from outside the crate: read it through its JSON form
    let ev = serde_json::to_value(e).unwrap();
    for (pi, p) in ev["productions"].as_array().unwrap().iter().enumerate() {
        let syms: Vec<(bool, u64)> = p["rhs"].as_array().unwrap().iter().map(|s| {
            if let Some(n) = s.get("NonTerminal") { (false, n.as_u64().unwrap()) } else { (true, s["Terminal"]["index"].as_u64().unwrap()) }
        }).collect();
        let lhs = p["lhs_index"].as_u64().unwrap() as usize;
        let rev: Vec<ParseType> = syms.iter().rev().map(|(t, n)| if *t { ParseType::T(*n as u16) } else { ParseType::N(*n as usize) }).collect();
        // the export model does not carry is_push_production (see C21); it is the production's AddToCollection attribute
        let push = b.push.get(pi).copied().unwrap_or(false);
        prods_sx.push(format!("({} ({}) {})", lhs, syms.iter().rev().map(|(t, n)| if *t { n.to_string() } else { format!("-{}", n + 1) }).collect::<Vec<_>>().join(" "), push as u8));
        prods.push(Production { lhs, production: Box::leak(rev.into_boxed_slice()), is_push_production: push });
    }
    let k = sorted.iter().map(|a| a.k).max().unwrap_or(0);
    let names = rt::leak_names(&e.non_terminal_names);
    let tables_sx = format!("(({}) ({}) {} {} 32 {})", prods_sx.join(" "), autos_sx.join(" "), e.start_symbol_index, k, e.non_terminal_names.len());
    Parts { start: e.start_symbol_index, automata: Box::leak(autos.into_boxed_slice()), productions: Box::leak(prods.into_boxed_slice()), names, k, tables_sx }
}

pub fn run_input(p: &Parts, types: &[u16], text: &str, recovery: bool, trim: bool, depth: Option<usize>) -> String {
    let r = std::panic::catch_unwind(|| {
        let mut parser = LLKParser::new(p.start, p.automata, p.productions, rt::terminal_names(), p.names);
        if !recovery { parser.disable_recovery(); }
        if trim { parser.trim_parse_tree(); }
        if let Some(d) = depth { parser.set_max_parsing_depth(d); }
        let mut rec = rt::Recorder::new(p.names);
        let mut acts = rt::Actions::default();
        let ts = alpha::stream(text, p.k, &[]);
        let res = parser.parse_into(&mut rec, ts, &mut acts);
        (res.map_err(|e| rt::err_kind(&e)), rec.sx(), acts.sx())
    });
    let opts = format!("{} {} {}", recovery as u8, trim as u8, depth.map(|d| d.to_string()).unwrap_or_else(|| "none".into()));
    match r {
        Err(_) => format!("({} {} panic)", crate::sx::nums(types), opts),
        Ok((Ok(()), ev, ac)) => format!("({} {} ok {} {})", crate::sx::nums(types), opts, ac, ev),
        Ok((Err(k), _, ac)) => format!("({} {} (err {}) {})", crate::sx::nums(types), opts, k, ac),
    }
}

fn all_strings(terms: &[u16], bound: usize) -> Vec<Vec<u16>> {
    let mut v: Vec<Vec<u16>> = vec![vec![]];
    let mut frontier: Vec<Vec<u16>> = vec![vec![]];
    for _ in 0..bound {
        let mut next = vec![];
        for s in &frontier { for t in terms { let mut x = s.clone(); x.push(*t); next.push(x); } }
        v.extend(next.iter().cloned());
        frontier = next;
    }
    v
}

pub fn run(a: &Args) {
    let mut rng = Rng::new(a.seed ^ ((a.shard as u64) << 32) ^ 0xC01);
    for i in 0..a.n {
        let g = c07::ll_grammar(&mut rng, i);
        let maxk = if i % 5 == 0 { 5 } else { rng.range(1, 3) };
        match c07::build_ll(&g, maxk) {
            Err(why) => println!("(ll {} {} ({}))", g.sx(), maxk, why.split(' ').next().unwrap()),
            Ok(b) => {
                let p = parts(&b);
                // inputs over parol's terminal numbering of the transformed grammar
                let g2 = &b.g2;
                let mut terms: Vec<u16> = g2.prods.iter().flat_map(|(_, r)| r.iter()).filter_map(|y| if let Sy::T(t) = y { Some(*t) } else { None }).collect();
                terms.sort(); terms.dedup();
                let nterm = terms.len().max(1);
                let mut ins: Vec<Vec<u16>> = vec![];
                for _ in 0..6 {
                    if let Some(s) = random_sentence(&mut rng, g2, 14) {
                        if s.len() <= 24 { ins.push(mutate(&mut rng, &s, nterm)); ins.push(s); }
                    }
                }
                let bound = if nterm <= 2 { 5 } else if nterm <= 3 { 4 } else { 3 };
                ins.extend(all_strings(&terms, if a.thorough { bound + 1 } else { bound }));
                // a foreign token
                if !terms.is_empty() { ins.push(vec![terms[0], 5 + nterm as u16 + 3]); } else { ins.push(vec![5]); }
                ins.sort(); ins.dedup();
                ins.retain(|s| s.iter().all(|t| *t >= 5 && *t <= 30));
                let mut runs = vec![];
                for s in &ins {
                    let text = alpha::render(s);
                    let rec = rng.chance(1, 2);
                    runs.push(run_input(&p, s, &text, rec, false, None));
                    if rng.chance(1, 4) { runs.push(run_input(&p, s, &text, !rec, rng.chance(1, 2), None)); }
                    if rng.chance(1, 10) { runs.push(run_input(&p, s, &text, false, false, Some(rng.range(1, 6)))); }
                }
                // the grammar as written, in parol's terminal numbering (for the end-to-end membership oracle)
                let inv: std::collections::BTreeMap<u16, u16> = b.tm.iter().map(|(pi, letter)| (*letter, *pi)).collect();
                let gp = G { names: g.names.clone(), start: g.start, prods: g.prods.iter().map(|(l, r)| (*l, r.iter().map(|y| match y { Sy::T(t) => Sy::T(*inv.get(t).unwrap_or(&999)), Sy::N(n) => Sy::N(*n) }).collect())).collect() };
                println!("(ll {} {} (built {} {} ({})))", gp.sx(), maxk, b.g2.sx(), p.tables_sx, runs.join(" "));
            }
        }
    }
}
