#!/bin/sh
# MANIFEST.setup_cmd: build the framework from files on disk only (offline).
set -e
cd "$(dirname "$0")"
export CARGO_NET_OFFLINE=true CARGO_TARGET_DIR=/verif/target RUSTFLAGS="--cfg parol_verif"
python3 tools/gen_consts.py 2>/dev/null || true
( cd coq && coq_makefile -f _CoqProject -o Makefile && timeout 3000 make -j16 )
( cd ocaml && ./build.sh )
cp -f /repo/Cargo.lock harness/Cargo.lock
( cd harness && cargo build --offline )
echo setup done
