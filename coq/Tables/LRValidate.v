(** * A verified SAFETY validator for the LALR(1) tables that parol generates (C03, C04)

    In the style of Jourdan, Pottier, Leroy, "Validating LR(1) parsers" (ESOP 2012): the external
    crate [lalry] that constructs the table is not modelled; its OUTPUT is validated against the
    grammar.  [lr_safe_check g tb ann] checks a table [tb] (the data of the generated parser, see
    Runtime/LRParser.v) against the grammar [g] with the help of an ANNOTATION [ann] that may come
    from anywhere (unverified OCaml, or [infer_annotation] below): it is only ever used through
    the check.

    [ann] gives for every state [s] a KNOWN SUFFIX of the stack: a list, top of the stack first,
    of pairs (symbol, set of states).  Entry 0 is the incoming symbol of [s] (the symbol whose
    shift/goto enters [s]) and the set of states that may lie directly beneath [s]; entry [i] is
    the symbol [i] positions further down and the set of states that may lie beneath THAT symbol.
    State 0 must have the empty list.  (JPL's "past symbols" and "past states" in one list.)

    The check verifies, for every state [s] with known suffix [l]:
    - every Shift(s') on terminal [t] and every goto (A, s'): [s' <> 0] and the known suffix of
      [s'] is a weakening (a prefix, with larger state sets) of [(T t / NT A, {s}) :: l];
    - every Reduce(nt, p): [p] is a production index of the table and of the grammar, the two
      agree ([lhs], length of the right-hand side), [lhs = nt], [rev (rhs p)] is a prefix of the
      symbols of [l] (so popping [|rhs p|] entries is justified and the children are exactly the
      right-hand side), and every state that may lie beneath has a goto on [nt];
    - Accept: only on terminal 0 (EOI); the production the runtime then reduces (the first whose
      [lhs] is the start symbol) is a production of the grammar for [start g], its right-hand side
      is on top of the stack and the ONLY state that may lie beneath is state 0 - so the stack is
      exactly that right-hand side and accepting means the whole input was derived from the start
      symbol.  A table that has Accept in a state that can also be entered in a nested context
      (start symbol used recursively without augmentation) FAILS the check.
    - no Shift on terminal 0, all terminal keys < [lr_nterm], all action indices in range,
      [lr_start tb = start g], same number of states and annotations, at least one state.

    Theorems (for ANY table that passes, conflict-free or not - C04 "resolution stays sound" is
    the same theorem: the proof never uses determinism of the underlying automaton, only the
    table after resolution):
      [lr_safe_check_sound], [lr_safe_check_sound_gen], [lr_no_panic], [lr_no_internal_error],
      [postorder_rightmost], [lr_reductions_rightmost]; [bad_table_never_passes] (example).
    Executable: [lr_safe_check], [infer_annotation], [lr_validate] (= infer, then check).

    NOT proved here: completeness ("every sentence is accepted").  It is decided per instance by
    comparing the verdicts of [lr_run] / the real parser with a verified recogniser
    (Grammar/Member.v) on all strings up to a bound. *)
From Coq Require Import List NArith ZArith Arith Bool Lia.
From Parol Require Import Grammar.Cfg Runtime.LRParser.
Import ListNotations.
Local Open Scope N_scope.

(** ** The checker *)
Definition ann_entry := (sym * list N)%type.
Definition annotation := list (list ann_entry).
Definition ann_of (ann : annotation) (s : N) : option (list ann_entry) := nth_error ann (N.to_nat s).

Definition memN (x : N) (l : list N) : bool := existsb (N.eqb x) l.
Definition subsetN (a b : list N) : bool := forallb (fun x => memN x b) a.

(** [ann_weaker l' l]: [l'] claims less than [l] (shorter, larger state sets). *)
Fixpoint ann_weaker (l' l : list ann_entry) : bool :=
  match l' with
  | [] => true
  | (x', s') :: r' =>
      match l with
      | [] => false
      | (x, s) :: r => sym_eqb x' x && subsetN s s' && ann_weaker r' r
      end
  end.

(** States that may be on top after popping [n] entries in state [s] with known suffix [l]. *)
Definition beneath (s : N) (l : list ann_entry) (n : nat) : option (list N) :=
  match n with
  | O => Some [s]
  | S k => match nth_error l k with Some (_, c) => Some c | None => None end
  end.

Definition target_ok (ann : annotation) (s : N) (x : sym) (l : list ann_entry) (s' : N) : bool :=
  negb (N.eqb s' 0) &&
  match ann_of ann s' with
  | Some l' => ann_weaker l' ((x, [s]) :: l)
  | None => false
  end.

Definition goto_defined (tb : lr_table) (nt : N) (c : N) : bool :=
  match nth_error (lr_states tb) (N.to_nat c) with
  | Some st => match assoc nt (st_gotos st) with Some _ => true | None => false end
  | None => false
  end.

(** Production [p] (same index in table and grammar) has left-hand side [nt] and its right-hand
    side is on top of the stack whenever [s] is; result: the states that may lie beneath. *)
Definition handle_ok (g : cfg) (tb : lr_table) (s : N) (l : list ann_entry) (nt p : N)
  : option (list N) :=
  match nth_error (lr_prods tb) (N.to_nat p), nth_error (prods g) (N.to_nat p) with
  | Some lp, Some pr =>
      if N.eqb (lp_lhs lp) nt && N.eqb (lhs pr) nt && N.ltb nt (lr_nnt tb)
         && Nat.eqb (lp_len lp) (length (rhs pr))
         && syms_eqb (map fst (firstn (lp_len lp) l)) (rev (rhs pr))
      then beneath s l (lp_len lp) else None
  | _, _ => None
  end.

Definition action_ok (g : cfg) (tb : lr_table) (ann : annotation) (s : N) (l : list ann_entry)
  (e : N * N) : bool :=
  N.ltb (fst e) (lr_nterm tb) &&
  match nth_error (lr_actions tb) (N.to_nat (snd e)) with
  | None => false
  | Some (Shift s') => negb (N.eqb (fst e) 0) && target_ok ann s (T (fst e)) l s'
  | Some (Reduce nt p) =>
      match handle_ok g tb s l nt p with
      | Some cs => forallb (goto_defined tb nt) cs
      | None => false
      end
  | Some Accept =>
      N.eqb (fst e) 0 &&
      match find_start_prod tb with
      | Some p0 =>
          match handle_ok g tb s l (lr_start tb) p0 with
          | Some cs => forallb (N.eqb 0) cs
          | None => false
          end
      | None => false
      end
  end.

Definition state_ok (g : cfg) (tb : lr_table) (ann : annotation) (s : N) (st : lr_state)
  (l : list ann_entry) : bool :=
  (if N.eqb s 0 then match l with [] => true | _ :: _ => false end else true) &&
  forallb (action_ok g tb ann s l) (st_actions st) &&
  forallb (fun e => target_ok ann s (NT (fst e)) l (snd e)) (st_gotos st).

Fixpoint forallb2i {A B : Type} (f : N -> A -> B -> bool) (i : N) (l1 : list A) (l2 : list B) : bool :=
  match l1, l2 with
  | [], [] => true
  | a :: l1', b :: l2' => f i a b && forallb2i f (N.succ i) l1' l2'
  | _, _ => false
  end.

Definition lr_safe_check (g : cfg) (tb : lr_table) (ann : annotation) : bool :=
  N.eqb (lr_start tb) (start g) && N.ltb 0 (lr_nterm tb) &&
  match lr_states tb with [] => false | _ :: _ => true end &&
  forallb2i (state_ok g tb ann) 0 (lr_states tb) ann.

(** ** Annotation inference (unverified by design: its result is only used through the check)

    Forward fixpoint over the edges of the automaton.  State 0 starts with the empty suffix, the
    others are unknown; an edge [s --X--> s'] proposes [(X,{s}) :: known(s)] cut to [maxlen]
    entries; the proposal is merged into what is known for [s'] (longest common prefix of the
    symbols, union of the state sets).  Stops when a pass changes nothing. *)
Definition set_add (x : N) (s : list N) : list N * bool :=
  if memN x s then (s, false) else (x :: s, true).

Fixpoint set_union (s add : list N) : list N * bool :=
  match add with
  | [] => (s, false)
  | x :: add' =>
      let (s1, c1) := set_add x s in
      let (s2, c2) := set_union s1 add' in
      (s2, c1 || c2)
  end.

Fixpoint merge_ann (old cand : list ann_entry) : list ann_entry * bool :=
  match old with
  | [] => ([], false)
  | (x, s) :: old' =>
      match cand with
      | [] => ([], true)
      | (y, s') :: cand' =>
          if sym_eqb x y then
            let (s2, c1) := set_union s s' in
            let (r, c2) := merge_ann old' cand' in
            ((x, s2) :: r, c1 || c2)
          else ([], true)
      end
  end.

Fixpoint update_nth {A : Type} (n : nat) (f : A -> A) (l : list A) : list A :=
  match l with
  | [] => []
  | a :: l' => match n with O => f a :: l' | S n' => a :: update_nth n' f l' end
  end.

Definition edges_of (tb : lr_table) (st : lr_state) : list (sym * N) :=
  flat_map (fun e => match nth_error (lr_actions tb) (N.to_nat (snd e)) with
                     | Some (Shift s') => [(T (fst e), s')]
                     | _ => []
                     end) (st_actions st)
  ++ map (fun e => (NT (fst e), snd e)) (st_gotos st).

Definition infer_state := (list (option (list ann_entry)) * bool)%type.

Definition propagate (maxlen : nat) (s : N) (l : list ann_entry) (acc : infer_state) (e : sym * N)
  : infer_state :=
  let (known, changed) := acc in
  let cand := firstn maxlen ((fst e, [s]) :: l) in
  match nth_error known (N.to_nat (snd e)) with
  | None => acc                                   (* target out of range: the check will fail *)
  | Some None => (update_nth (N.to_nat (snd e)) (fun _ => Some cand) known, true)
  | Some (Some old) =>
      let (m, c) := merge_ann old cand in
      if c then (update_nth (N.to_nat (snd e)) (fun _ => Some m) known, true) else acc
  end.

Fixpoint infer_pass (tb : lr_table) (maxlen : nat) (i : N) (sts : list lr_state) (acc : infer_state)
  : infer_state :=
  match sts with
  | [] => acc
  | st :: sts' =>
      let acc' :=
        match nth_error (fst acc) (N.to_nat i) with
        | Some (Some l) => fold_left (propagate maxlen i l) (edges_of tb st) acc
        | _ => acc
        end in
      infer_pass tb maxlen (N.succ i) sts' acc'
  end.

Fixpoint infer_loop (fuel : nat) (tb : lr_table) (maxlen : nat) (known : list (option (list ann_entry)))
  : option annotation :=
  match fuel with
  | O => None
  | S fuel' =>
      let (known', changed) := infer_pass tb maxlen 0 (lr_states tb) (known, false) in
      if changed then infer_loop fuel' tb maxlen known'
      else Some (map (fun o => match o with Some l => l | None => [] end) known')
  end.

(** [fuel] = number of passes allowed; [None] = no fixpoint within the fuel (inconclusive).
    Unreached states get the empty suffix (the check then fails if they contain a reduction of a
    non-empty right-hand side: such a table is rejected, which is safe). *)
Definition infer_annotation (fuel : nat) (tb : lr_table) : option annotation :=
  let maxlen := fold_left (fun m p => Nat.max m (lp_len p)) (lr_prods tb) 1%nat in
  match lr_states tb with
  | [] => None
  | _ :: rest => infer_loop fuel tb maxlen (Some [] :: map (fun _ => None) rest)
  end.

(** The whole pipeline: infer, then check. *)
Definition lr_validate (fuel : nat) (g : cfg) (tb : lr_table) : bool :=
  match infer_annotation fuel tb with
  | Some ann => lr_safe_check g tb ann
  | None => false
  end.

(** ** Derivation trees: structural facts *)
Fixpoint tree_ind' (P : tree -> Prop) (HL : forall a, P (Leaf a))
  (HN : forall p cs, Forall P cs -> P (Node p cs)) (t : tree) : P t :=
  match t with
  | Leaf a => HL a
  | Node p cs =>
      HN p cs ((fix go (l : list tree) : Forall P l :=
                  match l with
                  | [] => Forall_nil P
                  | c :: l' => Forall_cons c (tree_ind' P HL HN c) (go l')
                  end) cs)
  end.

Lemma tree_ok_node g p cs :
  tree_ok g (Node p cs) <-> In p (prods g) /\ map root_sym cs = rhs p /\ Forall (tree_ok g) cs.
Proof.
  simpl. split; intros (H1 & H2 & H3); (split; [exact H1|split; [exact H2|]]).
  - clear H2. induction cs as [|c cs IH]; [constructor|]. destruct H3 as [Hc Hcs].
    constructor; [exact Hc|]. apply IH. exact Hcs.
  - clear H2. induction H3 as [|c cs Hc _ IH]; [exact I|]. split; assumption.
Qed.

Lemma forest_derives g cs :
  Forall (fun c => tree_ok g c -> derives g [root_sym c] (yield c)) cs ->
  Forall (tree_ok g) cs -> derives g (map root_sym cs) (flat_map yield cs).
Proof.
  induction 1 as [|c cs Hc _ IH]; intros Hok; simpl; [constructor|].
  inversion Hok as [|c' cs' Hc' Hcs']; subst.
  apply (derives_app g [root_sym c] (yield c) (Hc Hc') (map root_sym cs) (flat_map yield cs)).
  apply IH. exact Hcs'.
Qed.

Lemma tree_derives g t : tree_ok g t -> derives g [root_sym t] (yield t).
Proof.
  induction t as [a|p cs IH] using tree_ind'; intros Hok.
  - simpl. constructor. constructor.
  - apply tree_ok_node in Hok. destruct Hok as (Hin & Hr & Hcs).
    cbn [root_sym yield]. apply derives_single. exists p. split; [exact Hin|]. split; [reflexivity|].
    rewrite <- Hr. apply forest_derives; assumption.
Qed.

(** ** Soundness *)
Definition prod_numbers_ok (g : cfg) (ps : list prod) (ns : list N) : Prop :=
  Forall2 (fun p n => nth_error (prods g) (N.to_nat n) = Some p) ps ns.

Lemma subsetN_In a b x : subsetN a b = true -> In x a -> In x b.
Proof.
  unfold subsetN, memN. intros H Hx. rewrite forallb_forall in H. specialize (H x Hx).
  apply existsb_exists in H. destruct H as (y & Hy & E). apply N.eqb_eq in E. subst y. exact Hy.
Qed.

Lemma forallb2i_nth {A B} (f : N -> A -> B -> bool) l1 : forall i l2 k a,
  forallb2i f i l1 l2 = true -> nth_error l1 k = Some a ->
  exists b, nth_error l2 k = Some b /\ f (i + N.of_nat k) a b = true.
Proof.
  induction l1 as [|a1 l1 IH]; intros i l2 k a H Hk.
  - destruct k; discriminate.
  - destruct l2 as [|b1 l2]; simpl in H; [discriminate|].
    apply andb_prop in H. destruct H as [H1 H2]. destruct k as [|k]; simpl in Hk.
    + inversion Hk; subst. exists b1. split; [reflexivity|].
      replace (i + N.of_nat 0) with i by lia. exact H1.
    + destruct (IH _ _ _ _ H2 Hk) as (b & Hb & Hf). exists b. split; [exact Hb|].
      replace (i + N.of_nat (S k)) with (N.succ i + N.of_nat k) by lia. exact Hf.
Qed.

Lemma forallb2i_length {A B} (f : N -> A -> B -> bool) l1 : forall i l2,
  forallb2i f i l1 l2 = true -> length l1 = length l2.
Proof.
  induction l1 as [|a1 l1 IH]; intros i [|b1 l2] H; simpl in H; try discriminate; [reflexivity|].
  apply andb_prop in H. destruct H as [_ H]. simpl. f_equal. apply (IH _ _ H).
Qed.

Lemma nth_error_skipn {A} (l : list A) : forall k x,
  nth_error l k = Some x -> exists rest, skipn k l = x :: rest.
Proof.
  induction l as [|a l IH]; intros [|k] x H; simpl in H; try discriminate.
  - inversion H; subst. exists l. reflexivity.
  - simpl. apply IH. exact H.
Qed.

Lemma Forall_firstn' {A} (P : A -> Prop) n : forall l, Forall P l -> Forall P (firstn n l).
Proof.
  induction n as [|n IH]; intros l H; [constructor|].
  destruct H as [|a l Ha Hl]; simpl; constructor; [exact Ha|apply IH; exact Hl].
Qed.

Lemma Forall_skipn' {A} (P : A -> Prop) n : forall l, Forall P l -> Forall P (skipn n l).
Proof.
  induction n as [|n IH]; intros l H; [exact H|].
  destruct H as [|a l Ha Hl]; simpl; [constructor|apply IH; exact Hl].
Qed.

Section Soundness.
  Variable g : cfg.
  Variable tb : lr_table.
  Variable ann : annotation.
  Hypothesis Hchk : lr_safe_check g tb ann = true.

  Fixpoint match_ann (l : list ann_entry) (ss : list N) (ts : list tree) : Prop :=
    match l with
    | [] => True
    | (x, c) :: l' =>
        match ss, ts with
        | s1 :: ss', t :: ts' => root_sym t = x /\ In s1 c /\ match_ann l' ss' ts'
        | _, _ => False
        end
    end.

  (** The state stack (top first) and the tree stack (top first) are related by the annotation:
      each state above the bottom is non-initial and its known suffix describes what lies
      beneath it. *)
  Inductive stack_inv : list N -> list tree -> Prop :=
  | si_base : stack_inv [0] []
  | si_push s ss t ts l :
      stack_inv ss ts -> s <> 0 -> ann_of ann s = Some l -> match_ann l ss (t :: ts) ->
      stack_inv (s :: ss) (t :: ts).

  Record Inv (toks : list N) (c : lr_conf) : Prop := mkInv {
    inv_stack : stack_inv (c_states c) (c_trees c);
    inv_trees : Forall (tree_ok g) (c_trees c);
    inv_yield : flat_map yield (rev (c_trees c)) ++ c_input c = toks;
    inv_reds : prod_numbers_ok g (flat_map postorder (rev (c_trees c))) (rev (c_reds c))
  }.

  (** *** What the check gives *)
  Lemma chk_parts :
    lr_start tb = start g /\ 0 < lr_nterm tb /\ lr_states tb <> [] /\
    forallb2i (state_ok g tb ann) 0 (lr_states tb) ann = true.
  Proof.
    pose proof Hchk as H. unfold lr_safe_check in H.
    apply andb_prop in H. destruct H as [H H4]. apply andb_prop in H. destruct H as [H H3].
    apply andb_prop in H. destruct H as [H1 H2].
    split; [apply N.eqb_eq; exact H1|]. split; [apply N.ltb_lt; exact H2|]. split; [|exact H4].
    intros E. rewrite E in H3. discriminate.
  Qed.

  Lemma chk_start : lr_start tb = start g.
  Proof. apply chk_parts. Qed.

  Lemma chk_nterm : 0 < lr_nterm tb.
  Proof. apply chk_parts. Qed.

  Lemma chk_states : forallb2i (state_ok g tb ann) 0 (lr_states tb) ann = true.
  Proof. apply chk_parts. Qed.

  Lemma chk_state s st :
    nth_error (lr_states tb) (N.to_nat s) = Some st ->
    exists l, ann_of ann s = Some l /\ state_ok g tb ann s st l = true.
  Proof.
    intros H. destruct (forallb2i_nth _ _ _ _ _ _ chk_states H) as (l & Hl & Hf).
    exists l. split; [exact Hl|]. replace (0 + N.of_nat (N.to_nat s)) with s in Hf by lia. exact Hf.
  Qed.

  Lemma chk_ann_state s l :
    ann_of ann s = Some l -> exists st, nth_error (lr_states tb) (N.to_nat s) = Some st.
  Proof.
    unfold ann_of. intros H.
    assert (Hlt : (N.to_nat s < length ann)%nat) by (apply nth_error_Some; congruence).
    rewrite <- (forallb2i_length _ _ _ _ chk_states) in Hlt.
    apply nth_error_Some in Hlt. destruct (nth_error (lr_states tb) (N.to_nat s)) as [st|]; [|congruence].
    exists st. reflexivity.
  Qed.

  Lemma chk_ann0 : ann_of ann 0 = Some [].
  Proof.
    assert (H : exists st, nth_error (lr_states tb) (N.to_nat 0) = Some st).
    { destruct chk_parts as (_ & _ & Hne & _).
      destruct (lr_states tb) as [|st sts]; [contradiction Hne; reflexivity|]. exists st. reflexivity. }
    destruct H as (st & Hst). destruct (chk_state _ _ Hst) as (l & Hl & Hok).
    unfold state_ok in Hok. apply andb_prop in Hok. destruct Hok as [Hok _].
    apply andb_prop in Hok. destruct Hok as [Hok _].
    change (N.to_nat 0) with 0%nat in *. rewrite N.eqb_refl in Hok.
    destruct l; [exact Hl|discriminate].
  Qed.

  (** *** Annotation lemmas *)
  Lemma match_ann_weaker l' : forall l ss ts,
    ann_weaker l' l = true -> match_ann l ss ts -> match_ann l' ss ts.
  Proof.
    induction l' as [|[x' c'] r' IH]; intros l ss ts Hw Hm; simpl; [exact I|].
    destruct l as [|[x c] r]; simpl in Hw; [discriminate|].
    apply andb_prop in Hw. destruct Hw as [Hw Hr]. apply andb_prop in Hw. destruct Hw as [Hx Hc].
    apply sym_eqb_eq in Hx. subst x'. simpl in Hm.
    destruct ss as [|s1 ss]; [contradiction|]. destruct ts as [|t ts]; [contradiction|].
    destruct Hm as (Ht & Hin & Hm). split; [exact Ht|]. split.
    - apply (subsetN_In _ _ _ Hc Hin).
    - apply (IH _ _ _ Hr Hm).
  Qed.

  Lemma match_ann_firstn l : forall ss ts n,
    match_ann l ss ts -> (n <= length l)%nat ->
    map root_sym (firstn n ts) = map fst (firstn n l) /\ length (firstn n ts) = n /\
    (n <= length ss)%nat.
  Proof.
    induction l as [|[x c] l IH]; intros ss ts n Hm Hn; simpl in Hn.
    - assert (n = 0%nat) by lia. subst n. simpl. repeat split. lia.
    - destruct n as [|n]; [simpl; repeat split; lia|].
      simpl in Hm. destruct ss as [|s1 ss]; [contradiction|]. destruct ts as [|t ts]; [contradiction|].
      destruct Hm as (Ht & _ & Hm). destruct (IH ss ts n Hm ltac:(lia)) as (H1 & H2 & H3).
      simpl. rewrite H1, H2, Ht. repeat split. lia.
  Qed.

  Lemma match_ann_nth l : forall ss ts k x c,
    match_ann l ss ts -> nth_error l k = Some (x, c) ->
    exists s1, nth_error ss k = Some s1 /\ In s1 c.
  Proof.
    induction l as [|[x0 c0] l IH]; intros ss ts k x c Hm Hk; [destruct k; discriminate|].
    simpl in Hm. destruct ss as [|s1 ss]; [contradiction|]. destruct ts as [|t ts]; [contradiction|].
    destruct Hm as (_ & Hin & Hm). destruct k as [|k]; simpl in Hk.
    - inversion Hk; subst. exists s1. split; [reflexivity|exact Hin].
    - apply (IH _ _ _ _ _ Hm Hk).
  Qed.

  Lemma stack_inv_top s ss ts :
    stack_inv (s :: ss) ts -> exists l, ann_of ann s = Some l /\ match_ann l ss ts.
  Proof.
    intros H. inversion H as [|s' ss' t ts' l Hs Hne Hl Hm]; subst.
    - exists []. split; [exact chk_ann0|exact I].
    - exists l. split; assumption.
  Qed.

  Lemma stack_inv_zero ss ts : stack_inv (0 :: ss) ts -> ss = [] /\ ts = [].
  Proof.
    intros H. inversion H as [|s' ss' t ts' l Hs Hne Hl Hm]; subst; [split; reflexivity|].
    contradiction Hne. reflexivity.
  Qed.

  Lemma stack_inv_skipn n : forall ss ts,
    stack_inv ss ts -> (n < length ss)%nat -> stack_inv (skipn n ss) (skipn n ts).
  Proof.
    induction n as [|n IH]; intros ss ts H Hn; [exact H|].
    inversion H as [|s' ss' t ts' l Hs Hne Hl Hm]; subst; simpl in Hn; [lia|].
    simpl. apply IH; [exact Hs|lia].
  Qed.

  Lemma target_push s x l s' ss ts t :
    target_ok ann s x l s' = true ->
    stack_inv (s :: ss) ts -> ann_of ann s = Some l -> root_sym t = x ->
    stack_inv (s' :: s :: ss) (t :: ts).
  Proof.
    intros Ht Hs Hl Hr. unfold target_ok in Ht. apply andb_prop in Ht. destruct Ht as [Hne Hw].
    destruct (ann_of ann s') as [l'|] eqn:El'; [|discriminate].
    apply (si_push s' (s :: ss) t ts l' Hs).
    - intros E. subst s'. rewrite N.eqb_refl in Hne. discriminate.
    - exact El'.
    - apply (match_ann_weaker _ _ _ _ Hw). simpl. split; [exact Hr|]. split; [left; reflexivity|].
      destruct (stack_inv_top _ _ _ Hs) as (l2 & Hl2 & Hm). rewrite Hl in Hl2. inversion Hl2; subst.
      exact Hm.
  Qed.

  (** *** The handle is on the stack: what [call_action] and the state pops do. *)
  Lemma handle_pop cur below ts l nt p cs :
    stack_inv (cur :: below) ts -> ann_of ann cur = Some l ->
    handle_ok g tb cur l nt p = Some cs -> Forall (tree_ok g) ts ->
    exists lp pr s rest,
      nth_error (prods g) (N.to_nat p) = Some pr /\ lhs pr = nt /\
      call_action tb p ts =
        inr (lp_len lp, Node pr (rev (firstn (lp_len lp) ts)) :: skipn (lp_len lp) ts) /\
      tree_ok g (Node pr (rev (firstn (lp_len lp) ts))) /\
      Nat.ltb (length (cur :: below)) (lp_len lp) = false /\
      skipn (lp_len lp) (cur :: below) = s :: rest /\ In s cs /\
      stack_inv (s :: rest) (skipn (lp_len lp) ts).
  Proof.
    intros Hs Hl Hh Hts. unfold handle_ok in Hh.
    destruct (nth_error (lr_prods tb) (N.to_nat p)) as [lp|] eqn:Elp; [|discriminate].
    destruct (nth_error (prods g) (N.to_nat p)) as [pr|] eqn:Epr; [|discriminate].
    match type of Hh with (if ?b then _ else _) = _ => destruct b eqn:Eb end; [|discriminate].
    apply andb_prop in Eb. destruct Eb as [Eb Hsy]. apply andb_prop in Eb. destruct Eb as [Eb Hlen].
    apply andb_prop in Eb. destruct Eb as [Eb Hnnt]. apply andb_prop in Eb. destruct Eb as [Hl1 Hl2].
    apply N.eqb_eq in Hl1. apply N.eqb_eq in Hl2. apply Nat.eqb_eq in Hlen.
    apply syms_eqb_eq in Hsy.
    set (n := lp_len lp) in *.
    destruct (stack_inv_top _ _ _ Hs) as (l2 & Hl2' & Hm). rewrite Hl in Hl2'. inversion Hl2'; subst l2.
    assert (Hnl : (n <= length l)%nat).
    { assert (E : length (map fst (firstn n l)) = length (rev (rhs pr))) by (rewrite Hsy; reflexivity).
      rewrite map_length, rev_length, firstn_length in E. lia. }
    destruct (match_ann_firstn _ _ _ _ Hm Hnl) as (Hroots & Hflen & Hnb).
    assert (Hch : map root_sym (rev (firstn n ts)) = rhs pr).
    { rewrite map_rev, Hroots, Hsy, rev_involutive. reflexivity. }
    assert (Hpr : mkProd (lp_lhs lp) (map root_sym (rev (firstn n ts))) = pr).
    { rewrite Hch, Hl1, <- Hl2. destruct pr; reflexivity. }
    assert (Hcall : call_action tb p ts = inr (n, Node pr (rev (firstn n ts)) :: skipn n ts)).
    { unfold call_action. rewrite Elp. fold n. rewrite Hflen, Nat.eqb_refl. simpl negb. cbv iota.
      rewrite Hl1, Hnnt. simpl negb. cbv iota. rewrite <- Hl1, Hpr. reflexivity. }
    assert (Hok : tree_ok g (Node pr (rev (firstn n ts)))).
    { apply tree_ok_node. split; [apply (nth_error_In _ _ Epr)|]. split; [exact Hch|].
      apply Forall_rev. apply Forall_firstn'. exact Hts. }
    assert (Hlt : Nat.ltb (length (cur :: below)) n = false).
    { apply Nat.ltb_ge. simpl. lia. }
    assert (Hsk : exists s rest, skipn n (cur :: below) = s :: rest /\ In s cs).
    { unfold beneath in Hh. destruct n as [|k].
      - inversion Hh; subst cs. exists cur, below. split; [reflexivity|left; reflexivity].
      - destruct (nth_error l k) as [[x c]|] eqn:Ek; [|discriminate]. inversion Hh; subst c.
        destruct (match_ann_nth _ _ _ _ _ _ Hm Ek) as (s1 & Hs1 & Hin).
        destruct (nth_error_skipn _ _ _ Hs1) as (rest & Hrest).
        exists s1, rest. split; [simpl; exact Hrest|exact Hin]. }
    destruct Hsk as (s & rest & Hsk & Hin).
    exists lp, pr, s, rest. fold n.
    split; [reflexivity|]. split; [exact Hl2|]. split; [exact Hcall|]. split; [exact Hok|].
    split; [exact Hlt|]. split; [exact Hsk|]. split; [exact Hin|].
    rewrite <- Hsk. apply stack_inv_skipn; [exact Hs|]. simpl. lia.
  Qed.

  Lemma flat_map_split {B} (f : tree -> list B) n (ts : list tree) :
    flat_map f (rev ts) = flat_map f (rev (skipn n ts)) ++ flat_map f (rev (firstn n ts)).
  Proof.
    rewrite <- flat_map_app, <- rev_app_distr, firstn_skipn. reflexivity.
  Qed.

  Lemma flat_map_top {B} (f : tree -> list B) t (ts : list tree) :
    flat_map f (rev (t :: ts)) = flat_map f (rev ts) ++ f t.
  Proof. simpl. rewrite flat_map_app. simpl. rewrite app_nil_r. reflexivity. Qed.

  (** *** One step *)
  Definition step_post (toks : list N) (c : lr_conf) (r : lr_step_result) : Prop :=
    match r with
    | Continue c' => Inv toks c'
    | Done (Accepted reds f) =>
        exists t, f = [t] /\ tree_ok g t /\ root_sym t = NT (start g) /\
                  yield t ++ c_input c = toks /\ lookahead (c_input c) = 0 /\
                  prod_numbers_ok g (postorder t) reds
    | Done Rejected => True
    | Done OutOfFuel => False
    | Done (InternalErr _) => False
    | Done (Panic _) => ~ (lookahead (c_input c) < lr_nterm tb)
    end.

  Lemma step_spec toks c : Inv toks c -> step_post toks c (lr_step tb c).
  Proof.
    intros [Hs Hts Hy Hr]. destruct c as [ss ts inp reds].
    cbn [c_states c_trees c_input c_reds] in *. unfold lr_step.
    cbn [c_states c_trees c_input c_reds].
    destruct ss as [|cur below]; [inversion Hs|].
    destruct (stack_inv_top _ _ _ Hs) as (l & Hl & Hm).
    destruct (chk_ann_state _ _ Hl) as (st & Hst). rewrite Hst.
    destruct (chk_state _ _ Hst) as (l' & Hl' & Hok). rewrite Hl in Hl'. inversion Hl'; subst l'.
    unfold state_ok in Hok. apply andb_prop in Hok. destruct Hok as [Hok Hgotos].
    apply andb_prop in Hok. destruct Hok as [_ Hacts].
    rewrite forallb_forall in Hacts.
    set (la := lookahead inp).
    destruct (assoc la (st_actions st)) as [ai|] eqn:Ea.
    2:{ destruct (N.ltb la (lr_nterm tb)) eqn:Ela; cbn [negb].
        - assert (Hall : forallb (fun e => N.ltb (fst e) (lr_nterm tb)) (st_actions st) = true).
          { apply forallb_forall. intros e He. specialize (Hacts e He). unfold action_ok in Hacts.
            apply andb_prop in Hacts. apply Hacts. }
          rewrite Hall. exact I.
        - cbn [step_post c_input]. fold la. intros Hlt. apply N.ltb_lt in Hlt. congruence. }
    apply assoc_In in Ea. specialize (Hacts _ Ea). unfold action_ok in Hacts.
    cbn [fst snd] in Hacts. apply andb_prop in Hacts. destruct Hacts as [_ Hact].
    destruct (nth_error (lr_actions tb) (N.to_nat ai)) as [[next|nt p|]|]; [| | |discriminate].
    - (* Shift *)
      apply andb_prop in Hact. destruct Hact as [Hne0 Htgt].
      destruct inp as [|t rest]; [subst la; simpl in Hne0; discriminate|].
      subst la. cbn [lookahead] in *. cbn [step_post tl]. constructor; cbn [c_states c_trees c_input c_reds].
      + apply (target_push cur (T t) l next below ts (Leaf t) Htgt Hs Hl). reflexivity.
      + constructor; [exact I|exact Hts].
      + rewrite flat_map_top. rewrite <- Hy. simpl. rewrite <- app_assoc. reflexivity.
      + rewrite flat_map_top. simpl. rewrite app_nil_r. exact Hr.
    - (* Reduce *)
      destruct (handle_ok g tb cur l nt p) as [cs|] eqn:Eh; [|discriminate].
      destruct (handle_pop _ _ _ _ _ _ _ Hs Hl Eh Hts)
        as (lp & pr & s & rest & Epr & Elhs & Hcall & Hnode & Hlt & Hsk & Hin & Hs').
      rewrite Hcall, Hlt, Hsk.
      rewrite forallb_forall in Hact. specialize (Hact _ Hin). unfold goto_defined in Hact.
      destruct (nth_error (lr_states tb) (N.to_nat s)) as [st'|] eqn:Est'; [|discriminate].
      destruct (assoc nt (st_gotos st')) as [gt|] eqn:Egt; [|discriminate].
      apply assoc_In in Egt.
      destruct (chk_state _ _ Est') as (ls & Hls & Hoks). unfold state_ok in Hoks.
      apply andb_prop in Hoks. destruct Hoks as [_ Hgs]. rewrite forallb_forall in Hgs.
      specialize (Hgs _ Egt). cbn [fst snd] in Hgs.
      cbn [step_post]. constructor; cbn [c_states c_trees c_input c_reds].
      + apply (target_push s (NT nt) ls gt rest _ _ Hgs Hs' Hls). simpl. rewrite Elhs. reflexivity.
      + constructor; [exact Hnode|]. apply Forall_skipn'. exact Hts.
      + rewrite flat_map_top. cbn [yield]. rewrite <- flat_map_split. exact Hy.
      + rewrite flat_map_top. cbn [postorder]. rewrite app_assoc, <- flat_map_split.
        simpl rev. apply Forall2_app; [exact Hr|]. constructor; [exact Epr|constructor].
    - (* Accept *)
      apply andb_prop in Hact. destruct Hact as [Hla0 Hact]. apply N.eqb_eq in Hla0.
      destruct (find_start_prod tb) as [p0|]; [|discriminate].
      destruct (handle_ok g tb cur l (lr_start tb) p0) as [cs|] eqn:Eh; [|discriminate].
      destruct (handle_pop _ _ _ _ _ _ _ Hs Hl Eh Hts)
        as (lp & pr & s & rest & Epr & Elhs & Hcall & Hnode & Hlt & Hsk & Hin & Hs').
      rewrite Hcall. rewrite forallb_forall in Hact. specialize (Hact _ Hin).
      apply N.eqb_eq in Hact. subst s.
      destruct (stack_inv_zero _ _ Hs') as [_ Hts0].
      cbn [step_post c_input]. rewrite Hts0.
      exists (Node pr (rev (firstn (lp_len lp) ts))). split; [reflexivity|].
      split; [exact Hnode|]. split; [simpl; rewrite Elhs, chk_start; reflexivity|].
      assert (Hall : flat_map yield (rev ts) = yield (Node pr (rev (firstn (lp_len lp) ts))) /\
                     flat_map postorder (rev ts) ++ [pr]
                     = postorder (Node pr (rev (firstn (lp_len lp) ts)))).
      { rewrite (flat_map_split yield (lp_len lp)), (flat_map_split postorder (lp_len lp)).
        rewrite Hts0. simpl. split; reflexivity. }
      destruct Hall as [Hy' Hp']. split; [rewrite <- Hy'; exact Hy|]. split; [exact Hla0|].
      rewrite <- Hp'. simpl rev. apply Forall2_app; [exact Hr|].
      constructor; [exact Epr|constructor].
  Qed.

  Lemma init_inv toks : Inv toks (lr_init toks).
  Proof.
    constructor; simpl; [constructor|constructor|reflexivity|constructor].
  Qed.

  Lemma run_spec fuel toks r :
    lr_run fuel tb toks = r -> r <> OutOfFuel ->
    exists c, Inv toks c /\ step_post toks c (Done r).
  Proof.
    intros H Hne. unfold lr_run in H.
    destruct (lr_loop_inv (Inv toks) tb) with (fuel := fuel) (c := lr_init toks) (r := r)
      as (c & Hc & Hstep); [| apply init_inv | exact H | exact Hne |].
    - intros c c' Hc E. pose proof (step_spec toks c Hc) as Hp. rewrite E in Hp. exact Hp.
    - exists c. split; [exact Hc|]. pose proof (step_spec toks c Hc) as Hp. rewrite Hstep in Hp. exact Hp.
  Qed.
End Soundness.

(** ** Main theorems *)

(** General form: nothing is assumed about the token list.  The accepted tree covers the consumed
    prefix; what is left is empty or starts with a token of type 0 (which a real token stream
    never delivers before the end of the input). *)
Theorem lr_safe_check_sound_gen : forall g tb ann fuel toks reds forest,
  lr_safe_check g tb ann = true -> lr_run fuel tb toks = Accepted reds forest ->
  exists t rest, forest = [t] /\ toks = yield t ++ rest /\ lookahead rest = 0%N /\
    lang g (yield t) /\ tree_ok g t /\ root_sym t = NT (start g) /\
    prod_numbers_ok g (postorder t) reds.
Proof.
  intros g tb ann fuel toks reds forest Hchk Hrun.
  destruct (run_spec g tb ann Hchk fuel toks _ Hrun) as (c & Hc & Hp); [discriminate|].
  simpl in Hp. destruct Hp as (t & Hf & Hok & Hroot & Hy & Hla & Hreds).
  exists t, (c_input c). split; [exact Hf|]. split; [symmetry; exact Hy|]. split; [exact Hla|].
  split; [|split; [exact Hok|split; [exact Hroot|exact Hreds]]].
  unfold lang. rewrite <- Hroot. apply tree_derives. exact Hok.
Qed.

(** The main theorem.  [~ In 0 toks]: the input is a list of significant token types as a token
    stream delivers them before the end of input; EOI is signalled by the end of the list.
    (Without it the statement is false for the faithful model, see
    [lr_eoi_inside_input_example]: the Rust parser stops at the first EOI lookahead.)
    The last conjunct says that the semantic actions were called once per inner node of the tree,
    in postorder, i.e. in the order of a rightmost derivation in reverse (see
    [postorder_rightmost]). *)
Theorem lr_safe_check_sound : forall g tb ann fuel toks reds forest,
  lr_safe_check g tb ann = true -> ~ In 0%N toks ->
  lr_run fuel tb toks = Accepted reds forest ->
  exists t, forest = [t] /\
    lang g toks /\ tree_ok g t /\ yield t = toks /\ root_sym t = NT (start g) /\
    prod_numbers_ok g (postorder t) reds.
Proof.
  intros g tb ann fuel toks reds forest Hchk H0 Hrun.
  destruct (lr_safe_check_sound_gen g tb ann fuel toks reds forest Hchk Hrun)
    as (t & rest & Hf & Htoks & Hla & Hlang & Hok & Hroot & Hreds).
  assert (Hrest : rest = []).
  { destruct rest as [|x rest]; [reflexivity|]. simpl in Hla. subst x.
    contradiction H0. rewrite Htoks. apply in_or_app. right. left. reflexivity. }
  subst rest. rewrite app_nil_r in Htoks. subst toks.
  exists t. repeat split; assumption.
Qed.

(** A table that passes the check never drives the parser into a panic, provided the token types
    are valid indices of [terminal_names] (the error path indexes it with the lookahead type). *)
Theorem lr_no_panic : forall g tb ann fuel toks site,
  lr_safe_check g tb ann = true -> Forall (fun t => (t < lr_nterm tb)%N) toks ->
  lr_run fuel tb toks <> Panic site.
Proof.
  intros g tb ann fuel toks site Hchk Hall Hrun.
  destruct (run_spec g tb ann Hchk fuel toks _ Hrun) as (c & Hc & Hp); [discriminate|].
  simpl in Hp. apply Hp. destruct Hc as [_ _ Hy _].
  destruct (c_input c) as [|x rest]; simpl.
  - apply (chk_nterm g tb ann Hchk).
  - rewrite Forall_forall in Hall. apply Hall. rewrite <- Hy. apply in_or_app. right. left. reflexivity.
Qed.

(** ... and never into one of the [ParserError::InternalError] returns. *)
Theorem lr_no_internal_error : forall g tb ann fuel toks site,
  lr_safe_check g tb ann = true -> lr_run fuel tb toks <> InternalErr site.
Proof.
  intros g tb ann fuel toks site Hchk Hrun.
  destruct (run_spec g tb ann Hchk fuel toks _ Hrun) as (c & Hc & Hp); [discriminate|].
  exact Hp.
Qed.

(** ** Postorder = rightmost derivation in reverse

    [rm_steps g ps a b]: [a] rewrites to [b] by applying the productions [ps] in this order, each
    time to the RIGHTMOST non-terminal (everything to its right is terminals). *)
Inductive rm_steps (g : cfg) : list prod -> list sym -> list sym -> Prop :=
| rm_nil a : rm_steps g [] a a
| rm_cons p ps a w b :
    In p (prods g) -> rm_steps g ps (a ++ rhs p ++ map T w) b ->
    rm_steps g (p :: ps) (a ++ NT (lhs p) :: map T w) b.

Lemma rm_steps_trans g ps1 a b : rm_steps g ps1 a b ->
  forall ps2 c, rm_steps g ps2 b c -> rm_steps g (ps1 ++ ps2) a c.
Proof.
  induction 1 as [a|p ps a w b Hin _ IH]; intros ps2 c H2; simpl; [exact H2|].
  constructor; [exact Hin|]. apply IH. exact H2.
Qed.

Lemma rm_steps_frame g ps b c : rm_steps g ps b c ->
  forall a w, rm_steps g ps (a ++ b ++ map T w) (a ++ c ++ map T w).
Proof.
  induction 1 as [b|p ps a0 w0 b Hin _ IH]; intros a w; [constructor|].
  replace (a ++ (a0 ++ NT (lhs p) :: map T w0) ++ map T w)
    with ((a ++ a0) ++ NT (lhs p) :: map T (w0 ++ w)).
  2:{ rewrite map_app, <- !app_assoc. simpl. reflexivity. }
  constructor; [exact Hin|].
  specialize (IH a w).
  replace ((a ++ a0) ++ rhs p ++ map T (w0 ++ w))
    with (a ++ (a0 ++ rhs p ++ map T w0) ++ map T w).
  2:{ rewrite map_app, <- !app_assoc. reflexivity. }
  exact IH.
Qed.

Lemma forest_rightmost g cs :
  Forall (fun c => tree_ok g c ->
                   rm_steps g (rev (postorder c)) [root_sym c] (map T (yield c))) cs ->
  Forall (tree_ok g) cs ->
  rm_steps g (rev (flat_map postorder cs)) (map root_sym cs) (map T (flat_map yield cs)).
Proof.
  induction 1 as [|c cs Hc _ IH]; intros Hok; simpl; [constructor|].
  inversion Hok as [|c' cs' Hc' Hcs']; subst.
  rewrite rev_app_distr, map_app.
  apply rm_steps_trans with (b := [root_sym c] ++ map T (flat_map yield cs)).
  - pose proof (rm_steps_frame g _ _ _ (IH Hcs') [root_sym c] []) as H.
    simpl map in H. rewrite !app_nil_r in H. exact H.
  - pose proof (rm_steps_frame g _ _ _ (Hc Hc') [] (flat_map yield cs)) as H.
    simpl app in H. exact H.
Qed.

Theorem postorder_rightmost g t :
  tree_ok g t -> rm_steps g (rev (postorder t)) [root_sym t] (map T (yield t)).
Proof.
  induction t as [a|p cs IH] using tree_ind'; intros Hok.
  - simpl. constructor.
  - apply tree_ok_node in Hok. destruct Hok as (Hin & Hr & Hcs).
    cbn [postorder root_sym yield]. rewrite rev_app_distr. simpl rev. simpl app.
    apply (rm_cons g p _ [] [] _ Hin). simpl. rewrite app_nil_r, <- Hr.
    apply forest_rightmost; assumption.
Qed.

(** The reductions reported by an accepting run, read backwards, are the production numbers of
    a rightmost derivation of the input from the start symbol; each is reported once. *)
Theorem lr_reductions_rightmost : forall g tb ann fuel toks reds forest,
  lr_safe_check g tb ann = true -> ~ In 0%N toks ->
  lr_run fuel tb toks = Accepted reds forest ->
  exists ps, prod_numbers_ok g ps reds /\ rm_steps g (rev ps) [NT (start g)] (map T toks).
Proof.
  intros g tb ann fuel toks reds forest Hchk H0 Hrun.
  destruct (lr_safe_check_sound g tb ann fuel toks reds forest Hchk H0 Hrun)
    as (t & _ & _ & Hok & Hy & Hroot & Hreds).
  exists (postorder t). split; [exact Hreds|]. rewrite <- Hy, <- Hroot.
  apply postorder_rightmost. exact Hok.
Qed.

(** ** Examples *)

(** [S' -> S;  S -> ( S ) | x].  Terminals: 0 = EOI, 5 = "(", 6 = ")", 7 = "x" (1..4 are the
    built-in skip tokens); non-terminals 0 = S', 1 = S.  The table is the LALR(1) table as
    [lalry] builds it: Accept sits in the state "S' -> S ." on EOI. *)
Definition ex_g : cfg :=
  mkCfg 0 [mkProd 0 [NT 1]; mkProd 1 [T 5; NT 1; T 6]; mkProd 1 [T 7]].

Definition ex_tb : lr_table :=
  mkLRTable
    [Shift 2; Shift 3; Accept; Reduce 1 2; Shift 5; Reduce 1 1]
    [ mkLRState [(5, 0); (7, 1)] [(1, 1)];      (* 0: S' -> .S *)
      mkLRState [(0, 2)] [];                    (* 1: S' -> S. *)
      mkLRState [(5, 0); (7, 1)] [(1, 4)];      (* 2: S -> ( .S ) *)
      mkLRState [(0, 3); (6, 3)] [];            (* 3: S -> x. *)
      mkLRState [(6, 4)] [];                    (* 4: S -> ( S .) *)
      mkLRState [(0, 5); (6, 5)] [] ]           (* 5: S -> ( S ). *)
    [mkLRProd 0 1; mkLRProd 1 3; mkLRProd 1 1]
    0 8 2.

Definition ex_ann : annotation :=
  [ [];
    [(NT 1, [0])];
    [(T 5, [0; 2])];
    [(T 7, [0; 2])];
    [(NT 1, [2]); (T 5, [0; 2])];
    [(T 6, [4]); (NT 1, [2]); (T 5, [0; 2])] ].

Example ex_check : lr_safe_check ex_g ex_tb ex_ann = true.
Proof. vm_compute. reflexivity. Qed.

Example ex_infer_check : lr_validate 20 ex_g ex_tb = true.
Proof. vm_compute. reflexivity. Qed.

Definition ex_x : tree := Node (mkProd 1 [T 7]) [Leaf 7].
Definition ex_paren (t : tree) : tree := Node (mkProd 1 [T 5; NT 1; T 6]) [Leaf 5; t; Leaf 6].

Example ex_accept :
  lr_run 100 ex_tb [5; 5; 7; 6; 6]
  = Accepted [2; 1; 1; 0] [Node (mkProd 0 [NT 1]) [ex_paren (ex_paren ex_x)]].
Proof. vm_compute. reflexivity. Qed.

Example ex_reject : lr_run 100 ex_tb [5; 7] = Rejected.
Proof. vm_compute. reflexivity. Qed.

Example ex_reject2 : lr_run 100 ex_tb [7; 6] = Rejected.
Proof. vm_compute. reflexivity. Qed.

(** The hypotheses of the main theorems are satisfiable together (non-vacuity). *)
Example ex_sound_instance :
  lr_safe_check ex_g ex_tb ex_ann = true /\ ~ In 0%N [5; 5; 7; 6; 6]%N /\
  Forall (fun t => t < lr_nterm ex_tb) [5; 5; 7; 6; 6] /\
  exists reds forest, lr_run 100 ex_tb [5; 5; 7; 6; 6] = Accepted reds forest.
Proof.
  split; [vm_compute; reflexivity|]. split.
  - intros H. simpl in H. repeat (destruct H as [H|H]; [discriminate|]). exact H.
  - split; [repeat constructor|]. eexists. eexists. vm_compute. reflexivity.
Qed.

(** Why [~ In 0 toks] is needed in [lr_safe_check_sound]: a token of type 0 inside the list is
    indistinguishable from the end of input; the (faithful) model accepts the prefix. *)
Example lr_eoi_inside_input_example :
  lr_safe_check ex_g ex_tb ex_ann = true /\
  exists reds t, lr_run 100 ex_tb [7; 0; 7] = Accepted reds [t] /\ yield t = [7].
Proof. split; [vm_compute; reflexivity|]. eexists. eexists. vm_compute. split; reflexivity. Qed.

(** A malformed table (goto of state 2 removed): the model reports the InternalError return. *)
Example ex_internal_error :
  lr_run 100 (mkLRTable (lr_actions ex_tb)
                (update_nth 2 (fun st => mkLRState (st_actions st) []) (lr_states ex_tb))
                (lr_prods ex_tb) 0 8 2) [5; 7; 6] = InternalErr 2.
Proof. vm_compute. reflexivity. Qed.

(** A grammar with an empty production and left recursion: [S' -> L; L -> L x | ;]
    (terminal 5 = "x"; non-terminals 0 = S', 1 = L). *)
Definition eps_g : cfg := mkCfg 0 [mkProd 0 [NT 1]; mkProd 1 [NT 1; T 5]; mkProd 1 []].

Definition eps_tb : lr_table :=
  mkLRTable
    [Reduce 1 2; Accept; Shift 2; Reduce 1 1]
    [ mkLRState [(0, 0); (5, 0)] [(1, 1)];      (* 0: S' -> .L, L -> .L x, L -> . *)
      mkLRState [(0, 1); (5, 2)] [];            (* 1: S' -> L., L -> L .x *)
      mkLRState [(0, 3); (5, 3)] [] ]           (* 2: L -> L x. *)
    [mkLRProd 0 1; mkLRProd 1 2; mkLRProd 1 0]
    0 6 2.

Example eps_check : lr_validate 20 eps_g eps_tb = true.
Proof. vm_compute. reflexivity. Qed.

Example eps_accept : exists t, lr_run 100 eps_tb [5; 5] = Accepted [2; 1; 1; 0] [t].
Proof. eexists. vm_compute. reflexivity. Qed.

(** The degenerate table of the runtime's own unit test ([Start -> ;], Accept in state 0). *)
Example unit_test_table :
  let tb := mkLRTable [Accept] [mkLRState [(0, 0)] []] [mkLRProd 0 0] 0 1 1 in
  let g := mkCfg 0 [mkProd 0 []] in
  lr_validate 5 g tb = true /\ lr_run 5 tb [] = Accepted [0] [Node (mkProd 0 []) []].
Proof. vm_compute. split; reflexivity. Qed.

(** [S: A; A: "l" S "r" | "x";] - the start symbol has ONE production and is used recursively.
    parol's [augment_grammar] (at the pinned commit) leaves such a grammar alone, [lalry] puts
    Accept into the state "S -> A ." which is also entered in the nested context, and the
    generated parser accepts the non-sentence "l x".  Terminals 5 = "l", 6 = "r", 7 = "x";
    non-terminals 0 = S, 1 = A. *)
Definition bad_g : cfg :=
  mkCfg 0 [mkProd 0 [NT 1]; mkProd 1 [T 5; NT 0; T 6]; mkProd 1 [T 7]].

Definition bad_tb : lr_table :=
  mkLRTable
    [Shift 2; Shift 3; Accept; Reduce 0 0; Reduce 1 2; Shift 5; Reduce 1 1]
    [ mkLRState [(5, 0); (7, 1)] [(1, 1)];            (* 0: S -> .A *)
      mkLRState [(0, 2); (6, 3)] [];                  (* 1: S -> A.   Accept on EOI, reduce on "r" *)
      mkLRState [(5, 0); (7, 1)] [(0, 4); (1, 1)];    (* 2: A -> l .S r *)
      mkLRState [(0, 4); (6, 4)] [];                  (* 3: A -> x. *)
      mkLRState [(6, 5)] [];                          (* 4: A -> l S .r *)
      mkLRState [(0, 6); (6, 6)] [] ]                 (* 5: A -> l S r. *)
    [mkLRProd 0 1; mkLRProd 1 3; mkLRProd 1 1]
    0 8 2.

Example bad_accepts_non_sentence :
  exists reds forest, lr_run 100 bad_tb [5; 7] = Accepted reds forest.
Proof. eexists. eexists. vm_compute. reflexivity. Qed.

Example bad_rejected_by_validator : lr_validate 20 bad_g bad_tb = false.
Proof. vm_compute. reflexivity. Qed.

(** ... and no annotation whatsoever can make it pass: "l x" is not a sentence (every sentence
    has as many "l" as "r"), so passing would contradict [lr_safe_check_sound]. *)
Definition bal_t (t : N) : Z := if N.eqb t 5 then 1%Z else if N.eqb t 6 then (-1)%Z else 0%Z.
Definition bal_s (s : sym) : Z := match s with T t => bal_t t | NT _ => 0%Z end.
Definition zsum (l : list Z) : Z := fold_right Z.add 0%Z l.

Lemma zsum_app a b : zsum (a ++ b) = (zsum a + zsum b)%Z.
Proof. induction a as [|x a IH]; simpl; [reflexivity|]. rewrite IH. lia. Qed.

Lemma bad_g_balanced a w : derives bad_g a w -> zsum (map bal_t w) = zsum (map bal_s a).
Proof.
  induction 1 as [|t a w _ IH|n p a u v Hin Hl _ IHu _ IHv]; simpl.
  - reflexivity.
  - rewrite IH. reflexivity.
  - rewrite map_app, zsum_app, IHu, IHv.
    simpl in Hin. destruct Hin as [<-|[<-|[<-|[]]]]; vm_compute; reflexivity.
Qed.

Theorem bad_table_never_passes : forall ann, lr_safe_check bad_g bad_tb ann = false.
Proof.
  intros ann. destruct (lr_safe_check bad_g bad_tb ann) eqn:E; [|reflexivity]. exfalso.
  destruct bad_accepts_non_sentence as (reds & forest & Hrun).
  assert (H0 : ~ In 0%N [5; 7]%N).
  { intros H. simpl in H. repeat (destruct H as [H|H]; [discriminate|]). exact H. }
  destruct (lr_safe_check_sound bad_g bad_tb ann 100 [5; 7] reds forest E H0 Hrun)
    as (t & _ & Hlang & _).
  apply bad_g_balanced in Hlang. vm_compute in Hlang. discriminate.
Qed.

Print Assumptions lr_safe_check_sound.
Print Assumptions lr_safe_check_sound_gen.
Print Assumptions lr_no_panic.
Print Assumptions lr_no_internal_error.
Print Assumptions postorder_rightmost.
Print Assumptions lr_reductions_rightmost.
Print Assumptions bad_table_never_passes.
