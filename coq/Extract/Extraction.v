(** Extraction of the executable models and checkers to OCaml.
    Only ExtrOcamlBasic and ExtrOcamlString are used; numbers stay Coq datatypes. *)
From Coq Require Import Extraction ExtrOcamlBasic ExtrOcamlString.
From Parol Require Import Runtime.Levenshtein.
Extraction Language OCaml.
Set Extraction Optimize.
Extraction "model.ml" Levenshtein.lev_check Levenshtein.dist.
