(** Property C05 — LL(k) decision: accept iff strong-LL(k), with the minimal lookahead.
    Pinned statements only.  [SLL k g a] is strong-LL(k) decidability of non-terminal [a] defined
    from the derivation-based FIRST_k/FOLLOW_k (Analysis/KSeq.v); [decide_ref] is the verified
    reference decision procedure; [decide_check] compares the implementation's per-non-terminal
    answers ([decidable]: Ok k / Err) with it. *)
From Coq Require Import List NArith.
From Parol Require Import Grammar.Cfg Analysis.KSeq Analysis.FirstFollow Analysis.FFCheck.
Import ListNotations.

Theorem C05_decide_ref_correct : forall fuel K g rows, decide_ref fuel K g = Some rows ->
  (forall a r, In (a, r) rows -> In a (nts g) /\ decide_spec K g a r) /\
  (forall a, In a (nts g) -> exists r, In (a, r) rows).
Proof. exact decide_ref_correct. Qed.

(** The specification of one row, spelled out: the assigned lookahead is the SMALLEST k <= K at
    which the non-terminal is strong-LL(k); a rejected non-terminal really conflicts at every
    k <= K. *)
Theorem C05_decide_spec_unfold : forall K g a r, decide_spec K g a r ->
  match prods_of g a with
  | [] => r = None
  | [_] => r = Some 0
  | _ :: _ :: _ =>
      match r with
      | Some k => 1 <= k <= K /\ SLL k g a /\ forall j, 1 <= j < k -> ~ SLL j g a
      | None => forall j, 1 <= j <= K -> ~ SLL j g a
      end
  end.
Proof. intros K g a r H. exact H. Qed.

Theorem C05_decide_spec_functional : forall K g a r r',
  decide_spec K g a r -> decide_spec K g a r' -> r = r'.
Proof. exact decide_spec_functional. Qed.

Theorem C05_sll_check_correct : forall fuel fuel' k g ft wt a,
  first_ref fuel k g = Some ft -> follow_ref fuel' k g ft = Some wt ->
  (sll_check k g ft wt a = true <-> SLL k g a).
Proof. exact sll_check_ref_correct. Qed.

Theorem C05_decide_check_sound : forall fuel K g claimed,
  decide_check fuel K g claimed = Some true ->
  forall a r, In (a, r) claimed -> decide_spec K g a r.
Proof. exact decide_check_sound. Qed.

Example C05_nonvacuous :
  decide_check 50 3 g2 [(0%N, Some 2)] = Some true /\ decide_check 50 1 g2 [(0%N, None)] = Some true /\
  decide_check 50 3 g2 [(0%N, Some 3)] = Some false.
Proof. vm_compute. repeat split. Qed.
