(** * Context-free grammars, derivations, languages (spec level).

    Terminals and non-terminals are numbers ([N]).  Terminal numbers are the token types of the
    runtime (0 = end of input, 5.. = user terminals); non-terminal numbers index the
    non-terminal table.  [derives g α w]: the sentential form [α] derives the terminal string [w]
    (big-step).  This file is definitions plus structural lemmas only; it is the common
    vocabulary of all grammar-level properties. *)
From Coq Require Import List NArith Bool Lia.
Import ListNotations.

Inductive sym := T (t : N) | NT (a : N).

Definition sym_eqb (x y : sym) : bool :=
  match x, y with
  | T a, T b => N.eqb a b
  | NT a, NT b => N.eqb a b
  | _, _ => false
  end.

Lemma sym_eqb_spec x y : reflect (x = y) (sym_eqb x y).
Proof.
  destruct x as [a|a], y as [b|b]; simpl; try (constructor; discriminate);
    destruct (N.eqb_spec a b); constructor; congruence.
Qed.

Lemma sym_eqb_eq x y : sym_eqb x y = true <-> x = y.
Proof. destruct (sym_eqb_spec x y); split; congruence. Qed.

Lemma sym_eqb_refl x : sym_eqb x x = true.
Proof. apply sym_eqb_eq. reflexivity. Qed.

Definition sym_eq_dec (x y : sym) : {x = y} + {x <> y}.
Proof. destruct (sym_eqb_spec x y); [left|right]; assumption. Defined.

Record prod := mkProd { lhs : N; rhs : list sym }.
Record cfg := mkCfg { start : N; prods : list prod }.

Fixpoint syms_eqb (a b : list sym) : bool :=
  match a, b with
  | [], [] => true
  | x :: a', y :: b' => sym_eqb x y && syms_eqb a' b'
  | _, _ => false
  end.

Lemma syms_eqb_eq a : forall b, syms_eqb a b = true <-> a = b.
Proof.
  induction a as [|x a IH]; intros [|y b]; simpl; split; intros H; try congruence; try discriminate.
  - apply andb_prop in H as [H1 H2]. apply sym_eqb_eq in H1. apply IH in H2. congruence.
  - inversion H; subst. rewrite sym_eqb_refl. simpl. apply IH. reflexivity.
Qed.

Definition prod_eqb (p q : prod) : bool := N.eqb (lhs p) (lhs q) && syms_eqb (rhs p) (rhs q).

Lemma prod_eqb_eq p q : prod_eqb p q = true <-> p = q.
Proof.
  destruct p as [a r], q as [b s]. unfold prod_eqb. simpl. split; intros H.
  - apply andb_prop in H as [H1 H2]. apply N.eqb_eq in H1. apply syms_eqb_eq in H2. congruence.
  - inversion H; subst. rewrite N.eqb_refl. simpl. apply syms_eqb_eq. reflexivity.
Qed.

(** Productions of one non-terminal, in grammar order. *)
Definition prods_of (g : cfg) (a : N) : list prod :=
  filter (fun p => N.eqb (lhs p) a) (prods g).

Lemma in_prods_of g a p : In p (prods_of g a) <-> In p (prods g) /\ lhs p = a.
Proof. unfold prods_of. rewrite filter_In, N.eqb_eq. tauto. Qed.

(** Non-terminals of a grammar: every left-hand side, every right-hand-side occurrence and
    the start symbol. *)
Definition rhs_nts (r : list sym) : list N :=
  flat_map (fun s => match s with NT a => [a] | T _ => [] end) r.
Definition rhs_ts (r : list sym) : list N :=
  flat_map (fun s => match s with T t => [t] | NT _ => [] end) r.
Definition nts (g : cfg) : list N :=
  start g :: flat_map (fun p => lhs p :: rhs_nts (rhs p)) (prods g).
Definition terminals (g : cfg) : list N := flat_map (fun p => rhs_ts (rhs p)) (prods g).

(** ** Derivations (big-step) *)
Inductive derives (g : cfg) : list sym -> list N -> Prop :=
| d_nil : derives g [] []
| d_T t α w : derives g α w -> derives g (T t :: α) (t :: w)
| d_NT a p α u v :
    In p (prods g) -> lhs p = a ->
    derives g (rhs p) u -> derives g α v -> derives g (NT a :: α) (u ++ v).

Definition lang (g : cfg) (w : list N) : Prop := derives g [NT (start g)] w.

Lemma derives_app g α u : derives g α u -> forall β v, derives g β v -> derives g (α ++ β) (u ++ v).
Proof.
  induction 1 as [|t α w H IH|a p α u v Hin Hl Hr _ Ha IH]; intros β v' Hb; simpl.
  - exact Hb.
  - constructor. apply IH. exact Hb.
  - rewrite <- app_assoc. econstructor; eauto.
Qed.

Lemma derives_app_inv g α : forall β w, derives g (α ++ β) w ->
  exists u v, w = u ++ v /\ derives g α u /\ derives g β v.
Proof.
  induction α as [|s α IH]; intros β w H; simpl in H.
  - exists [], w. repeat split; [constructor|exact H].
  - inversion H as [|t α' w' H'|a p α' u v Hin Hl Hr Ha]; subst.
    + destruct (IH _ _ H') as (u & v & -> & Hu & Hv).
      exists (t :: u), v. repeat split; [constructor; exact Hu|exact Hv].
    + destruct (IH _ _ Ha) as (u' & v' & -> & Hu & Hv).
      exists (u ++ u'), v'. rewrite app_assoc. repeat split; [|exact Hv].
      econstructor; eauto.
Qed.

Lemma derives_terminals g w : derives g (map T w) w.
Proof. induction w; simpl; constructor; assumption. Qed.

Lemma derives_terminals_inv g w : forall v, derives g (map T w) v -> v = w.
Proof.
  induction w as [|t w IH]; intros v H; simpl in H; inversion H; subst; [reflexivity|].
  f_equal. apply IH. assumption.
Qed.

Lemma derives_single g a w : derives g [NT a] w <->
  exists p, In p (prods g) /\ lhs p = a /\ derives g (rhs p) w.
Proof.
  split.
  - intros H. inversion H as [| |a' p α u v Hin Hl Hr Ha]; subst.
    inversion Ha; subst. rewrite app_nil_r. eauto.
  - intros (p & Hin & Hl & Hr). rewrite <- (app_nil_r w). econstructor; eauto. constructor.
Qed.

Lemma derives_cons_NT g a α w : derives g (NT a :: α) w <->
  exists u v, w = u ++ v /\ derives g [NT a] u /\ derives g α v.
Proof.
  split.
  - intros H. apply (derives_app_inv g [NT a] α) in H. exact H.
  - intros (u & v & -> & Hu & Hv). apply (derives_app g [NT a] u Hu α v Hv).
Qed.

(** Grammars with the same productions (as sets) derive the same strings. *)
Lemma derives_incl g g' α w :
  (forall p, In p (prods g) -> In p (prods g')) -> derives g α w -> derives g' α w.
Proof.
  intros Hi. induction 1; [constructor|constructor; assumption|].
  econstructor; eauto.
Qed.

(** ** Derivation trees *)
Inductive tree :=
| Leaf (t : N)
| Node (p : prod) (children : list tree).

Fixpoint yield (t : tree) : list N :=
  match t with
  | Leaf a => [a]
  | Node _ cs => flat_map yield cs
  end.

Definition root_sym (t : tree) : sym :=
  match t with Leaf a => T a | Node p _ => NT (lhs p) end.

(** [tree_ok g t]: every inner node is a production of [g] whose children are exactly its
    right-hand side, in order. *)
Fixpoint tree_ok (g : cfg) (t : tree) : Prop :=
  match t with
  | Leaf _ => True
  | Node p cs =>
      In p (prods g) /\ map root_sym cs = rhs p /\
      (fix all (l : list tree) : Prop :=
         match l with [] => True | c :: l' => tree_ok g c /\ all l' end) cs
  end.

Fixpoint postorder (t : tree) : list prod :=
  match t with
  | Leaf _ => []
  | Node p cs => flat_map postorder cs ++ [p]
  end.
