//! C06 / C05: real FIRST_k / FOLLOW_k sets (decoded) and the real LL(k) decision.
use crate::{gram::*, rng::Rng, Args};
use parol::analysis::k_decision::{decidable, FirstCache, FollowCache};
use parol::analysis::KTuples;
use parol::{calculate_lookahead_dfas, GrammarConfig};
use std::collections::BTreeMap;

/// parol terminal index -> harness terminal number (by terminal text = letter)
fn term_map(cfg: &parol::Cfg) -> BTreeMap<u16, u16> {
    cfg.get_ordered_terminals()
        .iter()
        .enumerate()
        .map(|(i, (t, _, _, _))| (i as u16 + 5, 5 + (t.as_bytes()[0] - b'a') as u16))
        .collect()
}

fn decode(ts: &KTuples, tm: &BTreeMap<u16, u16>) -> String {
    let mut strs: Vec<Vec<u16>> = ts
        .sorted()
        .iter()
        .map(|t| {
            t.terminals()
                .iter()
                .filter(|c| *c != u16::MAX) // EPS marker: the empty string
                .map(|c| if c == 0 { 0 } else { *tm.get(&c).unwrap_or(&999) })
                .collect()
        })
        .collect();
    strs.sort();
    strs.dedup();
    format!("({})", strs.iter().map(|s| crate::sx::nums(s)).collect::<Vec<_>>().join(" "))
}

pub fn ff_cases(g: &G, rng: &mut Rng, maxk: usize) {
    let cfg = g.to_cfg();
    let tm = term_map(&cfg);
    let gc = GrammarConfig::new(cfg.clone(), maxk);
    let fc = FirstCache::new();
    let wc = FollowCache::new();
    // a random order of cache requests, with repetitions, on shared caches
    let mut reqs: Vec<(bool, usize)> = vec![];
    for k in 0..=maxk {
        reqs.push((true, k));
        if k > 0 {
            reqs.push((false, k));
        }
    }
    for _ in 0..rng.below(4) {
        let r = reqs[rng.below(reqs.len())];
        reqs.push(r);
    }
    for i in (1..reqs.len()).rev() {
        let j = rng.below(i + 1);
        reqs.swap(i, j);
    }
    let order: Vec<String> = reqs.iter().map(|(f, k)| format!("{}{}", if *f { "F" } else { "W" }, k)).collect();
    for (is_first, k) in reqs {
        let gc2 = gc.clone();
        let line = std::panic::catch_unwind(std::panic::AssertUnwindSafe(|| {
            if is_first {
                let fs = fc.get(k, &gc2);
                let fs = fs.borrow();
                let nts: Vec<String> = fs.non_terminals.iter().map(|t| decode(t, &tm)).collect();
                let prs: Vec<String> = fs.productions.iter().map(|t| decode(t, &tm)).collect();
                format!("(first {} {} ({}) ({}) {})", g.sx(), k, nts.join(" "), prs.join(" "), crate::sx::s(&order.join(",")))
            } else {
                let e = wc.get(k, &gc2, &fc);
                let e = e.borrow();
                let fs = parol::verif::follow_set_of(&e);
                let nts: Vec<String> = fs.non_terminals.iter().map(|t| decode(t, &tm)).collect();
                format!("(follow {} {} ({}) {})", g.sx(), k, nts.join(" "), crate::sx::s(&order.join(",")))
            }
        }));
        match line {
            Ok(l) => println!("{l}"),
            Err(_) => println!("({} {} {} panic)", if is_first { "first" } else { "follow" }, g.sx(), k),
        }
    }
}

pub fn dec_case(g: &G, maxk: usize) {
    let cfg = g.to_cfg();
    let gc = GrammarConfig::new(cfg.clone(), maxk);
    let r = std::panic::catch_unwind(|| {
        let fc = FirstCache::new();
        let wc = FollowCache::new();
        let rows: Vec<String> = g
            .names
            .iter()
            .enumerate()
            .map(|(i, n)| match decidable(&gc, n, maxk, &fc, &wc) {
                Ok(k) => format!("({} {})", i, k),
                Err(_) => format!("({} none)", i),
            })
            .collect();
        let all = match calculate_lookahead_dfas(&gc, maxk) {
            Ok(m) => format!(
                "(ok {})",
                m.iter()
                    .map(|(n, d)| format!("({} {})", g.names.iter().position(|x| x == n).unwrap_or(999), d.k))
                    .collect::<Vec<_>>()
                    .join(" ")
            ),
            Err(_) => "(err)".to_string(),
        };
        format!("(dec {} {} ({}) {})", g.sx(), maxk, rows.join(" "), all)
    });
    println!("{}", r.unwrap_or_else(|_| format!("(dec {} {} panic)", g.sx(), maxk)));
}

/// Grammars constructed to need exactly k tokens at NB: NA: NB x^(k-1) a | ...
fn needs_k(k: usize, near_miss: bool) -> G {
    // NA: NB "c" ;  NB: "a"^(k-1) "a" | "a"^(k-1) "b"   => NB needs k tokens
    let mut p1: Vec<Sy> = (0..k - 1).map(|_| Sy::T(5)).collect();
    let mut p2 = p1.clone();
    p1.push(Sy::T(5));
    p2.push(if near_miss { Sy::T(5) } else { Sy::T(6) });
    if near_miss {
        p2.push(Sy::T(6));
    }
    G { names: vec![nt_name(0), nt_name(1)], start: 0, prods: vec![(0, vec![Sy::N(1), Sy::T(7)]), (1, p1), (1, p2)] }
}

/// Alternatives with overlapping FIRST sets that are reached through unit-production chains of different lengths
/// (the fixpoint iteration finishes them in different rounds): NA: C1 | C2 [| C3]; Ci ->* Wi; Wi: words sharing prefixes.
fn chains(rng: &mut Rng) -> G {
    let nalt = rng.range(2, 3);
    let mut names = vec![nt_name(0)];
    let mut prods: Vec<(usize, Vec<Sy>)> = vec![];
    let plen = rng.range(1, 2);
    let prefix: Vec<Sy> = (0..plen).map(|_| Sy::T(5 + rng.below(2) as u16)).collect();
    for _ in 0..nalt {
        let chain = rng.range(0, 3);
        let mut cur = names.len();
        names.push(nt_name(cur));
        prods.push((0, vec![Sy::N(cur)]));
        for _ in 0..chain {
            let nxt = names.len();
            names.push(nt_name(nxt));
            prods.push((cur, vec![Sy::N(nxt)]));
            cur = nxt;
        }
        for _ in 0..rng.range(1, 2) {
            let mut w = prefix.clone();
            for _ in 0..rng.range(0, 2) { w.push(Sy::T(5 + rng.below(3) as u16)); }
            prods.push((cur, w));
        }
    }
    G { names, start: 0, prods }
}

/// Self-embedding productions with several leading terminals: NA: NB [x]; NB: t.. NB u.. | d  (FOLLOW of NB comes from
/// what stands behind its own recursive occurrence).
fn embedded(rng: &mut Rng) -> G {
    let lead: Vec<Sy> = (0..rng.range(1, 3)).map(|_| Sy::T(5 + rng.below(2) as u16)).collect();
    let trail: Vec<Sy> = (0..rng.range(1, 2)).map(|_| Sy::T(7 + rng.below(2) as u16)).collect();
    let mut rec = lead.clone();
    rec.push(Sy::N(1));
    rec.extend(trail.iter().cloned());
    if rng.chance(1, 3) { rec.push(Sy::N(2)); }
    let mut start = vec![Sy::N(1)];
    if rng.chance(1, 2) { start.push(Sy::T(10)); }
    let mut prods = vec![(0, start), (1, rec), (1, vec![Sy::T(9)])];
    prods.push((2, vec![Sy::T(11)]));
    prods.push((2, vec![]));
    let used2 = prods.iter().any(|(_, r)| r.contains(&Sy::N(2)));
    if !used2 { prods.truncate(3); }
    G { names: (0..if used2 { 3 } else { 2 }).map(nt_name).collect(), start: 0, prods }
}

pub fn run_ff(a: &Args) {
    let mut rng = Rng::new(a.seed ^ ((a.shard as u64) << 32) ^ 0xC06);
    let d = Dials { max_nts: 4, max_terms: 3, max_alts: 3, max_rhs: 3, eps_pct: 20, nt_pct: 50 };
    for i in 0..a.n {
        let g = if i % 3 == 1 { chains(&mut rng) } else if i % 6 == 2 { embedded(&mut rng) } else { random_clean(&mut rng, &d, true) };
        let maxk = if i % 10 == 0 || i % 3 == 1 { 4 } else if i % 6 == 2 { rng.range(1, 3) } else { rng.range(1, 3) };
        ff_cases(&g, &mut rng, maxk);
    }
}

pub fn run_dec(a: &Args) {
    let mut rng = Rng::new(a.seed ^ ((a.shard as u64) << 32) ^ 0xC05);
    if a.shard == 0 {
        for k in 1..=5 {
            dec_case(&needs_k(k, false), 5);
            dec_case(&needs_k(k, false), k.saturating_sub(1).max(1));
            dec_case(&needs_k(k, true), 5);
        }
    }
    // tiny grammars that are clean
    let stride = if a.thorough { 1 } else { 37 };
    let mut i = a.shard * stride;
    while i < TINY_TOTAL {
        if let Some(g) = tiny(i) {
            if is_clean(&g, true) {
                dec_case(&g, 3);
            }
        }
        i += a.nshards * stride;
    }
    let d = Dials { max_nts: 4, max_terms: 3, max_alts: 3, max_rhs: 3, eps_pct: 20, nt_pct: 50 };
    for _ in 0..a.n {
        let g = random_clean(&mut rng, &d, true);
        dec_case(&g, rng.range(1, 4));
    }
}
