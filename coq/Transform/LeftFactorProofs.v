(** * Left factoring: proofs about the model of [Transform/LeftFactor.v] (properties C10, C24).

    All theorems hold for EVERY oracle (hash order) and every name supply [fresh] that never
    returns an excluded name ([generate_name]'s contract). *)
From Coq Require Import List Arith NArith Bool Lia Permutation.
From Parol Require Import Grammar.Cfg Transform.LeftFactor.
Import ListNotations.

(** ** Generic list facts *)

Lemma ins_perm {A} (key : A -> nat) x l : Permutation (ins key x l) (x :: l).
Proof.
  induction l as [|y l IH]; simpl; [reflexivity|].
  destruct (key y <? key x); [|reflexivity].
  transitivity (y :: x :: l); [apply perm_skip, IH|apply perm_swap].
Qed.

Lemma sort_by_perm {A} (key : A -> nat) l : Permutation (sort_by key l) l.
Proof.
  induction l as [|x l IH]; simpl; [reflexivity|].
  transitivity (x :: sort_by key l); [apply ins_perm|apply perm_skip, IH].
Qed.

Lemma in_sort_by {A} (key : A -> nat) l x : In x (sort_by key l) <-> In x l.
Proof.
  split; apply Permutation_in; [|symmetry]; apply sort_by_perm.
Qed.

Section Dedup.
  Variable A : Type.
  Variable eqb : A -> A -> bool.
  Hypothesis eqb_eq : forall x y, eqb x y = true <-> x = y.

  Lemma in_dedup l x : In x (dedup eqb l) <-> In x l.
  Proof.
    induction l as [|y l IH]; simpl; [tauto|].
    rewrite filter_In, IH. split.
    - intros [H|[H _]]; auto.
    - intros [H|H]; [left; exact H|].
      destruct (eqb y x) eqn:E.
      + left. apply eqb_eq. exact E.
      + right. split; [exact H|reflexivity].
  Qed.

  Lemma NoDup_dedup l : NoDup (dedup eqb l).
  Proof.
    induction l as [|y l IH]; simpl; constructor.
    - rewrite filter_In. intros [_ H].
      assert (eqb y y = true) as E by (apply eqb_eq; reflexivity).
      rewrite E in H. discriminate.
    - apply NoDup_filter. exact IH.
  Qed.
End Dedup.

Lemma max_fold_some {K} (l : list (K * nat)) : forall b r,
  fold_left max_step l (Some b) = Some r ->
  In r (b :: l) /\ forall x, In x (b :: l) -> snd x <= snd r.
Proof.
  induction l as [|x l IH]; intros b r H; simpl in H.
  - inversion H; subst. split; [left; reflexivity|]. intros x [->|[]]. lia.
  - destruct (Nat.ltb_spec (snd x) (snd b)) as [Hlt|Hge];
      apply IH in H as [Hin Hmax]; split.
    + destruct Hin as [->|Hin]; [left; reflexivity|right; right; exact Hin].
    + intros y [->|[->|Hy]].
      * apply Hmax. left. reflexivity.
      * assert (snd b <= snd r) by (apply Hmax; left; reflexivity). lia.
      * apply Hmax. right. exact Hy.
    + right. exact Hin.
    + intros y [->|[->|Hy]].
      * assert (snd x <= snd r) by (apply Hmax; left; reflexivity). lia.
      * apply Hmax. left. reflexivity.
      * apply Hmax. right. exact Hy.
Qed.

Lemma max_fold_not_none {K} (l : list (K * nat)) : forall b,
  fold_left max_step l (Some b) <> None.
Proof.
  induction l as [|x l IH]; intros b; simpl; [discriminate|].
  destruct (snd x <? snd b); apply IH.
Qed.

Lemma max_by_count_spec {K} (l : list (K * nat)) r :
  max_by_count l = Some r -> In r l /\ forall x, In x l -> snd x <= snd r.
Proof.
  unfold max_by_count. destruct l as [|b l]; simpl; [discriminate|]. apply max_fold_some.
Qed.

Lemma max_by_count_some {K} (l : list (K * nat)) :
  l <> [] -> exists r, max_by_count l = Some r.
Proof.
  unfold max_by_count. destruct l as [|b l]; [congruence|]. intros _. simpl.
  destruct (fold_left max_step l (Some b)) as [r|] eqn:E; [eauto|].
  exfalso. exact (max_fold_not_none l b E).
Qed.

Lemma filter_length_bound {A} (f : A -> bool) l : length (filter f l) <= length l.
Proof. induction l as [|x l IH]; simpl; [lia|]. destruct (f x); simpl; lia. Qed.

Lemma filter_length_ge1 {A} (f : A -> bool) l :
  1 <= length (filter f l) <-> exists i x, nth_error l i = Some x /\ f x = true.
Proof.
  induction l as [|y l IH]; simpl.
  - split; [lia|]. intros (i & x & H & _). destruct i; discriminate.
  - split.
    + intros H. destruct (f y) eqn:E.
      * exists 0, y. split; [reflexivity|exact E].
      * apply IH in H as (i & x & H1 & H2). exists (S i), x. split; assumption.
    + intros (i & x & H1 & H2). destruct i as [|i]; simpl in H1.
      * inversion H1; subst. rewrite H2. simpl. lia.
      * assert (1 <= length (filter f l)) as H by (apply IH; eauto).
        destruct (f y); simpl; lia.
Qed.

Lemma filter_length_ge2 {A} (f : A -> bool) l :
  2 <= length (filter f l) <->
  exists i j x y, i < j /\ nth_error l i = Some x /\ nth_error l j = Some y /\
                  f x = true /\ f y = true.
Proof.
  induction l as [|z l IH]; simpl.
  - split; [lia|]. intros (i & j & x & y & _ & H & _). destruct i; discriminate.
  - split.
    + intros H. destruct (f z) eqn:E.
      * simpl in H. assert (1 <= length (filter f l)) as H1 by lia.
        apply filter_length_ge1 in H1 as (j & y & Hj & Hy).
        exists 0, (S j), z, y. repeat split; try assumption. lia.
      * apply IH in H as (i & j & x & y & Hij & Hi & Hj & Hx & Hy).
        exists (S i), (S j), x, y. repeat split; try assumption. lia.
    + intros (i & j & x & y & Hij & Hi & Hj & Hx & Hy).
      destruct j as [|j]; [lia|]. simpl in Hj. destruct i as [|i]; simpl in Hi.
      * inversion Hi; subst. rewrite Hx. simpl.
        assert (1 <= length (filter f l)) by (apply filter_length_ge1; eauto). lia.
      * assert (2 <= length (filter f l)) as H.
        { apply IH. exists i, j, x, y. repeat split; try assumption. lia. }
        destruct (f z); simpl; lia.
Qed.

Lemma filter_nonempty_in {A} (f : A -> bool) l :
  1 <= length (filter f l) -> exists x, In x l /\ f x = true.
Proof.
  intros H. destruct (filter f l) as [|x r] eqn:E; [simpl in H; lia|].
  assert (In x (filter f l)) as Hin by (rewrite E; left; reflexivity).
  apply filter_In in Hin. eauto.
Qed.

Lemma sym_eqb_sym x y : sym_eqb x y = sym_eqb y x.
Proof.
  destruct (sym_eqb_spec x y) as [->|Hn]; [symmetry; apply sym_eqb_refl|].
  destruct (sym_eqb_spec y x) as [->|_]; [congruence|reflexivity].
Qed.

Lemma syms_eqb_sym x y : syms_eqb x y = syms_eqb y x.
Proof.
  destruct (syms_eqb x y) eqn:E1, (syms_eqb y x) eqn:E2; try reflexivity.
  - apply syms_eqb_eq in E1. subst. rewrite (proj2 (syms_eqb_eq y y) eq_refl) in E2. discriminate.
  - apply syms_eqb_eq in E2. subst. rewrite (proj2 (syms_eqb_eq x x) eq_refl) in E1. discriminate.
Qed.

Lemma firstn_len_app {A} (k b : list A) : firstn (length k) (k ++ b) = k.
Proof. induction k as [|x k IH]; simpl; [reflexivity|]. f_equal. exact IH. Qed.

Lemma skipn_len_app {A} (k b : list A) : skipn (length k) (k ++ b) = b.
Proof. induction k as [|x k IH]; simpl; [reflexivity|exact IH]. Qed.

(** ** Prefix test *)

Lemma no_prefix_false k x : no_prefix k x = false <-> exists b, x = k ++ b.
Proof.
  unfold no_prefix. split.
  - intros H. apply orb_false_elim in H as [H1 H2].
    apply negb_false_iff in H2. apply syms_eqb_eq in H2.
    exists (skipn (length k) x). rewrite <- H2 at 1. symmetry. apply firstn_skipn.
  - intros (b & ->). rewrite firstn_len_app, app_length.
    rewrite (proj2 (syms_eqb_eq k k) eq_refl). simpl.
    destruct (Nat.ltb_spec (length k + length b) (length k)); [lia|reflexivity].
Qed.

Lemma no_prefix_false_skipn k x : no_prefix k x = false -> x = k ++ skipn (length k) x.
Proof.
  intros H. destruct (proj1 (no_prefix_false k x) H) as (b & ->).
  rewrite skipn_len_app. reflexivity.
Qed.

(** Number of candidates having [k] as a prefix. *)
Definition cnt (k : list sym) (c : list (list sym)) : nat :=
  length (filter (fun x => negb (no_prefix k x)) c).

Lemma count_eq_cands k c : count_eq k (cands c (length k)) = cnt k c.
Proof.
  unfold count_eq, cands, cnt. induction c as [|x c IH]; simpl; [reflexivity|].
  unfold no_prefix at 1. rewrite (syms_eqb_sym (firstn (length k) x) k).
  destruct (Nat.leb_spec (length k) (length x)) as [Hle|Hgt];
    destruct (Nat.ltb_spec (length x) (length k)) as [Hlt|Hge]; try lia; simpl.
  - rewrite negb_involutive. destruct (syms_eqb k (firstn (length k) x)); simpl; rewrite IH; reflexivity.
  - exact IH.
Qed.

Lemma in_cands_length k c n : In k (cands c n) -> length k = n.
Proof.
  unfold cands. intros H. apply in_map_iff in H as (x & <- & Hx).
  apply filter_In in Hx as [_ Hx]. apply Nat.leb_le in Hx. apply firstn_length_le. exact Hx.
Qed.

(** ** The inner [find_prefix(candidates, n)] *)

(** Soundness: a non-empty result has length [n] and is a prefix of at least two candidates. *)
Lemma fp_sound ordn c n p : fp ordn c n = p -> p <> [] -> length p = n /\ 2 <= cnt p c.
Proof.
  unfold fp. intros H Hne.
  destruct (length (cands c n) <? 2); [congruence|].
  destruct (max_by_count _) as [[k v]|] eqn:E; [|congruence].
  destruct (Nat.ltb_spec 1 v) as [Hv|Hv]; [|congruence]. subst p.
  apply max_by_count_spec in E as [Hin _].
  apply in_sort_by in Hin. apply in_map_iff in Hin as (k' & Hk & Hin). inversion Hk; subst k' v.
  apply (proj1 (in_dedup _ _ syms_eqb_eq _ _)) in Hin.
  assert (length k = n) as Hl by (eapply in_cands_length; exact Hin).
  split; [exact Hl|]. rewrite <- count_eq_cands, Hl. lia.
Qed.

(** Completeness: if some length-[n] prefix is shared by two candidates, the result is non-empty,
    whatever the hash order. *)
Lemma fp_complete ordn c n k :
  1 <= n -> length k = n -> 2 <= cnt k c -> fp ordn c n <> [].
Proof.
  intros Hn Hl Hc. rewrite <- count_eq_cands, Hl in Hc. unfold fp.
  assert (2 <= length (cands c n)) as Hlen.
  { unfold count_eq in Hc. pose proof (filter_length_bound (syms_eqb k) (cands c n)). lia. }
  destruct (Nat.ltb_spec (length (cands c n)) 2) as [Hlt|_]; [lia|].
  assert (In k (cands c n)) as Hin.
  { unfold count_eq in Hc. destruct (filter_nonempty_in (syms_eqb k) (cands c n)) as (x & Hx & E); [lia|].
    apply syms_eqb_eq in E. subst x. exact Hx. }
  set (groups := map (fun k0 => (k0, count_eq k0 (cands c n))) (dedup syms_eqb (cands c n))).
  assert (In (k, count_eq k (cands c n)) groups) as Hg.
  { unfold groups. apply in_map_iff. exists k. split; [reflexivity|].
    apply (proj2 (in_dedup _ _ syms_eqb_eq _ _)). exact Hin. }
  set (sorted := sort_by (fun kv => ordn (fst kv)) groups).
  assert (In (k, count_eq k (cands c n)) sorted) as Hs by (apply in_sort_by; exact Hg).
  destruct (max_by_count_some sorted) as ([k' v'] & E).
  { intros E. rewrite E in Hs. exact Hs. }
  rewrite E. apply max_by_count_spec in E as [Hin' Hmax].
  specialize (Hmax _ Hs). simpl in Hmax.
  destruct (Nat.ltb_spec 1 v') as [_|Hv]; [|lia].
  apply in_sort_by in Hin'. apply in_map_iff in Hin' as (k'' & Hk & Hin'). inversion Hk; subst k'' v'.
  apply (proj1 (in_dedup _ _ syms_eqb_eq _ _)) in Hin'. apply in_cands_length in Hin'.
  intros ->. simpl in Hin'. lia.
Qed.

Lemma maxlen_ge c x : In x c -> length x <= maxlen c.
Proof.
  induction c as [|y c IH]; simpl; intros H; [contradiction|].
  destruct H as [->|H]; [lia|]. specialize (IH H). lia.
Qed.

Lemma fp_nonempty_maxlen ordn c n : fp ordn c n <> [] -> n <= maxlen c.
Proof.
  intros H. destruct (fp_sound ordn c n _ eq_refl H) as [Hl Hc].
  unfold cnt in Hc.
  destruct (filter_nonempty_in (fun x => negb (no_prefix (fp ordn c n) x)) c) as (x & Hx & E); [lia|].
  apply negb_true_iff in E. apply no_prefix_false in E as (b & ->).
  apply maxlen_ge in Hx. rewrite app_length in Hx. lia.
Qed.

(** ** [find_longest_prefix] *)

Lemma flp_sound ord fuel : forall c n p,
  flp ord fuel c n = Some p -> p <> [] -> exists n', fp (ord n') c n' = p.
Proof.
  induction fuel as [|f IH]; intros c n p H Hne; simpl in H.
  - destruct (fp (ord n) c n) as [|s1 p1] eqn:E1; destruct (fp (ord (S n)) c (S n)) as [|s2 p2] eqn:E2;
      inversion H; subst; try congruence. eauto.
  - destruct (fp (ord n) c n) as [|s1 p1] eqn:E1; destruct (fp (ord (S n)) c (S n)) as [|s2 p2] eqn:E2.
    + inversion H; subst. congruence.
    + destruct (flp ord f c (S (S n))) as [[|s3 p3]|] eqn:E3; inversion H; subst; eauto;
        try (eapply IH; [exact E3|discriminate]).
    + inversion H; subst. eauto.
    + destruct (flp ord f c (S (S n))) as [[|s3 p3]|] eqn:E3; inversion H; subst; eauto;
        try (eapply IH; [exact E3|discriminate]).
Qed.

(** An empty result means the probe at the start length was empty: nothing is missed. *)
Lemma flp_empty ord fuel c n : flp ord fuel c n = Some [] -> fp (ord n) c n = [].
Proof.
  destruct fuel as [|f]; simpl; intros H.
  - destruct (fp (ord n) c n) as [|s1 p1]; [reflexivity|].
    destruct (fp (ord (S n)) c (S n)); discriminate.
  - destruct (fp (ord n) c n) as [|s1 p1]; [reflexivity|].
    destruct (fp (ord (S n)) c (S n)) as [|s2 p2]; [discriminate|].
    destruct (flp ord f c (S (S n))) as [[|s3 p3]|]; discriminate.
Qed.

Lemma flp_total ord fuel : forall c n, maxlen c <= n + 2 * fuel -> flp ord fuel c n <> None.
Proof.
  induction fuel as [|f IH]; intros c n Hm; simpl.
  - destruct (fp (ord (S n)) c (S n)) as [|s2 p2] eqn:E2.
    + destruct (fp (ord n) c n); discriminate.
    + assert (S n <= maxlen c) by (apply (fp_nonempty_maxlen (ord (S n))); rewrite E2; discriminate).
      lia.
  - destruct (fp (ord n) c n) as [|s1 p1]; destruct (fp (ord (S n)) c (S n)) as [|s2 p2];
      try discriminate;
      (assert (flp ord f c (S (S n)) <> None) as Hn by (apply IH; lia);
       destruct (flp ord f c (S (S n))) as [[|s3 p3]|]; [discriminate|discriminate|congruence]).
Qed.

(** ** The outer [find_prefix] *)

Lemma find_prefix_total ord c : exists p, find_prefix ord c = Some p.
Proof.
  unfold find_prefix. destruct (flp ord (S (maxlen c)) c 1) as [p|] eqn:E; [eauto|].
  exfalso. apply (flp_total ord (S (maxlen c)) c 1); [lia|exact E].
Qed.

Lemma find_prefix_sound ord c p :
  find_prefix ord c = Some p -> p <> [] -> 2 <= cnt p c.
Proof.
  intros H Hne. destruct (flp_sound _ _ _ _ _ H Hne) as (n' & E).
  apply (fp_sound _ _ _ _ E Hne).
Qed.

(** The prefix-length probing cannot miss a shared first symbol. *)
Lemma find_prefix_empty ord c s : find_prefix ord c = Some [] -> cnt [s] c <= 1.
Proof.
  intros H. apply flp_empty in H.
  destruct (le_lt_dec (cnt [s] c) 1) as [Hle|Hgt]; [exact Hle|].
  exfalso. apply (fp_complete (ord 1) c 1 [s]); [lia|reflexivity|lia|exact H].
Qed.

(** ** One factoring step *)

(** The result of factoring prefix [α] out of the rules of [a] with suffix non-terminal [a'],
    up to the position at which [apply_rule_transformation] re-inserts the rules. *)
Definition lf_step (pr : list prod) (a : N) (α : list sym) (a' : N) : list prod :=
  (mkProd a (α ++ [NT a']) :: map (factor_out_rule a' α) (rules_of pr a)) ++ others pr a.

Lemma in_rhs_nts a r : In a (rhs_nts r) <-> In (NT a) r.
Proof.
  unfold rhs_nts. rewrite in_flat_map. split.
  - intros ([t|b] & Hs & H); simpl in H; [contradiction|]. destruct H as [->|[]]. exact Hs.
  - intros H. exists (NT a). split; [exact H|left; reflexivity].
Qed.

Lemma in_pr_nts b pr :
  In b (pr_nts pr) <-> exists p, In p pr /\ (lhs p = b \/ In (NT b) (rhs p)).
Proof.
  unfold pr_nts. rewrite in_flat_map. split.
  - intros (p & Hp & [H|H]); exists p; split; auto. right. apply in_rhs_nts. exact H.
  - intros (p & Hp & [H|H]); exists p; split; auto; [left; exact H|].
    right. apply in_rhs_nts. exact H.
Qed.

Lemma in_rules_of pr a p : In p (rules_of pr a) <-> In p pr /\ lhs p = a.
Proof. unfold rules_of. rewrite filter_In, N.eqb_eq. tauto. Qed.

Lemma in_others pr a p : In p (others pr a) <-> In p pr /\ lhs p <> a.
Proof. unfold others. rewrite filter_In, negb_true_iff, N.eqb_neq. tauto. Qed.

Lemma in_lf_step pr a α a' p :
  In p (lf_step pr a α a') <->
  p = mkProd a (α ++ [NT a']) \/
  (exists r, In r pr /\ lhs r = a /\ p = factor_out_rule a' α r) \/
  (In p pr /\ lhs p <> a).
Proof.
  unfold lf_step. rewrite in_app_iff. simpl. rewrite in_map_iff, in_others. split.
  - intros [[H|(r & Hr & Hin)]|H]; auto.
    right. left. apply in_rules_of in Hin as [Hin Hl]. exists r. auto.
  - intros [H|[(r & Hin & Hl & Hr)|H]]; auto.
    left. right. exists r. split; [auto|]. apply in_rules_of. auto.
Qed.

Section StepLang.
  Variables (g g' : cfg) (a : N) (α : list sym) (a' : N).
  Hypothesis Hfresh : ~ In a' (pr_nts (prods g)).
  Hypothesis Hα : ~ In (NT a') α.
  Hypothesis Haa : a <> a'.
  Hypothesis Hpr' : forall p, In p (prods g') <-> In p (lf_step (prods g) a α a').

  Lemma old_prod_free p : In p (prods g) -> lhs p <> a' /\ ~ In (NT a') (rhs p).
  Proof.
    intros Hp. split; intros H; apply Hfresh; apply in_pr_nts; exists p; auto.
  Qed.

  Lemma step_fwd γ w : derives g γ w -> derives g' γ w.
  Proof.
    induction 1 as [|t γ w H IH|b p γ u v Hin Hl Hr IHr Ha IHa].
    - constructor.
    - constructor. exact IH.
    - destruct (N.eq_dec b a) as [->|Hne].
      + destruct (no_prefix α (rhs p)) eqn:E.
        * apply d_NT with (p := p); auto. apply Hpr', in_lf_step. right. left.
          exists p. repeat split; auto. unfold factor_out_rule. rewrite E. reflexivity.
        * pose proof (no_prefix_false_skipn _ _ E) as Hs.
          rewrite Hs in IHr. apply derives_app_inv in IHr as (u1 & u2 & -> & Hu1 & Hu2).
          assert (derives g' [NT a'] u2) as Ha'.
          { apply derives_single. exists (factor_out_rule a' α p). split; [|split].
            - apply Hpr', in_lf_step. right. left. exists p. auto.
            - unfold factor_out_rule. rewrite E. reflexivity.
            - unfold factor_out_rule. rewrite E. exact Hu2. }
          apply d_NT with (p := mkProd a (α ++ [NT a'])); auto.
          -- apply Hpr', in_lf_step. left. reflexivity.
          -- simpl. apply derives_app; assumption.
      + apply d_NT with (p := p); auto. apply Hpr', in_lf_step. right. right. split; congruence.
  Qed.

  Lemma step_bwd γ w : derives g' γ w ->
    (~ In (NT a') γ -> derives g γ w) /\
    (forall δ, γ = δ ++ [NT a'] -> ~ In (NT a') δ ->
       exists r β, In r (prods g) /\ lhs r = a /\ rhs r = α ++ β /\ derives g (δ ++ β) w).
  Proof.
    induction 1 as [|t γ w H IH|b p γ u v Hin Hl Hr IHr Ha IHa].
    - split; [intros _; constructor|]. intros δ H _. destruct δ; discriminate.
    - destruct IH as [IH1 IH2]. split.
      + intros Hf. constructor. apply IH1. intros Hi. apply Hf. right. exact Hi.
      + intros δ E Hf. destruct δ as [|d δ]; simpl in E; [discriminate|].
        inversion E; subst d γ.
        destruct (IH2 δ eq_refl) as (r & β & H1 & H2 & H3 & H4).
        { intros Hi. apply Hf. right. exact Hi. }
        exists r, β. repeat split; auto. simpl. constructor. exact H4.
    - destruct IHr as [IHr1 IHr2]. destruct IHa as [IHa1 IHa2].
      assert (b <> a' -> derives g [NT b] u) as K.
      { intros Hb. apply Hpr', in_lf_step in Hin as [->|[(r & Hrin & Hrl & ->)|[Hpin Hpl]]].
        - simpl in *. destruct (IHr2 α eq_refl Hα) as (r & β & H1 & H2 & H3 & H4).
          apply derives_single. exists r. repeat split; auto; [congruence|]. rewrite H3. exact H4.
        - unfold factor_out_rule in *. destruct (no_prefix α (rhs r)) eqn:E.
          + apply derives_single. exists r. repeat split; auto.
            apply IHr1. apply old_prod_free. exact Hrin.
          + simpl in Hl. congruence.
        - apply derives_single. exists p. repeat split; auto.
          apply IHr1. apply old_prod_free. exact Hpin. }
      split.
      + intros Hf. apply derives_cons_NT. exists u, v. split; [reflexivity|]. split.
        * apply K. intros ->. apply Hf. left. reflexivity.
        * apply IHa1. intros Hi. apply Hf. right. exact Hi.
      + intros δ E Hf. destruct δ as [|d δ]; simpl in E.
        * injection E as -> ->.
          assert (v = []) as -> by (inversion Ha; reflexivity).
          apply Hpr', in_lf_step in Hin as [->|[(r & Hrin & Hrl & ->)|[Hpin Hpl]]].
          -- simpl in Hl. congruence.
          -- unfold factor_out_rule in *. destruct (no_prefix α (rhs r)) eqn:E'.
             ++ congruence.
             ++ simpl in *. pose proof (no_prefix_false_skipn _ _ E') as Hs.
                exists r, (skipn (length α) (rhs r)). repeat split; auto.
                rewrite app_nil_r. apply IHr1.
                intros Hi. apply (proj2 (old_prod_free r Hrin)). rewrite Hs.
                apply in_or_app. right. exact Hi.
          -- exfalso. apply (proj1 (old_prod_free p Hpin)). exact Hl.
        * inversion E; subst d γ.
          destruct (IHa2 δ eq_refl) as (r & β & H1 & H2 & H3 & H4).
          { intros Hi. apply Hf. right. exact Hi. }
          exists r, β. repeat split; auto. simpl. apply derives_cons_NT.
          exists u, v. split; [reflexivity|]. split; [|exact H4].
          apply K. intros ->. apply Hf. left. reflexivity.
  Qed.

  Lemma step_lang_free γ w : ~ In (NT a') γ -> (derives g' γ w <-> derives g γ w).
  Proof.
    intros Hf. split; [|apply step_fwd]. intros H. apply (proj1 (step_bwd _ _ H) Hf).
  Qed.

  Lemma step_lang_new w :
    derives g' [NT a'] w <->
    exists r β, In r (prods g) /\ lhs r = a /\ rhs r = α ++ β /\ derives g β w.
  Proof.
    split.
    - intros H. destruct (proj2 (step_bwd _ _ H) [] eq_refl) as (r & β & H1 & H2 & H3 & H4).
      { intros []. }
      exists r, β. auto.
    - intros (r & β & H1 & H2 & H3 & H4).
      assert (no_prefix α (rhs r) = false) as E by (apply no_prefix_false; eauto).
      apply derives_single. exists (factor_out_rule a' α r). split; [|split].
      + apply Hpr', in_lf_step. right. left. exists r. auto.
      + unfold factor_out_rule. rewrite E. reflexivity.
      + unfold factor_out_rule. rewrite E. simpl. rewrite H3, skipn_len_app.
        apply step_fwd. exact H4.
  Qed.
End StepLang.

(** Non-terminals and left-hand sides after a step. *)
Lemma step_nts pr pr' a α a' r0 β0 :
  In r0 pr -> lhs r0 = a -> rhs r0 = α ++ β0 ->
  (forall p, In p pr' <-> In p (lf_step pr a α a')) ->
  forall b, In b (pr_nts pr') <-> In b (pr_nts pr) \/ b = a'.
Proof.
  intros Hr0 Hl0 Hrhs0 Hpr' b. rewrite !in_pr_nts. split.
  - intros (p & Hp & Hb). apply Hpr', in_lf_step in Hp as [->|[(r & Hrin & Hrl & ->)|[Hpin Hpl]]].
    + simpl in Hb. destruct Hb as [Hb|Hb].
      * left. exists r0. split; [exact Hr0|]. left. congruence.
      * apply in_app_or in Hb as [Hb|[Hb|[]]].
        -- left. exists r0. split; [exact Hr0|]. right. rewrite Hrhs0. apply in_or_app. auto.
        -- right. congruence.
    + unfold factor_out_rule in Hb. destruct (no_prefix α (rhs r)) eqn:E.
      * left. exists r. auto.
      * simpl in Hb. destruct Hb as [Hb|Hb]; [right; congruence|].
        left. exists r. split; [exact Hrin|]. right.
        rewrite (no_prefix_false_skipn _ _ E). apply in_or_app. auto.
    + left. exists p. auto.
  - intros [(p & Hp & Hb)| ->].
    + destruct (N.eq_dec (lhs p) a) as [Hpa|Hpa].
      * destruct (no_prefix α (rhs p)) eqn:E.
        -- exists p. split; [|exact Hb]. apply Hpr', in_lf_step. right. left. exists p.
           repeat split; auto. unfold factor_out_rule. rewrite E. reflexivity.
        -- destruct Hb as [Hb|Hb].
           ++ exists (mkProd a (α ++ [NT a'])). split; [apply Hpr', in_lf_step; auto|].
              left. simpl. congruence.
           ++ rewrite (no_prefix_false_skipn _ _ E) in Hb. apply in_app_or in Hb as [Hb|Hb].
              ** exists (mkProd a (α ++ [NT a'])). split; [apply Hpr', in_lf_step; auto|].
                 right. simpl. apply in_or_app. auto.
              ** exists (factor_out_rule a' α p). split.
                 { apply Hpr', in_lf_step. right. left. exists p. auto. }
                 right. unfold factor_out_rule. rewrite E. exact Hb.
      * exists p. split; [|exact Hb]. apply Hpr', in_lf_step. auto.
    + exists (mkProd a (α ++ [NT a'])). split; [apply Hpr', in_lf_step; auto|].
      right. simpl. apply in_or_app. right. left. reflexivity.
Qed.

Lemma step_lhs pr pr' a α a' r0 :
  In r0 pr -> lhs r0 = a ->
  (forall p, In p pr' <-> In p (lf_step pr a α a')) ->
  forall b, In b (map lhs pr') -> In b (map lhs pr) \/ b = a'.
Proof.
  intros Hr0 Hl0 Hpr' b Hb. apply in_map_iff in Hb as (p & <- & Hp).
  apply Hpr', in_lf_step in Hp as [->|[(r & Hrin & Hrl & ->)|[Hpin Hpl]]].
  - left. apply in_map_iff. exists r0. auto.
  - unfold factor_out_rule. destruct (no_prefix α (rhs r)).
    + left. apply in_map. exact Hrin.
    + right. reflexivity.
  - left. apply in_map. exact Hpin.
Qed.

(** ** The termination measure *)

Lemma sumf_app {A} (f : A -> nat) l1 l2 : sumf f (l1 ++ l2) = sumf f l1 + sumf f l2.
Proof. induction l1 as [|x l1 IH]; simpl; [reflexivity|]. rewrite IH. lia. Qed.

Lemma sumf_perm {A} (f : A -> nat) l1 l2 : Permutation l1 l2 -> sumf f l1 = sumf f l2.
Proof. induction 1; simpl; lia. Qed.

Lemma sumf_ext_in {A} (f h : A -> nat) l : (forall x, In x l -> f x = h x) -> sumf f l = sumf h l.
Proof.
  induction l as [|x l IH]; intros H; simpl; [reflexivity|].
  rewrite (H x (or_introl eq_refl)), IH; [reflexivity|]. intros y Hy. apply H. right. exact Hy.
Qed.

Lemma sumf_le_in {A} (f h : A -> nat) l : (forall x, In x l -> f x <= h x) -> sumf f l <= sumf h l.
Proof.
  induction l as [|x l IH]; intros H; simpl; [lia|].
  pose proof (H x (or_introl eq_refl)).
  assert (sumf f l <= sumf h l) by (apply IH; intros y Hy; apply H; right; exact Hy). lia.
Qed.

Lemma sumf_map {A B} (f : B -> nat) (h : A -> B) l : sumf f (map h l) = sumf (fun x => f (h x)) l.
Proof. induction l as [|x l IH]; simpl; [reflexivity|]. rewrite IH. reflexivity. Qed.

Lemma sumf_add {A} (f h : A -> nat) l : sumf (fun x => f x + h x) l = sumf f l + sumf h l.
Proof. induction l as [|x l IH]; simpl; [reflexivity|]. rewrite IH. lia. Qed.

Lemma sumf_const {A} (k : nat) (l : list A) : sumf (fun _ => k) l = length l * k.
Proof. induction l as [|x l IH]; simpl; [reflexivity|]. rewrite IH. lia. Qed.

Lemma cross_app_l X X' Y : cross (X ++ X') Y = cross X Y + cross X' Y.
Proof. apply sumf_app. Qed.

Lemma cross_app_r X Y Y' : cross X (Y ++ Y') = cross X Y + cross X Y'.
Proof.
  unfold cross. rewrite <- sumf_add. apply sumf_ext_in. intros x _. apply sumf_app.
Qed.

Lemma cross_perm_l X X' Y : Permutation X X' -> cross X Y = cross X' Y.
Proof. apply sumf_perm. Qed.

Lemma cross_perm_r X Y Y' : Permutation Y Y' -> cross X Y = cross X Y'.
Proof. intros H. apply sumf_ext_in. intros x _. apply sumf_perm. exact H. Qed.

Lemma cross_zero X Y : (forall x y, In x X -> In y Y -> lhs x <> lhs y) -> cross X Y = 0.
Proof.
  intros H. unfold cross. rewrite (sumf_ext_in _ (fun _ => 0)).
  - rewrite sumf_const. lia.
  - intros x Hx. rewrite (sumf_ext_in _ (fun _ => 0)).
    + rewrite sumf_const. lia.
    + intros y Hy. unfold plcp. destruct (N.eqb_spec (lhs x) (lhs y)) as [E|_]; [|reflexivity].
      exfalso. exact (H x y Hx Hy E).
Qed.

Lemma lcp_sym x : forall y, lcp x y = lcp y x.
Proof.
  induction x as [|s x IH]; intros [|t y]; simpl; try reflexivity.
  rewrite (sym_eqb_sym t s). destruct (sym_eqb s t); [|reflexivity]. rewrite IH. reflexivity.
Qed.

Lemma plcp_sym p q : plcp p q = plcp q p.
Proof. unfold plcp. rewrite (N.eqb_sym (lhs q)), lcp_sym. reflexivity. Qed.

Lemma cross_cons_r X y Y : cross X (y :: Y) = sumf (fun x => plcp x y) X + cross X Y.
Proof. unfold cross. rewrite <- sumf_add. reflexivity. Qed.

Lemma cross_sym X : forall Y, cross X Y = cross Y X.
Proof.
  induction X as [|x X IH]; intros Y.
  - simpl. symmetry. apply cross_zero. intros ? ? _ [].
  - rewrite cross_cons_r, <- IH. unfold cross at 1. simpl. fold (cross X Y).
    f_equal. apply sumf_ext_in. intros y _. apply plcp_sym.
Qed.

Lemma cross_single_le x X Y : In x X -> cross [x] Y <= cross X Y.
Proof.
  induction X as [|z X IH]; [contradiction|].
  intros H. change (z :: X) with ([z] ++ X). rewrite cross_app_l.
  destruct H as [->|H]; [lia|]. specialize (IH H). lia.
Qed.

Lemma lcp_self x : lcp x x = length x.
Proof. induction x as [|s x IH]; simpl; [reflexivity|]. rewrite sym_eqb_refl, IH. reflexivity. Qed.

Lemma lcp_app_same k x y : lcp (k ++ x) (k ++ y) = length k + lcp x y.
Proof. induction k as [|s k IH]; simpl; [reflexivity|]. rewrite sym_eqb_refl, IH. reflexivity. Qed.

Lemma lcp_no_prefix k : forall y s, (~ exists b, y = k ++ b) -> lcp (k ++ s) y = lcp k y.
Proof.
  induction k as [|t k IH]; intros y s H.
  - exfalso. apply H. exists y. reflexivity.
  - destruct y as [|u y]; simpl; [reflexivity|].
    destruct (sym_eqb_spec t u) as [->|_]; [|reflexivity].
    rewrite IH; [reflexivity|]. intros (b & ->). apply H. exists b. reflexivity.
Qed.

Lemma filter_partition_perm {A} (f : A -> bool) l :
  Permutation l (filter f l ++ filter (fun x => negb (f x)) l).
Proof.
  induction l as [|x l IH]; simpl; [constructor|].
  destruct (f x); simpl.
  - apply perm_skip. exact IH.
  - transitivity (x :: filter f l ++ filter (fun x => negb (f x)) l);
      [apply perm_skip; exact IH|apply Permutation_middle].
Qed.

Lemma filter_map_comm {A B} (f : B -> bool) (h : A -> B) l :
  filter f (map h l) = map h (filter (fun x => f (h x)) l).
Proof.
  induction l as [|x l IH]; simpl; [reflexivity|].
  destruct (f (h x)); simpl; rewrite IH; reflexivity.
Qed.

Section GroupMeasure.
  Variables (a a' : N) (α : list sym).
  Hypothesis Haa : a <> a'.
  Let fac := factor_out_rule a' α.
  Let hasp (r : prod) := negb (no_prefix α (rhs r)).

  Lemma plcp_factored x y :
    lhs x = a -> lhs y = a -> hasp x = true -> hasp y = true ->
    plcp x y = length α + plcp (fac x) (fac y).
  Proof.
    unfold hasp, fac, factor_out_rule. intros Hx Hy Ex Ey.
    apply negb_true_iff in Ex, Ey. rewrite Ex, Ey. unfold plcp. simpl.
    rewrite Hx, Hy, !N.eqb_refl.
    rewrite (no_prefix_false_skipn _ _ Ex) at 1. rewrite (no_prefix_false_skipn _ _ Ey) at 1.
    apply lcp_app_same.
  Qed.

  Lemma cross_factored X Y :
    (forall x, In x X -> lhs x = a /\ hasp x = true) ->
    (forall y, In y Y -> lhs y = a /\ hasp y = true) ->
    cross X Y = length X * length Y * length α + cross (map fac X) (map fac Y).
  Proof.
    intros HX HY. unfold cross. rewrite sumf_map.
    rewrite (sumf_ext_in _ (fun x => length Y * length α + sumf (plcp (fac x)) (map fac Y))).
    - rewrite sumf_add, sumf_const. lia.
    - intros x Hx. destruct (HX x Hx) as [Hxl Hxp]. rewrite sumf_map.
      rewrite (sumf_ext_in _ (fun y => length α + plcp (fac x) (fac y))).
      + rewrite sumf_add, sumf_const. lia.
      + intros y Hy. destruct (HY y Hy) as [Hyl Hyp]. apply plcp_factored; assumption.
  Qed.

  Lemma group_measure R :
    (forall r, In r R -> lhs r = a) -> α <> [] ->
    2 <= length (filter hasp R) ->
    cross (mkProd a (α ++ [NT a']) :: map fac R) (mkProd a (α ++ [NT a']) :: map fac R)
    < cross R R.
  Proof.
    intros HR Hne Hm.
    set (h := mkProd a (α ++ [NT a'])).
    set (R1 := filter hasp R). set (R2 := filter (fun r => negb (hasp r)) R).
    set (F1 := map fac R1).
    assert (Permutation R (R1 ++ R2)) as HP by apply filter_partition_perm.
    assert (forall r, In r R1 -> lhs r = a /\ hasp r = true) as HR1.
    { intros r Hr. apply filter_In in Hr as [Hr E]. split; [apply HR; exact Hr|exact E]. }
    assert (forall r, In r R2 -> lhs r = a /\ no_prefix α (rhs r) = true) as HR2.
    { intros r Hr. apply filter_In in Hr as [Hr E]. split; [apply HR; exact Hr|].
      unfold hasp in E. rewrite negb_involutive in E. exact E. }
    assert (map fac R2 = R2) as HF2.
    { rewrite <- (map_id R2) at 2. apply map_ext_in. intros r Hr.
      unfold fac, factor_out_rule. rewrite (proj2 (HR2 r Hr)). reflexivity. }
    assert (forall x, In x F1 -> lhs x = a') as HF1.
    { intros x Hx. apply in_map_iff in Hx as (r & <- & Hr). destruct (HR1 r Hr) as [_ E].
      unfold hasp in E. apply negb_true_iff in E. unfold fac, factor_out_rule. rewrite E. reflexivity. }
    assert (Permutation (h :: map fac R) ([h] ++ F1 ++ R2)) as HP'.
    { simpl. apply perm_skip. rewrite <- HF2. unfold F1. rewrite <- map_app.
      apply Permutation_map. exact HP. }
    rewrite (cross_perm_l _ _ _ HP'), (cross_perm_r _ _ _ HP').
    rewrite (cross_perm_l _ _ _ HP), (cross_perm_r _ _ _ HP).
    rewrite !cross_app_l, !cross_app_r.
    assert (cross [h] [h] = length α + 1) as E1.
    { unfold cross, plcp. simpl. rewrite N.eqb_refl, lcp_self, app_length. simpl. lia. }
    assert (cross [h] F1 = 0) as E2.
    { apply cross_zero. intros x y [<-|[]] Hy. rewrite (HF1 y Hy). exact Haa. }
    assert (cross F1 [h] = 0) as E3 by (rewrite cross_sym; exact E2).
    assert (cross F1 R2 = 0) as E4.
    { apply cross_zero. intros x y Hx Hy. rewrite (HF1 x Hx), (proj1 (HR2 y Hy)). congruence. }
    assert (cross R2 F1 = 0) as E5 by (rewrite cross_sym; exact E4).
    assert (cross R1 R1 = length R1 * length R1 * length α + cross F1 F1) as E6
        by (apply cross_factored; assumption).
    assert (cross [h] R2 <= cross R1 R2) as E7.
    { destruct (filter_nonempty_in hasp R) as (x0 & Hx0 & Ex0); [lia|].
      assert (In x0 R1) as Hx0' by (apply filter_In; auto).
      pose proof (cross_single_le x0 R1 R2 Hx0') as Hle.
      assert (cross [h] R2 <= cross [x0] R2); [|lia].
      unfold cross. simpl. rewrite !Nat.add_0_r. apply sumf_le_in. intros y Hy.
      destruct (HR2 y Hy) as [Hyl Hyp]. destruct (HR1 x0 Hx0') as [Hxl Hxp].
      unfold hasp in Hxp. apply negb_true_iff in Hxp.
      unfold plcp. simpl. rewrite Hxl, Hyl, N.eqb_refl.
      assert (~ exists b, rhs y = α ++ b) as Hn.
      { intros Hb. apply no_prefix_false in Hb. congruence. }
      rewrite (no_prefix_false_skipn _ _ Hxp).
      rewrite !lcp_no_prefix by exact Hn. lia. }
    assert (cross R2 [h] <= cross R2 R1) as E8.
    { rewrite (cross_sym R2 [h]), (cross_sym R2 R1). exact E7. }
    assert (1 <= length α) as Hα by (destruct α; [congruence|simpl; lia]).
    rewrite E1, E2, E3, E4, E5, E6.
    assert (4 * length α <= length R1 * length R1 * length α) as Hq.
    { apply Nat.mul_le_mono_r. change 4 with (2 * 2). apply Nat.mul_le_mono; exact Hm. }
    lia.
  Qed.
End GroupMeasure.

Lemma cross_disjoint X Y :
  (forall x y, In x X -> In y Y -> lhs x <> lhs y) ->
  cross (X ++ Y) (X ++ Y) = cross X X + cross Y Y.
Proof.
  intros H. rewrite !cross_app_l, !cross_app_r.
  rewrite (cross_zero X Y H), (cross_sym Y X), (cross_zero X Y H). lia.
Qed.

Lemma cnt_rules α R :
  cnt α (map rhs R) = length (filter (fun r => negb (no_prefix α (rhs r))) R).
Proof. unfold cnt. rewrite filter_map_comm, map_length. reflexivity. Qed.

Lemma cnt_witness α pr a :
  1 <= cnt α (map rhs (rules_of pr a)) ->
  exists r β, In r pr /\ lhs r = a /\ rhs r = α ++ β.
Proof.
  rewrite cnt_rules. intros H.
  destruct (filter_nonempty_in _ _ H) as (r & Hr & E).
  apply in_rules_of in Hr as [Hr Hl]. apply negb_true_iff, no_prefix_false in E as (β & E).
  eauto.
Qed.

Lemma step_measure pr a α a' :
  ~ In a' (pr_nts pr) -> α <> [] -> 2 <= cnt α (map rhs (rules_of pr a)) ->
  lf_weight (lf_step pr a α a') < lf_weight pr.
Proof.
  intros Hf Hne Hc. unfold lf_weight.
  destruct (cnt_witness α pr a) as (r0 & β0 & Hr0 & Hl0 & Hrhs0); [lia|].
  assert (a <> a') as Haa.
  { intros <-. apply Hf, in_pr_nts. exists r0. auto. }
  assert (Permutation pr (rules_of pr a ++ others pr a)) as HP by apply filter_partition_perm.
  rewrite (cross_perm_l _ _ _ HP), (cross_perm_r _ _ _ HP).
  unfold lf_step. rewrite !cross_disjoint.
  - assert (cross (mkProd a (α ++ [NT a']) :: map (factor_out_rule a' α) (rules_of pr a))
                  (mkProd a (α ++ [NT a']) :: map (factor_out_rule a' α) (rules_of pr a))
            < cross (rules_of pr a) (rules_of pr a)); [|lia].
    apply group_measure; auto.
    + intros r Hr. apply in_rules_of in Hr. tauto.
    + rewrite <- cnt_rules. exact Hc.
  - intros x y Hx Hy. apply in_rules_of in Hx as [_ Hx]. apply in_others in Hy as [_ Hy]. congruence.
  - intros x y Hx Hy. apply in_others in Hy as [Hy Hya].
    assert (lhs y <> a') as Hya'.
    { intros E. apply Hf, in_pr_nts. exists y. auto. }
    destruct Hx as [<-|Hx]; simpl; [congruence|].
    apply in_map_iff in Hx as (r & <- & Hr). apply in_rules_of in Hr as [_ Hr].
    unfold factor_out_rule. destruct (no_prefix α (rhs r)); simpl; congruence.
Qed.
