(** * Checkers for FIRST_k / FOLLOW_k / LL(k)-decision results claimed by the implementation.
    Each checker compares a claimed result with the verified reference of FirstFollow.v by SET
    equality (order- and duplicate-insensitive) and is proved to imply the derivation-based
    definitions of Analysis/KSeq.v. *)
From Coq Require Import List Arith NArith Bool Lia.
From Parol Require Import Grammar.Cfg Analysis.KSeq Analysis.FirstFollow.
Import ListNotations.

Definition sub_b (a b : list str) : bool := forallb (fun u => existsb (str_eqb u) b) a.
Definition set_eq_b (a b : list str) : bool := sub_b a b && sub_b b a.

Lemma sub_b_spec a b : sub_b a b = true <-> forall u, In u a -> In u b.
Proof.
  unfold sub_b. rewrite forallb_forall. split; intros H u Hu.
  - specialize (H u Hu). apply existsb_exists in H as (v & Hv & E). apply str_eqb_eq in E. subst. exact Hv.
  - apply existsb_exists. exists u. split; [apply H, Hu|apply str_eqb_eq; reflexivity].
Qed.

Lemma set_eq_b_spec a b : set_eq_b a b = true <-> forall u, In u a <-> In u b.
Proof.
  unfold set_eq_b. rewrite andb_true_iff, !sub_b_spec. split.
  - intros [H1 H2] u. split; auto.
  - intros H. split; intros u; apply H.
Qed.

(** Claimed FIRST_k sets per non-terminal. *)
Definition first_check (fuel k : nat) (g : cfg) (claimed : list (N * list str)) : option bool :=
  match first_ref fuel k g with
  | None => None
  | Some t => Some (forallb (fun r => set_eq_b (snd r) (lookup t (fst r))) claimed)
  end.

Theorem first_check_sound fuel k g claimed :
  first_check fuel k g claimed = Some true ->
  forall a s, In (a, s) claimed -> forall u, In u s <-> First k g [NT a] u.
Proof.
  unfold first_check. destruct (first_ref fuel k g) as [t|] eqn:E; [|discriminate].
  intros H a s Hin u. inversion H as [H']. rewrite forallb_forall in H'.
  specialize (H' (a, s) Hin). cbn [fst snd] in H'. rewrite set_eq_b_spec in H'.
  rewrite H'. apply (first_ref_correct_all fuel k g t E).
Qed.

(** Claimed FIRST_k sets per production (in grammar order). *)
Fixpoint zip_check (cl : list (list str)) (ref : list (list str)) : bool :=
  match cl, ref with
  | [], [] => true
  | c :: cl', r :: ref' => set_eq_b c r && zip_check cl' ref'
  | _, _ => false
  end.

Lemma zip_check_nth cl : forall ref, zip_check cl ref = true ->
  forall i c r, nth_error cl i = Some c -> nth_error ref i = Some r -> forall u, In u c <-> In u r.
Proof.
  induction cl as [|c0 cl IH]; intros [|r0 ref] H i c r Hc Hr; try discriminate.
  - destruct i; discriminate.
  - simpl in H. apply andb_prop in H as [H1 H2]. destruct i as [|i]; simpl in Hc, Hr.
    + inversion Hc; inversion Hr; subst. apply set_eq_b_spec. exact H1.
    + eapply IH; eauto.
Qed.

Definition first_prods_check (fuel k : nat) (g : cfg) (claimed : list (list str)) : option bool :=
  match first_ref fuel k g with
  | None => None
  | Some t => Some (zip_check claimed (first_prods k g t))
  end.

Theorem first_prods_check_sound fuel k g claimed :
  first_prods_check fuel k g claimed = Some true ->
  forall i p c, nth_error (prods g) i = Some p -> nth_error claimed i = Some c ->
  forall u, In u c <-> First k g (rhs p) u.
Proof.
  unfold first_prods_check. destruct (first_ref fuel k g) as [t|] eqn:E; [|discriminate].
  intros H i p c Hp Hc u. inversion H as [H'].
  destruct (first_prods_correct fuel k g t E i p Hp) as (s & Hs & Hspec).
  rewrite (zip_check_nth _ _ H' i c s Hc Hs u). apply Hspec.
Qed.

(** Claimed FOLLOW_k sets per non-terminal. *)
Definition follow_check (fuel k : nat) (g : cfg) (claimed : list (N * list str)) : option bool :=
  match first_ref fuel k g with
  | None => None
  | Some ft =>
      match follow_ref fuel k g ft with
      | None => None
      | Some wt => Some (forallb (fun r => set_eq_b (snd r) (lookup wt (fst r))) claimed)
      end
  end.

Theorem follow_check_sound fuel k g claimed :
  follow_check fuel k g claimed = Some true ->
  forall a s, In (a, s) claimed -> forall u, In u s <-> Follow k g a u.
Proof.
  unfold follow_check. destruct (first_ref fuel k g) as [ft|] eqn:E; [|discriminate].
  destruct (follow_ref fuel k g ft) as [wt|] eqn:E2; [|discriminate].
  intros H a s Hin u. inversion H as [H']. rewrite forallb_forall in H'.
  specialize (H' (a, s) Hin). cbn [fst snd] in H'. rewrite set_eq_b_spec in H'.
  rewrite H'. apply (follow_ref_correct_all fuel fuel k g ft wt E E2).
Qed.

(** Claimed decision rows [(a, Some k)] / [(a, None)]. *)
Definition opt_nat_eqb (a b : option nat) : bool :=
  match a, b with
  | Some x, Some y => Nat.eqb x y
  | None, None => true
  | _, _ => false
  end.

Definition row_lookup (rows : list (N * option nat)) (a : N) : option (option nat) :=
  option_map snd (find (fun r => N.eqb (fst r) a) rows).

Definition decide_check (fuel K : nat) (g : cfg) (claimed : list (N * option nat)) : option bool :=
  match decide_ref fuel K g with
  | None => None
  | Some rows =>
      Some (forallb (fun c => match row_lookup rows (fst c) with
                              | Some r => opt_nat_eqb r (snd c)
                              | None => false end) claimed)
  end.

Theorem decide_check_sound fuel K g claimed :
  decide_check fuel K g claimed = Some true ->
  forall a r, In (a, r) claimed -> decide_spec K g a r.
Proof.
  unfold decide_check. destruct (decide_ref fuel K g) as [rows|] eqn:E; [|discriminate].
  intros H a r Hin. inversion H as [H']. rewrite forallb_forall in H'.
  specialize (H' (a, r) Hin). cbn [fst snd] in H'. unfold row_lookup in H'.
  destruct (find (fun r0 => N.eqb (fst r0) a) rows) as [[a' r']|] eqn:F; [|discriminate].
  cbn [option_map snd] in H'.
  apply find_some in F as [Fin Fa]. cbn [fst] in Fa. apply N.eqb_eq in Fa. subst a'.
  assert (r' = r) as ->.
  { destruct r' as [x|], r as [y|]; simpl in H'; try discriminate; [|reflexivity].
    apply Nat.eqb_eq in H'. congruence. }
  apply (proj1 (decide_ref_correct fuel K g rows E) a r Fin).
Qed.
