(** Property C29 — pinned statements (tools/pin.py); proofs in Ls/Diagnostics.v. *)
From Coq Require Import List NArith.
From Parol Require Import Ls.Diagnostics.
Import ListNotations.

Theorem C29_last_is_final_refuted :
  exists
  (evs : list event) (sched : list nat) (s : state) (v : version) 
  (d : diag) (v' : version),
  NoDup (versions evs) /\
  run_state real_server (init evs) sched = Some s /\
  quiescent s /\
  last_published s = Some (v, d) /\
  expected evs = Some (v', DOk) /\ (v < v')%N /\ last_published s <> expected evs.
Proof. exact last_is_final_refuted. Qed.

Theorem C29_same_version_race_refuted :
  exists (evs : list event) (sched : list nat) (s : state),
  run_state real_server (init evs) sched = Some s /\
  quiescent s /\ last_published s = Some (1%N, DOk) /\ expected evs = Some (1%N, DBgErr).
Proof. exact same_version_race_refuted. Qed.

Theorem C29_guard_alone_refuted :
  exists (evs : list event) (sched : list nat) (s : state),
  NoDup (versions evs) /\
  run_state {| guard := true; ok_first := false |} (init evs) sched = Some s /\
  quiescent s /\ last_published s <> expected evs.
Proof. exact guard_alone_refuted. Qed.

Theorem C29_ok_first_alone_refuted :
  exists (evs : list event) (sched : list nat) (s : state),
  NoDup (versions evs) /\
  run_state {| guard := false; ok_first := true |} (init evs) sched = Some s /\
  quiescent s /\ last_published s <> expected evs.
Proof. exact ok_first_alone_refuted. Qed.

Theorem C29_last_is_final :
  forall (evs : list event) (s : state),
  NoDup (versions evs) ->
  reachable guarded evs s -> quiescent s -> last_published s = expected evs.
Proof. exact last_is_final. Qed.

Theorem C29_run_guarded_final :
  forall (evs : list event) (sched : list nat) (s : state),
  NoDup (versions evs) ->
  run_state guarded (init evs) sched = Some s ->
  quiescent_b s = true -> last_published s = expected evs.
Proof. exact run_guarded_final. Qed.

