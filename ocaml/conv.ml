module String = Stdlib.String
module List = Stdlib.List
module Char = Stdlib.Char
(* Conversions between OCaml values and the extracted Coq datatypes. *)
open BinNums
open Datatypes

let rec pos_of_int (i : int) : positive =
  if i = 1 then Coq_xH
  else if i land 1 = 0 then Coq_xO (pos_of_int (i lsr 1))
  else Coq_xI (pos_of_int (i lsr 1))

let n_of_int (i : int) : coq_N = if i = 0 then N0 else if i < 0 then failwith "n_of_int" else Npos (pos_of_int i)

let rec int_of_pos = function
  | Coq_xH -> 1
  | Coq_xO p -> 2 * int_of_pos p
  | Coq_xI p -> 2 * int_of_pos p + 1

let int_of_n = function N0 -> 0 | Npos p -> int_of_pos p

let z_of_int (i : int) : coq_Z = if i = 0 then Z0 else if i > 0 then Zpos (pos_of_int i) else Zneg (pos_of_int (-i))
let int_of_z = function Z0 -> 0 | Zpos p -> int_of_pos p | Zneg p -> - (int_of_pos p)

let rec nat_of_int (i : int) : nat = if i <= 0 then O else S (nat_of_int (i - 1))
let rec int_of_nat = function O -> 0 | S n -> 1 + int_of_nat n

(* arbitrary-size N from a decimal string (for the 128-bit packed tuples) *)
let n_of_decimal (s : string) : coq_N =
  (* repeated division by 2 on the decimal string *)
  let digits = Array.init (Stdlib.String.length s) (fun i -> Char.code s.[i] - 48) in
  let is_zero () = Array.for_all (fun d -> d = 0) digits in
  let bits = ref [] in
  while not (is_zero ()) do
    let carry = ref 0 in
    for i = 0 to Array.length digits - 1 do
      let cur = !carry * 10 + digits.(i) in
      digits.(i) <- cur / 2;
      carry := cur mod 2
    done;
    bits := !carry :: !bits
  done;
  (* !bits is most-significant first *)
  match !bits with
  | [] -> N0
  | 1 :: rest ->
    Npos (Stdlib.List.fold_left (fun acc b -> if b = 1 then Coq_xI acc else Coq_xO acc) Coq_xH rest)
  | _ -> failwith "n_of_decimal"

let decimal_of_n (x : coq_N) : string =
  (* build decimal by doubling *)
  let rec bits_of_pos = function Coq_xH -> [1] | Coq_xO p -> 0 :: bits_of_pos p | Coq_xI p -> 1 :: bits_of_pos p in
  match x with
  | N0 -> "0"
  | Npos p ->
    let bits = Stdlib.List.rev (bits_of_pos p) in (* msb first *)
    let digits = ref [0] in (* little-endian decimal digits *)
    Stdlib.List.iter (fun b ->
        let carry = ref b in
        digits := Stdlib.List.map (fun d -> let v = d * 2 + !carry in carry := v / 10; v mod 10) !digits;
        if !carry > 0 then digits := !digits @ [!carry]) bits;
    Stdlib.String.concat "" (Stdlib.List.rev_map string_of_int !digits)

open Sexp
let int_of_sx = function A a -> int_of_string a | _ -> failwith "int expected"
let ints_of_sx = function L l -> Stdlib.List.map int_of_sx l | _ -> failwith "list expected"
let ns_of_sx x = Stdlib.List.map n_of_int (ints_of_sx x)
let str_of_sx = function S s -> s | A a -> a | _ -> failwith "string expected"
let list_of_sx = function L l -> l | _ -> failwith "list expected"
let chars_of_string (s : string) : char list = Stdlib.List.init (Stdlib.String.length s) (Stdlib.String.get s)
let string_of_chars (l : char list) : string = Stdlib.String.concat "" (Stdlib.List.map (Stdlib.String.make 1) l)
