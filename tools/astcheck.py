"""C23: the typed AST the GENERATED adapter hands to the user's start-symbol action.

For N generated EBNF grammars (LL(1) by construction, with clipping ^, optionals, repetitions, groups; each also as
LALR(1)) the real `parol` binary generates parser + trait files into one scratch crate under /verif/work/C23/crate,
which is compiled against /repo's parol_runtime and run on generated sentences. The user grammar struct overrides
EVERY non-terminal action: it counts the calls and prints the Debug form of the start symbol's argument.
The Debug text is parsed into a name-free tree (struct / variant wrapper / Vec / Some / None / token) that is compared
with the AST the extracted Gallina adapter model (Gen2/AstModel.v) computes from the export model's attributed
grammar and the model parser's action trace (driver case `ast`)."""
import json, os, random, re, shutil, subprocess
import checklib as cl

WDIR = os.path.join(cl.WORK, 'C23')
CRATE = os.path.join(WDIR, 'crate')
PAROL_BIN = os.path.join(cl.VERIF, 'target', 'ls', 'debug', 'parol')


# ------------------------------------------------------------------------------------------ grammars
class Gen:
    def __init__(self, rng):
        self.rng = rng
        self.next_t = 0

    def fresh(self):
        t = self.next_t
        if self.next_t < 25:
            self.next_t += 1
        return ('t', t, self.rng.random() < 0.25)          # terminal letter index, clipped?

    def nt(self, n, a, mandatory):
        """A non-terminal reference; a mandatory one only to a higher-numbered non-terminal (so every non-terminal is
        productive and sentence generation terminates); None if there is none."""
        lo = a + 1 if mandatory else 0
        if lo >= n:
            return None
        return ('n', self.rng.randrange(lo, n), self.rng.random() < 0.15)

    def body(self, n, a=0, mandatory=False):
        b = [self.fresh()]
        if self.rng.random() < 0.5:
            r = self.nt(n, a, mandatory)
            if r:
                b.append(r)
        if self.rng.random() < 0.3:
            b.append(self.fresh())
        return [b]

    def grammar(self):
        rng = self.rng
        n = rng.randint(1, 3)
        prods = []
        for a in range(n):
            alts = []
            for _ in range(rng.randint(1, 3)):
                alt = [self.fresh()]
                for _ in range(rng.randint(0, 3)):
                    r = rng.randrange(7)
                    if r == 0:
                        alt.append(self.fresh())
                    elif r == 1:
                        alt.append(self.nt(n, a, True) or self.fresh())
                    elif r in (2, 3):
                        alt.append(('r', self.body(n)))
                    elif r == 4:
                        alt.append(('o', self.body(n)))
                    elif r == 5:
                        # group with two alternatives, each starting with its own fresh terminal
                        alt.append(('g', self.body(n, a, True) + self.body(n, a, True)))
                    else:
                        # nested: optional containing a repetition
                        inner = self.body(n)
                        inner[0].append(('r', self.body(n)))
                        alt.append(('o', inner))
                alt.append(self.fresh())
                alts.append(alt)
            prods.append((a, alts))
        return dict(n=n, prods=prods)


NAMES = ['Start', 'Beta', 'Gamma']


def letter(t):
    return chr(ord('a') + t)


def par_factor(f):
    if f[0] == 't':
        return '"%s"%s' % (letter(f[1]), '^' if f[2] else '')
    if f[0] == 'n':
        return NAMES[f[1]] + ('^' if f[2] else '')
    inner = ' | '.join(' '.join(par_factor(x) for x in alt) for alt in f[1])
    return {'r': '{ %s }', 'o': '[ %s ]', 'g': '( %s )'}[f[0]] % inner


def par_text(g, lalr):
    s = '%start Start\n'
    if lalr:
        s += "%grammar_type 'lalr(1)'\n"
    s += '%%\n'
    for a, alts in g['prods']:
        s += '%s: %s;\n' % (NAMES[a], ' | '.join(' '.join(par_factor(f) for f in alt) for alt in alts))
    return s


def sentence(g, rng, depth=0):
    """A random sentence (list of terminal letter indices) of non-terminal 0."""
    def alts_of(a):
        return [alts for (x, alts) in g['prods'] if x == a][0]

    def gen_alt(alt, d):
        out = []
        for f in alt:
            out += gen_f(f, d)
        return out

    def gen_f(f, d):
        if f[0] == 't':
            return [f[1]]
        if f[0] == 'n':
            alts = alts_of(f[1])
            if d > 3:
                # the alternative with the fewest non-terminal references
                alt = min(alts, key=lambda al: json.dumps(al).count('"n"'))
            else:
                alt = rng.choice(alts)
            return gen_alt(alt, d + 1)
        if f[0] == 'r':
            k = 0 if d > 3 else rng.choice([0, 1, 1, 2, 3])
            out = []
            for _ in range(k):
                out += gen_alt(rng.choice(f[1]), d + 1)
            return out
        if f[0] == 'o':
            if d > 3 or rng.random() < 0.4:
                return []
            return gen_alt(rng.choice(f[1]), d + 1)
        return gen_alt(rng.choice(f[1]), d + 1)
    return gen_f(('n', 0, False), depth)


# ------------------------------------------------------------------------------------------ crate
def snake(name):
    return re.sub(r'(?<!^)(?=[A-Z])', '_', name).lower()


def write_module(i, d):
    """User grammar struct for module i from the generated trait file: overrides every non-terminal action."""
    trait = open(os.path.join(d, 'g%d_grammar_trait.rs' % i)).read()
    m = re.search(r'pub trait G%dGrammarTrait(<\'t>)?\s*\{(.*?)\n\}\n' % i, trait, re.S)
    if not m:
        return None
    lt = m.group(1) or ''
    fns = re.findall(r"fn (\w+)\(&mut self, _arg: &(\w+)(<'t>)?\) -> Result<\(\)>", m.group(2))
    body = ''
    for (fname, ty, tlt) in fns:
        if ty == 'Start':
            body += "    fn %s(&mut self, arg: &%s%s) -> Result<()> { self.calls.push(\"%s\"); self.start.push(format!(\"{:?}\", arg)); Ok(()) }\n" % (fname, ty, tlt or '', ty)
        else:
            body += "    fn %s(&mut self, _arg: &%s%s) -> Result<()> { self.calls.push(\"%s\"); Ok(()) }\n" % (fname, ty, tlt or '', ty)
    src = ("use crate::g%d_grammar_trait::*;\nuse parol_runtime::Result;\n\n#[derive(Default)]\npub struct G%dGrammar%s { pub calls: Vec<&'static str>, pub start: Vec<String>%s }\n"
           % (i, i, lt, ", pub ph: std::marker::PhantomData<&'t str>" if lt else ''))
    src += "impl%s G%dGrammar%s { pub fn new() -> Self { Self::default() } }\n" % (lt, i, lt)
    src += "impl%s G%dGrammarTrait%s for G%dGrammar%s {\n%s}\n" % (lt, i, lt, i, lt, body)
    open(os.path.join(d, 'g%d_grammar.rs' % i), 'w').write(src)
    return [f[1] for f in fns]


def build_crate(jobs):
    """jobs: list of (index, par text, inputs). Returns {index: status}."""
    shutil.rmtree(CRATE, ignore_errors=True)
    src = os.path.join(CRATE, 'src')
    os.makedirs(src)
    open(os.path.join(CRATE, 'Cargo.toml'), 'w').write(
        '[package]\nname = "astrun"\nversion = "0.1.0"\nedition = "2024"\n\n[workspace]\n\n[dependencies]\n'
        'parol_runtime = { path = "/repo/crates/parol_runtime" }\nscnr2 = "0.5.2"\n\n[profile.dev]\nopt-level = 0\ndebug = false\n')
    os.makedirs(os.path.join(CRATE, '.cargo'))
    open(os.path.join(CRATE, '.cargo', 'config.toml'), 'w').write('[net]\noffline = true\n[build]\ntarget-dir = "%s"\n' % os.path.join(cl.VERIF, 'target', 'astrun'))
    shutil.copy(os.path.join(cl.HARNESS, 'Cargo.lock'), os.path.join(CRATE, 'Cargo.lock'))
    status = {}

    def gen(job):
        i, text, _ = job
        par = os.path.join(src, 'g%d.par' % i)
        open(par, 'w').write(text)
        cmd = [PAROL_BIN, '-f', par, '-p', os.path.join(src, 'g%d_parser.rs' % i), '-a', os.path.join(src, 'g%d_grammar_trait.rs' % i),
               '-t', 'G%dGrammar' % i, '-m', 'g%d_grammar' % i, '-k', '3']
        p = subprocess.run(cmd, stdout=subprocess.PIPE, stderr=subprocess.STDOUT, text=True, timeout=300)
        ok = p.returncode == 0 and os.path.exists(os.path.join(src, 'g%d_parser.rs' % i))
        q = subprocess.run([PAROL_BIN, 'export', '-f', par, '-k', '3', '-o', os.path.join(src, 'g%d.json' % i)], stdout=subprocess.PIPE, stderr=subprocess.STDOUT, text=True, timeout=300)
        return i, ok and q.returncode == 0

    from concurrent.futures import ThreadPoolExecutor
    with ThreadPoolExecutor(max_workers=cl.NCPU) as ex:
        for i, ok in ex.map(gen, jobs):
            status[i] = 'generated' if ok else 'rejected'
    mods = ''
    runs = ''
    for i, text, inputs in jobs:
        if status[i] != 'generated':
            for f in ('g%d_parser.rs' % i, 'g%d_grammar_trait.rs' % i):
                try:
                    os.remove(os.path.join(src, f))
                except OSError:
                    pass
            continue
        if write_module(i, src) is None:
            status[i] = 'no-trait'
            continue
        mods += '#[allow(dead_code, unused_imports, clippy::all)]\nmod g%d_grammar;\n#[allow(dead_code, unused_imports, clippy::all)]\nmod g%d_grammar_trait;\n#[allow(dead_code, unused_imports, clippy::all)]\nmod g%d_parser;\n' % (i, i, i)
        arr = ', '.join(json.dumps(' '.join(letter(t) for t in s)) for s in inputs)
        runs += ('    for (j, inp) in [%s].iter().enumerate() {\n        let mut g = g%d_grammar::G%dGrammar::new();\n'
                 '        let r = std::panic::catch_unwind(std::panic::AssertUnwindSafe(|| g%d_parser::parse(inp, "in", &mut g).is_ok()));\n'
                 '        println!("CASE %d {} {}", j, match r { Ok(true) => "ok", Ok(false) => "err", Err(_) => "panic" });\n'
                 '        println!("CALLS {}", g.calls.join(" "));\n        for s in &g.start { println!("AST {}", s); }\n    }\n') % (arr if arr else '""', i, i, i, i)
    open(os.path.join(src, 'main.rs'), 'w').write(mods + '\nfn main() {\n    std::panic::set_hook(Box::new(|_| {}));\n' + runs + '}\n')
    env = dict(os.environ, CARGO_NET_OFFLINE='true')
    p = subprocess.run('cargo build --offline 2>&1', shell=True, cwd=CRATE, env=env, stdout=subprocess.PIPE, text=True, timeout=3000)
    return status, p.returncode, p.stdout


def run_crate():
    exe = os.path.join(cl.VERIF, 'target', 'astrun', 'debug', 'astrun')
    p = subprocess.run([exe], stdout=subprocess.PIPE, stderr=subprocess.DEVNULL, text=True, timeout=3000)
    out = {}
    cur = None
    for line in p.stdout.split('\n'):
        if line.startswith('CASE '):
            _, i, j, st = line.split(' ')
            cur = out.setdefault((int(i), int(j)), dict(status=st, calls=[], asts=[]))
        elif line.startswith('CALLS') and cur is not None:
            cur['calls'] = line.split(' ')[1:]
        elif line.startswith('AST ') and cur is not None:
            cur['asts'].append(line[4:])
    return out


# ------------------------------------------------------------------------------------------ Debug text -> tree
TOKEN = re.compile(r'\s*([A-Za-z_][A-Za-z0-9_]*|\{|\}|\(|\)|\[|\]|,|:|"(?:\\.|[^"\\])*"|-?[0-9]+(?:\.\.[0-9]+)?|\.\.)')


def parse_debug(s):
    toks = TOKEN.findall(s)
    pos = 0

    def peek():
        return toks[pos] if pos < len(toks) else None

    def eat(x=None):
        nonlocal pos
        t = toks[pos]
        if x is not None and t != x:
            raise ValueError('expected %r got %r at %d' % (x, t, pos))
        pos += 1
        return t

    def value():
        t = eat()
        if t == '[':
            items = []
            while peek() != ']':
                items.append(value())
                if peek() == ',':
                    eat()
            eat(']')
            return ('vec', items)
        if t.startswith('"') or re.match(r'-?[0-9]', t):
            return ('lit', t)
        # identifier: struct, tuple variant/newtype, unit
        name = t
        if peek() == '{':
            eat('{')
            fields = []
            while peek() != '}':
                fname = eat()
                eat(':')
                fields.append((fname, value()))
                if peek() == ',':
                    eat()
            eat('}')
            return ('struct', name, fields)
        if peek() == '(':
            eat('(')
            args = []
            while peek() != ')':
                args.append(value())
                if peek() == ',':
                    eat()
            eat(')')
            return ('tuple', name, args)
        return ('unit', name)
    v = value()
    return v


def normalize(v):
    """Name-free tree: ('tok', text, number) | ('s', [children]) | ('w', child) | ('vec', [..]) | ('some', x) | ('none',)"""
    k = v[0]
    if k == 'vec':
        return ('vec', [normalize(x) for x in v[1]])
    if k == 'unit':
        return ('none',) if v[1] == 'None' else ('s', [])
    if k == 'tuple':
        if v[1] == 'Some' and len(v[2]) == 1:
            return ('some', normalize(v[2][0]))
        if len(v[2]) == 1:
            return ('w', normalize(v[2][0]))
        return ('s', [normalize(x) for x in v[2]])
    if k == 'struct':
        if v[1] == 'Token':
            f = dict(v[2])
            text = json.loads(f['text'][1]) if f.get('text', ('', ''))[0] == 'lit' else '?'
            num = int(f['token_number'][1]) if 'token_number' in f else -1
            return ('tok', text, num)
        return ('s', [normalize(x) for _, x in v[2]])
    return ('lit', v[1])


def flatten(n):
    k = n[0]
    if k == 'tok':
        return [n]
    if k in ('vec', 's'):
        return [t for c in n[1] for t in flatten(c)]
    if k in ('w', 'some'):
        return flatten(n[1])
    return []


def to_sx(n):
    k = n[0]
    if k == 'tok':
        return '(t %d)' % (5 + ord(n[1]) - ord('a')) if len(n[1]) == 1 and 'a' <= n[1] <= 'z' else '(t 999)'
    if k == 'vec':
        return '(v %s)' % ' '.join(to_sx(c) for c in n[1])
    if k == 's':
        return '(s %s)' % ' '.join(to_sx(c) for c in n[1])
    if k == 'w':
        return '(w %s)' % to_sx(n[1])
    if k == 'some':
        return '(some %s)' % to_sx(n[1])
    return '(none)'
