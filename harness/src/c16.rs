//! C16 (scanner side): the terminal lists of real generated scanner modes, as regexes.
use crate::{rng::Rng, rx, sx, Args};
use parol::generators::generate_terminal_names;
use parol::obtain_grammar_config_from_string;

/// PAR text with random scanner directives and terminals.
pub fn random_par(rng: &mut Rng) -> String {
    let mut s = String::from("%start S\n");
    let glob_nl_off = rng.chance(1, 2);
    let glob_ws_off = rng.chance(1, 3);
    let glob_au = rng.chance(1, 3);
    if rng.chance(1, 2) { s.push_str("%line_comment '//'\n"); }
    if rng.chance(1, 3) { s.push_str("%block_comment '/*' '*/'\n"); }
    if glob_nl_off { s.push_str("%auto_newline_off\n"); }
    if glob_ws_off { s.push_str("%auto_ws_off\n"); }
    if glob_au { s.push_str("%allow_unmatched\n"); }
    let second = rng.chance(1, 2);
    if second {
        s.push_str("%scanner M {\n");
        if rng.chance(1, 2) { s.push_str("  %auto_newline_off\n"); }
        if rng.chance(1, 2) { s.push_str("  %auto_ws_off\n"); }
        if rng.chance(1, 3) { s.push_str("  %allow_unmatched\n"); }
        s.push_str("}\n");
    }
    s.push_str("%%\n");
    let pool = [
        "\"a\"", "'b'", "/[a-z]+/", "/[0-9]+/", "/\\s+/", "/\\n/", "/\\r?\\n/", "/[^a]/", "/./", "/(.|\\n)/", "/[\\s\\S]/",
        "\"\\+\"", "/x*y/", "/[^\\r\\n]+/", "/\\p{L}+/", "\"a\" ?= \"b\"", "/[\\x00-\\x{10FFFF}]/",
        // raw / string terminals whose TEXT looks like a catch-all or the error token but whose expansion is a literal
        "'.'", "'.'", "'.*'", "'[^a]'", "\"\\.\"", "'\\s'",
    ];
    let n = rng.range(1, 4);
    let mut alts = vec![];
    for _ in 0..n {
        let t = pool[rng.below(pool.len())];
        if second && rng.chance(1, 3) {
            alts.push(format!("<M> {}", t));
        } else if second && rng.chance(1, 4) {
            alts.push(format!("<INITIAL, M> {}", t));
        } else {
            alts.push(t.to_string());
        }
    }
    s.push_str(&format!("S: {};\n", alts.join(" | ")));
    s
}

/// (auto_newline, auto_ws, allow_unmatched) of a scanner state as written in the PAR text: the global directives before
/// the first `%scanner` block / `%%` for INITIAL, the directives inside `%scanner NAME { .. }` otherwise.
fn declared(text: &str, state: &str) -> (bool, bool, bool) {
    let header_end = text.find("%%\n").unwrap_or(text.len());
    let header = &text[..header_end];
    let part: &str = if state == "INITIAL" {
        &header[..header.find("%scanner").unwrap_or(header.len())]
    } else {
        let key = format!("%scanner {} {{", state);
        match header.find(&key) {
            Some(i) => { let rest = &header[i + key.len()..]; &rest[..rest.find('}').unwrap_or(rest.len())] }
            None => "",
        }
    };
    (!part.contains("%auto_newline_off"), !part.contains("%auto_ws_off"), part.contains("%allow_unmatched"))
}

pub fn cases(text: &str) {
    let r = std::panic::catch_unwind(|| obtain_grammar_config_from_string(text, false));
    match r {
        Err(_) => println!("(modes {} panic)", sx::s(text)),
        Ok(Err(_)) => println!("(modes {} rejected)", sx::s(text)),
        Ok(Ok(gc)) => {
            let names = generate_terminal_names(&gc);
            for sc in &gc.scanner_configurations {
                let r = std::panic::catch_unwind(|| sc.generate_build_information(&gc, &names));
                match r {
                    Ok(Ok((maps, _))) => {
                        let entries: Vec<String> = maps
                            .iter()
                            .map(|(pat, ti, la, _)| {
                                let t = match rx::translate(pat) { Ok(t) => t, Err(_) => "(unsupported)".to_string() };
                                format!("({} {} {} {})", ti, if la.is_some() { 1 } else { 0 }, sx::s(pat), t)
                            })
                            .collect();
                        // the settings as DECLARED in the grammar text for this scanner state (not the ones the front end stored)
                        let (nl, ws, au) = declared(text, &sc.scanner_name);
                        println!("(mode {} {} {} {} {} ({}))", sx::s(text), sx::s(&sc.scanner_name), nl as u8, ws as u8, au as u8, entries.join(" "));
                    }
                    _ => println!("(mode {} {} panic)", sx::s(text), sx::s(&sc.scanner_name)),
                }
            }
        }
    }
}

pub fn run(a: &Args) {
    let mut rng = Rng::new(a.seed ^ ((a.shard as u64) << 32) ^ 0xC16);
    if a.shard == 0 {
        cases("%start S\n%%\nS: \"a\";\n");
        cases("%start S\n%auto_newline_off\n%%\nS: \"a\";\n");
        cases("%start S\n%auto_newline_off\n%auto_ws_off\n%%\nS: \"a\" | /\\s+/;\n");
        cases("%start S\n%auto_newline_off\n%allow_unmatched\n%%\nS: \"a\";\n");
    }
    for _ in 0..a.n {
        cases(&random_par(&mut rng));
    }
}
