(** Property C14 — pinned statements (tools/pin.py); proofs in Runtime/TokenBuffer.v, Runtime/TokenStream.v (faithful models of TokenIter, TokenBuffer::add, TokenStream (after the fix: commits), handle_additional_tokens, LRParser::call_action/pop_n; *_old = pinned commit). *)
From Coq Require Import List NArith.
From Parol Require Import Runtime.TokenBuffer Runtime.TokenStream.
Import ListNotations.

Theorem C14_all_tokens_contiguous :
  forall (skips : list (list N)) (len : N) (ms : list smatch),
  matches_ok len ms = true -> chain 0 (all_tokens skips len ms) len.
Proof. exact all_tokens_contiguous. Qed.

Theorem C14_tokens_cover_text :
  forall (A : Type) (text : list A) (skips : list (list N)) (ms : list smatch),
  matches_ok (N.of_nat (length text)) ms = true ->
  concat (map (token_text A text) (all_tokens skips (N.of_nat (length text)) ms)) = text.
Proof. exact tokens_cover_text. Qed.

Theorem C14_tokens_check_spec :
  forall (text_len : N) (toks : list (N * N * N)),
  tokens_check text_len toks = true <-> chain 0 (map triple_token toks) text_len.
Proof. exact tokens_check_spec. Qed.

Theorem C14_tokens_check_cover :
  forall (A : Type) (text : list A) (toks : list (N * N * N)),
  tokens_check (N.of_nat (length text)) toks = true ->
  concat (map (fun x : N * N * N => slice A text (snd (fst x)) (snd x)) toks) = text.
Proof. exact tokens_check_cover. Qed.

Theorem C14_buffer_contiguous :
  forall (skips : list (list N)) (len fm : N) (ms : list smatch) (k0 : nat) (ops : list op),
  matches_ok len ms = true ->
  exists (d0 : list token) (j : nat) (rest : list token),
  delivered (run skips (stream_new skips len fm ms k0) ops) = d0 ++ repeat eoi_filler j /\
  d0 ++ rest = all_tokens skips len ms ++ eoi_tokens skips len fm ms k0 /\
  (j <> 0 -> rest = []) /\ (exists b : N, chain 0 d0 b /\ chain b rest len).
Proof. exact buffer_contiguous. Qed.

Theorem C14_lr_leaves_all_tokens :
  forall (P : token -> bool) (skips : list (list N)) (len fm : N) 
  (ms : list smatch) (k0 : nat) (its : list lr_iter),
  exists (pending : list token) (m : nat),
  stack_leaves
  (lc_stack
  (fst (lr_run P stream (real_impl skips) its (stream_new skips len fm ms k0, [], [])))) ++
  pending = stream_tokens skips len fm ms k0 ++ repeat eoi_filler m /\
  lc_comments
  (fst (lr_run P stream (real_impl skips) its (stream_new skips len fm ms k0, [], []))) =
  comments_of
  (stack_leaves
  (lc_stack
  (fst
  (lr_run P stream (real_impl skips) its (stream_new skips len fm ms k0, [], []))))).
Proof. exact lr_leaves_all_tokens. Qed.

Theorem C14_ll_match_same_token :
  forall (k : nat) (p : list token) (t : token),
  spec_lookahead k 0 p = inr t ->
  fst (spec_consume (drop_while is_effectively_skip_token p)) = inr t.
Proof. exact ll_match_same_token. Qed.

Theorem C14_buffer_contiguous_k0_refuted :
  exists (skips : list (list N)) (len fm : N) (ms : list smatch) (ops : list op),
  matches_ok len ms = true /\
  last (run skips (stream_new_old skips len fm ms 0) ops) (EvSkip []) =
  EvLook (inr eoi_filler) /\
  ~ chain 0 (delivered (run skips (stream_new_old skips len fm ms 0) ops)) len.
Proof. exact buffer_contiguous_k0_refuted. Qed.

