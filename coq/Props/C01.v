(** Property C01 — LL(k) parsers accept exactly the language of the grammar (runtime half).
    Pinned statements (tools/pin.py); proofs in Runtime/LLSound.v about the faithful model
    Runtime/LLParser.v of LLKParser::parse_into incl. error recovery.
    - ll_sound: for ARBITRARY lookahead automata that pass the boolean well-formedness check
      [tables_ok] (index ranges, sortedness, and la_wf), an accepted token list is a sentence of the
      tables' grammar — with recovery enabled or not (and for every recovery oracle).
    - ll_complete: if the automata are exact (la_exact) every sentence is accepted.
    - ll_recovery_sound_refuted: WITHOUT la_wf a hand-made table reaches "Can't recover", which
      drains the error entries, and the run then reports success on a non-sentence; la_wf holds
      for every automaton parol generates and is checked on the real tables on every run.
    The generator half (tables exact for the grammar as written) is C05-C07, C09, C10; the
    end-to-end statement is checked per instance against the verified recogniser. *)
From Coq Require Import List NArith.
From Parol Require Import Grammar.Cfg Runtime.DfaEval Runtime.LLParser Runtime.LLSound.
Import ListNotations.

Theorem C01_ll_sound :
  forall (fuel : nat) (tb : ll_tables) (opts : options) (toks : list N)
  (acts : list (N * list sym)) (evs : list event),
  tables_ok tb = true ->
  ll_run fuel tb opts toks = Accepted acts evs -> lang (grammar_of tb) toks.
Proof. exact ll_sound. Qed.

Theorem C01_ll_sound_any_oracle :
  forall (orc : oracle) (fuel : nat) (tb : ll_tables) (opts : options) 
  (toks : list N) (acts : list (N * list sym)) (evs : list event),
  tables_ok tb = true ->
  ll_run_with orc fuel tb opts toks = Accepted acts evs -> lang (grammar_of tb) toks.
Proof. exact ll_sound_any_oracle. Qed.

Theorem C01_ll_complete :
  forall (tb : ll_tables) (opts : options) (toks : list N),
  tables_ok tb = true ->
  la_exact tb ->
  o_max_depth opts = None ->
  forallb significant toks = true ->
  lang (grammar_of tb) toks ->
  exists (fuel : nat) (acts : list (N * list sym)) (evs : list event),
  ll_run fuel tb opts toks = Accepted acts evs.
Proof. exact ll_complete. Qed.

Theorem C01_ll_no_panic :
  forall (fuel : nat) (tb : ll_tables) (opts : options) (toks : list N) (site : nat),
  tables_ok tb = true ->
  forallb (fun t : N => (t <? tb_nterms tb)%N) toks = true ->
  ll_run fuel tb opts toks <> Panic site.
Proof. exact ll_no_panic. Qed.

Theorem C01_ll_fuel :
  forall (fuel fuel' : nat) (tb : ll_tables) (opts : options) (toks : list N)
  (acts : list (N * list sym)) (evs : list event),
  tables_ok tb = true ->
  ll_run fuel tb opts toks = Accepted acts evs ->
  length toks + 2 * length acts <= fuel' -> ll_run fuel' tb opts toks = Accepted acts evs.
Proof. exact ll_fuel. Qed.

Theorem C01_ll_sound_no_recovery :
  forall (orc : oracle) (fuel : nat) (tb : ll_tables) (opts : options) 
  (toks : list N) (acts : list (N * list sym)) (evs : list event),
  tables_ok_basic tb = true ->
  o_recovery opts = false ->
  ll_run_with orc fuel tb opts toks = Accepted acts evs -> lang (grammar_of tb) toks.
Proof. exact ll_sound_no_recovery. Qed.

Theorem C01_ll_recovery_sound_refuted :
  exists
  (tb : ll_tables) (opts : options) (toks : list N) (acts : list (N * list sym)) 
  (evs : list event),
  tables_ok_basic tb = true /\
  ll_run 100 tb opts toks = Accepted acts evs /\ ~ lang (grammar_of tb) toks.
Proof. exact ll_recovery_sound_refuted. Qed.

