//! Tiny S-expression printing helpers (the OCaml driver reads these).
pub fn list<I: IntoIterator<Item = String>>(it: I) -> String {
    let v: Vec<String> = it.into_iter().collect();
    format!("({})", v.join(" "))
}
pub fn nums<T: std::fmt::Display>(v: &[T]) -> String {
    list(v.iter().map(|x| x.to_string()))
}
/// A string atom, quoted with minimal escaping.
pub fn s(x: &str) -> String {
    let mut o = String::from("\"");
    for c in x.chars() {
        match c {
            '"' => o.push_str("\\\""),
            '\\' => o.push_str("\\\\"),
            '\n' => o.push_str("\\n"),
            '\r' => o.push_str("\\r"),
            '\t' => o.push_str("\\t"),
            c if (c as u32) < 0x20 || (c as u32) == 0x7f => o.push_str(&format!("\\x{:02x}", c as u32)),
            c => o.push(c),
        }
    }
    o.push('"');
    o
}
