//! C07: the compiled, minimised lookahead automata parol generates (via the export model).
use crate::{gram::*, rng::Rng, Args};
use parol::parser::parol_grammar::GrammarType;
use parol::{calculate_lookahead_dfas, check_and_transform_grammar, generate_parser_export_model, GrammarConfig};
use std::collections::BTreeMap;

pub struct LlBuilt {
    /// per production of the transformed grammar: ProductionAttribute::AddToCollection (rendered as is_push_production)
    pub push: Vec<bool>,
    pub g2: G,
    pub automata_sx: String,
    pub export: parol::generators::ParserExportModel,
    pub tm: BTreeMap<u16, u16>,
}

pub fn build_ll(g: &G, maxk: usize) -> Result<LlBuilt, String> {
    let cfg = g.to_cfg();
    let r = std::panic::catch_unwind(|| -> Result<LlBuilt, String> {
        let cfg2 = check_and_transform_grammar(&cfg, GrammarType::LLK).map_err(|_| "rejected-by-checks".to_string())?;
        build_ll_transformed(&cfg2, maxk)
    });
    match r { Ok(x) => x, Err(_) => Err("panic".to_string()) }
}

/// From an already checked and transformed grammar (e.g. GrammarConfig.cfg of a PAR text) to the export model.
pub fn build_ll_transformed(cfg2: &parol::Cfg, maxk: usize) -> Result<LlBuilt, String> {
    // keep parol's own terminal numbering here: the automata are sorted by it
    let g2 = G::from_cfg(cfg2, false);
    let tm: BTreeMap<u16, u16> = cfg2.get_ordered_terminals().iter().enumerate()
        .map(|(i, (t, _, _, _))| (i as u16 + 5, 5 + (t.as_bytes()[0] - b'a') as u16)).collect();
    let mut gc = GrammarConfig::new(cfg2.clone(), maxk);
    let dfas = calculate_lookahead_dfas(&gc, maxk).map_err(|_| "not-ll-k".to_string())?;
    let k = dfas.values().map(|d| d.k).max().unwrap_or(0);
    gc.update_lookahead_size(k);
    let export = generate_parser_export_model(&gc, &dfas).map_err(|e| format!("export-error {e}"))?;
    let autos: Vec<String> = export.lookahead_automata.iter().map(|a| {
        let tr: Vec<String> = a.transitions.iter().map(|t| format!("({} {} {} {})", t.from_state,
            t.term, t.to_state, t.prod_num)).collect();
        format!("({} {} {} ({}))", a.non_terminal_index, a.prod0, a.k, tr.join(" "))
    }).collect();
    let push: Vec<bool> = cfg2.pr.iter().map(|p| p.2 == parol::grammar::ProductionAttribute::AddToCollection).collect();
    Ok(LlBuilt { push, g2, automata_sx: format!("({})", autos.join(" ")), export, tm })
}

impl LlBuilt {
    pub fn export_push_count(&self) -> usize {
        self.push.iter().filter(|x| **x).count()
    }
}

pub fn ll_grammar(rng: &mut Rng, i: usize) -> G {
    let mut g = ll_grammar_core(rng, i);
    // half of the shaped grammars get consumed tokens in front of (and behind) the k-token decision, so that the
    // decision is taken with a token buffer that has already been consumed from (not only at the very start)
    if matches!(i % 8, 0 | 1 | 2 | 5) && rng.chance(1, 2) {
        if let Some(p) = g.prods.iter_mut().find(|(l, _)| *l == g.start) {
            p.1.insert(0, Sy::T(12));
            if rng.chance(1, 2) { p.1.insert(0, Sy::T(13)); }
            if rng.chance(1, 2) { p.1.push(Sy::T(14)); }
        }
    }
    g
}

fn ll_grammar_core(rng: &mut Rng, i: usize) -> G {
    let t = |x: u16| Sy::T(x);
    match i % 8 {
        3 if rng.chance(1, 2) => {
            // a list with separator and optional trailing separator: the LL(2) decision recurs after every item
            // NA: NB NC; NB: a | b; NC: c NB NC | c | (empty)
            G { names: (0..3).map(nt_name).collect(), start: 0, prods: vec![
                (0, vec![Sy::N(1), Sy::N(2)]), (1, vec![t(5)]), (1, vec![t(6)]),
                (2, vec![t(7), Sy::N(1), Sy::N(2)]), (2, vec![t(7)]), (2, vec![])] }
        }
        0 => {
            // T: | A | B; A: c b; B: c a   (the unite-k witness shape), with a random depth
            let k = rng.range(1, 3);
            let mut a: Vec<Sy> = (0..k).map(|_| t(5)).collect();
            let mut b = a.clone();
            a.push(t(6));
            b.push(t(7));
            G { names: (0..4).map(nt_name).collect(), start: 0,
                prods: vec![(0, vec![Sy::N(1)]), (1, vec![]), (1, vec![Sy::N(2)]), (1, vec![Sy::N(3)]), (2, a), (3, b)] }
        }
        1 => {
            // needs k tokens: NA: NB c ; NB: a^k | a^(k-1) b
            let k = rng.range(1, 4);
            let mut p1: Vec<Sy> = (0..k).map(|_| t(5)).collect();
            let mut p2: Vec<Sy> = (0..k - 1).map(|_| t(5)).collect();
            p2.push(t(6));
            p1.push(t(8));
            G { names: vec![nt_name(0), nt_name(1)], start: 0, prods: vec![(0, vec![Sy::N(1), t(7)]), (1, p1), (1, p2)] }
        }
        2 | 5 => {
            // a random function from the strings of length k over a small alphabet to 2-3 productions:
            // NA: NB; NB: P1 | P2 [| P3]; Pi: the strings mapped to i. The lookahead tries have many inner states with
            // permuted / crossed assignments, which is what minimisation has to keep apart.
            let (nsym, k) = [(2usize, 2usize), (2, 3), (2, 3), (3, 2), (3, 3), (2, 4)][rng.below(6)];
            let np = rng.range(2, 3);
            let mut strs: Vec<Vec<u16>> = vec![vec![]];
            for _ in 0..k { strs = strs.iter().flat_map(|s| (0..nsym).map(move |c| { let mut x = s.clone(); x.push(5 + c as u16); x })).collect(); }
            let mut prods: Vec<(usize, Vec<Sy>)> = vec![(0, vec![Sy::N(1)])];
            for p in 0..np { prods.push((1, vec![Sy::N(2 + p)])); }
            let mut used = vec![false; np];
            for s in &strs {
                if rng.chance(1, 5) { continue; }
                let p = rng.below(np);
                used[p] = true;
                prods.push((2 + p, s.iter().map(|x| t(*x)).collect()));
            }
            for p in 0..np { if !used[p] { prods.push((2 + p, vec![t(5 + nsym as u16), t(5)])); } }
            G { names: (0..2 + np).map(nt_name).collect(), start: 0, prods }
        }
        _ => {
            let d = Dials { max_nts: 4, max_terms: 3, max_alts: 3, max_rhs: 3, eps_pct: 20, nt_pct: 45 };
            random_clean(rng, &d, true)
        }
    }
}

pub fn run(a: &Args) {
    let mut rng = Rng::new(a.seed ^ ((a.shard as u64) << 32) ^ 0xC07);
    for i in 0..a.n {
        let g = ll_grammar(&mut rng, i);
        let maxk = if i % 5 == 0 { 5 } else { rng.range(1, 4) };
        match build_ll(&g, maxk) {
            Err(why) => println!("(la {} {} ({}))", g.sx(), maxk, why.split(' ').next().unwrap()),
            Ok(b) => println!("(la {} {} (built {} {}))", g.sx(), maxk, b.g2.sx(), b.automata_sx),
        }
    }
}
