(* ===================================================================== *)
(*  Ls/Diagnostics.v  --  property C29 (model side)                       *)
(*                                                                       *)
(*  Labelled transition system for the publishDiagnostics traffic of     *)
(*  crates/parol-ls/src/server.rs for ONE document:                      *)
(*    handle_open_document / handle_change_document  -> analyze          *)
(*      -> parse, check_grammar (synchronous part, may fail)             *)
(*      -> thread::spawn(background LL lookahead / LALR(1) analysis)     *)
(*    back in the handler: notify_analysis_ok(version)   (AFTER spawn!)  *)
(*    background thread: notify_analysis_error(err, version captured)    *)
(*                       notify_resolved_conflicts(.., version captured) *)
(*                       (publishes nothing if there are no conflicts)   *)
(*                                                                       *)
(*  The text of a version is abstracted to its class [tclass]: what the  *)
(*  synchronous part and the background analysis do with it.             *)
(*  A configuration [config] selects the real server (no guard, ok is    *)
(*  published after the spawn) or repaired designs.                      *)
(* ===================================================================== *)
From Coq Require Import List Arith NArith Lia Bool.
Import ListNotations.

Definition version := N.
Bind Scope N_scope with version.

(* class of a document text *)
Inductive tclass :=
| TSyncErr   (* parse error / check_and_transform_grammar error: reported synchronously *)
| TBgErr     (* passes the synchronous part; background analysis fails (LL(k) or LALR(1)) *)
| TBgWarn    (* LALR(1) grammar with resolved conflicts: background publishes a warning *)
| TOk.       (* background analysis publishes nothing *)

(* class of a published diagnostics list *)
Inductive diag := DOk | DSyncErr | DBgErr | DBgWarn.

Definition tclass_eqb (a b : tclass) : bool :=
  match a, b with
  | TSyncErr, TSyncErr | TBgErr, TBgErr | TBgWarn, TBgWarn | TOk, TOk => true
  | _, _ => false
  end.

(* the diagnostics the text of class [c] should end up with *)
Definition diag_of (c : tclass) : diag :=
  match c with
  | TSyncErr => DSyncErr
  | TBgErr => DBgErr
  | TBgWarn => DBgWarn
  | TOk => DOk
  end.

(* what the background thread publishes when it finishes *)
Definition bg_diag (c : tclass) : option diag :=
  match c with
  | TBgErr => Some DBgErr
  | TBgWarn => Some DBgWarn
  | TSyncErr => None      (* never spawned *)
  | TOk => None           (* Ok(()) of calculate_lookahead_dfas / empty conflict list *)
  end.

Definition is_sync_err (c : tclass) : bool :=
  match c with TSyncErr => true | _ => false end.

Inductive event :=
| Open (v : version) (c : tclass)      (* textDocument/didOpen   *)
| Change (v : version) (c : tclass).   (* textDocument/didChange (full text) *)

Definition payload (e : event) : version * tclass :=
  match e with Open v c => (v, c) | Change v c => (v, c) end.

Record config := mkConfig {
  guard : bool;      (* background thread publishes only if its captured version is
                        still the current version of the document (check+send atomic) *)
  ok_first : bool    (* notify_analysis_ok is sent before the thread is spawned *)
}.

Definition real_server : config := mkConfig false false.
Definition guarded : config := mkConfig true true.

Record state := mkState {
  todo : list event;                    (* notifications not yet handled *)
  cur : option (version * tclass);      (* Server.documents[uri]: current text *)
  pend : option version;                (* handler has spawned, ok not yet sent *)
  bg : list (version * tclass);         (* outstanding background analyses *)
  log : list (version * diag);          (* published diagnostics, NEWEST FIRST *)
  crashed : bool                        (* main thread panicked *)
}.

Definition init (evs : list event) : state := mkState evs None None [] [] false.

Inductive label :=
| LMain             (* main thread takes the next notification: synchronous part (+spawn) *)
| LOk               (* main thread sends the pending notify_analysis_ok *)
| LFinish (k : nat) (* the k-th outstanding background analysis finishes *).

Fixpoint remove_nth {A : Type} (k : nat) (l : list A) : list A :=
  match l with
  | [] => []
  | x :: l' => match k with O => l' | S k' => x :: remove_nth k' l' end
  end.

Definition step_lbl (cf : config) (l : label) (s : state) : option state :=
  if crashed s then None
  else
    match l with
    | LMain =>
        match pend s, todo s with
        | None, e :: rest =>
            match e, cur s with
            | Change _ _, None =>
                (* apply_change: self.documents.get_mut(uri).unwrap() panics *)
                Some (mkState (todo s) (cur s) (pend s) (bg s) (log s) true)
            | _, _ =>
                let v := fst (payload e) in
                let c := snd (payload e) in
                if is_sync_err c then
                  Some (mkState rest (Some (v, c)) None (bg s) ((v, DSyncErr) :: log s) false)
                else if ok_first cf then
                  Some (mkState rest (Some (v, c)) None (bg s ++ [(v, c)])
                                ((v, DOk) :: log s) false)
                else
                  Some (mkState rest (Some (v, c)) (Some v) (bg s ++ [(v, c)]) (log s) false)
            end
        | _, _ => None
        end
    | LOk =>
        match pend s with
        | Some v => Some (mkState (todo s) (cur s) None (bg s) ((v, DOk) :: log s) false)
        | None => None
        end
    | LFinish k =>
        match nth_error (bg s) k with
        | None => None
        | Some (v, c) =>
            let allowed :=
              if guard cf then
                match cur s with Some (v', _) => N.eqb v' v | None => false end
              else true in
            let log' :=
              match bg_diag c with
              | Some d => if allowed then (v, d) :: log s else log s
              | None => log s
              end in
            Some (mkState (todo s) (cur s) (pend s) (remove_nth k (bg s)) log' false)
        end
    end.

Inductive steps (cf : config) : state -> state -> Prop :=
| steps_refl : forall s, steps cf s s
| steps_step : forall s s1 s2 l,
    steps cf s s1 -> step_lbl cf l s1 = Some s2 -> steps cf s s2.

Definition reachable (cf : config) (evs : list event) (s : state) : Prop :=
  steps cf (init evs) s.

Definition quiescent (s : state) : Prop :=
  todo s = [] /\ bg s = [] /\ pend s = None.

Definition quiescent_b (s : state) : bool :=
  match todo s, bg s, pend s with [], [], None => true | _, _, _ => false end.

Definition last_published (s : state) : option (version * diag) :=
  match log s with [] => None | x :: _ => Some x end.

Fixpoint final_of (evs : list event) : option (version * tclass) :=
  match evs with
  | [] => None
  | e :: evs' => match final_of evs' with Some x => Some x | None => Some (payload e) end
  end.

(* diagnostics of the final text with the final version *)
Definition expected (evs : list event) : option (version * diag) :=
  match final_of evs with Some (v, c) => Some (v, diag_of c) | None => None end.

Definition versions (evs : list event) : list version := map (fun e => fst (payload e)) evs.

(* ---------- executable runner ----------------------------------------- *)

(* schedule entries: 0 = LMain, 1 = LOk, k+2 = LFinish k *)
Definition decode (n : nat) : label :=
  match n with O => LMain | S O => LOk | S (S k) => LFinish k end.

Fixpoint run_state (cf : config) (s : state) (sched : list nat) : option state :=
  match sched with
  | [] => Some s
  | n :: sched' =>
      match step_lbl cf (decode n) s with
      | Some s' => run_state cf s' sched'
      | None => None                    (* schedule entry not enabled *)
      end
  end.

(* the published diagnostics in chronological order; None if some schedule
   entry is not enabled in the state where it is tried *)
Definition run_cfg (cf : config) (evs : list event) (sched : list nat)
  : option (list (version * diag)) :=
  match run_state cf (init evs) sched with
  | Some s => Some (rev (log s))
  | None => None
  end.

Definition run (evs : list event) (sched : list nat) : option (list (version * diag)) :=
  run_cfg real_server evs sched.
Definition run_guarded (evs : list event) (sched : list nat) : option (list (version * diag)) :=
  run_cfg guarded evs sched.

(* schedule entries enabled in a state (for enumerating all interleavings) *)
Definition enabled (cf : config) (s : state) : list nat :=
  filter (fun n => match step_lbl cf (decode n) s with Some _ => true | None => false end)
         (seq 0 (2 + length (bg s))).

Lemma run_state_steps : forall cf sched s s',
  run_state cf s sched = Some s' -> steps cf s s'.
Proof.
  intros cf sched. induction sched as [|n sched IH]; intros s s' H.
  - cbn [run_state] in H. inversion H; subst. apply steps_refl.
  - cbn [run_state] in H. destruct (step_lbl cf (decode n) s) as [s1|] eqn:E; [|discriminate].
    specialize (IH _ _ H). clear H.
    induction IH as [s0|s0 sa sb l Hs IHs Hl].
    + eapply steps_step; [apply steps_refl|exact E].
    + eapply steps_step; [apply IHs; exact E|exact Hl].
Qed.

Lemma quiescent_b_spec : forall s, quiescent_b s = true <-> quiescent s.
Proof.
  intros s. unfold quiescent_b, quiescent. split.
  - destruct (todo s); [|discriminate]. destruct (bg s); [|discriminate].
    destruct (pend s); [discriminate|]. auto.
  - intros (E1 & E2 & E3). rewrite E1, E2, E3. reflexivity.
Qed.

(* decidable NoDup on versions *)
Fixpoint nodup_b (l : list version) : bool :=
  match l with
  | [] => true
  | x :: l' => negb (existsb (N.eqb x) l') && nodup_b l'
  end.

Lemma nodup_b_sound : forall l, nodup_b l = true -> NoDup l.
Proof.
  induction l as [|x l IH]; intros H; [constructor|].
  cbn [nodup_b] in H. apply andb_true_iff in H. destruct H as [H1 H2].
  constructor; [|apply IH; exact H2].
  intros Hin. apply negb_true_iff in H1.
  assert (existsb (N.eqb x) l = true) as E; [|congruence].
  apply existsb_exists. exists x. split; [exact Hin|apply N.eqb_refl].
Qed.

(* ===================================================================== *)
(*  The real server: refuted                                             *)
(* ===================================================================== *)

(* D11.  Open v1 [text whose background analysis fails], Change v2 [fine text];
   v2's analysis finishes (nothing to publish), then v1's analysis finishes and
   publishes its error tagged v1: the last diagnostics are for the old version. *)
Theorem last_is_final_refuted :
  exists evs sched s v d v',
    NoDup (versions evs) /\
    run_state real_server (init evs) sched = Some s /\ quiescent s /\
    last_published s = Some (v, d) /\ expected evs = Some (v', DOk) /\
    (v < v')%N /\ last_published s <> expected evs.
Proof.
  exists [Open 1 TBgErr; Change 2 TOk], [0; 1; 0; 1; 3; 2]%nat.
  eexists. exists 1%N, DBgErr, 2%N.
  split; [|split; [vm_compute; reflexivity|]].
  - apply nodup_b_sound. reflexivity.
  - repeat split; try reflexivity. cbn. discriminate.
Qed.

Example last_is_final_refuted_log :
  run [Open 1 TBgErr; Change 2 TOk] [0; 1; 0; 1; 3; 2]%nat
  = Some [(1, DOk); (2, DOk); (1, DBgErr)]%N.
Proof. reflexivity. Qed.

(* Second defect (same version): the thread is spawned BEFORE notify_analysis_ok
   is sent, so a fast analysis can publish its error first and the handler's
   empty "ok" list then overwrites it. One event suffices. *)
Theorem same_version_race_refuted :
  exists evs sched s,
    run_state real_server (init evs) sched = Some s /\ quiescent s /\
    last_published s = Some (1%N, DOk) /\ expected evs = Some (1%N, DBgErr).
Proof.
  exists [Open 1 TBgErr], [0; 2; 1]%nat. eexists.
  split; [vm_compute; reflexivity|]. repeat split.
Qed.

Example same_version_race_log :
  run [Open 1 TBgErr] [0; 2; 1]%nat = Some [(1, DBgErr); (1, DOk)]%N.
Proof. reflexivity. Qed.

(* Each of the two repairs alone is insufficient. *)
Theorem guard_alone_refuted :
  exists evs sched s,
    NoDup (versions evs) /\
    run_state (mkConfig true false) (init evs) sched = Some s /\ quiescent s /\
    last_published s <> expected evs.
Proof.
  exists [Open 1 TBgErr], [0; 2; 1]%nat. eexists.
  split; [apply nodup_b_sound; reflexivity|].
  split; [vm_compute; reflexivity|]. split; [repeat split|]. cbn. discriminate.
Qed.

Theorem ok_first_alone_refuted :
  exists evs sched s,
    NoDup (versions evs) /\
    run_state (mkConfig false true) (init evs) sched = Some s /\ quiescent s /\
    last_published s <> expected evs.
Proof.
  exists [Open 1 TBgErr; Change 2 TOk], [0; 0; 3; 2]%nat. eexists.
  split; [apply nodup_b_sound; reflexivity|].
  split; [vm_compute; reflexivity|]. split; [repeat split|]. cbn. discriminate.
Qed.

(* The version guard needs pairwise distinct versions (LSP clients send
   strictly increasing versions); with a repeated version it is defeated. *)
Theorem guarded_needs_distinct_versions :
  exists evs sched s,
    run_state guarded (init evs) sched = Some s /\ quiescent s /\
    last_published s <> expected evs.
Proof.
  exists [Open 1 TBgErr; Change 1 TOk], [0; 0; 2; 2]%nat. eexists.
  split; [vm_compute; reflexivity|]. split; [repeat split|]. cbn. discriminate.
Qed.

(* A didChange for a document that was never opened panics the main thread. *)
Example change_before_open_crashes :
  option_map crashed (run_state real_server (init [Change 1 TOk]) [0%nat]) = Some true.
Proof. reflexivity. Qed.

(* ===================================================================== *)
(*  The guarded design: proved for all interleavings                      *)
(* ===================================================================== *)

Lemma In_remove_nth : forall (A : Type) (x y : A) k l,
  In x l -> nth_error l k = Some y -> x <> y -> In x (remove_nth k l).
Proof.
  intros A x y k l. revert k. induction l as [|z l IH]; intros k Hin Hn Hne; [destruct Hin|].
  destruct k as [|k]; cbn [nth_error remove_nth] in *.
  - inversion Hn; subst. destruct Hin as [E|Hin]; [congruence|exact Hin].
  - destruct Hin as [E|Hin]; [left; exact E|right; eapply IH; eauto].
Qed.

Lemma In_remove_nth_inv : forall (A : Type) (x : A) k l,
  In x (remove_nth k l) -> In x l.
Proof.
  intros A x k l. revert k. induction l as [|z l IH]; intros k Hin; [destruct k; exact Hin|].
  destruct k as [|k]; cbn [remove_nth] in Hin.
  - right. exact Hin.
  - destruct Hin as [E|Hin]; [left; exact E|right; eapply IH; eauto].
Qed.

Lemma NoDup_fst_fun : forall (P : list (version * tclass)) v c1 c2,
  NoDup (map fst P) -> In (v, c1) P -> In (v, c2) P -> c1 = c2.
Proof.
  induction P as [|[v0 c0] P IH]; intros v c1 c2 Hnd H1 H2; [destruct H1|].
  cbn [map fst] in Hnd. inversion Hnd as [|? ? Hni Hnd']; subst.
  destruct H1 as [E1|H1]; destruct H2 as [E2|H2].
  - congruence.
  - inversion E1; subst. exfalso. apply Hni. apply (in_map fst) in H2. exact H2.
  - inversion E2; subst. exfalso. apply Hni. apply (in_map fst) in H1. exact H1.
  - eapply IH; eauto.
Qed.

Lemma final_of_app1 : forall evs e, final_of (evs ++ [e]) = Some (payload e).
Proof.
  induction evs as [|x evs IH]; intros e; cbn [app final_of]; [reflexivity|].
  rewrite IH. reflexivity.
Qed.

Lemma final_of_in : forall evs x, final_of evs = Some x -> In x (map payload evs).
Proof.
  induction evs as [|e evs IH]; intros x H; cbn [final_of] in H; [discriminate|].
  cbn [map]. destruct (final_of evs) as [y|] eqn:E.
  - inversion H; subst. right. apply IH. reflexivity.
  - inversion H; subst. left. reflexivity.
Qed.

Lemma final_of_none : forall evs, final_of evs = None -> evs = [].
Proof.
  intros [|e evs] H; [reflexivity|]. cbn [final_of] in H.
  destruct (final_of evs); discriminate.
Qed.

(* invariant of the guarded system *)
Definition inv (evs : list event) (s : state) : Prop :=
  exists done,
    evs = done ++ todo s /\
    pend s = None /\
    cur s = final_of done /\
    (forall v c, In (v, c) (bg s) -> In (v, c) (map payload done) /\ c <> TSyncErr) /\
    match cur s with
    | None => log s = []
    | Some (v, c) =>
        exists d lg, log s = (v, d) :: lg /\
                     (d = diag_of c \/ (d = DOk /\ In (v, c) (bg s)))
    end.

Lemma inv_init : forall evs, inv evs (init evs).
Proof.
  intros evs. exists []. cbn. repeat split; auto; intros v c [].
Qed.

Lemma map_payload_versions : forall evs, map fst (map payload evs) = versions evs.
Proof. intros evs. unfold versions. rewrite map_map. reflexivity. Qed.

Lemma inv_step : forall evs l s s',
  NoDup (versions evs) -> inv evs s -> step_lbl guarded l s = Some s' -> inv evs s'.
Proof.
  intros evs l s s' Hnd (done & Hev & Hp & Hc & Hbg & Hlog) Hs.
  unfold step_lbl in Hs. destruct (crashed s); [discriminate|].
  destruct l as [| |k].
  - (* LMain *)
    rewrite Hp in Hs. destruct (todo s) as [|e rest] eqn:Et; [discriminate|].
    assert (Hgen : forall s0,
      (let v := fst (payload e) in let c := snd (payload e) in
       if is_sync_err c
       then Some (mkState rest (Some (v, c)) None (bg s) ((v, DSyncErr) :: log s) false)
       else if ok_first guarded
            then Some (mkState rest (Some (v, c)) None (bg s ++ [(v, c)])
                               ((v, DOk) :: log s) false)
            else Some (mkState rest (Some (v, c)) (Some v) (bg s ++ [(v, c)]) (log s) false))
      = Some s0 -> inv evs s0).
    { clear Hs. intros s0 H0. cbn zeta in H0. cbn [ok_first guarded] in H0.
      destruct (payload e) as [v c] eqn:Ep. cbn [fst snd] in H0.
      exists (done ++ [e]).
      destruct (is_sync_err c) eqn:Ese; inversion H0; subst s0; cbn [todo pend cur bg log].
      - destruct c; try discriminate.
        split; [rewrite <- app_assoc; exact Hev|]. split; [reflexivity|].
        split; [rewrite final_of_app1, Ep; reflexivity|]. split.
        + intros v0 c0 Hin. destruct (Hbg _ _ Hin) as [H1 H2]. split; [|exact H2].
          rewrite map_app. apply in_or_app. left. exact H1.
        + exists DSyncErr, (log s). split; [reflexivity|]. left. reflexivity.
      - split; [rewrite <- app_assoc; exact Hev|]. split; [reflexivity|].
        split; [rewrite final_of_app1, Ep; reflexivity|]. split.
        + intros v0 c0 Hin. apply in_app_or in Hin. destruct Hin as [Hin|[E|[]]].
          * destruct (Hbg _ _ Hin) as [H1 H2]. split; [|exact H2].
            rewrite map_app. apply in_or_app. left. exact H1.
          * inversion E; subst. split.
            -- rewrite map_app. apply in_or_app. right. cbn [map]. rewrite Ep. left. reflexivity.
            -- intros E0. subst. discriminate.
        + exists DOk, (log s). split; [reflexivity|]. right. split; [reflexivity|].
          apply in_or_app. right. left. reflexivity. }
    destruct e as [v c|v c].
    + apply Hgen. exact Hs.
    + destruct (cur s) as [[v0 c0]|] eqn:Ec.
      * apply Hgen. exact Hs.
      * (* crash: state unchanged apart from the flag *)
        inversion Hs; subst s'. exists done. cbn [todo pend cur bg log].
        split; [exact Hev|]. split; [reflexivity|]. split; [exact Hc|].
        split; [exact Hbg|exact Hlog].
  - (* LOk: never enabled, pend = None *)
    rewrite Hp in Hs. discriminate.
  - (* LFinish k *)
    destruct (nth_error (bg s) k) as [[v c]|] eqn:En; [|discriminate].
    inversion Hs; subst s'. clear Hs. exists done. cbn [todo pend cur bg log guard guarded].
    split; [exact Hev|]. split; [exact Hp|]. split; [exact Hc|]. split.
    + intros v0 c0 Hin. apply Hbg. eapply In_remove_nth_inv. exact Hin.
    + assert (Hin : In (v, c) (bg s)) by (eapply nth_error_In; exact En).
      destruct (Hbg _ _ Hin) as [Hd Hnse].
      destruct (cur s) as [[v1 c1]|] eqn:Ec.
      * destruct Hlog as (d & lg & Hl & Hd1).
        destruct (N.eqb_spec v1 v) as [Ev|Ev].
        -- (* same version: same text, by NoDup *)
           subst v1.
           assert (c1 = c).
           { symmetry in Hc. apply final_of_in in Hc.
             assert (Hnd' : NoDup (map fst (map payload evs)))
               by (rewrite map_payload_versions; exact Hnd).
             assert (Hsub : forall x, In x (map payload done) -> In x (map payload evs)).
             { intros x Hx. rewrite Hev, map_app. apply in_or_app. left. exact Hx. }
             eapply NoDup_fst_fun; [exact Hnd'| |]; apply Hsub; eauto. }
           subst c1.
           destruct (bg_diag c) as [d0|] eqn:Eb.
           ++ exists d0, (log s). split; [reflexivity|]. left.
              destruct c; cbn in Eb; inversion Eb; reflexivity.
           ++ exists d, lg. split; [exact Hl|]. left.
              destruct Hd1 as [E|[E _]]; [exact E|].
              subst d. destruct c; cbn in Eb; try discriminate; [congruence|reflexivity].
        -- (* stale analysis: suppressed by the guard *)
           assert (Hlog' : (match bg_diag c with
                            | Some d0 => if false then (v, d0) :: log s else log s
                            | None => log s end) = log s)
             by (destruct (bg_diag c); reflexivity).
           rewrite Hlog'. exists d, lg. split; [exact Hl|].
           destruct Hd1 as [E|[E Hi]]; [left; exact E|right]. split; [exact E|].
           eapply In_remove_nth; [exact Hi|exact En|]. intros E0. inversion E0. congruence.
      * (* no current document: impossible, bg would be empty *)
        exfalso. symmetry in Hc. apply final_of_none in Hc. subst done. destruct Hd.
Qed.

Lemma inv_steps : forall evs s0 s,
  NoDup (versions evs) -> inv evs s0 -> steps guarded s0 s -> inv evs s.
Proof.
  intros evs s0 s Hnd H0 H.
  induction H as [s0|s0 s1 s2 l Hs IH Hl]; [exact H0|].
  apply (inv_step evs l s1 s2 Hnd (IH H0) Hl).
Qed.

Lemma inv_reachable : forall evs s,
  NoDup (versions evs) -> reachable guarded evs s -> inv evs s.
Proof.
  intros evs s Hnd H. eapply inv_steps; [exact Hnd|apply inv_init|exact H].
Qed.

(* C29 for the guarded design: for every history with pairwise distinct
   versions and EVERY interleaving of main-thread and background steps, once
   the system is quiescent the last published diagnostics are those of the
   final text, tagged with the final version. *)
Theorem last_is_final : forall evs s,
  NoDup (versions evs) ->
  reachable guarded evs s -> quiescent s ->
  last_published s = expected evs.
Proof.
  intros evs s Hnd Hr (Ht & Hb & _).
  destruct (inv_reachable evs s Hnd Hr) as (done & Hev & Hp & Hc & Hbg & Hlog).
  rewrite Ht, app_nil_r in Hev. subst done.
  unfold expected, last_published. rewrite <- Hc.
  destruct (cur s) as [[v c]|].
  - destruct Hlog as (d & lg & Hl & Hd). rewrite Hl.
    destruct Hd as [E|[_ Hi]]; [subst d; reflexivity|].
    rewrite Hb in Hi. destruct Hi.
  - rewrite Hlog. reflexivity.
Qed.

(* the same, phrased for the executable runner *)
Corollary run_guarded_final : forall evs sched s,
  NoDup (versions evs) ->
  run_state guarded (init evs) sched = Some s -> quiescent_b s = true ->
  last_published s = expected evs.
Proof.
  intros evs sched s Hnd Hr Hq. apply last_is_final; [exact Hnd| |].
  - apply run_state_steps with (sched := sched). exact Hr.
  - apply quiescent_b_spec. exact Hq.
Qed.

(* non-vacuity: the refuting histories/schedules are harmless in the guarded
   system, and quiescent states are reachable *)
Example guarded_ex1 :
  run_guarded [Open 1 TBgErr; Change 2 TOk] [0; 0; 3; 2]%nat = Some [(1, DOk); (2, DOk)]%N
  /\ option_map quiescent_b (run_state guarded (init [Open 1 TBgErr; Change 2 TOk]) [0; 0; 3; 2]%nat)
     = Some true
  /\ expected [Open 1 TBgErr; Change 2 TOk] = Some (2, DOk)%N.
Proof. repeat split. Qed.
Example guarded_ex2 :
  run_guarded [Open 1 TOk; Change 2 TBgWarn; Change 3 TBgErr] [0; 0; 0; 3; 2; 2]%nat
  = Some [(1, DOk); (2, DOk); (3, DOk); (3, DBgErr)]%N
  /\ expected [Open 1 TOk; Change 2 TBgWarn; Change 3 TBgErr] = Some (3, DBgErr)%N.
Proof. repeat split. Qed.
Example enabled_ex :
  option_map (enabled real_server) (run_state real_server (init [Open 1 TBgErr; Change 2 TOk]) [0; 1; 0]%nat)
  = Some [1; 2; 3]%nat.
Proof. reflexivity. Qed.

Print Assumptions last_is_final_refuted.
Print Assumptions same_version_race_refuted.
Print Assumptions guard_alone_refuted.
Print Assumptions ok_first_alone_refuted.
Print Assumptions guarded_needs_distinct_versions.
Print Assumptions last_is_final.
Print Assumptions run_guarded_final.
