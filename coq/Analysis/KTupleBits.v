(** * A small digit-vector library on [N] for the packed k-tuple proofs (C32)

    [digit b x i] is digit [i] of [x] in base [2^b]; [payH b l H] is the number whose low digits
    are [l] and whose remaining high part is [H]; [pay b l = payH b l 0].  *)
From Coq Require Import List NArith Bool Lia.
From Parol Require Import Analysis.KTupleModel.
Import ListNotations.
Local Open Scope N_scope.

(** ** Bits *)
Lemma ones_testbit n i : N.testbit (N.ones n) i = (i <? n).
Proof.
  destruct (N.ltb_spec i n) as [H|H].
  - apply N.ones_spec_low; lia.
  - apply N.ones_spec_high; lia.
Qed.

Lemma pow2_pos k : 0 < 2 ^ k.
Proof. apply N.neq_0_lt_0, N.pow_nonzero; discriminate. Qed.

Lemma pow2_nz k : 2 ^ k <> 0.
Proof. apply N.pow_nonzero; discriminate. Qed.

Lemma testbit_small x k i : x < 2 ^ k -> k <= i -> N.testbit x i = false.
Proof.
  intros Hx Hi. rewrite <- (N.mod_small x (2 ^ k)) by assumption.
  apply N.mod_pow2_bits_high; assumption.
Qed.

Lemma lt_pow2_land x k : x < 2 ^ k <-> N.land x (N.ones k) = x.
Proof.
  split; intro H.
  - rewrite N.land_ones. apply N.mod_small; assumption.
  - rewrite <- H, N.land_ones. apply N.mod_upper_bound, pow2_nz.
Qed.

Lemma land_shiftl_disjoint a c k : a < 2 ^ k -> N.land a (N.shiftl c k) = 0.
Proof.
  intro Ha. apply N.bits_inj; intro i. rewrite N.land_spec, N.bits_0.
  destruct (N.ltb_spec i k) as [H|H].
  - rewrite N.shiftl_spec_low by assumption. apply andb_false_r.
  - rewrite (testbit_small a k i) by assumption. reflexivity.
Qed.

Lemma lor_shiftl_add a c k : a < 2 ^ k -> N.lor a (N.shiftl c k) = a + c * 2 ^ k.
Proof.
  intro Ha. rewrite <- N.shiftl_mul_pow2.
  pose proof (land_shiftl_disjoint a c k Ha) as Hd.
  rewrite (N.add_nocarry_lxor _ _ Hd). symmetry. apply N.lxor_lor; assumption.
Qed.

Lemma lor_lt_pow2 a c k : a < 2 ^ k -> c < 2 ^ k -> N.lor a c < 2 ^ k.
Proof.
  intros Ha Hc. apply lt_pow2_land. rewrite N.land_lor_distr_l.
  apply lt_pow2_land in Ha. apply lt_pow2_land in Hc. rewrite Ha, Hc. reflexivity.
Qed.

Lemma land_lt_pow2 a c k : a < 2 ^ k -> N.land a c < 2 ^ k.
Proof.
  intros Ha. apply lt_pow2_land. apply lt_pow2_land in Ha.
  rewrite <- N.land_assoc, (N.land_comm c), N.land_assoc, Ha. reflexivity.
Qed.

Lemma ldiff_lt_pow2 a c k : a < 2 ^ k -> N.ldiff a c < 2 ^ k.
Proof.
  intros Ha. apply lt_pow2_land. apply N.bits_inj; intro i.
  rewrite N.land_spec, N.ldiff_spec, ones_testbit.
  destruct (N.ltb_spec i k) as [H|H].
  - apply andb_true_r.
  - rewrite (testbit_small a k i) by assumption. reflexivity.
Qed.

Lemma div_add_pow a c k : a < 2 ^ k -> (a + c * 2 ^ k) / 2 ^ k = c.
Proof.
  intro Ha. rewrite N.div_add by apply pow2_nz. rewrite N.div_small by assumption. reflexivity.
Qed.

Lemma mod_add_pow a c k : a < 2 ^ k -> (a + c * 2 ^ k) mod 2 ^ k = a.
Proof.
  intro Ha. rewrite N.mod_add by apply pow2_nz. apply N.mod_small; assumption.
Qed.

(** [x & (m << k) = ((x >> k) & m) << k] *)
Lemma land_shiftl_mask x m k :
  N.land x (N.shiftl m k) = N.shiftl (N.land (N.shiftr x k) m) k.
Proof.
  apply N.bits_inj; intro i. rewrite N.land_spec.
  destruct (N.ltb_spec i k) as [H|H].
  - rewrite !N.shiftl_spec_low by assumption. apply andb_false_r.
  - rewrite !N.shiftl_spec_high' by assumption.
    rewrite N.land_spec, N.shiftr_spec'. replace (i - k + k) with i by lia. reflexivity.
Qed.

Lemma shiftr_shiftl_same x k : N.shiftr (N.shiftl x k) k = x.
Proof.
  rewrite N.shiftr_div_pow2, N.shiftl_mul_pow2. apply N.div_mul, pow2_nz.
Qed.

(** a field extraction: [(x & (ones w << k)) >> k = (x / 2^k) mod 2^w] *)
Lemma field_extract x k w :
  N.shiftr (N.land x (N.shiftl (N.ones w) k)) k = (x / 2 ^ k) mod 2 ^ w.
Proof.
  rewrite land_shiftl_mask, shiftr_shiftl_same, N.land_ones, N.shiftr_div_pow2. reflexivity.
Qed.

(** clearing bits: for [x < 2^n], [x & !m] (complement within [n] bits) is [ldiff x m] *)
Lemma land_not_ldiff x m n : x < 2 ^ n -> N.land x (N.ldiff (N.ones n) m) = N.ldiff x m.
Proof.
  intro Hx. apply N.bits_inj; intro i.
  rewrite N.land_spec, !N.ldiff_spec, ones_testbit.
  destruct (N.ltb_spec i n) as [H|H].
  - reflexivity.
  - rewrite (testbit_small x n i) by assumption. reflexivity.
Qed.

(** [!(!0 << s)] within [n] bits is [ones s] *)
Lemma not_shl_ones n s :
  s <= n -> N.ldiff (N.ones n) (N.land (N.shiftl (N.ones n) s) (N.ones n)) = N.ones s.
Proof.
  intro Hs. apply N.bits_inj; intro i.
  rewrite N.ldiff_spec, N.land_spec, !ones_testbit.
  destruct (N.ltb_spec i s) as [H1|H1].
  - rewrite N.shiftl_spec_low by assumption.
    destruct (N.ltb_spec i n); [reflexivity | lia].
  - rewrite N.shiftl_spec_high' by assumption. rewrite ones_testbit.
    destruct (N.ltb_spec i n) as [H2|H2]; [|reflexivity].
    destruct (N.ltb_spec (i - s) n); [reflexivity | lia].
Qed.

Lemma ldiff_shiftl_high a m s : a < 2 ^ s -> N.ldiff a (N.shiftl m s) = a.
Proof.
  intro Ha. apply N.bits_inj; intro i. rewrite N.ldiff_spec.
  destruct (N.ltb_spec i s) as [H|H].
  - rewrite N.shiftl_spec_low by assumption. apply andb_true_r.
  - rewrite (testbit_small a s i) by assumption. reflexivity.
Qed.

(** splitting a number at bit [k] *)
Lemma split_at x k : x = x mod 2 ^ k + (x / 2 ^ k) * 2 ^ k.
Proof. rewrite N.add_comm, N.mul_comm. apply N.div_mod, pow2_nz. Qed.

Lemma split_lor x k : x = N.lor (x mod 2 ^ k) (N.shiftl (x / 2 ^ k) k).
Proof.
  rewrite lor_shiftl_add by (apply N.mod_upper_bound, pow2_nz). apply split_at.
Qed.

(** operations with a low operand leave the high part alone *)
Lemma lor_low a H q k : a < 2 ^ k -> q < 2 ^ k ->
  N.lor (a + H * 2 ^ k) q = N.lor a q + H * 2 ^ k.
Proof.
  intros Ha Hq. rewrite <- !lor_shiftl_add by (try apply lor_lt_pow2; assumption).
  rewrite <- !N.lor_assoc. f_equal. apply N.lor_comm.
Qed.

Lemma land_low a H q k : a < 2 ^ k -> q < 2 ^ k ->
  N.land (a + H * 2 ^ k) q = N.land a q.
Proof.
  intros Ha Hq. rewrite <- lor_shiftl_add by assumption.
  rewrite N.land_lor_distr_l, (N.land_comm (N.shiftl H k)), land_shiftl_disjoint by assumption.
  apply N.lor_0_r.
Qed.

Lemma ldiff_low a H q k : a < 2 ^ k -> q < 2 ^ k ->
  N.ldiff (a + H * 2 ^ k) q = N.ldiff a q + H * 2 ^ k.
Proof.
  intros Ha Hq.
  rewrite <- !lor_shiftl_add by (try apply ldiff_lt_pow2; assumption).
  apply N.bits_inj; intro i.
  rewrite N.ldiff_spec, !N.lor_spec, N.ldiff_spec.
  destruct (N.ltb_spec i k) as [Hi|Hi].
  - rewrite N.shiftl_spec_low by assumption. rewrite !orb_false_r. reflexivity.
  - rewrite (testbit_small q k i) by assumption.
    rewrite (testbit_small a k i) by assumption. cbn [negb orb andb]. apply andb_true_r.
Qed.

(** ** Digits ([digit] is defined in the model file) *)

Lemma digit_div_mod b x i : digit b x i = (x / 2 ^ (i * b)) mod 2 ^ b.
Proof. unfold digit. rewrite N.land_ones, N.shiftr_div_pow2. reflexivity. Qed.

Lemma digit_lt b x i : digit b x i < 2 ^ b.
Proof. rewrite digit_div_mod. apply N.mod_upper_bound, pow2_nz. Qed.

(** low digits only depend on the low bits *)
Lemma digit_mod b x i k : (i + 1) * b <= k -> digit b (x mod 2 ^ k) i = digit b x i.
Proof.
  intro Hk. unfold digit. apply N.bits_inj; intro j.
  rewrite !N.land_spec, !N.shiftr_spec', ones_testbit.
  destruct (N.ltb_spec j b) as [Hj|Hj].
  - rewrite N.mod_pow2_bits_low by nia. reflexivity.
  - rewrite !andb_false_r. reflexivity.
Qed.

Fixpoint payH (b : N) (l : list N) (H : N) : N :=
  match l with
  | [] => H
  | d :: r => d + 2 ^ b * payH b r H
  end.
Definition pay (b : N) (l : list N) : N := payH b l 0.

Definition lenN {A} (l : list A) : N := N.of_nat (length l).

Definition small (b : N) (l : list N) : Prop := Forall (fun d => d < 2 ^ b) l.

Lemma lenN_cons {A} (a : A) l : lenN (a :: l) = lenN l + 1.
Proof. unfold lenN. cbn [length]. lia. Qed.

Lemma lenN_app {A} (l1 l2 : list A) : lenN (l1 ++ l2) = lenN l1 + lenN l2.
Proof. unfold lenN. rewrite app_length. lia. Qed.

Lemma payH_pay b l H : payH b l H = pay b l + H * 2 ^ (lenN l * b).
Proof.
  unfold pay. induction l as [|d r IH].
  - cbn [payH]. unfold lenN. cbn [length N.of_nat]. rewrite N.mul_0_l, N.pow_0_r. lia.
  - cbn [payH]. rewrite IH, lenN_cons.
    replace ((lenN r + 1) * b) with (b + lenN r * b) by lia.
    rewrite N.pow_add_r. lia.
Qed.

Lemma payH_app b l1 l2 H : payH b (l1 ++ l2) H = payH b l1 (payH b l2 H).
Proof.
  induction l1 as [|d r IH]; cbn [payH app]; [reflexivity|]. rewrite IH. reflexivity.
Qed.

Lemma pay_app b l1 l2 : pay b (l1 ++ l2) = pay b l1 + pay b l2 * 2 ^ (lenN l1 * b).
Proof. unfold pay at 1. rewrite payH_app, payH_pay. reflexivity. Qed.

Lemma pay_lt b l : small b l -> pay b l < 2 ^ (lenN l * b).
Proof.
  unfold pay. induction 1 as [|d r Hd Hr IH].
  - cbn. lia.
  - cbn [payH]. rewrite lenN_cons.
    replace ((lenN r + 1) * b) with (b + lenN r * b) by lia. rewrite N.pow_add_r.
    pose proof (pow2_pos b). nia.
Qed.

Lemma payH_cons_mod b d r H : d < 2 ^ b -> payH b (d :: r) H mod 2 ^ b = d.
Proof.
  intro Hd. cbn [payH]. rewrite (N.mul_comm (2 ^ b)). apply mod_add_pow; assumption.
Qed.

Lemma payH_cons_div b d r H : d < 2 ^ b -> payH b (d :: r) H / 2 ^ b = payH b r H.
Proof.
  intro Hd. cbn [payH]. rewrite (N.mul_comm (2 ^ b)). apply div_add_pow; assumption.
Qed.

Lemma digit_0 b x : digit b x 0 = x mod 2 ^ b.
Proof. rewrite digit_div_mod, N.mul_0_l, N.pow_0_r, N.div_1_r. reflexivity. Qed.

Lemma digit_succ b x i : digit b x (i + 1) = digit b (x / 2 ^ b) i.
Proof.
  rewrite !digit_div_mod. replace ((i + 1) * b) with (b + i * b) by lia.
  rewrite N.pow_add_r, N.div_div by apply pow2_nz. reflexivity.
Qed.

Lemma digit_payH b l H i d :
  small b l -> nth_error l i = Some d -> digit b (payH b l H) (N.of_nat i) = d.
Proof.
  intro Hs. revert i. induction Hs as [|e r He Hr IH]; intros i Hn.
  - destruct i; discriminate.
  - destruct i as [|i].
    + cbn in Hn. injection Hn as <-. cbn [N.of_nat]. rewrite digit_0.
      apply payH_cons_mod; assumption.
    + cbn [nth_error] in Hn. replace (N.of_nat (S i)) with (N.of_nat i + 1) by lia.
      rewrite digit_succ, payH_cons_div by assumption. apply IH; assumption.
Qed.

Lemma map_digit_payH b l H :
  small b l ->
  map (fun i => digit b (payH b l H) (N.of_nat i)) (seq 0 (length l)) = l.
Proof.
  induction 1 as [|d r Hd Hr IH].
  - reflexivity.
  - cbn [length seq map]. f_equal.
    + cbn [N.of_nat]. rewrite digit_0. apply payH_cons_mod; assumption.
    + rewrite <- seq_shift, map_map. rewrite <- IH at 2.
      apply map_ext; intro i.
      replace (N.of_nat (S i)) with (N.of_nat i + 1) by lia.
      rewrite digit_succ, payH_cons_div by assumption. reflexivity.
Qed.

Lemma small_firstn b n l : small b l -> small b (firstn n l).
Proof.
  intro Hs. revert n. induction Hs as [|d r Hd Hr IH]; intro n.
  - rewrite firstn_nil. constructor.
  - destruct n as [|n]; cbn [firstn]; constructor; [assumption | apply IH].
Qed.

Lemma small_app b l1 l2 : small b l1 -> small b l2 -> small b (l1 ++ l2).
Proof. intros H1 H2. apply Forall_app; split; assumption. Qed.

Lemma small_skipn b n l : small b l -> small b (skipn n l).
Proof.
  intro Hs. revert n. induction Hs as [|d r Hd Hr IH]; intro n.
  - rewrite skipn_nil. constructor.
  - destruct n as [|n]; cbn [skipn]; [constructor; assumption | apply IH].
Qed.

(** masking with [n] digits keeps the first [n] digits *)
Lemma payH_mod_firstn b l H n :
  small b l -> (n <= length l)%nat ->
  payH b l H mod 2 ^ (N.of_nat n * b) = pay b (firstn n l).
Proof.
  intros Hs Hn. rewrite <- (firstn_skipn n l) at 1. rewrite payH_app, payH_pay.
  assert (Hl : lenN (firstn n l) = N.of_nat n).
  { unfold lenN. rewrite firstn_length. f_equal. lia. }
  rewrite Hl. apply mod_add_pow. rewrite <- Hl. apply pay_lt, small_firstn; assumption.
Qed.

Lemma payH_div_skipn b l H n :
  small b l -> (n <= length l)%nat ->
  payH b l H / 2 ^ (N.of_nat n * b) = payH b (skipn n l) H.
Proof.
  intros Hs Hn. rewrite <- (firstn_skipn n l) at 1. rewrite payH_app, payH_pay.
  assert (Hl : lenN (firstn n l) = N.of_nat n).
  { unfold lenN. rewrite firstn_length. f_equal. lia. }
  rewrite Hl. apply div_add_pow. rewrite <- Hl. apply pay_lt, small_firstn; assumption.
Qed.

(** every number below [2^(n*b)] is the payload of its [n] digits *)
Lemma pay_digits b n x :
  x < 2 ^ (N.of_nat n * b) ->
  pay b (map (fun i => digit b x (N.of_nat i)) (seq 0 n)) = x.
Proof.
  unfold pay. revert x. induction n as [|n IH]; intros x Hx.
  - cbn in *. lia.
  - cbn [seq map payH]. rewrite <- seq_shift, map_map.
    rewrite (map_ext _ (fun i => digit b (x / 2 ^ b) (N.of_nat i))).
    + rewrite IH.
      * cbn [N.of_nat]. rewrite digit_0, N.add_comm. symmetry. apply N.div_mod, pow2_nz.
      * apply N.div_lt_upper_bound; [apply pow2_nz|].
        rewrite <- N.pow_add_r. replace (b + N.of_nat n * b) with (N.of_nat (S n) * b) by lia.
        assumption.
    + intro i. replace (N.of_nat (S i)) with (N.of_nat i + 1) by lia. apply digit_succ.
Qed.

Lemma pay_inj b l1 l2 :
  small b l1 -> small b l2 -> length l1 = length l2 -> pay b l1 = pay b l2 -> l1 = l2.
Proof.
  intros H1 H2 Hl He.
  rewrite <- (map_digit_payH b l1 0 H1), <- (map_digit_payH b l2 0 H2).
  fold (pay b l1). fold (pay b l2). rewrite He, Hl. reflexivity.
Qed.

(** ** Order: the packed value orders equal-length digit lists co-lexicographically
    (last digit most significant) *)
Fixpoint colex (l1 l2 : list N) : comparison :=
  match l1, l2 with
  | [], [] => Eq
  | [], _ :: _ => Lt
  | _ :: _, [] => Gt
  | d1 :: r1, d2 :: r2 =>
    match colex r1 r2 with Eq => d1 ?= d2 | c => c end
  end.

Lemma compare_digits b d1 d2 R1 R2 :
  d1 < 2 ^ b -> d2 < 2 ^ b ->
  (d1 + 2 ^ b * R1 ?= d2 + 2 ^ b * R2) = match R1 ?= R2 with Eq => d1 ?= d2 | c => c end.
Proof.
  intros H1 H2. pose proof (pow2_pos b) as Hp.
  destruct (N.compare_spec R1 R2) as [He|Hl|Hg].
  - subst R2. destruct (N.compare_spec d1 d2) as [E|L|G].
    + subst. apply N.compare_refl.
    + apply N.compare_lt_iff. lia.
    + apply N.compare_gt_iff. lia.
  - apply N.compare_lt_iff. nia.
  - apply N.compare_gt_iff. nia.
Qed.

Lemma pay_compare b l1 l2 :
  small b l1 -> small b l2 -> length l1 = length l2 ->
  (pay b l1 ?= pay b l2) = colex l1 l2.
Proof.
  unfold pay. intro H1. revert l2. induction H1 as [|d1 r1 Hd1 Hr1 IH]; intros l2 H2 Hl.
  - destruct l2; [reflexivity | discriminate].
  - destruct l2 as [|d2 r2]; [discriminate|].
    inversion H2 as [|? ? Hd2 Hr2]; subst.
    cbn [payH colex]. rewrite compare_digits by assumption.
    rewrite IH by (try assumption; cbn in Hl; lia). reflexivity.
Qed.
