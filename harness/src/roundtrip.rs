//! `pv roundtrip <file>`: for each text (JSON string per line): read it with parol, render the grammar
//! configuration as PAR text (before and after the grammar transformation), read that back and
//! compare. One JSON object per line.
use parol::{check_and_transform_grammar, obtain_grammar_config_from_string, render_par_string};
use std::io::BufRead;

fn strip_locations(s: &str) -> String {
    // Location { ... } has no nested braces
    let mut out = String::new();
    let mut rest = s;
    while let Some(i) = rest.find("Location {") {
        out.push_str(&rest[..i]);
        out.push_str("Location");
        match rest[i..].find('}') {
            Some(j) => rest = &rest[i + j + 1..],
            None => { rest = ""; }
        }
    }
    out.push_str(rest);
    out
}

/// The parts of a grammar configuration the property names: start symbol, productions (symbols with clipping,
/// member names, user types, scanner states, look-ahead), declarations, scanner configurations. Internal
/// bookkeeping (production attributes, Option/RepetitionAnchor marks, the list of original non-terminals,
/// source locations) is not part of it.
fn essential(g: &parol::GrammarConfig) -> String {
    use parol::{Symbol, SymbolAttribute, Terminal};
    let sym = |s: &Symbol| -> String {
        match s {
            Symbol::N(n, a, u, m) => format!("N({n},{},{u:?},{m:?})", matches!(a, SymbolAttribute::Clipped)),
            Symbol::T(Terminal::Trm(t, k, sc, a, u, m, l)) => format!("T({t:?},{k:?},{sc:?},{},{u:?},{m:?},{l:?})", matches!(a, SymbolAttribute::Clipped)),
            other => format!("{other:?}"),
        }
    };
    let prods: Vec<String> = g.cfg.pr.iter().map(|p| format!("{}: {}", p.get_n_str(), p.get_r().iter().map(sym).collect::<Vec<_>>().join(" "))).collect();
    strip_locations(&format!("start={} prods={:?} type={:?} title={:?} comment={:?} user_types={:?} nt_types={:?} t_type={:?} scanners={:?}",
        g.cfg.st, prods, g.grammar_type, g.title, g.comment, g.user_type_defs, g.nt_type_defs, g.t_type_def, g.scanner_configurations))
}

fn one(text: &str) -> serde_json::Value {
    let gc = match obtain_grammar_config_from_string(text, false) {
        Ok(g) => g,
        Err(_) => return serde_json::json!({"valid": false}),
    };
    let mut results = vec![];
    let mut variants = vec![("as-read", gc.clone())];
    if let Ok(cfg2) = check_and_transform_grammar(&gc.cfg, gc.grammar_type) {
        let mut g2 = gc.clone();
        g2.update_cfg(cfg2);
        variants.push(("transformed", g2));
    }
    for (name, g) in variants {
        let rendered = match render_par_string(&g, false) {
            Ok(r) => r,
            Err(e) => { results.push(serde_json::json!({"variant": name, "status": "render-error", "detail": format!("{e}")})); continue; }
        };
        match obtain_grammar_config_from_string(&rendered, false) {
            Err(e) => results.push(serde_json::json!({"variant": name, "status": "reread-error", "rendered": rendered, "detail": format!("{e}").chars().take(200).collect::<String>()})),
            Ok(g2) => {
                let a = essential(&g);
                let b = essential(&g2);
                if a == b {
                    results.push(serde_json::json!({"variant": name, "status": "same"}));
                } else {
                    // field-wise hints
                    let mut fields = vec![];
                    if g.cfg.st != g2.cfg.st { fields.push("start"); }
                    if a.split(" type=").next() != b.split(" type=").next() { fields.push("productions"); }
                    if strip_locations(&format!("{:?}", g.scanner_configurations)) != strip_locations(&format!("{:?}", g2.scanner_configurations)) {
                        fields.push("scanner-configurations");
                        for (x, y) in g.scanner_configurations.iter().zip(g2.scanner_configurations.iter()) {
                            if x.allow_unmatched != y.allow_unmatched { fields.push("allow-unmatched"); }
                            if x.auto_newline != y.auto_newline || x.auto_ws != y.auto_ws { fields.push("auto-flags"); }
                            if x.line_comments != y.line_comments || x.block_comments != y.block_comments { fields.push("comments"); }
                            if x.skip_tokens != y.skip_tokens { fields.push("skip"); }
                            if strip_locations(&format!("{:?}", x.transitions)) != strip_locations(&format!("{:?}", y.transitions)) { fields.push("transitions"); }
                        }
                    }
                    if g.grammar_type != g2.grammar_type { fields.push("grammar-type"); }
                    if format!("{:?}", g.user_type_defs) != format!("{:?}", g2.user_type_defs) || format!("{:?}", g.nt_type_defs) != format!("{:?}", g2.nt_type_defs) || format!("{:?}", g.t_type_def) != format!("{:?}", g2.t_type_def) { fields.push("type-defs"); }
                    if g.title != g2.title || g.comment != g2.comment { fields.push("title-comment"); }
                    fields.sort(); fields.dedup();
                    results.push(serde_json::json!({"variant": name, "status": "differs", "fields": fields, "rendered": rendered}));
                }
            }
        }
    }
    serde_json::json!({"valid": true, "results": results})
}

pub fn run(args: &crate::Args) {
    let path = args.rest.first().expect("file argument");
    let f = std::io::BufReader::new(std::fs::File::open(path).unwrap());
    for line in f.lines() {
        let line = line.unwrap();
        let text: String = match serde_json::from_str(&line) { Ok(t) => t, Err(_) => continue };
        let r = std::panic::catch_unwind(|| one(&text));
        println!("{}", r.unwrap_or_else(|_| serde_json::json!({"valid": true, "panic": true, "results": []})));
    }
}
