(** * LR augmentation: model of [augment_grammar] (crates/parol/src/transformation/lr_augmentation.rs)

    The grammar handed to LALR(1) table construction must generate the same language as the input
    grammar and have an isolated start symbol (exactly one production, no occurrence on a
    right-hand side).  [augment_old] is the function at the pinned commit (it only looked at the
    number of productions of the start symbol — [augment_old_isolated_refuted]); [augment] is the
    repaired function. The fresh name is a parameter here; its freshness is [generate_name]'s job
    (Transform/Names.v). *)
From Coq Require Import List Arith NArith Bool Lia.
From Parol Require Import Grammar.Cfg.
Import ListNotations.

Definition occurs_rhs (a : N) (g : cfg) : bool :=
  existsb (fun p => existsb (sym_eqb (NT a)) (rhs p)) (prods g).

Definition isolatedb (g : cfg) : bool :=
  Nat.eqb (length (prods_of g (start g))) 1 && negb (occurs_rhs (start g) g).

Definition isolated (g : cfg) : Prop :=
  length (prods_of g (start g)) = 1 /\ forall p, In p (prods g) -> ~ In (NT (start g)) (rhs p).

Lemma occurs_rhs_false a g :
  occurs_rhs a g = false <-> forall p, In p (prods g) -> ~ In (NT a) (rhs p).
Proof.
  unfold occurs_rhs. split.
  - intros H p Hp Hin.
    assert (existsb (fun p => existsb (sym_eqb (NT a)) (rhs p)) (prods g) = true) as E.
    { apply existsb_exists. exists p. split; [exact Hp|].
      apply existsb_exists. exists (NT a). split; [exact Hin|apply sym_eqb_refl]. }
    congruence.
  - intros H. destruct (existsb _ (prods g)) eqn:E; [|reflexivity].
    apply existsb_exists in E as (p & Hp & E). apply existsb_exists in E as (s & Hs & E).
    apply sym_eqb_eq in E. subst s. exfalso. exact (H p Hp Hs).
Qed.

Lemma isolatedb_spec g : isolatedb g = true <-> isolated g.
Proof.
  unfold isolatedb, isolated. rewrite andb_true_iff, Nat.eqb_eq, negb_true_iff, occurs_rhs_false.
  tauto.
Qed.

Definition add_start (g : cfg) (s' : N) : cfg :=
  mkCfg s' (mkProd s' [NT (start g)] :: prods g).

(** The repaired function. *)
Definition augment (g : cfg) (s' : N) : cfg :=
  if isolatedb g then g else add_start g s'.

(** The function at the pinned commit. *)
Definition augment_old (g : cfg) (s' : N) : cfg :=
  if Nat.eqb (length (prods_of g (start g))) 1 then g else add_start g s'.

(** ** Language preservation of [add_start] for a fresh [s']. *)
Definition form_free (s' : N) (α : list sym) : Prop := ~ In (NT s') α.

Lemma fresh_not_in_rhs g s' : ~ In s' (nts g) -> forall p, In p (prods g) -> lhs p <> s' /\ form_free s' (rhs p).
Proof.
  intros Hf p Hp. unfold nts in Hf. split.
  - intros E. apply Hf. right. apply in_flat_map. exists p. split; [exact Hp|]. left. exact E.
  - intros Hin. apply Hf. right. apply in_flat_map. exists p. split; [exact Hp|]. right.
    unfold rhs_nts. apply in_flat_map. exists (NT s'). split; [exact Hin|]. left. reflexivity.
Qed.

Lemma add_start_derives_back g s' : ~ In s' (nts g) ->
  forall α w, derives (add_start g s') α w -> form_free s' α -> derives g α w.
Proof.
  intros Hf α w H. induction H as [|t α w H IH|a p α u v Hin Hl Hr IHr Ha IHa]; intros Hfree.
  - constructor.
  - constructor. apply IH. intros Hin. apply Hfree. right. exact Hin.
  - assert (a <> s') as Ha' by (intros ->; apply Hfree; left; reflexivity).
    simpl in Hin. destruct Hin as [<-|Hin]; [simpl in Hl; congruence|].
    destruct (fresh_not_in_rhs g s' Hf p Hin) as [_ Hfr].
    econstructor; eauto.
    apply IHa. intros Hin'. apply Hfree. right. exact Hin'.
Qed.

Theorem add_start_lang g s' : ~ In s' (nts g) -> forall w, lang (add_start g s') w <-> lang g w.
Proof.
  intros Hf w. unfold lang. cbn [start add_start]. split.
  - intros H. apply derives_single in H as (p & Hin & Hl & Hr).
    simpl in Hin. destruct Hin as [<-|Hin].
    + simpl in Hr. apply (add_start_derives_back g s' Hf) in Hr; [exact Hr|].
      intros [E|[]]. inversion E as [E']. apply Hf. left. congruence.
    + exfalso. destruct (fresh_not_in_rhs g s' Hf p Hin) as [Hne _]. simpl in Hl. congruence.
  - intros H. apply derives_single. exists (mkProd s' [NT (start g)]). repeat split.
    + left. reflexivity.
    + simpl. apply (derives_incl g); [intros p Hp; right; exact Hp|exact H].
Qed.

Theorem add_start_isolated g s' : ~ In s' (nts g) -> isolated (add_start g s').
Proof.
  intros Hf. unfold isolated. cbn [start add_start prods]. split.
  - unfold prods_of. simpl prods. simpl filter. rewrite N.eqb_refl. cbn [length]. f_equal.
    apply length_zero_iff_nil.
    destruct (filter _ (prods g)) as [|p l] eqn:E; [reflexivity|].
    assert (In p (filter (fun p => N.eqb (lhs p) s') (prods g))) as Hp by (rewrite E; left; reflexivity).
    apply filter_In in Hp as [Hp El]. apply N.eqb_eq in El.
    destruct (fresh_not_in_rhs g s' Hf p Hp) as [Hne _]. congruence.
  - intros p [<-|Hp] Hin.
    + simpl in Hin. destruct Hin as [E|[]]. inversion E as [E']. apply Hf. left. congruence.
    + destruct (fresh_not_in_rhs g s' Hf p Hp) as [_ Hfr]. exact (Hfr Hin).
Qed.

Theorem augment_lang g s' : ~ In s' (nts g) -> forall w, lang (augment g s') w <-> lang g w.
Proof.
  intros Hf w. unfold augment. destruct (isolatedb g); [tauto|apply add_start_lang; exact Hf].
Qed.

Theorem augment_isolated g s' : ~ In s' (nts g) -> isolated (augment g s').
Proof.
  intros Hf. unfold augment. destruct (isolatedb g) eqn:E.
  - apply isolatedb_spec. exact E.
  - apply add_start_isolated. exact Hf.
Qed.

(** ** The pinned commit's function does not isolate a recursive start symbol (finding D1):
       S: A;  A: "x" S | "x";   (S = 0, A = 1, "x" = terminal 5). *)
Definition d1_grammar : cfg :=
  mkCfg 0 [ mkProd 0 [NT 1]; mkProd 1 [T 5; NT 0]; mkProd 1 [T 5] ].

Theorem augment_old_isolated_refuted :
  exists g s', ~ In s' (nts g) /\ isolatedb (augment_old g s') = false.
Proof.
  exists d1_grammar, 2%N. split; [|vm_compute; reflexivity].
  vm_compute. intros H. repeat (destruct H as [H|H]; [discriminate|]). exact H.
Qed.

Example augment_on_witness : isolatedb (augment d1_grammar 2) = true.
Proof. vm_compute. reflexivity. Qed.

(** ** Checker for the correspondence: is [g'] an acceptable result for input [g]?
    Either the grammar is returned unchanged or a fresh start production was put in front;
    in both cases the result must be isolated. *)
Fixpoint prods_eqb (a b : list prod) : bool :=
  match a, b with
  | [], [] => true
  | p :: a', q :: b' => prod_eqb p q && prods_eqb a' b'
  | _, _ => false
  end.

Lemma prods_eqb_eq a : forall b, prods_eqb a b = true <-> a = b.
Proof.
  induction a as [|p a IH]; intros [|q b]; simpl; split; intros H; try congruence; try discriminate.
  - apply andb_prop in H as [H1 H2]. apply prod_eqb_eq in H1. apply IH in H2. congruence.
  - inversion H; subst. apply andb_true_intro. split; [apply prod_eqb_eq|apply IH]; reflexivity.
Qed.

Definition cfg_eqb (g g' : cfg) : bool := N.eqb (start g) (start g') && prods_eqb (prods g) (prods g').

Definition augment_check (g g' : cfg) : bool :=
  isolatedb g' &&
  (cfg_eqb g g' ||
   (negb (existsb (N.eqb (start g')) (nts g)) && cfg_eqb (add_start g (start g')) g')).

Lemma cfg_eqb_eq g g' : cfg_eqb g g' = true <-> g = g'.
Proof.
  destruct g as [s ps], g' as [s' ps']. unfold cfg_eqb. simpl.
  rewrite andb_true_iff, N.eqb_eq, prods_eqb_eq. split; [intros [-> ->]; reflexivity|].
  intros H; inversion H; auto.
Qed.

Theorem augment_check_sound g g' :
  augment_check g g' = true -> isolated g' /\ forall w, lang g' w <-> lang g w.
Proof.
  unfold augment_check. intros H. apply andb_prop in H as [Hi H].
  split; [apply isolatedb_spec; exact Hi|].
  apply orb_prop in H as [H|H].
  - apply cfg_eqb_eq in H. subst. tauto.
  - apply andb_prop in H as [Hf H]. apply cfg_eqb_eq in H. rewrite <- H.
    apply add_start_lang. apply negb_true_iff in Hf.
    intros Hin. assert (existsb (N.eqb (start g')) (nts g) = true) as E.
    { apply existsb_exists. exists (start g'). split; [exact Hin|apply N.eqb_refl]. }
    congruence.
Qed.

Theorem augment_passes_check g s' : ~ In s' (nts g) -> augment_check g (augment g s') = true.
Proof.
  intros Hf. unfold augment_check.
  assert (Hi : isolatedb (augment g s') = true) by (apply isolatedb_spec, augment_isolated; exact Hf).
  rewrite Hi. cbn [andb]. unfold augment in *. destruct (isolatedb g) eqn:E.
  - assert (cfg_eqb g g = true) as -> by (apply cfg_eqb_eq; reflexivity). reflexivity.
  - apply orb_true_iff. right. cbn [start add_start].
    assert (cfg_eqb (add_start g s') (add_start g s') = true) as -> by (apply cfg_eqb_eq; reflexivity).
    rewrite andb_true_r. apply negb_true_iff.
    destruct (existsb (N.eqb s') (nts g)) eqn:Ex; [|reflexivity].
    apply existsb_exists in Ex as (x & Hx & Ex). apply N.eqb_eq in Ex. subst x. contradiction.
Qed.
