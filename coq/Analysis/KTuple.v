(** * C32: the packed k-tuple representation behaves like a sequence

    Theorems about the faithful model in [KTupleModel.v] of
    crates/parol/src/analysis/k_tuple.rs.  *)
From Coq Require Import List PeanoNat NArith Bool Lia.
From Parol Require Import Analysis.KTupleModel Analysis.KTupleBits.
Import ListNotations.
Local Open Scope N_scope.

(** ** Constants and the three fields of the 128-bit word *)
Lemma NEXT_MASK_eq : NEXT_MASK = N.shiftl (N.ones 4) 120. Proof. reflexivity. Qed.
Lemma BITS_MASK_eq : BITS_MASK = N.shiftl (N.ones 4) 124. Proof. reflexivity. Qed.
Lemma NEXT_CLEAR_eq : NEXT_CLEAR = N.lor (N.ones 120) (N.shiftl (N.ones 4) 124).
Proof. reflexivity. Qed.
Lemma BITS_CLEAR_eq : BITS_CLEAR = N.ones 124. Proof. reflexivity. Qed.
Lemma MAX_BITS_eq : MAX_BITS = 12. Proof. reflexivity. Qed.
Lemma p124 : 2 ^ 124 = 16 * 2 ^ 120. Proof. reflexivity. Qed.
Lemma p128 : 2 ^ 128 = 256 * 2 ^ 120. Proof. reflexivity. Qed.
Lemma p128' : 2 ^ 128 = 16 * 2 ^ 124. Proof. reflexivity. Qed.
Lemma p4 : 2 ^ 4 = 16. Proof. reflexivity. Qed.

Lemma next_index_spec p : next_index p = (t p / 2 ^ 120) mod 2 ^ 4.
Proof. unfold next_index. rewrite NEXT_MASK_eq. apply field_extract. Qed.

Lemma bits_spec p : bits p = (t p / 2 ^ 124) mod 2 ^ 4.
Proof. unfold bits. rewrite BITS_MASK_eq. apply field_extract. Qed.

(** payload [P], length field [n], width field [b] *)
Definition mk3 (P n b : N) : N := P + n * 2 ^ 120 + b * 2 ^ 124.

Lemma mk3_alt P n b : mk3 P n b = P + (n + 16 * b) * 2 ^ 120.
Proof. unfold mk3. rewrite p124. lia. Qed.

Lemma mk3_alt' P n b : mk3 P n b = (P + n * 2 ^ 120) + b * 2 ^ 124.
Proof. reflexivity. Qed.

Lemma mk3_lt P n b : P < 2 ^ 120 -> n < 16 -> b < 16 -> mk3 P n b < 2 ^ 128.
Proof. intros HP Hn Hb. unfold mk3. rewrite p128, p124. lia. Qed.

Lemma mid_lt P n : P < 2 ^ 120 -> n < 16 -> P + n * 2 ^ 120 < 2 ^ 124.
Proof. intros HP Hn. rewrite p124. lia. Qed.

Lemma next_index_mk3 P n b :
  P < 2 ^ 120 -> n < 16 -> next_index (Packed (mk3 P n b)) = n.
Proof.
  intros HP Hn. rewrite next_index_spec. cbn [t]. rewrite mk3_alt, div_add_pow by assumption.
  rewrite p4, (N.mul_comm 16), N.mod_add by discriminate. apply N.mod_small; assumption.
Qed.

Lemma bits_mk3 P n b :
  P < 2 ^ 120 -> n < 16 -> b < 16 -> bits (Packed (mk3 P n b)) = b.
Proof.
  intros HP Hn Hb. rewrite bits_spec. cbn [t].
  rewrite mk3_alt', div_add_pow by (apply mid_lt; assumption).
  rewrite p4. apply N.mod_small; assumption.
Qed.

Lemma mk3_mod P n b : P < 2 ^ 120 -> mk3 P n b mod 2 ^ 120 = P.
Proof. intro HP. rewrite mk3_alt. apply mod_add_pow; assumption. Qed.

Lemma mk3_decompose x :
  x < 2 ^ 128 -> x = mk3 (x mod 2 ^ 120) ((x / 2 ^ 120) mod 16) (x / 2 ^ 124).
Proof.
  intro Hx. rewrite mk3_alt.
  assert (H1 : x / 2 ^ 124 = (x / 2 ^ 120) / 16).
  { rewrite p124, (N.mul_comm 16), <- N.div_div by (try apply pow2_nz; discriminate).
    reflexivity. }
  rewrite H1.
  assert (H2 : (x / 2 ^ 120) mod 16 + 16 * (x / 2 ^ 120 / 16) = x / 2 ^ 120).
  { rewrite N.add_comm. symmetry. apply N.div_mod'. }
  rewrite H2. apply split_at.
Qed.

Lemma shl_trunc_small x k : x * 2 ^ k < 2 ^ 128 -> shl_trunc x k = x * 2 ^ k.
Proof.
  intro H. unfold shl_trunc, trunc128, U128_MAX. rewrite N.shiftl_mul_pow2.
  apply lt_pow2_land; assumption.
Qed.

Lemma land_field4 x k : N.land x (N.shiftl (N.ones 4) k) = N.shiftl ((x / 2 ^ k) mod 2 ^ 4) k.
Proof. rewrite land_shiftl_mask, N.land_ones, N.shiftr_div_pow2. reflexivity. Qed.

Lemma set_next_index_mk3 P n b i :
  P < 2 ^ 120 -> n < 16 -> b < 16 -> i < 16 ->
  set_next_index (Packed (mk3 P n b)) i = Packed (mk3 P i b).
Proof.
  intros HP Hn Hb Hi. unfold set_next_index. cbn [t]. f_equal.
  rewrite NEXT_CLEAR_eq, N.land_lor_distr_r, N.land_ones, mk3_mod by assumption.
  rewrite land_field4. rewrite mk3_alt' at 1.
  rewrite div_add_pow by (apply mid_lt; assumption).
  rewrite p4, (N.mod_small b 16) by assumption.
  rewrite shl_trunc_small by (rewrite p128; lia).
  rewrite <- (N.shiftl_mul_pow2 i 120).
  rewrite <- N.lor_assoc, (N.lor_comm (N.shiftl b 124)), N.lor_assoc.
  rewrite (lor_shiftl_add P i 120) by assumption.
  rewrite lor_shiftl_add by (apply mid_lt; assumption). reflexivity.
Qed.

Lemma set_bits_raw_mk3 P n b b' :
  P < 2 ^ 120 -> n < 16 -> b < 16 -> b' < 16 ->
  N.lor (N.land (mk3 P n b) BITS_CLEAR) (shl_trunc b' 124) = mk3 P n b'.
Proof.
  intros HP Hn Hb Hb'. rewrite BITS_CLEAR_eq, N.land_ones.
  rewrite mk3_alt', mod_add_pow by (apply mid_lt; assumption).
  rewrite shl_trunc_small by (rewrite p128'; lia).
  rewrite <- (N.shiftl_mul_pow2 b' 124).
  rewrite lor_shiftl_add by (apply mid_lt; assumption). reflexivity.
Qed.

Lemma dassert_true dbg : dassert dbg true = Ok tt.
Proof. unfold dassert. rewrite andb_false_r. reflexivity. Qed.

Lemma set_bits_mk3 dbg P n b b' :
  P < 2 ^ 120 -> n < 16 -> b < 16 -> 1 <= b' < 16 ->
  set_bits dbg (Packed (mk3 P n b)) b' = Ok (Packed (mk3 P n b')).
Proof.
  intros HP Hn Hb Hb'. unfold set_bits. cbn [t].
  rewrite set_bits_raw_mk3 by (try assumption; lia).
  rewrite bits_mk3 by (try assumption; lia).
  destruct (N.eqb_spec b' 0) as [E|E]; [lia|]. cbn [negb]. rewrite dassert_true. reflexivity.
Qed.

Lemma mask_bits p : bits p <= 128 -> mask p = N.ones (bits p).
Proof.
  intro H. unfold mask, not128, shl_trunc, trunc128, U128_MAX. apply not_shl_ones; assumption.
Qed.

(** payload operations do not touch the two metadata fields *)
Lemma mk3_lor P n b q : P < 2 ^ 120 -> q < 2 ^ 120 ->
  N.lor (mk3 P n b) q = mk3 (N.lor P q) n b.
Proof. intros HP Hq. rewrite !mk3_alt. apply lor_low; assumption. Qed.

Lemma mk3_land P n b q : P < 2 ^ 120 -> q < 2 ^ 120 ->
  N.land (mk3 P n b) q = N.land P q.
Proof. intros HP Hq. rewrite !mk3_alt. apply land_low; assumption. Qed.

Lemma mk3_land_not P n b q : P < 2 ^ 120 -> n < 16 -> b < 16 -> q < 2 ^ 120 ->
  N.land (mk3 P n b) (not128 q) = mk3 (N.ldiff P q) n b.
Proof.
  intros HP Hn Hb Hq. unfold not128, U128_MAX.
  rewrite land_not_ldiff by (apply mk3_lt; assumption).
  rewrite !mk3_alt. apply ldiff_low; assumption.
Qed.

(** ** The canonical packed form of a digit list *)
Definition tpack (b : N) (l : list N) : N := mk3 (pay b l) (lenN l) b.
Definition pk (b : N) (l : list N) : packed := Packed (tpack b l).

Definition okbl (b : N) (l : list N) : Prop :=
  1 <= b <= 12 /\ (length l <= 10)%nat /\ small b l.

Lemma okbl_len b l : okbl b l -> lenN l <= 10.
Proof. intros (_ & H & _). unfold lenN. lia. Qed.

Lemma okbl_span b l : okbl b l -> lenN l * b <= 120.
Proof. intros H. pose proof (okbl_len b l H). destruct H as (Hb & _ & _). nia. Qed.

Lemma okbl_pay_lt b l : okbl b l -> pay b l < 2 ^ 120.
Proof.
  intro H. pose proof (okbl_span b l H) as Hs. destruct H as (_ & _ & Hsm).
  eapply N.lt_le_trans; [apply pay_lt; assumption|].
  apply N.pow_le_mono_r; [discriminate | assumption].
Qed.

Lemma okbl_b16 b l : okbl b l -> b < 16.
Proof. intros ((H1 & H2) & _). lia. Qed.

Lemma okbl_n16 b l : okbl b l -> lenN l < 16.
Proof. intro H. pose proof (okbl_len b l H). lia. Qed.

Lemma bits_pk b l : okbl b l -> bits (pk b l) = b.
Proof.
  intro H. apply bits_mk3; [apply okbl_pay_lt | apply (okbl_n16 b l) | apply (okbl_b16 b l)];
    assumption.
Qed.

Lemma next_index_pk b l : okbl b l -> next_index (pk b l) = lenN l.
Proof.
  intro H. apply next_index_mk3; [apply okbl_pay_lt | apply (okbl_n16 b l)]; assumption.
Qed.

Lemma len_pk b l : okbl b l -> len (pk b l) = lenN l.
Proof. apply next_index_pk. Qed.

Lemma mask_pk b l : okbl b l -> mask (pk b l) = N.ones b.
Proof.
  intro H. rewrite mask_bits; rewrite bits_pk by assumption; [reflexivity|].
  pose proof (okbl_b16 b l H). lia.
Qed.

Lemma tpack_lt b l : okbl b l -> tpack b l < 2 ^ 128.
Proof.
  intro H. apply mk3_lt; [apply okbl_pay_lt | apply (okbl_n16 b l) | apply (okbl_b16 b l)];
    assumption.
Qed.

(** the whole word as "digits [l], then the rest" *)
Lemma tpack_payH b l : okbl b l ->
  tpack b l = payH b l ((lenN l + 16 * b) * 2 ^ (120 - lenN l * b)).
Proof.
  intro H. pose proof (okbl_span b l H) as Hs.
  unfold tpack. rewrite mk3_alt, payH_pay. f_equal.
  rewrite <- N.mul_assoc, <- N.pow_add_r. f_equal. f_equal. lia.
Qed.

Lemma slots_pk b l : okbl b l -> slots (pk b l) = l.
Proof.
  intro H. unfold slots. rewrite bits_pk, next_index_pk by assumption.
  unfold lenN. rewrite Nnat.Nat2N.id. unfold pk. cbn [t].
  rewrite tpack_payH by assumption. apply map_digit_payH. apply H.
Qed.

Lemma wfb_pk b l : okbl b l -> wfb (pk b l) = true.
Proof.
  intro H. unfold wfb. rewrite bits_pk, next_index_pk by assumption.
  unfold pk. cbn [t].
  pose proof (tpack_lt b l H) as H1. pose proof (okbl_len b l H) as H2.
  pose proof (okbl_pay_lt b l H) as H3.
  destruct H as (Hb & Hl & Hs).
  rewrite MAX_BITS_eq. unfold MAX_K.
  repeat (apply andb_true_intro; split).
  - apply N.ltb_lt; assumption.
  - apply N.leb_le; lia.
  - apply N.leb_le; lia.
  - apply N.leb_le; assumption.
  - apply N.eqb_eq. rewrite N.land_ones. unfold tpack.
    rewrite mk3_mod by assumption.
    rewrite N.shiftr_div_pow2. apply N.div_small. apply pay_lt; assumption.
Qed.

Definition wf (p : packed) : Prop := wfb p = true.

Lemma denote_pk b l : okbl b l -> denote (pk b l) = Some (map (decode (N.ones b)) l).
Proof.
  intro H. unfold denote. rewrite wfb_pk, slots_pk, bits_pk by assumption. reflexivity.
Qed.

Lemma packed_eta p : p = Packed (t p).
Proof. destruct p; reflexivity. Qed.

(** every well-formed word is the canonical form of its slots *)
Lemma wf_repr p : wf p -> okbl (bits p) (slots p) /\ p = pk (bits p) (slots p).
Proof.
  unfold wf, wfb. intro H.
  apply andb_prop in H. destruct H as [H H5].
  apply andb_prop in H. destruct H as [H H4].
  apply andb_prop in H. destruct H as [H H3].
  apply andb_prop in H. destruct H as [H1 H2].
  apply N.ltb_lt in H1. apply N.leb_le in H2. apply N.leb_le in H3. apply N.leb_le in H4.
  apply N.eqb_eq in H5. rewrite MAX_BITS_eq in H3. unfold MAX_K in H4.
  set (b := bits p) in *. set (n := next_index p) in *.
  assert (Hb : b = t p / 2 ^ 124).
  { unfold b. rewrite bits_spec, p4. apply N.mod_small.
    apply N.div_lt_upper_bound; [apply pow2_nz|]. rewrite N.mul_comm, <- p128'. assumption. }
  assert (Hn : n = (t p / 2 ^ 120) mod 16).
  { unfold n. rewrite next_index_spec, p4. reflexivity. }
  set (lo := t p mod 2 ^ 120).
  assert (Hlo : lo < 2 ^ (n * b)).
  { rewrite N.land_ones, N.shiftr_div_pow2 in H5. fold lo in H5.
    apply N.div_small_iff in H5; [assumption | apply pow2_nz]. }
  set (l := map (fun i => digit b lo (N.of_nat i)) (seq 0 (N.to_nat n))).
  assert (Hlen : length l = N.to_nat n).
  { unfold l. rewrite map_length, seq_length. reflexivity. }
  assert (HlenN : lenN l = n).
  { unfold lenN. rewrite Hlen. apply Nnat.N2Nat.id. }
  assert (Hok : okbl b l).
  { repeat split; try assumption; try lia.
    unfold l. apply Forall_forall. intros d Hd. apply in_map_iff in Hd.
    destruct Hd as (i & <- & _). apply digit_lt. }
  assert (Hpay : pay b l = lo).
  { unfold l. apply pay_digits. rewrite Nnat.N2Nat.id. assumption. }
  assert (Ht : t p = tpack b l).
  { unfold tpack. rewrite Hpay, HlenN, Hb, Hn. apply mk3_decompose; assumption. }
  assert (Hs : slots p = l).
  { rewrite (packed_eta p), Ht. fold (pk b l).
    rewrite <- (slots_pk b l Hok) at 2. unfold slots.
    rewrite bits_pk, next_index_pk by assumption. reflexivity. }
  rewrite Hs. split; [assumption|]. rewrite (packed_eta p) at 1. rewrite Ht. reflexivity.
Qed.

Lemma wf_pk b l : okbl b l -> wf (pk b l).
Proof. apply wfb_pk. Qed.

Lemma denote_wf p L : denote p = Some L -> wf p.
Proof. unfold denote, wf. destruct (wfb p); [reflexivity | discriminate]. Qed.

Lemma wf_denote p : wf p -> exists L, denote p = Some L.
Proof. unfold denote, wf. intros ->. eexists; reflexivity. Qed.

Lemma Some_inj {A} (a b : A) : Some a = Some b -> a = b.
Proof. intro H. injection H as H. exact H. Qed.

Lemma denote_eq p : wf p -> denote p = Some (map (decode (N.ones (bits p))) (slots p)).
Proof. unfold denote, wf. intros ->. reflexivity. Qed.

Lemma denote_repr p L :
  denote p = Some L ->
  exists l, okbl (bits p) l /\ p = pk (bits p) l /\ L = map (decode (N.ones (bits p))) l.
Proof.
  intro H. pose proof (denote_wf p L H) as Hw.
  destruct (wf_repr p Hw) as [Hok Hp]. exists (slots p).
  split; [assumption|]. split; [assumption|].
  rewrite (denote_eq p Hw) in H. apply Some_inj in H. symmetry. exact H.
Qed.

(** ** Abstract sequence operations (generic in the element type) *)
Fixpoint olast {A : Type} (l : list A) : option A :=
  match l with
  | [] => None
  | x :: r => match r with [] => Some x | _ :: _ => olast r end
  end.

Lemma olast_app {A} (l : list A) x : olast (l ++ [x]) = Some x.
Proof.
  induction l as [|y r IH]; [reflexivity|].
  cbn [app olast]. destruct (r ++ [x]) eqn:E; [destruct r; discriminate | exact IH].
Qed.

Lemma olast_nth {A} (l : list A) : olast l = nth_error l (length l - 1).
Proof.
  induction l as [|y r IH]; [reflexivity|].
  cbn [olast length]. destruct r as [|z r']; [reflexivity|].
  rewrite IH. cbn [length]. replace (S (S (length r')) - 1)%nat with (S (length r')) by lia.
  cbn [nth_error]. replace (S (length r') - 1)%nat with (length r') by lia. reflexivity.
Qed.

Lemma olast_map {A B} (f : A -> B) l : olast (map f l) = option_map f (olast l).
Proof.
  induction l as [|y r IH]; [reflexivity|].
  cbn [map olast]. destruct r as [|z r']; [reflexivity|]. exact IH.
Qed.

Definition is_nil {A : Type} (l : list A) : bool := match l with [] => true | _ => false end.

Section Generic.
  Context {A : Type} (isE isD : A -> bool).   (* "is epsilon", "is end of input" *)

  Definition g_is_eps (l : list A) : bool := match l with [x] => isE x | _ => false end.
  Definition g_last_end (l : list A) : bool :=
    match olast l with Some x => isD x | None => false end.
  Definition g_complete (k : N) (l : list A) : bool :=
    negb (g_is_eps l) && ((k <=? lenN l) || g_last_end l).
  (** [None] = the Rust [Err] (10 elements already) *)
  Definition g_push (l : list A) (x : A) : option (list A) :=
    if MAX_K <=? lenN l then None
    else if g_last_end l then Some l else Some (l ++ [x]).
  Fixpoint g_extend (l : list A) (xs : list A) : list A :=
    match xs with
    | [] => l
    | x :: r => g_extend (match g_push l x with Some l' => l' | None => l end) r
    end.
  Definition g_of (k : N) (l : list A) : list A := firstn (N.to_nat (N.min (lenN l) k)) l.
  (** k-concatenation exactly as the code performs it *)
  Definition g_concat (k : N) (l1 l2 : list A) : list A :=
    if g_is_eps l2 || is_nil l2 then l1
    else
      let l1' := if g_is_eps l1 then [] else l1 in
      if g_complete k l1' then l1'
      else l1' ++ firstn (N.to_nat (N.min (k - N.min (lenN l1') k) (N.min (lenN l2) k))) l2.
End Generic.

Section GenericMap.
  Context {A B : Type} (f : A -> B) (isE isD : A -> bool) (isE' isD' : B -> bool).
  Hypothesis HE : forall x, isE' (f x) = isE x.
  Hypothesis HD : forall x, isD' (f x) = isD x.

  Lemma lenN_map (l : list A) : lenN (map f l) = lenN l.
  Proof. unfold lenN. rewrite map_length. reflexivity. Qed.

  Lemma g_is_eps_map l : g_is_eps isE' (map f l) = g_is_eps isE l.
  Proof. destruct l as [|x [|y r]]; cbn [map g_is_eps]; auto. Qed.

  Lemma g_last_end_map l : g_last_end isD' (map f l) = g_last_end isD l.
  Proof. unfold g_last_end. rewrite olast_map. destruct (olast l); cbn [option_map]; auto. Qed.

  Lemma g_complete_map k l : g_complete isE' isD' k (map f l) = g_complete isE isD k l.
  Proof. unfold g_complete. rewrite g_is_eps_map, g_last_end_map, lenN_map. reflexivity. Qed.

  Lemma g_push_map l x :
    g_push isD' (map f l) (f x) = option_map (map f) (g_push isD l x).
  Proof.
    unfold g_push. rewrite lenN_map, g_last_end_map.
    destruct (MAX_K <=? lenN l); [reflexivity|].
    destruct (g_last_end isD l); cbn [option_map]; [reflexivity|].
    rewrite map_app. reflexivity.
  Qed.

  Lemma g_extend_map xs : forall l,
    g_extend isD' (map f l) (map f xs) = map f (g_extend isD l xs).
  Proof.
    induction xs as [|x r IH]; intro l; [reflexivity|].
    cbn [map g_extend]. rewrite g_push_map.
    destruct (g_push isD l x) as [l'|]; cbn [option_map]; apply IH.
  Qed.

  Lemma g_of_map k l : g_of k (map f l) = map f (g_of k l).
  Proof. unfold g_of. rewrite lenN_map, firstn_map. reflexivity. Qed.

  Lemma g_concat_map k l1 l2 :
    g_concat isE' isD' k (map f l1) (map f l2) = map f (g_concat isE isD k l1 l2).
  Proof.
    unfold g_concat. rewrite !g_is_eps_map.
    replace (is_nil (map f l2)) with (is_nil l2) by (destruct l2; reflexivity).
    destruct (g_is_eps isE l2 || is_nil l2); [reflexivity|].
    destruct (g_is_eps isE l1).
    - change (@nil B) with (map f []). rewrite g_complete_map.
      destruct (g_complete isE isD k []); [reflexivity|].
      rewrite !lenN_map, map_app, firstn_map. reflexivity.
    - rewrite g_complete_map.
      destruct (g_complete isE isD k l1); [reflexivity|].
      rewrite !lenN_map, map_app, firstn_map. reflexivity.
  Qed.
End GenericMap.

(** the two instances: terms and raw slot values *)
Definition t_isE (x : term) : bool := match x with Eps => true | _ => false end.
Definition t_isD (x : term) : bool := match x with End => true | _ => false end.
Definition d_isE (mk d : N) : bool := d =? mk.
Definition d_isD (d : N) : bool := d =? 0.

Definition a_is_eps := g_is_eps t_isE.
Definition a_last_end := g_last_end t_isD.
Definition a_complete := g_complete t_isE t_isD.
Definition a_push := g_push t_isD.
Definition a_extend := g_extend t_isD.
Definition a_of := @g_of term.
Definition a_concat := g_concat t_isE t_isD.

Lemma decode_isE mk d : t_isE (decode mk d) = d_isE mk d.
Proof.
  unfold decode, d_isE. destruct (d =? mk); [reflexivity|]. destruct (d =? 0); reflexivity.
Qed.

Lemma decode_isD mk d : mk <> 0 -> t_isD (decode mk d) = d_isD d.
Proof.
  intro H. unfold decode, d_isD. destruct (N.eqb_spec d mk) as [E|E].
  - subst d. destruct (N.eqb_spec mk 0); [contradiction | reflexivity].
  - destruct (d =? 0); reflexivity.
Qed.

Lemma decode_inj mk d1 d2 : mk <> 0 -> decode mk d1 = decode mk d2 -> d1 = d2.
Proof.
  intro H. unfold decode.
  destruct (N.eqb_spec d1 mk) as [E1|E1]; destruct (N.eqb_spec d2 mk) as [E2|E2];
  destruct (N.eqb_spec d1 0) as [Z1|Z1]; destruct (N.eqb_spec d2 0) as [Z2|Z2];
    intro Hd; try discriminate; try congruence.
Qed.

Lemma map_decode_inj mk l1 l2 :
  mk <> 0 -> map (decode mk) l1 = map (decode mk) l2 -> l1 = l2.
Proof.
  intro H. revert l2. induction l1 as [|d r IH]; intros [|e s] Hm; try discriminate.
  - reflexivity.
  - cbn [map] in Hm. injection Hm as H1 H2. f_equal; [eapply decode_inj; eassumption | auto].
Qed.

Lemma ones_pos b : 1 <= b -> N.ones b <> 0.
Proof.
  intro H. rewrite N.ones_equiv. pose proof (N.pow_le_mono_r 2 1 b). rewrite N.pow_1_r in H0.
  pose proof (pow2_pos b). lia.
Qed.

Lemma ones_lt b : N.ones b < 2 ^ b.
Proof. rewrite N.ones_equiv. pose proof (pow2_pos b). lia. Qed.

(** what [get]/[iter]/[last] report for a slot value *)
Definition to16 (b d : N) : N := if d =? N.ones b then EPS else d.

Lemma to16_enc16 b d : to16 b d = enc16 (decode (N.ones b) d).
Proof.
  unfold to16, decode. destruct (d =? N.ones b); [reflexivity|].
  destruct (N.eqb_spec d 0) as [E|E]; [subst; reflexivity | reflexivity].
Qed.

Lemma to16_zero b d : 1 <= b -> (to16 b d =? EOI) = d_isD d.
Proof.
  intro H. unfold to16, d_isD, EOI. destruct (N.eqb_spec d (N.ones b)) as [E|E]; [|reflexivity].
  subst d. pose proof (ones_pos b H). destruct (N.eqb_spec (N.ones b) 0); [contradiction|].
  reflexivity.
Qed.

Lemma pow_le_16 b : b <= 12 -> 2 ^ b <= 2 ^ 16.
Proof. intro H. apply N.pow_le_mono_r; [discriminate | lia]. Qed.

Lemma to16_u16 b d : b <= 12 -> d < 2 ^ b ->
  N.land (if d =? N.ones b then EPS else d) U16_MAX = to16 b d.
Proof.
  intros Hb Hd. unfold to16. destruct (d =? N.ones b); [reflexivity|].
  change U16_MAX with (N.ones 16). apply lt_pow2_land.
  pose proof (pow_le_16 b Hb). lia.
Qed.

(** ** The accessors on canonical forms *)
Lemma ltb_true a b : a < b -> (a <? b) = true.
Proof. intro H. apply N.ltb_lt; assumption. Qed.
Lemma ltb_false a b : b <= a -> (a <? b) = false.
Proof. intro H. apply N.ltb_ge; assumption. Qed.
Lemma leb_true a b : a <= b -> (a <=? b) = true.
Proof. intro H. apply N.leb_le; assumption. Qed.
Lemma leb_false a b : b < a -> (a <=? b) = false.
Proof. intro H. apply N.leb_gt; assumption. Qed.

Lemma digit_pk b l i d : okbl b l -> nth_error l i = Some d ->
  N.land (N.shiftr (tpack b l) (N.of_nat i * b)) (N.ones b) = d.
Proof.
  intros H Hn. rewrite tpack_payH by assumption.
  apply (digit_payH b l _ i d); [apply H | assumption].
Qed.

Lemma get_pk b l i : okbl b l ->
  get (pk b l) i = Ok (option_map (to16 b) (nth_error l (N.to_nat i))).
Proof.
  intro H. unfold get. rewrite next_index_pk, bits_pk, mask_pk by assumption.
  pose proof (okbl_len b l H) as Hl. pose proof H as (Hb & _ & Hs).
  destruct (N.ltb_spec i (lenN l)) as [Hi|Hi].
  - unfold shr128. rewrite ltb_true by nia. cbn [bind].
    destruct (nth_error l (N.to_nat i)) as [d|] eqn:En.
    + cbn [option_map pk t].
      assert (Hd : N.land (N.shiftr (tpack b l) (i * b)) (N.ones b) = d).
      { rewrite <- (Nnat.N2Nat.id i). apply digit_pk; assumption. }
      cbv zeta. rewrite Hd.
      rewrite to16_u16; [reflexivity | lia |].
      apply nth_error_In in En. unfold small in Hs. rewrite Forall_forall in Hs. auto.
    + apply nth_error_None in En. unfold lenN in Hi. lia.
  - assert (En : nth_error l (N.to_nat i) = None).
    { apply nth_error_None. unfold lenN in Hi. lia. }
    rewrite En. reflexivity.
Qed.

Lemma lenN_0 {A} (l : list A) : lenN l = 0 -> l = [].
Proof. destruct l; [reflexivity|]. rewrite lenN_cons. lia. Qed.

Lemma last_pk b l : okbl b l -> last (pk b l) = Ok (option_map (to16 b) (olast l)).
Proof.
  intro H. unfold last, is_empty. rewrite next_index_pk by assumption.
  destruct (N.eqb_spec (lenN l) 0) as [E|E].
  - apply lenN_0 in E. subst l. reflexivity.
  - rewrite get_pk by assumption. rewrite olast_nth. unfold lenN.
    replace (N.to_nat (N.of_nat (length l) - 1)) with (length l - 1)%nat by lia. reflexivity.
Qed.

Lemma is_eps_pk b l : okbl b l -> is_eps (pk b l) = g_is_eps (d_isE (N.ones b)) l.
Proof.
  intro H. unfold is_eps. rewrite next_index_pk, mask_pk by assumption.
  destruct l as [|d [|e r]].
  - reflexivity.
  - change (lenN [d]) with 1. cbn [N.eqb Pos.eqb negb g_is_eps pk t].
    pose proof (digit_pk b [d] 0 d H eq_refl) as Hd.
    cbn [N.of_nat] in Hd. rewrite N.mul_0_l, N.shiftr_0_r in Hd. rewrite Hd. reflexivity.
  - rewrite !lenN_cons. cbn [g_is_eps].
    destruct (N.eqb_spec (lenN r + 1 + 1) 1); [lia | reflexivity].
Qed.

Lemma is_k_complete_pk b l k : okbl b l ->
  is_k_complete (pk b l) k = Ok (g_complete (d_isE (N.ones b)) d_isD k l).
Proof.
  intro H. unfold is_k_complete, g_complete.
  rewrite is_eps_pk, len_pk, last_pk by assumption.
  destruct (g_is_eps (d_isE (N.ones b)) l); [reflexivity|]. cbn [negb andb].
  destruct (k <=? lenN l); [reflexivity|]. cbn [orb bind].
  unfold g_last_end. destruct (olast l) as [d|]; cbn [option_map]; [|reflexivity].
  rewrite to16_zero by apply H. reflexivity.
Qed.

Lemma k_len_pk b l k : okbl b l -> k_len (pk b l) k = N.min (lenN l) k.
Proof. intro H. unfold k_len. rewrite len_pk by assumption. reflexivity. Qed.

Lemma okbl_nil b : 1 <= b <= 12 -> okbl b [].
Proof.
  intro H. split; [exact H|]. split; [cbn [length]; lia | constructor].
Qed.

Lemma Packed0 : Packed 0 = Packed (mk3 0 0 0).
Proof. reflexivity. Qed.

Lemma pk_nil b : pk b [] = Packed (mk3 0 0 b).
Proof. reflexivity. Qed.

Lemma set_bits_fresh dbg b : 1 <= b <= 12 -> set_bits dbg (Packed 0) b = Ok (pk b []).
Proof.
  intro H. rewrite Packed0, pk_nil. apply set_bits_mk3; try lia; apply pow2_pos.
Qed.

Lemma clear_pk dbg b l : okbl b l -> clear dbg (pk b l) = Ok (pk b []).
Proof.
  intro H. unfold clear. rewrite bits_pk by assumption.
  rewrite set_bits_fresh by apply H. cbn [bind].
  rewrite bits_pk by (apply okbl_nil; apply H).
  destruct (N.eqb_spec b 0) as [E|E]; [destruct H as ((H1 & _) & _); lia|].
  cbn [negb]. rewrite dassert_true. reflexivity.
Qed.

(** ** [new], and why epsilon can never collide with a terminal *)
Lemma new_ok dbg m : m <= 4094 -> new dbg m = Ok (pk (N.log2 (m + 1) + 1) []).
Proof.
  intro H. unfold new, USIZE_LIMIT.
  rewrite leb_false by (change (2 ^ 64) with 18446744073709551616; lia).
  assert (Hlog : N.log2 (m + 1) < 12).
  { apply N.log2_lt_pow2; [lia|]. change (2 ^ 12) with 4096. lia. }
  rewrite MAX_BITS_eq, ltb_false by lia. apply set_bits_fresh. lia.
Qed.

Lemma new_panics dbg m : 4095 <= m -> new dbg m = Panic.
Proof.
  intro H. unfold new. destruct (USIZE_LIMIT <=? m + 1); [reflexivity|].
  assert (Hlog : 12 <= N.log2 (m + 1)).
  { apply N.log2_le_pow2; [lia|]. change (2 ^ 12) with 4096. lia. }
  rewrite MAX_BITS_eq, ltb_true by lia. reflexivity.
Qed.

Lemma new_bits_bound m : m + 1 < 2 ^ (N.log2 (m + 1) + 1) /\ 2 ^ N.log2 (m + 1) <= m + 1.
Proof.
  assert (H0 : 0 < m + 1) by lia.
  pose proof (N.log2_spec (m + 1) H0) as [H1 H2]. rewrite <- N.add_1_r in H2.
  split; assumption.
Qed.

(** ** Writing a slot at the end: [set], [inc_index], [push], [eps], [end], [extend] *)
Lemma shl128_ok x n : n < 128 -> shl128 x n = Ok (shl_trunc x n).
Proof. intro H. unfold shl128. rewrite ltb_true by assumption. reflexivity. Qed.

Lemma slot_lt b n v : v < 2 ^ b -> (n + 1) * b <= 120 -> v * 2 ^ (n * b) < 2 ^ 120.
Proof.
  intros Hv Hn. apply N.lt_le_trans with (2 ^ b * 2 ^ (n * b)).
  - apply N.mul_lt_mono_pos_r; [apply pow2_pos | assumption].
  - rewrite <- N.pow_add_r. apply N.pow_le_mono_r; [discriminate | lia].
Qed.

Lemma lt120_128 x : x < 2 ^ 120 -> x < 2 ^ 128.
Proof. intro H. rewrite p128. lia. Qed.

Lemma pay_single b d : pay b [d] = d.
Proof. unfold pay. cbn [payH]. lia. Qed.

Lemma land_ones_lt tm b : N.land tm (N.ones b) < 2 ^ b.
Proof. rewrite N.land_comm. apply land_lt_pow2, ones_lt. Qed.

Lemma ones_land_u16 b : b <= 12 -> N.land (N.ones b) U16_MAX = N.ones b.
Proof.
  intro H. change U16_MAX with (N.ones 16). apply lt_pow2_land.
  pose proof (ones_lt b). pose proof (pow_le_16 b H). lia.
Qed.

Lemma ones_le_4095 b : b <= 12 -> N.ones b <= 4095.
Proof.
  intro H. pose proof (ones_lt b). pose proof (N.pow_le_mono_r 2 b 12).
  change (2 ^ 12) with 4096 in *. lia.
Qed.

Definition tm_ok (b tm : N) : Prop := tm <= N.ones b \/ tm = EPS.

Lemma tm_ok_not_invalid b tm : b <= 12 -> tm_ok b tm -> (tm =? INVALID) = false.
Proof.
  intros Hb [H|H]; apply N.eqb_neq; unfold INVALID.
  - pose proof (ones_le_4095 b Hb). lia.
  - subst tm. discriminate.
Qed.

Lemma set_end_pk dbg b l tm :
  okbl b l -> lenN l < 10 -> tm_ok b tm ->
  set dbg (pk b l) (lenN l) tm =
  Ok (Packed (mk3 (pay b (l ++ [N.land tm (N.ones b)])) (lenN l) b)).
Proof.
  intros H Hl Htm. pose proof H as (Hb & _ & Hs).
  pose proof (okbl_pay_lt b l H) as HP. pose proof (okbl_n16 b l H) as Hn16.
  pose proof (okbl_b16 b l H) as Hb16.
  unfold set. rewrite mask_pk, bits_pk by assumption.
  rewrite ones_land_u16 by lia.
  assert (A1 : (tm <=? N.ones b) || (tm =? EPS) = true).
  { destruct Htm as [Ht|Ht].
    - rewrite leb_true by assumption. reflexivity.
    - subst tm. rewrite N.eqb_refl. apply orb_true_r. }
  rewrite A1, dassert_true. cbn [bind].
  rewrite (tm_ok_not_invalid b tm) by (try assumption; lia). cbn [negb].
  rewrite dassert_true. cbn [bind].
  assert (Hsp : (lenN l + 1) * b <= 120) by nia.
  rewrite !shl128_ok by nia. cbn [bind].
  set (d := N.land tm (N.ones b)).
  assert (Hd : d < 2 ^ b) by apply land_ones_lt.
  rewrite (shl_trunc_small d) by (apply lt120_128, slot_lt; assumption).
  rewrite (shl_trunc_small (N.ones b))
    by (apply lt120_128, slot_lt; [apply ones_lt | assumption]).
  cbn [pk t]. unfold tpack. f_equal. f_equal.
  rewrite mk3_land_not
    by first [assumption | apply slot_lt; [apply ones_lt | assumption]].
  rewrite <- (N.shiftl_mul_pow2 (N.ones b)).
  rewrite ldiff_shiftl_high by (apply pay_lt; assumption).
  rewrite mk3_lor by first [assumption | apply slot_lt; assumption].
  f_equal. rewrite <- (N.shiftl_mul_pow2 d).
  rewrite lor_shiftl_add by (apply pay_lt; assumption).
  rewrite pay_app, pay_single. reflexivity.
Qed.

Lemma inc_index_mk3 dbg P n b :
  P < 2 ^ 120 -> n < 10 -> b < 16 ->
  inc_index dbg (Packed (mk3 P n b)) = Ok (Packed (mk3 P (n + 1) b)).
Proof.
  intros HP Hn Hb. unfold inc_index. rewrite next_index_mk3 by (try assumption; lia).
  unfold MAX_K. rewrite leb_true by lia. rewrite dassert_true. cbn [bind]. f_equal.
  apply (set_next_index_mk3 P n b (n + 1)); try assumption; lia.
Qed.

Lemma okbl_snoc b l d : okbl b l -> lenN l < 10 -> d < 2 ^ b -> okbl b (l ++ [d]).
Proof.
  intros (Hb & Hl & Hs) Hn Hd. split; [assumption|]. split.
  - rewrite app_length. cbn [length]. unfold lenN in Hn. lia.
  - apply small_app; [assumption|]. constructor; [assumption | constructor].
Qed.

Lemma pk_snoc b l d n : n = lenN l + 1 -> Packed (mk3 (pay b (l ++ [d])) n b) = pk b (l ++ [d]).
Proof. intros ->. unfold pk, tpack. rewrite lenN_app. reflexivity. Qed.

Lemma push_body_pk dbg b l tm :
  okbl b l -> lenN l < 10 -> tm_ok b tm ->
  (do _ <- dassert dbg (negb (tm =? INVALID));
   do p1 <- set dbg (pk b l) (lenN l) tm;
   do p2 <- inc_index dbg p1;
   Ok (Some p2)) = Ok (Some (pk b (l ++ [N.land tm (N.ones b)]))).
Proof.
  intros H Hl Htm. pose proof H as (Hb & _ & _).
  rewrite (tm_ok_not_invalid b tm) by (try assumption; lia). cbn [negb].
  rewrite dassert_true. cbn [bind].
  rewrite set_end_pk by assumption. cbn [bind].
  assert (Hok : okbl b (l ++ [N.land tm (N.ones b)])).
  { apply okbl_snoc; try assumption. apply land_ones_lt. }
  rewrite inc_index_mk3;
    [| apply (okbl_pay_lt _ _ Hok) | assumption | apply (okbl_b16 b l H)].
  cbn [bind]. rewrite (pk_snoc b l _ (lenN l + 1)) by reflexivity. reflexivity.
Qed.

Lemma push_pk dbg b l tm :
  okbl b l -> tm_ok b tm ->
  push dbg (pk b l) tm = Ok (option_map (pk b) (g_push d_isD l (N.land tm (N.ones b)))).
Proof.
  intros H Htm. unfold push, g_push. rewrite next_index_pk by assumption.
  destruct (N.leb_spec MAX_K (lenN l)) as [Hl|Hl]; [reflexivity|]. unfold MAX_K in Hl.
  rewrite last_pk by assumption. cbn [bind]. unfold g_last_end.
  destruct (olast l) as [d|]; cbn [option_map].
  - pose proof (to16_zero b d ltac:(apply H)) as Hz. unfold EOI in Hz.
    destruct (to16 b d) as [|q] eqn:E.
    + rewrite <- Hz. reflexivity.
    + rewrite <- Hz. cbn [N.eqb option_map]. apply push_body_pk; assumption.
  - apply push_body_pk; assumption.
Qed.

Lemma g_push_okbl b l d l' :
  okbl b l -> d < 2 ^ b -> g_push d_isD l d = Some l' -> okbl b l'.
Proof.
  intros H Hd. unfold g_push, MAX_K.
  destruct (N.leb_spec 10 (lenN l)) as [Hl|Hl]; [discriminate|].
  destruct (g_last_end d_isD l); intro E; apply Some_inj in E; subst l'.
  - assumption.
  - apply okbl_snoc; assumption.
Qed.

Lemma extend_pk dbg b ts : forall l,
  okbl b l -> Forall (tm_ok b) ts ->
  extend dbg (pk b l) ts =
  Ok (pk b (g_extend d_isD l (map (fun tm => N.land tm (N.ones b)) ts))).
Proof.
  induction ts as [|x r IH]; intros l H Hts; [reflexivity|].
  inversion Hts as [|? ? Hx Hr]; subst.
  cbn [extend map g_extend]. rewrite push_pk by assumption. cbn [bind].
  destruct (g_push d_isD l (N.land x (N.ones b))) as [l'|] eqn:E; cbn [option_map].
  - apply IH; [|assumption]. eapply g_push_okbl; [exact H | apply land_ones_lt | exact E].
  - apply IH; assumption.
Qed.

Lemma land_eps b : b <= 12 -> N.land EPS (N.ones b) = N.ones b.
Proof. intro H. rewrite N.land_comm. apply (ones_land_u16 b H). Qed.

Lemma width_ok m : m <= 4094 -> 1 <= N.log2 (m + 1) + 1 <= 12.
Proof.
  intro H. assert (Hlog : N.log2 (m + 1) < 12).
  { apply N.log2_lt_pow2; [lia|]. change (2 ^ 12) with 4096. lia. }
  lia.
Qed.

Lemma eps_pk dbg m : m <= 4094 ->
  eps dbg m = Ok (pk (N.log2 (m + 1) + 1) [N.ones (N.log2 (m + 1) + 1)]).
Proof.
  intro H. pose proof (width_ok m H) as Hb. set (b := N.log2 (m + 1) + 1) in *.
  unfold eps. rewrite new_ok by assumption. fold b. cbn [bind].
  pose proof (okbl_nil b Hb) as Hnil.
  assert (Hset := set_end_pk dbg b [] EPS Hnil).
  change (lenN (@nil N)) with 0 in Hset.
  rewrite Hset; [| reflexivity | right; reflexivity].
  cbn [bind app]. rewrite land_eps by lia.
  assert (Hok : okbl b [N.ones b]).
  { apply (okbl_snoc b [] (N.ones b) Hnil); [reflexivity | apply ones_lt]. }
  rewrite set_next_index_mk3; try (reflexivity || lia).
  apply (okbl_pay_lt _ _ Hok).
Qed.

Lemma pay_zero b : pay b [0] = 0.
Proof. apply pay_single. Qed.

Lemma end_pk dbg m : m <= 4094 -> end_ dbg m = Ok (pk (N.log2 (m + 1) + 1) [0]).
Proof.
  intro H. pose proof (width_ok m H) as Hb. set (b := N.log2 (m + 1) + 1) in *.
  unfold end_. rewrite new_ok by assumption. fold b. cbn [bind].
  rewrite pk_nil. rewrite set_next_index_mk3 by first [lia | apply pow2_pos].
  unfold pk, tpack. rewrite pay_zero. reflexivity.
Qed.

(** ** [k_concat], [of], [iter], [cmp] on canonical forms *)
Lemma not_shl_ones128 s : s <= 128 -> not128 (shl_trunc U128_MAX s) = N.ones s.
Proof.
  intro H. unfold not128, shl_trunc, trunc128, U128_MAX. apply not_shl_ones; assumption.
Qed.

Lemma tpack_mod_firstn b l n : okbl b l -> (n <= length l)%nat ->
  N.land (tpack b l) (N.ones (N.of_nat n * b)) = pay b (firstn n l).
Proof.
  intros H Hn. rewrite N.land_ones, tpack_payH by assumption.
  apply payH_mod_firstn; [apply H | assumption].
Qed.

Lemma lenN_firstn {A} n (l : list A) : (n <= length l)%nat -> lenN (firstn n l) = N.of_nat n.
Proof. intro H. unfold lenN. rewrite firstn_length. f_equal. lia. Qed.

Lemma is_empty_pk b l : okbl b l -> is_empty (pk b l) = is_nil l.
Proof.
  intro H. unfold is_empty. rewrite next_index_pk by assumption.
  destruct l; [reflexivity|]. rewrite lenN_cons. cbn [is_nil]. apply N.eqb_neq. lia.
Qed.

Lemma okbl_app_firstn b l1 l2 n :
  okbl b l1 -> okbl b l2 -> (length l1 + n <= 10)%nat -> okbl b (l1 ++ firstn n l2).
Proof.
  intros (Hb & Hl1 & Hs1) (_ & Hl2 & Hs2) Hn. split; [assumption|]. split.
  - rewrite app_length, firstn_length. lia.
  - apply small_app; [assumption | apply small_firstn; assumption].
Qed.

(** the value OR-ed into [self] by [k_concat] *)
Lemma concat_value_pk b l1 l2 tt :
  okbl b l1 -> okbl b l2 -> tt <= lenN l2 -> lenN l1 + tt <= 10 ->
  N.land (t (pk b l2)) (N.ones (tt * b)) = pay b (firstn (N.to_nat tt) l2) /\
  pay b (firstn (N.to_nat tt) l2) * 2 ^ (lenN l1 * b) < 2 ^ 120.
Proof.
  intros H1 H2 Ht Hsum. pose proof H2 as (Hb & _ & Hs2).
  assert (Hn : (N.to_nat tt <= length l2)%nat) by (unfold lenN in Ht; lia).
  split.
  - cbn [pk t]. rewrite <- (Nnat.N2Nat.id tt) at 1. apply tpack_mod_firstn; assumption.
  - pose proof (pay_lt b (firstn (N.to_nat tt) l2) (small_firstn b _ _ Hs2)) as Hp.
    rewrite lenN_firstn, Nnat.N2Nat.id in Hp by assumption.
    apply N.lt_le_trans with (2 ^ (tt * b) * 2 ^ (lenN l1 * b)).
    + apply N.mul_lt_mono_pos_r; [apply pow2_pos | assumption].
    + rewrite <- N.pow_add_r. apply N.pow_le_mono_r; [discriminate | nia].
Qed.

Lemma g_is_eps_self1 {A} (isE : A -> bool) (l : list A) :
  g_is_eps isE (if g_is_eps isE l then [] else l) = false.
Proof. destruct (g_is_eps isE l) eqn:E; [reflexivity | exact E]. Qed.

Lemma k_concat_pk dbg b l1 l2 k :
  okbl b l1 -> okbl b l2 -> k <= 10 ->
  k_concat dbg (pk b l1) (pk b l2) k =
  Ok (pk b (g_concat (d_isE (N.ones b)) d_isD k l1 l2)).
Proof.
  intros H1 H2 Hk. pose proof H1 as (Hb & _ & _).
  unfold k_concat, g_concat.
  rewrite !bits_pk by assumption. rewrite N.eqb_refl, dassert_true. cbn [bind].
  destruct (N.eqb_spec b 0) as [E0|E0]; [lia|]. cbn [negb]. rewrite dassert_true. cbn [bind].
  rewrite (is_eps_pk b l2), (is_empty_pk b l2) by assumption.
  destruct (g_is_eps (d_isE (N.ones b)) l2 || is_nil l2) eqn:E2; [reflexivity|].
  apply orb_false_elim in E2. destruct E2 as [E2a E2b].
  rewrite (is_eps_pk b l1) by assumption.
  set (l1' := if g_is_eps (d_isE (N.ones b)) l1 then [] else l1).
  assert (Hself1 : (if g_is_eps (d_isE (N.ones b)) l1 then clear dbg (pk b l1) else Ok (pk b l1))
                   = Ok (pk b l1')).
  { unfold l1'. destruct (g_is_eps (d_isE (N.ones b)) l1);
      [apply clear_pk; assumption | reflexivity]. }
  rewrite Hself1. cbn [bind].
  assert (H1' : okbl b l1').
  { unfold l1'. destruct (g_is_eps (d_isE (N.ones b)) l1); [apply okbl_nil|]; assumption. }
  rewrite is_k_complete_pk by assumption. cbn [bind].
  destruct (g_complete (d_isE (N.ones b)) d_isD k l1') eqn:Ec; [reflexivity|].
  assert (Hlt : lenN l1' < k).
  { unfold g_complete in Ec. unfold l1' in Ec at 1. rewrite g_is_eps_self1 in Ec.
    cbn [negb andb] in Ec. apply orb_false_elim in Ec. destruct Ec as [Ec _].
    apply N.leb_gt in Ec. assumption. }
  rewrite !k_len_pk, bits_pk by assumption.
  rewrite (N.min_l (lenN l1') k) by lia.
  set (tt := N.min (k - lenN l1') (N.min (lenN l2) k)).
  assert (Hl2 : 1 <= lenN l2).
  { destruct l2; [discriminate|]. rewrite lenN_cons. lia. }
  assert (Htt : 1 <= tt /\ tt <= lenN l2 /\ lenN l1' + tt <= 10) by (unfold tt; lia).
  destruct Htt as (Htt1 & Htt2 & Htt3).
  destruct (N.eqb_spec tt 0) as [Ez|Ez]; [lia|].
  rewrite shl128_ok by nia. cbn [bind].
  rewrite not_shl_ones128 by nia.
  destruct (concat_value_pk b l1' l2 tt H1' H2 Htt2 Htt3) as [Hv Hvlt].
  rewrite Hv. rewrite shl128_ok by nia. cbn [bind].
  rewrite shl_trunc_small by (apply lt120_128; assumption).
  unfold MAX_K. rewrite leb_true by assumption. rewrite dassert_true. cbn [bind].
  cbn [pk t]. unfold tpack at 1.
  rewrite mk3_lor by (try assumption; apply okbl_pay_lt; assumption).
  rewrite <- (N.shiftl_mul_pow2 (pay b (firstn (N.to_nat tt) l2))).
  rewrite lor_shiftl_add by (apply pay_lt; apply H1').
  rewrite <- pay_app.
  assert (Hn : (N.to_nat tt <= length l2)%nat) by (unfold lenN in Htt2; lia).
  assert (Hok : okbl b (l1' ++ firstn (N.to_nat tt) l2)).
  { apply okbl_app_firstn; try assumption. unfold lenN in Htt3. lia. }
  pose proof (okbl_pay_lt _ _ Hok) as HP.
  pose proof (okbl_n16 _ _ H1') as Hn16. pose proof (okbl_b16 _ _ H1') as Hb16.
  rewrite set_next_index_mk3 by (try assumption; lia).
  rewrite set_bits_mk3 by (try assumption; lia).
  unfold pk, tpack. rewrite lenN_app, lenN_firstn, Nnat.N2Nat.id by assumption. reflexivity.
Qed.

Lemma copy_mask_iter b i :
  i * b <= 128 -> N.iter i (fun cm => N.lor (shl_trunc cm b) (N.ones b)) 0 = N.ones (i * b).
Proof.
  revert i. apply (N.peano_ind (fun i => i * b <= 128 -> _ = N.ones (i * b))).
  - intros _. reflexivity.
  - intros i IH Hi. rewrite N.iter_succ, IH by lia.
    unfold shl_trunc, trunc128, U128_MAX. apply N.bits_inj; intro j.
    rewrite N.lor_spec, N.land_spec, !ones_testbit.
    destruct (N.ltb_spec j b) as [Hj|Hj].
    + rewrite orb_true_r. symmetry. apply N.ltb_lt. nia.
    + rewrite orb_false_r. rewrite N.shiftl_spec_high' by assumption. rewrite ones_testbit.
      destruct (N.ltb_spec (j - b) (i * b)) as [H1|H1];
        destruct (N.ltb_spec j (N.succ i * b)) as [H2|H2];
        destruct (N.ltb_spec j 128) as [H3|H3]; try reflexivity; lia.
Qed.

Lemma mk3_P00 P : P = mk3 P 0 0.
Proof. unfold mk3. lia. Qed.

Lemma of_pk dbg b l k : okbl b l -> of_ dbg k (pk b l) = Ok (pk b (g_of k l)).
Proof.
  intro H. pose proof H as (Hb & Hl & Hs). pose proof (okbl_len b l H) as Hlen.
  unfold of_, g_of. rewrite bits_pk, mask_pk, k_len_pk by assumption.
  set (i := N.min (lenN l) k). assert (Hi : i <= lenN l) by (unfold i; lia).
  rewrite copy_mask_iter by nia. cbn [pk t].
  assert (Hn : (N.to_nat i <= length l)%nat) by (unfold lenN in Hi; lia).
  rewrite <- (Nnat.N2Nat.id i) at 1. rewrite tpack_mod_firstn by assumption.
  assert (Hok : okbl b (firstn (N.to_nat i) l)).
  { split; [assumption|]. split; [rewrite firstn_length; lia | apply small_firstn; assumption]. }
  pose proof (okbl_pay_lt _ _ Hok) as HP.
  rewrite (mk3_P00 (pay b (firstn (N.to_nat i) l))) at 1.
  rewrite set_bits_mk3 by (try assumption; lia). cbn [bind].
  rewrite set_next_index_mk3 by (try assumption; lia).
  unfold pk, tpack. rewrite lenN_firstn, Nnat.N2Nat.id by assumption. reflexivity.
Qed.

Lemma iter_loop_payH b l H :
  b <= 12 -> small b l -> iter_loop (length l) (payH b l H) (N.ones b) b = map (to16 b) l.
Proof.
  intros Hb Hs. induction Hs as [|d r Hd Hr IH]; [reflexivity|].
  cbn [length iter_loop map]. rewrite N.land_ones, N.shiftr_div_pow2.
  rewrite payH_cons_mod, payH_cons_div by assumption. rewrite IH. f_equal.
  unfold to16. destruct (d =? N.ones b); [reflexivity|].
  change U16_MAX with (N.ones 16). apply lt_pow2_land. pose proof (pow_le_16 b Hb). lia.
Qed.

Lemma iter_pk b l : okbl b l -> iter (pk b l) = map (to16 b) l.
Proof.
  intro H. unfold iter. rewrite next_index_pk, mask_pk, bits_pk by assumption.
  unfold lenN. rewrite Nnat.Nat2N.id. cbn [pk t]. rewrite tpack_payH by assumption.
  apply iter_loop_payH; [apply H | apply H].
Qed.

Lemma to_u128_pk b l : okbl b l -> to_u128 (pk b l) = Ok (pay b l).
Proof.
  intro H. pose proof (okbl_span b l H) as Hsp.
  unfold to_u128. rewrite next_index_pk, bits_pk by assumption.
  rewrite shl128_ok by lia. cbn [bind]. rewrite not_shl_ones128 by lia.
  cbn [pk t]. unfold lenN. rewrite tpack_mod_firstn by (try assumption; lia).
  rewrite firstn_all. reflexivity.
Qed.

Lemma cmp_pk b1 b2 l1 l2 : okbl b1 l1 -> okbl b2 l2 ->
  cmp (pk b1 l1) (pk b2 l2) =
  Ok (match lenN l1 ?= lenN l2 with Eq => pay b1 l1 ?= pay b2 l2 | c => c end).
Proof.
  intros H1 H2. unfold cmp. rewrite !next_index_pk by assumption.
  destruct (lenN l1 ?= lenN l2); try reflexivity.
  rewrite !to_u128_pk by assumption. reflexivity.
Qed.

(** ** The theorems of C32, stated on [denote] *)

(** the term a [u16] argument [tm] of [push]/[set] denotes inside [p] *)
Definition term_of (p : packed) (tm : N) : term := decode (mask p) (N.land tm (mask p)).
(** argument accepted by the [debug_assert]s of [set]: a value [<= mask] or [EPS] *)
Definition arg_ok (p : packed) (tm : N) : Prop := tm <= mask p \/ tm = EPS.

Ltac use_denote H l Hok HL b :=
  let Hp := fresh "Hp" in
  let Eb := fresh "Eb" in
  apply denote_repr in H; destruct H as (l & Hok & Hp & HL);
  match type of Hp with ?p = _ => remember (bits p) as b eqn:Eb; subst p end.

Ltac use_wf H l Hok b :=
  let Hp := fresh "Hp" in
  apply wf_repr in H; destruct H as [Hok Hp];
  match type of Hp with ?p = _ => remember (bits p) as b; remember (slots p) as l; subst p end.

Ltac fin_bits :=
  rewrite ?bits_pk by assumption; first [reflexivity | assumption | symmetry; assumption].

Lemma mk_nz b l : okbl b l -> N.ones b <> 0.
Proof. intro H. apply ones_pos, H. Qed.

Theorem wf_new dbg m :
  m <= 4094 ->
  exists p, new dbg m = Ok p /\ wf p /\ denote p = Some [] /\ bits p = N.log2 (m + 1) + 1.
Proof.
  intro H. pose proof (okbl_nil _ (width_ok m H)) as Hok.
  exists (pk (N.log2 (m + 1) + 1) []). split; [apply new_ok; assumption|].
  split; [apply wf_pk; assumption|]. split; [|apply bits_pk; assumption].
  rewrite denote_pk by assumption. reflexivity.
Qed.

(** the panic condition of [new] is exactly "more than 4095 terminals (index > 4094)" *)
Theorem new_ok_iff dbg m : (exists p, new dbg m = Ok p) <-> m <= 4094.
Proof.
  split.
  - intros [p Hp]. destruct (N.le_gt_cases m 4094) as [H|H]; [assumption|].
    rewrite new_panics in Hp by lia. discriminate.
  - intro H. eexists. apply new_ok; assumption.
Qed.

Theorem denote_eps dbg m :
  m <= 4094 ->
  exists p, eps dbg m = Ok p /\ wf p /\ denote p = Some [Eps] /\ bits p = N.log2 (m + 1) + 1.
Proof.
  intro H. pose proof (width_ok m H) as Hb. set (b := N.log2 (m + 1) + 1) in *.
  assert (Hok : okbl b [N.ones b]).
  { apply (okbl_snoc b [] (N.ones b) (okbl_nil b Hb)); [reflexivity | apply ones_lt]. }
  exists (pk b [N.ones b]). split; [apply eps_pk; assumption|].
  split; [apply wf_pk; assumption|]. split; [|apply bits_pk; assumption].
  rewrite denote_pk by assumption. cbn [map]. unfold decode. rewrite N.eqb_refl. reflexivity.
Qed.

Theorem denote_end dbg m :
  m <= 4094 ->
  exists p, end_ dbg m = Ok p /\ wf p /\ denote p = Some [End] /\ bits p = N.log2 (m + 1) + 1.
Proof.
  intro H. pose proof (width_ok m H) as Hb. set (b := N.log2 (m + 1) + 1) in *.
  assert (Hok : okbl b [0]).
  { apply (okbl_snoc b [] 0 (okbl_nil b Hb)); [reflexivity | apply pow2_pos]. }
  exists (pk b [0]). split; [apply end_pk; assumption|].
  split; [apply wf_pk; assumption|]. split; [|apply bits_pk; assumption].
  rewrite denote_pk by assumption. cbn [map]. unfold decode.
  destruct (N.eqb_spec 0 (N.ones b)) as [E|E]; [|reflexivity].
  pose proof (ones_pos b ltac:(lia)). congruence.
Qed.

Theorem denote_len p L : denote p = Some L -> len p = lenN L.
Proof.
  intro H. use_denote H l Hok HL b. subst L. rewrite len_pk by assumption.
  unfold lenN. rewrite map_length. reflexivity.
Qed.

Theorem denote_is_empty p L : denote p = Some L -> is_empty p = is_nil L.
Proof.
  intro H. use_denote H l Hok HL b. subst L. rewrite is_empty_pk by assumption.
  destruct l; reflexivity.
Qed.

Theorem denote_k_len p L k : denote p = Some L -> k_len p k = N.min (lenN L) k.
Proof.
  intro H. use_denote H l Hok HL b. subst L. rewrite k_len_pk by assumption.
  unfold lenN. rewrite map_length. reflexivity.
Qed.

Theorem denote_get p L i :
  denote p = Some L -> get p i = Ok (option_map enc16 (nth_error L (N.to_nat i))).
Proof.
  intro H. use_denote H l Hok HL b. subst L. rewrite get_pk by assumption.
  rewrite nth_error_map. destruct (nth_error l (N.to_nat i)); cbn [option_map]; [|reflexivity].
  rewrite to16_enc16. reflexivity.
Qed.

Theorem denote_last p L :
  denote p = Some L -> last p = Ok (option_map enc16 (olast L)).
Proof.
  intro H. use_denote H l Hok HL b. subst L. rewrite last_pk by assumption.
  rewrite olast_map. destruct (olast l); cbn [option_map]; [|reflexivity].
  rewrite to16_enc16. reflexivity.
Qed.

Theorem denote_iter p L : denote p = Some L -> iter p = map enc16 L.
Proof.
  intro H. use_denote H l Hok HL b. subst L. rewrite iter_pk by assumption.
  rewrite map_map. apply map_ext. intro d. apply to16_enc16.
Qed.

Theorem denote_is_eps p L : denote p = Some L -> is_eps p = a_is_eps L.
Proof.
  intro H. use_denote H l Hok HL b. subst L. rewrite is_eps_pk by assumption.
  unfold a_is_eps. symmetry.
  apply (g_is_eps_map (decode (N.ones b)) (d_isE (N.ones b)) t_isE (decode_isE _)).
Qed.

Theorem denote_is_k_complete p L k :
  denote p = Some L -> is_k_complete p k = Ok (a_complete k L).
Proof.
  intro H. use_denote H l Hok HL b. subst L. rewrite is_k_complete_pk by assumption.
  unfold a_complete. f_equal. symmetry.
  apply (g_complete_map (decode (N.ones b)) (d_isE (N.ones b)) d_isD t_isE t_isD
           (decode_isE _) (fun d => decode_isD _ d (mk_nz b l Hok))).
Qed.

Theorem denote_clear dbg p L :
  denote p = Some L ->
  exists p', clear dbg p = Ok p' /\ wf p' /\ denote p' = Some [] /\ bits p' = bits p.
Proof.
  intro H. use_denote H l Hok HL b.
  assert (Hnil : okbl b []) by (apply okbl_nil, Hok).
  exists (pk b []). split; [apply clear_pk; assumption|].
  split; [apply wf_pk; assumption|].
  split; [rewrite denote_pk by assumption; reflexivity|].
  fin_bits.
Qed.

Lemma mask_pk' b l : okbl b l -> mask (pk b l) = N.ones b.
Proof. apply mask_pk. Qed.

Theorem denote_push dbg p L tm :
  denote p = Some L -> arg_ok p tm ->
  match a_push L (term_of p tm) with
  | None => push dbg p tm = Ok None
  | Some L' => exists p', push dbg p tm = Ok (Some p') /\ wf p' /\
                          denote p' = Some L' /\ bits p' = bits p
  end.
Proof.
  intros H Harg. use_denote H l Hok HL b. subst L.
  unfold arg_ok, term_of in *. rewrite mask_pk in * by assumption.
  rewrite push_pk by assumption.
  unfold a_push.
  rewrite (g_push_map (decode (N.ones b)) d_isD t_isD (fun d => decode_isD _ d (mk_nz b l Hok))).
  destruct (g_push d_isD l (N.land tm (N.ones b))) as [l'|] eqn:E; cbn [option_map];
    [|reflexivity].
  assert (Hok' : okbl b l').
  { eapply g_push_okbl; [exact Hok | apply land_ones_lt | exact E]. }
  exists (pk b l'). split; [reflexivity|]. split; [apply wf_pk; assumption|].
  split; [apply denote_pk; assumption|]. fin_bits.
Qed.

Lemma g_extend_okbl b ds : forall l,
  small b ds -> okbl b l -> okbl b (g_extend d_isD l ds).
Proof.
  intros l Hds. revert l. induction Hds as [|d r Hd Hr IH]; intros l Hok; [exact Hok|].
  cbn [g_extend]. destruct (g_push d_isD l d) as [l'|] eqn:E.
  - apply IH. eapply g_push_okbl; eassumption.
  - apply IH; assumption.
Qed.

Theorem denote_extend dbg p L ts :
  denote p = Some L -> Forall (arg_ok p) ts ->
  exists p', extend dbg p ts = Ok p' /\ wf p' /\
             denote p' = Some (a_extend L (map (term_of p) ts)) /\ bits p' = bits p.
Proof.
  intros H Harg. use_denote H l Hok HL b. subst L.
  unfold arg_ok, term_of in *. rewrite mask_pk in * by assumption.
  rewrite extend_pk by assumption.
  set (ds := map (fun tm => N.land tm (N.ones b)) ts).
  assert (Hds : small b ds).
  { unfold ds, small. apply Forall_forall. intros d Hd. apply in_map_iff in Hd.
    destruct Hd as (x & <- & _). apply land_ones_lt. }
  assert (Hok' : okbl b (g_extend d_isD l ds)) by (apply g_extend_okbl; assumption).
  exists (pk b (g_extend d_isD l ds)). split; [reflexivity|].
  split; [apply wf_pk; assumption|]. split; [|fin_bits].
  rewrite denote_pk by assumption. f_equal. unfold a_extend.
  rewrite <- (g_extend_map (decode (N.ones b)) d_isD t_isD (fun d => decode_isD _ d (mk_nz b l Hok))).
  f_equal. unfold ds. rewrite map_map. reflexivity.
Qed.

Lemma g_of_okbl b l k : okbl b l -> okbl b (g_of k l).
Proof.
  intros (Hb & Hl & Hs). unfold g_of. split; [assumption|]. split.
  - rewrite firstn_length. lia.
  - apply small_firstn; assumption.
Qed.

Theorem denote_of dbg p L k :
  denote p = Some L ->
  exists p', of_ dbg k p = Ok p' /\ wf p' /\ denote p' = Some (a_of k L) /\ bits p' = bits p.
Proof.
  intro H. use_denote H l Hok HL b. subst L.
  pose proof (g_of_okbl b l k Hok) as Hok'.
  exists (pk b (g_of k l)). split; [apply of_pk; assumption|].
  split; [apply wf_pk; assumption|]. split; [|fin_bits].
  rewrite denote_pk by assumption. unfold a_of. rewrite g_of_map. reflexivity.
Qed.

Lemma g_concat_okbl b l1 l2 k :
  okbl b l1 -> okbl b l2 -> k <= 10 -> okbl b (g_concat (d_isE (N.ones b)) d_isD k l1 l2).
Proof.
  intros H1 H2 Hk. unfold g_concat.
  destruct (g_is_eps (d_isE (N.ones b)) l2 || is_nil l2); [assumption|].
  set (l1' := if g_is_eps (d_isE (N.ones b)) l1 then [] else l1).
  assert (H1' : okbl b l1').
  { unfold l1'. destruct (g_is_eps (d_isE (N.ones b)) l1); [apply okbl_nil, H1 | assumption]. }
  destruct (g_complete (d_isE (N.ones b)) d_isD k l1') eqn:Ec; [assumption|].
  apply okbl_app_firstn; try assumption.
  pose proof (okbl_len b l1' H1') as Hl. unfold lenN in *. lia.
Qed.

Theorem denote_k_concat dbg a b La Lb k :
  denote a = Some La -> denote b = Some Lb -> bits a = bits b -> k <= MAX_K ->
  exists c, k_concat dbg a b k = Ok c /\ wf c /\
            denote c = Some (a_concat k La Lb) /\ bits c = bits a.
Proof.
  intros Ha Hb Hbits Hk. unfold MAX_K in Hk.
  use_denote Ha la Hoka HLa ba. use_denote Hb lb Hokb HLb bb. subst La Lb.
  subst bb.
  pose proof (g_concat_okbl ba la lb k Hoka Hokb Hk) as Hok.
  exists (pk ba (g_concat (d_isE (N.ones ba)) d_isD k la lb)).
  split; [apply k_concat_pk; assumption|]. split; [apply wf_pk; assumption|].
  split; [|fin_bits].
  rewrite denote_pk by assumption. unfold a_concat. f_equal. symmetry.
  apply (g_concat_map (decode (N.ones ba)) (d_isE (N.ones ba)) d_isD t_isE t_isD
           (decode_isE _) (fun d => decode_isD _ d (mk_nz ba la Hoka))).
Qed.

(** ** Equality *)
Theorem eqb_eq a b : eqb a b = true <-> a = b.
Proof.
  unfold eqb. rewrite N.eqb_eq. split; [|intros ->; reflexivity].
  destruct a as [x], b as [y]; cbn [t]; intros ->; reflexivity.
Qed.

Theorem eq_iff_denote a b :
  wf a -> wf b -> bits a = bits b -> (a = b <-> denote a = denote b).
Proof.
  intros Ha Hb Hbits. split; [intros ->; reflexivity|].
  intro Hd. destruct (wf_repr a Ha) as [Hoka Hpa]. destruct (wf_repr b Hb) as [Hokb Hpb].
  rewrite (denote_eq a Ha), (denote_eq b Hb) in Hd. apply Some_inj in Hd.
  rewrite <- Hbits in Hd. apply map_decode_inj in Hd; [|apply ones_pos, Hoka].
  rewrite Hpa, Hpb, <- Hbits, Hd. reflexivity.
Qed.

(** without the "same width" side condition the width is part of the value *)
Theorem eq_iff_bits_denote a b :
  wf a -> wf b -> (a = b <-> bits a = bits b /\ denote a = denote b).
Proof.
  intros Ha Hb. split; [intros ->; split; reflexivity|].
  intros [H1 H2]. apply eq_iff_denote; assumption.
Qed.

(** ** Ordering: length first, then the packed value, i.e. co-lexicographic (the LAST
    element is the most significant), elements ordered by their slot value:
    [End] (0) < [Trm i] (by [i]) < [Eps] (all ones). *)
Definition seq_cmp (mk : N) (L1 L2 : list term) : comparison :=
  match lenN L1 ?= lenN L2 with
  | Eq => colex (map (encode mk) L1) (map (encode mk) L2)
  | c => c
  end.

Lemma encode_decode mk d : encode mk (decode mk d) = d.
Proof.
  unfold decode. destruct (N.eqb_spec d mk) as [E|E]; [subst; reflexivity|].
  destruct (N.eqb_spec d 0) as [Z|Z]; [subst; reflexivity | reflexivity].
Qed.

Lemma map_encode_decode mk l : map (encode mk) (map (decode mk) l) = l.
Proof.
  rewrite map_map. rewrite <- (map_id l) at 2. apply map_ext. apply encode_decode.
Qed.

Lemma term_order mk i j : 0 < i -> i < j -> j < mk ->
  encode mk End < encode mk (Trm i) /\ encode mk (Trm i) < encode mk (Trm j) /\
  encode mk (Trm j) < encode mk Eps.
Proof. cbn [encode]. lia. Qed.

Theorem cmp_spec a b La Lb :
  denote a = Some La -> denote b = Some Lb -> bits a = bits b ->
  cmp a b = Ok (seq_cmp (mask a) La Lb).
Proof.
  intros Ha Hb Hbits. use_denote Ha la Hoka HLa ba. use_denote Hb lb Hokb HLb bb.
  subst bb La Lb. rewrite cmp_pk, mask_pk by assumption. unfold seq_cmp.
  rewrite !(lenN_map (decode (N.ones ba))), !map_encode_decode.
  destruct (N.compare_spec (lenN la) (lenN lb)) as [E|E|E]; try reflexivity.
  rewrite pay_compare; [reflexivity | apply Hoka | apply Hokb |].
  unfold lenN in E. lia.
Qed.

Definition lexcmp (n1 p1 n2 p2 : N) : comparison :=
  match n1 ?= n2 with Eq => p1 ?= p2 | c => c end.

Lemma lexcmp_refl n p : lexcmp n p n p = Eq.
Proof. unfold lexcmp. rewrite !N.compare_refl. reflexivity. Qed.

Lemma lexcmp_antisym n1 p1 n2 p2 : lexcmp n2 p2 n1 p1 = CompOpp (lexcmp n1 p1 n2 p2).
Proof.
  unfold lexcmp. rewrite (N.compare_antisym n1 n2), (N.compare_antisym p1 p2).
  destruct (n1 ?= n2); reflexivity.
Qed.

Lemma lexcmp_lt n1 p1 n2 p2 : lexcmp n1 p1 n2 p2 = Lt <-> n1 < n2 \/ (n1 = n2 /\ p1 < p2).
Proof.
  unfold lexcmp. destruct (N.compare_spec n1 n2) as [E|E|E].
  - rewrite N.compare_lt_iff. lia.
  - split; [intros _; left; assumption | reflexivity].
  - split; [discriminate | lia].
Qed.

Lemma lexcmp_eq n1 p1 n2 p2 : lexcmp n1 p1 n2 p2 = Eq <-> n1 = n2 /\ p1 = p2.
Proof.
  unfold lexcmp. destruct (N.compare_spec n1 n2) as [E|E|E].
  - rewrite N.compare_eq_iff. split; [intro; split; assumption | intros [_ H]; exact H].
  - split; [discriminate | lia].
  - split; [discriminate | lia].
Qed.

Lemma cmp_pk' b1 b2 l1 l2 : okbl b1 l1 -> okbl b2 l2 ->
  cmp (pk b1 l1) (pk b2 l2) = Ok (lexcmp (lenN l1) (pay b1 l1) (lenN l2) (pay b2 l2)).
Proof. apply cmp_pk. Qed.

Lemma Ok_inj {A} (x y : A) : Ok x = Ok y -> x = y.
Proof. intro H. injection H as H. exact H. Qed.

(** [cmp] is a (strict) total order on well-formed values; it ignores the width field, so
    it is compatible with [==] exactly on values of the same width. *)
Theorem cmp_total_order a b c :
  wf a -> wf b -> wf c ->
  cmp a a = Ok Eq /\
  (exists r, cmp a b = Ok r /\ cmp b a = Ok (CompOpp r)) /\
  (cmp a b = Ok Lt -> cmp b c = Ok Lt -> cmp a c = Ok Lt) /\
  (cmp a b = Ok Eq -> cmp a c = cmp b c) /\
  (bits a = bits b -> (cmp a b = Ok Eq <-> a = b)).
Proof.
  intros Ha Hb Hc.
  use_wf Ha la Hoka ba. use_wf Hb lb Hokb bb. use_wf Hc lc Hokc bc.
  rewrite !cmp_pk' by assumption.
  split; [rewrite lexcmp_refl; reflexivity|].
  split; [eexists; split; [reflexivity | rewrite lexcmp_antisym; reflexivity]|].
  split.
  { intros H1 H2. apply Ok_inj in H1. apply Ok_inj in H2. f_equal.
    apply lexcmp_lt in H1. apply lexcmp_lt in H2. apply lexcmp_lt. lia. }
  split.
  { intro H1. apply Ok_inj in H1. apply lexcmp_eq in H1. destruct H1 as [H1 H2].
    rewrite H1, H2. reflexivity. }
  intro Hbits. split.
  - intro H1. apply Ok_inj in H1. apply lexcmp_eq in H1. destruct H1 as [H1 H2].
    subst bb. f_equal.
    apply (pay_inj ba); [apply Hoka | apply Hokb | unfold lenN in H1; lia | assumption].
  - intro E. assert (El : la = lb).
    { rewrite <- (slots_pk ba la Hoka), <- (slots_pk bb lb Hokb), E. reflexivity. }
    subst bb lb. rewrite lexcmp_refl. reflexivity.
Qed.

(** ** epsilon can never be confused with a terminal *)
Theorem eps_never_a_terminal dbg m p :
  new dbg m = Ok p ->
  mask p = 2 ^ bits p - 1 /\ m + 1 < 2 ^ bits p /\
  term_of p EPS = Eps /\
  forall i, i <= m ->
    i < mask p /\ N.land i (mask p) = i /\ term_of p i = (if i =? 0 then End else Trm i).
Proof.
  intro H. assert (Hm : m <= 4094) by (apply (new_ok_iff dbg); eexists; eassumption).
  rewrite new_ok in H by assumption. apply Ok_inj in H. subst p.
  pose proof (width_ok m Hm) as Hb. pose proof (new_bits_bound m) as [Hhi Hlo].
  set (b := N.log2 (m + 1) + 1) in *.
  pose proof (okbl_nil b Hb) as Hok.
  unfold term_of. rewrite mask_pk, bits_pk by assumption.
  rewrite N.ones_equiv, <- N.sub_1_r. split; [reflexivity|]. split; [assumption|].
  pose proof (pow2_pos b) as Hp.
  split.
  - rewrite N.sub_1_r, <- N.ones_equiv, land_eps by lia. unfold decode.
    rewrite N.eqb_refl. reflexivity.
  - intros i Hi. split; [lia|].
    assert (Hl : N.land i (2 ^ b - 1) = i).
    { rewrite N.sub_1_r, <- N.ones_equiv. apply lt_pow2_land. lia. }
    split; [assumption|]. rewrite Hl. unfold decode.
    destruct (N.eqb_spec i (2 ^ b - 1)) as [E|E]; [lia | reflexivity].
Qed.

(** the two boundary cases: [m + 2] resp. [m + 1] a power of two *)
Lemma log2_pow2_pred b : 1 <= b -> N.log2 (2 ^ b - 1) = b - 1.
Proof.
  intro H. apply N.log2_unique; [lia|].
  replace (N.succ (b - 1)) with b by lia.
  assert (E : 2 ^ b = 2 * 2 ^ (b - 1)).
  { rewrite <- N.pow_succ_r'. f_equal. lia. }
  pose proof (pow2_pos (b - 1)). lia.
Qed.

Theorem new_boundary_lo dbg b :
  1 <= b <= 12 ->
  exists p, new dbg (2 ^ b - 2) = Ok p /\ bits p = b /\ mask p = (2 ^ b - 2) + 1.
Proof.
  intro H.
  assert (Hp : 2 <= 2 ^ b /\ 2 ^ b <= 4096).
  { split.
    - change 2 with (2 ^ 1) at 1. apply N.pow_le_mono_r; [discriminate | lia].
    - change 4096 with (2 ^ 12). apply N.pow_le_mono_r; [discriminate | lia]. }
  assert (Hm : 2 ^ b - 2 <= 4094) by lia.
  assert (Hw : N.log2 (2 ^ b - 2 + 1) + 1 = b).
  { replace (2 ^ b - 2 + 1) with (2 ^ b - 1) by lia. rewrite log2_pow2_pred by lia. lia. }
  pose proof (okbl_nil b H) as Hok.
  exists (pk b []). rewrite new_ok, Hw by assumption. split; [reflexivity|].
  rewrite bits_pk, mask_pk, N.ones_equiv by assumption. split; [reflexivity | lia].
Qed.

Theorem new_boundary_hi dbg b :
  1 <= b <= 11 -> exists p, new dbg (2 ^ b - 1) = Ok p /\ bits p = b + 1.
Proof.
  intro H.
  assert (Hp : 2 <= 2 ^ b /\ 2 ^ b <= 2048).
  { split.
    - change 2 with (2 ^ 1) at 1. apply N.pow_le_mono_r; [discriminate | lia].
    - change 2048 with (2 ^ 11). apply N.pow_le_mono_r; [discriminate | lia]. }
  assert (Hm : 2 ^ b - 1 <= 4094) by lia.
  assert (Hw : N.log2 (2 ^ b - 1 + 1) + 1 = b + 1).
  { replace (2 ^ b - 1 + 1) with (2 ^ b) by lia. rewrite N.log2_pow2 by lia. reflexivity. }
  assert (Hok : okbl (b + 1) []) by (apply okbl_nil; lia).
  exists (pk (b + 1) []). rewrite new_ok, Hw by assumption. split; [reflexivity|].
  apply bits_pk; assumption.
Qed.

Theorem new_boundary_4095 dbg : new dbg (2 ^ 12 - 1) = Panic /\ new dbg (2 ^ 12 - 2) <> Panic.
Proof.
  split; [apply new_panics; vm_compute; discriminate|].
  rewrite new_ok by (vm_compute; discriminate). discriminate.
Qed.

(** ** [k_concat] never shifts payload into the metadata bits, and its
    [debug_assert!(false)] branch ([to_take == 0]) is dead. *)
Theorem concat_no_overflow a b La Lb k :
  denote a = Some La -> denote b = Some Lb -> bits a = bits b -> k <= MAX_K ->
  a_is_eps La = false -> a_complete k La = false -> a_is_eps Lb = false -> Lb <> [] ->
  let my_k_len := k_len a k in
  let to_take := N.min (k - my_k_len) (k_len b k) in
  1 <= to_take /\ my_k_len + to_take <= MAX_K /\
  exists m value,
    shl128 U128_MAX (to_take * bits a) = Ok m /\
    shl128 (N.land (t b) (not128 m)) (my_k_len * bits a) = Ok value /\
    value < 2 ^ 120.
Proof.
  intros Ha Hb Hbits Hk Ea Ec Eb Hnil. unfold MAX_K in *.
  use_denote Ha la Hoka HLa ba. use_denote Hb lb Hokb HLb bb. subst bb La Lb.
  cbv zeta. rewrite !k_len_pk by assumption.
  unfold a_complete, a_is_eps in *.
  rewrite (g_complete_map (decode (N.ones ba)) (d_isE (N.ones ba)) d_isD t_isE t_isD
            (decode_isE _) (fun d => decode_isD _ d (mk_nz ba la Hoka))) in Ec.
  unfold g_complete in Ec.
  rewrite (g_is_eps_map (decode (N.ones ba)) (d_isE (N.ones ba)) t_isE (decode_isE _)) in Ea.
  rewrite Ea in Ec. cbn [negb andb] in Ec. apply orb_false_elim in Ec. destruct Ec as [Ec _].
  apply N.leb_gt in Ec.
  assert (Hl2 : 1 <= lenN lb).
  { destruct lb; [contradiction Hnil; reflexivity|]. rewrite lenN_cons. lia. }
  rewrite (N.min_l (lenN la) k) by lia.
  set (tt := N.min (k - lenN la) (N.min (lenN lb) k)).
  assert (Htt : 1 <= tt /\ tt <= lenN lb /\ lenN la + tt <= 10) by (unfold tt; lia).
  destruct Htt as (Htt1 & Htt2 & Htt3). pose proof Hoka as (Hba & _ & _).
  split; [assumption|]. split; [assumption|].
  destruct (concat_value_pk ba la lb tt Hoka Hokb Htt2 Htt3) as [Hv Hvlt].
  eexists. eexists. split; [apply shl128_ok; nia|].
  rewrite not_shl_ones128 by nia. rewrite Hv. split; [apply shl128_ok; nia|].
  rewrite shl_trunc_small by (apply lt120_128; assumption). assumption.
Qed.

(** ** [TerminalString] and [KTuple] *)
Theorem ts_eqb_eq a b : ts_eqb a b = true <-> a = b.
Proof.
  unfold ts_eqb. rewrite andb_true_iff, eqb_eq.
  destruct a as [p|p], b as [q|q]; cbn [ts_tag ts_inner Bool.eqb]; split;
    try (intros [H1 H2]; try discriminate; subst; reflexivity);
    try discriminate; intro H; injection H as ->; split; reflexivity.
Qed.

Theorem kt_eqb_eq x y : kt_eqb x y = true <-> x = y.
Proof.
  unfold kt_eqb. rewrite andb_true_iff, ts_eqb_eq, N.eqb_eq.
  destruct x as [s n], y as [s' n']; cbn [terminals kk]. split.
  - intros [-> ->]. reflexivity.
  - intro H. injection H as -> ->. split; reflexivity.
Qed.

Definition ts_wf (s : tstring) : Prop := wf (ts_inner s).
Definition kt_wf (x : ktuple) : Prop := ts_wf (terminals x).
Definition kt_bits (x : ktuple) : N := bits (ts_inner (terminals x)).

(** the value of a [KTuple] is the triple (tag, sequence, k field) *)
Theorem ktuple_abstract x y :
  kt_wf x -> kt_wf y -> kt_bits x = kt_bits y -> (x = y <-> kt_denote x = kt_denote y).
Proof.
  intros Hx Hy Hb. split; [intros ->; reflexivity|].
  destruct x as [sx nx], y as [sy ny]. unfold kt_wf, ts_wf, kt_bits, kt_denote, ts_denote in *.
  cbn [terminals kk] in *.
  destruct (wf_denote _ Hx) as [Lx Ex]. destruct (wf_denote _ Hy) as [Ly Ey].
  rewrite Ex, Ey. intro H. apply Some_inj in H.
  assert (H1 : ts_tag sx = ts_tag sy) by congruence.
  assert (H2 : Lx = Ly) by congruence.
  assert (H3 : nx = ny) by congruence.
  assert (H4 : ts_inner sx = ts_inner sy).
  { apply eq_iff_denote; try assumption. congruence. }
  subst ny. f_equal.
  destruct sx, sy; cbn [ts_tag ts_inner] in *; try discriminate; subst; reflexivity.
Qed.

Lemma ts_classify_pk b l k : okbl b l ->
  ts_classify (pk b l) k =
  Ok (if g_complete (d_isE (N.ones b)) d_isD k l then Complete (pk b l) else Incomplete (pk b l)).
Proof.
  intro H. unfold ts_classify. rewrite is_k_complete_pk by assumption. reflexivity.
Qed.

Lemma ts_classify_denote p L k :
  denote p = Some L ->
  exists s, ts_classify p k = Ok s /\ ts_inner s = p /\ ts_tag s = a_complete k L.
Proof.
  intro H. unfold ts_classify. rewrite (denote_is_k_complete p L k H). cbn [bind].
  destruct (a_complete k L); eexists; (split; [reflexivity|]); split; reflexivity.
Qed.

Theorem denote_kt_eps dbg k m :
  m <= 4094 ->
  exists x, kt_eps dbg k m = Ok x /\
            kt_denote x = Some (false, [Eps], N.min k MAX_K) /\
            kt_bits x = N.log2 (m + 1) + 1.
Proof.
  intro H. destruct (denote_eps dbg m H) as (p & Hp & _ & Hd & Hb).
  unfold kt_eps. rewrite Hp. cbn [bind]. eexists. split; [reflexivity|].
  unfold kt_denote, ts_denote, kt_bits. cbn [terminals ts_inner ts_tag kk]. rewrite Hd.
  split; [reflexivity | assumption].
Qed.

Theorem denote_kt_end dbg k m :
  m <= 4094 ->
  exists x, kt_end dbg k m = Ok x /\
            kt_denote x = Some (true, [End], N.min k MAX_K) /\
            kt_bits x = N.log2 (m + 1) + 1.
Proof.
  intro H. destruct (denote_end dbg m H) as (p & Hp & _ & Hd & Hb).
  unfold kt_end. rewrite Hp. cbn [bind]. eexists. split; [reflexivity|].
  unfold kt_denote, ts_denote, kt_bits. cbn [terminals ts_inner ts_tag kk]. rewrite Hd.
  split; [reflexivity | assumption].
Qed.

Theorem denote_kt_of dbg p L k :
  denote p = Some L ->
  exists x, kt_of dbg p k = Ok x /\
            kt_denote x = Some (a_complete k (a_of k L), a_of k L, k) /\
            kt_bits x = bits p.
Proof.
  intro H. destruct (denote_of dbg p L k H) as (q & Hq & _ & Hd & Hb).
  destruct (ts_classify_denote q _ k Hd) as (s & Hs & Hi & Ht).
  unfold kt_of. rewrite Hq. cbn [bind]. rewrite Hs. cbn [bind].
  eexists. split; [reflexivity|].
  unfold kt_denote, ts_denote, kt_bits. cbn [terminals kk]. rewrite Hi, Hd, Ht.
  split; [reflexivity | assumption].
Qed.

(** [TerminalString::k_concat] *)
Theorem denote_ts_k_concat dbg a b ta La tb Lb k :
  ts_denote a = Some (ta, La) -> ts_denote b = Some (tb, Lb) ->
  bits (ts_inner a) = bits (ts_inner b) -> k <= MAX_K ->
  exists c, ts_k_concat dbg a b k = Ok c /\
            ts_denote c = Some (if ta then (true, La)
                                else (a_complete k (a_concat k La Lb), a_concat k La Lb)) /\
            bits (ts_inner c) = bits (ts_inner a).
Proof.
  unfold ts_denote. intros Ha Hb Hbits Hk.
  destruct (denote (ts_inner a)) as [La'|] eqn:Ea; [|discriminate].
  destruct (denote (ts_inner b)) as [Lb'|] eqn:Eb; [|discriminate].
  apply Some_inj in Ha. apply Some_inj in Hb.
  assert (ts_tag a = ta /\ La' = La) as [Hta ->] by (split; congruence).
  assert (Lb' = Lb) as -> by congruence.
  destruct a as [p|p]; cbn [ts_tag ts_inner] in *; subst ta.
  - destruct (denote_k_concat dbg p (ts_inner b) La Lb k Ea Eb Hbits Hk)
      as (c & Hc & _ & Hd & Hbc).
    destruct (ts_classify_denote c _ k Hd) as (s & Hs & Hi & Ht).
    cbn [ts_k_concat]. rewrite Hc. cbn [bind]. rewrite Hs.
    exists s. split; [reflexivity|]. rewrite Hi, Hd, Ht. split; [reflexivity | assumption].
  - cbn [ts_k_concat]. eexists. split; [reflexivity|]. cbn [ts_inner ts_tag]. rewrite Ea.
    split; reflexivity.
Qed.

(** [KTuple::k_concat]: the new [k] field is [min(len, k)] *)
Theorem denote_kt_k_concat dbg x y tx Lx kx ty Ly ky k :
  kt_denote x = Some (tx, Lx, kx) -> kt_denote y = Some (ty, Ly, ky) ->
  kt_bits x = kt_bits y -> k <= MAX_K ->
  exists z, kt_k_concat dbg x y k = Ok z /\ kt_bits z = kt_bits x /\
    kt_denote z =
    Some (if tx then (true, Lx, N.min (lenN Lx) k)
          else (a_complete k (a_concat k Lx Ly), a_concat k Lx Ly,
                N.min (lenN (a_concat k Lx Ly)) k)).
Proof.
  unfold kt_denote, kt_bits. intros Hx Hy Hbits Hk.
  destruct (ts_denote (terminals x)) as [[tx' Lx']|] eqn:Ex; [|discriminate].
  destruct (ts_denote (terminals y)) as [[ty' Ly']|] eqn:Ey; [|discriminate].
  apply Some_inj in Hx. apply Some_inj in Hy.
  assert (tx' = tx /\ Lx' = Lx) as [-> ->] by (split; congruence).
  assert (ty' = ty /\ Ly' = Ly) as [-> ->] by (split; congruence).
  destruct (denote_ts_k_concat dbg _ _ tx Lx ty Ly k Ex Ey Hbits Hk) as (c & Hc & Hd & Hb).
  unfold kt_k_concat. rewrite Hc. cbn [bind]. eexists. split; [reflexivity|].
  cbn [terminals kk]. split; [assumption|]. rewrite Hd.
  unfold ts_denote in Hd. destruct (denote (ts_inner c)) as [Lc|] eqn:Edc; [|discriminate].
  rewrite (denote_k_len _ _ k Edc). apply Some_inj in Hd.
  destruct tx; injection Hd as _ ->; reflexivity.
Qed.

(** A [KTuple] is canonical for [k] when its tag and [k] field are functions of its sequence. *)
Definition kt_canonical (k : N) (x : ktuple) : Prop :=
  exists L, kt_denote x = Some (a_complete k L, L, N.min (lenN L) k).

(** results of [k_concat] are canonical (provided a [Complete] receiver really is
    k-complete for this [k]) ... *)
Theorem concat_canonical dbg x y tx Lx kx ty Ly ky k :
  kt_denote x = Some (tx, Lx, kx) -> kt_denote y = Some (ty, Ly, ky) ->
  kt_bits x = kt_bits y -> k <= MAX_K ->
  (tx = true -> a_complete k Lx = true) ->
  exists z, kt_k_concat dbg x y k = Ok z /\ kt_bits z = kt_bits x /\ kt_canonical k z.
Proof.
  intros Hx Hy Hbits Hk Htag.
  destruct (denote_kt_k_concat dbg x y tx Lx kx ty Ly ky k Hx Hy Hbits Hk) as (z & Hz & Hb & Hd).
  exists z. split; [assumption|]. split; [assumption|]. unfold kt_canonical.
  destruct tx.
  - exists Lx. rewrite Hd, Htag by reflexivity. reflexivity.
  - exists (a_concat k Lx Ly). exact Hd.
Qed.

(** ... and canonical tuples of the same width are equal iff they denote the same sequence *)
Theorem canonical_eq_iff_seq k x y Lx Ly :
  kt_canonical k x -> kt_canonical k y -> kt_bits x = kt_bits y ->
  kt_denote x = Some (a_complete k Lx, Lx, N.min (lenN Lx) k) ->
  kt_denote y = Some (a_complete k Ly, Ly, N.min (lenN Ly) k) ->
  (x = y <-> Lx = Ly).
Proof.
  intros _ _ Hb Hx Hy.
  assert (Wx : kt_wf x).
  { unfold kt_wf, ts_wf. unfold kt_denote, ts_denote in Hx.
    destruct (denote (ts_inner (terminals x))) eqn:E; [|discriminate]. eapply denote_wf; eassumption. }
  assert (Wy : kt_wf y).
  { unfold kt_wf, ts_wf. unfold kt_denote, ts_denote in Hy.
    destruct (denote (ts_inner (terminals y))) eqn:E; [|discriminate]. eapply denote_wf; eassumption. }
  rewrite (ktuple_abstract x y Wx Wy Hb), Hx, Hy. split.
  - intro H. apply Some_inj in H. congruence.
  - intros ->. reflexivity.
Qed.

(** Observation O1: [KTuple] equality is NOT equality of the denoted sequences.  The epsilon
    built by [KTupleBuilder::eps] with k = 3 and the epsilon that went through [k_concat]
    (k field = k_len = 1) denote the same sequence, have the same tag and width, and differ. *)
Theorem ktuple_eq_by_sequence_refuted :
  exists x y tx L kx ky,
    kt_eps true 3 1 = Ok x /\ kt_k_concat true x x 3 = Ok y /\
    kt_denote x = Some (tx, L, kx) /\ kt_denote y = Some (tx, L, ky) /\
    kt_bits x = kt_bits y /\ kt_eqb x y = false /\ x <> y.
Proof.
  destruct (kt_eps true 3 1) as [x|] eqn:Ex; [|vm_compute in Ex; discriminate].
  destruct (kt_k_concat true x x 3) as [y|] eqn:Ey;
    [|vm_compute in Ex; apply Ok_inj in Ex; subst x; vm_compute in Ey; discriminate].
  exists x, y, false, [Eps], 3, 1.
  vm_compute in Ex. apply Ok_inj in Ex. subst x.
  vm_compute in Ey. apply Ok_inj in Ey. subst y.
  repeat (split; [vm_compute; reflexivity|]).
  intro H. apply kt_eqb_eq in H. vm_compute in H. discriminate.
Qed.

(** [TerminalString::push] / [KTuple::push] *)
Theorem denote_kt_push dbg x tx L kx tm :
  kt_denote x = Some (tx, L, kx) -> arg_ok (ts_inner (terminals x)) tm ->
  if tx then kt_push dbg x tm = Ok (Some x)
  else match a_push L (term_of (ts_inner (terminals x)) tm) with
       | None => kt_push dbg x tm = Ok None
       | Some L' => exists x', kt_push dbg x tm = Ok (Some x') /\ kt_bits x' = kt_bits x /\
                               kt_denote x' = Some (a_complete kx L', L', kx)
       end.
Proof.
  unfold kt_denote, ts_denote, kt_push, kt_bits. destruct x as [s n]. cbn [terminals kk].
  intros H Harg.
  destruct (denote (ts_inner s)) as [L0|] eqn:E; [|discriminate].
  apply Some_inj in H.
  assert (ts_tag s = tx /\ L0 = L /\ n = kx) as (Ht & -> & ->) by (repeat split; congruence).
  destruct s as [p|p]; cbn [ts_tag ts_inner ts_push] in *; subst tx.
  - pose proof (denote_push dbg p L tm E Harg) as Hp.
    destruct (a_push L (term_of p tm)) as [L'|].
    + destruct Hp as (p' & Hp' & _ & Hd & Hb). rewrite Hp'. cbn [bind].
      destruct (ts_classify_denote p' L' kx Hd) as (s' & Hs & Hi & Htag).
      rewrite Hs. cbn [bind]. eexists. split; [reflexivity|]. cbn [terminals kk].
      rewrite Hi, Hd, Htag. split; [assumption | reflexivity].
    + rewrite Hp. reflexivity.
  - reflexivity.
Qed.

(** ** The precondition [k <= MAX_K] of [k_concat] is necessary (public API finding):
    with k = 11 a 9-element and a 2-element tuple give a debug-assertion panic, and in a
    release build an ill-formed value with length field 11. *)
Definition get_ok (r : res packed) : packed := match r with Ok p => p | Panic => Packed 0 end.
Definition ex_9 : packed := get_ok (do a <- new true 6; extend true a [1;2;3;4;5;6;1;2;3]).
Definition ex_2 : packed := get_ok (do a <- new true 6; extend true a [4;5]).

Theorem denote_k_concat_large_k_refuted :
  exists a b k La Lb,
    denote a = Some La /\ denote b = Some Lb /\ bits a = bits b /\ k = MAX_K + 1 /\
    k_concat true a b k = Panic /\
    exists c, k_concat false a b k = Ok c /\ wfb c = false /\ len c = 11.
Proof.
  exists ex_9, ex_2, 11, [Trm 1; Trm 2; Trm 3; Trm 4; Trm 5; Trm 6; Trm 1; Trm 2; Trm 3],
         [Trm 4; Trm 5].
  repeat (split; [vm_compute; reflexivity|]).
  eexists. split; [vm_compute; reflexivity|]. split; vm_compute; reflexivity.
Qed.

(** with 12-bit slots and k = 20 the shifted payload reaches the metadata bits and elements
    are lost/garbled: [.. 4000; 4001; ..] comes back as [.. 4000; 206; 0; 0; 0] *)
Definition ex_9w : packed := get_ok (do a <- new true 4000; extend true a [1;2;3;4;5;6;1;2;3]).
Definition ex_5w : packed :=
  get_ok (do a <- new true 4000; extend true a [4000;4001;4002;4003;4004]).

Theorem concat_no_overflow_large_k_refuted :
  exists a b k, wf a /\ wf b /\ bits a = bits b /\ k = 20 /\
    exists c, k_concat false a b k = Ok c /\ wfb c = false /\
              iter c = [1;2;3;4;5;6;1;2;3;4000;206;0;0;0].
Proof.
  exists ex_9w, ex_5w, 20.
  repeat (split; [vm_compute; reflexivity|]).
  eexists. split; [vm_compute; reflexivity|]. split; vm_compute; reflexivity.
Qed.

(** ** What the abstract k-concatenation is, in textbook terms *)
Lemma firstn_min {A} n (l : list A) : firstn (Nat.min n (length l)) l = firstn n l.
Proof.
  destruct (Nat.le_ge_cases n (length l)) as [H|H].
  - rewrite Nat.min_l by assumption. reflexivity.
  - rewrite Nat.min_r by assumption. rewrite firstn_all, firstn_all2 by assumption. reflexivity.
Qed.

Theorem a_concat_eps_r k L : a_concat k L [Eps] = L.
Proof. reflexivity. Qed.
Theorem a_concat_nil_r k L : a_concat k L [] = L.
Proof. unfold a_concat, g_concat. cbn [g_is_eps is_nil orb]. reflexivity. Qed.
Theorem a_concat_eps_l k L :
  a_is_eps L = false -> L <> [] -> a_concat k [Eps] L = a_concat k [] L.
Proof.
  unfold a_is_eps, a_concat, g_concat. intros E Hn. rewrite E.
  destruct L as [|x r]; [contradiction Hn; reflexivity|]. reflexivity.
Qed.

Lemma In_firstn {A} (x : A) n l : In x (firstn n l) -> In x l.
Proof.
  intro H. rewrite <- (firstn_skipn n l). apply in_or_app. left. exact H.
Qed.

(** for proper (non-epsilon, non-empty right operand) strings: [L1] if it is already
    k-long or ends in [$], else the k-prefix of [L1 ++ L2] *)
Theorem a_concat_firstn k L1 L2 :
  a_is_eps L1 = false -> a_is_eps L2 = false -> L2 <> [] ->
  a_concat k L1 L2 =
  if (k <=? lenN L1) || a_last_end L1 then L1 else firstn (N.to_nat k) (L1 ++ L2).
Proof.
  unfold a_is_eps, a_concat, a_last_end, g_concat. intros E1 E2 Hn.
  rewrite E1, E2. destruct L2 as [|x2 r2]; [contradiction Hn; reflexivity|].
  cbn [is_nil orb]. unfold g_complete. rewrite E1. cbn [negb andb].
  destruct (N.leb_spec k (lenN L1)) as [H|H]; [reflexivity|]. cbn [orb].
  destruct (g_last_end t_isD L1); [reflexivity|].
  rewrite firstn_app. unfold lenN in *.
  rewrite (firstn_all2 L1) by lia. f_equal.
  replace (N.to_nat (N.min (k - N.min (N.of_nat (length L1)) k)
                           (N.min (N.of_nat (length (x2 :: r2))) k)))
    with (Nat.min (N.to_nat k - length L1) (length (x2 :: r2))) by lia.
  apply firstn_min.
Qed.

(** epsilon discipline: epsilon only ever occurs as the one-element sequence *)
Definition eps_free (L : list term) : Prop := ~ In Eps L.
Definition eps_disciplined (L : list term) : Prop := L = [Eps] \/ eps_free L.

Lemma a_is_eps_false_free L : eps_disciplined L -> a_is_eps L = false -> eps_free L.
Proof. intros [->|H] E; [discriminate | assumption]. Qed.

Theorem a_push_disciplined L x L' :
  eps_free L -> x <> Eps -> a_push L x = Some L' -> eps_free L'.
Proof.
  unfold a_push, g_push, eps_free. intros HL Hx.
  destruct (MAX_K <=? lenN L); [discriminate|].
  destruct (g_last_end t_isD L); intro E; apply Some_inj in E; subst L'; [assumption|].
  intro Hin. apply in_app_or in Hin. destruct Hin as [Hin|[Hin|[]]]; [auto | congruence].
Qed.

Theorem a_concat_disciplined k L1 L2 :
  eps_disciplined L1 -> eps_disciplined L2 -> eps_disciplined (a_concat k L1 L2).
Proof.
  intros H1 H2. unfold a_concat, g_concat.
  destruct (g_is_eps t_isE L2 || is_nil L2) eqn:E2; [assumption|].
  apply orb_false_elim in E2. destruct E2 as [E2 _].
  pose proof (a_is_eps_false_free L2 H2 E2) as F2.
  assert (F1 : eps_free (if g_is_eps t_isE L1 then [] else L1)).
  { destruct (g_is_eps t_isE L1) eqn:E1; [intros []|]. apply a_is_eps_false_free; assumption. }
  destruct (g_complete t_isE t_isD k (if g_is_eps t_isE L1 then [] else L1));
    right; [assumption|].
  intro Hin. apply in_app_or in Hin. destruct Hin as [Hin|Hin]; [exact (F1 Hin)|].
  apply F2. eapply In_firstn; eassumption.
Qed.

(** ** Examples: the hypotheses of the theorems above are satisfiable *)
Definition ex_a : packed := get_ok (do a <- new true 6; extend true a [1;2;3]).
Definition ex_b : packed := get_ok (do a <- new true 6; extend true a [4;5;6]).
Definition ex_e : packed := get_ok (eps true 6).

Example ex_denote_a : denote ex_a = Some [Trm 1; Trm 2; Trm 3] /\ wf ex_a /\ bits ex_a = 3.
Proof. repeat split; vm_compute; reflexivity. Qed.
Example ex_denote_b : denote ex_b = Some [Trm 4; Trm 5; Trm 6] /\ wf ex_b /\ bits ex_a = bits ex_b.
Proof. repeat split; vm_compute; reflexivity. Qed.
Example ex_new_hyp : (6 <= 4094) /\ (2 ^ 3 - 2 = 6) /\ new true 6 = Ok (pk 3 []).
Proof. repeat split; vm_compute; try reflexivity; discriminate. Qed.
Example ex_arg_ok : arg_ok ex_a 4 /\ arg_ok ex_a EPS /\ Forall (arg_ok ex_a) [4; 0; 5].
Proof.
  assert (H : forall x, x <= 7 -> arg_ok ex_a x) by (intros x Hx; left; exact Hx).
  split; [apply H; vm_compute; discriminate|]. split; [right; reflexivity|].
  apply Forall_forall. intros x [<-|[<-|[<-|[]]]]; apply H; vm_compute; discriminate.
Qed.
Example ex_push :
  exists p', push true ex_a 4 = Ok (Some p') /\ denote p' = Some [Trm 1; Trm 2; Trm 3; Trm 4].
Proof. eexists. split; [vm_compute; reflexivity | vm_compute; reflexivity]. Qed.
Example ex_k_concat_hyp :
  denote ex_a = Some [Trm 1; Trm 2; Trm 3] /\ denote ex_b = Some [Trm 4; Trm 5; Trm 6] /\
  bits ex_a = bits ex_b /\ 5 <= MAX_K /\
  a_concat 5 [Trm 1; Trm 2; Trm 3] [Trm 4; Trm 5; Trm 6] = [Trm 1; Trm 2; Trm 3; Trm 4; Trm 5] /\
  exists c, k_concat true ex_a ex_b 5 = Ok c /\
            denote c = Some [Trm 1; Trm 2; Trm 3; Trm 4; Trm 5].
Proof.
  repeat (split; [vm_compute; try reflexivity; discriminate|]).
  eexists. split; [vm_compute; reflexivity | vm_compute; reflexivity].
Qed.
Example ex_concat_no_overflow_hyp :
  a_is_eps [Trm 1; Trm 2; Trm 3] = false /\ a_complete 5 [Trm 1; Trm 2; Trm 3] = false /\
  a_is_eps [Trm 4; Trm 5; Trm 6] = false /\ [Trm 4; Trm 5; Trm 6] <> [].
Proof. repeat split; try (vm_compute; reflexivity). discriminate. Qed.
Example ex_eps_concat :
  denote ex_e = Some [Eps] /\
  exists c, k_concat true ex_e ex_b 2 = Ok c /\ denote c = Some [Trm 4; Trm 5] /\
            a_concat 2 [Eps] [Trm 4; Trm 5; Trm 6] = [Trm 4; Trm 5].
Proof.
  split; [vm_compute; reflexivity|]. eexists.
  split; [vm_compute; reflexivity|]. split; vm_compute; reflexivity.
Qed.
Example ex_cmp :
  cmp ex_a ex_b = Ok Lt /\ seq_cmp (mask ex_a) [Trm 1; Trm 2; Trm 3] [Trm 4; Trm 5; Trm 6] = Lt /\
  cmp ex_e ex_a = Ok Lt /\ wf ex_e.
Proof. repeat split; vm_compute; reflexivity. Qed.
Example ex_cmp_colex :
  (* [3;1] < [1;2] although 3 > 1: the last element decides *)
  (do a <- new true 6; do x <- extend true a [3;1]; do y <- extend true a [1;2]; cmp x y)
  = Ok Lt.
Proof. vm_compute. reflexivity. Qed.
Example ex_eps_never_hyp : exists p, new true 6 = Ok p /\ mask p = 7 /\ 6 < mask p.
Proof.
  eexists. split; [vm_compute; reflexivity|]. split; vm_compute; reflexivity.
Qed.
Example ex_kt :
  exists x y, kt_eps true 3 6 = Ok x /\ kt_of true ex_b 3 = Ok y /\
    kt_denote x = Some (false, [Eps], 3) /\
    kt_denote y = Some (true, [Trm 4; Trm 5; Trm 6], 3) /\ kt_bits x = kt_bits y /\
    exists z, kt_k_concat true x y 3 = Ok z /\
              kt_denote z = Some (true, [Trm 4; Trm 5; Trm 6], 3) /\ kt_canonical 3 z.
Proof.
  eexists. eexists. repeat (split; [vm_compute; reflexivity|]).
  eexists. split; [vm_compute; reflexivity|]. split; [vm_compute; reflexivity|].
  exists [Trm 4; Trm 5; Trm 6]. vm_compute. reflexivity.
Qed.
Example ex_kt_push :
  exists x, kt_of true ex_a 5 = Ok x /\ kt_denote x = Some (false, [Trm 1; Trm 2; Trm 3], 5) /\
            arg_ok (ts_inner (terminals x)) 4.
Proof.
  eexists. split; [vm_compute; reflexivity|]. split; [vm_compute; reflexivity|].
  left. vm_compute. discriminate.
Qed.

Print Assumptions wf_new.
Print Assumptions new_ok_iff.
Print Assumptions denote_eps.
Print Assumptions denote_end.
Print Assumptions denote_push.
Print Assumptions denote_extend.
Print Assumptions denote_of.
Print Assumptions denote_k_concat.
Print Assumptions denote_get.
Print Assumptions denote_last.
Print Assumptions denote_iter.
Print Assumptions denote_len.
Print Assumptions denote_k_len.
Print Assumptions denote_is_eps.
Print Assumptions denote_is_k_complete.
Print Assumptions denote_clear.
Print Assumptions eq_iff_denote.
Print Assumptions cmp_spec.
Print Assumptions cmp_total_order.
Print Assumptions eps_never_a_terminal.
Print Assumptions new_boundary_lo.
Print Assumptions new_boundary_hi.
Print Assumptions new_boundary_4095.
Print Assumptions concat_no_overflow.
Print Assumptions ktuple_abstract.
Print Assumptions denote_kt_k_concat.
Print Assumptions concat_canonical.
Print Assumptions canonical_eq_iff_seq.
Print Assumptions ktuple_eq_by_sequence_refuted.
Print Assumptions denote_kt_push.
Print Assumptions denote_kt_of.
Print Assumptions denote_k_concat_large_k_refuted.
Print Assumptions concat_no_overflow_large_k_refuted.
Print Assumptions ex_kt.
