(** Property C06 — FIRST_k and FOLLOW_k sets match their definitions.
    Pinned statements only.  [First]/[Follow] are defined by derivations (Analysis/KSeq.v);
    [first_ref]/[follow_ref] are the verified reference computations (Analysis/FirstFollow.v);
    the checkers of Analysis/FFCheck.v compare the sets claimed by the implementation (decoded
    from its packed tuples) with the reference, as sets.

    The reference is a pure function of (grammar, k): "regardless of the order in which the sets
    for different k are requested" is therefore a statement about the implementation's caches
    only, and is decided by the correspondence run (random request orders with repetitions on
    shared FirstCache/FollowCache instances), not by a theorem. *)
From Coq Require Import List NArith.
From Parol Require Import Grammar.Cfg Analysis.KSeq Analysis.FirstFollow Analysis.FFCheck.
Import ListNotations.

Theorem C06_first_ref_correct : forall fuel k g t, first_ref fuel k g = Some t ->
  forall a u, In a (nts g) -> (In u (lookup t a) <-> First k g [NT a] u).
Proof. exact first_ref_correct. Qed.

Theorem C06_first_prods_correct : forall fuel k g t, first_ref fuel k g = Some t ->
  forall i p, nth_error (prods g) i = Some p ->
  exists s, nth_error (first_prods k g t) i = Some s /\ forall u, In u s <-> First k g (rhs p) u.
Proof. exact first_prods_correct. Qed.

Theorem C06_follow_ref_correct : forall fuel fuel' k g ft wt,
  first_ref fuel k g = Some ft -> follow_ref fuel' k g ft = Some wt ->
  forall a u, In a (nts g) -> (In u (lookup wt a) <-> Follow k g a u).
Proof. exact follow_ref_correct. Qed.

(** What an accepted claim means. *)
Theorem C06_first_check_sound : forall fuel k g claimed,
  first_check fuel k g claimed = Some true ->
  forall a s, In (a, s) claimed -> forall u, In u s <-> First k g [NT a] u.
Proof. exact first_check_sound. Qed.

Theorem C06_first_prods_check_sound : forall fuel k g claimed,
  first_prods_check fuel k g claimed = Some true ->
  forall i p c, nth_error (prods g) i = Some p -> nth_error claimed i = Some c ->
  forall u, In u c <-> First k g (rhs p) u.
Proof. exact first_prods_check_sound. Qed.

Theorem C06_follow_check_sound : forall fuel k g claimed,
  follow_check fuel k g claimed = Some true ->
  forall a s, In (a, s) claimed -> forall u, In u s <-> Follow k g a u.
Proof. exact follow_check_sound. Qed.

(** Non-vacuity: S -> A a | b ; A -> eps | c A  (S=0, A=1, a=5, b=6, c=7). *)
Example C06_nonvacuous :
  first_check 50 2 g1 [(0, [[7;7];[5];[6];[7;5]]); (1, [[];[7];[7;7]])]%N = Some true /\
  follow_check 50 2 g1 [(0, [[0]]); (1, [[5;0]])]%N = Some true /\
  follow_check 50 2 g1 [(1, [[5]])]%N = Some false.
Proof. vm_compute. repeat split. Qed.
