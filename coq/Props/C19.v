(** Property C19 — Generated parsers never crash and always terminate.
    Pinned statements (tools/pin.py).
    LL(k) (Runtime/LLTerm.v, Runtime/LLSound.v; faithful model Runtime/LLParser.v of LLKParser::parse_into incl. recovery):
    - ll_terminates_any_oracle: for tables that pass the basic well-formedness check and the boolean
      no-left-recursion certificate check rank_ok, for EVERY recovery oracle, recovery enabled or not, every option
      set and every token list there is a fuel for which the run does not end OutOfFuel (lexicographic measure:
      remaining error budget, unconsumed tokens, weighted nullable stack prefix, production-end markers).
    - ll_terminates: same for the faithful oracle, and more fuel never changes the result.
    - recovery_entries_bounded / ll_error_count_bounded: at most 100 error entries are ever collected; a run reports
      at most 101 ("Error recovery stops after a bounded amount of work").
    - ll_no_panic(_any_oracle): no indexing / unwrap site is reached for tables_ok tables.
    - lr_tables (Example in LLTerm.v): a left-recursive hand-made table passes tables_ok, fails rank_ok for every
      certificate and loops for ever: the certificate hypothesis is needed; it is evaluated on every real table.
    LR (Tables/LRTerm.v, Tables/LRValidate.v; faithful model Runtime/LRParser.v):
    - lr_terminates: for a table that passes the safety validator for grammar g, with g certified acyclic
      (acyclic_ok) and the stack-rank certificate (stack_rank_ok: runs of possibly-empty subtrees on the parser stack are bounded; only goto edges in a checked, closed set E of (lookahead, state, non-terminal) triples on which an empty subtree can be pushed under that lookahead count; ranks are per lookahead, because no token is shifted while empty subtrees pile up), the run with the EXPLICIT fuel lr_fuel_bound
      never ends OutOfFuel, for every token list; lr_terminates_any_fuel: more fuel gives the same result.
    - lr_terminates_refuted: without the stack-rank certificate the statement is false (a safe but non-LR table
      pushes a nullable non-terminal for ever), so that certificate is a genuine per-table obligation.
    - cyc_loops / cyc_never_acyclic: for the cyclic grammar S: A; A: A | a the (validated) table loops for ever
      and no acyclicity certificate exists — the known defect D15 of the real parser is exactly this case.
    - lr_no_panic / lr_no_internal_error: no panic site / internal error is reachable for validated tables. *)
From Coq Require Import List NArith.
From Parol Require Import Grammar.Cfg Runtime.DfaEval Runtime.LLParser Runtime.LLSound Runtime.LLTerm.
Import ListNotations.

Theorem C19_ll_terminates_any_oracle :
  forall (orc : oracle) (tb : ll_tables) (opts : options) (toks : list N) 
  (nl : list bool) (rk : list N),
  tables_ok_basic tb = true ->
  rank_ok tb nl rk = true -> exists fuel : nat, ll_run_with orc fuel tb opts toks <> OutOfFuel.
Proof. exact ll_terminates_any_oracle. Qed.

Theorem C19_ll_terminates :
  forall (tb : ll_tables) (opts : options) (toks : list N) (nl : list bool) (rk : list N),
  tables_ok tb = true ->
  rank_ok tb nl rk = true ->
  exists fuel : nat,
  forall extra : nat,
  ll_run (fuel + extra) tb opts toks <> OutOfFuel /\
  ll_run (fuel + extra) tb opts toks = ll_run fuel tb opts toks.
Proof. exact ll_terminates. Qed.

Theorem C19_ll_terminates_no_recovery :
  forall (tb : ll_tables) (opts : options) (toks : list N) (nl : list bool) (rk : list N),
  tables_ok tb = true ->
  rank_ok tb nl rk = true ->
  o_recovery opts = false ->
  exists fuel : nat,
  forall fuel' : nat, fuel <= fuel' -> ll_run fuel' tb opts toks <> OutOfFuel.
Proof. exact ll_terminates_no_recovery. Qed.

Theorem C19_recovery_entries_bounded :
  forall (orc : oracle) (tb : ll_tables) (opts : options) (s0 : stream) (c0 c : config),
  ll_init orc tb opts s0 = Continue c0 ->
  run_reaches orc tb opts c0 c -> length (c_errs c) <= 100.
Proof. exact recovery_entries_bounded. Qed.

Theorem C19_ll_error_count_bounded :
  forall (orc : oracle) (fuel : nat) (tb : ll_tables) (opts : options) 
  (toks : list N) (r : reject) (n : nat),
  ll_run_with orc fuel tb opts toks = Rejected r n -> n <= 101.
Proof. exact ll_error_count_bounded. Qed.

Theorem C19_ll_no_panic :
  forall (fuel : nat) (tb : ll_tables) (opts : options) (toks : list N) (site : nat),
  tables_ok tb = true ->
  forallb (fun t : N => (t <? tb_nterms tb)%N) toks = true ->
  ll_run fuel tb opts toks <> Panic site.
Proof. exact ll_no_panic. Qed.

Theorem C19_ll_no_panic_any_oracle :
  forall (orc : oracle) (fuel : nat) (tb : ll_tables) (opts : options) 
  (toks : list N) (site : nat),
  tables_ok tb = true ->
  o_recovery opts = false \/ oracle_ok orc tb ->
  forallb (fun t : N => (t <? tb_nterms tb)%N) toks = true ->
  ll_run_with orc fuel tb opts toks <> Panic site.
Proof. exact ll_no_panic_any_oracle. Qed.

(* ---------------------------------------------------------------- LR (imported here: LRParser re-uses constructor names of LLParser) *)
From Parol Require Import Runtime.LRParser Tables.LRValidate Tables.LRTerm.

Theorem C19_eps_tree_bound :
  forall (g : cfg) (nl : list bool) (rk : list N),
  acyclic_ok g nl rk = true ->
  forall t : tree, tree_ok g t -> yield t = [] -> nodes t <= eps_max g rk.
Proof. exact eps_tree_bound. Qed.

Theorem C19_tree_size_bound :
  forall (g : cfg) (nl : list bool) (rk : list N),
  acyclic_ok g nl rk = true ->
  forall t : tree, tree_ok g t -> nodes t <= tree_bound g rk (length (yield t)).
Proof. exact tree_size_bound. Qed.

Theorem C19_lr_terminates :
  forall (g : cfg) (tb : lr_table) (ann : annotation) (nl : list bool) 
  (rk : list N) (E : list etriple) (srk : list (N * list N)) (toks : list N),
  lr_safe_check g tb ann = true ->
  acyclic_ok g nl rk = true ->
  stack_rank_ok g tb nl ann E srk = true ->
  lr_run (lr_fuel_bound g rk srk toks) tb toks <> OutOfFuel.
Proof. exact lr_terminates. Qed.

Theorem C19_lr_terminates_any_fuel :
  forall (g : cfg) (tb : lr_table) (ann : annotation) (nl : list bool) 
  (rk : list N) (E : list etriple) (srk : list (N * list N)) (toks : list N) 
  (fuel : nat),
  lr_safe_check g tb ann = true ->
  acyclic_ok g nl rk = true ->
  stack_rank_ok g tb nl ann E srk = true ->
  lr_fuel_bound g rk srk toks <= fuel ->
  lr_run fuel tb toks = lr_run (lr_fuel_bound g rk srk toks) tb toks /\
  lr_run fuel tb toks <> OutOfFuel.
Proof. exact lr_terminates_any_fuel. Qed.

Theorem C19_lr_terminates_ex :
  forall (g : cfg) (tb : lr_table) (ann : annotation) (nl : list bool) 
  (rk : list N) (E : list etriple) (srk : list (N * list N)),
  lr_safe_check g tb ann = true ->
  acyclic_ok g nl rk = true ->
  stack_rank_ok g tb nl ann E srk = true ->
  forall toks : list N, exists fuel : nat, lr_run fuel tb toks <> OutOfFuel.
Proof. exact lr_terminates_ex. Qed.

Theorem C19_lr_terminates_refuted :
  exists (g : cfg) (tb : lr_table) (ann : annotation) (nl : list bool) 
  (rk toks : list N),
  lr_safe_check g tb ann = true /\
  acyclic_ok g nl rk = true /\ (forall fuel : nat, lr_run fuel tb toks = OutOfFuel).
Proof. exact lr_terminates_refuted. Qed.

Theorem C19_cyc_never_acyclic :
  forall (nl : list bool) (rk : list N), acyclic_ok cyc_g nl rk = false.
Proof. exact cyc_never_acyclic. Qed.

Theorem C19_cyc_loops :
  forall fuel : nat, lr_run fuel cyc_tb [5%N] = OutOfFuel.
Proof. exact cyc_loops. Qed.

Theorem C19_lr_no_panic :
  forall (g : cfg) (tb : lr_table) (ann : annotation) (fuel : nat) 
  (toks : list N) (site : nat),
  lr_safe_check g tb ann = true ->
  Forall (fun t : N => (t < lr_nterm tb)%N) toks -> lr_run fuel tb toks <> Panic site.
Proof. exact lr_no_panic. Qed.

Theorem C19_lr_no_internal_error :
  forall (g : cfg) (tb : lr_table) (ann : annotation) (fuel : nat) 
  (toks : list N) (site : nat),
  lr_safe_check g tb ann = true -> lr_run fuel tb toks <> InternalErr site.
Proof. exact lr_no_internal_error. Qed.

