(** Property C02 — LL(k) parse trees and semantic actions follow the leftmost derivation.
    Pinned statements (tools/pin.py); proofs in Runtime/LLSound.v. *)
From Coq Require Import List NArith.
From Parol Require Import Grammar.Cfg Runtime.DfaEval Runtime.LLParser Runtime.LLSound.
Import ListNotations.

Theorem C02_ll_tree_ok :
  forall (fuel : nat) (tb : ll_tables) (opts : options) (toks : list N)
  (acts : list (N * list sym)) (evs : list event),
  tables_ok tb = true ->
  o_trim opts = false ->
  ll_run fuel tb opts toks = Accepted acts evs ->
  exists t : tree,
  events_to_tree evs = Some t /\
  tree_ok (grammar_of tb) t /\ yield t = toks /\ root_sym t = NT (start (grammar_of tb)).
Proof. exact ll_tree_ok. Qed.

Theorem C02_ll_actions_postorder :
  forall (fuel : nat) (tb : ll_tables) (opts : options) (toks : list N)
  (acts : list (N * list sym)) (evs : list event),
  tables_ok tb = true ->
  ll_run fuel tb opts toks = Accepted acts evs ->
  exists t : tree,
  (o_trim opts = false -> events_to_tree evs = Some t) /\
  tree_ok (grammar_of tb) t /\
  yield t = toks /\
  root_sym t = NT (start (grammar_of tb)) /\ Forall2 (action_ok tb) acts (postorder t).
Proof. exact ll_actions_postorder. Qed.

Theorem C02_ll_actions_numbers :
  forall (fuel : nat) (tb : ll_tables) (opts : options) (toks : list N)
  (acts : list (N * list sym)) (evs : list event),
  tables_ok tb = true ->
  ll_run fuel tb opts toks = Accepted acts evs ->
  exists t : tree,
  (o_trim opts = false -> events_to_tree evs = Some t) /\
  yield t = toks /\
  map (fun a : N * list sym => prod_of_number tb (fst a)) acts = map Some (postorder t) /\
  map (fun a : N * list sym => Some (snd a)) acts =
  map (fun pr : prod => Some (rhs pr)) (postorder t).
Proof. exact ll_actions_numbers. Qed.

Theorem C02_ll_trim_events :
  forall (orc : oracle) (fuel : nat) (tb : ll_tables) (opts : options) 
  (toks : list N) (acts : list (N * list sym)) (evs : list event),
  o_trim opts = true ->
  ll_run_with orc fuel tb opts toks = Accepted acts evs -> evs = [OpenRoot; Close].
Proof. exact ll_trim_events. Qed.

