(** Property C33 — Generated identifiers are unique and valid. Pinned statements (tools/pin.py); proofs in Gen2/Idents.v, Transform/Names.v (ASCII domain). *)
From Coq Require Import List NArith String.
From Parol Require Import Transform.Names Gen2.Idents.
Import ListNotations.

Theorem C33_terminal_names_nodup :
  forall prefs : list string, NoDup (generate_terminal_names prefs).
Proof. exact terminal_names_nodup. Qed.

Theorem C33_terminal_names_valid :
  forall prefs : list string,
  Forall (fun s : string => valid_ident s = true) prefs ->
  Forall (fun s : string => valid_ident s = true) (generate_terminal_names prefs).
Proof. exact terminal_names_valid. Qed.

Theorem C33_generate_name_preserves_valid :
  forall (excl : list string) (pref : string),
  valid_ident pref = true -> valid_ident (generate_name excl pref) = true.
Proof. exact generate_name_preserves_valid. Qed.

Theorem C33_terminal_name_valid :
  forall s : string, s <> ""%string -> valid_ident (terminal_name_of s) = true.
Proof. exact terminal_name_valid. Qed.

Theorem C33_camel_case_valid :
  forall s : string,
  name_chars s = true -> has_alnum s = true -> valid_ident (to_upper_camel_case s) = true.
Proof. exact camel_case_valid. Qed.

Theorem C33_snake_case_valid :
  forall s : string,
  name_chars s = true -> s <> ""%string -> valid_ident (unraw (to_lower_snake_case s)) = true.
Proof. exact snake_case_valid. Qed.

Theorem C33_camel_case_keyword_refuted :
  exists s : string,
  name_chars s = true /\
  has_letter s = true /\
  is_rust_keyword (to_upper_camel_case s) = true /\
  rust_ident_ok (to_upper_camel_case s) = false.
Proof. exact camel_case_keyword_refuted. Qed.

Theorem C33_snake_case_raw_refuted :
  exists s : string,
  name_chars s = true /\
  has_letter s = true /\
  to_lower_snake_case s = "r#self"%string /\ rust_ident_ok (to_lower_snake_case s) = false.
Proof. exact snake_case_raw_refuted. Qed.

Theorem C33_camel_case_empty_refuted :
  exists s : string,
  name_chars s = true /\ valid_ident s = true /\ to_upper_camel_case s = ""%string.
Proof. exact camel_case_empty_refuted. Qed.

Theorem C33_snake_case_underscore_refuted :
  exists s : string,
  name_chars s = true /\
  valid_ident s = true /\
  to_lower_snake_case s = "_"%string /\ rust_ident_ok (to_lower_snake_case s) = false.
Proof. exact snake_case_underscore_refuted. Qed.

