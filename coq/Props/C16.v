(** Property C16 — Unmatched input is an error unless explicitly allowed.
    Pinned statements only.

    Model side: a scanner mode whose patterns (those without a look-ahead condition) match every
    single code point never leaves a gap — the longest-match rule finds a token at every position
    (C16_total_mode_no_gap); [total_on_chars_list_cex] decides that totality for a regex list and
    returns a counterexample code point otherwise.  In a mode without %allow_unmatched parol
    appends the catch-all ERROR_TOKEN, whose token type occurs in no production, so a parse that
    meets it fails (soundness of the parsers: C01/C03).

    Finding D5: ERROR_TOKEN is "." which does not match LINE FEED; with %auto_newline_off and no
    terminal matching a line break, a stray line feed is a gap and is silently skipped although
    %allow_unmatched is off. *)
From Coq Require Import List NArith.
From Parol Require Import Scanner.Regex Scanner.RegexEquiv Scanner.LongestMatch Scanner.NoGap.
Import ListNotations.

Theorem C16_total_mode_no_gap : forall es,
  total_on_chars_list_cex (plain_patterns es) = None ->
  forall c s, is_code_point c -> best_match es (c :: s) <> None.
Proof. exact total_mode_no_gap. Qed.

Theorem C16_total_on_chars_list_sound :
  forall rs : list regex,
  total_on_chars_list_cex rs = None ->
  forall c : N, is_code_point c -> exists r : regex, In r rs /\ matches r [c].
Proof. exact total_on_chars_list_sound. Qed.

Theorem C16_total_on_chars_list_cex_sound :
  forall (rs : list regex) (c : N),
  total_on_chars_list_cex rs = Some c ->
  is_code_point c /\ (forall r : regex, In r rs -> ~ matches r [c]).
Proof. exact total_on_chars_list_cex_sound. Qed.

Theorem C16_total_on_chars_check_sound :
  forall r : regex,
  total_on_chars_check r = true -> forall c : N, is_code_point c -> matches r [c].
Proof. exact total_on_chars_check_sound. Qed.

Theorem C16_total_on_chars_cex_sound :
  forall (r : regex) (c : N),
  total_on_chars_cex r = Some c -> is_code_point c /\ ~ matches r [c].
Proof. exact total_on_chars_cex_sound. Qed.

(** "." (everything but LINE FEED) is not total; "." together with the newline rule is. *)
Example C16_dot_not_total : total_on_chars_cex (Cls [(0, 9); (11, 1114111)]%N) = Some 10%N.
Proof. vm_compute. reflexivity. Qed.

Example C16_dot_with_newline_total :
  total_on_chars_list_cex [Cls [(0, 9); (11, 1114111)]%N; Cls [(10, 10)]%N] = None.
Proof. vm_compute. reflexivity. Qed.
