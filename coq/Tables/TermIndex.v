(** * Terminal identity: all generated parts agree on the token number of a terminal (C18)

    Rust code modelled (crates/parol/src):

    - grammar/symbol.rs, [TerminalKind::behaves_like]: [Legacy] and [Regex] behave alike, [Raw]
      only like [Raw].
    - parser/parol_grammar.rs, [LookaheadExpression { is_positive, pattern, kind }] with DERIVED
      [PartialEq]: two lookahead expressions are equal iff all three fields are equal (the kinds
      are compared exactly here, [Legacy <> Regex]).
    - grammar/cfg.rs, [get_ordered_terminals]: a fold over all right-hand-side terminal
      occurrences, in order; an occurrence [(t, k, l)] is pushed unless
      [acc.iter().position(|(trm, knd, la, _)| trm == t && knd.behaves_like(k) && la == l)]
      finds an entry (then only the scanner states are united, which is not modelled here).
    - grammar/cfg.rs, [get_terminal_index_function]:
      [vec.iter().position(|(t0, k0, l0)| t == t0 && k.behaves_like(k0) && l0 == l).unwrap()
        + FIRST_USER_TOKEN]      (the [unwrap] panic is [None] here).
    - generators/scanner_config.rs: entry [i] of [get_ordered_terminals] gets token number
      [i + FIRST_USER_TOKEN]   ([FIRST_USER_TOKEN = 5]).
    - generators/parser_model.rs, [build_production_model], at HEAD:
      [[
      let get_terminal_index = |tr: &str, l: &Option<LookaheadExpression>| -> Result<TerminalIndex> {
          terminals.iter()
              .position(|(t, _, look, _)| *t == tr && look == l)
              .map(|i| i as TerminalIndex + parol_runtime::lexer::FIRST_USER_TOKEN)
              .ok_or_else(|| anyhow!("Terminal '{}' with lookahead not found", tr))
      };
      ...  Symbol::T(Terminal::Trm(t, _, _, attr, _, _, l0)) => get_terminal_index(t, l0)
      ]]
      The kind of the occurrence is not even passed to the lookup, the kind of the table entry is
      ignored ([_]): DEFECT D8 is real, see [index_of_pm_refuted].
    - generators/grammar_type_generator.rs, [get_terminal_index(&k.expand(t))] =
      [self.terminals.iter().position(|t| t.0 == tr).unwrap()] where
      [terminals = ordered terminals mapped to (k.expand(t), l)]: a lookup by EXPANDED TEXT ONLY
      (used to pick the terminal NAME for member/type names, not a token number).  It ignores the
      lookahead expression: [index_of_gt_refuted].

    Characters are [N] (Unicode scalar values), texts are [list N]. *)
From Coq Require Import List NArith Arith Bool Lia SetoidList.
Import ListNotations.

(** ** Occurrences *)
Inductive kind := K_Legacy | K_Regex | K_Raw.

Definition lookahead := option (bool * list N * kind).
Definition occurrence := (list N * kind * lookahead)%type.

Definition o_text (o : occurrence) : list N := fst (fst o).
Definition o_kind (o : occurrence) : kind := snd (fst o).
Definition o_la (o : occurrence) : lookahead := snd o.

Definition first_user_token : N := 5%N.

(** [TerminalKind::behaves_like]. *)
Definition behaves_like (a b : kind) : bool :=
  match a with
  | K_Legacy | K_Regex => match b with K_Legacy | K_Regex => true | K_Raw => false end
  | K_Raw => match b with K_Legacy | K_Regex => false | K_Raw => true end
  end.

(** Derived [PartialEq] of [TerminalKind]. *)
Definition kind_eqb (a b : kind) : bool :=
  match a, b with
  | K_Legacy, K_Legacy | K_Regex, K_Regex | K_Raw, K_Raw => true
  | _, _ => false
  end.

Fixpoint text_eqb (a b : list N) : bool :=
  match a, b with
  | [], [] => true
  | x :: a', y :: b' => N.eqb x y && text_eqb a' b'
  | _, _ => false
  end.

(** Derived [PartialEq] of [Option<LookaheadExpression>]. *)
Definition la_eqb (a b : lookahead) : bool :=
  match a, b with
  | None, None => true
  | Some (p1, t1, k1), Some (p2, t2, k2) => Bool.eqb p1 p2 && text_eqb t1 t2 && kind_eqb k1 k2
  | _, _ => false
  end.

(** "The same terminal": same text, kinds that behave alike, same lookahead expression. *)
Definition same_terminal (a b : occurrence) : bool :=
  text_eqb (o_text a) (o_text b) && behaves_like (o_kind a) (o_kind b) && la_eqb (o_la a) (o_la b).

(** ** [get_ordered_terminals]
    The accumulator is kept reversed ([push] = cons); the test is the closure of the Rust code:
    [entry.text == t && entry.kind.behaves_like(k) && entry.la == l]. *)
Definition ot_step (acc_rev : list occurrence) (o : occurrence) : list occurrence :=
  if existsb (fun e => same_terminal e o) acc_rev then acc_rev else o :: acc_rev.

Definition ordered_terminals (occs : list occurrence) : list occurrence :=
  rev (fold_left ot_step occs []).

(** [Iterator::position]. *)
Fixpoint position {A} (p : A -> bool) (l : list A) : option nat :=
  match l with
  | [] => None
  | x :: l' => if p x then Some 0 else option_map S (position p l')
  end.

Definition index_in (ordered : list occurrence) (p : occurrence -> bool) : option N :=
  option_map (fun i => (N.of_nat i + first_user_token)%N) (position p ordered).

(** [get_terminal_index_function]: the closure is [t == t0 && k.behaves_like(k0) && l0 == l]
    where [(t, k, l)] is the query and [(t0, k0, l0)] the table entry.  [None] = [unwrap] panic. *)
Definition tif_pred (o e : occurrence) : bool :=
  text_eqb (o_text o) (o_text e) && behaves_like (o_kind o) (o_kind e) && la_eqb (o_la e) (o_la o).

Definition index_of (occs : list occurrence) (o : occurrence) : option N :=
  index_in (ordered_terminals occs) (tif_pred o).

(** [build_production_model]'s [get_terminal_index] at HEAD: [*t == tr && look == l], no kind.
    [None] = the [Err] result. *)
Definition pm_pred (o e : occurrence) : bool :=
  text_eqb (o_text e) (o_text o) && la_eqb (o_la e) (o_la o).

Definition index_of_pm (occs : list occurrence) (o : occurrence) : option N :=
  index_in (ordered_terminals occs) (pm_pred o).

(** The REPAIRED lookup: [*t == tr && knd.behaves_like(k) && look == l]. *)
Definition pm_fixed_pred (o e : occurrence) : bool :=
  text_eqb (o_text e) (o_text o) && behaves_like (o_kind e) (o_kind o) && la_eqb (o_la e) (o_la o).

Definition index_of_pm_fixed (occs : list occurrence) (o : occurrence) : option N :=
  index_in (ordered_terminals occs) (pm_fixed_pred o).

(** ** The checker for the harness
    [ordered]: the terminal table of the grammar (text, kind, lookahead of entry [i], which has
    token number [i + 5]), [claims]: pairs (occurrence, token number some generated part uses for
    it).  Every claimed number must be [>= 5] and denote an entry that is the same terminal. *)
Definition claim_ok (ordered : list occurrence) (c : occurrence * N) : bool :=
  let '(o, i) := c in
  N.leb first_user_token i &&
  match nth_error ordered (N.to_nat (i - first_user_token)) with
  | Some e => same_terminal e o
  | None => false
  end.

Definition terminal_agreement_check (ordered : list occurrence) (claims : list (occurrence * N)) : bool :=
  forallb (claim_ok ordered) claims.

(** The table itself must not contain the same terminal twice ([ordered_terminals_nodup] says the
    Rust function guarantees it; this is the executable test for a table read from elsewhere). *)
Fixpoint table_nodup_check (ordered : list occurrence) : bool :=
  match ordered with
  | [] => true
  | e :: r => negb (existsb (same_terminal e) r) && table_nodup_check r
  end.

(** ** Basic facts: [same_terminal] is an equivalence *)
Lemma text_eqb_eq a : forall b, text_eqb a b = true <-> a = b.
Proof.
  induction a as [|x a IH]; intros [|y b]; cbn [text_eqb]; split; intros H;
    try reflexivity; try discriminate.
  - apply andb_true_iff in H as [H1 H2]. apply N.eqb_eq in H1. apply IH in H2. congruence.
  - inversion H; subst. rewrite N.eqb_refl. cbn. apply IH. reflexivity.
Qed.

Lemma kind_eqb_eq a b : kind_eqb a b = true <-> a = b.
Proof. destruct a, b; cbn; split; intros H; congruence. Qed.

Lemma la_eqb_eq a b : la_eqb a b = true <-> a = b.
Proof.
  destruct a as [[[p1 t1] k1]|], b as [[[p2 t2] k2]|]; cbn [la_eqb]; split; intros H;
    try reflexivity; try discriminate.
  - apply andb_true_iff in H as [H H3]. apply andb_true_iff in H as [H1 H2].
    apply Bool.eqb_prop in H1. apply text_eqb_eq in H2. apply kind_eqb_eq in H3. congruence.
  - inversion H; subst. rewrite Bool.eqb_reflx.
    replace (text_eqb t2 t2) with true by (symmetry; apply text_eqb_eq; reflexivity).
    replace (kind_eqb k2 k2) with true by (symmetry; apply kind_eqb_eq; reflexivity). reflexivity.
Qed.

Lemma behaves_like_refl a : behaves_like a a = true.
Proof. destruct a; reflexivity. Qed.
Lemma behaves_like_sym a b : behaves_like a b = behaves_like b a.
Proof. destruct a, b; reflexivity. Qed.
Lemma behaves_like_trans a b c :
  behaves_like a b = true -> behaves_like b c = true -> behaves_like a c = true.
Proof. destruct a, b, c; cbn; congruence. Qed.

Lemma same_terminal_iff a b :
  same_terminal a b = true <->
  o_text a = o_text b /\ behaves_like (o_kind a) (o_kind b) = true /\ o_la a = o_la b.
Proof.
  unfold same_terminal. rewrite !andb_true_iff, text_eqb_eq, la_eqb_eq. tauto.
Qed.

Lemma same_terminal_refl a : same_terminal a a = true.
Proof. apply same_terminal_iff. repeat split. apply behaves_like_refl. Qed.

Lemma same_terminal_sym a b : same_terminal a b = true -> same_terminal b a = true.
Proof.
  rewrite !same_terminal_iff. intros (H1 & H2 & H3).
  rewrite behaves_like_sym. repeat split; congruence.
Qed.

Lemma same_terminal_trans a b c :
  same_terminal a b = true -> same_terminal b c = true -> same_terminal a c = true.
Proof.
  rewrite !same_terminal_iff. intros (H1 & H2 & H3) (H4 & H5 & H6).
  repeat split; try congruence. exact (behaves_like_trans _ _ _ H2 H5).
Qed.

Definition sameP (a b : occurrence) : Prop := same_terminal a b = true.

Lemma sameP_equiv : Equivalence sameP.
Proof.
  split.
  - intros a. apply same_terminal_refl.
  - intros a b. apply same_terminal_sym.
  - intros a b c. apply same_terminal_trans.
Qed.

(** The three closures, as relations between the query and a table entry. *)
Lemma tif_pred_iff o e : tif_pred o e = true <-> same_terminal o e = true.
Proof.
  unfold tif_pred. rewrite same_terminal_iff, !andb_true_iff, text_eqb_eq, la_eqb_eq.
  split; intros H; repeat split; try tauto; symmetry; tauto.
Qed.

Lemma pm_fixed_pred_iff o e : pm_fixed_pred o e = true <-> same_terminal o e = true.
Proof.
  unfold pm_fixed_pred. rewrite same_terminal_iff, !andb_true_iff, text_eqb_eq, la_eqb_eq.
  rewrite (behaves_like_sym (o_kind e)).
  split; intros H; repeat split; try tauto; symmetry; tauto.
Qed.

Lemma pm_pred_iff o e : pm_pred o e = true <-> o_text o = o_text e /\ o_la o = o_la e.
Proof.
  unfold pm_pred. rewrite !andb_true_iff, text_eqb_eq, la_eqb_eq.
  split; intros [H1 H2]; split; congruence.
Qed.

(** ** [position] *)
Lemma position_ext {A} (p q : A -> bool) l :
  (forall x, In x l -> p x = q x) -> position p l = position q l.
Proof.
  induction l as [|x l IH]; intros H; cbn [position]; [reflexivity|].
  rewrite (H x (or_introl eq_refl)). rewrite IH; [reflexivity|].
  intros y Hy. apply H. right. exact Hy.
Qed.

Lemma position_Some {A} (p : A -> bool) l : forall n,
  position p l = Some n ->
  exists x, nth_error l n = Some x /\ p x = true /\
            forall m y, m < n -> nth_error l m = Some y -> p y = false.
Proof.
  induction l as [|x l IH]; intros n H; cbn [position] in H; [discriminate|].
  destruct (p x) eqn:E.
  - inversion H; subst n. exists x. repeat split; [exact E|]. intros m y Hm. lia.
  - destruct (position p l) as [k|] eqn:Ek; [|discriminate]. cbn in H. inversion H; subst n.
    destruct (IH k eq_refl) as (z & Hz & Hpz & Hmin). exists z. repeat split; [exact Hz|exact Hpz|].
    intros [|m] y Hm Hy; cbn in Hy; [inversion Hy; subst; exact E|].
    apply (Hmin m y); [lia|exact Hy].
Qed.

Lemma position_exists {A} (p : A -> bool) l x :
  In x l -> p x = true -> exists n, position p l = Some n /\ n < length l.
Proof.
  induction l as [|y l IH]; intros Hin Hp; [destruct Hin|]. cbn [position length].
  destruct (p y) eqn:E; [exists 0; split; [reflexivity|lia]|].
  destruct Hin as [->|Hin]; [congruence|].
  destruct (IH Hin Hp) as (n & Hn & Hlt). exists (S n). rewrite Hn. split; [reflexivity|lia].
Qed.

Lemma position_None {A} (p : A -> bool) l :
  position p l = None -> forall x, In x l -> p x = false.
Proof.
  intros H x Hin. destruct (p x) eqn:E; [|reflexivity].
  destruct (position_exists p l x Hin E) as (n & Hn & _). congruence.
Qed.

(** ** [get_ordered_terminals] *)
Lemma ot_fold_inv occs : forall acc,
  NoDupA sameP acc ->
  let r := fold_left ot_step occs acc in
  NoDupA sameP r /\
  (forall x, In x r -> In x acc \/ In x occs) /\
  (forall x, In x acc \/ In x occs -> exists y, In y r /\ same_terminal y x = true).
Proof.
  induction occs as [|o occs IH]; intros acc Hnd; cbn [fold_left].
  - split; [exact Hnd|]. split; [intros x Hx; left; exact Hx|].
    intros x [Hx|[]]. exists x. split; [exact Hx|apply same_terminal_refl].
  - assert (Hnd' : NoDupA sameP (ot_step acc o)).
    { unfold ot_step. destruct (existsb (fun e => same_terminal e o) acc) eqn:E; [exact Hnd|].
      constructor; [|exact Hnd]. intros Hin. apply InA_alt in Hin as (y & Hy & Hin).
      assert (Ht : existsb (fun e => same_terminal e o) acc = true).
      { apply existsb_exists. exists y. split; [exact Hin|]. apply same_terminal_sym. exact Hy. }
      congruence. }
    specialize (IH _ Hnd'). cbv zeta in IH. destruct IH as (H1 & H2 & H3).
    split; [exact H1|]. split.
    + intros x Hx. destruct (H2 x Hx) as [Hx'|Hx']; [|right; right; exact Hx'].
      unfold ot_step in Hx'. destruct (existsb (fun e => same_terminal e o) acc);
        [left; exact Hx'|]. destruct Hx' as [<-|Hx']; [right; left; reflexivity|left; exact Hx'].
    + assert (Hstep : forall x, In x acc \/ x = o ->
                exists y, In y (ot_step acc o) /\ same_terminal y x = true).
      { intros x [Hx | ->].
        - exists x. split; [|apply same_terminal_refl]. unfold ot_step.
          destruct (existsb (fun e => same_terminal e o) acc); [exact Hx|right; exact Hx].
        - unfold ot_step. destruct (existsb (fun e => same_terminal e o) acc) eqn:E.
          + apply existsb_exists in E as (y & Hy & Hs). exists y. split; assumption.
          + exists o. split; [left; reflexivity|apply same_terminal_refl]. }
      intros x [Hx|[Hx|Hx]].
      * destruct (Hstep x (or_introl Hx)) as (y & Hy & Hs).
        destruct (H3 y (or_introl Hy)) as (z & Hz & Hs'). exists z. split; [exact Hz|].
        exact (same_terminal_trans _ _ _ Hs' Hs).
      * destruct (Hstep x (or_intror (eq_sym Hx))) as (y & Hy & Hs).
        destruct (H3 y (or_introl Hy)) as (z & Hz & Hs'). exists z. split; [exact Hz|].
        exact (same_terminal_trans _ _ _ Hs' Hs).
      * apply H3. right. exact Hx.
Qed.

Lemma ordered_terminals_NoDupA occs : NoDupA sameP (ordered_terminals occs).
Proof.
  unfold ordered_terminals. apply (NoDupA_rev sameP_equiv).
  apply (ot_fold_inv occs [] (NoDupA_nil _)).
Qed.

(** Every table entry is an occurrence of the grammar ... *)
Theorem ordered_terminals_in occs e : In e (ordered_terminals occs) -> In e occs.
Proof.
  unfold ordered_terminals. intros H. apply in_rev in H.
  destruct (ot_fold_inv occs [] (NoDupA_nil _)) as (_ & H2 & _).
  destruct (H2 e H) as [[]|Hin]. exact Hin.
Qed.

(** ... and every occurrence of the grammar has its table entry. *)
Theorem ordered_terminals_complete occs o :
  In o occs -> exists e, In e (ordered_terminals occs) /\ same_terminal o e = true.
Proof.
  intros Hin. destruct (ot_fold_inv occs [] (NoDupA_nil _)) as (_ & _ & H3).
  destruct (H3 o (or_intror Hin)) as (y & Hy & Hs). exists y. split.
  - unfold ordered_terminals. apply in_rev. rewrite rev_involutive. exact Hy.
  - apply same_terminal_sym. exact Hs.
Qed.

Lemma NoDupA_nth_inj (l : list occurrence) : NoDupA sameP l ->
  forall i j a b, nth_error l i = Some a -> nth_error l j = Some b ->
                  same_terminal a b = true -> i = j.
Proof.
  induction 1 as [|x l Hx Hnd IH]; intros i j a b Hi Hj Hs.
  - destruct i; discriminate.
  - destruct i as [|i], j as [|j]; cbn in Hi, Hj.
    + reflexivity.
    + inversion Hi; subst a. exfalso. apply Hx. apply InA_alt. exists b. split; [exact Hs|].
      exact (nth_error_In _ _ Hj).
    + inversion Hj; subst b. exfalso. apply Hx. apply InA_alt. exists a. split;
        [apply same_terminal_sym; exact Hs|]. exact (nth_error_In _ _ Hi).
    + f_equal. exact (IH i j a b Hi Hj Hs).
Qed.

(** No two entries of the terminal table behave alike. *)
Theorem ordered_terminals_nodup occs i j a b :
  nth_error (ordered_terminals occs) i = Some a ->
  nth_error (ordered_terminals occs) j = Some b ->
  same_terminal a b = true -> i = j.
Proof. apply NoDupA_nth_inj. apply ordered_terminals_NoDupA. Qed.

(** The table keeps the order of first appearance: the fold only ever appends, so the table of a
    prefix of the occurrence list is a prefix of the table. *)
Lemma ot_fold_app occs : forall acc, exists l', fold_left ot_step occs acc = l' ++ acc.
Proof.
  induction occs as [|x occs IH]; intros acc; cbn [fold_left]; [exists []; reflexivity|].
  destruct (IH (ot_step acc x)) as (l' & E). rewrite E. unfold ot_step.
  destruct (existsb (fun e => same_terminal e x) acc); [exists l'; reflexivity|].
  exists (l' ++ [x]). rewrite <- app_assoc. reflexivity.
Qed.

Theorem ordered_terminals_prefix occs1 occs2 :
  exists l, ordered_terminals (occs1 ++ occs2) = ordered_terminals occs1 ++ l.
Proof.
  unfold ordered_terminals. rewrite fold_left_app.
  destruct (ot_fold_app occs2 (fold_left ot_step occs1 [])) as (l' & E). rewrite E.
  exists (rev l'). apply rev_app_distr.
Qed.

Theorem ordered_terminals_head o occs : nth_error (ordered_terminals (o :: occs)) 0 = Some o.
Proof.
  destruct (ordered_terminals_prefix [o] occs) as (l & E). cbn [app] in E. rewrite E. reflexivity.
Qed.

(** ** The correct lookup *)
Lemma index_in_Some ordered p i :
  index_in ordered p = Some i ->
  exists e, (first_user_token <= i)%N /\
            nth_error ordered (N.to_nat (i - first_user_token)) = Some e /\ p e = true /\
            (i < first_user_token + N.of_nat (length ordered))%N.
Proof.
  unfold index_in. destruct (position p ordered) as [n|] eqn:E; [|discriminate].
  cbn [option_map]. intros H. inversion H; subst i.
  destruct (position_Some p ordered n E) as (e & He & Hp & _). exists e.
  assert (Hlt : n < length ordered) by (apply nth_error_Some; congruence).
  replace (N.to_nat (N.of_nat n + first_user_token - first_user_token)) with n by lia.
  repeat split; [lia|exact He|exact Hp|lia].
Qed.

(** Every occurrence of the grammar has an index, and it is in range. *)
Theorem index_of_total occs o : In o occs ->
  exists i, index_of occs o = Some i /\
            (first_user_token <= i < first_user_token + N.of_nat (length (ordered_terminals occs)))%N.
Proof.
  intros Hin. destruct (ordered_terminals_complete occs o Hin) as (e & He & Hs).
  destruct (position_exists (tif_pred o) _ e He) as (n & Hn & Hlt); [apply tif_pred_iff; exact Hs|].
  unfold index_of, index_in. rewrite Hn. cbn [option_map]. eexists. split; [reflexivity|lia].
Qed.

(** The index denotes a table entry that is the same terminal. *)
Theorem index_agree occs o : In o occs ->
  exists i o', index_of occs o = Some i /\
               nth_error (ordered_terminals occs) (N.to_nat (i - first_user_token)) = Some o' /\
               same_terminal o o' = true.
Proof.
  intros Hin. destruct (index_of_total occs o Hin) as (i & Hi & _).
  destruct (index_in_Some _ _ _ Hi) as (e & _ & He & Hp & _).
  exists i, e. repeat split; [exact Hi|exact He|apply tif_pred_iff; exact Hp].
Qed.

(** ... and it is the ONLY such entry: whatever index a generated part uses for an occurrence, if
    the entry it denotes is the same terminal then it is [index_of]. *)
Theorem index_of_unique occs o i e :
  (first_user_token <= i)%N ->
  nth_error (ordered_terminals occs) (N.to_nat (i - first_user_token)) = Some e ->
  same_terminal e o = true -> index_of occs o = Some i.
Proof.
  intros Hle He Hs.
  destruct (position_exists (tif_pred o) _ e (nth_error_In _ _ He)) as (n & Hn & _).
  { apply tif_pred_iff. apply same_terminal_sym. exact Hs. }
  destruct (position_Some _ _ _ Hn) as (e' & He' & Hp & _). apply tif_pred_iff in Hp.
  assert (E : n = N.to_nat (i - first_user_token)).
  { apply (ordered_terminals_nodup occs _ _ e' e He' He).
    apply same_terminal_sym. exact (same_terminal_trans _ _ _ Hs Hp). }
  unfold index_of, index_in. rewrite Hn. cbn [option_map]. f_equal. lia.
Qed.

(** Occurrences that are the same terminal get the same index. *)
Theorem index_of_same occs o1 o2 :
  same_terminal o1 o2 = true -> index_of occs o1 = index_of occs o2.
Proof.
  intros Hs. unfold index_of, index_in. f_equal. apply position_ext. intros e _.
  apply eq_true_iff_eq. rewrite !tif_pred_iff. split; intros H.
  - exact (same_terminal_trans _ _ _ (same_terminal_sym _ _ Hs) H).
  - exact (same_terminal_trans _ _ _ Hs H).
Qed.

(** ... and different terminals get different indices. *)
Theorem index_of_inj occs o1 o2 i :
  index_of occs o1 = Some i -> index_of occs o2 = Some i -> same_terminal o1 o2 = true.
Proof.
  intros H1 H2.
  destruct (index_in_Some _ _ _ H1) as (e1 & _ & He1 & Hp1 & _).
  destruct (index_in_Some _ _ _ H2) as (e2 & _ & He2 & Hp2 & _).
  rewrite He1 in He2. inversion He2; subst e2. apply tif_pred_iff in Hp1, Hp2.
  exact (same_terminal_trans _ _ _ Hp1 (same_terminal_sym _ _ Hp2)).
Qed.

(** ** The lookup of [build_production_model] (D8) *)
Definition chars (l : list nat) : list N := map N.of_nat l.

(** ["a.c"], ["x"], ['a.c'], ["y"]   (a = 97, . = 46, c = 99, x = 120, y = 121). *)
Definition d8_legacy : occurrence := (chars [97; 46; 99], K_Legacy, None).
Definition d8_raw : occurrence := (chars [97; 46; 99], K_Raw, None).
Definition d8_occs : list occurrence :=
  [d8_legacy; (chars [120], K_Legacy, None); d8_raw; (chars [121], K_Legacy, None)].

Example d8_table : ordered_terminals d8_occs = d8_occs.
Proof. vm_compute. reflexivity. Qed.
Example d8_correct : index_of d8_occs d8_raw = Some 7%N.
Proof. vm_compute. reflexivity. Qed.
Example d8_wrong : index_of_pm d8_occs d8_raw = Some 5%N.
Proof. vm_compute. reflexivity. Qed.

(** D8: the production table gives the raw terminal ['a.c'] the token number of the legacy
    terminal ["a.c"], a DIFFERENT terminal. *)
Theorem index_of_pm_refuted :
  exists occs o i e,
    In o occs /\ index_of_pm occs o = Some i /\
    nth_error (ordered_terminals occs) (N.to_nat (i - first_user_token)) = Some e /\
    same_terminal o e = false /\ index_of occs o <> Some i.
Proof.
  exists d8_occs, d8_raw, 5%N, d8_legacy. vm_compute.
  repeat split; try reflexivity; [right; right; left; reflexivity|discriminate].
Qed.

(** The strongest true variant: the lookup is right on grammars in which equal text and equal
    lookahead imply kinds that behave alike ("no mixed quoting of the same text"). *)
Definition unmixed (occs : list occurrence) : Prop :=
  forall o1 o2, In o1 occs -> In o2 occs -> o_text o1 = o_text o2 -> o_la o1 = o_la o2 ->
                behaves_like (o_kind o1) (o_kind o2) = true.

Theorem index_of_pm_agree_unmixed occs o :
  unmixed occs -> In o occs -> index_of_pm occs o = index_of occs o.
Proof.
  intros Hun Hin. unfold index_of_pm, index_of, index_in. f_equal. apply position_ext.
  intros e He. apply ordered_terminals_in in He. apply eq_true_iff_eq.
  rewrite pm_pred_iff, tif_pred_iff, same_terminal_iff. split.
  - intros [H1 H2]. repeat split; [exact H1| |exact H2]. exact (Hun o e Hin He H1 H2).
  - intros (H1 & _ & H2). split; assumption.
Qed.

Example unmixed_example : unmixed [d8_legacy; (chars [120], K_Raw, None); (chars [97; 46; 99], K_Regex, None)].
Proof.
  intros o1 o2 H1 H2 Ht Hl.
  repeat (destruct H1 as [<-|H1]; [|]); try destruct H1;
    repeat (destruct H2 as [<-|H2]; [|]); try destruct H2; try reflexivity; discriminate.
Qed.

(** Also: the HEAD lookup never fails on an occurrence of the grammar and always stays in range -
    the defect is a silent confusion, not an error. *)
Theorem index_of_pm_total occs o : In o occs ->
  exists i, index_of_pm occs o = Some i /\
            (first_user_token <= i < first_user_token + N.of_nat (length (ordered_terminals occs)))%N.
Proof.
  intros Hin. destruct (ordered_terminals_complete occs o Hin) as (e & He & Hs).
  destruct (position_exists (pm_pred o) _ e He) as (n & Hn & Hlt).
  { apply pm_pred_iff. apply same_terminal_iff in Hs. tauto. }
  unfold index_of_pm, index_in. rewrite Hn. cbn [option_map]. eexists. split; [reflexivity|lia].
Qed.

(** The repaired lookup agrees with [get_terminal_index_function] on EVERY query. *)
Theorem index_of_pm_fixed_agree occs o : index_of_pm_fixed occs o = index_of occs o.
Proof.
  unfold index_of_pm_fixed, index_of, index_in. f_equal. apply position_ext. intros e _.
  apply eq_true_iff_eq. rewrite pm_fixed_pred_iff, tif_pred_iff. tauto.
Qed.

Example d8_fixed : index_of_pm_fixed d8_occs d8_raw = Some 7%N.
Proof. vm_compute. reflexivity. Qed.

(** ** The lookup of the grammar type generator: by expanded text only
    [expand] ([TerminalKind::expand]) is left abstract: the confusion below does not depend on it. *)
Section GrammarTypeLookup.
  Variable expand : kind -> list N -> list N.

  (** Position in [terminals]/[terminal_names] (no offset: the generator's own vectors). *)
  Definition index_of_gt (occs : list occurrence) (o : occurrence) : option nat :=
    position (fun e => text_eqb (expand (o_kind e) (o_text e)) (expand (o_kind o) (o_text o)))
             (ordered_terminals occs).

  (** ["a" ?= "b"] and ["a"]: two terminals (two token numbers, two names); the member name of an
      occurrence of the second is derived from the name of the first. *)
  Theorem index_of_gt_refuted :
    exists occs o n e, In o occs /\ index_of_gt occs o = Some n /\
      nth_error (ordered_terminals occs) n = Some e /\ same_terminal o e = false.
  Proof.
    set (o1 := (chars [97], K_Legacy, Some (true, chars [98], K_Legacy)) : occurrence).
    set (o2 := (chars [97], K_Legacy, None) : occurrence).
    exists [o1; o2], o2, 0, o1. split; [right; left; reflexivity|].
    assert (E : ordered_terminals [o1; o2] = [o1; o2]) by (vm_compute; reflexivity).
    unfold index_of_gt. rewrite E. cbn [position o_kind o_text o1 o2 fst snd].
    replace (text_eqb _ _) with true by (symmetry; apply text_eqb_eq; reflexivity).
    repeat split; reflexivity.
  Qed.
End GrammarTypeLookup.

(** ** The checker *)
Theorem terminal_agreement_check_spec ordered claims :
  terminal_agreement_check ordered claims = true <->
  forall o i, In (o, i) claims ->
    (first_user_token <= i)%N /\
    exists e, nth_error ordered (N.to_nat (i - first_user_token)) = Some e /\
              same_terminal e o = true.
Proof.
  unfold terminal_agreement_check. rewrite forallb_forall. split.
  - intros H o i Hin. specialize (H _ Hin). cbn [claim_ok] in H.
    apply andb_true_iff in H as [H1 H2]. apply N.leb_le in H1. split; [exact H1|].
    destruct (nth_error ordered (N.to_nat (i - first_user_token))) as [e|]; [|discriminate].
    exists e. split; [reflexivity|exact H2].
  - intros H [o i] Hin. destruct (H o i Hin) as (H1 & e & He & Hs). cbn [claim_ok].
    rewrite He, Hs. apply N.leb_le in H1. rewrite H1. reflexivity.
Qed.

(** Against the table of the grammar, passing the check means: every claimed number IS the
    number [get_terminal_index_function] assigns. *)
Theorem terminal_agreement_check_index occs claims o i :
  terminal_agreement_check (ordered_terminals occs) claims = true ->
  In (o, i) claims -> index_of occs o = Some i.
Proof.
  intros H Hin. destruct (proj1 (terminal_agreement_check_spec _ _) H o i Hin) as (H1 & e & He & Hs).
  exact (index_of_unique occs o i e H1 He Hs).
Qed.

(** ... and conversely the correct indices pass. *)
Theorem terminal_agreement_check_complete occs claims :
  (forall o i, In (o, i) claims -> In o occs /\ index_of occs o = Some i) ->
  terminal_agreement_check (ordered_terminals occs) claims = true.
Proof.
  intros H. apply terminal_agreement_check_spec. intros o i Hin. destruct (H o i Hin) as [_ Hi].
  destruct (index_in_Some _ _ _ Hi) as (e & Hle & He & Hp & _). split; [exact Hle|].
  exists e. split; [exact He|]. apply same_terminal_sym. apply tif_pred_iff. exact Hp.
Qed.

Lemma table_nodup_check_spec ordered :
  table_nodup_check ordered = true <-> NoDupA sameP ordered.
Proof.
  induction ordered as [|e r IH]; cbn [table_nodup_check].
  - split; [constructor|reflexivity].
  - rewrite andb_true_iff, negb_true_iff, IH. split.
    + intros [H1 H2]. constructor; [|exact H2]. intros Hin. apply InA_alt in Hin as (y & Hy & Hin).
      assert (existsb (same_terminal e) r = true) by (apply existsb_exists; exists y; split; assumption).
      congruence.
    + intros H. inversion H as [|x l Hx Hnd]; subst. split; [|exact Hnd].
      destruct (existsb (same_terminal e) r) eqn:E; [|reflexivity].
      apply existsb_exists in E as (y & Hy & Hs). exfalso. apply Hx. apply InA_alt.
      exists y. split; assumption.
Qed.

Theorem table_nodup_check_ordered occs : table_nodup_check (ordered_terminals occs) = true.
Proof. apply table_nodup_check_spec. apply ordered_terminals_NoDupA. Qed.

(** The D8 witness seen through the checker: the claims of the production table fail, the
    claims of the terminal index function pass. *)
Definition claims_of (f : list occurrence -> occurrence -> option N) (occs : list occurrence)
  : list (occurrence * N) :=
  flat_map (fun o => match f occs o with Some i => [(o, i)] | None => [] end) occs.

Example d8_check_pm : terminal_agreement_check (ordered_terminals d8_occs) (claims_of index_of_pm d8_occs) = false.
Proof. vm_compute. reflexivity. Qed.
Example d8_check_ok : terminal_agreement_check (ordered_terminals d8_occs) (claims_of index_of d8_occs) = true.
Proof. vm_compute. reflexivity. Qed.
Example d8_check_fixed : terminal_agreement_check (ordered_terminals d8_occs) (claims_of index_of_pm_fixed d8_occs) = true.
Proof. vm_compute. reflexivity. Qed.
(** A claim below [FIRST_USER_TOKEN] is rejected (no truncated subtraction). *)
Example check_low : terminal_agreement_check d8_occs [(d8_legacy, 3%N)] = false.
Proof. vm_compute. reflexivity. Qed.

(** Kinds that behave alike and lookahead: ["a"], [/a/], ['a'], ["a" ?= /b/], ["a" ?= "b"] are
    four terminals (lookahead kinds are compared exactly). *)
Example mixed_table :
  let a := chars [97] in let b := chars [98] in
  ordered_terminals [(a, K_Legacy, None); (a, K_Regex, None); (a, K_Raw, None);
                     (a, K_Legacy, Some (true, b, K_Regex)); (a, K_Regex, Some (true, b, K_Legacy));
                     (a, K_Raw, None); (a, K_Regex, Some (true, b, K_Regex))]
  = [(a, K_Legacy, None); (a, K_Raw, None); (a, K_Legacy, Some (true, b, K_Regex));
     (a, K_Regex, Some (true, b, K_Legacy))].
Proof. vm_compute. reflexivity. Qed.

(** Non-vacuity of the hypotheses of [index_agree] / [index_of_unique] / [_check_index]. *)
Example ex_in : In d8_raw d8_occs.
Proof. right; right; left; reflexivity. Qed.
Example ex_unique_hyp :
  nth_error (ordered_terminals d8_occs) (N.to_nat (7 - first_user_token)) = Some d8_raw /\
  same_terminal d8_raw d8_raw = true.
Proof. vm_compute. split; reflexivity. Qed.

Print Assumptions ordered_terminals_nodup.
Print Assumptions ordered_terminals_in.
Print Assumptions ordered_terminals_complete.
Print Assumptions ordered_terminals_prefix.
Print Assumptions index_of_total.
Print Assumptions index_agree.
Print Assumptions index_of_unique.
Print Assumptions index_of_same.
Print Assumptions index_of_inj.
Print Assumptions index_of_pm_refuted.
Print Assumptions index_of_pm_agree_unmixed.
Print Assumptions index_of_pm_total.
Print Assumptions index_of_pm_fixed_agree.
Print Assumptions index_of_gt_refuted.
Print Assumptions terminal_agreement_check_spec.
Print Assumptions terminal_agreement_check_index.
Print Assumptions terminal_agreement_check_complete.
Print Assumptions table_nodup_check_ordered.
