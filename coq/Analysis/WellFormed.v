(** * C11 — parol's grammar well-formedness checks are exact.

    Faithful executable models of

    - [Cfg::calculate_nullable_non_terminals]            (crates/parol/src/grammar/cfg.rs)
    - [non_productive_non_terminals]                     (analysis/productivity.rs)
    - [reachable_non_terminals], [unreachable_non_terminals] (analysis/reachability.rs)
    - [detect_left_recursive_non_terminals]              (analysis/left_recursion.rs)
    - the checking part of [check_and_transform_grammar] (generators/grammar_trans.rs)

    and proofs that they compute exactly the sets defined in [Grammar/Sets.v].

    Modelling decisions (all stated here, none hidden):

    - Non-terminal names are numbers.  A Rust [BTreeSet<String>] / sorted [Vec<String>] is
      modelled by a strictly ascending [list N] ([to_set]); this is the same order as the Rust
      one iff the numbering of names is monotone w.r.t. string order (e.g. the index in
      [get_non_terminal_set]).  All theorems are about membership, and the exported checkers
      compare as sets, so nothing depends on that.
    - A Rust [HashSet<String>] is modelled by a duplicate-free [list N] with insertion at the
      front.  The only place where the Rust code iterates over a [HashSet] (the inner loop of
      the transitive closure in [detect_left_recursive_non_terminals]) is modelled in list
      order; the proofs use membership only.
    - "The non-terminals of g" is [Cfg::get_non_terminal_set]: the start symbol, every left-hand
      side and every right-hand-side occurrence, i.e. exactly [Grammar.Cfg.nts].  A non-terminal
      that occurs only on a right-hand side is a member; it has no production, so it is
      unproductive, and the Rust code reports it ([combine_production_equation] yields the
      constant [false] function for it).
    - Every loop "repeat until nothing changed" is [iter_until] on explicit fuel; exhaustion
      and every Rust panic ([unwrap], [expect], index out of range) yield [None].  The
      [*_total] lemmas show that with the fuel computed by the models [None] arises only for
      the one real panic: [calculate_nullable_non_terminals] (hence also
      [detect_left_recursive_non_terminals]) panics with "Start symbol not found in any
      production" when the start symbol has no production.  [check_and_transform_grammar]
      never reaches it, because such a grammar is rejected as non-productive first.
    - [GrammarAnalysisError::LeftRecursion] carries the list of left-recursive non-terminal
      names (numbered in list order), not recursion paths; the model carries that list. *)
From Coq Require Import List NArith Arith Bool Lia Relations Sorted.
From Parol Require Import Grammar.Cfg Grammar.Sets.
Import ListNotations.

(** ** Finite sets of numbers as lists *)

Definition mem (a : N) (l : list N) : bool := existsb (N.eqb a) l.

Lemma mem_In a l : mem a l = true <-> In a l.
Proof.
  unfold mem. rewrite existsb_exists. split.
  - intros (x & Hx & E). apply N.eqb_eq in E. subst. exact Hx.
  - intros H. exists a. split; [exact H|apply N.eqb_refl].
Qed.

Lemma mem_false a l : mem a l = false <-> ~ In a l.
Proof. rewrite <- mem_In. destruct (mem a l); split; congruence. Qed.

(** [HashSet::insert] *)
Definition add (a : N) (l : list N) : list N := if mem a l then l else a :: l.

Lemma In_add x a l : In x (add a l) <-> x = a \/ In x l.
Proof.
  unfold add. destruct (mem a l) eqn:E; simpl; [|intuition congruence].
  apply mem_In in E. split; [auto|]. intros [->|H]; assumption.
Qed.

Lemma NoDup_add a l : NoDup l -> NoDup (add a l).
Proof.
  intros H. unfold add. destruct (mem a l) eqn:E; [exact H|].
  constructor; [apply mem_false; exact E|exact H].
Qed.

(** Sorted duplicate-free list: models [BTreeSet] *)
Fixpoint ins (a : N) (l : list N) : list N :=
  match l with
  | [] => [a]
  | b :: l' =>
      match N.compare a b with
      | Lt => a :: l
      | Eq => l
      | Gt => b :: ins a l'
      end
  end.

Definition to_set (l : list N) : list N := fold_right ins [] l.

Lemma In_ins x a l : In x (ins a l) <-> x = a \/ In x l.
Proof.
  induction l as [|b l IH]; simpl; [intuition congruence|].
  destruct (N.compare_spec a b) as [E|E|E]; simpl.
  - subst. intuition congruence.
  - intuition congruence.
  - rewrite IH. intuition congruence.
Qed.

Lemma In_to_set x l : In x (to_set l) <-> In x l.
Proof.
  induction l as [|a l IH]; simpl; [tauto|]. rewrite In_ins, IH. intuition congruence.
Qed.

Lemma ins_sorted a l : StronglySorted N.lt l -> StronglySorted N.lt (ins a l).
Proof.
  induction l as [|b l IH]; intros H; simpl.
  - constructor; constructor.
  - inversion H as [|b' l' Hs Hf]; subst.
    destruct (N.compare_spec a b) as [E|E|E].
    + exact H.
    + constructor; [exact H|]. constructor; [exact E|].
      eapply Forall_impl; [|exact Hf]. intros c Hc. simpl in Hc. lia.
    + constructor; [apply IH; exact Hs|].
      apply Forall_forall. intros c Hc. apply In_ins in Hc as [->|Hc]; [exact E|].
      rewrite Forall_forall in Hf. apply Hf. exact Hc.
Qed.

Lemma to_set_sorted l : StronglySorted N.lt (to_set l).
Proof. induction l as [|a l IH]; simpl; [constructor|apply ins_sorted; exact IH]. Qed.

Lemma sorted_NoDup l : StronglySorted N.lt l -> NoDup l.
Proof.
  induction 1 as [|a l _ IH Hf]; constructor; [|exact IH].
  intros Hin. rewrite Forall_forall in Hf. apply Hf in Hin. lia.
Qed.

(** Order- and duplicate-insensitive equality of sets given as lists *)
Definition subset_b (l1 l2 : list N) : bool := forallb (fun a => mem a l2) l1.
Definition set_eqb (l1 l2 : list N) : bool := subset_b l1 l2 && subset_b l2 l1.

Lemma set_eqb_spec l1 l2 : set_eqb l1 l2 = true <-> (forall a, In a l1 <-> In a l2).
Proof.
  unfold set_eqb, subset_b. rewrite andb_true_iff, !forallb_forall. split.
  - intros [H1 H2] a. split; intros H; apply mem_In; auto.
  - intros H. split; intros a Ha; apply mem_In; apply H; exact Ha.
Qed.

(** ** Lists that only grow at the front *)

Definition ext {A} (l l' : list A) : Prop := exists d, l' = d ++ l.

Lemma ext_refl {A} (l : list A) : ext l l.
Proof. exists []. reflexivity. Qed.

Lemma ext_trans {A} (l1 l2 l3 : list A) : ext l1 l2 -> ext l2 l3 -> ext l1 l3.
Proof. intros (d1 & ->) (d2 & ->). exists (d2 ++ d1). apply app_assoc. Qed.

Lemma ext_length {A} (l l' : list A) : ext l l' -> length l <= length l'.
Proof. intros (d & ->). rewrite app_length. lia. Qed.

Lemma ext_same_length {A} (l l' : list A) : ext l l' -> length l' <= length l -> l' = l.
Proof.
  intros (d & ->) H. rewrite app_length in H. destruct d as [|x d]; [reflexivity|simpl in H; lia].
Qed.

Lemma ext_incl {A} (l l' : list A) : ext l l' -> incl l l'.
Proof. intros (d & ->) x Hx. apply in_or_app. right. exact Hx. Qed.

Lemma ext_add a l : ext l (add a l).
Proof. unfold add. destruct (mem a l); [apply ext_refl|exists [a]; reflexivity]. Qed.

Lemma add_fix a l : add a l = l -> In a l.
Proof.
  unfold add. destruct (mem a l) eqn:E; intros H; [apply mem_In; exact E|].
  apply (f_equal (@length N)) in H. simpl in H. lia.
Qed.

Lemma fold_ext {A X} (f : list A -> X -> list A) :
  (forall acc x, ext acc (f acc x)) -> forall xs r, ext r (fold_left f xs r).
Proof.
  intros Hf xs. induction xs as [|x xs IH]; intros r; simpl; [apply ext_refl|].
  eapply ext_trans; [apply Hf|apply IH].
Qed.

(** If a whole fold returns its input unchanged then so did every single step. *)
Lemma fold_ext_fix {A X} (f : list A -> X -> list A) :
  (forall acc x, ext acc (f acc x)) ->
  forall xs r, fold_left f xs r = r -> forall x, In x xs -> f r x = r.
Proof.
  intros Hf xs. induction xs as [|y xs IH]; intros r Hr x Hx; [destruct Hx|].
  simpl in Hr.
  assert (Hy : f r y = r).
  { apply ext_same_length; [apply Hf|].
    pose proof (ext_length _ _ (fold_ext f Hf xs (f r y))) as H. rewrite Hr in H. exact H. }
  destruct Hx as [<-|Hx]; [exact Hy|]. rewrite Hy in Hr. apply IH; assumption.
Qed.

Lemma fold_inv {A X} (f : A -> X -> A) (I : A -> Prop) xs :
  (forall acc x, In x xs -> I acc -> I (f acc x)) -> forall r, I r -> I (fold_left f xs r).
Proof.
  induction xs as [|x xs IH]; intros Hf r Hr; simpl; [exact Hr|].
  apply IH; [intros acc y Hy; apply Hf; right; exact Hy|apply Hf; [left; reflexivity|exact Hr]].
Qed.

(** ** "Repeat until nothing changed" on fuel *)

Fixpoint iter_until {A} (fuel : nat) (step : A -> option (A * bool)) (x : A) : option A :=
  match fuel with
  | O => None
  | S f =>
      match step x with
      | None => None
      | Some (x', true) => iter_until f step x'
      | Some (x', false) => Some x'
      end
  end.

Lemma iter_until_inv {A} (I : A -> Prop) (step : A -> option (A * bool)) :
  (forall x x' c, I x -> step x = Some (x', c) -> I x') ->
  forall fuel x y, I x -> iter_until fuel step x = Some y ->
  exists x0, I x0 /\ step x0 = Some (y, false).
Proof.
  intros Hp fuel. induction fuel as [|f IH]; intros x y Hx H; simpl in H; [discriminate|].
  destruct (step x) as [[x' [|]]|] eqn:E; [| |discriminate].
  - apply (IH x'); [eapply Hp; eauto|exact H].
  - inversion H; subst. exists x. auto.
Qed.

Lemma iter_until_terminates {A} (I : A -> Prop) (m : A -> nat) (B : nat)
      (step : A -> option (A * bool)) :
  (forall x x' c, I x -> step x = Some (x', c) -> I x') ->
  (forall x, I x -> exists x' c, step x = Some (x', c) /\ (c = true -> m x < m x')) ->
  (forall x, I x -> m x <= B) ->
  forall fuel x, I x -> B - m x < fuel -> exists y, iter_until fuel step x = Some y.
Proof.
  intros Hp Hs Hb fuel. induction fuel as [|f IH]; intros x Hx Hf; [lia|].
  simpl. destruct (Hs x Hx) as (x' & c & E & Hc). rewrite E.
  destruct c; [|eauto].
  apply IH; [eapply Hp; eauto|].
  specialize (Hc eq_refl). pose proof (Hb x' (Hp _ _ _ Hx E)). lia.
Qed.

(** ** The set and the ordering of non-terminals *)

(** [Cfg::get_non_terminal_set] *)
Definition nt_set (g : cfg) : list N := to_set (nts g).

Lemma In_nt_set g a : In a (nt_set g) <-> In a (nts g).
Proof. apply In_to_set. Qed.

(** [Cfg::get_non_terminal_ordering], names only.  The Rust vector holds pairs (name, position);
    positions are pairwise different, so the only entry that is ever suppressed by the
    [contains] test is the left-hand side of the first production of the start symbol (it is
    the initial entry).  The names therefore come with repetitions.  [None]: the
    [expect("Start symbol not found in any production")] panic. *)
Fixpoint ordering_tail (st : N) (found : bool) (ps : list prod) : list N :=
  match ps with
  | [] => []
  | p :: ps' =>
      if negb found && N.eqb (lhs p) st
      then rhs_nts (rhs p) ++ ordering_tail st true ps'
      else lhs p :: rhs_nts (rhs p) ++ ordering_tail st found ps'
  end.

Definition has_prods (g : cfg) (a : N) : bool := existsb (fun p => N.eqb (lhs p) a) (prods g).

Definition nt_ordering (g : cfg) : option (list N) :=
  if has_prods g (start g)
  then Some (start g :: ordering_tail (start g) false (prods g))
  else None.

Lemma has_prods_true g a : has_prods g a = true <-> exists p, In p (prods g) /\ lhs p = a.
Proof.
  unfold has_prods. rewrite existsb_exists. split; intros (p & Hp & E); exists p;
    (split; [exact Hp|apply N.eqb_eq; exact E]).
Qed.

Lemma has_prods_false g a : has_prods g a = false <-> prods_of g a = [].
Proof.
  split.
  - intros H. destruct (prods_of g a) as [|p l] eqn:E; [reflexivity|].
    assert (Hp : In p (prods_of g a)) by (rewrite E; left; reflexivity).
    apply in_prods_of in Hp. assert (has_prods g a = true) by (apply has_prods_true; eauto).
    congruence.
  - intros H. destruct (has_prods g a) eqn:E; [|reflexivity].
    apply has_prods_true in E as (p & Hp & Hl).
    assert (Hi : In p (prods_of g a)) by (apply in_prods_of; auto). rewrite H in Hi. destruct Hi.
Qed.

Lemma In_ordering_tail st found ps a :
  In a (st :: ordering_tail st found ps) <->
  a = st \/ In a (flat_map (fun p => lhs p :: rhs_nts (rhs p)) ps).
Proof.
  revert found. induction ps as [|p ps IH]; intros found; simpl; [intuition congruence|].
  destruct (negb found && N.eqb (lhs p) st) eqn:E.
  - apply andb_prop in E as [_ E]. apply N.eqb_eq in E.
    specialize (IH true). simpl in IH. rewrite !in_app_iff.
    intuition congruence.
  - specialize (IH found). simpl in IH |- *. rewrite !in_app_iff. intuition congruence.
Qed.

Lemma nt_ordering_In g vars : nt_ordering g = Some vars -> forall a, In a vars <-> In a (nts g).
Proof.
  unfold nt_ordering. destruct (has_prods g (start g)); [|discriminate].
  intros H a. inversion H; subst. rewrite In_ordering_tail. unfold nts. simpl.
  intuition congruence.
Qed.

Lemma nt_ordering_None g : nt_ordering g = None <-> prods_of g (start g) = [].
Proof.
  unfold nt_ordering. rewrite <- has_prods_false.
  destruct (has_prods g (start g)); split; congruence.
Qed.

(** ** Folds that conditionally insert the current element *)

Definition cond_add (c : list N -> N -> bool) (acc : list N) (v : N) : list N :=
  if c acc v then add v acc else acc.

Lemma cond_add_ext c acc v : ext acc (cond_add c acc v).
Proof. unfold cond_add. destruct (c acc v); [apply ext_add|apply ext_refl]. Qed.

Lemma cond_add_fold_NoDup c vars acc :
  NoDup acc -> NoDup (fold_left (cond_add c) vars acc).
Proof.
  apply (fold_inv (cond_add c) (@NoDup N)).
  intros a x _ Ha. unfold cond_add. destruct (c a x); [apply NoDup_add|]; exact Ha.
Qed.

Lemma cond_add_fold_incl c vars acc l :
  incl vars l -> incl acc l -> incl (fold_left (cond_add c) vars acc) l.
Proof.
  intros Hv. apply (fold_inv (cond_add c) (fun a => incl a l)).
  intros a x Hx Ha. unfold cond_add. destruct (c a x); [|exact Ha].
  intros y Hy. apply In_add in Hy as [->|Hy]; [apply Hv; exact Hx|apply Ha; exact Hy].
Qed.

Lemma cond_add_fold_sound c (P : N -> Prop) vars acc :
  (forall a v, In v vars -> (forall x, In x a -> P x) -> c a v = true -> P v) ->
  (forall x, In x acc -> P x) -> forall x, In x (fold_left (cond_add c) vars acc) -> P x.
Proof.
  intros Hc. apply (fold_inv (cond_add c) (fun a => forall x, In x a -> P x)).
  intros a v Hv Ha x Hx. unfold cond_add in Hx. destruct (c a v) eqn:E; [|apply Ha; exact Hx].
  apply In_add in Hx as [->|Hx]; [eapply Hc; eauto|apply Ha; exact Hx].
Qed.

Lemma cond_add_fold_fix c vars acc :
  fold_left (cond_add c) vars acc = acc -> forall v, In v vars -> c acc v = true -> In v acc.
Proof.
  intros H v Hv Hc.
  pose proof (fold_ext_fix (cond_add c) (cond_add_ext c) vars acc H v Hv) as Hf.
  unfold cond_add in Hf. rewrite Hc in Hf. apply add_fix. exact Hf.
Qed.

(** ** Nullable non-terminals: [Cfg::calculate_nullable_non_terminals] *)

Definition is_nil {A} (l : list A) : bool := match l with [] => true | _ => false end.

(** [initial_nullables]: the non-terminals with an empty production. *)
Definition nullable_seed (g : cfg) (vars : list N) : list N :=
  fold_left (cond_add (fun _ v => existsb (fun p => is_nil (rhs p)) (prods_of g v))) vars [].

(** [is_already_nullable] *)
Definition sym_in (nl : list N) (s : sym) : bool :=
  match s with NT n => mem n nl | T _ => false end.

(** [has_nullable_alt] *)
Definition has_nullable_alt (g : cfg) (nl : list N) (v : N) : bool :=
  existsb (fun p => forallb (sym_in nl) (rhs p)) (prods_of g v).

(** [collect_nullables]: one sweep over [vars], inserting in place; reports growth. *)
Definition nullable_sweep (g : cfg) (vars : list N) (nl : list N) : list N :=
  fold_left (cond_add (has_nullable_alt g)) vars nl.

Definition nullable_step (g : cfg) (vars : list N) (nl : list N) : option (list N * bool) :=
  let nl' := nullable_sweep g vars nl in Some (nl', length nl <? length nl').

(** The [HashSet] before it is drained into the [BTreeSet]. *)
Definition nullable_raw (g : cfg) : option (list N) :=
  match nt_ordering g with
  | None => None
  | Some vars => iter_until (S (length vars)) (nullable_step g vars) (nullable_seed g vars)
  end.

Definition nullable_nts (g : cfg) : option (list N) := option_map to_set (nullable_raw g).

Lemma forallb_sym_in nl r :
  forallb (sym_in nl) r = true <-> forall s, In s r -> exists b, s = NT b /\ In b nl.
Proof.
  rewrite forallb_forall. split; intros H s Hs.
  - specialize (H s Hs). destruct s as [t|b]; simpl in H; [discriminate|].
    exists b. split; [reflexivity|apply mem_In; exact H].
  - destruct (H s Hs) as (b & -> & Hb). simpl. apply mem_In. exact Hb.
Qed.

Lemma has_nullable_alt_sound g nl v :
  (forall x, In x nl -> nullable g x) -> has_nullable_alt g nl v = true -> nullable g v.
Proof.
  intros Hnl H. unfold has_nullable_alt in H. apply existsb_exists in H as (p & Hp & H).
  apply in_prods_of in Hp as [Hp Hl]. apply nullable_step. exists p.
  split; [exact Hp|split; [exact Hl|]]. intros s Hs.
  destruct (proj1 (forallb_sym_in nl (rhs p)) H s Hs) as (b & -> & Hb). exists b. auto.
Qed.

Lemma nullable_seed_sound g vars x : In x (nullable_seed g vars) -> nullable g x.
Proof.
  unfold nullable_seed. apply cond_add_fold_sound; [|intros y []].
  intros a v _ _ H. apply existsb_exists in H as (p & Hp & H).
  apply in_prods_of in Hp as [Hp Hl]. apply nullable_step. exists p.
  split; [exact Hp|split; [exact Hl|]]. destruct (rhs p); [intros s []|discriminate].
Qed.

Lemma nullable_sweep_sound g vars nl :
  (forall x, In x nl -> nullable g x) -> forall x, In x (nullable_sweep g vars nl) -> nullable g x.
Proof.
  unfold nullable_sweep. apply cond_add_fold_sound.
  intros a v _ Ha H. eapply has_nullable_alt_sound; eauto.
Qed.

(** A set closed under [has_nullable_alt] for every left-hand side contains every nullable
    non-terminal. *)
Lemma nullable_closed_complete g nl :
  (forall v, has_prods g v = true -> has_nullable_alt g nl v = true -> In v nl) ->
  forall α w, derives g α w -> w = [] -> forall s, In s α -> exists b, s = NT b /\ In b nl.
Proof.
  intros Hc. induction 1 as [|t α w H IH|a p α u v Hin Hl Hr IHr Ha IHa]; intros Hw s Hs.
  - destruct Hs.
  - discriminate.
  - apply app_eq_nil in Hw as [-> ->]. destruct Hs as [<-|Hs]; [|apply IHa; auto].
    exists a. split; [reflexivity|]. apply Hc.
    + apply has_prods_true. exists p. auto.
    + unfold has_nullable_alt. apply existsb_exists. exists p.
      split; [apply in_prods_of; auto|]. apply forallb_sym_in. apply IHr. reflexivity.
Qed.

Definition nullable_I (g : cfg) (vars nl : list N) : Prop :=
  NoDup nl /\ incl nl vars /\ forall x, In x nl -> nullable g x.

Lemma nullable_step_I g vars x x' c :
  nullable_I g vars x -> nullable_step g vars x = Some (x', c) -> nullable_I g vars x'.
Proof.
  intros (Hn & Hi & Hs) H. unfold nullable_step in H. inversion H; subst. unfold nullable_sweep.
  split; [apply cond_add_fold_NoDup; exact Hn|].
  split; [apply cond_add_fold_incl; [apply incl_refl|exact Hi]|].
  apply nullable_sweep_sound. exact Hs.
Qed.

Lemma nullable_seed_I g vars : nullable_I g vars (nullable_seed g vars).
Proof.
  unfold nullable_seed. split; [apply cond_add_fold_NoDup; constructor|].
  split; [apply cond_add_fold_incl; [apply incl_refl|intros x []]|].
  apply nullable_seed_sound.
Qed.

Theorem nullable_raw_exact g l :
  nullable_raw g = Some l -> forall a, In a l <-> nullable g a.
Proof.
  unfold nullable_raw. destruct (nt_ordering g) as [vars|] eqn:Ev; [|discriminate].
  intros H a.
  destruct (iter_until_inv (nullable_I g vars) (nullable_step g vars)
              (nullable_step_I g vars) _ _ _ (nullable_seed_I g vars) H)
    as (nl & (Hn & Hi & Hs) & Hstep).
  unfold nullable_step in Hstep. inversion Hstep as [[Hl Hlen]]. rewrite Hl in Hlen.
  apply Nat.ltb_ge in Hlen.
  assert (Hfix : nullable_sweep g vars nl = nl).
  { apply ext_same_length; [|rewrite Hl; exact Hlen].
    apply fold_ext. apply cond_add_ext. }
  rewrite Hl in Hfix. subst l.
  split; [apply Hs|]. intros Ha.
  destruct (nullable_closed_complete g nl) with (α := [NT a]) (w := @nil N) (s := NT a)
    as (b & Hb & Hin); auto.
  - intros v Hv Hc. apply (cond_add_fold_fix _ vars nl Hfix v); [|exact Hc].
    apply (nt_ordering_In g vars Ev). apply has_prods_true in Hv as (p & Hp & <-).
    apply lhs_in_nts. exact Hp.
  - left. reflexivity.
  - inversion Hb; subst. exact Hin.
Qed.

(** The fuel [S (length vars)] chosen by the model always suffices: the only [None] is the
    Rust panic for a start symbol without productions. *)
Theorem nullable_raw_None g : nullable_raw g = None <-> prods_of g (start g) = [].
Proof.
  rewrite <- nt_ordering_None. unfold nullable_raw.
  destruct (nt_ordering g) as [vars|] eqn:Ev; [|tauto].
  split; [|discriminate]. intros H. exfalso.
  destruct (iter_until_terminates (nullable_I g vars) (@length N) (length vars)
              (nullable_step g vars) (nullable_step_I g vars)) with
      (fuel := S (length vars)) (x := nullable_seed g vars) as (y & Hy).
  - intros x (Hn & Hi & Hs). eexists _, _. split; [reflexivity|].
    intros Hc. apply Nat.ltb_lt in Hc. exact Hc.
  - intros x (Hn & Hi & _). apply NoDup_incl_length; assumption.
  - apply nullable_seed_I.
  - lia.
  - congruence.
Qed.

Theorem nullable_exact g l :
  nullable_nts g = Some l -> forall a, In a l <-> nullable g a.
Proof.
  unfold nullable_nts. destruct (nullable_raw g) as [r|] eqn:E; [|discriminate].
  intros H a. inversion H; subst. rewrite In_to_set. apply (nullable_raw_exact g r E).
Qed.

Theorem nullable_nts_None g : nullable_nts g = None <-> prods_of g (start g) = [].
Proof.
  rewrite <- nullable_raw_None. unfold nullable_nts.
  destruct (nullable_raw g); simpl; split; congruence.
Qed.

Lemma nullable_nts_sorted g l : nullable_nts g = Some l -> StronglySorted N.lt l.
Proof.
  unfold nullable_nts. destruct (nullable_raw g); [|discriminate].
  intros H. inversion H. apply to_set_sorted.
Qed.
