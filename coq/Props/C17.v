(** Property C17 — pinned statements (tools/pin.py); proofs in Runtime/TokenBuffer.v, Runtime/TokenStream.v (faithful models of TokenIter, TokenBuffer::add, TokenStream (after the fix: commits), handle_additional_tokens, LRParser::call_action/pop_n; *_old = pinned commit). *)
From Coq Require Import List NArith.
From Parol Require Import Runtime.TokenBuffer Runtime.TokenStream.
Import ListNotations.

Theorem C17_parser_input_spec :
  forall (skips : list (list N)) (len : N) (ms : list smatch),
  map t_type (significant_tokens skips len ms) = parser_input skips ms.
Proof. exact parser_input_spec. Qed.

Theorem C17_parser_input_builtin :
  forall (skips : list (list N)) (ms : list smatch),
  no_skip_lists skips ->
  parser_input skips ms = filter (fun ty : N => negb (type_is_skip ty)) (map m_type ms).
Proof. exact parser_input_builtin. Qed.

Theorem C17_skip_irrelevant_ll :
  forall (A : Type) (proj : token -> A) (skips1 : list (list N)) (len1 fm1 : N)
  (ms1 : list smatch) (skips2 : list (list N)) (len2 fm2 : N) (ms2 : list smatch) 
  (k0 : nat) (lops : list ll_op),
  same_view A proj (stream_tokens skips1 len1 fm1 ms1 k0)
  (stream_tokens skips2 len2 fm2 ms2 k0) ->
  observations A proj (run skips1 (stream_new skips1 len1 fm1 ms1 k0) (ll_sched lops)) =
  observations A proj (run skips2 (stream_new skips2 len2 fm2 ms2 k0) (ll_sched lops)).
Proof. exact skip_irrelevant_ll. Qed.

Theorem C17_skip_irrelevant_lr :
  forall (A : Type) (proj : token -> A) (skips1 : list (list N)) (len1 fm1 : N)
  (ms1 : list smatch) (skips2 : list (list N)) (len2 fm2 : N) (ms2 : list smatch) 
  (k0 : nat) (its : list lr_iter),
  no_skip_lists skips1 ->
  no_skip_lists skips2 ->
  same_view A proj (stream_tokens skips1 len1 fm1 ms1 k0)
  (stream_tokens skips2 len2 fm2 ms2 k0) ->
  map (pobs A proj)
  (snd
  (lr_run is_skip_token stream (real_impl skips1) its
  (stream_new skips1 len1 fm1 ms1 k0, [], []))) =
  map (pobs A proj)
  (snd
  (lr_run is_skip_token stream (real_impl skips2) its
  (stream_new skips2 len2 fm2 ms2 k0, [], []))).
Proof. exact skip_irrelevant_lr. Qed.

Theorem C17_lr_skip_listed_ok :
  forall (A : Type) (proj : token -> A) (skips1 : list (list N)) (len1 fm1 : N)
  (ms1 : list smatch) (skips2 : list (list N)) (len2 fm2 : N) (ms2 : list smatch) 
  (k0 : nat) (its : list lr_iter),
  same_view A proj (stream_tokens skips1 len1 fm1 ms1 k0)
  (stream_tokens skips2 len2 fm2 ms2 k0) ->
  map (pobs A proj)
  (snd
  (lr_run is_effectively_skip_token stream (real_impl skips1) its
  (stream_new skips1 len1 fm1 ms1 k0, [], []))) =
  map (pobs A proj)
  (snd
  (lr_run is_effectively_skip_token stream (real_impl skips2) its
  (stream_new skips2 len2 fm2 ms2 k0, [], []))).
Proof. exact lr_skip_listed_ok. Qed.

Theorem C17_lr_skip_listed_refuted :
  exists
  (skips : list (list N)) (len1 : N) (ms1 : list smatch) (len2 : N) 
  (ms2 : list smatch) (its : list lr_iter),
  same_view N t_type (stream_tokens_old skips len1 0 ms1 1)
  (stream_tokens_old skips len2 0 ms2 1) /\
  parser_input skips ms1 = parser_input skips ms2 /\
  map (pobs N t_type)
  (snd
  (lr_run lr_skip_pred_old stream (real_impl_old skips) its
  (stream_new_old skips len1 0 ms1 1, [], []))) <>
  map (pobs N t_type)
  (snd
  (lr_run lr_skip_pred_old stream (real_impl_old skips) its
  (stream_new_old skips len2 0 ms2 1, [], []))).
Proof. exact lr_skip_listed_refuted. Qed.

Theorem C17_comments_once_in_order_all_k :
  forall (skips : list (list N)) (len fm : N) (ms : list smatch) (k0 : nat) (ops : list op),
  comment_trace (run skips (stream_new skips len fm ms k0) ops) ++
  comments_of (spec_state (PeanoNat.Nat.max 1 k0) (stream_tokens skips len fm ms k0) ops) =
  comments_of (all_tokens skips len ms).
Proof. exact comments_once_in_order_all_k. Qed.

Theorem C17_comments_all_delivered_all_k :
  forall (skips : list (list N)) (len fm : N) (ms : list smatch) (k0 : nat) 
  (ops : list op) (t : token),
  types_ok ms = true ->
  last (run skips (stream_new skips len fm ms k0) (ops ++ [OpTakeSkip; OpLookahead 0]))
  (EvSkip []) = EvLook (inr t) ->
  t_type t = EOI ->
  comment_trace
  (run skips (stream_new skips len fm ms k0) (ops ++ [OpTakeSkip; OpLookahead 0])) =
  comments_of (all_tokens skips len ms).
Proof. exact comments_all_delivered_all_k. Qed.

Theorem C17_call_action_spec :
  forall (P : token -> bool) (n : nat) (nt : N) (stack : list lrtree),
  fst (call_action P n nt stack) = rev (firstn n (sview P stack)) /\
  sview P (snd (call_action P n nt stack)) = ArgN nt :: skipn n (sview P stack).
Proof. exact call_action_spec. Qed.

Theorem C17_stream_k_independent :
  forall (skips : list (list N)) (len fm : N) (ms : list smatch) (k1 k2 : nat) (ops : list op),
  is_state_skip skips EOI fm = false ->
  (forall n : nat,
  In (OpLookahead n) ops -> n < PeanoNat.Nat.max 1 k1 /\ n < PeanoNat.Nat.max 1 k2) ->
  map norm_event (run skips (stream_new skips len fm ms k1) ops) =
  map norm_event (run skips (stream_new skips len fm ms k2) ops).
Proof. exact stream_k_independent. Qed.

