//! C10: real `left_factor` on BNF grammars.
use crate::{gram::*, rng::Rng, Args};

pub fn renumber(g: &G, names2: &[String]) -> G {
    let mut names = names2.to_vec();
    let mut map = vec![];
    for n in &g.names {
        match names.iter().position(|m| m == n) {
            Some(i) => map.push(i),
            None => {
                names.push(n.clone());
                map.push(names.len() - 1);
            }
        }
    }
    G {
        names,
        start: map[g.start],
        prods: g.prods.iter().map(|(l, r)| (map[*l], r.iter().map(|y| match y { Sy::T(t) => Sy::T(*t), Sy::N(a) => Sy::N(map[*a]) }).collect())).collect(),
    }
}

pub fn case(g: &G) -> String {
    let cfg = g.to_cfg();
    match std::panic::catch_unwind(|| parol::left_factor(&cfg)) {
        Err(_) => format!("(lf {} panic)", g.sx()),
        Ok(cfg2) => {
            let g2 = G::from_cfg(&cfg2, true);
            let g1 = renumber(g, &g2.names);
            format!("(lf {} {})", g1.sx(), g2.sx())
        }
    }
}

/// grammars rich in shared prefixes
pub fn prefixy(rng: &mut Rng) -> G {
    let n = rng.range(1, 3);
    let m = rng.range(1, 3);
    let names: Vec<String> = (0..n).map(nt_name).collect();
    let mut prods = vec![];
    for a in 0..n {
        let stems = rng.range(1, 2);
        for _ in 0..stems {
            let stem: Vec<Sy> = (0..rng.range(0, 3)).map(|_| if rng.chance(1, 4) { Sy::N(rng.below(n)) } else { Sy::T(5 + rng.below(m) as u16) }).collect();
            for _ in 0..rng.range(1, 3) {
                let mut r = stem.clone();
                for _ in 0..rng.range(0, 2) {
                    r.push(if rng.chance(1, 4) { Sy::N(rng.below(n)) } else { Sy::T(5 + rng.below(m + 1) as u16) });
                }
                if !prods.contains(&(a, r.clone())) {
                    prods.push((a, r));
                }
            }
        }
    }
    G { names, start: 0, prods }
}

pub fn run(a: &Args) {
    let mut rng = Rng::new(a.seed ^ ((a.shard as u64) << 32) ^ 0xC10);
    if a.shard == 0 {
        // corpus: the D3 tie witness and names that collide with generated suffix names
        let t = |x: u16| Sy::T(x);
        println!("{}", case(&G { names: vec![nt_name(0)], start: 0, prods: vec![(0, vec![t(5), t(6)]), (0, vec![t(5), t(7)]), (0, vec![t(8), t(9)]), (0, vec![t(8), t(10)])] }));
        println!("{}", case(&G { names: vec!["S".into(), "SSuffix".into(), "SSuffix1".into()], start: 0,
            prods: vec![(0, vec![t(5), Sy::N(1)]), (0, vec![t(5), Sy::N(2)]), (1, vec![t(6)]), (2, vec![t(7)])] }));
    }
    let stride = if a.thorough { 3 } else { 61 };
    let mut i = a.shard * stride;
    while i < TINY_TOTAL {
        if let Some(g) = tiny(i) {
            println!("{}", case(&g));
        }
        i += a.nshards * stride;
    }
    let d = Dials::default();
    for j in 0..a.n {
        let g = if j % 2 == 0 { prefixy(&mut rng) } else { random_bnf(&mut rng, &d, false) };
        println!("{}", case(&g));
    }
}
