//! Translate a regex pattern (parsed with regex-syntax, the parser scnr2 itself uses, default
//! configuration) into the S-expression form of the Gallina `regex` type:
//!   (eps) | (cls (lo hi)...) | (cat r...) | (alt r...) | (rep min max r) | (repinf min r)
//! `Err(reason)` for constructs the Gallina type does not cover (anchors, word boundaries,
//! byte classes): such patterns are skipped and counted, never reported.
use regex_syntax::hir::{Class, Hir, HirKind};

pub fn translate(pattern: &str) -> Result<String, String> {
    let hir = regex_syntax::parse(pattern).map_err(|e| format!("parse error: {e}"))?;
    tr(&hir)
}

fn tr(h: &Hir) -> Result<String, String> {
    Ok(match h.kind() {
        HirKind::Empty => "(eps)".to_string(),
        HirKind::Literal(lit) => {
            let s = std::str::from_utf8(&lit.0).map_err(|_| "non-utf8 literal".to_string())?;
            let parts: Vec<String> = s.chars().map(|c| format!("(cls ({} {}))", c as u32, c as u32)).collect();
            if parts.len() == 1 { parts[0].clone() } else { format!("(cat {})", parts.join(" ")) }
        }
        HirKind::Class(Class::Unicode(c)) => {
            let rs: Vec<String> = c.ranges().iter().map(|r| format!("({} {})", r.start() as u32, r.end() as u32)).collect();
            format!("(cls {})", rs.join(" "))
        }
        HirKind::Class(Class::Bytes(c)) => {
            if c.ranges().iter().all(|r| r.end() < 128) {
                let rs: Vec<String> = c.ranges().iter().map(|r| format!("({} {})", r.start(), r.end())).collect();
                format!("(cls {})", rs.join(" "))
            } else {
                return Err("byte class".into());
            }
        }
        HirKind::Look(_) => return Err("look-around/anchor".into()),
        HirKind::Repetition(r) => {
            let sub = tr(&r.sub)?;
            match r.max {
                Some(m) => format!("(rep {} {} {})", r.min, m, sub),
                None => format!("(repinf {} {})", r.min, sub),
            }
        }
        HirKind::Capture(c) => tr(&c.sub)?,
        HirKind::Concat(v) => {
            let parts: Result<Vec<String>, String> = v.iter().map(tr).collect();
            format!("(cat {})", parts?.join(" "))
        }
        HirKind::Alternation(v) => {
            let parts: Result<Vec<String>, String> = v.iter().map(tr).collect();
            format!("(alt {})", parts?.join(" "))
        }
    })
}

/// Escape a literal string the way a user writes it inside a PAR string: regex meta characters
/// get a backslash (regex_syntax::escape), nothing else.
pub fn escape(lit: &str) -> String {
    regex_syntax::escape(lit)
}

pub fn cps(s: &str) -> String {
    crate::sx::list(s.chars().map(|c| (c as u32).to_string()))
}
