(* ===================================================================== *)
(*  Ls/PosOffset.v  --  property C30 (model side)                         *)
(*                                                                       *)
(*  Faithful executable model of                                         *)
(*     crates/parol-ls/src/utils.rs : pos_to_offset, extract_text_range  *)
(*  in two versions:                                                     *)
(*     pos_to_offset_old  -- the pinned commit (HEAD)                    *)
(*     pos_to_offset      -- the repaired working-tree version           *)
(*                                                                       *)
(*  Text   = list N of Unicode scalar values.                            *)
(*  Bytes  = UTF-8 widths, [w c] in 1..4; offsets are byte offsets (N).  *)
(*  A Rust panic (split_at off a char boundary / past the end, unwrap    *)
(*  of None, usize underflow in [end - start]) is the result [None].     *)
(*  Assumption stated once: usize arithmetic does not overflow (texts    *)
(*  are shorter than 2^64 bytes), so offsets are unbounded N here.       *)
(* ===================================================================== *)
From Coq Require Import List Arith NArith Lia Bool.
Import ListNotations.
Local Open Scope N_scope.

Arguments N.add : simpl never.
Arguments N.sub : simpl never.
Arguments N.ltb : simpl never.
Arguments N.eqb : simpl never.
Arguments N.min : simpl never.

Definition LF : N := 10.
Definition CR : N := 13.

(* ---------- UTF-8 ---------------------------------------------------- *)

Definition w (c : N) : N :=
  if c <? 128 then 1 else if c <? 2048 then 2 else if c <? 65536 then 3 else 4.

Fixpoint bytes (t : list N) : N :=
  match t with
  | [] => 0
  | c :: t' => w c + bytes t'
  end.

(* [o] is a char boundary of [t] (Rust: [t.is_char_boundary(o)] and o <= len) *)
Definition is_boundary (t : list N) (o : N) : Prop :=
  exists n : nat, o = bytes (firstn n t).

(* ---------- str primitives ------------------------------------------- *)

(* [t.starts_with(p)] *)
Fixpoint starts_with (p t : list N) : bool :=
  match p with
  | [] => true
  | a :: p' =>
      match t with
      | [] => false
      | b :: t' => (a =? b) && starts_with p' t'
      end
  end.

Definition starts_lf (t : list N) : bool :=
  match t with
  | d :: _ => d =? LF
  | [] => false
  end.

(* [t.split_at(o)]: panics (None) if [o > len] or [o] is inside a character. *)
Fixpoint split_at (t : list N) (o : N) {struct t} : option (list N * list N) :=
  if o =? 0 then Some ([], t)
  else
    match t with
    | [] => None
    | c :: t' =>
        if o <? w c then None
        else
          match split_at t' (o - w c) with
          | Some (a, b) => Some (c :: a, b)
          | None => None
          end
    end.

(* [t.lines()] collected into a list: split at LF, a CR directly before that
   LF is stripped, a final line without line ending is a line, a text ending
   in LF yields no extra empty line, a lone CR is content. *)
Fixpoint lines (t : list N) : list (list N) :=
  match t with
  | [] => []
  | c :: t' =>
      if c =? LF then [] :: lines t'
      else if (c =? CR) && starts_lf t' then lines t'   (* = [] :: lines (tl t'), CR stripped *)
      else
        match lines t' with
        | [] => [[c]]                 (* only when t' = [] : final line without ending *)
        | l :: ls => (c :: l) :: ls
        end
  end.

(* [l.char_indices().nth(i).map(|(p,_)| p)] *)
Fixpoint char_index_nth (l : list N) (i : nat) : option N :=
  match l with
  | [] => None
  | c :: l' =>
      match i with
      | O => Some 0
      | S i' => option_map (N.add (w c)) (char_index_nth l' i')
      end
  end.

(* [l.char_indices().last().map(|(p,_)| p)] *)
Fixpoint char_index_last (l : list N) : option N :=
  match l with
  | [] => None
  | c :: l' =>
      match char_index_last l' with
      | None => Some 0
      | Some p => Some (w c + p)
      end
  end.

Definition is_empty (l : list N) : bool :=
  match l with [] => true | _ => false end.

(* ---------- pos_to_offset -------------------------------------------- *)

(* the [for line in input.lines().take(pos.line)] loop; [repaired] selects
   the working-tree version, [false] the pinned commit. *)
Fixpoint p2o_loop (repaired : bool) (t : list N) (ls : list (list N)) (offset : N)
  : option N :=
  match ls with
  | [] => Some offset
  | l :: ls' =>
      let offset1 := offset + bytes l in
      match split_at t offset1 with
      | None => None                                   (* split_at panics *)
      | Some (_, line_end) =>
          let offset2 :=
            if starts_with [CR; LF] line_end then offset1 + 2
            else if repaired
                 then (if starts_with [LF] line_end then offset1 + 1 else offset1)
                 else offset1 + 1 in
          p2o_loop repaired t ls' offset2
      end
  end.

Definition p2o_gen (repaired : bool) (t : list N) (line col : nat) : option N :=
  match p2o_loop repaired t (firstn line (lines t)) 0 with
  | None => None
  | Some offset =>
      let r :=
        match nth_error (lines t) line with
        | Some last_line =>
            if is_empty last_line then Some offset
            else
              match char_index_nth last_line col with
              | Some p => Some (offset + p)
              | None =>
                  if repaired then Some (offset + bytes last_line)
                  else
                    match char_index_last last_line with
                    | Some p => Some (offset + (p + 1))
                    | None => None                     (* .unwrap() panics *)
                    end
              end
        | None => Some offset
        end in
      if repaired then option_map (fun o => N.min o (bytes t)) r else r
  end.

(* repaired working-tree version *)
Definition pos_to_offset (t : list N) (line col : nat) : option N :=
  p2o_gen true t line col.

(* pinned commit *)
Definition pos_to_offset_old (t : list N) (line col : nat) : option N :=
  p2o_gen false t line col.

(* ---------- extract_text_range --------------------------------------- *)

(* input.split_at(start).1.split_at(end - start).0 ;
   [end - start] on usize: underflow panics (debug) or wraps to a huge value
   on which split_at panics (release) -- None in both cases. *)
Definition etr_gen (repaired : bool) (t : list N) (sl sc el ec : nat)
  : option (list N) :=
  match p2o_gen repaired t sl sc, p2o_gen repaired t el ec with
  | Some s, Some e =>
      match split_at t s with
      | None => None
      | Some (_, r) =>
          if e <? s then None
          else
            match split_at r (e - s) with
            | None => None
            | Some (x, _) => Some x
            end
      end
  | _, _ => None
  end.

Definition extract_text_range (t : list N) (sl sc el ec : nat) : option (list N) :=
  etr_gen true t sl sc el ec.
Definition extract_text_range_old (t : list N) (sl sc el ec : nat) : option (list N) :=
  etr_gen false t sl sc el ec.

(* ---------- references ------------------------------------------------ *)

(* Reference 1 (partial): byte offset of the position (line, col) obtained by
   counting characters; lines end at LF; None if the position does not exist
   (line past the last line start, or col would cross an LF / the end). *)
Fixpoint ref_offset (t : list N) (line col : nat) : option N :=
  match t with
  | [] => match line, col with O, O => Some 0 | _, _ => None end
  | c :: t' =>
      match line with
      | S line' =>
          option_map (N.add (w c)) (ref_offset t' (if c =? LF then line' else line) col)
      | O =>
          match col with
          | O => Some 0
          | S col' =>
              if c =? LF then None
              else option_map (N.add (w c)) (ref_offset t' O col')
          end
      end
  end.

(* Reference 2 (total, clamped): number of characters before the position
   (line, col), where a column past the end of the line content is clamped to
   the end of the content (before LF / CR LF) and a line past the end of the
   text is clamped to the end of the text. *)
Fixpoint pos_index (t : list N) (line col : nat) : nat :=
  match t with
  | [] => O
  | c :: t' =>
      match line with
      | S line' => S (pos_index t' (if c =? LF then line' else line) col)
      | O =>
          match col with
          | O => O
          | S col' =>
              if c =? LF then O
              else if (c =? CR) && starts_lf t' then O
              else S (pos_index t' O col')
          end
      end
  end.

(* ---------- examples (model sanity; mirrors the Rust unit tests) ------ *)

Definition ch_a : N := 97.   Definition ch_b : N := 98.
Definition Uuml : N := 220.  (* "Ü", 2 bytes *)
Definition Auml : N := 196.  Definition Ouml : N := 214.

Example lines_ex1 : lines [ch_a; LF; ch_b] = [[ch_a]; [ch_b]].
Proof. reflexivity. Qed.
Example lines_ex2 : lines [ch_a; CR; LF; ch_b; LF] = [[ch_a]; [ch_b]].
Proof. reflexivity. Qed.
Example lines_ex3 : lines [ch_a; CR; ch_b; LF; LF; CR] = [[ch_a; CR; ch_b]; []; [CR]].
Proof. reflexivity. Qed.
Example lines_ex4 : lines [LF] = [[]] /\ lines [] = [] /\ lines [CR; LF] = [[]]
                    /\ lines [CR; CR; LF] = [[CR]].
Proof. repeat split. Qed.

(* CONTENT2 = "ÜÄÖ\nEXPECTED\n", range (1,0)-(1,8) = "EXPECTED" *)
Definition content2 : list N :=
  [Uuml; Auml; Ouml; LF; 69; 88; 80; 69; 67; 84; 69; 68; LF].
Example etr_content2 :
  extract_text_range content2 1 0 1 8 = Some [69; 88; 80; 69; 67; 84; 69; 68]
  /\ extract_text_range_old content2 1 0 1 8 = Some [69; 88; 80; 69; 67; 84; 69; 68].
Proof. split; vm_compute; reflexivity. Qed.
Example p2o_content2 :
  pos_to_offset content2 1 0 = Some 7 /\ pos_to_offset content2 0 2 = Some 4
  /\ pos_to_offset content2 0 9 = Some 6 /\ pos_to_offset content2 2 0 = Some 16
  /\ pos_to_offset content2 7 3 = Some 16.
Proof. repeat split. Qed.

(* ===================================================================== *)
(*  Proofs                                                               *)
(* ===================================================================== *)

Lemma w_pos : forall c, 1 <= w c.
Proof.
  intros c. unfold w.
  destruct (c <? 128); [lia|]. destruct (c <? 2048); [lia|].
  destruct (c <? 65536); lia.
Qed.

Lemma w_le4 : forall c, w c <= 4.
Proof.
  intros c. unfold w.
  destruct (c <? 128); [lia|]. destruct (c <? 2048); [lia|].
  destruct (c <? 65536); lia.
Qed.

Lemma bytes_app : forall a b, bytes (a ++ b) = bytes a + bytes b.
Proof.
  intros a b. induction a as [|c a IH]; cbn [bytes app]; [lia|]. rewrite IH. lia.
Qed.

Lemma bytes_firstn_le : forall n t, bytes (firstn n t) <= bytes t.
Proof.
  intros n t. rewrite <- (firstn_skipn n t) at 2. rewrite bytes_app. lia.
Qed.

Lemma bytes_firstn_mono : forall t n m, (n <= m)%nat ->
  bytes (firstn n t) <= bytes (firstn m t).
Proof.
  induction t as [|c t IH]; intros n m Hnm.
  - rewrite !firstn_nil. lia.
  - destruct n as [|n]; destruct m as [|m]; cbn [firstn bytes]; try lia.
    specialize (IH n m). lia.
Qed.

Lemma split_at_app : forall a b, split_at (a ++ b) (bytes a) = Some (a, b).
Proof.
  induction a as [|c a IH]; intros b.
  - cbn [app bytes]. destruct b; reflexivity.
  - cbn [app bytes split_at]. pose proof (w_pos c) as Hw.
    destruct (N.eqb_spec (w c + bytes a) 0) as [E|_]; [lia|].
    destruct (N.ltb_spec (w c + bytes a) (w c)) as [E|_]; [lia|].
    replace (w c + bytes a - w c) with (bytes a) by lia.
    rewrite IH. reflexivity.
Qed.

Lemma split_at_sound : forall t o a b,
  split_at t o = Some (a, b) -> t = a ++ b /\ bytes a = o.
Proof.
  induction t as [|c t IH]; intros o a b H.
  - cbn [split_at] in H. destruct (N.eqb_spec o 0) as [E|E]; [|discriminate].
    inversion H; subst. split; reflexivity.
  - cbn [split_at] in H. destruct (N.eqb_spec o 0) as [E|E].
    + inversion H; subst. split; reflexivity.
    + destruct (N.ltb_spec o (w c)) as [L|L]; [discriminate|].
      destruct (split_at t (o - w c)) as [[a' b']|] eqn:S; [|discriminate].
      inversion H; subst. destruct (IH _ _ _ S) as [E1 E2]. subst t.
      split; [reflexivity|]. cbn [bytes]. lia.
Qed.

(* split_at succeeds exactly on the char boundaries *)
Theorem split_at_boundary : forall t o,
  is_boundary t o <-> exists a b, split_at t o = Some (a, b).
Proof.
  intros t o. split.
  - intros [n Hn]. exists (firstn n t), (skipn n t). subst o.
    rewrite <- (firstn_skipn n t) at 1. apply split_at_app.
  - intros (a & b & H). apply split_at_sound in H. destruct H as [E1 E2].
    exists (length a). subst t o. rewrite firstn_app, firstn_all, Nat.sub_diag.
    cbn [firstn]. rewrite app_nil_r. reflexivity.
Qed.

(* ---------- structure of [lines] -------------------------------------- *)

Lemma lines_nil : forall t, lines t = [] -> t = [].
Proof.
  intros [|c t] H; [reflexivity|]. exfalso. cbn [lines] in H.
  destruct (c =? LF); [discriminate|].
  destruct ((c =? CR) && starts_lf t) eqn:E.
  - apply andb_true_iff in E. destruct E as [_ E].
    destruct t as [|d t]; cbn [starts_lf] in E; [discriminate|].
    cbn [lines] in H. rewrite E in H. discriminate.
  - destruct (lines t); discriminate.
Qed.

Definition ends_cr (l : list N) : Prop := exists l0, l = l0 ++ [CR].

(* what can follow the content [l] of a line, [ls] being the remaining lines *)
Inductive line_rest (l : list N) (ls : list (list N)) : list N -> Prop :=
| LR_eof : l <> [] -> ls = [] -> line_rest l ls []
| LR_lf : forall r, ~ ends_cr l -> lines r = ls -> line_rest l ls (LF :: r)
| LR_crlf : forall r, lines r = ls -> line_rest l ls (CR :: LF :: r).

Lemma lines_inv : forall s l ls,
  lines s = l :: ls ->
  exists rest, s = l ++ rest /\ ~ In LF l /\ line_rest l ls rest.
Proof.
  induction s as [|c s IH]; intros l ls H; [discriminate|].
  cbn [lines] in H.
  destruct (N.eqb_spec c LF) as [Ec|Ec].
  - inversion H; subst. exists (LF :: s). split; [reflexivity|]. split; [intros []|].
    apply LR_lf; [|reflexivity]. intros [l0 E]. destruct l0; discriminate.
  - destruct ((c =? CR) && starts_lf s) eqn:E.
    + apply andb_true_iff in E. destruct E as [E1 E2].
      apply N.eqb_eq in E1. subst c.
      destruct s as [|d s]; cbn [starts_lf] in E2; [discriminate|].
      apply N.eqb_eq in E2. subst d.
      cbn [lines] in H. change (LF =? LF) with true in H. cbn iota in H.
      inversion H; subst.
      exists (CR :: LF :: s). split; [reflexivity|]. split; [intros []|].
      apply LR_crlf. reflexivity.
    + destruct (lines s) as [|l' ls'] eqn:Ls.
      * apply lines_nil in Ls. subst s. inversion H; subst.
        exists []. split; [reflexivity|]. split.
        -- intros [E0|[]]. congruence.
        -- apply LR_eof; [discriminate|reflexivity].
      * inversion H; subst.
        destruct (IH _ _ eq_refl) as (rest & Es & Hnl & Hr).
        exists rest. split; [subst s; reflexivity|]. split.
        -- intros [E0|E0]; [congruence|auto].
        -- destruct Hr as [Hne Hls | r Hcr Hls | r Hls].
           ++ apply LR_eof; [discriminate|assumption].
           ++ apply LR_lf; [|assumption].
              intros [l0 E0]. destruct l0 as [|x l0].
              ** cbn [app] in E0. inversion E0; subst.
                 cbn [app starts_lf] in E. change (CR =? CR) with true in E.
                 change (LF =? LF) with true in E. discriminate.
              ** cbn [app] in E0. inversion E0; subst. apply Hcr. exists l0. reflexivity.
           ++ apply LR_crlf. assumption.
Qed.

(* the terminator actually found by the two starts_with tests *)
Definition tlen (rest : list N) : N :=
  if starts_with [CR; LF] rest then 2 else if starts_with [LF] rest then 1 else 0.

Lemma line_rest_term : forall l ls rest,
  line_rest l ls rest ->
  exists tm r, rest = tm ++ r /\ lines r = ls /\ bytes tm = tlen rest /\
    ((tm = [] /\ r = [] /\ ls = []) \/ tm = [LF] \/ tm = [CR; LF]).
Proof.
  intros l ls rest H. destruct H as [Hne Hls | r Hcr Hls | r Hls].
  - exists [], []. subst ls. repeat split. left. repeat split.
  - exists [LF], r. repeat split; auto.
  - exists [CR; LF], r. repeat split; auto.
Qed.

Lemma p2o_loop_step : forall t pre l rest ls,
  t = pre ++ l ++ rest ->
  p2o_loop true t (l :: ls) (bytes pre) =
  p2o_loop true t ls (bytes pre + bytes l + tlen rest).
Proof.
  intros t pre l rest ls Ht. cbn [p2o_loop].
  assert (S : split_at t (bytes pre + bytes l) = Some (pre ++ l, rest)).
  { subst t. rewrite app_assoc, <- bytes_app. apply split_at_app. }
  rewrite S. unfold tlen.
  destruct (starts_with [CR; LF] rest); [f_equal|].
  destruct (starts_with [LF] rest); f_equal; lia.
Qed.

(* ---------- the two references along one line -------------------------- *)

Lemma option_map_add_add : forall x y (o : option N),
  option_map (N.add x) (option_map (N.add y) o) = option_map (N.add (x + y)) o.
Proof. intros x y [v|]; cbn [option_map]; [f_equal; lia|reflexivity]. Qed.

Lemma pos_index_skip_line : forall l tm r L C,
  ~ In LF l ->
  (tm = [] /\ r = []) \/ tm = [LF] \/ tm = [CR; LF] ->
  pos_index (l ++ tm ++ r) (S L) C = (length l + length tm + pos_index r L C)%nat.
Proof.
  induction l as [|c l IH]; intros tm r L C Hnl Htm.
  - cbn [app length]. destruct Htm as [[E1 E2]|[E|E]]; subst; reflexivity.
  - cbn [app length pos_index].
    destruct (N.eqb_spec c LF) as [E|E]; [exfalso; apply Hnl; left; auto|].
    rewrite IH; [lia| |assumption]. intros Hin. apply Hnl. right. exact Hin.
Qed.

Lemma ref_offset_skip_line : forall l tm r L C,
  ~ In LF l ->
  tm = [LF] \/ tm = [CR; LF] ->
  ref_offset (l ++ tm ++ r) (S L) C =
  option_map (N.add (bytes l + bytes tm)) (ref_offset r L C).
Proof.
  induction l as [|c l IH]; intros tm r L C Hnl Htm.
  - cbn [app bytes]. destruct Htm as [E|E]; subst.
    + cbn [app ref_offset bytes]. change (LF =? LF) with true. cbn iota.
      destruct (ref_offset r L C); cbn [option_map]; [f_equal; lia|reflexivity].
    + cbn [app ref_offset bytes]. change (CR =? LF) with false.
      change (LF =? LF) with true. cbn iota. rewrite option_map_add_add.
      destruct (ref_offset r L C); cbn [option_map]; [f_equal; lia|reflexivity].
  - cbn [app ref_offset bytes].
    destruct (N.eqb_spec c LF) as [E|E]; [exfalso; apply Hnl; left; auto|].
    rewrite IH; [| |assumption].
    + rewrite option_map_add_add. destruct (ref_offset r L C); cbn [option_map];
        [f_equal; lia|reflexivity].
    + intros Hin. apply Hnl. right. exact Hin.
Qed.

Lemma pos_index_in_line : forall l ls rest C,
  ~ In LF l -> line_rest l ls rest ->
  pos_index (l ++ rest) O C = Nat.min C (length l).
Proof.
  induction l as [|c l IH]; intros ls rest C Hnl Hr.
  - cbn [app length]. rewrite Nat.min_0_r.
    destruct Hr as [Hne Hls | r Hcr Hls | r Hls].
    + reflexivity.
    + destruct C; reflexivity.
    + destruct C; reflexivity.
  - cbn [app length pos_index]. destruct C as [|C]; [reflexivity|].
    destruct (N.eqb_spec c LF) as [E|E]; [exfalso; apply Hnl; left; auto|].
    assert (Hnl' : ~ In LF l) by (intros Hin; apply Hnl; right; exact Hin).
    assert (Hcrlf : (c =? CR) && starts_lf (l ++ rest) = false).
    { destruct (N.eqb_spec c CR) as [E1|E1]; [|reflexivity]. subst c.
      cbn [andb]. destruct l as [|d l].
      - cbn [app]. destruct Hr as [Hne Hls | r Hcr Hls | r Hls]; try reflexivity.
        exfalso. apply Hcr. exists []. reflexivity.
      - cbn [app starts_lf]. apply N.eqb_neq. intros E2. apply Hnl'. left. exact E2. }
    rewrite Hcrlf.
    assert (Hr' : line_rest l ls rest \/ (l = [] /\ rest = [])).
    { destruct Hr as [Hne Hls | r Hcr Hls | r Hls].
      - destruct l; [right; split; reflexivity|left; apply LR_eof; [discriminate|assumption]].
      - left. apply LR_lf; [|assumption]. intros [l0 E0]. apply Hcr.
        exists (c :: l0). rewrite E0. reflexivity.
      - left. apply LR_crlf. assumption. }
    destruct Hr' as [Hr'|[E1 E2]].
    + rewrite (IH ls rest C Hnl' Hr'). reflexivity.
    + subst. cbn [app pos_index length]. destruct C; reflexivity.
Qed.

Lemma ref_offset_in_line : forall l rest C,
  ~ In LF l -> (C <= length l)%nat ->
  ref_offset (l ++ rest) O C = Some (bytes (firstn C l)).
Proof.
  induction l as [|c l IH]; intros rest C Hnl HC.
  - cbn [length] in HC. assert (C = O) by lia. subst C.
    cbn [app firstn bytes]. destruct rest; reflexivity.
  - destruct C as [|C]; [reflexivity|].
    cbn [app ref_offset firstn bytes].
    destruct (N.eqb_spec c LF) as [E|E]; [exfalso; apply Hnl; left; auto|].
    rewrite IH; [reflexivity| |cbn [length] in HC; lia].
    intros Hin. apply Hnl. right. exact Hin.
Qed.

Lemma char_index_nth_lt : forall l C, (C < length l)%nat ->
  char_index_nth l C = Some (bytes (firstn C l)).
Proof.
  induction l as [|c l IH]; intros C HC; cbn [length] in HC; [lia|].
  destruct C as [|C]; [reflexivity|].
  cbn [char_index_nth firstn bytes]. rewrite IH by lia. reflexivity.
Qed.

Lemma char_index_nth_ge : forall l C, (length l <= C)%nat -> char_index_nth l C = None.
Proof.
  induction l as [|c l IH]; intros C HC; [reflexivity|].
  cbn [length] in HC. destruct C as [|C]; [lia|].
  cbn [char_index_nth]. rewrite IH by lia. reflexivity.
Qed.

(* ---------- the loop invariant ---------------------------------------- *)

Lemma walk : forall ls1 t pre suf ls2,
  t = pre ++ suf -> lines suf = ls1 ++ ls2 ->
  exists mid suf',
    suf = mid ++ suf' /\ lines suf' = ls2 /\
    p2o_loop true t ls1 (bytes pre) = Some (bytes pre + bytes mid) /\
    (forall L C, pos_index suf (length ls1 + L) C
                 = (length mid + pos_index suf' L C)%nat) /\
    (ls2 <> [] -> forall L C, ref_offset suf (length ls1 + L) C
                 = option_map (N.add (bytes mid)) (ref_offset suf' L C)).
Proof.
  induction ls1 as [|l ls1 IH]; intros t pre suf ls2 Ht Hl.
  - exists [], suf. cbn [app length bytes p2o_loop Nat.add]. repeat split; auto.
    + f_equal. lia.
    + intros _ L C. destruct (ref_offset suf L C); cbn [option_map]; [f_equal; lia|reflexivity].
  - cbn [app] in Hl. destruct (lines_inv _ _ _ Hl) as (rest & Es & Hnl & Hr).
    destruct (line_rest_term _ _ _ Hr) as (tm & r & Er & Hlr & Hb & Htm).
    assert (Ht' : t = (pre ++ l ++ tm) ++ r).
    { subst t suf rest. rewrite <- !app_assoc. reflexivity. }
    destruct (IH t (pre ++ l ++ tm) r ls2 Ht' Hlr) as (mid & suf' & Er' & Hl' & Hloop & Hpi & Hro).
    exists (l ++ tm ++ mid), suf'. split; [|split; [|split; [|split]]].
    + subst suf rest r. rewrite <- !app_assoc. reflexivity.
    + exact Hl'.
    + rewrite (p2o_loop_step t pre l rest ls1) by (subst t suf; reflexivity).
      rewrite <- Hb. rewrite !bytes_app in Hloop. rewrite !bytes_app.
      replace (bytes pre + bytes l + bytes tm) with (bytes pre + (bytes l + bytes tm)) by lia.
      rewrite Hloop. f_equal. lia.
    + intros L C. subst suf rest. cbn [length Nat.add].
      rewrite pos_index_skip_line; [|assumption|].
      * rewrite Hpi. rewrite !app_length. lia.
      * destruct Htm as [(E1 & E2 & _)|[E|E]]; auto.
    + intros Hne L C. subst suf rest. cbn [length Nat.add].
      assert (Htm' : tm = [LF] \/ tm = [CR; LF]).
      { destruct Htm as [(E1 & E2 & E3)|[E|E]]; auto.
        exfalso. destruct ls1; [|discriminate]. cbn [app] in E3. auto. }
      rewrite ref_offset_skip_line by assumption.
      rewrite (Hro Hne), option_map_add_add. rewrite !bytes_app.
      destruct (ref_offset suf' L C); cbn [option_map]; [f_equal; lia|reflexivity].
Qed.

Lemma firstn_length_min : forall (A : Type) n (l : list A),
  length (firstn n l) = Nat.min n (length l).
Proof. intros A n l. apply firstn_length. Qed.

Lemma nth_error_skipn_hd : forall (A : Type) n (l : list A),
  nth_error l n = match skipn n l with [] => None | x :: _ => Some x end.
Proof.
  intros A n. induction n as [|n IH]; intros [|x l]; cbn [nth_error skipn]; auto.
Qed.

(* ---------- master theorem ------------------------------------------- *)

(* The repaired pos_to_offset never panics and equals the byte length of the
   first [pos_index t line col] characters of the text: it is the clamped
   character walk, for ALL texts and ALL positions. *)
Theorem pos_to_offset_char_walk : forall t line col,
  pos_to_offset t line col = Some (bytes (firstn (pos_index t line col) t)).
Proof.
  intros t line col. unfold pos_to_offset, p2o_gen.
  destruct (walk (firstn line (lines t)) t [] t (skipn line (lines t)) eq_refl
              (eq_sym (firstn_skipn line (lines t))))
    as (mid & suf' & Et & Hl' & Hloop & Hpi & _).
  cbn [bytes] in Hloop. rewrite Hloop.
  rewrite nth_error_skipn_hd.
  destruct (skipn line (lines t)) as [|l ls] eqn:Sk.
  - (* line >= number of lines *)
    apply lines_nil in Hl'. subst suf'. rewrite app_nil_r in Et. subst mid.
    cbn [option_map]. rewrite N.add_0_l, N.min_id.
    assert (Hlen : (length (lines t) <= line)%nat).
    { destruct (Nat.le_gt_cases (length (lines t)) line) as [H|H]; [exact H|].
      exfalso. assert (length (skipn line (lines t)) = 0%nat) by (rewrite Sk; reflexivity).
      rewrite skipn_length in H0. lia. }
    specialize (Hpi (line - length (firstn line (lines t)))%nat col).
    rewrite firstn_length_min in Hpi.
    replace (Nat.min line (length (lines t)) + (line - Nat.min line (length (lines t))))%nat
      with line in Hpi by lia.
    rewrite Hpi. cbn [pos_index]. rewrite Nat.add_0_r, firstn_all. reflexivity.
  - (* line < number of lines; l is that line *)
    destruct (lines_inv _ _ _ Hl') as (rest & Es & Hnl & Hr).
    assert (Hlen : (line < length (lines t))%nat).
    { destruct (Nat.le_gt_cases (length (lines t)) line) as [H|H]; [|exact H].
      rewrite skipn_all2 in Sk by exact H. discriminate. }
    specialize (Hpi O col). rewrite firstn_length_min in Hpi.
    replace (Nat.min line (length (lines t)) + 0)%nat with line in Hpi by lia.
    rewrite Hpi. subst suf'. rewrite (pos_index_in_line l ls rest col Hnl Hr).
    assert (Hfn : firstn (length mid + Nat.min col (length l)) t
                  = mid ++ firstn col l).
    { subst t. rewrite firstn_app, firstn_all2 by lia.
      replace (length mid + Nat.min col (length l) - length mid)%nat
        with (Nat.min col (length l)) by lia.
      rewrite firstn_app.
      replace (Nat.min col (length l) - length l)%nat with O by lia.
      cbn [firstn]. rewrite app_nil_r.
      destruct (Nat.le_gt_cases col (length l)) as [H|H].
      - rewrite Nat.min_l by lia. reflexivity.
      - rewrite Nat.min_r by lia. rewrite !firstn_all2 by lia. reflexivity. }
    rewrite Hfn, bytes_app, N.add_0_l.
    assert (Hle : bytes mid + bytes (firstn col l) <= bytes t).
    { rewrite <- bytes_app, <- Hfn. apply bytes_firstn_le. }
    assert (Hres : forall r, r = Some (bytes mid + bytes (firstn col l)) ->
              option_map (fun o => N.min o (bytes t)) r
              = Some (bytes mid + bytes (firstn col l))).
    { intros r0 E. subst r0. cbn [option_map]. f_equal. apply N.min_l. exact Hle. }
    apply Hres.
    destruct l as [|c l]; [cbn [is_empty firstn]; rewrite firstn_nil; cbn [bytes]; f_equal; lia|].
    cbn [is_empty].
    destruct (Nat.le_gt_cases (length (c :: l)) col) as [H|H].
    + rewrite char_index_nth_ge by exact H. rewrite firstn_all2 by exact H. reflexivity.
    + rewrite char_index_nth_lt by exact H. reflexivity.
Qed.

(* ---------- consequences for the repaired function -------------------- *)

Theorem pos_to_offset_no_panic : forall t line col,
  exists o, pos_to_offset t line col = Some o.
Proof. intros t line col. eexists. apply pos_to_offset_char_walk. Qed.

Theorem pos_to_offset_in_text : forall t line col o,
  pos_to_offset t line col = Some o -> o <= bytes t.
Proof.
  intros t line col o H. rewrite pos_to_offset_char_walk in H.
  inversion H; subst. apply bytes_firstn_le.
Qed.

Theorem pos_to_offset_boundary : forall t line col o,
  pos_to_offset t line col = Some o -> is_boundary t o.
Proof.
  intros t line col o H. rewrite pos_to_offset_char_walk in H.
  inversion H; subst. exists (pos_index t line col). reflexivity.
Qed.

(* decidable form of is_boundary for the harness *)
Definition is_boundary_b (t : list N) (o : N) : bool :=
  match split_at t o with Some _ => true | None => false end.

Lemma is_boundary_b_spec : forall t o, is_boundary_b t o = true <-> is_boundary t o.
Proof.
  intros t o. rewrite split_at_boundary. unfold is_boundary_b. split.
  - destruct (split_at t o) as [[a b]|]; [eauto|discriminate].
  - intros (a & b & H). rewrite H. reflexivity.
Qed.

(* position order of LSP: lexicographic on (line, character) *)
Definition pos_le (l1 c1 l2 c2 : nat) : Prop :=
  (l1 < l2)%nat \/ (l1 = l2 /\ (c1 <= c2)%nat).

Lemma pos_index_mono : forall t l1 c1 l2 c2,
  pos_le l1 c1 l2 c2 -> (pos_index t l1 c1 <= pos_index t l2 c2)%nat.
Proof.
  induction t as [|c t IH]; intros l1 c1 l2 c2 H; [cbn [pos_index]; lia|].
  unfold pos_le in H. cbn [pos_index].
  destruct l1 as [|l1]; destruct l2 as [|l2]; try lia.
  - destruct c1 as [|c1]; [lia|]. destruct c2 as [|c2]; [lia|].
    destruct (c =? LF); [lia|]. destruct ((c =? CR) && starts_lf t); [lia|].
    apply le_n_S. apply IH. right. split; lia.
  - destruct c1 as [|c1]; [lia|].
    destruct (N.eqb_spec c LF) as [E|E]; [lia|].
    destruct ((c =? CR) && starts_lf t); [lia|].
    apply le_n_S. apply IH. left. lia.
  - apply le_n_S. destruct (c =? LF); apply IH; unfold pos_le; lia.
Qed.

(* offsets are monotone in the position: [end - start] never underflows for
   start <= end *)
Theorem pos_to_offset_mono : forall t l1 c1 l2 c2 o1 o2,
  pos_le l1 c1 l2 c2 ->
  pos_to_offset t l1 c1 = Some o1 -> pos_to_offset t l2 c2 = Some o2 -> o1 <= o2.
Proof.
  intros t l1 c1 l2 c2 o1 o2 H H1 H2.
  rewrite pos_to_offset_char_walk in H1, H2. inversion H1; inversion H2; subst.
  apply bytes_firstn_mono. apply pos_index_mono. exact H.
Qed.

Lemma split_at_firstn : forall t n,
  split_at t (bytes (firstn n t)) = Some (firstn n t, skipn n t).
Proof.
  intros t n. pose proof (split_at_app (firstn n t) (skipn n t)) as H.
  rewrite firstn_skipn in H. exact H.
Qed.

Lemma firstn_split_sub : forall (t : list N) n m, (n <= m)%nat ->
  firstn m t = firstn n t ++ firstn (m - n) (skipn n t).
Proof.
  induction t as [|c t IH]; intros n m H.
  - rewrite skipn_nil, !firstn_nil. reflexivity.
  - destruct n as [|n].
    + cbn [firstn skipn app]. rewrite Nat.sub_0_r. reflexivity.
    + destruct m as [|m]; [lia|]. cbn [firstn skipn app Nat.sub].
      f_equal. apply IH. lia.
Qed.

(* extract_text_range (repaired) never panics for start <= end and returns
   exactly the characters between the two (clamped) positions. *)
Theorem extract_text_range_spec : forall t sl sc el ec,
  pos_le sl sc el ec ->
  extract_text_range t sl sc el ec =
  Some (firstn (pos_index t el ec - pos_index t sl sc) (skipn (pos_index t sl sc) t)).
Proof.
  intros t sl sc el ec H. unfold extract_text_range, etr_gen.
  fold (pos_to_offset t sl sc). fold (pos_to_offset t el ec).
  rewrite !pos_to_offset_char_walk.
  pose proof (pos_index_mono t _ _ _ _ H) as Hm.
  set (n1 := pos_index t sl sc) in *. set (n2 := pos_index t el ec) in *.
  rewrite split_at_firstn.
  rewrite (firstn_split_sub t n1 n2 Hm), bytes_app.
  destruct (N.ltb_spec (bytes (firstn n1 t) + bytes (firstn (n2 - n1) (skipn n1 t)))
                       (bytes (firstn n1 t))) as [L|_]; [lia|].
  replace (bytes (firstn n1 t) + bytes (firstn (n2 - n1) (skipn n1 t)) - bytes (firstn n1 t))
    with (bytes (firstn (n2 - n1) (skipn n1 t))) by lia.
  rewrite split_at_firstn. reflexivity.
Qed.

Theorem extract_text_range_no_panic : forall t sl sc el ec,
  pos_le sl sc el ec -> exists x, extract_text_range t sl sc el ec = Some x.
Proof. intros. eexists. apply extract_text_range_spec. assumption. Qed.

(* For start > end the function still panics (usize underflow of
   [end - start]); callers must pass ordered ranges. *)
Example extract_text_range_reversed_panics :
  extract_text_range [ch_a; ch_b] 0 1 0 0 = None.
Proof. reflexivity. Qed.

(* ---------- exactness against the counting reference ------------------- *)

Lemma firstn_mid : forall (mid l rest : list N) col,
  firstn (length mid + Nat.min col (length l)) (mid ++ l ++ rest) = mid ++ firstn col l.
Proof.
  intros mid l rest col. rewrite firstn_app, firstn_all2 by lia.
  replace (length mid + Nat.min col (length l) - length mid)%nat
    with (Nat.min col (length l)) by lia.
  rewrite firstn_app.
  replace (Nat.min col (length l) - length l)%nat with O by lia.
  cbn [firstn]. rewrite app_nil_r.
  destruct (Nat.le_gt_cases col (length l)) as [H|H].
  - rewrite Nat.min_l by lia. reflexivity.
  - rewrite Nat.min_r by lia. rewrite !firstn_all2 by lia. reflexivity.
Qed.

(* decomposition of the text around line number [line] *)
Lemma line_decomp : forall t line l,
  nth_error (lines t) line = Some l ->
  exists mid rest ls,
    t = mid ++ l ++ rest /\ ~ In LF l /\ line_rest l ls rest /\
    (forall C, pos_index t line C = (length mid + Nat.min C (length l))%nat) /\
    (forall C, (C <= length l)%nat ->
               ref_offset t line C = Some (bytes mid + bytes (firstn C l))).
Proof.
  intros t line l Hn.
  destruct (walk (firstn line (lines t)) t [] t (skipn line (lines t)) eq_refl
              (eq_sym (firstn_skipn line (lines t))))
    as (mid & suf' & Et & Hl' & _ & Hpi & Hro).
  rewrite nth_error_skipn_hd in Hn.
  destruct (skipn line (lines t)) as [|l0 ls] eqn:Sk; [discriminate|].
  inversion Hn; subst l0.
  destruct (lines_inv _ _ _ Hl') as (rest & Es & Hnl & Hr).
  assert (Hlen : (line < length (lines t))%nat).
  { destruct (Nat.le_gt_cases (length (lines t)) line) as [H|H]; [|exact H].
    rewrite skipn_all2 in Sk by exact H. discriminate. }
  assert (Hl1 : (length (firstn line (lines t)) + 0)%nat = line).
  { rewrite firstn_length_min. lia. }
  exists mid, rest, ls. subst suf'. repeat split; auto.
  - intros C. specialize (Hpi O C). rewrite Hl1 in Hpi. rewrite Hpi.
    rewrite (pos_index_in_line l ls rest C Hnl Hr). reflexivity.
  - intros C HC. assert (Hne : l :: ls <> []) by discriminate.
    specialize (Hro Hne O C). rewrite Hl1 in Hro. rewrite Hro.
    rewrite ref_offset_in_line by assumption. reflexivity.
Qed.

(* On existing positions (line < #lines, col <= #chars of that line) the
   repaired function returns exactly the byte offset obtained by counting. *)
Theorem pos_to_offset_exact : forall t line col l,
  nth_error (lines t) line = Some l -> (col <= length l)%nat ->
  exists o, ref_offset t line col = Some o /\ pos_to_offset t line col = Some o.
Proof.
  intros t line col l Hn HC.
  destruct (line_decomp t line l Hn) as (mid & rest & ls & Et & Hnl & Hr & Hpi & Hro).
  exists (bytes mid + bytes (firstn col l)). split; [apply Hro; exact HC|].
  rewrite pos_to_offset_char_walk, Hpi. rewrite Et.
  rewrite firstn_mid, bytes_app. reflexivity.
Qed.

(* column past the end of an existing line: the end of the line content *)
Theorem pos_to_offset_clamp_col : forall t line col l,
  nth_error (lines t) line = Some l -> (length l <= col)%nat ->
  pos_to_offset t line col = pos_to_offset t line (length l).
Proof.
  intros t line col l Hn HC.
  destruct (line_decomp t line l Hn) as (mid & rest & ls & Et & Hnl & Hr & Hpi & Hro).
  rewrite !pos_to_offset_char_walk, !Hpi.
  rewrite Nat.min_r by exact HC. rewrite Nat.min_id. reflexivity.
Qed.

(* line past the last line: the end of the text *)
Theorem pos_to_offset_eof : forall t line col,
  (length (lines t) <= line)%nat -> pos_to_offset t line col = Some (bytes t).
Proof.
  intros t line col H.
  destruct (walk (firstn line (lines t)) t [] t (skipn line (lines t)) eq_refl
              (eq_sym (firstn_skipn line (lines t))))
    as (mid & suf' & Et & Hl' & _ & Hpi & _).
  rewrite skipn_all2 in Hl' by exact H. apply lines_nil in Hl'. subst suf'.
  rewrite app_nil_r in Et. subst mid.
  specialize (Hpi (line - length (lines t))%nat col).
  rewrite firstn_all2 in Hpi by exact H.
  replace (length (lines t) + (line - length (lines t)))%nat with line in Hpi by lia.
  rewrite pos_to_offset_char_walk, Hpi. cbn [pos_index].
  rewrite Nat.add_0_r, firstn_all. reflexivity.
Qed.

(* non-vacuity of the hypotheses *)
Example pos_to_offset_exact_ex :
  nth_error (lines content2) 0 = Some [Uuml; Auml; Ouml] /\
  ref_offset content2 0 3 = Some 6 /\ pos_to_offset content2 0 3 = Some 6 /\
  ref_offset content2 1 8 = Some 15 /\ pos_to_offset content2 1 8 = Some 15.
Proof. repeat split. Qed.
Example pos_le_ex : pos_le 0 7 1 0 /\ pos_le 2 3 2 3.
Proof. unfold pos_le. split; lia. Qed.
Example extract_crlf_ex :
  extract_text_range [ch_a; Uuml; CR; LF; ch_b] 0 1 0 9 = Some [Uuml] /\
  extract_text_range [ch_a; Uuml; CR; LF; ch_b] 0 1 1 1 = Some [Uuml; CR; LF; ch_b] /\
  extract_text_range [ch_a; Uuml; CR; LF; ch_b] 0 2 5 0 = Some [CR; LF; ch_b].
Proof. repeat split. Qed.

(* ---------- the pinned version is refuted ------------------------------ *)

(* D10a: text whose last line has no line ending, line number >= #lines:
   the unconditional [offset += 1] leaves the text.  "ab", line 1. *)
Theorem pos_to_offset_old_refuted_1 :
  exists t line col o, pos_to_offset_old t line col = Some o /\ bytes t < o.
Proof. exists [ch_a; ch_b], 1%nat, 0%nat, 3. split; reflexivity. Qed.

(* D10b: column past the end of a line whose last char is multi-byte:
   [last char index + 1] is inside that character.  "Ü", line 0, col 5. *)
Theorem pos_to_offset_old_refuted_2 :
  exists t line col o, pos_to_offset_old t line col = Some o /\ o <= bytes t /\
                       ~ is_boundary t o.
Proof.
  exists [Uuml], 0%nat, 5%nat, 1. split; [reflexivity|]. split; [vm_compute; discriminate|].
  intros [n H]. destruct n as [|[|n]]; vm_compute in H; discriminate.
Qed.

(* ... and extract_text_range of the pinned version panics on both *)
Theorem extract_text_range_old_refuted :
  extract_text_range_old [Uuml] 0 0 0 5 = None /\
  extract_text_range_old [ch_a; ch_b] 0 0 1 0 = None /\
  extract_text_range_old [ch_a; LF; ch_b] 1 1 2 0 = None /\
  (* the repaired one on the same inputs *)
  extract_text_range [Uuml] 0 0 0 5 = Some [Uuml] /\
  extract_text_range [ch_a; ch_b] 0 0 1 0 = Some [ch_a; ch_b] /\
  extract_text_range [ch_a; LF; ch_b] 1 1 2 0 = Some [].
Proof. repeat split. Qed.

Print Assumptions pos_to_offset_char_walk.
Print Assumptions pos_to_offset_no_panic.
Print Assumptions pos_to_offset_in_text.
Print Assumptions pos_to_offset_boundary.
Print Assumptions pos_to_offset_mono.
Print Assumptions extract_text_range_spec.
Print Assumptions extract_text_range_no_panic.
Print Assumptions pos_to_offset_exact.
Print Assumptions pos_to_offset_clamp_col.
Print Assumptions pos_to_offset_eof.
Print Assumptions is_boundary_b_spec.
Print Assumptions pos_to_offset_old_refuted_1.
Print Assumptions pos_to_offset_old_refuted_2.
Print Assumptions extract_text_range_old_refuted.
