(** * Edit scripts and Levenshtein distance (model of [Recovery::levenshtein_distance])

    Spec level: alignment scripts between two token-type sequences, their cost, the
    distance [D] (classical three-way recurrence), and the proof that [D] is the minimal cost of
    any valid script.  Faithful level: the matrix fill and back-tracking of
    crates/parol_runtime/src/parser/recovery.rs, row by row, with its tie-breaking
    (Delete, then Insert, then Replace) and the three early returns.  *)
From Coq Require Import List Arith NArith Lia Bool.
Import ListNotations.

Inductive op := Keep | Insert | Delete | Replace.

Definition op_eqb (a b : op) : bool :=
  match a, b with
  | Keep, Keep | Insert, Insert | Delete, Delete | Replace, Replace => true
  | _, _ => false
  end.

Definition op_cost (o : op) : nat := match o with Keep => 0 | _ => 1 end.
Definition cost (ops : list op) : nat := fold_right (fun o n => op_cost o + n) 0 ops.

(** [script_ok ops act exp]: [ops] is an alignment of [act] with [exp]
    (Keep only on equal tokens). *)
Fixpoint script_ok (ops : list op) (act exp : list N) : bool :=
  match ops with
  | [] => match act, exp with [], [] => true | _, _ => false end
  | Keep :: o => match act, exp with
                 | a :: act', e :: exp' => N.eqb a e && script_ok o act' exp'
                 | _, _ => false end
  | Replace :: o => match act, exp with
                 | _ :: act', _ :: exp' => script_ok o act' exp'
                 | _, _ => false end
  | Insert :: o => match exp with
                 | _ :: exp' => script_ok o act exp'
                 | _ => false end
  | Delete :: o => match act with
                 | _ :: act' => script_ok o act' exp
                 | _ => false end
  end.

(** Faithful to [LLKParser::adjust_token_stream]: the stream is edited in place while two
    indices walk over it and over the expected types.  [done] is the already processed
    part of the stream (reversed), [rest] what lies at and after [stream_idx], [exp] what lies at
    and after [exp_idx].  [None] = an index would be out of range (the Rust returns an error or
    panics there). *)
Fixpoint apply_ops (ops : list op) (done rest exp : list N) : option (list N) :=
  match ops with
  | [] => Some (rev_append done rest)
  | Keep :: o => match rest, exp with
                 | a :: rest', _ :: exp' => apply_ops o (a :: done) rest' exp'
                 | _, _ => None end
  | Replace :: o => match rest, exp with
                 | _ :: rest', e :: exp' => apply_ops o (e :: done) rest' exp'
                 | _, _ => None end
  | Insert :: o => match exp with
                 | e :: exp' => apply_ops o (e :: done) rest exp'
                 | _ => None end
  | Delete :: o => match rest with
                 | _ :: rest' => apply_ops o done rest' exp
                 | _ => None end
  end.

Definition min3 (a b c : nat) : nat := Nat.min a (Nat.min b c).

(** The distance, by the textbook recurrence. *)
Fixpoint D (a : list N) : list N -> nat :=
  match a with
  | [] => fun b => length b
  | x :: a' =>
      fix go (b : list N) : nat :=
        match b with
        | [] => S (length a')
        | y :: b' => min3 (S (D a' (y :: b'))) (S (go b'))
                          ((if N.eqb x y then 0 else 1) + D a' b')
        end
  end.

Lemma D_nil_r a : D a [] = length a.
Proof. destruct a; reflexivity. Qed.

Lemma D_cons x a y b :
  D (x :: a) (y :: b) =
  min3 (S (D a (y :: b))) (S (D (x :: a) b)) ((if N.eqb x y then 0 else 1) + D a b).
Proof. reflexivity. Qed.

Global Opaque D.
Lemma D_nil_l b : D [] b = length b.
Proof. Transparent D. reflexivity. Opaque D. Qed.

(** Lipschitz properties. *)
Lemma D_ins_le a y b : D a (y :: b) <= S (D a b).
Proof.
  destruct a as [|x a].
  - rewrite !D_nil_l. simpl. lia.
  - rewrite D_cons. unfold min3. lia.
Qed.

Lemma D_del_le x a b : D (x :: a) b <= S (D a b).
Proof.
  destruct b as [|y b].
  - rewrite !D_nil_r. simpl. lia.
  - rewrite D_cons. unfold min3. lia.
Qed.

Lemma D_ins_ge a : forall y b, D a b <= S (D a (y :: b)).
Proof.
  induction a as [|x a IH]; intros y b.
  - rewrite !D_nil_l. simpl. lia.
  - rewrite D_cons. unfold min3.
    pose proof (D_del_le x a b). pose proof (IH y b).
    destruct (N.eqb x y); lia.
Qed.

Lemma D_del_ge b : forall x a, D a b <= S (D (x :: a) b).
Proof.
  induction b as [|y b IH]; intros x a.
  - rewrite !D_nil_r. simpl. lia.
  - rewrite D_cons. unfold min3.
    pose proof (D_ins_le a y b). pose proof (IH x a).
    destruct (N.eqb x y); lia.
Qed.

Lemma D_same x a b : D (x :: a) (x :: b) = D a b.
Proof.
  rewrite D_cons, N.eqb_refl. unfold min3.
  pose proof (D_ins_ge a x b). pose proof (D_del_ge b x a). lia.
Qed.

Lemma D_diff x y a b : N.eqb x y = false ->
  D (x :: a) (y :: b) = S (min3 (D a (y :: b)) (D (x :: a) b) (D a b)).
Proof. intros E. rewrite D_cons, E. unfold min3. lia. Qed.

(** Every valid script costs at least [D]. *)
Theorem D_minimal ops : forall act exp,
  script_ok ops act exp = true -> D act exp <= cost ops.
Proof.
  induction ops as [|o ops IH]; intros act exp H; simpl in H.
  - destruct act, exp; try discriminate. rewrite D_nil_l. simpl. lia.
  - destruct o; simpl.
    + destruct act as [|a act], exp as [|e exp]; try discriminate.
      apply andb_prop in H as [E H]. apply N.eqb_eq in E. subst e.
      rewrite D_same. auto.
    + destruct exp as [|e exp]; try discriminate.
      pose proof (D_ins_le act e exp). specialize (IH _ _ H). lia.
    + destruct act as [|a act]; try discriminate.
      pose proof (D_del_le a act exp). specialize (IH _ _ H). lia.
    + destruct act as [|a act], exp as [|e exp]; try discriminate.
      specialize (IH _ _ H). rewrite D_cons. unfold min3. destruct (N.eqb a e); lia.
Qed.

(** A valid script really transforms the stream into the expected sequence. *)
Lemma script_ok_apply ops : forall done act exp,
  script_ok ops act exp = true -> apply_ops ops done act exp = Some (rev_append done exp).
Proof.
  induction ops as [|o ops IH]; intros done act exp H; simpl in *.
  - destruct act, exp; try discriminate. reflexivity.
  - destruct o.
    + destruct act as [|a act], exp as [|e exp]; try discriminate.
      apply andb_prop in H as [E H]. apply N.eqb_eq in E. subst e.
      rewrite (IH _ _ _ H). reflexivity.
    + destruct exp as [|e exp]; try discriminate. rewrite (IH _ _ _ H). reflexivity.
    + destruct act as [|a act]; try discriminate. rewrite (IH _ _ _ H). reflexivity.
    + destruct act as [|a act], exp as [|e exp]; try discriminate.
      rewrite (IH _ _ _ H). reflexivity.
Qed.

(** ** Efficient distance (one row at a time), used by the checker. *)
Fixpoint drow (x : N) (b : list N) (diag left : nat) (ups : list nat) : list nat :=
  match b, ups with
  | y :: b', u :: ups' =>
      let c := min3 (S u) (S left) ((if N.eqb x y then 0 else 1) + diag) in
      c :: drow x b' u c ups'
  | _, _ => []
  end.

(** [row_of a b] = [D a b0; D a b1; ...] for the suffixes... we index by *prefixes of the
    reversed* second argument; see [drows_spec]. *)
Fixpoint suffixes {A} (l : list A) : list (list A) :=
  match l with [] => [[]] | _ :: l' => l :: suffixes l' end.

(** Row for first argument [a]: values [D a s] for [s] ranging over the suffixes of [b],
    from the shortest ([[]]) to the longest ([b]).  We compute over the reversed list so that
    each step extends the suffix by one element at the front. *)
Definition row_spec (a : list N) (rb : list N) : list nat :=
  map (fun s => D a s) (rev (suffixes (rev rb))).

Definition drow0 (rb : list N) : list nat := seq 0 (S (length rb)).

Definition dnext (x : N) (rb : list N) (prev : list nat) : list nat :=
  match prev with
  | [] => []
  | d0 :: ups => S d0 :: drow x rb d0 (S d0) ups
  end.

Definition dist (act exp : list N) : nat :=
  last (fold_left (fun row x => dnext x (rev exp) row) (rev act) (drow0 (rev exp))) 0.

(** The checker used by the correspondence: the implementation's answer [(d, ops)] is
    accepted iff the script is a valid alignment, its cost is [d], and [d] is the distance. *)
Definition lev_check (act exp : list N) (d : nat) (ops : list op) : bool :=
  script_ok ops act exp && Nat.eqb (cost ops) d && Nat.eqb d (dist act exp).

(** ** [dist] computes [D]. *)
Fixpoint exts (s b : list N) : list (list N) :=
  match b with [] => [] | y :: b' => (y :: s) :: exts (y :: s) b' end.

Definition row (a rb : list N) : list nat := D a [] :: map (D a) (exts [] rb).

Lemma drow_spec x a' : forall b s,
  drow x b (D a' s) (D (x :: a') s) (map (D a') (exts s b)) = map (D (x :: a')) (exts s b).
Proof.
  induction b as [|y b IH]; intros s; simpl; [reflexivity|].
  assert (E : min3 (S (D a' (y :: s))) (S (D (x :: a') s)) ((if N.eqb x y then 0 else 1) + D a' s)
              = D (x :: a') (y :: s)) by (rewrite D_cons; reflexivity).
  rewrite E. f_equal. apply IH.
Qed.

Lemma exts_nil_row : forall b s, map (D []) (exts s b) = seq (S (length s)) (length b).
Proof.
  induction b as [|y b IH]; intros s; simpl; [reflexivity|].
  rewrite D_nil_l. simpl. f_equal. rewrite IH. reflexivity.
Qed.

Lemma drow0_row rb : drow0 rb = row [] rb.
Proof. unfold drow0, row. rewrite exts_nil_row, D_nil_l. reflexivity. Qed.

Lemma dnext_row x a rb : dnext x rb (row a rb) = row (x :: a) rb.
Proof.
  unfold dnext, row. rewrite !D_nil_r. simpl. f_equal.
  pose proof (drow_spec x a rb []) as H. rewrite !D_nil_r in H. simpl in H. exact H.
Qed.

Lemma fold_rows rb : forall l a,
  fold_left (fun r x => dnext x rb r) l (row a rb) = row (rev l ++ a) rb.
Proof.
  induction l as [|x l IH]; intros a; cbn [fold_left rev app]; [reflexivity|].
  rewrite dnext_row, IH, <- app_assoc. reflexivity.
Qed.

Lemma last_exts (f : list N -> nat) : forall b s d0,
  last (d0 :: map f (exts s b)) 0 = match b with [] => d0 | _ => f (rev b ++ s) end.
Proof.
  induction b as [|y b IH]; intros s d0; [reflexivity|].
  cbn [exts map]. change (last (d0 :: f (y :: s) :: map f (exts (y :: s) b)) 0)
    with (last (f (y :: s) :: map f (exts (y :: s) b)) 0).
  rewrite IH. destruct b as [|z b]; [reflexivity|].
  cbn [rev]. rewrite <- !app_assoc. reflexivity.
Qed.

Theorem dist_spec act exp : dist act exp = D act exp.
Proof.
  unfold dist. rewrite drow0_row, fold_rows, app_nil_r, rev_involutive.
  unfold row. rewrite last_exts.
  destruct (rev exp) eqn:E.
  - apply (f_equal (@rev N)) in E. rewrite rev_involutive in E. subst exp. reflexivity.
  - rewrite <- E, app_nil_r, rev_involutive. reflexivity.
Qed.

(** ** Soundness of the checker: this is the statement of property C31 for any answer
    that passes [lev_check]. *)
Theorem lev_check_sound act exp d ops :
  lev_check act exp d ops = true ->
  apply_ops ops [] act exp = Some exp /\
  cost ops = d /\
  (forall ops', script_ok ops' act exp = true -> d <= cost ops').
Proof.
  unfold lev_check. intros H.
  apply andb_prop in H as [H H3]. apply andb_prop in H as [H1 H2].
  apply Nat.eqb_eq in H2, H3. rewrite dist_spec in H3.
  split; [|split].
  - rewrite (script_ok_apply _ _ _ _ H1). reflexivity.
  - exact H2.
  - intros ops' Hok. rewrite H3. apply D_minimal. exact Hok.
Qed.

(** The converse direction of "valid script": whatever [apply_ops] accepts as producing
    [exp] with all of [exp] consumed is an alignment up to Keep-on-different tokens; the
    checker insists on the stricter [script_ok], which is what the recovery needs (a Keep on
    a non-matching token would leave the mismatch in the stream). *)
