"""Per-property configuration of the correspondence runs."""

TRUSTED_BASE = [
    'Coq 8.16.1 kernel (coqc; vm_compute used for witnesses/finite sweeps; native_compute not used)',
    'extraction with ExtrOcamlBasic + ExtrOcamlString only, OCaml 4.13.1, hand-written ocaml/driver.ml',
    'Rust harness /verif/harness (generators, canonicalisation), hooks behind --cfg parol_verif',
    'hand-written Gallina models; fidelity to the Rust is what the correspondence run tests',
]

NOT_APPLICABLE = {
    'C22': 'The property is that rustc accepts the generated text; an executable Gallina model would have to model '
           'Rust name resolution, type and borrow checking. No such model exists or can be built here, so machine-checked '
           'proof cannot apply (DESIGN.md section 6).',
}

PROPS = {
    'C31': dict(
        level='proof',
        level_text='Rocq theorems for all pairs of sequences: any (distance, script) accepted by the executable checker '
                   'lev_check is a valid alignment whose cost equals the reported distance and is minimal (C31_checker_sound, '
                   'C31_D_minimal). Tie to the code: the extracted checker is evaluated on the output of the real '
                   'Recovery::levenshtein_distance (exhaustive small pairs + random pairs).',
        level_note='Trusted: Coq kernel, extraction (ExtrOcamlBasic), OCaml driver, Rust harness and the cfg-guarded re-export '
                   'hook. The theorem is about the checker and spec; that the Rust passes the checker on all inputs is tested, not proved.',
        technique='Rocq proof (induction on scripts/sequences) + checker-style correspondence via extraction',
        streams=[dict(cmd='c31', quick=4000, thorough=200000)],
        rule='all pairs of sequences over a 2-letter (quick: length<=4) / 3-letter (thorough: length<=5) alphabet, '
             'plus random mostly-related pairs (one sequence is a 0-4 edit mutation of the other; 1 in 8 unrelated; '
             'lengths up to 40); non-trivial = both sequences non-empty and different; distinct = distinct case text',
        exhaustive=False,
        explanation='Theorem C31_checker_sound (all inputs): an answer accepted by lev_check is a valid, minimal edit '
                    'script. The run applies the extracted lev_check to the real Recovery::levenshtein_distance output.',
    ),
}
