#!/bin/sh
# MANIFEST.setup_cmd: build the framework from files on disk only (offline).
set -e
cd "$(dirname "$0")"
export CARGO_NET_OFFLINE=true RUSTFLAGS="--cfg parol_verif"
mkdir -p work
cp -f /repo/Cargo.lock harness/Cargo.lock
( cd harness && CARGO_TARGET_DIR=/verif/target cargo build --offline )
python3 tools/gen_consts.py
( cd coq && coq_makefile -f _CoqProject -o Makefile && timeout 3000 make -j16 )
( cd ocaml && ./build.sh )
( cd /repo && CARGO_TARGET_DIR=/verif/target/ls cargo build -p parol-ls --offline )
echo setup done
