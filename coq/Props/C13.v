(** Property C13 — The scanner tokenizes by the documented rules.
    Pinned statements (tools/pin.py).  [tokens_spec] is the tokenisation RELATION written from the
    property text (longest non-empty match among the entries of the current mode, first entry wins
    on equal length, positive/negative look-ahead, enter/push/pop with pop on an empty stack keeping
    the mode); [tokenize] is proved to satisfy it and the relation is functional.  The second
    sentence of the property (independence of the parser's lookahead size and consumption
    schedule) is [stream_k_independent] on the faithful TokenStream model.
    That scnr2's NFA/DFA pipeline implements the regex semantics is NOT a theorem: it is what the
    correspondence run tests, with the real scanner tables built at run time by scnr2_generate
    from the scanner! text the real lexer generator emits. *)
From Coq Require Import List NArith.
From Parol Require Import Scanner.Regex Scanner.LongestMatch Runtime.TokenBuffer Runtime.TokenStream.
Import ListNotations.

Theorem C13_deriv_spec :
  forall (c : N) (r : regex) (w : list N), matches (deriv c r) w <-> matches r (c :: w).
Proof. exact deriv_spec. Qed.

Theorem C13_matchb_spec :
  forall (r : regex) (w : list N), matchb r w = true <-> matches r w.
Proof. exact matchb_spec. Qed.

Theorem C13_longest_prefix_match_spec :
  forall (la : LongestMatch.lookahead) (r : regex) (s : list N) (n : nat),
  longest_prefix_match la r s = Some n <->
  0 < n <= length s /\
  accepts la r s n /\ (forall m : nat, n < m <= length s -> ~ accepts la r s m).
Proof. exact longest_prefix_match_spec. Qed.

Theorem C13_best_match_spec :
  forall (es : list entry) (s : list N),
  match best_match es s with
  | Some (t, n) =>
  exists (i : nat) (e : entry),
  best_spec es s i n /\ nth_error es i = Some e /\ e_type e = t
  | None => no_match es s
  end.
Proof. exact best_match_spec. Qed.

Theorem C13_tokenize_spec :
  forall (modes : list mode) (f cur : nat) (stack : list nat) (s : list N) 
  (pos : nat) (toks : list LongestMatch.token),
  tokenize f modes cur stack s pos = Some toks -> tokens_spec modes cur stack s pos toks.
Proof. exact tokenize_spec. Qed.

Theorem C13_tokens_spec_functional :
  forall (modes : list mode) (cur : nat) (stack : list nat) (s : list N) 
  (pos : nat) (toks1 : list LongestMatch.token),
  tokens_spec modes cur stack s pos toks1 ->
  forall toks2 : list LongestMatch.token,
  tokens_spec modes cur stack s pos toks2 -> toks1 = toks2.
Proof. exact tokens_spec_functional. Qed.

Theorem C13_tokenize_fuel :
  forall modes : list mode,
  modes_ok modes = true ->
  forall (f cur : nat) (stack : list nat) (s : list N) (pos : nat),
  cur < length modes ->
  Forall (fun m : nat => m < length modes) stack ->
  length s < f ->
  exists toks : list LongestMatch.token, tokenize f modes cur stack s pos = Some toks.
Proof. exact tokenize_fuel. Qed.

Theorem C13_stream_k_independent :
  forall (skips : list (list N)) (len fm : N) (ms : list smatch) (k1 k2 : nat) (ops : list op),
  is_state_skip skips EOI fm = false ->
  (forall n : nat,
  In (OpLookahead n) ops -> n < PeanoNat.Nat.max 1 k1 /\ n < PeanoNat.Nat.max 1 k2) ->
  map norm_event (run skips (stream_new skips len fm ms k1) ops) =
  map norm_event (run skips (stream_new skips len fm ms k2) ops).
Proof. exact stream_k_independent. Qed.

Theorem C13_stream_refines_spec :
  forall (skips : list (list N)) (len final_mode : N) (ms : list smatch) 
  (k0 : nat) (ops : list op),
  run skips (stream_new skips len final_mode ms k0) ops =
  spec_run (PeanoNat.Nat.max 1 k0) (stream_tokens skips len final_mode ms k0) ops.
Proof. exact stream_refines_spec. Qed.

