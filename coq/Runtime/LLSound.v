(** * Soundness, tree shape, action order, no-panic and completeness of the LL(k) parser model
      [Runtime/LLParser.v] (properties C01 and C02, runtime half).

    All theorems about accepted runs are proved for EVERY recovery oracle and for ARBITRARY
    lookahead automata (they only have to pass the boolean check [tables_ok]). *)
From Coq Require Import List Arith NArith ZArith Bool Lia.
From Parol Require Import Grammar.Cfg Runtime.DfaEval Runtime.LLParser.
Import ListNotations.

(** ** Trees: induction principle, [tree_ok] unfolded, events, derivations *)
Fixpoint tree_ind' (P : tree -> Prop) (HL : forall a, P (Leaf a))
  (HN : forall p cs, Forall P cs -> P (Node p cs)) (t : tree) : P t :=
  match t with
  | Leaf a => HL a
  | Node p cs =>
      HN p cs ((fix go (l : list tree) : Forall P l :=
                  match l with
                  | [] => Forall_nil P
                  | c :: l' => Forall_cons c (tree_ind' P HL HN c) (go l')
                  end) cs)
  end.

Lemma tree_ok_node g p cs :
  tree_ok g (Node p cs) <-> In p (prods g) /\ map root_sym cs = rhs p /\ Forall (tree_ok g) cs.
Proof.
  cbn [tree_ok].
  assert (H : forall l, (fix all (l : list tree) : Prop :=
                           match l with [] => True | c :: l' => tree_ok g c /\ all l' end) l
                        <-> Forall (tree_ok g) l).
  { induction l as [|c l IH]; split; intros H.
    - constructor.
    - exact I.
    - destruct H as [H1 H2]. constructor; [exact H1|apply IH; exact H2].
    - inversion H as [|? ? H1 H2]; subst. split; [exact H1|apply IH; exact H2]. }
  rewrite H. tauto.
Qed.

Fixpoint tree_events (t : tree) : list event :=
  match t with
  | Leaf a => [Tok a]
  | Node p cs => Open (lhs p) :: flat_map tree_events cs ++ [Close]
  end.

Lemma parse_events_tree g t : tree_ok g t ->
  forall rest n cs stk,
    parse_events (tree_events t ++ rest) ((n, cs) :: stk) = parse_events rest ((n, t :: cs) :: stk).
Proof.
  induction t as [a|p kids IH] using tree_ind'; intros Hok rest n cs stk.
  - reflexivity.
  - apply tree_ok_node in Hok as (_ & Hr & Hk).
    cbn [tree_events app parse_events].
    assert (Hkids : forall l, Forall (tree_ok g) l ->
              Forall (fun t => tree_ok g t -> forall rest n cs stk,
                        parse_events (tree_events t ++ rest) ((n, cs) :: stk)
                        = parse_events rest ((n, t :: cs) :: stk)) l ->
              forall rest n acc stk,
                parse_events (flat_map tree_events l ++ rest) ((n, acc) :: stk)
                = parse_events rest ((n, rev l ++ acc) :: stk)).
    { induction l as [|c l IHl]; intros Hokl HIH rest' n' acc stk'; [reflexivity|].
      inversion Hokl as [|? ? Hc Hl]; subst. inversion HIH as [|? ? HIc HIl]; subst.
      cbn [flat_map]. rewrite <- app_assoc. rewrite (HIc Hc).
      rewrite (IHl Hl HIl). cbn [rev]. rewrite <- app_assoc. reflexivity. }
    rewrite <- app_assoc. rewrite (Hkids kids Hk IH). cbn [app parse_events].
    rewrite app_nil_r, rev_involutive. rewrite Hr.
    destruct p as [a r]. reflexivity.
Qed.

Lemma events_to_tree_ok g t : tree_ok g t ->
  events_to_tree (OpenRoot :: tree_events t ++ [Close]) = Some t.
Proof.
  intros Hok. unfold events_to_tree. cbn [parse_events].
  rewrite (parse_events_tree g t Hok). reflexivity.
Qed.

Lemma tree_derives g t : tree_ok g t -> derives g [root_sym t] (yield t).
Proof.
  induction t as [a|p kids IH] using tree_ind'; intros Hok.
  - cbn. constructor. constructor.
  - apply tree_ok_node in Hok as (Hin & Hr & Hk).
    cbn [root_sym yield]. apply derives_single. exists p. split; [exact Hin|]. split; [reflexivity|].
    rewrite <- Hr. clear Hr Hin.
    induction kids as [|c l IHl]; [constructor|].
    inversion Hk as [|? ? Hc Hl]; subst. inversion IH as [|? ? HIc HIl]; subst.
    cbn [map flat_map].
    apply (derives_app g [root_sym c] (yield c) (HIc Hc)). apply IHl; assumption.
Qed.

(** ** List helpers *)
Lemma push_items_spec l : forall st, push_items l st = rev (map item_of l) ++ st.
Proof.
  unfold push_items. induction l as [|s l IH]; intros st; [reflexivity|].
  cbn [fold_left map rev]. rewrite IH. rewrite <- app_assoc. reflexivity.
Qed.

Lemma split_rev_spec : forall (l1 l2 acc : list sym),
  split_rev (length l1) (l1 ++ l2) acc = Some (rev l1 ++ acc, l2).
Proof.
  induction l1 as [|x l1 IH]; intros l2 acc; [reflexivity|].
  cbn [length app split_rev rev]. rewrite IH. rewrite <- app_assoc. reflexivity.
Qed.

Lemma forallb_idx_spec {A} (f : N -> A -> bool) : forall l i,
  forallb_idx f i l = true ->
  forall n x, nth_error l n = Some x -> f (i + N.of_nat n)%N x = true.
Proof.
  induction l as [|y l IH]; intros i H n x Hn; [destruct n; discriminate|].
  cbn [forallb_idx] in H. apply andb_prop in H as [H1 H2].
  destruct n as [|n]; cbn in Hn.
  - inversion Hn; subst. rewrite N.add_0_r. exact H1.
  - specialize (IH _ H2 n x Hn). replace (i + N.of_nat (S n))%N with (N.succ i + N.of_nat n)%N by lia.
    exact IH.
Qed.

(** ** Facts about the automaton walk that need no sortedness *)
Lemma scan_in ts : forall st c b t, scan ts st c b = Some t -> In t ts.
Proof.
  induction ts as [|x ts IH]; intros st c b t H; [discriminate|].
  cbn [scan] in H. destruct (negb (N.eqb (t_from x) st)).
  - destruct b; [discriminate|]. right. eapply IH; exact H.
  - destruct (N.compare (t_tok x) c).
    + inversion H; subst. left. reflexivity.
    + right. eapply IH; exact H.
    + discriminate.
Qed.

Lemma walk_predict_in ts : forall k buf st prod last hl z,
  walk ts k buf st prod last hl = Predict z ->
  z = prod \/ z = last \/ exists t, In t ts /\ t_prod t = z.
Proof.
  induction k as [|k IH]; intros buf st prod last hl z H; cbn [walk] in H.
  - unfold finish in H. destruct (valid prod); [inversion H; auto|].
    destruct hl; [inversion H; auto|discriminate].
  - destruct buf as [|c buf]; [discriminate|].
    destruct (scan ts st c false) as [t|] eqn:Sc.
    + apply scan_in in Sc.
      destruct (valid (t_prod t)); apply IH in H; destruct H as [H|[H|H]]; eauto.
    + unfold finish in H. destruct (valid prod); [inversion H; auto|].
      destruct hl; [inversion H; auto|discriminate].
Qed.

Definition not_acc (r : ll_result) : Prop := match r with Accepted _ _ => False | _ => True end.

Ltac break_matches H :=
  repeat match type of H with
         | context [match ?x with _ => _ end] => destruct x
         end.

(** ** Soundness *)
Section Sound.
Variable orc : oracle.
Variable tb : ll_tables.
Variable opts : options.
Variable toks : list N.
Hypothesis Hok : tables_ok_basic tb = true.
Hypothesis Hrec : o_recovery opts = false \/ la_wf tb = true.
Hypothesis Hnz : ~ In 0%N toks.

Let g := grammar_of tb.

Lemma ok_start : exists d, dfa_at tb (tb_start tb) = Some d.
Proof.
  unfold tables_ok_basic in Hok. repeat (apply andb_prop in Hok as [Hok ?]).
  apply Nat.ltb_lt in Hok. unfold dfa_at.
  destruct (nth_error (tb_automata tb) (N.to_nat (tb_start tb))) as [d|] eqn:E; [eauto|].
  apply nth_error_None in E. lia.
Qed.

Lemma prod_at_ok p pr : prod_at tb p = Some pr -> production_ok tb pr = true.
Proof.
  intros H. unfold tables_ok_basic in Hok. repeat (apply andb_prop in Hok as [Hok ?]).
  unfold prod_at in H. apply nth_error_In in H.
  match goal with Hf : forallb (production_ok tb) _ = true |- _ => rewrite forallb_forall in Hf; apply Hf; exact H end.
Qed.

Lemma dfa_at_ok a d : dfa_at tb a = Some d -> dfa_ok tb a d = true.
Proof.
  intros H. unfold tables_ok_basic in Hok. repeat (apply andb_prop in Hok as [Hok ?]).
  unfold dfa_at in H.
  match goal with Hf : forallb_idx _ _ _ = true |- _ =>
    pose proof (forallb_idx_spec _ _ _ Hf _ _ H) as Hd end.
  rewrite N.add_0_l, N2Nat.id in Hd. exact Hd.
Qed.

Lemma prod_in_grammar p pr : prod_at tb p = Some pr -> In (cfg_prod pr) (prods g).
Proof.
  intros H. unfold prod_at in H. apply nth_error_In in H.
  unfold g, grammar_of. cbn [prods]. apply in_map. exact H.
Qed.

Lemma prod_terminal_nonzero p pr t : prod_at tb p = Some pr -> In (T t) (rev (p_rev pr)) -> t <> 0%N.
Proof.
  intros H Hin. apply prod_at_ok in H. unfold production_ok in H.
  apply andb_prop in H as [_ H]. rewrite forallb_forall in H.
  apply in_rev in Hin. specialize (H _ Hin). cbn [sym_ok] in H.
  apply andb_prop in H as [H _]. apply negb_true_iff in H. apply N.eqb_neq in H. exact H.
Qed.

(** *** The stream *)
Lemma read_tokens_length n : forall rest e l, length (fst (read_tokens n rest e l)) = n.
Proof.
  induction n as [|n IH]; intros rest e l; [reflexivity|].
  cbn [read_tokens]. destruct rest as [|x rest]; [destruct e|]; cbn [fst length]; rewrite IH; reflexivity.
Qed.

Lemma ensure_length s : stream_k tb <= length (s_buf (ensure tb s)).
Proof.
  unfold ensure. destruct (Nat.ltb_spec (length (s_buf s)) (stream_k tb)) as [L|L]; [|exact L].
  cbn [s_buf]. rewrite app_length, read_tokens_length. lia.
Qed.

Lemma ensure_id s : stream_k tb <= length (s_buf s) -> ensure tb s = s.
Proof.
  intros H. unfold ensure. destruct (Nat.ltb_spec (length (s_buf s)) (stream_k tb)) as [L|L]; [lia|reflexivity].
Qed.

Lemma stream_k_pos : 1 <= stream_k tb.
Proof. unfold stream_k. lia. Qed.

Lemma read_tokens_types n : forall rest e l,
  exists j, map fst (fst (read_tokens n rest e l)) ++ map fst (fst (snd (read_tokens n rest e l)))
            = map fst rest ++ repeat 0%N j /\
            (fst (snd (read_tokens n rest e l)) <> [] -> j = 0) /\
            (rest = [] -> fst (snd (read_tokens n rest e l)) = []).
Proof.
  induction n as [|n IH]; intros rest e l.
  - exists 0. cbn. rewrite app_nil_r. auto.
  - cbn [read_tokens]. destruct rest as [|x rest].
    + destruct e as [|e].
      * destruct (IH [] 0 l) as (j & E & H1 & H2). exists (S j). cbn [fst snd map app repeat].
        cbn [map app] in E. rewrite E. specialize (H2 eq_refl). rewrite H2. split; [reflexivity|].
        split; [intros Hc; congruence|auto].
      * destruct (IH [] e l) as (j & E & H1 & H2). exists (S j). cbn [fst snd map app repeat].
        cbn [map app] in E. rewrite E. specialize (H2 eq_refl). rewrite H2. split; [reflexivity|].
        split; [intros Hc; congruence|auto].
    + destruct (IH rest e l) as (j & E & H1 & H2). exists j. cbn [fst snd map app].
      rewrite E. split; [reflexivity|]. split; [exact H1|discriminate].
Qed.

(** [stream_rel s rem j]: buffer ++ unread input = the remaining significant tokens [rem] followed
    by [j] end-of-input tokens, which only appear once the input is exhausted. *)
Definition stream_rel (s : stream) (rem : list N) (j : nat) : Prop :=
  map fst (s_buf s) ++ map fst (s_rest s) = rem ++ repeat 0%N j /\ (s_rest s <> [] -> j = 0).

Definition stream_ok (s : stream) (consumed : list N) : Prop :=
  exists rem j, consumed ++ rem = toks /\ stream_rel s rem j /\ length (s_buf s) = stream_k tb.

Lemma ensure_rel s rem j : stream_rel s rem j -> length (s_buf s) <= stream_k tb ->
  exists j', stream_rel (ensure tb s) rem j' /\ length (s_buf (ensure tb s)) = stream_k tb.
Proof.
  intros [E Hj] Hlen. unfold ensure.
  destruct (Nat.ltb_spec (length (s_buf s)) (stream_k tb)) as [L|L].
  - set (r := read_tokens (stream_k tb - length (s_buf s)) (s_rest s) (s_eois s) (s_eloc s)).
    destruct (read_tokens_types (stream_k tb - length (s_buf s)) (s_rest s) (s_eois s) (s_eloc s))
      as (j2 & E2 & H1 & H2). fold r in E2, H1, H2.
    exists (j + j2). split.
    + unfold stream_rel. cbn [s_buf s_rest]. rewrite map_app, <- app_assoc, E2.
      rewrite app_assoc, E, <- app_assoc, repeat_app. split; [reflexivity|].
      intros Hne. specialize (H1 Hne). subst j2.
      destruct (s_rest s) as [|x rest] eqn:Er; [specialize (H2 eq_refl); congruence|].
      rewrite Hj by discriminate. reflexivity.
    + cbn [s_buf]. rewrite app_length. unfold r. rewrite read_tokens_length. lia.
  - exists j. split; [split; assumption|lia].
Qed.

Lemma stream_ok_ensure s consumed : stream_ok s consumed -> ensure tb s = s.
Proof. intros (rem & j & _ & _ & L). apply ensure_id. lia. Qed.

Lemma repeat_cons_head {A} (x y : A) n l : repeat x n = y :: l -> y = x /\ exists n', n = S n' /\ l = repeat x n'.
Proof. destruct n as [|n]; cbn; intros H; [discriminate|]. inversion H; subst. eauto. Qed.

Lemma stream_ok_consume s consumed t l b :
  stream_ok s consumed -> s_buf s = (t, l) :: b -> t <> 0%N ->
  stream_ok (ensure tb (set_buf s b)) (consumed ++ [t]).
Proof.
  intros (rem & j & Ec & [E Hj] & L) Eb Ht.
  rewrite Eb in E. cbn [map fst app] in E.
  destruct rem as [|r rem].
  - cbn [app] in E. symmetry in E. apply repeat_cons_head in E as [E _]. congruence.
  - cbn [app] in E. inversion E as [[Er E']]. subst r.
    assert (Hrel : stream_rel (set_buf s b) rem j).
    { split; [exact E'|exact Hj]. }
    destruct (ensure_rel _ _ _ Hrel) as (j' & Hrel' & L').
    { cbn [set_buf s_buf]. rewrite Eb in L. cbn [length] in L. lia. }
    exists rem, j'. split; [rewrite <- app_assoc; exact Ec|]. split; assumption.
Qed.

(** *** Prediction only answers productions of the asked non-terminal *)
Lemma conv_eval_ok r p : conv_eval r = POk p -> exists z, r = Predict z /\ valid z = true /\ p = Z.to_N z.
Proof.
  destruct r as [z| |]; cbn [conv_eval]; try discriminate.
  destruct (valid z) eqn:V; [|discriminate]. intros H. inversion H. eauto.
Qed.

Lemma eval_own a d buf z : dfa_ok tb a d = true -> eval d buf = Predict z -> valid z = true ->
  exists pr, prod_at tb (Z.to_N z) = Some pr /\ p_lhs pr = a.
Proof.
  intros Hd He Hv. unfold dfa_ok in Hd. repeat (apply andb_prop in Hd as [Hd ?]).
  unfold eval in He. apply walk_predict_in in He.
  assert (Hown : predicts_own tb a z = true).
  { destruct He as [->|[->|(t & Hin & <-)]].
    - assumption.
    - discriminate.
    - match goal with Hf : forallb _ (transitions d) = true |- _ =>
        rewrite forallb_forall in Hf; specialize (Hf _ Hin); apply andb_prop in Hf as [Hf _]; exact Hf end. }
  unfold predicts_own in Hown. rewrite Hv in Hown. cbn [negb orb] in Hown.
  unfold prod_at. destruct (nth_error (tb_prods tb) (N.to_nat (Z.to_N z))) as [pr|]; [|discriminate].
  apply N.eqb_eq in Hown. eauto.
Qed.

Lemma predict_ok_spec a d s p s1 : dfa_ok tb a d = true -> predict tb d s = (POk p, s1) ->
  (exists pr, prod_at tb p = Some pr /\ p_lhs pr = a) /\ (s1 = s \/ s1 = ensure tb s).
Proof.
  intros Hd H. unfold predict in H.
  destruct (stream_k tb <? depth d); [discriminate|].
  destruct (depth d) as [|k].
  - inversion H as [[Hc Hs]]. apply conv_eval_ok in Hc as (z & Ez & Vz & ->).
    split; [eapply eval_own; eassumption|auto].
  - inversion H as [[Hc Hs]]. apply conv_eval_ok in Hc as (z & Ez & Vz & ->).
    split; [eapply eval_own; eassumption|auto].
Qed.

Lemma predict_stream d s r s1 : predict tb d s = (r, s1) -> s1 = s \/ s1 = ensure tb s.
Proof.
  unfold predict. destruct (stream_k tb <? depth d); [intros H; inversion H; auto|].
  destruct (depth d); intros H; inversion H; auto.
Qed.

(** An automaton that passes [dfa_ok] and whose start state accepts never fails. *)
Lemma predict_err_invalid a d s e s1 : dfa_ok tb a d = true -> predict tb d s = (PErr e, s1) ->
  valid (prod0 d) = false.
Proof.
  intros Hd H. destruct (valid (prod0 d)) eqn:V; [|reflexivity]. exfalso.
  unfold dfa_ok in Hd. repeat (apply andb_prop in Hd as [Hd ?]).
  match goal with Hw : wfd d = true |- _ => unfold wfd in Hw; rewrite V in Hw end.
  match goal with Hk : (depth d <=? _) = true |- _ => apply Nat.leb_le in Hk end.
  unfold predict in H.
  destruct (Nat.ltb_spec (stream_k tb) (depth d)) as [L|L]; [unfold stream_k in L; lia|].
  destruct (transitions d) as [|t ts] eqn:Et; [|discriminate].
  destruct (depth d) as [|k] eqn:Ed.
  - unfold eval in H. rewrite Ed in H. cbn [walk] in H. unfold finish in H. rewrite V in H.
    cbn [conv_eval] in H. rewrite V in H. discriminate.
  - pose proof (ensure_length s) as Hl. pose proof stream_k_pos as Hp.
    destruct (s_buf (ensure tb s)) as [|x b] eqn:Eb; [cbn [length] in Hl; lia|].
    unfold eval in H. rewrite Ed, Et in H. cbn [map walk scan] in H. unfold finish in H. rewrite V in H.
    cbn [conv_eval] in H. rewrite V in H. discriminate.
Qed.

(** *** Ghost state: the open productions

    One [frame] per end-of-production marker on the parser stack, innermost first: the
    production, the trees of the already completed prefix of its right-hand side, and the
    still pending suffix.  Every frame but the innermost waits for the non-terminal that the
    next inner frame is expanding (the "hole"). *)
Record frame := mkFrame { f_p : N; f_pr : production; f_done : list tree; f_pending : list sym }.

Fixpoint stack_of (fs : list frame) : list pitem :=
  match fs with
  | [] => []
  | f :: o => map item_of (f_pending f) ++ PE (f_p f) :: stack_of o
  end.

Fixpoint pts_of (fs : list frame) : list sym :=
  match fs with
  | [] => []
  | f :: o => rev (map root_sym (f_done f)) ++ NT (p_lhs (f_pr f)) :: pts_of o
  end.

Fixpoint evs_of (fs : list frame) : list event :=
  match fs with
  | [] => []
  | f :: o => evs_of o ++ Open (p_lhs (f_pr f)) :: flat_map tree_events (f_done f)
  end.

Fixpoint yield_of (fs : list frame) : list N :=
  match fs with
  | [] => []
  | f :: o => yield_of o ++ flat_map yield (f_done f)
  end.

Fixpoint posts_of (fs : list frame) : list prod :=
  match fs with
  | [] => []
  | f :: o => posts_of o ++ flat_map postorder (f_done f)
  end.

Fixpoint depth_of (fs : list frame) : N :=
  match fs with
  | [] => 0
  | f :: o => (if p_push (f_pr f) then 0 else 1) + depth_of o
  end%N.

Definition hole_syms (h : option N) : list sym := match h with Some b => [NT b] | None => [] end.

Fixpoint fwf (h : option N) (fs : list frame) : Prop :=
  match fs with
  | [] => h = Some (tb_start tb)
  | f :: o =>
      prod_at tb (f_p f) = Some (f_pr f) /\
      rev (p_rev (f_pr f)) = map root_sym (f_done f) ++ hole_syms h ++ f_pending f /\
      Forall (tree_ok g) (f_done f) /\
      fwf (Some (p_lhs (f_pr f))) o
  end.

(** A semantic-action call matches a production application of the tree. *)
Definition act_match (act : N * list sym) (pr : prod) : Prop :=
  exists prn, prod_at tb (fst act) = Some prn /\ cfg_prod prn = pr /\ snd act = rhs pr.

Definition Clean (fs : list frame) (c : config) : Prop :=
  c_errs c = [] ->
  Forall2 act_match (rev (c_acts c)) (posts_of fs) /\ stream_ok (c_stream c) (yield_of fs).

Definition Shape (h : option N) (fs : list frame) (c : config) : Prop :=
  fwf h fs /\ c_stack c = stack_of fs /\ c_pts c = pts_of fs /\
  (o_trim opts = false -> rev (c_evs c) = OpenRoot :: evs_of fs) /\
  c_depth c = depth_of fs /\ Clean fs c.

Definition Inv (c : config) : Prop := exists fs, fs <> [] /\ Shape None fs c.

Definition Fin (c : config) : Prop :=
  exists t, c_stack c = [] /\ tree_ok g t /\ root_sym t = NT (tb_start tb) /\
    (o_trim opts = false -> rev (c_evs c) = OpenRoot :: tree_events t) /\
    (c_errs c = [] ->
     Forall2 act_match (rev (c_acts c)) (postorder t) /\ stream_ok (c_stream c) (yield t)).

Lemma push_production_inv a outer c p pr c' :
  Shape (Some a) outer c -> prod_at tb p = Some pr -> p_lhs pr = a ->
  push_production tb opts c p = Continue c' -> Inv c'.
Proof.
  intros (Hw & Hst & Hpts & Hev & Hd & Hcl) Hp Hl H.
  unfold push_production in H. rewrite Hp in H.
  destruct (negb (p_lhs pr <? tb_nnts tb)%N); [discriminate|].
  match type of H with context [Continue ?x] => set (c1 := x) in H end.
  assert (Hc1 : Inv c1).
  { exists (mkFrame p pr [] (rev (p_rev pr)) :: outer). split; [discriminate|].
    unfold Shape, c1. cbn [fwf c_stack c_pts c_evs c_depth stack_of pts_of evs_of depth_of
                         f_p f_pr f_done f_pending map rev app flat_map hole_syms].
    split; [|split; [|split; [|split; [|split]]]].
    - split; [exact Hp|]. split; [reflexivity|]. split; [constructor|]. rewrite Hl. exact Hw.
    - rewrite push_items_spec, <- map_rev, Hst. reflexivity.
    - rewrite Hpts. reflexivity.
    - intros Ht. rewrite Ht. cbn [rev]. rewrite (Hev Ht). reflexivity.
    - rewrite Hd. destruct (p_push pr); lia.
    - intros He. cbn [c_errs] in He. specialize (Hcl He). destruct Hcl as [H1 H2].
      cbn [c_acts c_stream posts_of yield_of f_done flat_map]. rewrite !app_nil_r. split; assumption. }
  destruct (o_max_depth opts) as [m|].
  - destruct (m <? _)%N; [discriminate|]. inversion H; subst c'. exact Hc1.
  - inversion H; subst c'. exact Hc1.
Qed.

(** *** One step *)
Lemma fst_add_error_nonempty errs loc : fst (add_error errs loc) <> [].
Proof.
  unfold add_error. destruct (memN loc errs) eqn:M.
  - cbn [fst]. intros ->. discriminate.
  - destruct (100 <? length (loc :: errs)); cbn [fst]; discriminate.
Qed.

Lemma htm_continue c t tok c1 :
  handle_token_mismatch orc tb opts c t tok = Continue c1 ->
  c_errs c1 <> [] /\ c_stack c1 = c_stack c /\ c_pts c1 = c_pts c /\ c_acts c1 = c_acts c /\
  c_evs c1 = c_evs c /\ c_depth c1 = c_depth c.
Proof.
  unfold handle_token_mismatch. intros H.
  destruct (negb (t <? tb_nterms tb)%N); [discriminate|].
  destruct (diag_panic tb (c_stack c)); [discriminate|].
  destruct (negb (fst tok <? tb_nterms tb)%N); [discriminate|].
  pose proof (fst_add_error_nonempty (c_errs c) (snd tok)) as Hne.
  destruct (snd (add_error (c_errs c) (snd tok))); [discriminate|].
  destruct (negb (o_recovery opts)); [discriminate|].
  destruct (o_adjust orc _ _); try discriminate.
  inversion H; subst c1.
  cbn [set_stream set_errs c_errs c_stack c_pts c_acts c_evs c_depth]. repeat split; auto.
Qed.

Lemma htm_break c t tok c1 :
  handle_token_mismatch orc tb opts c t tok = Break c1 -> c_errs c1 <> [].
Proof.
  unfold handle_token_mismatch. intros H.
  destruct (negb (t <? tb_nterms tb)%N); [discriminate|].
  destruct (diag_panic tb (c_stack c)); [discriminate|].
  destruct (negb (fst tok <? tb_nterms tb)%N); [discriminate|].
  pose proof (fst_add_error_nonempty (c_errs c) (snd tok)) as Hne.
  destruct (snd (add_error (c_errs c) (snd tok))); [inversion H; subst c1; exact Hne|].
  destruct (negb (o_recovery opts)); [inversion H; subst c1; exact Hne|].
  destruct (o_adjust orc _ _); try discriminate.
  inversion H; subst c1. exact Hne.
Qed.

Lemma hpe_ok c a d p c1 :
  handle_prediction_error orc tb opts c a d = HOk p c1 ->
  c_errs c1 <> [] /\ c_stack c1 = c_stack c /\ c_pts c1 = c_pts c /\ c_acts c1 = c_acts c /\
  c_evs c1 = c_evs c /\ c_depth c1 = c_depth c /\ exists s, predict tb d s = (POk p, c_stream c1).
Proof.
  unfold handle_prediction_error. intros H.
  destruct (negb (a <? tb_nnts tb)%N); [discriminate|].
  destruct (negb (build_error_ok tb _ _ _)); [discriminate|].
  destruct (diag_panic tb (c_stack c)); [discriminate|].
  pose proof (fst_add_error_nonempty (c_errs c) (first_loc (s_buf (c_stream c)))) as Hne.
  destruct (snd (add_error (c_errs c) _)); [discriminate|].
  destruct (negb (o_recovery opts)); [discriminate|].
  destruct (restore_status d); try discriminate.
  destruct (o_expected orc d _); [|discriminate].
  destruct (o_adjust orc _ _) as [b| |]; try discriminate.
  destruct (predict tb d _) as [[q| |e] s2] eqn:Ep; try discriminate.
  inversion H; subst.
  cbn [set_stream set_errs c_errs c_stack c_pts c_acts c_evs c_depth c_stream].
  repeat split; auto. eexists. exact Ep.
Qed.

Lemma hpe_err c a d r n c1 :
  handle_prediction_error orc tb opts c a d = HErr r n c1 ->
  o_recovery opts = false \/ restore_status d = RS_NonEmpty -> c_errs c1 <> [].
Proof.
  unfold handle_prediction_error. intros H Hr.
  destruct (negb (a <? tb_nnts tb)%N); [discriminate|].
  destruct (negb (build_error_ok tb _ _ _)); [discriminate|].
  destruct (diag_panic tb (c_stack c)); [discriminate|].
  pose proof (fst_add_error_nonempty (c_errs c) (first_loc (s_buf (c_stream c)))) as Hne.
  destruct (snd (add_error (c_errs c) _)); [inversion H; subst; exact Hne|].
  destruct (o_recovery opts) eqn:Er; cbn [negb] in H; [|inversion H; subst; exact Hne].
  destruct Hr as [Hr|Hr]; [discriminate|]. rewrite Hr in H.
  destruct (o_expected orc d _); [|discriminate].
  destruct (o_adjust orc _ _) as [b| |]; try discriminate.
  - destruct (predict tb d _) as [[q| |e] s2] eqn:Ep; try discriminate.
    inversion H; subst. exact Hne.
  - inversion H; subst. exact Hne.
Qed.

Lemma la_wf_at a d : dfa_at tb a = Some d -> valid (prod0 d) = false ->
  o_recovery opts = false \/ restore_status d = RS_NonEmpty.
Proof.
  intros Hd Hv. destruct Hrec as [Hr|Hr]; [left; exact Hr|right].
  unfold la_wf in Hr. rewrite forallb_forall in Hr. unfold dfa_at in Hd. apply nth_error_In in Hd.
  specialize (Hr _ Hd). unfold la_wf_dfa in Hr. rewrite Hv in Hr. cbn [orb] in Hr.
  destruct (restore_status d); try discriminate. reflexivity.
Qed.

Lemma stack_of_not_accepted fs : fs <> [] -> input_accepted (stack_of fs) = false.
Proof.
  destruct fs as [|f o]; [congruence|]. intros _. cbn [stack_of].
  destruct (f_pending f) as [|[t|a] pend]; cbn [map item_of app input_accepted]; try reflexivity.
  destruct t; [|reflexivity]. destruct (map item_of pend); reflexivity.
Qed.

Lemma Forall2_snoc {A B} (R : A -> B -> Prop) l1 l2 x y :
  Forall2 R l1 l2 -> R x y -> Forall2 R (l1 ++ [x]) (l2 ++ [y]).
Proof. intros H1 H2. apply Forall2_app; [exact H1|constructor; [exact H2|constructor]]. Qed.

Lemma step_inv c c' : Inv c -> ll_step orc tb opts c = Continue c' -> Inv c' \/ Fin c'.
Proof.
  intros (fs & Hne & Hw & Hst & Hpts & Hev & Hd & Hcl) H.
  destruct fs as [|f outer]; [congruence|]. clear Hne.
  cbn [fwf hole_syms app] in Hw. destruct Hw as (Hp & Hr & Hdone & Hw).
  cbn [stack_of] in Hst. cbn [pts_of] in Hpts. cbn [depth_of] in Hd.
  unfold ll_step in H. rewrite Hst in H.
  destruct f as [p pr done pending]. cbn [f_p f_pr f_done f_pending] in *.
  destruct pending as [|[t|a] pend]; cbn [map item_of app] in H.
  - (* end of production *)
    unfold end_production in H. rewrite Hp in H.
    destruct (if p_push pr then Some (c_depth c) else if (c_depth c =? 0)%N then None else Some (N.pred (c_depth c)))
      as [depth'|] eqn:Edep; [|discriminate].
    rewrite app_nil_r in Hr.
    assert (Hlen : length (p_rev pr) = length (rev (map root_sym done))).
    { rewrite <- (rev_length (p_rev pr)), Hr, rev_length. reflexivity. }
    rewrite Hpts, Hlen, split_rev_spec in H. rewrite rev_involutive, app_nil_r in H.
    inversion H; subst c'; clear H.
    set (t := Node (cfg_prod pr) done).
    assert (Htok : tree_ok g t).
    { apply tree_ok_node. split; [eapply prod_in_grammar; exact Hp|]. split; [|exact Hdone].
      cbn [cfg_prod rhs]. symmetry. exact Hr. }
    assert (Hact : act_match (p, map root_sym done) (cfg_prod pr)).
    { exists pr. cbn [fst snd cfg_prod rhs]. auto. }
    assert (Hdep : depth' = depth_of outer).
    { rewrite Hd in Edep. destruct (p_push pr).
      - assert (E : (0 + depth_of outer)%N = depth') by congruence. lia.
      - destruct (N.eqb_spec (1 + depth_of outer) 0); [discriminate|].
        assert (E : N.pred (1 + depth_of outer) = depth') by congruence. lia. }
    destruct outer as [|f' outer'].
    + right. exists t. cbn [fwf] in Hw. inversion Hw as [Hs].
      cbn [c_stack c_evs c_errs c_acts c_stream stack_of].
      split; [reflexivity|]. split; [exact Htok|]. split; [cbn [t root_sym cfg_prod lhs]; congruence|].
      split.
      * intros Ht. rewrite Ht. cbn [rev]. rewrite (Hev Ht). cbn [evs_of f_pr f_done app t tree_events cfg_prod lhs].
        reflexivity.
      * intros He. specialize (Hcl He). destruct Hcl as [Ha Hs'].
        cbn [posts_of yield_of f_done app] in Ha, Hs'. rewrite He.
        split; [|exact Hs'].
        cbn [rev t postorder]. apply Forall2_snoc; assumption.
    + left. destruct f' as [p' pr' done' pend']. cbn [fwf f_p f_pr f_done f_pending hole_syms] in Hw.
      destruct Hw as (Hp' & Hr' & Hdone' & Hw').
      exists (mkFrame p' pr' (done' ++ [t]) pend' :: outer'). split; [discriminate|].
      unfold Shape. cbn [fwf c_stack c_pts c_evs c_depth stack_of pts_of evs_of depth_of
                           f_p f_pr f_done f_pending hole_syms].
      split; [|split; [|split; [|split; [|split]]]].
      * split; [exact Hp'|]. split.
        { rewrite Hr', map_app. cbn [map app t root_sym cfg_prod lhs]. rewrite <- app_assoc. reflexivity. }
        split; [|exact Hw']. apply Forall_app. split; [exact Hdone'|constructor; [exact Htok|constructor]].
      * reflexivity.
      * rewrite map_app, rev_app_distr. cbn [map rev app t root_sym cfg_prod lhs]. reflexivity.
      * intros Ht. rewrite Ht. cbn [rev]. rewrite (Hev Ht).
        cbn [evs_of f_pr f_done t]. rewrite flat_map_app. cbn [flat_map tree_events cfg_prod lhs].
        rewrite app_nil_r. unfold t. cbn [tree_events cfg_prod lhs app].
        rewrite <- !app_assoc. cbn [app]. rewrite <- ?app_assoc. reflexivity.
      * rewrite Hdep. reflexivity.
      * intros He. cbn [c_errs] in He. specialize (Hcl He). destruct Hcl as [Ha Hs'].
        cbn [posts_of yield_of f_done] in Ha, Hs'. cbn [c_acts c_stream posts_of yield_of f_done].
        rewrite He. rewrite !flat_map_app. cbn [flat_map t postorder yield]. rewrite !app_nil_r.
        split.
        { cbn [rev]. rewrite !app_assoc. apply Forall2_snoc; [exact Ha|exact Hact]. }
        { rewrite <- app_assoc in Hs'. exact Hs'. }
  - (* terminal on top *)
    destruct (s_buf (ensure tb (c_stream c))) as [|tok b] eqn:Eb; [discriminate|].
    destruct (N.eqb_spec (fst tok) t) as [Et|Et].
    + unfold consume in H.
      rewrite (ensure_id (ensure tb (c_stream c))) in H by apply ensure_length.
      rewrite Eb in H. inversion H; subst c'; clear H.
      left. exists (mkFrame p pr (done ++ [Leaf t]) pend :: outer). split; [discriminate|].
      unfold Shape. cbn [fwf c_stack c_pts c_evs c_depth stack_of pts_of evs_of depth_of
                           f_p f_pr f_done f_pending hole_syms app].
      split; [|split; [|split; [|split; [|split]]]].
      * split; [exact Hp|]. split.
        { rewrite Hr, map_app. cbn [map root_sym]. rewrite <- app_assoc. reflexivity. }
        split; [|exact Hw]. apply Forall_app. split; [exact Hdone|constructor; [exact I|constructor]].
      * reflexivity.
      * rewrite Hpts, map_app, rev_app_distr, Et. reflexivity.
      * intros Ht. rewrite Ht. cbn [rev]. rewrite (Hev Ht). cbn [evs_of f_pr f_done].
        rewrite flat_map_app. cbn [flat_map tree_events app]. rewrite Et.
        rewrite <- !app_assoc. cbn [app]. rewrite <- ?app_assoc. reflexivity.
      * exact Hd.
      * intros He. cbn [c_errs] in He. specialize (Hcl He). destruct Hcl as [Ha Hs'].
        cbn [posts_of yield_of f_done] in Ha, Hs'. cbn [c_acts c_stream posts_of yield_of f_done].
        rewrite !flat_map_app. cbn [flat_map postorder yield]. rewrite !app_nil_r.
        split; [exact Ha|].
        rewrite (stream_ok_ensure _ _ Hs') in Eb |- *.
        destruct tok as [ty l]. cbn [fst] in Et. subst ty.
        rewrite app_assoc. eapply stream_ok_consume; [exact Hs'|exact Eb|].
        eapply prod_terminal_nonzero; [exact Hp|]. rewrite Hr. apply in_or_app. right. left. reflexivity.
    + apply htm_continue in H. cbn [set_stream c_errs c_stack c_pts c_acts c_evs c_depth] in H.
      destruct H as (He & H1 & H2 & H3 & H4 & H5).
      left. exists (mkFrame p pr done (T t :: pend) :: outer). split; [discriminate|].
      unfold Shape. cbn [fwf stack_of pts_of depth_of f_p f_pr f_done f_pending hole_syms app map item_of].
      rewrite H1, H2, H4, H5.
      split; [auto|]. split; [exact Hst|]. split; [exact Hpts|]. split; [exact Hev|]. split; [exact Hd|].
      intros He'. congruence.
  - (* non-terminal on top *)
    destruct (dfa_at tb a) as [d|] eqn:Ed; [|discriminate].
    pose proof (dfa_at_ok _ _ Ed) as Hdok.
    set (outer2 := mkFrame p pr done pend :: outer).
    assert (Hw2 : fwf (Some a) outer2).
    { cbn [outer2 fwf f_p f_pr f_done f_pending hole_syms]. auto. }
    destruct (predict tb d (c_stream c)) as [[q| |e] s1] eqn:Ep; [| discriminate |].
    + destruct (predict_ok_spec _ _ _ _ _ Hdok Ep) as [(prq & Hq & Hlq) Hs1].
      left. eapply (push_production_inv a outer2); [|exact Hq|exact Hlq|exact H].
      unfold Shape. cbn [set_stack set_stream c_stack c_pts c_evs c_depth].
      split; [exact Hw2|]. split; [reflexivity|]. split; [exact Hpts|]. split; [exact Hev|].
      split; [exact Hd|].
      intros He. cbn [c_errs] in He. specialize (Hcl He). destruct Hcl as [Ha Hs'].
      cbn [c_acts c_stream]. split; [exact Ha|].
      cbn [outer2 yield_of f_done]. cbn [yield_of f_done] in Hs'.
      destruct Hs1 as [->| ->]; [exact Hs'|]. rewrite (stream_ok_ensure _ _ Hs'). exact Hs'.
    + destruct (handle_prediction_error orc tb opts (set_stream c s1) a d) as [q c1|r n c1|site] eqn:Eh;
        try discriminate.
      apply hpe_ok in Eh. cbn [set_stream c_errs c_stack c_pts c_acts c_evs c_depth] in Eh.
      destruct Eh as (He & H1 & H2 & H3 & H4 & H5 & s & Hs).
      destruct (predict_ok_spec _ _ _ _ _ Hdok Hs) as [(prq & Hq & Hlq) _].
      left. eapply (push_production_inv a outer2); [|exact Hq|exact Hlq|exact H].
      unfold Shape. cbn [set_stack c_stack c_pts c_evs c_depth]. rewrite H2, H4, H5.
      split; [exact Hw2|]. split; [reflexivity|]. split; [exact Hpts|]. split; [exact Hev|].
      split; [exact Hd|]. intros He'. cbn [set_stack c_errs] in He'. congruence.
Qed.

Lemma push_production_return c p r : push_production tb opts c p = Return r -> not_acc r.
Proof. unfold push_production. intros H. break_matches H; inversion H; exact I. Qed.

Lemma push_production_not_break c p c' : push_production tb opts c p = Break c' -> False.
Proof. unfold push_production. intros H. break_matches H; discriminate. Qed.

Lemma step_return c r : ll_step orc tb opts c = Return r -> not_acc r.
Proof.
  unfold ll_step. intros H.
  destruct (c_stack c) as [|[t|a|p] st']; [discriminate| | |].
  - destruct (s_buf (ensure tb (c_stream c))) as [|tok b]; [inversion H; exact I|].
    destruct (fst tok =? t)%N.
    + destruct (consume tb _) as [[x s2]|]; [discriminate|inversion H; exact I].
    + unfold handle_token_mismatch in H. break_matches H; inversion H; exact I.
  - destruct (dfa_at tb a) as [d|]; [|inversion H; exact I].
    destruct (predict tb d (c_stream c)) as [[q| |e] s1].
    + eapply push_production_return; exact H.
    + inversion H; exact I.
    + destruct (handle_prediction_error orc tb opts _ a d) as [q c1|r' n c1|site].
      * eapply push_production_return; exact H.
      * discriminate.
      * inversion H; exact I.
  - unfold end_production in H. break_matches H; inversion H; exact I.
Qed.

Lemma step_break c c' : ll_step orc tb opts c = Break c' -> c_errs c' <> [].
Proof.
  unfold ll_step. intros H.
  destruct (c_stack c) as [|[t|a|p] st']; [discriminate| | |].
  - destruct (s_buf (ensure tb (c_stream c))) as [|tok b]; [discriminate|].
    destruct (fst tok =? t)%N.
    + destruct (consume tb _) as [[x s2]|]; discriminate.
    + eapply htm_break; exact H.
  - destruct (dfa_at tb a) as [d|] eqn:Ed; [|discriminate].
    destruct (predict tb d (c_stream c)) as [[q| |e] s1] eqn:Ep.
    + exfalso. eapply push_production_not_break; exact H.
    + discriminate.
    + destruct (handle_prediction_error orc tb opts _ a d) as [q c1|r' n c1|site] eqn:Eh.
      * exfalso. eapply push_production_not_break; exact H.
      * inversion H; subst c1. eapply hpe_err; [exact Eh|].
        eapply la_wf_at; [exact Ed|]. eapply predict_err_invalid; [eapply dfa_at_ok; exact Ed|exact Ep].
      * discriminate.
  - unfold end_production in H. break_matches H; discriminate.
Qed.

(** The statement shared by the three main theorems. *)
Definition run_goal (acts : list (N * list sym)) (evs : list event) : Prop :=
  exists t, tree_ok g t /\ root_sym t = NT (tb_start tb) /\ yield t = toks /\
    (o_trim opts = false -> evs = OpenRoot :: tree_events t ++ [Close]) /\
    Forall2 act_match acts (postorder t).

Lemma finish_goal c acts evs : Fin c -> ll_finish c = Accepted acts evs -> run_goal acts evs.
Proof.
  intros (t & Hst & Hok' & Hroot & Hev & Hcl) H. unfold ll_finish in H.
  destruct (c_errs c) eqn:He; [|discriminate].
  destruct (all_input_consumed (c_stream c)) eqn:Ha; [|discriminate].
  inversion H; subst acts evs; clear H.
  destruct (Hcl eq_refl) as [Hacts (rem & j & Ec & [E Hj] & L)].
  exists t. split; [exact Hok'|]. split; [exact Hroot|]. split; [|split].
  - unfold all_input_consumed in Ha. pose proof stream_k_pos as Hk.
    destruct (s_buf (c_stream c)) as [|x b] eqn:Eb; [cbn [length] in L; lia|].
    apply N.eqb_eq in Ha. cbn [map app] in E.
    destruct rem as [|r rem]; [rewrite app_nil_r in Ec; exact Ec|].
    cbn [app] in E. inversion E as [[Er _]]. exfalso. apply Hnz. rewrite <- Ec.
    apply in_or_app. right. left. congruence.
  - intros Ht. cbn [rev]. rewrite (Hev Ht). reflexivity.
  - exact Hacts.
Qed.

Lemma finish_errs c acts evs : c_errs c <> [] -> ll_finish c = Accepted acts evs -> False.
Proof. unfold ll_finish. destruct (c_errs c); [congruence|discriminate]. Qed.

Lemma Inv_not_accepted c : Inv c -> input_accepted (c_stack c) = false.
Proof. intros (fs & Hne & _ & Hst & _). rewrite Hst. apply stack_of_not_accepted. exact Hne. Qed.

Lemma loop_goal fuel : forall c acts evs,
  Inv c \/ Fin c -> ll_loop orc tb opts fuel c = Accepted acts evs -> run_goal acts evs.
Proof.
  induction fuel as [|fuel IH]; intros c acts evs HI H; [discriminate|].
  cbn [ll_loop] in H. destruct HI as [HI|HF].
  - rewrite (Inv_not_accepted _ HI) in H.
    destruct (ll_step orc tb opts c) as [c'|c'|r] eqn:Es.
    + eapply IH; [|exact H]. eapply step_inv; eassumption.
    + exfalso. eapply finish_errs; [|exact H]. eapply step_break; exact Es.
    + apply step_return in Es. subst r. destruct Es.
  - destruct HF as (t & Hst & HF). rewrite Hst in H. cbn [input_accepted] in H.
    eapply finish_goal; [|exact H]. exists t. split; [exact Hst|exact HF].
Qed.

Lemma init_inv s0 c : stream_ok s0 [] -> ll_init orc tb opts s0 = Continue c -> Inv c.
Proof.
  intros Hs H. unfold ll_init in H.
  destruct (dfa_at tb (tb_start tb)) as [d|] eqn:Ed; [|discriminate].
  pose proof (dfa_at_ok _ _ Ed) as Hdok.
  destruct (predict tb d s0) as [[q| |e] s1] eqn:Ep; [|discriminate|].
  - destruct (predict_ok_spec _ _ _ _ _ Hdok Ep) as [(prq & Hq & Hlq) Hs1].
    eapply (push_production_inv (tb_start tb) []); [|exact Hq|exact Hlq|exact H].
    unfold Shape. cbn [fwf set_stream c_stack c_pts c_evs c_depth stack_of pts_of evs_of depth_of rev app].
    split; [reflexivity|]. split; [reflexivity|]. split; [reflexivity|]. split; [intros _; reflexivity|].
    split; [reflexivity|]. intros _. split.
    + cbn [c_acts posts_of rev]. constructor.
    + cbn [c_stream yield_of]. destruct Hs1 as [->| ->]; [exact Hs|].
      rewrite (stream_ok_ensure _ _ Hs). exact Hs.
  - destruct (handle_prediction_error orc tb opts _ (tb_start tb) d) as [q c1|r' n c1|site] eqn:Eh;
      try discriminate.
    apply hpe_ok in Eh. cbn [set_stream c_errs c_stack c_pts c_acts c_evs c_depth] in Eh.
    destruct Eh as (He & H1 & H2 & H3 & H4 & H5 & s & Hs').
    destruct (predict_ok_spec _ _ _ _ _ Hdok Hs') as [(prq & Hq & Hlq) _].
    eapply (push_production_inv (tb_start tb) []); [|exact Hq|exact Hlq|exact H].
    unfold Shape. rewrite H1, H2, H4, H5.
    cbn [fwf stack_of pts_of evs_of depth_of rev app].
    split; [reflexivity|]. split; [reflexivity|]. split; [reflexivity|]. split; [intros _; reflexivity|].
    split; [reflexivity|]. intros He'. congruence.
Qed.

Lemma init_return s0 r : ll_init orc tb opts s0 = Return r -> not_acc r.
Proof.
  unfold ll_init. intros H.
  destruct (dfa_at tb (tb_start tb)) as [d|]; [|inversion H; exact I].
  destruct (predict tb d s0) as [[q| |e] s1].
  - eapply push_production_return; exact H.
  - inversion H; exact I.
  - destruct (handle_prediction_error orc tb opts _ _ d) as [q c1|r' n c1|site].
    + eapply push_production_return; exact H.
    + inversion H; exact I.
    + inversion H; exact I.
Qed.

Lemma init_not_break s0 c : ll_init orc tb opts s0 = Break c -> False.
Proof.
  unfold ll_init. intros H.
  destruct (dfa_at tb (tb_start tb)) as [d|]; [|discriminate].
  destruct (predict tb d s0) as [[q| |e] s1].
  - eapply push_production_not_break; exact H.
  - discriminate.
  - destruct (handle_prediction_error orc tb opts _ _ d) as [q c1|r' n c1|site].
    + eapply push_production_not_break; exact H.
    + discriminate.
    + discriminate.
Qed.

Lemma locate_types l : forall loc, map fst (locate l loc) = l.
Proof. induction l as [|t l IH]; intros loc; cbn [locate map fst]; [reflexivity|]. rewrite IH. reflexivity. Qed.

Lemma init_stream_ok eloc : stream_ok (init_stream tb (locate toks LOC_FIRST) eloc) [].
Proof.
  unfold init_stream.
  destruct (ensure_rel (mkStream [] (locate toks LOC_FIRST) (stream_k tb) eloc) toks 0) as (j & Hr & L).
  - split; cbn [s_buf s_rest map app repeat]; [rewrite locate_types, app_nil_r; reflexivity|auto].
  - cbn [s_buf length]. lia.
  - exists toks, j. auto.
Qed.

Lemma run_located_goal fuel eloc acts evs :
  ll_run_located orc tb opts fuel (locate toks LOC_FIRST) eloc = Accepted acts evs -> run_goal acts evs.
Proof.
  unfold ll_run_located. intros H.
  destruct (ll_init orc tb opts _) as [c|c|r] eqn:Ei.
  - eapply loop_goal; [left|exact H]. eapply init_inv; [|exact Ei]. apply init_stream_ok.
  - exfalso. eapply init_not_break; exact Ei.
  - apply init_return in Ei. subst r. destruct Ei.
Qed.

End Sound.

(** ** Main theorems (C01 soundness, C02) *)
Lemma significant_nonzero toks : forallb significant toks = true -> ~ In 0%N toks.
Proof.
  intros H Hin. rewrite forallb_forall in H. specialize (H _ Hin). discriminate.
Qed.

Lemma tables_ok_split tb : tables_ok tb = true -> tables_ok_basic tb = true /\ la_wf tb = true.
Proof. unfold tables_ok. intros H. apply andb_prop in H. exact H. Qed.

(** Everything at once, for every oracle. *)
Theorem ll_run_with_goal orc fuel tb opts toks acts evs :
  tables_ok_basic tb = true -> (o_recovery opts = false \/ la_wf tb = true) ->
  ll_run_with orc fuel tb opts toks = Accepted acts evs -> run_goal tb opts toks acts evs.
Proof.
  intros Hok Hrec H. unfold ll_run_with in H.
  destruct (forallb significant toks) eqn:Hs; [|discriminate].
  eapply run_located_goal; try eassumption. apply significant_nonzero. exact Hs.
Qed.

Lemma run_goal_lang tb opts toks acts evs : run_goal tb opts toks acts evs -> lang (grammar_of tb) toks.
Proof.
  intros (t & Hok & Hroot & Hy & _). unfold lang. cbn [grammar_of start].
  rewrite <- Hy, <- Hroot. apply tree_derives. exact Hok.
Qed.

(** Soundness for an arbitrary recovery oracle and arbitrary (well-formed) automata. *)
Theorem ll_sound_any_oracle : forall orc fuel tb opts toks acts evs,
  tables_ok tb = true -> ll_run_with orc fuel tb opts toks = Accepted acts evs ->
  lang (grammar_of tb) toks.
Proof.
  intros orc fuel tb opts toks acts evs Hok H. apply tables_ok_split in Hok as [H1 H2].
  eapply run_goal_lang. eapply ll_run_with_goal; eauto.
Qed.

Theorem ll_sound : forall fuel tb opts toks acts evs,
  tables_ok tb = true -> ll_run fuel tb opts toks = Accepted acts evs -> lang (grammar_of tb) toks.
Proof. intros fuel tb opts toks acts evs. apply ll_sound_any_oracle. Qed.

(** Without recovery the caveat [la_wf] is not needed. *)
Theorem ll_sound_no_recovery : forall orc fuel tb opts toks acts evs,
  tables_ok_basic tb = true -> o_recovery opts = false ->
  ll_run_with orc fuel tb opts toks = Accepted acts evs -> lang (grammar_of tb) toks.
Proof.
  intros orc fuel tb opts toks acts evs Hok Hr H.
  eapply run_goal_lang. eapply ll_run_with_goal; eauto.
Qed.

(** With recovery enabled and tables that only pass [tables_ok_basic], a run that has seen an
    error can return success: prediction fails at a non-terminal whose automaton has no
    accepting path, "Can't recover" drains [error_entries], the loop is left, no entries are
    found, the look-ahead is EOI: [Ok]. *)
Definition refute_tables : ll_tables :=
  mkTables [ mkProduction 0 [NT 1; T 5] false ]          (* 0: S -> a A ;  A has no production *)
           [ mkDfa 0 [] 0; mkDfa (-1) [] 0 ] 0 1 6 2.

Theorem ll_recovery_sound_refuted :
  exists tb opts toks acts evs,
    tables_ok_basic tb = true /\ ll_run 100 tb opts toks = Accepted acts evs /\
    ~ lang (grammar_of tb) toks.
Proof.
  exists refute_tables, (mkOptions true false None), [5%N], [], [OpenRoot; Open 0; Tok 5; Close].
  split; [vm_compute; reflexivity|]. split; [vm_compute; reflexivity|].
  unfold lang. cbn. intros H.
  inversion H as [| |a p al u v Hin Hl Hr Ha]; subst.
  destruct Hin as [<-|[]]. cbn in Hr.
  inversion Hr as [|t al' w Hr'|]; subst.
  inversion Hr' as [| |a' p' al' u' v' Hin' Hl' _ _]; subst.
  destruct Hin' as [<-|[]]. discriminate.
Qed.

Example refute_no_recovery :
  ll_run 100 refute_tables (mkOptions false false None) [5%N] = Rejected RSyntaxErrors 1.
Proof. vm_compute. reflexivity. Qed.

(** C02: the tree. *)
Theorem ll_tree_ok_any_oracle : forall orc fuel tb opts toks acts evs,
  tables_ok tb = true -> o_trim opts = false ->
  ll_run_with orc fuel tb opts toks = Accepted acts evs ->
  exists t, events_to_tree evs = Some t /\ tree_ok (grammar_of tb) t /\ yield t = toks /\
            root_sym t = NT (start (grammar_of tb)).
Proof.
  intros orc fuel tb opts toks acts evs Hok Ht H. apply tables_ok_split in Hok as [H1 H2].
  destruct (ll_run_with_goal orc fuel tb opts toks acts evs H1 (or_intror H2) H)
    as (t & Htok & Hroot & Hy & Hev & _).
  exists t. rewrite (Hev Ht). split; [eapply events_to_tree_ok; exact Htok|]. auto.
Qed.

Theorem ll_tree_ok : forall fuel tb opts toks acts evs,
  tables_ok tb = true -> o_trim opts = false ->
  ll_run fuel tb opts toks = Accepted acts evs ->
  exists t, events_to_tree evs = Some t /\ tree_ok (grammar_of tb) t /\ yield t = toks /\
            root_sym t = NT (start (grammar_of tb)).
Proof. intros fuel tb opts toks acts evs. apply ll_tree_ok_any_oracle. Qed.

(** With [trim_parse_tree] the builder only sees the artificial root. *)
Theorem ll_trim_events : forall orc fuel tb opts toks acts evs,
  o_trim opts = true -> ll_run_with orc fuel tb opts toks = Accepted acts evs ->
  evs = [OpenRoot; Close].
Proof.
  intros orc fuel tb opts toks acts evs Ht H. unfold ll_run_with in H.
  destruct (forallb significant toks); [|discriminate]. unfold ll_run_located in H.
  assert (Hpush : forall c p c', c_evs c = [OpenRoot] -> push_production tb opts c p = Continue c' ->
                                 c_evs c' = [OpenRoot]).
  { intros c p c' Hc Hp. unfold push_production in Hp. rewrite Ht in Hp.
    break_matches Hp; inversion Hp; subst; exact Hc. }
  assert (Hstep : forall c c', c_evs c = [OpenRoot] ->
            (ll_step orc tb opts c = Continue c' \/ ll_step orc tb opts c = Break c') ->
            c_evs c' = [OpenRoot]).
  { intros c c' Hc Hs. unfold ll_step in Hs. destruct (c_stack c) as [|[t|a|p] st'].
    - destruct Hs as [Hs|Hs]; inversion Hs; subst; exact Hc.
    - destruct (s_buf (ensure tb (c_stream c))) as [|tok b]; [destruct Hs; discriminate|].
      destruct (fst tok =? t)%N.
      + destruct (consume tb _) as [[x s2]|]; [|destruct Hs; discriminate].
        rewrite Ht in Hs. destruct Hs as [Hs|Hs]; inversion Hs; subst; exact Hc.
      + unfold handle_token_mismatch in Hs.
        destruct Hs as [Hs|Hs]; break_matches Hs; inversion Hs; subst; exact Hc.
    - destruct (dfa_at tb a) as [d|]; [|destruct Hs; discriminate].
      destruct (predict tb d (c_stream c)) as [[q| |e] s1].
      + destruct Hs as [Hs|Hs]; [eapply Hpush; [|exact Hs]; exact Hc|].
        exfalso. unfold push_production in Hs. break_matches Hs; discriminate.
      + destruct Hs; discriminate.
      + destruct (handle_prediction_error orc tb opts _ a d) as [q c1|r' n c1|site] eqn:Eh.
        * assert (Hc1 : c_evs c1 = [OpenRoot]).
          { unfold handle_prediction_error in Eh. break_matches Eh; inversion Eh; subst; exact Hc. }
          destruct Hs as [Hs|Hs]; [eapply Hpush; [|exact Hs]; exact Hc1|].
          exfalso. unfold push_production in Hs. break_matches Hs; discriminate.
        * destruct Hs as [Hs|Hs]; [discriminate|]. inversion Hs; subst.
          unfold handle_prediction_error in Eh. break_matches Eh; inversion Eh; subst; exact Hc.
        * destruct Hs; discriminate.
    - unfold end_production in Hs. rewrite Ht in Hs.
      destruct Hs as [Hs|Hs]; break_matches Hs; inversion Hs; subst; exact Hc. }
  assert (Hfin : forall c, c_evs c = [OpenRoot] -> ll_finish c = Accepted acts evs -> evs = [OpenRoot; Close]).
  { intros c Hc Hf. unfold ll_finish in Hf. break_matches Hf; inversion Hf; subst.
    rewrite Hc. reflexivity. }
  assert (Hloop : forall fuel c, c_evs c = [OpenRoot] -> ll_loop orc tb opts fuel c = Accepted acts evs ->
                                 evs = [OpenRoot; Close]).
  { induction fuel0 as [|f IH]; intros c Hc Hl; [discriminate|]. cbn [ll_loop] in Hl.
    destruct (input_accepted (c_stack c)); [eapply Hfin; eassumption|].
    destruct (ll_step orc tb opts c) as [c'|c'|r] eqn:Es.
    - eapply IH; [|exact Hl]. eapply Hstep; [exact Hc|left; exact Es].
    - eapply Hfin; [|exact Hl]. eapply Hstep; [exact Hc|right; exact Es].
    - subst r. apply step_return in Es. destruct Es. }
  destruct (ll_init orc tb opts _) as [c|c|r] eqn:Ei.
  - eapply Hloop; [|exact H]. unfold ll_init in Ei.
    destruct (dfa_at tb (tb_start tb)) as [d|]; [|discriminate].
    destruct (predict tb d _) as [[q| |e] s1]; [| discriminate |].
    + eapply Hpush; [|exact Ei]. reflexivity.
    + destruct (handle_prediction_error orc tb opts _ _ d) as [q c1|r' n c1|site] eqn:Eh; try discriminate.
      eapply Hpush; [|exact Ei].
      unfold handle_prediction_error in Eh. break_matches Eh; inversion Eh; subst; reflexivity.
  - exfalso. eapply init_not_break; exact Ei.
  - subst r. apply init_return in Ei. destruct Ei.
Qed.

(** C02: the semantic actions.  [acts] and the post-order of the tree correspond call by
    call: the production number of the call denotes the production of the node, and the children
    handed over are exactly that production's right-hand side (tokens as [T], sub-trees as
    [NT]); in particular their number is the length of the right-hand side. *)
Definition action_ok (tb : ll_tables) (act : N * list sym) (pr : prod) : Prop :=
  exists prn, nth_error (tb_prods tb) (N.to_nat (fst act)) = Some prn /\ cfg_prod prn = pr /\
              snd act = rhs pr /\ length (snd act) = length (p_rev prn).

Lemma Forall2_weaken {A B} (R R' : A -> B -> Prop) l1 l2 :
  (forall a b, R a b -> R' a b) -> Forall2 R l1 l2 -> Forall2 R' l1 l2.
Proof. intros Hi H. induction H; constructor; auto. Qed.

Lemma act_match_action_ok tb act pr : act_match tb act pr -> action_ok tb act pr.
Proof.
  intros (prn & H1 & H2 & H3). exists prn. unfold prod_at in H1. repeat split; auto.
  rewrite H3, <- H2. cbn [cfg_prod rhs]. apply rev_length.
Qed.

Theorem ll_actions_postorder_any_oracle : forall orc fuel tb opts toks acts evs,
  tables_ok tb = true -> ll_run_with orc fuel tb opts toks = Accepted acts evs ->
  exists t, (o_trim opts = false -> events_to_tree evs = Some t) /\
            tree_ok (grammar_of tb) t /\ yield t = toks /\ root_sym t = NT (start (grammar_of tb)) /\
            Forall2 (action_ok tb) acts (postorder t).
Proof.
  intros orc fuel tb opts toks acts evs Hok H. apply tables_ok_split in Hok as [H1 H2].
  destruct (ll_run_with_goal orc fuel tb opts toks acts evs H1 (or_intror H2) H)
    as (t & Htok & Hroot & Hy & Hev & Hacts).
  exists t. split; [intros Ht; rewrite (Hev Ht); eapply events_to_tree_ok; exact Htok|].
  split; [exact Htok|]. split; [exact Hy|]. split; [exact Hroot|].
  eapply Forall2_weaken; [|exact Hacts]. intros a b. apply act_match_action_ok.
Qed.

Theorem ll_actions_postorder : forall fuel tb opts toks acts evs,
  tables_ok tb = true -> ll_run fuel tb opts toks = Accepted acts evs ->
  exists t, (o_trim opts = false -> events_to_tree evs = Some t) /\
            tree_ok (grammar_of tb) t /\ yield t = toks /\ root_sym t = NT (start (grammar_of tb)) /\
            Forall2 (action_ok tb) acts (postorder t).
Proof. intros fuel tb opts toks acts evs. apply ll_actions_postorder_any_oracle. Qed.

(** The same, as an equation between sequences. *)
Definition prod_of_number (tb : ll_tables) (p : N) : option prod :=
  option_map cfg_prod (nth_error (tb_prods tb) (N.to_nat p)).

Lemma action_ok_numbers tb acts ps : Forall2 (action_ok tb) acts ps ->
  map (fun a => prod_of_number tb (fst a)) acts = map Some ps /\
  map (fun a => Some (snd a)) acts = map (fun pr => Some (rhs pr)) ps.
Proof.
  induction 1 as [|a pr acts' ps' (prn & E1 & E2 & E3 & _) _ [IH1 IH2]]; [split; reflexivity|].
  cbn [map]. unfold prod_of_number at 1. rewrite E1. cbn [option_map]. rewrite E2, E3, IH1, IH2.
  split; reflexivity.
Qed.

Corollary ll_actions_numbers : forall fuel tb opts toks acts evs,
  tables_ok tb = true -> ll_run fuel tb opts toks = Accepted acts evs ->
  exists t, (o_trim opts = false -> events_to_tree evs = Some t) /\ yield t = toks /\
            map (fun a => prod_of_number tb (fst a)) acts = map Some (postorder t) /\
            map (fun a => Some (snd a)) acts = map (fun pr => Some (rhs pr)) (postorder t).
Proof.
  intros fuel tb opts toks acts evs Hok H.
  destruct (ll_actions_postorder fuel tb opts toks acts evs Hok H) as (t & Hev & _ & Hy & _ & Hf).
  exists t. split; [exact Hev|]. split; [exact Hy|]. apply action_ok_numbers. exact Hf.
Qed.

(** ** No panic *)
Definition named (tb : ll_tables) (l : list (N * N)) : Prop :=
  Forall (fun x => (fst x < tb_nterms tb)%N) l.

(** What a recovery oracle has to respect so that no index goes out of range afterwards. *)
Definition oracle_ok (orc : oracle) (tb : ll_tables) : Prop :=
  (forall d sc, In d (tb_automata tb) -> restore_status d = RS_NonEmpty ->
     exists e, o_expected orc d sc = Some e /\ Forall (fun t => (t < tb_nterms tb)%N) e) /\
  (forall buf e, named tb buf -> Forall (fun t => (t < tb_nterms tb)%N) e ->
     o_adjust orc buf e <> AdjPanic /\ forall b, o_adjust orc buf e = AdjOk b -> named tb b).

Section NoPanic.
Variable orc : oracle.
Variable tb : ll_tables.
Variable opts : options.
Variable toks : list N.
Hypothesis Hok : tables_ok_basic tb = true.
Hypothesis Hrec : o_recovery opts = false \/ (la_wf tb = true /\ oracle_ok orc tb).

Let Hrec0 : o_recovery opts = false \/ la_wf tb = true.
Proof. destruct Hrec as [H|[H _]]; auto. Qed.

Definition stream_named (s : stream) : Prop := named tb (s_buf s) /\ named tb (s_rest s).

Lemma nterms_pos : (0 < tb_nterms tb)%N.
Proof.
  pose proof Hok as H. unfold tables_ok_basic in H. repeat (apply andb_prop in H as [H ?]).
  match goal with Hf : (0 <? tb_nterms tb)%N = true |- _ => apply N.ltb_lt in Hf; exact Hf end.
Qed.

Lemma read_tokens_named n : forall rest e l, named tb rest ->
  named tb (fst (read_tokens n rest e l)) /\ named tb (fst (snd (read_tokens n rest e l))).
Proof.
  induction n as [|n IH]; intros rest e l Hr; cbn [read_tokens].
  - split; [constructor|exact Hr].
  - destruct rest as [|x rest].
    + destruct e as [|e]; cbn [fst snd]; destruct (IH [] 0 l Hr) as [H1 H2];
        try destruct (IH [] e l Hr) as [H3 H4]; (split; [constructor; [exact nterms_pos|]|]); assumption.
    + inversion Hr as [|? ? Hx Hr']; subst. destruct (IH rest e l Hr') as [H1 H2].
      cbn [fst snd]. split; [constructor; assumption|exact H2].
Qed.

Lemma ensure_named s : stream_named s -> stream_named (ensure tb s).
Proof.
  intros [Hb Hr]. unfold ensure. destruct (length (s_buf s) <? stream_k tb); [|split; assumption].
  destruct (read_tokens_named (stream_k tb - length (s_buf s)) (s_rest s) (s_eois s) (s_eloc s) Hr) as [H1 H2].
  split; cbn [s_buf s_rest]; [apply Forall_app; split; assumption|exact H2].
Qed.

Lemma predict_named d s r s1 : stream_named s -> predict tb d s = (r, s1) -> stream_named s1.
Proof.
  intros Hs H. apply predict_stream in H as [->| ->]; [exact Hs|apply ensure_named; exact Hs].
Qed.

Lemma eval_valid a d buf z : dfa_ok tb a d = true -> eval d buf = Predict z -> valid z = true.
Proof.
  intros Hd He. unfold dfa_ok in Hd. repeat (apply andb_prop in Hd as [Hd ?]).
  apply sortedb_spec in Hd.
  match goal with Hw : wfd d = true |- _ => unfold wfd in Hw end.
  unfold eval in He. destruct (valid (prod0 d)) eqn:V.
  - destruct (transitions d) as [|t ts]; [|discriminate].
    destruct (depth d) as [|k]; cbn [walk] in He.
    + unfold finish in He. rewrite V in He. inversion He; subst. exact V.
    + destruct buf as [|c buf]; [discriminate|]. cbn [scan] in He.
      unfold finish in He. rewrite V in He. inversion He; subst. exact V.
  - apply (walk_predict _ Hd) in He; [tauto|discriminate].
Qed.

Lemma predict_no_cast a d s s1 : dfa_ok tb a d = true -> predict tb d s = (PInvalidCast, s1) -> False.
Proof.
  intros Hd H. unfold predict in H. destruct (stream_k tb <? depth d); [discriminate|].
  assert (Hc : forall buf, conv_eval (eval d buf) <> PInvalidCast).
  { intros buf Hc. unfold conv_eval in Hc. destruct (eval d buf) as [z| |] eqn:E; try discriminate.
    rewrite (eval_valid _ _ _ _ Hd E) in Hc. discriminate. }
  destruct (depth d); inversion H as [[H1 H2]]; eapply Hc; exact H1.
Qed.

Lemma current_production_items pend p rest :
  current_production (map item_of pend ++ PE p :: rest) = Some p.
Proof. induction pend as [|[t|a] pend IH]; cbn [map item_of app current_production]; auto. Qed.

Lemma sym_ok_named s : sym_ok tb s = true -> sym_named tb s = true.
Proof.
  destruct s as [t|a]; cbn [sym_ok sym_named]; intros H; apply andb_prop in H as [_ H]; exact H.
Qed.

Lemma diag_ok p pr pend rest : prod_at tb p = Some pr ->
  diag_panic tb (map item_of pend ++ PE p :: rest) = None.
Proof.
  intros Hp. unfold diag_panic. rewrite current_production_items, Hp.
  pose proof (prod_at_ok tb Hok _ _ Hp) as Hpo. unfold production_ok in Hpo.
  apply andb_prop in Hpo as [Hpo Hs]. apply andb_prop in Hpo as [_ Hl].
  rewrite Hl, andb_true_r.
  replace (forallb (sym_named tb) (p_rev pr)) with true; [reflexivity|].
  symmetry. rewrite forallb_forall in *. intros x Hx. apply sym_ok_named. apply Hs. exact Hx.
Qed.

Lemma build_error_named ts : forallb (fun t => (t_tok t <? tb_nterms tb)%N) ts = true ->
  forall buf st, Forall (fun t => (t < tb_nterms tb)%N) buf -> build_error_ok tb ts st buf = true.
Proof.
  intros Hts. induction buf as [|ty buf IH]; intros st Hb; [reflexivity|].
  inversion Hb as [|? ? Hty Hb']; subst. cbn [build_error_ok]. apply N.ltb_lt in Hty.
  destruct (find _ ts) as [t|]; rewrite Hty; cbn [andb]; [apply IH; exact Hb'|].
  rewrite forallb_forall in *. intros t Ht. rewrite (Hts _ Ht). apply orb_true_r.
Qed.

Lemma dfa_tokens_named a d : dfa_ok tb a d = true ->
  forallb (fun t => (t_tok t <? tb_nterms tb)%N) (transitions d) = true.
Proof.
  intros Hd. unfold dfa_ok in Hd. apply andb_prop in Hd as [_ Hd].
  rewrite forallb_forall in *. intros t Ht. specialize (Hd _ Ht). apply andb_prop in Hd as [_ Hd]. exact Hd.
Qed.

Lemma named_types l : named tb l -> Forall (fun t => (t < tb_nterms tb)%N) (map fst l).
Proof. intros H. induction H; cbn [map]; constructor; assumption. Qed.

(** [handle_prediction_error] does not panic and keeps the stream named. *)
Lemma hpe_no_panic c a d e s0 pend p pr rest :
  dfa_at tb a = Some d -> (a < tb_nnts tb)%N -> stream_named (c_stream c) ->
  predict tb d s0 = (PErr e, c_stream c) ->
  (c_stack c = [] \/ (c_stack c = map item_of pend ++ PE p :: rest /\ prod_at tb p = Some pr)) ->
  match handle_prediction_error orc tb opts c a d with
  | HPanic _ => False
  | HOk _ c1 => stream_named (c_stream c1)
  | HErr _ _ _ => True
  end.
Proof.
  intros Hd Ha [Hb Hr] Hpe Hstk. pose proof (dfa_at_ok tb Hok _ _ Hd) as Hdok.
  unfold handle_prediction_error.
  apply N.ltb_lt in Ha. rewrite Ha. cbn [negb].
  rewrite (build_error_named _ (dfa_tokens_named _ _ Hdok) _ 0%N (named_types _ Hb)). cbn [negb].
  assert (Hdiag : diag_panic tb (c_stack c) = None).
  { destruct Hstk as [->|[-> Hp]]; [reflexivity|eapply diag_ok; exact Hp]. }
  rewrite Hdiag.
  destruct (snd (add_error (c_errs c) _)); [exact I|].
  destruct (o_recovery opts) eqn:Er in |- *; cbn [negb]; [|exact I].
  pose proof Hrec as Hrec'; destruct Hrec' as [Hr'|[Hla [Ho1 Ho2]]]; [congruence|].
  assert (Hne : restore_status d = RS_NonEmpty).
  { destruct (la_wf_at tb opts (or_intror Hla) a d Hd) as [H|H]; [|congruence|exact H].
    eapply predict_err_invalid; eassumption. }
  rewrite Hne. unfold dfa_at in Hd. apply nth_error_In in Hd.
  destruct (Ho1 d (map fst (s_buf (c_stream c))) Hd Hne) as (ex & Eex & Hex). rewrite Eex.
  destruct (Ho2 (s_buf (c_stream c)) ex Hb Hex) as [Hnp Hadj].
  destruct (o_adjust orc _ ex) as [b| |] eqn:Eadj; [|exact I|congruence].
  specialize (Hadj b eq_refl). clear Hpe.
  destruct (predict tb d _) as [[q| |e'] s2] eqn:Ep.
  - cbn [set_stream c_stream]. eapply predict_named; [|exact Ep]. split; [exact Hadj|exact Hr].
  - eapply predict_no_cast; eassumption.
  - exact I.
Qed.

Lemma push_production_no_panic c p pr site :
  prod_at tb p = Some pr -> push_production tb opts c p = Return (Panic site) -> False.
Proof.
  intros Hp H. unfold push_production in H. rewrite Hp in H.
  pose proof (prod_at_ok tb Hok _ _ Hp) as Hpo. unfold production_ok in Hpo.
  apply andb_prop in Hpo as [Hpo _]. apply andb_prop in Hpo as [_ Hl]. rewrite Hl in H. cbn [negb] in H.
  break_matches H; discriminate.
Qed.

Lemma push_production_stream c p c' : push_production tb opts c p = Continue c' -> c_stream c' = c_stream c.
Proof. unfold push_production. intros H. break_matches H; inversion H; reflexivity. Qed.

Lemma pending_sym_ok p pr done h pend s :
  prod_at tb p = Some pr -> rev (p_rev pr) = done ++ h ++ s :: pend -> sym_ok tb s = true.
Proof.
  intros Hp Hr. pose proof (prod_at_ok tb Hok _ _ Hp) as Hpo. unfold production_ok in Hpo.
  apply andb_prop in Hpo as [_ Hs]. rewrite forallb_forall in Hs. apply Hs. apply in_rev. rewrite Hr.
  apply in_or_app. right. apply in_or_app. right. left. reflexivity.
Qed.

Lemma expected_named st : (forall t, In (PT t) st -> (t < tb_nterms tb)%N) ->
  Forall (fun t => (t < tb_nterms tb)%N) (expected_token_types st).
Proof.
  induction st as [|[t|a|p] st IH]; intros H; cbn [expected_token_types]; try constructor.
  - apply H. left. reflexivity.
  - apply IH. intros t' Ht'. apply H. right. exact Ht'.
  - apply IH. intros t' Ht'. apply H. right. exact Ht'.
Qed.

Lemma stack_of_named fs h : fwf tb h fs -> forall t, In (PT t) (stack_of fs) -> (t < tb_nterms tb)%N.
Proof.
  revert h. induction fs as [|f o IH]; intros h Hw t Hin; [destruct Hin|].
  cbn [fwf] in Hw. destruct Hw as (Hp & Hr & _ & Hw). cbn [stack_of] in Hin.
  apply in_app_or in Hin as [Hin|[Hin|Hin]]; [|discriminate|eapply IH; eassumption].
  apply in_map_iff in Hin as (s & Es & Hs). destruct s as [t'|a']; cbn in Es; [|discriminate].
  inversion Es; subst t'.
  apply in_split in Hs as (l1 & l2 & El). rewrite El in Hr.
  assert (Hso : sym_ok tb (T t) = true).
  { eapply (pending_sym_ok (f_p f) (f_pr f) (map root_sym (f_done f)) (hole_syms h ++ l1) l2 (T t) Hp).
    rewrite Hr, <- app_assoc. reflexivity. }
  cbn [sym_ok] in Hso. apply andb_prop in Hso as [_ Hso]. apply N.ltb_lt. exact Hso.
Qed.

Lemma step_no_panic c : Inv tb opts toks c -> stream_named (c_stream c) ->
  match ll_step orc tb opts c with
  | Return (Panic _) => False
  | Continue c' => stream_named (c_stream c')
  | _ => True
  end.
Proof.
  intros (fs & Hne & Hw & Hst & Hpts & Hev & Hd & Hcl) Hnm.
  destruct fs as [|f outer]; [congruence|]. clear Hne.
  pose proof (stack_of_named _ _ Hw) as Hstk_named.
  cbn [fwf hole_syms app] in Hw. destruct Hw as (Hp & Hr & Hdone & Hw).
  cbn [stack_of] in Hst, Hstk_named. cbn [pts_of] in Hpts. cbn [depth_of] in Hd.
  unfold ll_step. rewrite Hst.
  destruct f as [p pr done pending]. cbn [f_p f_pr f_done f_pending] in *.
  destruct pending as [|[t|a] pend]; cbn [map item_of app].
  - unfold end_production. rewrite Hp, Hd.
    rewrite app_nil_r in Hr.
    assert (Hlen : length (p_rev pr) = length (rev (map root_sym done))).
    { rewrite <- (rev_length (p_rev pr)), Hr, rev_length. reflexivity. }
    rewrite Hpts, Hlen, split_rev_spec.
    destruct (p_push pr); [exact Hnm|].
    destruct (N.eqb_spec (1 + depth_of outer) 0) as [E|E]; [lia|exact Hnm].
  - pose proof (ensure_named _ Hnm) as Hnm1.
    destruct (s_buf (ensure tb (c_stream c))) as [|tok b] eqn:Eb; [exact I|].
    destruct (N.eqb_spec (fst tok) t) as [Et|Et].
    + unfold consume. rewrite (ensure_id tb (ensure tb (c_stream c))) by apply ensure_length.
      rewrite Eb. cbn [c_stream]. apply ensure_named. destruct Hnm1 as [H1 H2]. rewrite Eb in H1.
      inversion H1; subst. split; assumption.
    + unfold handle_token_mismatch. cbn [set_stream c_stack c_errs c_stream].
      assert (Hso : sym_ok tb (T t) = true) by (eapply (pending_sym_ok _ _ _ [] pend (T t) Hp); exact Hr).
      cbn [sym_ok] in Hso. apply andb_prop in Hso as [_ Hso]. rewrite Hso. cbn [negb].
      rewrite Hst. rewrite (diag_ok _ _ (T t :: pend) _ Hp).
      pose proof Hnm1 as [H1 H2]. rewrite Eb in H1. inversion H1 as [|? ? Htok Hb]; subst.
      apply N.ltb_lt in Htok. rewrite Htok. cbn [negb].
      destruct (snd (add_error _ _)); [exact I|].
      destruct (o_recovery opts) eqn:Er in |- *; cbn [negb]; [|exact I].
      pose proof Hrec as Hrec'; destruct Hrec' as [Hr'|[Hla [Ho1 Ho2]]]; [congruence|].
      cbn [set_errs set_stream c_stream].
      rewrite (ensure_id tb (ensure tb (c_stream c))) by apply ensure_length. rewrite Eb.
      destruct (Ho2 (tok :: b) (expected_token_types (map item_of (T t :: pend) ++ PE p :: stack_of outer)) H1)
        as [Hnp Hadj].
      { apply expected_named. exact Hstk_named. }
      destruct (o_adjust orc _ _) as [b'| |] eqn:Eadj; [| |congruence].
      * cbn [set_stream c_stream set_buf s_buf s_rest]. split; [apply Hadj; reflexivity|exact H2].
      * exact I.
  - assert (Hso : sym_ok tb (NT a) = true) by (eapply (pending_sym_ok _ _ _ [] pend (NT a) Hp); exact Hr).
    cbn [sym_ok] in Hso. apply andb_prop in Hso as [Ha1 Ha2]. apply Nat.ltb_lt in Ha1. apply N.ltb_lt in Ha2.
    destruct (dfa_at tb a) as [d|] eqn:Ed; [|unfold dfa_at in Ed; apply nth_error_None in Ed; lia].
    pose proof (dfa_at_ok tb Hok _ _ Ed) as Hdok.
    destruct (predict tb d (c_stream c)) as [[q| |e] s1] eqn:Ep.
    + destruct (predict_ok_spec tb _ _ _ _ _ Hdok Ep) as [(prq & Hq & Hlq) _].
      destruct (push_production tb opts _ q) as [c'|c'|r] eqn:Epp.
      * rewrite (push_production_stream _ _ _ Epp). cbn [set_stack set_stream c_stream].
        eapply predict_named; eassumption.
      * exfalso. eapply push_production_not_break; exact Epp.
      * destruct r; try exact I. eapply push_production_no_panic; eassumption.
    + eapply predict_no_cast; eassumption.
    + pose proof (hpe_no_panic (set_stream c s1) a d e (c_stream c) (NT a :: pend) p pr (stack_of outer)
                    Ed Ha2 (predict_named _ _ _ _ Hnm Ep) Ep) as Hh.
      cbn [set_stream c_stack] in Hh. specialize (Hh (or_intror (conj Hst Hp))).
      destruct (handle_prediction_error orc tb opts (set_stream c s1) a d) as [q c1|r n c1|site] eqn:Eh.
      * pose proof Eh as Eh'. apply hpe_ok in Eh' as (_ & _ & _ & _ & _ & _ & s & Hs).
        destruct (predict_ok_spec tb _ _ _ _ _ Hdok Hs) as [(prq & Hq & Hlq) _].
        destruct (push_production tb opts _ q) as [c'|c'|r] eqn:Epp.
        -- rewrite (push_production_stream _ _ _ Epp). exact Hh.
        -- exfalso. eapply push_production_not_break; exact Epp.
        -- destruct r; try exact I. eapply push_production_no_panic; eassumption.
      * exact I.
      * exact Hh.
Qed.

Lemma finish_no_panic c site : ll_finish c = Panic site -> False.
Proof. unfold ll_finish. intros H. break_matches H; discriminate. Qed.

Lemma loop_no_panic fuel : forall c site,
  Inv tb opts toks c \/ Fin tb opts toks c -> stream_named (c_stream c) ->
  ll_loop orc tb opts fuel c = Panic site -> False.
Proof.
  induction fuel as [|fuel IH]; intros c site HI Hnm H; [discriminate|].
  cbn [ll_loop] in H. destruct HI as [HI|HF].
  - rewrite (Inv_not_accepted _ _ _ _ HI) in H.
    pose proof (step_no_panic c HI Hnm) as Hs.
    destruct (ll_step orc tb opts c) as [c'|c'|r] eqn:Es.
    + eapply IH; [|exact Hs|exact H]. eapply step_inv; eassumption.
    + eapply finish_no_panic; exact H.
    + subst r. exact Hs.
  - destruct HF as (t & Hst & HF). rewrite Hst in H. cbn [input_accepted] in H.
    eapply finish_no_panic; exact H.
Qed.

Lemma start_named : (tb_start tb < tb_nnts tb)%N.
Proof.
  pose proof Hok as H. unfold tables_ok_basic in H. repeat (apply andb_prop in H as [H ?]).
  match goal with Hf : (tb_start tb <? tb_nnts tb)%N = true |- _ => apply N.ltb_lt in Hf; exact Hf end.
Qed.

Lemma init_no_panic s0 : stream_named s0 ->
  match ll_init orc tb opts s0 with
  | Return (Panic _) => False
  | Continue c => stream_named (c_stream c)
  | _ => True
  end.
Proof.
  intros Hnm. unfold ll_init.
  destruct (ok_start tb Hok) as (d & Ed). rewrite Ed.
  pose proof (dfa_at_ok tb Hok _ _ Ed) as Hdok.
  destruct (predict tb d s0) as [[q| |e] s1] eqn:Ep.
  - destruct (predict_ok_spec tb _ _ _ _ _ Hdok Ep) as [(prq & Hq & Hlq) _].
    destruct (push_production tb opts _ q) as [c'|c'|r] eqn:Epp.
    + rewrite (push_production_stream _ _ _ Epp). cbn [set_stream c_stream].
      eapply predict_named; eassumption.
    + exact I.
    + destruct r; try exact I. eapply push_production_no_panic; eassumption.
  - eapply predict_no_cast; eassumption.
  - match goal with |- context [handle_prediction_error orc tb opts ?c0 _ d] =>
      pose proof (hpe_no_panic c0 (tb_start tb) d e s0 [] 0%N (mkProduction 0 [] false) []
                    Ed start_named (predict_named _ _ _ _ Hnm Ep) Ep (or_introl eq_refl)) as Hh;
      destruct (handle_prediction_error orc tb opts c0 (tb_start tb) d) as [q c1|r n c1|site] eqn:Eh
    end.
    + pose proof Eh as Eh'. apply hpe_ok in Eh' as (_ & _ & _ & _ & _ & _ & s & Hs).
      destruct (predict_ok_spec tb _ _ _ _ _ Hdok Hs) as [(prq & Hq & Hlq) _].
      destruct (push_production tb opts _ q) as [c'|c'|r] eqn:Epp.
      * rewrite (push_production_stream _ _ _ Epp). exact Hh.
      * exact I.
      * destruct r; try exact I. eapply push_production_no_panic; eassumption.
    + exact I.
    + exact Hh.
Qed.

Lemma locate_named l : forallb (fun t => (t <? tb_nterms tb)%N) l = true ->
  forall loc, named tb (locate l loc).
Proof.
  induction l as [|t l IH]; intros H loc; cbn [locate]; [constructor|].
  cbn [forallb] in H. apply andb_prop in H as [H1 H2]. constructor; [apply N.ltb_lt; exact H1|].
  apply IH. exact H2.
Qed.

Lemma run_with_no_panic fuel site :
  forallb (fun t => (t <? tb_nterms tb)%N) toks = true ->
  ll_run_with orc fuel tb opts toks = Panic site -> False.
Proof.
  intros Hn H. unfold ll_run_with in H. destruct (forallb significant toks); [|discriminate].
  unfold ll_run_located in H.
  assert (Hs0 : stream_named (init_stream tb (locate toks LOC_FIRST) LOC_END)).
  { unfold init_stream. apply ensure_named. split; cbn [s_buf s_rest]; [constructor|].
    apply locate_named. exact Hn. }
  pose proof (init_no_panic _ Hs0) as Hi.
  destruct (ll_init orc tb opts _) as [c|c|r] eqn:Ei.
  - eapply loop_no_panic; [left|exact Hi|exact H].
    eapply init_inv; [exact Hok| |exact Ei]. apply init_stream_ok.
  - eapply finish_no_panic; exact H.
  - subst r. exact Hi.
Qed.

End NoPanic.

(** C19 (runtime half): no index, [unwrap] or subtraction of the model fails on tables that
    pass [tables_ok], for tokens that have a name in [TERMINAL_NAMES]: first for every oracle that
    satisfies [oracle_ok] (all of them if recovery is disabled); [faithful_oracle_ok] and
    [ll_no_panic] below instantiate it with the transcribed recovery functions. *)
Theorem ll_no_panic_any_oracle : forall orc fuel tb opts toks site,
  tables_ok tb = true -> o_recovery opts = false \/ oracle_ok orc tb ->
  forallb (fun t => (t <? tb_nterms tb)%N) toks = true ->
  ll_run_with orc fuel tb opts toks <> Panic site.
Proof.
  intros orc fuel tb opts toks site Hok Hrec Hn H. apply tables_ok_split in Hok as [H1 H2].
  eapply (run_with_no_panic orc tb opts toks H1); [|exact Hn|exact H].
  destruct Hrec as [Hr|Hr]; [left; exact Hr|right; split; assumption].
Qed.

(** A token type without a name does make the model (and the Rust) panic in an error path. *)
Example unnamed_token_panics :
  ll_run 100 ex_tables ex_opts [5; 12; 6]%N = Panic SITE_BUILD_ERROR_NAME.
Proof. vm_compute. reflexivity. Qed.

(** ** Fuel *)
Lemma ll_loop_mono orc tb opts fuel : forall c extra,
  ll_loop orc tb opts fuel c <> OutOfFuel ->
  ll_loop orc tb opts (fuel + extra) c = ll_loop orc tb opts fuel c.
Proof.
  induction fuel as [|fuel IH]; intros c extra H; [cbn in H; congruence|].
  cbn [ll_loop Nat.add] in *. destruct (input_accepted (c_stack c)); [reflexivity|].
  destruct (ll_step orc tb opts c); try reflexivity. apply IH. exact H.
Qed.

(** More fuel never changes a result other than [OutOfFuel]. *)
Theorem ll_run_fuel_mono : forall fuel extra tb opts toks,
  ll_run fuel tb opts toks <> OutOfFuel ->
  ll_run (fuel + extra) tb opts toks = ll_run fuel tb opts toks.
Proof.
  intros fuel extra tb opts toks H. unfold ll_run, ll_run_with in *.
  destruct (forallb significant toks); [|reflexivity]. unfold ll_run_located in *.
  destruct (ll_init _ _ _ _); try reflexivity. apply ll_loop_mono. exact H.
Qed.

(** *** How much fuel an accepted run needs

    Potential of a configuration on an error-free run: every loop iteration raises
    [2 * |actions so far| + |end-of-production markers on the stack| - |tokens not yet consumed|]
    by exactly one. *)
Definition nPE (st : list pitem) : nat :=
  length (filter (fun i => match i with PE _ => true | _ => false end) st).

Definition nz (t : N) : bool := negb (N.eqb t 0).

Definition remaining (s : stream) : nat :=
  length (filter nz (map fst (s_buf s) ++ map fst (s_rest s))).

Section Fuel.
Variable orc : oracle.
Variable tb : ll_tables.
Variable opts : options.
Variable toks : list N.
Hypothesis Hok : tables_ok_basic tb = true.
Hypothesis Hrec : o_recovery opts = false \/ la_wf tb = true.
Hypothesis Hnz : ~ In 0%N toks.

Lemma read_tokens_nz n : forall rest e l,
  filter nz (map fst (fst (read_tokens n rest e l)) ++ map fst (fst (snd (read_tokens n rest e l))))
  = filter nz (map fst rest).
Proof.
  induction n as [|n IH]; intros rest e l; [reflexivity|].
  cbn [read_tokens]. destruct rest as [|x rest].
  - destruct e as [|e]; cbn [fst snd map app filter nz N.eqb negb]; rewrite IH; reflexivity.
  - cbn [fst snd map app filter]. rewrite IH. reflexivity.
Qed.

Lemma remaining_ensure s : remaining (ensure tb s) = remaining s.
Proof.
  unfold ensure. destruct (length (s_buf s) <? stream_k tb); [|reflexivity].
  unfold remaining. cbn [s_buf s_rest].
  rewrite map_app, <- app_assoc, (filter_app nz (map fst (s_buf s))), read_tokens_nz, <- filter_app.
  reflexivity.
Qed.

Lemma remaining_predict d s r s1 : predict tb d s = (r, s1) -> remaining s1 = remaining s.
Proof. intros H. apply predict_stream in H as [->| ->]; [reflexivity|apply remaining_ensure]. Qed.

Lemma nPE_items l st : nPE (push_items l st) = nPE st.
Proof.
  rewrite push_items_spec. unfold nPE. rewrite filter_app, app_length.
  replace (filter _ (rev (map item_of l))) with (@nil pitem); [reflexivity|].
  symmetry. induction l as [|[t|a] l IH]; cbn [map item_of rev]; [reflexivity| |];
    rewrite filter_app, IH; reflexivity.
Qed.

Lemma push_production_shape c p c' : push_production tb opts c p = Continue c' ->
  c_errs c' = c_errs c /\ c_acts c' = c_acts c /\ c_stream c' = c_stream c /\
  nPE (c_stack c') = S (nPE (c_stack c)).
Proof.
  unfold push_production. intros H.
  destruct (prod_at tb p) as [pr|]; [|discriminate].
  destruct (negb _); [discriminate|].
  assert (Hn : nPE (push_items (p_rev pr) (PE p :: c_stack c)) = S (nPE (c_stack c))).
  { rewrite nPE_items. reflexivity. }
  destruct (o_max_depth opts) as [m|]; [destruct (m <? _)%N; [discriminate|]|];
    inversion H; subst c'; cbn [c_errs c_acts c_stream c_stack]; auto.
Qed.

(** Once an error entry exists the run cannot be accepted any more. *)
Lemma errs_stuck_step c c' : c_errs c <> [] -> ll_step orc tb opts c = Continue c' -> c_errs c' <> [].
Proof.
  intros He H. unfold ll_step in H.
  destruct (c_stack c) as [|[t|a|p] st']; [inversion H; subst; exact He| | |].
  - destruct (s_buf (ensure tb (c_stream c))) as [|tok b]; [discriminate|].
    destruct (fst tok =? t)%N.
    + destruct (consume tb _) as [[x s2]|]; [|discriminate]. inversion H; subst c'. exact He.
    + apply htm_continue in H. tauto.
  - destruct (dfa_at tb a) as [d|]; [|discriminate].
    destruct (predict tb d (c_stream c)) as [[q| |e] s1]; [| discriminate |].
    + apply push_production_shape in H as (E & _). rewrite E. exact He.
    + destruct (handle_prediction_error orc tb opts _ a d) as [q c1|r' n c1|site] eqn:Eh; try discriminate.
      apply hpe_ok in Eh as (E1 & _). apply push_production_shape in H as (E & _). rewrite E. exact E1.
  - unfold end_production in H. break_matches H; inversion H; subst c'; exact He.
Qed.

Lemma errs_stuck_loop fuel : forall c acts evs,
  c_errs c <> [] -> ll_loop orc tb opts fuel c = Accepted acts evs -> False.
Proof.
  induction fuel as [|fuel IH]; intros c acts evs He H; [discriminate|].
  cbn [ll_loop] in H. destruct (input_accepted (c_stack c)); [eapply finish_errs; eassumption|].
  destruct (ll_step orc tb opts c) as [c'|c'|r] eqn:Es.
  - eapply IH; [|exact H]. eapply errs_stuck_step; eassumption.
  - eapply finish_errs; [|exact H]. eapply (step_break orc tb opts Hok Hrec); exact Es.
  - subst r. apply step_return in Es. destruct Es.
Qed.

Lemma clean_step_potential c c' :
  Inv tb opts toks c -> c_errs c = [] -> ll_step orc tb opts c = Continue c' -> c_errs c' = [] ->
  2 * length (c_acts c') + nPE (c_stack c') + remaining (c_stream c)
  = 2 * length (c_acts c) + nPE (c_stack c) + remaining (c_stream c') + 1.
Proof.
  intros (fs & Hne & Hw & Hst & _) He H He'.
  destruct fs as [|f outer]; [congruence|]. clear Hne.
  cbn [fwf hole_syms app] in Hw. destruct Hw as (Hp & Hr & _ & _).
  cbn [stack_of] in Hst. unfold ll_step in H. rewrite Hst in H |- *.
  destruct (f_pending f) as [|[t|a] pend]; cbn [map item_of app] in H |- *.
  - unfold end_production in H. rewrite He in H.
    break_matches H; inversion H; subst c'; cbn [c_acts c_stack c_stream length]; unfold nPE; cbn [filter length]; lia.
  - destruct (s_buf (ensure tb (c_stream c))) as [|tok b] eqn:Eb; [discriminate|].
    destruct (N.eqb_spec (fst tok) t) as [Et|Et].
    + unfold consume in H. rewrite (ensure_id tb (ensure tb (c_stream c))) in H by apply ensure_length.
      rewrite Eb in H. inversion H; subst c'. cbn [c_acts c_stack c_stream nPE filter].
      rewrite remaining_ensure. rewrite <- (remaining_ensure (c_stream c)).
      assert (Hnzt : nz (fst tok) = true).
      { rewrite Et. unfold nz. apply negb_true_iff. apply N.eqb_neq.
        eapply (prod_terminal_nonzero tb Hok); [exact Hp|]. rewrite Hr.
        apply in_or_app. right. left. reflexivity. }
      unfold remaining. cbn [set_buf s_buf s_rest]. rewrite Eb. cbn [map app filter].
      rewrite Hnzt. cbn [length]. unfold nPE. cbn [filter]. lia.
    + apply htm_continue in H. destruct H as (H & _). congruence.
  - destruct (dfa_at tb a) as [d|]; [|discriminate].
    destruct (predict tb d (c_stream c)) as [[q| |e] s1] eqn:Ep; [| discriminate |].
    + apply push_production_shape in H as (_ & Ea & Es & En).
      cbn [set_stack set_stream c_acts c_stream c_stack] in Ea, Es, En.
      rewrite Ea, Es, En, (remaining_predict _ _ _ _ Ep). unfold nPE. cbn [filter]. lia.
    + destruct (handle_prediction_error orc tb opts _ a d) as [q c1|r' n c1|site] eqn:Eh; try discriminate.
      apply hpe_ok in Eh as (E1 & _). apply push_production_shape in H as (E & _).
      cbn [set_stack c_errs] in E. congruence.
Qed.

Lemma filter_nz_repeat j : filter nz (repeat 0%N j) = [].
Proof. induction j as [|j IH]; [reflexivity|]. cbn [repeat filter nz N.eqb negb]. exact IH. Qed.

Lemma fin_potential c acts evs :
  Fin tb opts toks c -> ll_finish c = Accepted acts evs ->
  length acts = length (c_acts c) /\ nPE (c_stack c) = 0 /\ remaining (c_stream c) = 0.
Proof.
  intros (t & Hst & _ & _ & _ & Hcl) H. unfold ll_finish in H.
  destruct (c_errs c) eqn:He; [|discriminate].
  destruct (all_input_consumed (c_stream c)) eqn:Ha; [|discriminate].
  inversion H; subst acts evs; clear H.
  destruct (Hcl eq_refl) as [_ (rem & j & Ec & [E Hj] & L)].
  split; [apply rev_length|]. split; [rewrite Hst; reflexivity|].
  unfold all_input_consumed in Ha. pose proof (stream_k_pos tb) as Hk.
  destruct (s_buf (c_stream c)) as [|x b] eqn:Eb; [cbn [length] in L; lia|].
  apply N.eqb_eq in Ha. unfold remaining. rewrite Eb, E.
  destruct rem as [|r rem]; [cbn [app]; rewrite filter_nz_repeat; reflexivity|].
  cbn [map app] in E. inversion E as [[Er _]]. exfalso. apply Hnz. rewrite <- Ec.
  apply in_or_app. right. left. congruence.
Qed.

Lemma loop_fuel fuel : forall c acts evs,
  Inv tb opts toks c \/ Fin tb opts toks c -> c_errs c = [] ->
  ll_loop orc tb opts fuel c = Accepted acts evs ->
  2 * length (c_acts c) + nPE (c_stack c) <= 2 * length acts + remaining (c_stream c) /\
  forall fuel', 2 * length acts + remaining (c_stream c) + 1 <= fuel' + 2 * length (c_acts c) + nPE (c_stack c) ->
                ll_loop orc tb opts fuel' c = Accepted acts evs.
Proof.
  induction fuel as [|fuel IH]; intros c acts evs HI He H; [discriminate|].
  cbn [ll_loop] in H. destruct HI as [HI|HF].
  - pose proof (Inv_not_accepted _ _ _ _ HI) as Hna. rewrite Hna in H.
    destruct (ll_step orc tb opts c) as [c'|c'|r] eqn:Es.
    + assert (He' : c_errs c' = []).
      { destruct (c_errs c') eqn:E; [reflexivity|]. exfalso.
        eapply errs_stuck_loop; [|exact H]. rewrite E. discriminate. }
      pose proof (clean_step_potential c c' HI He Es He') as Hpot.
      destruct (IH c' acts evs (step_inv orc tb opts toks Hok c c' HI Es) He' H) as [Hle Hall].
      split; [lia|]. intros fuel' Hf. destruct fuel' as [|f']; [lia|].
      cbn [ll_loop]. rewrite Hna, Es. apply Hall. lia.
    + exfalso. eapply finish_errs; [|exact H]. eapply (step_break orc tb opts Hok Hrec); exact Es.
    + subst r. apply step_return in Es. destruct Es.
  - pose proof HF as (t & Hst & _). rewrite Hst in H. cbn [input_accepted] in H.
    destruct (fin_potential c acts evs HF H) as (Ha & Hn & Hr). rewrite Ha, Hn, Hr.
    split; [lia|]. intros fuel' Hf. destruct fuel' as [|f']; [lia|].
    cbn [ll_loop]. rewrite Hst. cbn [input_accepted]. exact H.
Qed.

Lemma locate_length l : forall loc, length (locate l loc) = length l.
Proof. induction l as [|t l IH]; intros loc; cbn [locate length]; [reflexivity|]. rewrite IH. reflexivity. Qed.

Lemma run_located_fuel fuel fuel' acts evs :
  ll_run_located orc tb opts fuel (locate toks LOC_FIRST) LOC_END = Accepted acts evs ->
  length toks + 2 * length acts <= fuel' ->
  ll_run_located orc tb opts fuel' (locate toks LOC_FIRST) LOC_END = Accepted acts evs.
Proof.
  unfold ll_run_located. intros H Hf.
  set (s0 := init_stream tb (locate toks LOC_FIRST) LOC_END) in *.
  assert (Hrem0 : remaining s0 = length toks).
  { unfold s0, init_stream. rewrite remaining_ensure. unfold remaining. cbn [s_buf s_rest map app].
    rewrite locate_types. clear -Hnz. induction toks as [|t l IH]; [reflexivity|].
    cbn [filter]. assert (Ht : nz t = true).
    { unfold nz. apply negb_true_iff. apply N.eqb_neq. intros ->. apply Hnz. left. reflexivity. }
    rewrite Ht. cbn [length]. f_equal. apply IH. intros Hin. apply Hnz. right. exact Hin. }
  destruct (ll_init orc tb opts s0) as [c|c|r] eqn:Ei.
  - assert (HI : Inv tb opts toks c).
    { eapply init_inv; [exact Hok| |exact Ei]. apply init_stream_ok. }
    assert (Hc : c_errs c = [] -> c_acts c = [] /\ nPE (c_stack c) = 1 /\ remaining (c_stream c) = length toks).
    { intros He. unfold ll_init in Ei.
      destruct (dfa_at tb (tb_start tb)) as [d|]; [|discriminate].
      destruct (predict tb d s0) as [[q| |e] s1] eqn:Ep; [| discriminate |].
      - apply push_production_shape in Ei as (_ & Ea & Es & En).
        cbn [set_stream c_acts c_stream c_stack] in Ea, Es, En.
        rewrite Ea, Es, En, (remaining_predict _ _ _ _ Ep). auto.
      - destruct (handle_prediction_error orc tb opts _ _ d) as [q c1|r' n c1|site] eqn:Eh; try discriminate.
        apply hpe_ok in Eh as (E1 & _). apply push_production_shape in Ei as (E & _). congruence. }
    assert (He : c_errs c = []).
    { destruct (c_errs c) eqn:E; [reflexivity|]. exfalso.
      eapply errs_stuck_loop; [|exact H]. rewrite E. discriminate. }
    destruct (Hc He) as (Ea & En & Er).
    destruct (loop_fuel fuel c acts evs (or_introl HI) He H) as [_ Hall].
    apply Hall. rewrite Ea, En, Er. cbn [length]. lia.
  - exfalso. eapply init_not_break; exact Ei.
  - exact H.
Qed.

End Fuel.

(** For an accepted run, [length toks + 2 * length acts] fuel is enough. *)
Theorem ll_fuel_any_oracle : forall orc fuel fuel' tb opts toks acts evs,
  tables_ok tb = true -> ll_run_with orc fuel tb opts toks = Accepted acts evs ->
  length toks + 2 * length acts <= fuel' ->
  ll_run_with orc fuel' tb opts toks = Accepted acts evs.
Proof.
  intros orc fuel fuel' tb opts toks acts evs Hok H Hf. apply tables_ok_split in Hok as [H1 H2].
  unfold ll_run_with in *. destruct (forallb significant toks) eqn:Hs; [|discriminate].
  eapply run_located_fuel; try eassumption; [right; exact H2|apply significant_nonzero; exact Hs].
Qed.

Theorem ll_fuel : forall fuel fuel' tb opts toks acts evs,
  tables_ok tb = true -> ll_run fuel tb opts toks = Accepted acts evs ->
  length toks + 2 * length acts <= fuel' ->
  ll_run fuel' tb opts toks = Accepted acts evs.
Proof. intros fuel fuel' tb opts toks acts evs. apply ll_fuel_any_oracle. Qed.

(** ** Completeness *)

(** [lsf g w alpha]: the start symbol derives [w alpha] by a leftmost derivation in which
    exactly the terminals [w] have been matched. *)
Inductive lsf (g : cfg) : list N -> list sym -> Prop :=
| lsf_start : lsf g [] [NT (start g)]
| lsf_T w t al : lsf g w (T t :: al) -> lsf g (w ++ [t]) al
| lsf_NT w a al p : lsf g w (NT a :: al) -> In p (prods g) -> lhs p = a -> lsf g w (rhs p ++ al).

(** Exactness of the lookahead automata, as far as completeness needs it: in every
    left-sentential context [w . A beta], if production [pr] of [A] continues a derivation of the
    remaining input [rem], then the automaton of [A] predicts (a number of) that production on the
    look-ahead buffer [rem] padded with end-of-input tokens.  (Strong-LL(k) exactness, "the
    automaton answers p on every string of FIRST_k(rhs p) . FOLLOW_k(lhs p)", implies it.) *)
Definition la_exact (tb : ll_tables) : Prop :=
  forall w a beta d p pr rem,
    lsf (grammar_of tb) w (NT a :: beta) ->
    dfa_at tb a = Some d -> prod_at tb p = Some pr -> p_lhs pr = a ->
    derives (grammar_of tb) (rev (p_rev pr) ++ beta) rem -> ~ In 0%N rem ->
    exists q prq,
      eval d (firstn (stream_k tb) (rem ++ repeat 0%N (stream_k tb))) = Predict (Z.of_N q) /\
      prod_at tb q = Some prq /\ cfg_prod prq = cfg_prod pr.

Section Complete.
Variable orc : oracle.
Variable tb : ll_tables.
Variable opts : options.
Variable toks : list N.
Hypothesis Hok : tables_ok_basic tb = true.
Hypothesis Hmax : o_max_depth opts = None.
Hypothesis Hla : la_exact tb.

Let g := grammar_of tb.

Definition stream_at (s : stream) (rem : list N) : Prop :=
  exists j, stream_rel s rem j /\ length (s_buf s) = stream_k tb.

Lemma stream_at_head s t rem : stream_at s (t :: rem) -> exists l b, s_buf s = (t, l) :: b.
Proof.
  intros (j & [E _] & L). pose proof (stream_k_pos tb) as Hk.
  destruct (s_buf s) as [|[t' l] b]; [cbn [length] in L; lia|].
  cbn [map fst app] in E. inversion E; subst. eauto.
Qed.

Lemma stream_at_consume s t l b rem :
  stream_at s (t :: rem) -> s_buf s = (t, l) :: b -> stream_at (ensure tb (set_buf s b)) rem.
Proof.
  intros (j & [E Hj] & L) Eb. rewrite Eb in E. cbn [map fst app] in E. inversion E as [E'].
  assert (Hrel : stream_rel (set_buf s b) rem j) by (split; [exact E'|exact Hj]).
  destruct (ensure_rel tb _ _ _ Hrel) as (j' & Hrel' & L').
  { cbn [set_buf s_buf]. rewrite Eb in L. cbn [length] in L. lia. }
  exists j'. split; assumption.
Qed.

Lemma firstn_repeat {A} (x : A) : forall n m, firstn n (repeat x m) = repeat x (Nat.min n m).
Proof.
  induction n as [|n IH]; intros m; [reflexivity|]. destruct m as [|m]; [reflexivity|].
  cbn [repeat firstn Nat.min]. rewrite IH. reflexivity.
Qed.

Lemma stream_at_buf s rem : stream_at s rem ->
  map fst (s_buf s) = firstn (stream_k tb) (rem ++ repeat 0%N (stream_k tb)).
Proof.
  intros (j & [E Hj] & L). set (k := stream_k tb) in *.
  assert (Lm : length (map fst (s_buf s)) = k) by (rewrite map_length; exact L).
  destruct (s_rest s) as [|x rest] eqn:Er.
  - cbn [map] in E. rewrite app_nil_r in E. rewrite E in Lm. rewrite app_length, repeat_length in Lm.
    rewrite E. rewrite firstn_app, firstn_repeat.
    rewrite (firstn_all2 (n := k) rem) by lia.
    f_equal. f_equal. lia.
  - rewrite Hj in E by discriminate. cbn [repeat] in E. rewrite app_nil_r in E. rewrite <- E.
    rewrite <- app_assoc. rewrite firstn_app. rewrite Lm, Nat.sub_diag. cbn [firstn].
    rewrite app_nil_r. rewrite <- Lm. symmetry. apply firstn_all.
Qed.

Lemma stream_at_ensure s rem : stream_at s rem -> ensure tb s = s.
Proof. intros (j & _ & L). apply ensure_id. lia. Qed.

Lemma eval_depth0 d b1 b2 : depth d = 0 -> eval d b1 = eval d b2.
Proof. intros H. unfold eval. rewrite H. reflexivity. Qed.

Lemma predict_exact a d s rem q :
  dfa_ok tb a d = true -> stream_at s rem ->
  eval d (firstn (stream_k tb) (rem ++ repeat 0%N (stream_k tb))) = Predict (Z.of_N q) ->
  predict tb d s = (POk q, s).
Proof.
  intros Hd Hs He. unfold predict.
  assert (Hk : depth d <= stream_k tb).
  { unfold dfa_ok in Hd. repeat (apply andb_prop in Hd as [Hd ?]).
    match goal with Hx : (depth d <=? _) = true |- _ => apply Nat.leb_le in Hx; exact Hx end. }
  destruct (Nat.ltb_spec (stream_k tb) (depth d)) as [L|L]; [lia|].
  assert (Hc : conv_eval (Predict (Z.of_N q)) = POk q).
  { cbn [conv_eval]. unfold valid, INVALID_PROD.
    destruct (Z.ltb_spec (-1) (Z.of_N q)) as [_|Hlt]; [rewrite N2Z.id; reflexivity|lia]. }
  destruct (depth d) as [|k] eqn:Ed.
  - rewrite (eval_depth0 d [] (firstn (stream_k tb) (rem ++ repeat 0%N (stream_k tb))) Ed), He, Hc. reflexivity.
  - rewrite (stream_at_ensure _ _ Hs), (stream_at_buf _ _ Hs), He, Hc. reflexivity.
Qed.

(** Grammar symbols still on the parser stack. *)
Definition flat (st : list pitem) : list sym :=
  flat_map (fun i => match i with PT t => [T t] | PN a => [NT a] | PE _ => [] end) st.

Lemma flat_items al st : flat (map item_of al ++ st) = al ++ flat st.
Proof.
  induction al as [|[t|a] al IH]; cbn [map item_of app flat flat_map]; [reflexivity| |];
    fold (flat (map item_of al ++ st)); rewrite IH; reflexivity.
Qed.

Lemma marker_not_accepted st p : In (PE p) st -> input_accepted st = false.
Proof.
  destruct st as [|[t|a|q] st]; cbn [input_accepted]; intros H; [destruct H| | |]; try reflexivity.
  destruct H as [H|H]; [discriminate|]. destruct t; [|reflexivity]. destruct st; [destruct H|reflexivity].
Qed.

Lemma Inv_top st c : Inv tb opts toks c -> c_stack c = st ->
  match st with
  | PN a :: _ => exists d, dfa_at tb a = Some d
  | PE p :: st' =>
      exists c', ll_step orc tb opts c = Continue c' /\ c_stack c' = st' /\
                 c_errs c' = c_errs c /\ c_stream c' = c_stream c
  | _ => True
  end.
Proof.
  intros (fs & Hne & Hw & Hst & Hpts & Hev & Hd & Hcl) Est.
  destruct fs as [|f outer]; [congruence|]. clear Hne.
  cbn [fwf hole_syms app] in Hw. destruct Hw as (Hp & Hr & Hdone & Hw).
  cbn [stack_of] in Hst. cbn [pts_of] in Hpts. cbn [depth_of] in Hd.
  destruct f as [p pr done pending]. cbn [f_p f_pr f_done f_pending] in *.
  rewrite Hst in Est. subst st.
  destruct pending as [|[t|a] pend]; cbn [map item_of app].
  - unfold ll_step. rewrite Hst. cbn [map app]. unfold end_production. rewrite Hp, Hd.
    rewrite app_nil_r in Hr.
    assert (Hlen : length (p_rev pr) = length (rev (map root_sym done))).
    { rewrite <- (rev_length (p_rev pr)), Hr, rev_length. reflexivity. }
    rewrite Hpts, Hlen, split_rev_spec.
    destruct (p_push pr); [eexists; split; [reflexivity|cbn; auto]|].
    destruct (N.eqb_spec (1 + depth_of outer) 0) as [E|E]; [lia|].
    eexists; split; [reflexivity|cbn; auto].
  - exact I.
  - assert (Hso : sym_ok tb (NT a) = true).
    { eapply (pending_sym_ok tb Hok p pr (map root_sym done) [] pend (NT a) Hp). exact Hr. }
    cbn [sym_ok] in Hso. apply andb_prop in Hso as [Ha1 _]. apply Nat.ltb_lt in Ha1.
    unfold dfa_at. destruct (nth_error (tb_automata tb) (N.to_nat a)) as [d|] eqn:E; [eauto|].
    apply nth_error_None in E. lia.
Qed.

Lemma step_inv_nonempty c c' : Inv tb opts toks c -> ll_step orc tb opts c = Continue c' ->
  c_stack c' <> [] -> Inv tb opts toks c'.
Proof.
  intros HI Hs Hne. destruct (step_inv orc tb opts toks Hok c c' HI Hs) as [H|(t & Hst & _)]; [exact H|congruence].
Qed.

Lemma prod_of_grammar p : In p (prods g) -> exists q pr, prod_at tb q = Some pr /\ cfg_prod pr = p.
Proof.
  unfold g, grammar_of. cbn [prods]. intros H. apply in_map_iff in H as (pr & E & Hin).
  apply In_nth_error in Hin as (n & Hn). exists (N.of_nat n), pr. unfold prod_at.
  rewrite Nat2N.id. auto.
Qed.

(** The parser follows any derivation of the remaining input from the stack. *)
Lemma run_derivation al u : derives g al u ->
  forall c st' w v pm,
    Inv tb opts toks c -> c_errs c = [] -> c_stack c = map item_of al ++ st' -> In (PE pm) st' ->
    stream_at (c_stream c) (u ++ v) -> ~ In 0%N (u ++ v) ->
    lsf g w (al ++ flat st') -> derives g (flat st') v ->
    exists n c',
      (forall fuel, ll_loop orc tb opts (n + fuel) c = ll_loop orc tb opts fuel c') /\
      Inv tb opts toks c' /\ c_errs c' = [] /\ c_stack c' = st' /\
      stream_at (c_stream c') v /\ lsf g (w ++ u) (flat st').
Proof.
  induction 1 as [|t al u Hd IH|a p al u1 v1 Hin Hl Hd1 IH1 Hd2 IH2];
    intros c st' w v pm HI He Hst Hpm Hs Hnz Hlsf Hdv.
  - exists 0, c. cbn [map app] in Hst. rewrite app_nil_r. repeat split; auto.
  - (* a terminal *)
    cbn [map item_of app] in Hst, Hs, Hnz, Hlsf.
    destruct (stream_at_head _ _ _ Hs) as (l & b & Eb).
    assert (Hstep : ll_step orc tb opts c =
                    Continue (mkConfig (map item_of al ++ st') (ensure tb (set_buf (c_stream c) b))
                                (T t :: c_pts c) (c_acts c)
                                (if o_trim opts then c_evs c else Tok t :: c_evs c) (c_errs c) (c_depth c))).
    { unfold ll_step. rewrite Hst. rewrite (stream_at_ensure _ _ Hs), Eb. cbn [fst].
      rewrite N.eqb_refl. unfold consume. rewrite (stream_at_ensure _ _ Hs), Eb. reflexivity. }
    match type of Hstep with _ = Continue ?x => set (c1 := x) in * end.
    assert (HI1 : Inv tb opts toks c1).
    { eapply step_inv_nonempty; [exact HI|exact Hstep|]. cbn [c1 c_stack].
      intros E. apply app_eq_nil in E as [_ E]. subst st'. destruct Hpm. }
    destruct (IH c1 st' (w ++ [t]) v pm HI1 He eq_refl Hpm) as (n & c' & Hloop & HI' & He' & Hst' & Hs' & Hlsf').
    + cbn [c1 c_stream]. eapply stream_at_consume; eassumption.
    + intros Hin. apply Hnz. right. exact Hin.
    + apply lsf_T. exact Hlsf.
    + exact Hdv.
    + exists (S n), c'. split.
      * intros fuel. cbn [Nat.add ll_loop]. rewrite Hst. cbn [input_accepted].
        replace (match t with 0%N => match map item_of al ++ st' with [] => true | _ :: _ => false end
                            | N.pos _ => false end) with false.
        -- rewrite Hstep. apply Hloop.
        -- destruct t; [|reflexivity]. destruct (map item_of al ++ st') eqn:E; [|reflexivity].
           apply app_eq_nil in E as [_ E]. subst st'. destruct Hpm.
      * rewrite <- app_assoc in Hlsf'. auto.
  - (* a non-terminal *)
    cbn [map item_of app] in Hst, Hlsf. rewrite <- app_assoc in Hs, Hnz.
    destruct (Inv_top _ c HI Hst) as (d & Ed).
    pose proof (dfa_at_ok tb Hok _ _ Ed) as Hdok.
    destruct (prod_of_grammar p Hin) as (q0 & pr0 & Hq0 & Epr0).
    assert (Hl0 : p_lhs pr0 = a) by (rewrite <- Hl, <- Epr0; reflexivity).
    assert (Hr0 : rev (p_rev pr0) = rhs p) by (rewrite <- Epr0; reflexivity).
    destruct (Hla w a (al ++ flat st') d q0 pr0 (u1 ++ v1 ++ v) Hlsf Ed Hq0 Hl0) as (q & prq & Hev & Hq & Eprq).
    { rewrite Hr0. apply derives_app; [exact Hd1|]. apply derives_app; assumption. }
    { exact Hnz. }
    assert (Hrq : rev (p_rev prq) = rhs p) by (rewrite <- Hr0; inversion Eprq; reflexivity).
    assert (Hlq : p_lhs prq = a) by (rewrite <- Hl0; inversion Eprq; reflexivity).
    pose proof (predict_exact a d (c_stream c) _ q Hdok Hs Hev) as Hpred.
    pose proof (prod_at_ok tb Hok _ _ Hq) as Hpo. unfold production_ok in Hpo.
    apply andb_prop in Hpo as [Hpo _]. apply andb_prop in Hpo as [_ Hnn].
    set (st1 := PE q :: map item_of al ++ st').
    assert (Hstep : exists c1, ll_step orc tb opts c = Continue c1 /\
                      c_stack c1 = map item_of (rhs p) ++ st1 /\ c_errs c1 = [] /\
                      c_stream c1 = c_stream c).
    { unfold ll_step. rewrite Hst, Ed, Hpred. unfold push_production. rewrite Hq, Hnn, Hmax. cbn [negb].
      eexists. split; [reflexivity|]. cbn [c_stack c_errs c_stream set_stack set_stream].
      rewrite push_items_spec, <- map_rev, Hrq. auto. }
    destruct Hstep as (c1 & Hstep & Hst1 & He1 & Hs1).
    assert (HI1 : Inv tb opts toks c1).
    { eapply step_inv_nonempty; [exact HI|exact Hstep|]. rewrite Hst1. unfold st1.
      intros E. apply app_eq_nil in E as [_ E]. discriminate. }
    destruct (IH1 c1 st1 w (v1 ++ v) q HI1 He1 Hst1) as (n1 & c2 & Hloop1 & HI2 & He2 & Hst2 & Hs2 & Hlsf2).
    + left. reflexivity.
    + rewrite Hs1. exact Hs.
    + exact Hnz.
    + unfold st1. cbn [flat flat_map app]. fold (flat (map item_of al ++ st')). rewrite flat_items.
      eapply lsf_NT; eassumption.
    + unfold st1. cbn [flat flat_map app]. fold (flat (map item_of al ++ st')). rewrite flat_items.
      apply derives_app; assumption.
    + (* the end-of-production marker *)
      destruct (Inv_top _ c2 HI2 Hst2) as (c3 & Hstep3 & Hst3 & He3 & Hs3).
      assert (HI3 : Inv tb opts toks c3).
      { eapply step_inv_nonempty; [exact HI2|exact Hstep3|]. rewrite Hst3.
        intros E. apply app_eq_nil in E as [_ E]. subst st'. destruct Hpm. }
      destruct (IH2 c3 st' (w ++ u1) v pm HI3) as (n2 & c' & Hloop2 & HI' & He' & Hst' & Hs' & Hlsf').
      * rewrite He3. exact He2.
      * exact Hst3.
      * exact Hpm.
      * rewrite Hs3. exact Hs2.
      * intros Hi. apply Hnz. apply in_or_app. right. exact Hi.
      * unfold st1 in Hlsf2. cbn [flat flat_map app] in Hlsf2.
        fold (flat (map item_of al ++ st')) in Hlsf2. rewrite flat_items in Hlsf2. exact Hlsf2.
      * exact Hdv.
      * exists (S (n1 + S n2)), c'. split.
        -- intros fuel. cbn [Nat.add ll_loop]. rewrite Hst. cbn [input_accepted]. rewrite Hstep.
           rewrite <- Nat.add_assoc. rewrite Hloop1. cbn [Nat.add ll_loop].
           rewrite Hst2. cbn [input_accepted]. rewrite Hstep3. apply Hloop2.
        -- rewrite <- app_assoc in Hlsf'. auto.
Qed.

Lemma stream_at_nil_consumed s : stream_at s [] -> all_input_consumed s = true.
Proof.
  intros Hs. pose proof (stream_at_buf _ _ Hs) as Hb. cbn [app] in Hb.
  rewrite firstn_repeat, Nat.min_id in Hb. unfold all_input_consumed.
  destruct (s_buf s) as [|x b]; [reflexivity|].
  pose proof (stream_k_pos tb) as Hk. destruct (stream_k tb) as [|k]; [lia|].
  cbn [map repeat] in Hb. injection Hb as Hx _. rewrite Hx. reflexivity.
Qed.

Theorem run_with_complete :
  forallb significant toks = true -> lang g toks ->
  exists fuel acts evs, ll_run_with orc fuel tb opts toks = Accepted acts evs.
Proof.
  intros Hsig Hlang. unfold ll_run_with. rewrite Hsig. unfold ll_run_located.
  pose proof (significant_nonzero _ Hsig) as Hnz.
  set (s0 := init_stream tb (locate toks LOC_FIRST) LOC_END).
  pose proof (init_stream_ok tb toks LOC_END) as Hs0. fold s0 in Hs0.
  assert (Hat0 : stream_at s0 toks).
  { destruct Hs0 as (rem & j & E & Hr & L). cbn [app] in E. subst rem. exists j. auto. }
  unfold lang in Hlang. apply derives_single in Hlang as (p & Hin & Hl & Hd).
  destruct (prod_of_grammar p Hin) as (q0 & pr0 & Hq0 & Epr0).
  assert (Hl0 : p_lhs pr0 = tb_start tb) by (rewrite <- Epr0 in Hl; exact Hl).
  assert (Hr0 : rev (p_rev pr0) = rhs p) by (rewrite <- Epr0; reflexivity).
  destruct (ok_start tb Hok) as (d & Ed).
  pose proof (dfa_at_ok tb Hok _ _ Ed) as Hdok.
  destruct (Hla [] (tb_start tb) [] d q0 pr0 toks (lsf_start g) Ed Hq0 Hl0) as (q & prq & Hev & Hq & Eprq).
  { rewrite Hr0, app_nil_r. exact Hd. }
  { exact Hnz. }
  assert (Hrq : rev (p_rev prq) = rhs p) by (rewrite <- Hr0; inversion Eprq; reflexivity).
  assert (Hlq : p_lhs prq = tb_start tb) by (rewrite <- Hl0; inversion Eprq; reflexivity).
  pose proof (predict_exact _ d s0 _ q Hdok Hat0 Hev) as Hpred.
  pose proof (prod_at_ok tb Hok _ _ Hq) as Hpo. unfold production_ok in Hpo.
  apply andb_prop in Hpo as [Hpo _]. apply andb_prop in Hpo as [_ Hnn].
  assert (Hinit : exists c1, ll_init orc tb opts s0 = Continue c1 /\
                    c_stack c1 = map item_of (rhs p) ++ [PE q] /\ c_errs c1 = [] /\ c_stream c1 = s0).
  { unfold ll_init. rewrite Ed, Hpred. unfold push_production. rewrite Hq, Hnn, Hmax. cbn [negb].
    eexists. split; [reflexivity|]. cbn [c_stack c_errs c_stream set_stream].
    rewrite push_items_spec, <- map_rev, Hrq. auto. }
  destruct Hinit as (c1 & Hinit & Hst1 & He1 & Hs1). rewrite Hinit.
  assert (HI1 : Inv tb opts toks c1) by (eapply init_inv; [exact Hok|exact Hs0|exact Hinit]).
  destruct (run_derivation (rhs p) toks Hd c1 [PE q] [] [] q HI1 He1 Hst1) as (n & c2 & Hloop & HI2 & He2 & Hst2 & Hs2 & _).
  - left. reflexivity.
  - rewrite Hs1, app_nil_r. exact Hat0.
  - rewrite app_nil_r. exact Hnz.
  - cbn [flat flat_map app]. eapply lsf_NT; [apply lsf_start|exact Hin|exact Hl].
  - constructor.
  - destruct (Inv_top _ c2 HI2 Hst2) as (c3 & Hstep3 & Hst3 & He3 & Hs3).
    exists (n + 2). eexists. eexists. rewrite Hloop. cbn [ll_loop]. rewrite Hst2. cbn [input_accepted].
    rewrite Hstep3, Hst3. cbn [input_accepted]. unfold ll_finish. rewrite He3, He2.
    rewrite Hs3, (stream_at_nil_consumed _ Hs2). reflexivity.
Qed.

End Complete.

(** C01, completeness half: every sentence is accepted (no maximal depth set), with recovery on
    or off, for every oracle. *)
Theorem ll_complete_any_oracle : forall orc tb opts toks,
  tables_ok tb = true -> la_exact tb -> o_max_depth opts = None ->
  forallb significant toks = true ->
  lang (grammar_of tb) toks ->
  exists fuel acts evs, ll_run_with orc fuel tb opts toks = Accepted acts evs.
Proof.
  intros orc tb opts toks Hok Hla Hmax Hsig Hlang. apply tables_ok_split in Hok as [H1 _].
  eapply run_with_complete; eassumption.
Qed.

Theorem ll_complete : forall tb opts toks,
  tables_ok tb = true -> la_exact tb -> o_max_depth opts = None ->
  forallb significant toks = true ->
  lang (grammar_of tb) toks ->
  exists fuel acts evs, ll_run fuel tb opts toks = Accepted acts evs.
Proof. intros tb opts toks. apply ll_complete_any_oracle. Qed.

(** The hypotheses of [ll_complete] are satisfiable: the automaton of the example grammar
    S -> a S b | c is exact. *)
Example ex_la_exact : la_exact ex_tables.
Proof.
  intros w a beta d p pr rem _ Hd Hp Hl Hder _.
  unfold prod_at in Hp. cbn [ex_tables tb_prods] in Hp.
  destruct (N.to_nat p) as [|[|n]] eqn:En; cbn [nth_error] in Hp.
  - inversion Hp; subst pr. cbn [p_lhs] in Hl. subst a.
    unfold dfa_at in Hd. cbn in Hd. inversion Hd; subst d.
    cbn [p_rev rev app] in Hder. inversion Hder as [|t al w0 Hd'|]; subst.
    exists 0%N. eexists. split; [|split; [reflexivity|reflexivity]].
    change (stream_k ex_tables) with 1. cbn [app firstn]. vm_compute. reflexivity.
  - inversion Hp; subst pr. cbn [p_lhs] in Hl. subst a.
    unfold dfa_at in Hd. cbn in Hd. inversion Hd; subst d.
    cbn [p_rev rev app] in Hder. inversion Hder as [|t al w0 Hd'|]; subst.
    exists 1%N. eexists. split; [|split; [reflexivity|reflexivity]].
    change (stream_k ex_tables) with 1. cbn [app firstn]. vm_compute. reflexivity.
  - destruct n; discriminate.
Qed.

Example ex_complete_instance :
  exists fuel acts evs, ll_run fuel ex_tables ex_opts_rec [5; 5; 7; 6; 6]%N = Accepted acts evs.
Proof.
  apply ll_complete; [vm_compute; reflexivity|exact ex_la_exact|reflexivity|reflexivity|].
  unfold lang. cbn.
  assert (P0 : In (mkProd 0 [T 5; NT 0; T 6]) (prods (grammar_of ex_tables))) by (cbn; auto).
  assert (P1 : In (mkProd 0 [T 7]) (prods (grammar_of ex_tables))) by (cbn; auto).
  assert (D1 : derives (grammar_of ex_tables) [NT 0] [7%N]).
  { apply derives_single. exists (mkProd 0 [T 7]). repeat split; auto. repeat constructor. }
  assert (D2 : derives (grammar_of ex_tables) [NT 0] [5; 7; 6]%N).
  { apply derives_single. exists (mkProd 0 [T 5; NT 0; T 6]). repeat split; auto. cbn [rhs].
    constructor. apply (derives_app _ [NT 0%N] [7%N] D1 [T 6%N] [6%N]). repeat constructor. }
  apply derives_single. exists (mkProd 0 [T 5; NT 0; T 6]). repeat split; auto. cbn [rhs].
  constructor. apply (derives_app _ [NT 0%N] [5; 7; 6]%N D2 [T 6%N] [6%N]). repeat constructor.
Qed.

(** Fuel: an accepted run makes one loop iteration per token, two per production application
    except the first push, plus the final test: [length toks + 2 * length acts] suffices
    ([ll_fuel]) and one less does not. *)
Example ex_fuel_exact :
  ll_run (5 + 2 * 3) ex_tables ex_opts [5; 5; 7; 6; 6]%N <> OutOfFuel /\
  ll_run (5 + 2 * 3 - 1) ex_tables ex_opts [5; 5; 7; 6; 6]%N = OutOfFuel.
Proof. split; vm_compute; [discriminate|reflexivity]. Qed.

(** ** The transcribed recovery functions satisfy [oracle_ok] *)
From Parol Require Import Runtime.Levenshtein Runtime.LevFaithful.

Lemma memN_spec x l : memN x l = true <-> In x l.
Proof.
  unfold memN. rewrite existsb_exists. split.
  - intros (y & Hy & E). apply N.eqb_eq in E. subst. exact Hy.
  - intros H. exists x. split; [exact H|apply N.eqb_refl].
Qed.

Lemma skipn_cons_tail {A} (l : list A) : forall n a l', skipn n l = a :: l' -> skipn (S n) l = l'.
Proof.
  induction l as [|x l IH]; intros n a l' H; [destruct n; discriminate|].
  destruct n as [|n]; cbn [skipn] in *; [inversion H; reflexivity|].
  apply IH in H. destruct l; exact H.
Qed.

Lemma skipn_cons_nth {A} (l : list A) : forall n a l', skipn n l = a :: l' -> nth_error l n = Some a.
Proof.
  induction l as [|x l IH]; intros n a l' H; [destruct n; discriminate|].
  destruct n as [|n]; cbn [skipn nth_error] in *; [inversion H; reflexivity|]. eapply IH; exact H.
Qed.

Section AdjustOk.
Variable tb : ll_tables.
Let nm (t : N) : Prop := (t < tb_nterms tb)%N.

Lemma replace_at_ok ty : nm ty -> forall buf idx b, named tb buf -> replace_at buf idx ty = Some b ->
  named tb b /\ skipn (S idx) (map fst b) = skipn (S idx) (map fst buf).
Proof.
  intros Hty. induction buf as [|x buf IH]; intros idx b Hb H; [destruct idx; discriminate|].
  inversion Hb as [|? ? Hx Hb']; subst.
  destruct idx as [|idx]; cbn [replace_at] in H.
  - destruct (fst x =? 0)%N; [discriminate|]. inversion H; subst b. split; [constructor; assumption|reflexivity].
  - destruct (replace_at buf idx ty) as [b'|] eqn:E; [|discriminate]. inversion H; subst b.
    destruct (IH idx b' Hb' E) as [H1 H2]. split; [constructor; assumption|].
    cbn [map]. change (skipn (S (S idx)) (fst x :: map fst b')) with (skipn (S idx) (map fst b')).
    rewrite H2. reflexivity.
Qed.

Lemma insert_at_ok ty : nm ty -> forall buf idx b, named tb buf -> insert_at buf idx ty = Some b ->
  named tb b /\ skipn (S idx) (map fst b) = skipn idx (map fst buf).
Proof.
  intros Hty. induction buf as [|x buf IH]; intros idx b Hb H.
  - destruct idx; cbn [insert_at] in H; [|discriminate]. inversion H; subst b.
    split; [constructor; [exact Hty|constructor]|reflexivity].
  - inversion Hb as [|? ? Hx Hb']; subst. destruct idx as [|idx]; cbn [insert_at] in H.
    + inversion H; subst b. split; [constructor; assumption|reflexivity].
    + destruct (insert_at buf idx ty) as [b'|] eqn:E; [|discriminate]. inversion H; subst b.
      destruct (IH idx b' Hb' E) as [H1 H2]. split; [constructor; assumption|].
      cbn [map]. change (skipn (S (S idx)) (fst x :: map fst b')) with (skipn (S idx) (map fst b')).
      rewrite H2. reflexivity.
Qed.

Lemma remove_at_ok : forall buf idx b, named tb buf -> remove_at buf idx = Some b ->
  named tb b /\ skipn idx (map fst b) = skipn (S idx) (map fst buf).
Proof.
  induction buf as [|x buf IH]; intros idx b Hb H; [destruct idx; discriminate|].
  inversion Hb as [|? ? Hx Hb']; subst. destruct idx as [|idx]; cbn [remove_at] in H.
  - inversion H; subst b. split; [exact Hb'|reflexivity].
  - destruct (remove_at buf idx) as [b'|] eqn:E; [|discriminate]. inversion H; subst b.
    destruct (IH idx b' Hb' E) as [H1 H2]. split; [constructor; assumption|].
    cbn [map]. change (skipn (S idx) (fst x :: map fst b')) with (skipn idx (map fst b')).
    rewrite H2. reflexivity.
Qed.

Lemma adjust_ops_ok exp : Forall nm exp -> forall ops buf idx eidx,
  named tb buf -> script_ok ops (skipn idx (map fst buf)) (skipn eidx exp) = true ->
  adjust_ops ops buf idx exp eidx <> AdjPanic /\
  forall b, adjust_ops ops buf idx exp eidx = AdjOk b -> named tb b.
Proof.
  intros Hexp. induction ops as [|o ops IH]; intros buf idx eidx Hb Hs.
  - cbn [adjust_ops]. split; [discriminate|]. intros b H. inversion H; subst. exact Hb.
  - destruct o; cbn [script_ok adjust_ops] in *.
    + (* Keep *)
      destruct (skipn idx (map fst buf)) as [|a act] eqn:Ea; [discriminate|].
      destruct (skipn eidx exp) as [|e ex] eqn:Ee; [discriminate|].
      apply andb_prop in Hs as [_ Hs]. apply IH; [exact Hb|].
      rewrite (skipn_cons_tail _ _ _ _ Ea), (skipn_cons_tail _ _ _ _ Ee). exact Hs.
    + (* Insert *)
      destruct (skipn eidx exp) as [|e ex] eqn:Ee; [discriminate|].
      rewrite (skipn_cons_nth _ _ _ _ Ee).
      assert (He : nm e).
      { rewrite Forall_forall in Hexp. apply Hexp. eapply nth_error_In. eapply skipn_cons_nth. exact Ee. }
      destruct (insert_at buf idx e) as [b'|] eqn:Ei; [|split; [discriminate|intros b H; discriminate]].
      destruct (insert_at_ok e He _ _ _ Hb Ei) as [H1 H2]. apply IH; [exact H1|].
      rewrite H2, (skipn_cons_tail _ _ _ _ Ee). exact Hs.
    + (* Delete *)
      destruct (skipn idx (map fst buf)) as [|a act] eqn:Ea; [discriminate|].
      destruct (remove_at buf idx) as [b'|] eqn:Ei; [|split; [discriminate|intros b H; discriminate]].
      destruct (remove_at_ok _ _ _ Hb Ei) as [H1 H2]. apply IH; [exact H1|].
      rewrite H2, (skipn_cons_tail _ _ _ _ Ea). exact Hs.
    + (* Replace *)
      destruct (skipn idx (map fst buf)) as [|a act] eqn:Ea; [discriminate|].
      destruct (skipn eidx exp) as [|e ex] eqn:Ee; [discriminate|].
      rewrite (skipn_cons_nth _ _ _ _ Ee).
      assert (He : nm e).
      { rewrite Forall_forall in Hexp. apply Hexp. eapply nth_error_In. eapply skipn_cons_nth. exact Ee. }
      destruct (replace_at buf idx e) as [b'|] eqn:Ei; [|split; [discriminate|intros b H; discriminate]].
      destruct (replace_at_ok e He _ _ _ Hb Ei) as [H1 H2]. apply IH; [exact H1|].
      rewrite H2, (skipn_cons_tail _ _ _ _ Ea), (skipn_cons_tail _ _ _ _ Ee). exact Hs.
Qed.

Lemma faithful_adjust_ok buf exp : named tb buf -> Forall nm exp ->
  faithful_adjust buf exp <> AdjPanic /\ forall b, faithful_adjust buf exp = AdjOk b -> named tb b.
Proof.
  intros Hb He. unfold faithful_adjust.
  destruct (lev_opt_spec (map fst buf) exp) as (ops & E & Hs & _). rewrite E.
  apply adjust_ops_ok; assumption.
Qed.

End AdjustOk.

Section ExpectedOk.
Variable ts : list trans.

Definition gstep (a b : N) : Prop := exists t, In t ts /\ t_from t = a /\ t_to t = b.

Inductive gwalk : N -> list N -> Prop :=
| gwalk_nil a : gwalk a []
| gwalk_cons a b p : gstep a b -> gwalk b p -> gwalk a (b :: p).

Lemma successors_fold a : forall l acc b,
  In b (fold_left (fun acc t => if N.eqb (t_from t) a && negb (memN (t_to t) acc)
                                then acc ++ [t_to t] else acc) l acc)
  <-> In b acc \/ exists t, In t l /\ t_from t = a /\ t_to t = b.
Proof.
  induction l as [|t l IH]; intros acc b; cbn [fold_left].
  - split; [auto|]. intros [H|(t & [] & _)]. exact H.
  - rewrite IH. destruct (N.eqb_spec (t_from t) a) as [Ef|Ef]; cbn [andb].
    + destruct (memN (t_to t) acc) eqn:M; cbn [negb].
      * split.
        -- intros [H|(t' & Hin & H1 & H2)]; [auto|]. right. exists t'. split; [right; exact Hin|auto].
        -- intros [H|(t' & [->|Hin] & H1 & H2)]; [auto| |].
           ++ left. subst b. apply memN_spec. exact M.
           ++ right. exists t'. auto.
      * split.
        -- intros [H|(t' & Hin & H1 & H2)].
           ++ apply in_app_or in H as [H|[<-|[]]]; [auto|]. right. exists t. split; [left; reflexivity|auto].
           ++ right. exists t'. split; [right; exact Hin|auto].
        -- intros [H|(t' & [->|Hin] & H1 & H2)].
           ++ left. apply in_or_app. left. exact H.
           ++ left. apply in_or_app. right. left. exact H2.
           ++ right. exists t'. auto.
    + split.
      * intros [H|(t' & Hin & H1 & H2)]; [auto|]. right. exists t'. split; [right; exact Hin|auto].
      * intros [H|(t' & [->|Hin] & H1 & H2)]; [auto|congruence|]. right. exists t'. auto.
Qed.

Lemma successors_spec a b : In b (successors ts a) <-> gstep a b.
Proof.
  unfold successors. rewrite successors_fold. unfold gstep. split.
  - intros [[]|H]. exact H.
  - intros H. right. exact H.
Qed.

Definition ll_f (a b : N) (acc : option N) (t : trans) : option N :=
  if N.eqb (t_from t) a && N.eqb (t_to t) b then Some (t_tok t) else acc.

Lemma last_label_nomatch a b : forall l acc,
  existsb (fun t => N.eqb (t_from t) a && N.eqb (t_to t) b) l = false ->
  fold_left (ll_f a b) l acc = acc.
Proof.
  induction l as [|t l IH]; intros acc H; [reflexivity|].
  cbn [existsb] in H. apply orb_false_iff in H as [H1 H2].
  cbn [fold_left]. unfold ll_f at 2. rewrite H1. apply IH. exact H2.
Qed.

Lemma last_label_fold a b : forall l acc,
  existsb (fun t => N.eqb (t_from t) a && N.eqb (t_to t) b) l = true ->
  exists t, In t l /\ fold_left (ll_f a b) l acc = Some (t_tok t).
Proof.
  induction l as [|t l IH]; intros acc H; [discriminate|].
  cbn [fold_left]. destruct (existsb (fun t => N.eqb (t_from t) a && N.eqb (t_to t) b) l) eqn:El.
  - destruct (IH (ll_f a b acc t) eq_refl) as (t' & Hin & E). exists t'. split; [right; exact Hin|exact E].
  - cbn [existsb] in H. rewrite El, orb_false_r in H.
    rewrite (last_label_nomatch a b l _ El). unfold ll_f. rewrite H. exists t. split; [left; reflexivity|reflexivity].
Qed.

Lemma last_label_some a b : gstep a b ->
  exists t, In t ts /\ last_label ts a b = Some (t_tok t).
Proof.
  intros (t & Hin & H1 & H2). unfold last_label. apply (last_label_fold a b ts None).
  apply existsb_exists. exists t. split; [exact Hin|]. rewrite H1, H2, !N.eqb_refl. reflexivity.
Qed.

Lemma last_label_in a b lab : last_label ts a b = Some lab -> exists t, In t ts /\ t_tok t = lab.
Proof.
  unfold last_label. change (fun acc t => if N.eqb (t_from t) a && N.eqb (t_to t) b then Some (t_tok t) else acc)
    with (ll_f a b).
  destruct (existsb (fun t => N.eqb (t_from t) a && N.eqb (t_to t) b) ts) eqn:El.
  - destruct (last_label_fold a b ts None El) as (t & Hin & E). rewrite E. intros H. inversion H. eauto.
  - rewrite (last_label_nomatch a b ts None El). discriminate.
Qed.

Lemma last_default {A} (l : list A) d d' : l <> [] -> last l d = last l d'.
Proof.
  induction l as [|x l IH]; intros H; [congruence|]. destruct l as [|y l]; [reflexivity|].
  change (last (x :: y :: l) d) with (last (y :: l) d). change (last (x :: y :: l) d') with (last (y :: l) d').
  apply IH. discriminate.
Qed.

Lemma gwalk_snoc : forall p a b, gwalk a p -> gstep (last p a) b -> gwalk a (p ++ [b]).
Proof.
  induction p as [|c p IH]; intros a b Hw Hs.
  - cbn in *. constructor; [exact Hs|constructor].
  - inversion Hw as [|? ? ? Hac Hcp]; subst. cbn [app]. constructor; [exact Hac|].
    apply IH; [exact Hcp|]. destruct p as [|n p]; [exact Hs|].
    rewrite (last_default (n :: p) c a) by discriminate. exact Hs.
Qed.

Lemma last_occ b : forall p a, gwalk a p -> In b p ->
  exists p1 p2, p = p1 ++ b :: p2 /\ ~ In b p2 /\ gwalk b p2.
Proof.
  induction p as [|c q IH]; intros a Hw Hin; [destruct Hin|].
  inversion Hw as [|? ? ? Hac Hcq]; subst.
  destruct (in_dec N.eq_dec b q) as [Hq|Hq].
  - destruct (IH c Hcq Hq) as (p1 & p2 & E & Hn & Hw2). exists (c :: p1), p2. rewrite E. auto.
  - destruct Hin as [->|Hin]; [|contradiction]. exists [], q. auto.
Qed.

Lemma last_app_cons {A} (l1 : list A) x l2 d : last (l1 ++ x :: l2) d = last (x :: l2) d.
Proof.
  induction l1 as [|y l1 IH]; [reflexivity|]. cbn [app]. rewrite <- IH.
  destruct (l1 ++ x :: l2) eqn:E; [destruct l1; discriminate|reflexivity].
Qed.

(** Reachability as computed by [reach1]. *)
Definition reached (x : N) : Prop := exists p, p <> [] /\ gwalk 0%N p /\ last p 0%N = x.

Lemma expand_sound : forall l r, incl l ts -> (forall x, In x r -> reached x) ->
  forall x, In x (fold_left (fun acc t =>
               if (N.eqb (t_from t) 0 || memN (t_from t) acc) && negb (memN (t_to t) acc)
               then t_to t :: acc else acc) l r) -> reached x.
Proof.
  induction l as [|t l IH]; intros r Hi Hr x Hx; [apply Hr; exact Hx|].
  cbn [fold_left] in Hx. eapply IH; [intros y Hy; apply Hi; right; exact Hy| |exact Hx].
  intros y Hy. destruct ((N.eqb (t_from t) 0 || memN (t_from t) r) && negb (memN (t_to t) r)) eqn:C;
    [|apply Hr; exact Hy].
  destruct Hy as [<-|Hy]; [|apply Hr; exact Hy].
  apply andb_prop in C as [C _]. assert (Ht : In t ts) by (apply Hi; left; reflexivity).
  apply orb_prop in C as [C|C].
  - apply N.eqb_eq in C. exists [t_to t]. split; [discriminate|]. split; [|reflexivity].
    constructor; [exists t; auto|constructor].
  - apply memN_spec in C. destruct (Hr _ C) as (p & Hne & Hw & Hl).
    exists (p ++ [t_to t]). split; [destruct p; discriminate|]. split.
    + apply gwalk_snoc; [exact Hw|]. exists t. split; [exact Ht|]. split; [|reflexivity].
      rewrite <- Hl. destruct p; [congruence|reflexivity].
    + apply last_last.
Qed.

Lemma iter_expand_sound n : forall r, (forall x, In x r -> reached x) ->
  forall x, In x (iter_expand n ts r) -> reached x.
Proof.
  induction n as [|n IH]; intros r Hr x Hx; [apply Hr; exact Hx|].
  cbn [iter_expand] in Hx. eapply IH; [|exact Hx].
  intros y Hy. eapply (expand_sound ts r); [apply incl_refl|exact Hr|exact Hy].
Qed.

Lemma reach1_sound x : In x (reach1 ts) -> reached x.
Proof. unfold reach1. apply iter_expand_sound. intros y []. Qed.

(** *** The search [sp_go] / [simple_paths] *)
Section Go.
Variable rec : N -> list N -> list N -> option (list (list N)).
Variable cur : N.
Variable visited str : list N.

Lemma go_empty : forall succs, sp_go rec ts cur visited str succs = Some [] ->
  forall s, In s succs -> ~ In s visited ->
    state_accepting ts s = false /\ exists lab, rec s (s :: visited) (lab :: str) = Some [].
Proof.
  induction succs as [|s0 rest IH]; intros H s Hin Hnv; [destruct Hin|].
  cbn [sp_go] in H. destruct (memN s0 visited) eqn:M.
  - destruct Hin as [<-|Hin]; [apply memN_spec in M; contradiction|]. apply IH; assumption.
  - destruct (last_label ts cur s0) as [lab|]; [|discriminate].
    destruct (rec s0 (s0 :: visited) (lab :: str)) as [sub|] eqn:Es; [|discriminate].
    destruct (sp_go rec ts cur visited str rest) as [r|] eqn:Er; [|discriminate].
    injection H as E. apply app_eq_nil in E as [E1 E2]. apply app_eq_nil in E2 as [E2 E3]. subst sub r.
    destruct Hin as [<-|Hin].
    + split; [destruct (state_accepting ts s0); [discriminate|reflexivity]|exists lab; exact Es].
    + apply IH; auto.
Qed.

Lemma go_total : forall succs,
  (forall s, In s succs -> (exists lab, last_label ts cur s = Some lab) /\
                           (~ In s visited -> forall st, rec s (s :: visited) st <> None)) ->
  sp_go rec ts cur visited str succs <> None.
Proof.
  induction succs as [|s0 rest IH]; intros H; cbn [sp_go]; [discriminate|].
  assert (Hrest : sp_go rec ts cur visited str rest <> None).
  { apply IH. intros s Hs. apply H. right. exact Hs. }
  destruct (memN s0 visited) eqn:M; [exact Hrest|].
  destruct (H s0 (or_introl eq_refl)) as [(lab & El) Hr]. rewrite El.
  assert (Hnv : ~ In s0 visited).
  { intros Hi. apply memN_spec in Hi. congruence. }
  specialize (Hr Hnv (lab :: str)).
  destruct (rec s0 (s0 :: visited) (lab :: str)); [|congruence].
  destruct (sp_go rec ts cur visited str rest); [discriminate|congruence].
Qed.

Lemma go_named (P : N -> Prop) :
  (forall t, In t ts -> P (t_tok t)) -> Forall P str ->
  (forall s v st l, rec s v st = Some l -> Forall P st -> forall x, In x l -> Forall P x) ->
  forall succs l, sp_go rec ts cur visited str succs = Some l -> forall x, In x l -> Forall P x.
Proof.
  intros Hts Hstr Hrec. induction succs as [|s0 rest IH]; intros l H x Hx; cbn [sp_go] in H.
  - inversion H; subst. destruct Hx.
  - destruct (memN s0 visited); [eapply IH; eassumption|].
    destruct (last_label ts cur s0) as [lab|] eqn:El; [|discriminate].
    destruct (rec s0 (s0 :: visited) (lab :: str)) as [sub|] eqn:Es; [|discriminate].
    destruct (sp_go rec ts cur visited str rest) as [r|] eqn:Er; [|discriminate].
    inversion H; subst l; clear H.
    assert (Hlab : Forall P (lab :: str)).
    { constructor; [|exact Hstr]. apply last_label_in in El as (t & Hin & <-). apply Hts. exact Hin. }
    apply in_app_or in Hx as [Hx|Hx].
    + destruct (state_accepting ts s0); [|destruct Hx]. destruct Hx as [<-|[]].
      change (Forall P (rev (lab :: str))). apply Forall_rev. exact Hlab.
    + apply in_app_or in Hx as [Hx|Hx]; [eapply Hrec; eassumption|eapply IH; [reflexivity|exact Hx]].
Qed.

End Go.

Lemma sp_named (P : N -> Prop) : (forall t, In t ts -> P (t_tok t)) ->
  forall fuel cur visited str l, simple_paths fuel ts cur visited str = Some l -> Forall P str ->
  forall x, In x l -> Forall P x.
Proof.
  intros Hts. induction fuel as [|f IH]; intros cur visited str l H Hstr x Hx; [discriminate|].
  cbn [simple_paths] in H. eapply go_named; eassumption.
Qed.

Lemma sp_empty : forall fuel cur visited str,
  simple_paths fuel ts cur visited str = Some [] ->
  forall p, gwalk cur p -> p <> [] -> (forall s, In s p -> ~ In s visited) ->
  state_accepting ts (last p 0%N) = false.
Proof.
  induction fuel as [|f IH]; intros cur visited str H p Hw Hne Hav; [discriminate|].
  cbn [simple_paths] in H. destruct p as [|b q]; [congruence|]. clear Hne.
  inversion Hw as [|? ? ? Hcb Hbq]; subst.
  assert (Hb : ~ In b visited) by (apply Hav; left; reflexivity).
  destruct (go_empty _ _ _ _ _ H b (proj2 (successors_spec cur b) Hcb) Hb) as [Hacc (lab & Hsub)].
  assert (Hq : forall q', gwalk b q' -> ~ In b q' -> (forall s, In s q' -> In s q) ->
                          last (b :: q') 0%N = last (b :: q) 0%N -> state_accepting ts (last (b :: q) 0%N) = false).
  { intros q' Hw' Hnb Hsub' Hl. rewrite <- Hl. destruct q' as [|c q'']; [exact Hacc|].
    change (last (b :: c :: q'') 0%N) with (last (c :: q'') 0%N).
    apply (IH b (b :: visited) (lab :: str) Hsub (c :: q'') Hw'); [discriminate|].
    intros s Hs [<-|Hv]; [contradiction|]. apply (Hav s); [right; apply Hsub'; exact Hs|exact Hv]. }
  destruct (in_dec N.eq_dec b q) as [Hin|Hin].
  - destruct (last_occ b q b Hbq Hin) as (p1 & p2 & E & Hn2 & Hw2).
    apply (Hq p2 Hw2 Hn2).
    + intros s Hs. rewrite E. apply in_or_app. right. right. exact Hs.
    + rewrite E. change (b :: p1 ++ b :: p2) with ((b :: p1) ++ b :: p2). rewrite last_app_cons. reflexivity.
  - apply (Hq q Hbq Hin); auto.
Qed.

(** Fuel: the search depth is bounded by the number of distinct target states not yet visited. *)
Definition gstates : list N := nodup N.eq_dec (map t_to ts).
Definition unvisited (visited : list N) (l : list N) : list N := filter (fun s => negb (memN s visited)) l.

Lemma unvisited_le s visited l : length (unvisited (s :: visited) l) <= length (unvisited visited l).
Proof.
  induction l as [|x l IH]; [reflexivity|]. unfold unvisited in *. cbn [filter].
  unfold memN at 1. cbn [existsb]. fold (memN x visited).
  destruct (N.eqb x s); cbn [orb negb]; destruct (memN x visited); cbn [negb length]; lia.
Qed.

Lemma unvisited_lt s visited : forall l, NoDup l -> In s l -> ~ In s visited ->
  length (unvisited (s :: visited) l) < length (unvisited visited l).
Proof.
  induction l as [|x l IH]; intros Hnd Hin Hnv; [destruct Hin|].
  inversion Hnd as [|? ? Hx Hnd']; subst. unfold unvisited in *. cbn [filter].
  unfold memN at 1. cbn [existsb]. fold (memN x visited).
  destruct Hin as [->|Hin].
  - rewrite N.eqb_refl. cbn [orb negb].
    assert (M : memN s visited = false).
    { destruct (memN s visited) eqn:M; [apply memN_spec in M; contradiction|reflexivity]. }
    rewrite M. cbn [negb length]. pose proof (unvisited_le s visited l) as Hle. unfold unvisited in Hle. lia.
  - specialize (IH Hnd' Hin Hnv).
    destruct (N.eqb x s); cbn [orb negb]; destruct (memN x visited); cbn [negb length]; lia.
Qed.

Lemma sp_total : forall fuel cur visited str,
  length (unvisited visited gstates) < fuel -> simple_paths fuel ts cur visited str <> None.
Proof.
  induction fuel as [|f IH]; intros cur visited str Hm; [lia|].
  cbn [simple_paths]. apply go_total. intros s Hs. apply successors_spec in Hs.
  split.
  - destruct (last_label_some cur s Hs) as (t & _ & E). eauto.
  - intros Hnv st. apply IH.
    assert (Hst : In s gstates).
    { unfold gstates. apply nodup_In. destruct Hs as (t & Hin & _ & <-). apply in_map. exact Hin. }
    pose proof (unvisited_lt s visited gstates (NoDup_nodup _ _) Hst Hnv). lia.
Qed.

Lemma gstates_length : length gstates <= length ts.
Proof.
  unfold gstates. rewrite <- (map_length t_to ts). apply NoDup_incl_length; [apply NoDup_nodup|].
  intros x Hx. apply nodup_In in Hx. exact Hx.
Qed.

Lemma unvisited_length visited l : length (unvisited visited l) <= length l.
Proof. unfold unvisited. induction l as [|x l IH]; cbn [filter length]; [lia|]. destruct (negb _); cbn [length]; lia. Qed.

End ExpectedOk.

Lemma set_insert_in x y l : In x (set_insert y l) -> x = y \/ In x l.
Proof.
  induction l as [|z l IH]; cbn [set_insert]; [intros [<-|[]]; auto|].
  destruct (lex_compare y z); intros H.
  - auto.
  - destruct H as [<-|H]; auto.
  - destruct H as [<-|H]; [right; left; reflexivity|]. destruct (IH H); auto. right. right. assumption.
Qed.

Lemma set_insert_nonempty y l : set_insert y l <> [].
Proof. destruct l as [|z l]; cbn [set_insert]; [discriminate|]. destruct (lex_compare y z); discriminate. Qed.

Lemma set_fold_in : forall l acc x, In x (fold_left (fun acc y => set_insert y acc) l acc) -> In x l \/ In x acc.
Proof.
  induction l as [|y l IH]; intros acc x H; cbn [fold_left] in H; [auto|].
  apply IH in H as [H|H]; [left; right; exact H|]. apply set_insert_in in H as [->|H]; [left; left; reflexivity|auto].
Qed.

Lemma set_fold_nonempty : forall l acc, (l <> [] \/ acc <> []) -> fold_left (fun acc y => set_insert y acc) l acc <> [].
Proof.
  induction l as [|y l IH]; intros acc H; cbn [fold_left]; [destruct H; congruence|].
  apply IH. right. apply set_insert_nonempty.
Qed.

Lemma min_diff_some sc : forall strs best, (strs <> [] \/ best <> None) ->
  exists d s, min_diff sc strs best = Some (Some (d, s)) /\ (In s strs \/ exists d', best = Some (d', s)).
Proof.
  induction strs as [|s0 strs IH]; intros best H; cbn [min_diff].
  - destruct H as [H|H]; [congruence|]. destruct best as [[d s]|]; [|congruence]. exists d, s. eauto.
  - destruct (lev_opt_spec sc s0) as (ops & E & _). rewrite E.
    match goal with |- context [min_diff sc strs ?b] => set (best' := b) end.
    assert (Hb : exists d s, best' = Some (d, s) /\ (s = s0 \/ exists d', best = Some (d', s))).
    { unfold best'. destruct best as [[m ms]|]; [|eauto 6].
      destruct (D sc s0 <? m); [eauto 6|].
      destruct ((D sc s0 =? m) && memN 0 ms && negb (memN 0 s0)); eauto 7. }
    destruct Hb as (d1 & s1 & Eb & Hs1).
    assert (Hbn : best' <> None) by (rewrite Eb; discriminate).
    destruct (IH best' (or_intror Hbn)) as (d & s & Em & Hs).
    exists d, s. split; [exact Em|].
    destruct Hs as [Hs|(d' & Hs)]; [left; right; exact Hs|].
    rewrite Eb in Hs. inversion Hs; subst. destruct Hs1 as [->|Hs1]; [left; left; reflexivity|right; exact Hs1].
Qed.

Lemma faithful_expected_ok tb d sc :
  forallb (fun t => (t_tok t <? tb_nterms tb)%N) (transitions d) = true ->
  restore_status d = RS_NonEmpty ->
  exists e, faithful_expected d sc = Some e /\ Forall (fun t => (t < tb_nterms tb)%N) e.
Proof.
  intros Hnm Hrs. set (ts := transitions d) in *.
  assert (Hts : forall t, In t ts -> (t_tok t < tb_nterms tb)%N).
  { intros t Ht. rewrite forallb_forall in Hnm. apply N.ltb_lt. apply Hnm. exact Ht. }
  unfold faithful_expected, restore_terminal_strings. fold ts.
  destruct (simple_paths (S (S (length ts))) ts 0 [0%N] []) as [l0|] eqn:Esp.
  2:{ exfalso. eapply (sp_total ts); [|exact Esp].
      pose proof (unvisited_length [0%N] (gstates ts)). pose proof (gstates_length ts). lia. }
  assert (Hl0 : l0 <> []).
  { intros ->. unfold restore_status in Hrs. fold ts in Hrs.
    destruct (negb (forallb _ ts)); [discriminate|].
    destruct (negb (negb (Z.eqb (prod0 d) INVALID_PROD)) && state_accepting ts 0); [discriminate|].
    destruct (existsb _ (reach1 ts)) eqn:Ex; [|discriminate].
    apply existsb_exists in Ex as (s & Hs & Hc). apply andb_prop in Hc as [Hs0 Hacc].
    apply negb_true_iff in Hs0. apply N.eqb_neq in Hs0.
    destruct (reach1_sound ts s Hs) as (p & Hne & Hw & Hl).
    assert (Hgoal : forall p2, gwalk ts 0%N p2 -> ~ In 0%N p2 -> last (0%N :: p2) 0%N = s -> False).
    { intros p2 Hw2 Hn2 Hl2. destruct p2 as [|c p2]; [cbn in Hl2; congruence|].
      change (last (0%N :: c :: p2) 0%N) with (last (c :: p2) 0%N) in Hl2.
      pose proof (sp_empty ts _ _ _ _ Esp (c :: p2) Hw2) as He. rewrite Hl2 in He.
      rewrite He in Hacc; [discriminate|discriminate|].
      intros x Hx [<-|[]]. contradiction. }
    destruct (in_dec N.eq_dec 0%N p) as [Hin|Hin].
    - destruct (last_occ ts 0%N p 0%N Hw Hin) as (p1 & p2 & E & Hn2 & Hw2).
      apply (Hgoal p2 Hw2 Hn2). rewrite <- Hl, E, last_app_cons. reflexivity.
    - apply (Hgoal p Hw Hin). rewrite <- Hl. destruct p; [congruence|reflexivity]. }
  set (strs := fold_left (fun acc x => set_insert x acc) l0 []).
  assert (Hstrs : strs <> []) by (apply set_fold_nonempty; left; exact Hl0).
  destruct (min_diff_some sc strs None (or_introl Hstrs)) as (dd & s & Em & Hs). rewrite Em.
  exists s. split; [reflexivity|].
  destruct Hs as [Hs|(d' & Hs)]; [|discriminate].
  apply set_fold_in in Hs as [Hs|[]].
  apply (sp_named ts (fun t => (t < tb_nterms tb)%N) Hts _ _ _ _ _ Esp (Forall_nil _) s Hs).
Qed.

Theorem faithful_oracle_ok tb : tables_ok_basic tb = true -> oracle_ok faithful_oracle tb.
Proof.
  intros Hok. split.
  - intros d sc Hd Hrs. cbn [faithful_oracle o_expected].
    apply faithful_expected_ok; [|exact Hrs].
    apply In_nth_error in Hd as (n & Hn).
    assert (Hda : dfa_at tb (N.of_nat n) = Some d) by (unfold dfa_at; rewrite Nat2N.id; exact Hn).
    eapply dfa_tokens_named. eapply dfa_at_ok; eassumption.
  - intros buf e Hb He. cbn [faithful_oracle o_adjust]. apply faithful_adjust_ok; assumption.
Qed.

(** C19, runtime half, in full: the model never panics on tables that pass [tables_ok] and named
    tokens, recovery enabled or not. *)
Theorem ll_no_panic : forall fuel tb opts toks site,
  tables_ok tb = true -> forallb (fun t => (t <? tb_nterms tb)%N) toks = true ->
  ll_run fuel tb opts toks <> Panic site.
Proof.
  intros fuel tb opts toks site Hok Hn. apply ll_no_panic_any_oracle; [exact Hok| |exact Hn].
  right. apply faithful_oracle_ok. apply tables_ok_split in Hok as [H _]. exact H.
Qed.

(** A sentence can only contain terminals of the productions, hence no EOI; so the side
    condition [forallb significant toks] only excludes the skip-token types 1..4 and 65534. *)

Print Assumptions ll_sound.
Print Assumptions ll_sound_any_oracle.
Print Assumptions ll_sound_no_recovery.
Print Assumptions ll_recovery_sound_refuted.
Print Assumptions ll_tree_ok.
Print Assumptions ll_actions_postorder.
Print Assumptions ll_actions_numbers.
Print Assumptions ll_trim_events.
Print Assumptions ll_no_panic_any_oracle.
Print Assumptions faithful_oracle_ok.
Print Assumptions ll_no_panic.
Print Assumptions ll_run_fuel_mono.
Print Assumptions ll_fuel.
Print Assumptions ll_complete.

(** ** The hypotheses of the main theorems are satisfiable *)
Example ex_sound_hyps :
  tables_ok ex_tables = true /\
  exists acts evs, ll_run 100 ex_tables ex_opts_rec [5; 5; 7; 6; 6]%N = Accepted acts evs.
Proof. split; [vm_compute; reflexivity|]. eexists. eexists. vm_compute. reflexivity. Qed.

Example ex_no_panic_hyps :
  forallb (fun t => (t <? tb_nterms ex_tables)%N) [5; 9; 6]%N = true /\
  ll_run 100 ex_tables ex_opts_rec [5; 9; 6]%N = Rejected RSyntaxErrors 3.
Proof. split; vm_compute; reflexivity. Qed.

(** The witness of [ll_recovery_sound_refuted] fails exactly the recovery caveat of [tables_ok]. *)
Example refute_not_la_wf : tables_ok_basic refute_tables = true /\ la_wf refute_tables = false.
Proof. split; vm_compute; reflexivity. Qed.

(** ** C20: parser options do not change parse outcomes *)

(** [run_reaches c c']: the ['WHILE] loop started in [c] gets to [c']. *)
Inductive run_reaches (orc : oracle) (tb : ll_tables) (opts : options) : config -> config -> Prop :=
| rr_refl c : run_reaches orc tb opts c c
| rr_step c c1 c' :
    input_accepted (c_stack c) = false -> ll_step orc tb opts c = Continue c1 ->
    run_reaches orc tb opts c1 c' -> run_reaches orc tb opts c c'.

(** An accepted run never has an error entry, i.e. it never enters recovery. *)
Theorem accepted_no_errors : forall orc tb opts fuel c acts evs c',
  tables_ok tb = true -> ll_loop orc tb opts fuel c = Accepted acts evs ->
  run_reaches orc tb opts c c' -> c_errs c' = [].
Proof.
  intros orc tb opts fuel c acts evs c' Hok H Hr. apply tables_ok_split in Hok as [H1 H2].
  revert fuel H. induction Hr as [c|c c1 c' Hna Hs _ IH]; intros fuel H.
  - destruct (c_errs c) eqn:E; [reflexivity|]. exfalso.
    eapply (errs_stuck_loop orc tb opts H1 (or_intror H2)); [|exact H]. rewrite E. discriminate.
  - destruct fuel as [|f]; [discriminate|]. cbn [ll_loop] in H. rewrite Hna, Hs in H. eapply IH; exact H.
Qed.

(** What [production_depth] counts: the end-of-production markers of non-push productions on
    the parser stack, i.e. the open productions that are not list-flattening ones. *)
Definition count_open (tb : ll_tables) (st : list pitem) : N :=
  N.of_nat (length (filter (fun i => match i with
                                     | PE p => match prod_at tb p with
                                               | Some pr => negb (p_push pr)
                                               | None => false end
                                     | _ => false end) st)).

Lemma count_open_items tb l st : count_open tb (push_items l st) = count_open tb st.
Proof.
  rewrite push_items_spec. unfold count_open. rewrite filter_app, app_length.
  replace (filter _ (rev (map item_of l))) with (@nil pitem); [reflexivity|].
  symmetry. induction l as [|[t|a] l IH]; cbn [map item_of rev]; [reflexivity| |];
    rewrite filter_app, IH; reflexivity.
Qed.

Lemma push_production_spec tb o c p c' : push_production tb o c p = Continue c' ->
  exists pr, prod_at tb p = Some pr /\ (p_lhs pr <? tb_nnts tb)%N = true /\
    c' = mkConfig (push_items (p_rev pr) (PE p :: c_stack c)) (c_stream c) (NT (p_lhs pr) :: c_pts c)
                  (c_acts c) (if o_trim o then c_evs c else Open (p_lhs pr) :: c_evs c) (c_errs c)
                  (if p_push pr then c_depth c else N.succ (c_depth c)) /\
    match o_max_depth o with Some m => (c_depth c' <= m)%N | None => True end.
Proof.
  unfold push_production. intros H. destruct (prod_at tb p) as [pr|]; [|discriminate].
  destruct (p_lhs pr <? tb_nnts tb)%N eqn:E; cbn [negb] in H; [|discriminate].
  exists pr. split; [reflexivity|]. split; [exact E|].
  destruct (o_max_depth o) as [m|].
  - destruct (N.ltb_spec m (if p_push pr then c_depth c else N.succ (c_depth c))) as [L|L]; [discriminate|].
    inversion H; subst c'. split; [reflexivity|exact L].
  - inversion H; subst c'. auto.
Qed.

Lemma push_production_run tb o c p pr : prod_at tb p = Some pr -> (p_lhs pr <? tb_nnts tb)%N = true ->
  let c' := mkConfig (push_items (p_rev pr) (PE p :: c_stack c)) (c_stream c) (NT (p_lhs pr) :: c_pts c)
                  (c_acts c) (if o_trim o then c_evs c else Open (p_lhs pr) :: c_evs c) (c_errs c)
                  (if p_push pr then c_depth c else N.succ (c_depth c)) in
  push_production tb o c p =
  match o_max_depth o with
  | Some m => if (m <? c_depth c')%N then Return DepthExceeded else Continue c'
  | None => Continue c'
  end.
Proof. intros Hp Hn. unfold push_production. rewrite Hp, Hn. reflexivity. Qed.

Lemma step_count_open orc tb opts c c' :
  ll_step orc tb opts c = Continue c' -> c_depth c = count_open tb (c_stack c) ->
  c_depth c' = count_open tb (c_stack c').
Proof.
  intros H Hd. unfold ll_step in H.
  destruct (c_stack c) as [|[t|a|p] st'] eqn:Est; [inversion H; subst; rewrite Est; exact Hd| | |].
  - destruct (s_buf (ensure tb (c_stream c))) as [|tok b]; [discriminate|].
    destruct (fst tok =? t)%N.
    + destruct (consume tb _) as [[x s2]|]; [|discriminate]. inversion H; subst c'. cbn [c_depth c_stack].
      rewrite Hd. reflexivity.
    + apply htm_continue in H. cbn [set_stream c_stack c_depth] in H. destruct H as (_ & H1 & _ & _ & _ & H5).
      rewrite H1, H5, Est. exact Hd.
  - assert (Hpush : forall c0, c_stack c0 = st' -> c_depth c0 = c_depth c -> forall q,
              push_production tb opts c0 q = Continue c' -> c_depth c' = count_open tb (c_stack c')).
    { intros c0 Hs0 Hd0 q Hq. apply push_production_spec in Hq as (pr & Hp & _ & -> & _).
      cbn [c_depth c_stack]. rewrite count_open_items, Hs0, Hd0, Hd. unfold count_open. cbn [filter].
      rewrite Hp. destruct (p_push pr); cbn [negb length]; lia. }
    destruct (dfa_at tb a) as [d|]; [|discriminate].
    destruct (predict tb d (c_stream c)) as [[q| |e] s1]; [| discriminate |].
    + eapply Hpush; [| |exact H]; reflexivity.
    + destruct (handle_prediction_error orc tb opts _ a d) as [q c1|r' n c1|site] eqn:Eh; try discriminate.
      apply hpe_ok in Eh. cbn [set_stream c_stack c_depth] in Eh. destruct Eh as (_ & _ & _ & _ & _ & H5 & _).
      eapply Hpush; [| |exact H]; [reflexivity|exact H5].
  - unfold end_production in H. destruct (prod_at tb p) as [pr|] eqn:Hp; [|discriminate].
    unfold count_open in Hd. cbn [filter] in Hd. rewrite Hp in Hd. fold (count_open tb st') in Hd.
    destruct (p_push pr); cbn [negb] in Hd.
    + break_matches H; inversion H; subst c'; cbn [c_depth c_stack]; unfold count_open; exact Hd.
    + cbn [length] in Hd. destruct (N.eqb_spec (c_depth c) 0); [discriminate|].
      break_matches H; inversion H; subst c'; cbn [c_depth c_stack]; unfold count_open in *; lia.
Qed.

Theorem depth_counts_open_productions : forall orc tb opts s0 c0 c,
  ll_init orc tb opts s0 = Continue c0 -> run_reaches orc tb opts c0 c ->
  c_depth c = count_open tb (c_stack c).
Proof.
  intros orc tb opts s0 c0 c Hi Hr.
  assert (H0 : c_depth c0 = count_open tb (c_stack c0)).
  { unfold ll_init in Hi. destruct (dfa_at tb (tb_start tb)) as [d|]; [|discriminate].
    assert (Hpush : forall cc, c_stack cc = [] -> c_depth cc = 0%N -> forall q,
              push_production tb opts cc q = Continue c0 -> c_depth c0 = count_open tb (c_stack c0)).
    { intros cc Hs Hd q Hq. apply push_production_spec in Hq as (pr & Hp & _ & -> & _).
      cbn [c_depth c_stack]. rewrite count_open_items, Hs, Hd. unfold count_open. cbn [filter].
      rewrite Hp. destruct (p_push pr); reflexivity. }
    destruct (predict tb d s0) as [[q| |e] s1]; [| discriminate |].
    - eapply Hpush; [| |exact Hi]; reflexivity.
    - destruct (handle_prediction_error orc tb opts _ _ d) as [q c1|r' n c1|site] eqn:Eh; try discriminate.
      apply hpe_ok in Eh. cbn [set_stream c_stack c_depth] in Eh. destruct Eh as (_ & H1 & _ & _ & _ & H5 & _).
      eapply Hpush; [exact H1|exact H5|exact Hi]. }
  clear Hi. induction Hr as [c|c c1 c' _ Hs _ IH]; [exact H0|]. apply IH. eapply step_count_open; eassumption.
Qed.

(** The local form of the depth-limit error: a push beyond the limit returns the error. *)
Lemma push_production_depth_exceeded tb o c p pr m :
  prod_at tb p = Some pr -> (p_lhs pr <? tb_nnts tb)%N = true -> o_max_depth o = Some m ->
  (m < (if p_push pr then c_depth c else N.succ (c_depth c)))%N ->
  push_production tb o c p = Return DepthExceeded.
Proof.
  intros Hp Hn Hm Hlt. rewrite (push_production_run tb o c p pr Hp Hn). cbn zeta. rewrite Hm. cbn [c_depth].
  apply N.ltb_lt in Hlt. rewrite Hlt. reflexivity.
Qed.

Definition fits (d : N) (l : option N) : Prop := match l with None => True | Some m => (d <= m)%N end.

(** [limit_le l1 l2]: the limit [l2] is at least as permissive as [l1]. *)
Definition limit_le (l1 l2 : option N) : Prop :=
  match l2 with
  | None => True
  | Some m2 => match l1 with Some m1 => (m1 <= m2)%N | None => False end
  end.

Section Options.
Variable orc : oracle.
Variable tb : ll_tables.
Variable o1 o2 : options.
Variable toks : list N.
Hypothesis Hok : tables_ok_basic tb = true.
Hypothesis Hrec1 : o_recovery o1 = false \/ la_wf tb = true.

(** Error-free configurations of the two runs: equal up to the tree-builder events. *)
Definition osim (c1 c2 : config) : Prop :=
  c_stack c1 = c_stack c2 /\ c_stream c1 = c_stream c2 /\ c_pts c1 = c_pts c2 /\
  c_acts c1 = c_acts c2 /\ c_errs c1 = [] /\ c_errs c2 = [] /\ c_depth c1 = c_depth c2 /\
  (o_trim o1 = o_trim o2 -> c_evs c1 = c_evs c2).

Lemma osim_push c1 c2 p c1' : osim c1 c2 -> push_production tb o1 c1 p = Continue c1' ->
  exists c2', osim c1' c2' /\
    (push_production tb o2 c2 p = Continue c2' \/
     exists m, o_max_depth o2 = Some m /\ (m < c_depth c1')%N /\
               push_production tb o2 c2 p = Return DepthExceeded).
Proof.
  intros (E1 & E2 & E3 & E4 & E5 & E6 & E7 & E8) H.
  apply push_production_spec in H as (pr & Hp & Hn & -> & _).
  pose proof (push_production_run tb o2 c2 p pr Hp Hn) as Hrun. cbn zeta in Hrun.
  match type of Hrun with context [Continue ?x] => set (c2' := x) in * end.
  exists c2'. split.
  - unfold osim, c2'. cbn [c_stack c_stream c_pts c_acts c_errs c_depth c_evs].
    rewrite E1, E2, E3, E4, E7. repeat split; auto. intros Ht. rewrite <- Ht, (E8 Ht). reflexivity.
  - assert (Ed : c_depth c2' = (if p_push pr then c_depth c1 else N.succ (c_depth c1))).
    { unfold c2'. cbn [c_depth]. rewrite E7. reflexivity. }
    cbn [c_depth]. rewrite <- Ed.
    destruct (o_max_depth o2) as [m|]; [|left; exact Hrun].
    destruct (N.ltb_spec m (c_depth c2')) as [L|L]; [right; exists m; auto|left; exact Hrun].
Qed.

Lemma osim_step c1 c2 c1' : osim c1 c2 -> ll_step orc tb o1 c1 = Continue c1' -> c_errs c1' = [] ->
  exists c2', osim c1' c2' /\
    (ll_step orc tb o2 c2 = Continue c2' \/
     exists m, o_max_depth o2 = Some m /\ (m < c_depth c1')%N /\
               ll_step orc tb o2 c2 = Return DepthExceeded).
Proof.
  intros Hsim H He'. pose proof Hsim as (E1 & E2 & E3 & E4 & E5 & E6 & E7 & E8).
  unfold ll_step in *. rewrite <- E1, <- E2.
  destruct (c_stack c1) as [|[t|a|p] st'].
  - inversion H; subst c1'. exists c2. auto.
  - destruct (s_buf (ensure tb (c_stream c1))) as [|tok b]; [discriminate|].
    destruct (fst tok =? t)%N.
    + destruct (consume tb _) as [[x s2]|]; [|discriminate]. inversion H; subst c1'.
      eexists. split; [|left; reflexivity].
      unfold osim. cbn [c_stack c_stream c_pts c_acts c_errs c_depth c_evs]. rewrite E3, E4, E7.
      repeat split; auto. intros Ht. rewrite <- Ht, (E8 Ht). reflexivity.
    + apply htm_continue in H. destruct H as (H & _). congruence.
  - destruct (dfa_at tb a) as [d|]; [|discriminate].
    destruct (predict tb d (c_stream c1)) as [[q| |e] s1]; [| discriminate |].
    + eapply osim_push; [|exact H].
      unfold osim. cbn [set_stack set_stream c_stack c_stream c_pts c_acts c_errs c_depth c_evs]. repeat split; auto.
    + destruct (handle_prediction_error orc tb o1 _ a d) as [q c1x|r' n c1x|site] eqn:Eh; try discriminate.
      apply hpe_ok in Eh as (Hne & _). apply push_production_shape in H as (E & _).
      cbn [set_stack c_errs] in E. congruence.
  - unfold end_production in *. rewrite <- E3, <- E7, E6. rewrite E5 in H.
    destruct (prod_at tb p) as [pr|]; [|discriminate].
    destruct (if p_push pr then Some (c_depth c1) else if (c_depth c1 =? 0)%N then None else Some (N.pred (c_depth c1)))
      as [depth'|]; [|discriminate].
    destruct (split_rev (length (p_rev pr)) (c_pts c1) []) as [[children pts']|]; [|discriminate].
    inversion H; subst c1'.
    eexists. split; [|left; reflexivity].
    unfold osim. cbn [c_stack c_stream c_pts c_acts c_errs c_depth c_evs]. rewrite E4.
    repeat split; auto. intros Ht. rewrite <- Ht, (E8 Ht). reflexivity.
Qed.

(** A limit that holds before a step holds after it. *)
Lemma step_depth_limit o c c' m : ll_step orc tb o c = Continue c' -> o_max_depth o = Some m ->
  (c_depth c <= m)%N -> (c_depth c' <= m)%N.
Proof.
  intros H Hm Hd. unfold ll_step in H.
  destruct (c_stack c) as [|[t|a|p] st']; [inversion H; subst; exact Hd| | |].
  - destruct (s_buf (ensure tb (c_stream c))) as [|tok b]; [discriminate|].
    destruct (fst tok =? t)%N.
    + destruct (consume tb _) as [[x s2]|]; [|discriminate]. inversion H; subst c'. exact Hd.
    + apply htm_continue in H. cbn [set_stream c_depth] in H. destruct H as (_ & _ & _ & _ & _ & H5). rewrite H5. exact Hd.
  - destruct (dfa_at tb a) as [d|]; [|discriminate].
    destruct (predict tb d (c_stream c)) as [[q| |e] s1]; [| discriminate |].
    + apply push_production_spec in H as (_ & _ & _ & _ & Hl). rewrite Hm in Hl. exact Hl.
    + destruct (handle_prediction_error orc tb o _ a d) as [q c1|r' n c1|site]; try discriminate.
      apply push_production_spec in H as (_ & _ & _ & _ & Hl). rewrite Hm in Hl. exact Hl.
  - unfold end_production in H. destruct (prod_at tb p) as [pr|]; [|discriminate].
    destruct (p_push pr).
    + break_matches H; inversion H; subst c'; exact Hd.
    + destruct (N.eqb_spec (c_depth c) 0); [discriminate|].
      break_matches H; inversion H; subst c'; cbn [c_depth]; lia.
Qed.

Lemma osim_finish c1 c2 a e : osim c1 c2 -> ll_finish c1 = Accepted a e ->
  exists e2, ll_finish c2 = Accepted a e2 /\ (o_trim o1 = o_trim o2 -> e2 = e).
Proof.
  intros (E1 & E2 & E3 & E4 & E5 & E6 & E7 & E8) H. unfold ll_finish in *.
  rewrite E5 in H. rewrite E6, <- E2, <- E4.
  destruct (all_input_consumed (c_stream c1)); [|discriminate]. inversion H; subst.
  eexists. split; [reflexivity|]. intros Ht. rewrite (E8 Ht). reflexivity.
Qed.

End Options.

Section OptionsPeak.
Variable orc : oracle.
Variable tb : ll_tables.
Variable o1 : options.
Hypothesis Hok : tables_ok_basic tb = true.
Hypothesis Hrec1 : o_recovery o1 = false \/ la_wf tb = true.

(** The peak depth [d] of an accepted run decides what every other limit does. *)
Lemma loop_options fuel : forall c1 a e,
  (forall m1, o_max_depth o1 = Some m1 -> (c_depth c1 <= m1)%N) ->
  ll_loop orc tb o1 fuel c1 = Accepted a e ->
  exists d, (c_depth c1 <= d)%N /\ fits d (o_max_depth o1) /\
    forall o2 c2, osim o1 o2 c1 c2 ->
    (fits d (o_max_depth o2) ->
     exists e2, ll_loop orc tb o2 fuel c2 = Accepted a e2 /\ (o_trim o1 = o_trim o2 -> e2 = e)) /\
    (forall m, o_max_depth o2 = Some m -> (c_depth c1 <= m)%N -> (m < d)%N ->
               ll_loop orc tb o2 fuel c2 = DepthExceeded).
Proof.
  induction fuel as [|fuel IH]; intros c1 a e Hl1 H; [discriminate|].
  cbn [ll_loop] in H.
  destruct (input_accepted (c_stack c1)) eqn:Hacc1.
  - exists (c_depth c1). split; [lia|]. split.
    + unfold fits. destruct (o_max_depth o1) as [m1|]; [apply Hl1; reflexivity|exact I].
    + intros o2 c2 Hsim. pose proof Hsim as (E1 & _). cbn [ll_loop]. rewrite <- E1, Hacc1.
      split; [intros _; eapply osim_finish; eassumption|]. intros m _ Hle Hlt. lia.
  - destruct (ll_step orc tb o1 c1) as [c1'|c1'|r] eqn:Es.
    + assert (He' : c_errs c1' = []).
      { destruct (c_errs c1') eqn:E; [reflexivity|]. exfalso.
        eapply (errs_stuck_loop orc tb o1 Hok Hrec1); [|exact H]. rewrite E. discriminate. }
      assert (Hl1' : forall m1, o_max_depth o1 = Some m1 -> (c_depth c1' <= m1)%N).
      { intros m1 Hm1. eapply step_depth_limit; [exact Es|exact Hm1|apply Hl1; exact Hm1]. }
      destruct (IH c1' a e Hl1' H) as (d' & Hd1 & Hf1 & Hall).
      exists (N.max (c_depth c1) d'). split; [lia|]. split.
      { unfold fits in *. destruct (o_max_depth o1) as [m1|]; [|exact I].
        specialize (Hl1 m1 eq_refl). lia. }
      intros o2 c2 Hsim. pose proof Hsim as (E1 & _). cbn [ll_loop]. rewrite <- E1, Hacc1.
      destruct (osim_step orc tb o1 o2 c1 c2 c1' Hsim Es He') as (c2' & Hsim' & Hstep2).
      destruct (Hall o2 c2' Hsim') as (Hacc & Hexc).
      split.
      * intros Hf. destruct Hstep2 as [Hs2|(m & Hm & Hlt & _)].
        -- rewrite Hs2. apply Hacc. unfold fits in *. destruct (o_max_depth o2); [lia|exact I].
        -- exfalso. unfold fits in Hf. rewrite Hm in Hf. lia.
      * intros m Hm Hle Hlt. destruct Hstep2 as [Hs2|(m' & Hm' & Hlt' & Hs2)].
        -- rewrite Hs2. apply (Hexc m Hm); [|lia].
           destruct Hsim as (_ & _ & _ & _ & _ & _ & E7 & _). destruct Hsim' as (_ & _ & _ & _ & _ & _ & E7' & _).
           rewrite E7'. eapply step_depth_limit; [exact Hs2|exact Hm|]. rewrite <- E7. exact Hle.
        -- rewrite Hs2. reflexivity.
    + exfalso. eapply finish_errs; [|exact H]. eapply (step_break orc tb o1 Hok Hrec1); exact Es.
    + subst r. apply step_return in Es. destruct Es.
Qed.

Lemma run_located_options fuel ltoks eloc a e :
  ll_run_located orc tb o1 fuel ltoks eloc = Accepted a e ->
  exists d, fits d (o_max_depth o1) /\ forall o2,
    (fits d (o_max_depth o2) ->
     exists e2, ll_run_located orc tb o2 fuel ltoks eloc = Accepted a e2 /\ (o_trim o1 = o_trim o2 -> e2 = e)) /\
    (forall m, o_max_depth o2 = Some m -> (m < d)%N ->
               ll_run_located orc tb o2 fuel ltoks eloc = DepthExceeded).
Proof.
  unfold ll_run_located. intros H. set (s0 := init_stream tb ltoks eloc) in *.
  destruct (ll_init orc tb o1 s0) as [c1|c1|r] eqn:Ei.
  2:{ exfalso. eapply init_not_break; exact Ei. }
  2:{ subst r. apply init_return in Ei. destruct Ei. }
  assert (He : c_errs c1 = []).
  { destruct (c_errs c1) eqn:E; [reflexivity|]. exfalso.
    eapply (errs_stuck_loop orc tb o1 Hok Hrec1); [|exact H]. rewrite E. discriminate. }
  unfold ll_init in Ei.
  destruct (dfa_at tb (tb_start tb)) as [d0|] eqn:Ed0; [|discriminate].
  destruct (predict tb d0 s0) as [[q| |pe] s1] eqn:Ep; [| discriminate |].
  - set (cA := set_stream (mkConfig [] s0 [] [] [OpenRoot] [] 0%N) s1) in *.
    assert (Hl1 : forall m1, o_max_depth o1 = Some m1 -> (c_depth c1 <= m1)%N).
    { intros m1 Hm1. pose proof Ei as Ei'. apply push_production_spec in Ei' as (_ & _ & _ & _ & Hl).
      rewrite Hm1 in Hl. exact Hl. }
    destruct (loop_options fuel c1 a e Hl1 H) as (d & Hd1 & Hf1 & Hall).
    exists d. split; [exact Hf1|]. intros o2.
    assert (Hsim0 : osim o1 o2 cA cA) by (unfold osim; repeat split; auto).
    destruct (osim_push tb o1 o2 cA cA q c1 Hsim0 Ei) as (c2 & Hsim & Hp2).
    destruct (Hall o2 c2 Hsim) as (Hacc & Hexc).
    unfold ll_init. rewrite Ed0, Ep. fold cA. split.
    + intros Hf. destruct Hp2 as [Hp2|(m & Hm & Hlt & _)].
      * rewrite Hp2. apply Hacc. exact Hf.
      * exfalso. unfold fits in Hf. rewrite Hm in Hf. lia.
    + intros m Hm Hlt. destruct Hp2 as [Hp2|(m' & Hm' & Hlt' & Hp2)].
      * rewrite Hp2. apply (Hexc m Hm); [|exact Hlt].
        pose proof Hp2 as Hp2'. apply push_production_spec in Hp2' as (_ & _ & _ & _ & Hl). rewrite Hm in Hl.
        destruct Hsim as (_ & _ & _ & _ & _ & _ & E7 & _). rewrite E7. exact Hl.
      * rewrite Hp2. reflexivity.
  - destruct (handle_prediction_error orc tb o1 _ _ d0) as [q c1x|r' n c1x|site] eqn:Eh; try discriminate.
    apply hpe_ok in Eh as (Hne & _). apply push_production_shape in Ei as (E & _). congruence.
Qed.

End OptionsPeak.

(** The peak depth [d] of an accepted run: every option set whose limit admits [d] gives the same
    verdict and the same semantic-action calls with the same fuel (and the same events if
    [o_trim] agrees); every smaller limit gives the depth-limit error. *)
Theorem ll_options_peak_any_oracle : forall orc f tb o1 toks a e,
  tables_ok tb = true -> ll_run_with orc f tb o1 toks = Accepted a e ->
  exists d, fits d (o_max_depth o1) /\ forall o2,
    (fits d (o_max_depth o2) ->
     exists e2, ll_run_with orc f tb o2 toks = Accepted a e2 /\ (o_trim o1 = o_trim o2 -> e2 = e)) /\
    (forall m, o_max_depth o2 = Some m -> (m < d)%N -> ll_run_with orc f tb o2 toks = DepthExceeded).
Proof.
  intros orc f tb o1 toks a e Hok H. apply tables_ok_split in Hok as [H1 H2].
  unfold ll_run_with in *. destruct (forallb significant toks); [|discriminate].
  eapply run_located_options; eauto.
Qed.

Theorem ll_options_peak : forall f tb o1 toks a e,
  tables_ok tb = true -> ll_run f tb o1 toks = Accepted a e ->
  exists d, fits d (o_max_depth o1) /\ forall o2,
    (fits d (o_max_depth o2) ->
     exists e2, ll_run f tb o2 toks = Accepted a e2 /\ (o_trim o1 = o_trim o2 -> e2 = e)) /\
    (forall m, o_max_depth o2 = Some m -> (m < d)%N -> ll_run f tb o2 toks = DepthExceeded).
Proof. intros f tb o1 toks a e. apply ll_options_peak_any_oracle. Qed.

Lemma fits_limit_le d l1 l2 : fits d l1 -> limit_le l1 l2 -> fits d l2.
Proof.
  unfold fits, limit_le. destruct l2 as [m2|]; [|auto]. destruct l1 as [m1|]; [lia|tauto].
Qed.

(** Acceptance and the sequence of semantic actions do not depend on [o_trim], on [o_recovery],
    or on a depth limit at least as permissive as one under which the run was accepted. *)
Theorem ll_options_verdict_fuel : forall f1 tb o1 o2 toks a1 e1,
  tables_ok tb = true -> ll_run f1 tb o1 toks = Accepted a1 e1 ->
  limit_le (o_max_depth o1) (o_max_depth o2) ->
  exists e2, ll_run f1 tb o2 toks = Accepted a1 e2 /\ (o_trim o1 = o_trim o2 -> e2 = e1).
Proof.
  intros f1 tb o1 o2 toks a1 e1 Hok H Hl.
  destruct (ll_options_peak f1 tb o1 toks a1 e1 Hok H) as (d & Hf & Hall).
  destruct (Hall o2) as (Hacc & _). apply Hacc. eapply fits_limit_le; eassumption.
Qed.

Theorem ll_options_verdict : forall f1 tb o1 o2 toks a1 e1,
  tables_ok tb = true -> ll_run f1 tb o1 toks = Accepted a1 e1 ->
  limit_le (o_max_depth o1) (o_max_depth o2) ->
  exists f2 e2, ll_run f2 tb o2 toks = Accepted a1 e2.
Proof.
  intros f1 tb o1 o2 toks a1 e1 Hok H Hl.
  destruct (ll_options_verdict_fuel f1 tb o1 o2 toks a1 e1 Hok H Hl) as (e2 & H2 & _). eauto.
Qed.

(** Exceeding the depth limit yields the depth-limit error: for an input that is accepted
    without a limit there is a depth [d] (the peak of [production_depth]) such that exactly the
    limits below [d] give [DepthExceeded] (never a panic, never [Accepted]) and all others accept. *)
Theorem ll_depth_limit_error : forall f tb o toks a e,
  tables_ok tb = true -> o_max_depth o = None -> ll_run f tb o toks = Accepted a e ->
  exists d, forall m rc tr,
    ((m < d)%N -> ll_run f tb (mkOptions rc tr (Some m)) toks = DepthExceeded) /\
    ((d <= m)%N -> exists e2, ll_run f tb (mkOptions rc tr (Some m)) toks = Accepted a e2).
Proof.
  intros f tb o toks a e Hok Hn H.
  destruct (ll_options_peak f tb o toks a e Hok H) as (d & _ & Hall).
  exists d. intros m rc tr. destruct (Hall (mkOptions rc tr (Some m))) as (Hacc & Hexc). split.
  - intros Hlt. apply (Hexc m); [reflexivity|exact Hlt].
  - intros Hle. destruct (Hacc Hle) as (e2 & H2 & _). eauto.
Qed.

(** Rejection: if some option set rejects the input (a final verdict, not [OutOfFuel] or the
    depth-limit error), no option set with an at most as permissive depth limit accepts it,
    whatever the fuel; with named tokens the result is therefore [Rejected], [DepthExceeded] or
    [OutOfFuel]. *)
Theorem ll_options_reject : forall f f' tb o1 o2 toks r n,
  tables_ok tb = true -> ll_run f tb o1 toks = Rejected r n ->
  limit_le (o_max_depth o2) (o_max_depth o1) ->
  forall a e, ll_run f' tb o2 toks <> Accepted a e.
Proof.
  intros f f' tb o1 o2 toks r n Hok H Hl a e H2.
  destruct (ll_options_verdict_fuel f' tb o2 o1 toks a e Hok H2 Hl) as (e1 & H1 & _).
  assert (Ha : ll_run (f + f') tb o1 toks = Rejected r n).
  { rewrite ll_run_fuel_mono; [exact H|]. rewrite H. discriminate. }
  assert (Hb : ll_run (f' + f) tb o1 toks = Accepted a e1).
  { rewrite ll_run_fuel_mono; [exact H1|]. rewrite H1. discriminate. }
  rewrite Nat.add_comm in Hb. congruence.
Qed.

Corollary ll_options_reject_classes : forall f f' tb o1 o2 toks r n,
  tables_ok tb = true -> ll_run f tb o1 toks = Rejected r n ->
  limit_le (o_max_depth o2) (o_max_depth o1) ->
  forallb (fun t => (t <? tb_nterms tb)%N) toks = true ->
  (exists r' n', ll_run f' tb o2 toks = Rejected r' n') \/
  ll_run f' tb o2 toks = DepthExceeded \/ ll_run f' tb o2 toks = OutOfFuel.
Proof.
  intros f f' tb o1 o2 toks r n Hok H Hl Hn.
  pose proof (ll_options_reject f f' tb o1 o2 toks r n Hok H Hl) as Hna.
  pose proof (ll_no_panic f' tb o2 toks) as Hnp.
  destruct (ll_run f' tb o2 toks) as [a e|r' n'| | |site|] eqn:E; eauto.
  - exfalso. eapply Hna. reflexivity.
  - exfalso. eapply (Hnp site); auto.
  - exfalso. unfold ll_run, ll_run_with in H, E. destruct (forallb significant toks); [|discriminate].
    (* a located run never answers [BadInput] *)
    unfold ll_run_located in E. destruct (ll_init _ _ _ _) as [c|c|r0] eqn:Ei.
    + clear -E. revert c E. induction f' as [|f' IH]; intros c E; [discriminate|]. cbn [ll_loop] in E.
      destruct (input_accepted (c_stack c)); [unfold ll_finish in E; break_matches E; discriminate|].
      destruct (ll_step _ _ _ c) as [c'|c'|r0] eqn:Es; [eapply IH; exact E|unfold ll_finish in E; break_matches E; discriminate|].
      subst r0. unfold ll_step, push_production, end_production, handle_token_mismatch in Es.
      break_matches Es; discriminate.
    + unfold ll_finish in E; break_matches E; discriminate.
    + subst r0. unfold ll_init, push_production in Ei. break_matches Ei; discriminate.
Qed.

Example ex_options :
  limit_le (o_max_depth ex_opts) (o_max_depth (mkOptions true true None)) /\
  ll_run 11 ex_tables (mkOptions true true None) [5; 5; 7; 6; 6]%N =
  Accepted [ (1, [T 7]); (0, [T 5; NT 0; T 6]); (0, [T 5; NT 0; T 6]) ]%N [OpenRoot; Close] /\
  ll_run 11 ex_tables (mkOptions true true (Some 3%N)) [5; 5; 7; 6; 6]%N =
  Accepted [ (1, [T 7]); (0, [T 5; NT 0; T 6]); (0, [T 5; NT 0; T 6]) ]%N [OpenRoot; Close] /\
  ll_run 11 ex_tables (mkOptions true true (Some 2%N)) [5; 5; 7; 6; 6]%N = DepthExceeded.
Proof. repeat split; vm_compute; reflexivity. Qed.

Print Assumptions accepted_no_errors.
Print Assumptions depth_counts_open_productions.
Print Assumptions ll_options_peak.
Print Assumptions ll_options_verdict.
Print Assumptions ll_options_verdict_fuel.
Print Assumptions ll_depth_limit_error.
Print Assumptions ll_options_reject.
Print Assumptions ll_options_reject_classes.
