(** * Parser options of the LALR(1) runtime parser: [trim_parse_tree] and [max_parsing_depth]
      ([LRParser::parse_into] / [call_action] / [handle_additional_tokens],
       crates/parol_runtime/src/lr_parser/parser_types.rs;
       [LRParseTree], [build_tree], [From<&LRParseTree> for ParseTreeType],
       crates/parol_runtime/src/lr_parser/parse_tree.rs).

    Runtime/LRParser.v models the loop with the options at their defaults.  This file transcribes
    the loop once more WITH the two options ([lr_step_o], [lr_loop_o], [lr_run_opts]) and proves
    that the transcription factors through the pinned [lr_step]:

      lr_run_opts f tb o toks = project_d (lo_trim o) (lr_run_d f tb (lo_max_depth o) toks)

    where [lr_run_d] is [lr_step] iterated with the depth check in front of every iteration and
    [project_d] is a projection of the result.  Everything else is a corollary.

    What the Rust code does with the options (the modelling decisions)

    - [max_parsing_depth = Some(m)]: the FIRST statement of every loop iteration is
        [if self.parser_stack.stack.len() > m { return Err(MaxParsingDepthExceeded{depth: len}) }].
      What is measured is the length of the LR STATE stack (it starts as [vec![0]], length 1), at
      the loop head only, before anything else of the iteration (skip tokens, lookahead, action).
      The error carries the offending length: [DepthExceeded depth].  [usize] is [N] for the limit;
      the stack length is a [nat].  The field [LRProduction::is_push_production] is NOT read by the
      LR parser (its doc comment says such productions "should not be counted towards the maximum
      parsing depth"; only the LL parser implements that).
    - [trim_parse_tree = true] changes exactly three things:
      (1) [call_action] pushes [NonTerminal(name, None)] instead of [NonTerminal(name, Some(children))];
      (2) [handle_additional_tokens] does not push skip tokens on the parse tree stack
          ([on_comment] is still called);
      (3) after the loop NOTHING is handed to the tree builder (no synthetic root, no
          [build_tree] call): [parse_into] returns [Ok(())] with an untouched builder.
      Shift still pushes [Terminal(token)] in both modes; [pop_n] and the argument vector are
      computed before (1) from the popped stack entries, and an entry is turned into an argument
      by [ParseTreeType::from]: [Terminal(t) => T(t)], [NonTerminal(name, _) => N(name)] - the
      children field is ignored.  Hence the model's parse tree is the Rust type itself,
        [ptree := PTerm t | PNonTerm nt (children : option (list ptree))],
      an argument is a [sym] ([T t] / [NT nt]), a semantic-action call is recorded as
      [(production number, arguments)], and the result of an accepting run is
      [AcceptedO calls built] with [built = None] when the tree builder receives nothing (trim) and
      [built = Some forest] when it receives the synthetic root [NonTerminal("", Some(forest))].
    - Skip tokens are outside the model, as in LRParser.v: without trimming they lie on the parse
      tree stack but [pop_n] does not count them and the argument vector filters them out (same
      predicate [is_effectively_skip_token] in both places); with trimming they are not pushed at
      all.  The call of [handle_additional_tokens] after the loop (only made when not trimming)
      can never find a token: the loop-head call of the accepting iteration has drained the skip
      tokens in front of the lookahead token and Accept consumes nothing; so the comment callbacks
      do not depend on the option either.
    - Panic / InternalError sites are numbered as in LRParser.v.  *)
From Coq Require Import List NArith Bool Lia Arith.
From Parol Require Import Grammar.Cfg Runtime.LRParser Tables.LRValidate.
Import ListNotations.
Local Open Scope N_scope.

(** ** Options, parse trees, results *)
Record lr_options := mkLROpts {
  lo_trim : bool;                (* LRParser.trim_parse_tree *)
  lo_max_depth : option N        (* LRParser.max_parsing_depth *)
}.

Definition lr_default_options : lr_options := mkLROpts false None.

(** [LRParseTree]: [Terminal(token)] | [NonTerminal(name, Option<Vec<LRParseTree>>)]; the name is
    [non_terminal_names[lhs]], represented by [lhs]. *)
Inductive ptree :=
| PTerm (t : N)
| PNonTerm (nt : N) (children : option (list ptree)).

(** [impl From<&LRParseTree> for ParseTreeType]: the element of the argument slice of a user action. *)
Definition ptree_arg (t : ptree) : sym :=
  match t with PTerm a => T a | PNonTerm a _ => NT a end.

(** One call [call_semantic_action_for_production_number(prod_num, &arguments)]. *)
Notation lr_call := (N * list sym)%type (only parsing).

Inductive lr_result_o :=
| AcceptedO (calls : list lr_call) (built : option (list ptree))
    (* Ok(()): the user-action calls in order; [Some forest]: [build_tree] was called with
       [NonTerminal("", Some(forest))]; [None]: the tree builder was not touched *)
| RejectedO
| OutOfFuelO
| InternalErrO (site : nat)
| PanicO (site : nat)
| DepthExceeded (depth : nat).   (* Err(ParserError::MaxParsingDepthExceeded { depth }) *)

Record lr_conf_o := mkConfO {
  o_states : list N;             (* parser_stack.stack, top first *)
  o_trees : list ptree;          (* parse_tree_stack.stack, top first *)
  o_input : list N;
  o_calls : list lr_call         (* user-action calls, latest first *)
}.

Inductive lr_step_result_o := ContinueO (c : lr_conf_o) | DoneO (r : lr_result_o).

(** [call_action] with the [trim_parse_tree] flag: panic site, or
    (n, arguments of the user action, new parse tree stack). *)
Definition call_action_o (trim : bool) (tb : lr_table) (p : N) (ts : list ptree)
  : nat + (nat * list sym * list ptree) :=
  match nth_error (lr_prods tb) (N.to_nat p) with
  | None => inl 6%nat
  | Some lp =>
      let n := lp_len lp in
      let popped := firstn n ts in
      if negb (Nat.eqb (length popped) n) then inl 7%nat
      else if negb (N.ltb (lp_lhs lp) (lr_nnt tb)) then inl 8%nat
      else
        let children := rev popped in
        inr (n, map ptree_arg children,
             PNonTerm (lp_lhs lp) (if trim then None else Some children) :: skipn n ts)
  end.

(** One iteration of the [loop] in [parse_into] AFTER the depth check. *)
Definition lr_step_o (trim : bool) (tb : lr_table) (c : lr_conf_o) : lr_step_result_o :=
  let la := lookahead (o_input c) in
  match o_states c with
  | [] => DoneO (PanicO 3)
  | cur :: _ =>
    match nth_error (lr_states tb) (N.to_nat cur) with
    | None => DoneO (PanicO 1)
    | Some st =>
      match assoc la (st_actions st) with
      | None =>
          if negb (N.ltb la (lr_nterm tb)) then DoneO (PanicO 4)
          else if negb (forallb (fun e => N.ltb (fst e) (lr_nterm tb)) (st_actions st))
          then DoneO (PanicO 5)
          else DoneO RejectedO
      | Some ai =>
        match nth_error (lr_actions tb) (N.to_nat ai) with
        | None => DoneO (PanicO 2)
        | Some (Shift next) =>
            (* the token is pushed whether or not the tree is trimmed *)
            ContinueO (mkConfO (next :: o_states c) (PTerm la :: o_trees c) (tl (o_input c)) (o_calls c))
        | Some (Reduce nt p) =>
            match call_action_o trim tb p (o_trees c) with
            | inl site => DoneO (PanicO site)
            | inr (n, args, ts') =>
                if Nat.ltb (length (o_states c)) n then DoneO (InternalErrO 1)
                else
                  match skipn n (o_states c) with
                  | [] => DoneO (PanicO 9)
                  | s :: rest =>
                    match nth_error (lr_states tb) (N.to_nat s) with
                    | None => DoneO (PanicO 10)
                    | Some st' =>
                      match assoc nt (st_gotos st') with
                      | None => DoneO (InternalErrO 2)
                      | Some gt =>
                          ContinueO (mkConfO (gt :: s :: rest) ts' (o_input c) ((p, args) :: o_calls c))
                      end
                    end
                  end
            end
        | Some Accept =>
            match find_start_prod tb with
            | None => DoneO (InternalErrO 3)
            | Some p0 =>
                match call_action_o trim tb p0 (o_trees c) with
                | inl site => DoneO (PanicO site)
                | inr (_, args, ts') =>
                    (* break; if !trim { build_tree(NonTerminal("", Some(pop_all()))) } *)
                    DoneO (AcceptedO (rev ((p0, args) :: o_calls c))
                                     (if trim then None else Some (rev ts')))
                end
            end
        end
      end
    end
  end.

(** [if let Some(max_depth) = self.max_parsing_depth && self.parser_stack.stack.len() > max_depth] *)
Definition depth_exceeded (md : option N) (len : nat) : bool :=
  match md with None => false | Some m => N.ltb m (N.of_nat len) end.

Fixpoint lr_loop_o (fuel : nat) (tb : lr_table) (o : lr_options) (c : lr_conf_o) : lr_result_o :=
  match fuel with
  | O => OutOfFuelO
  | S fuel' =>
      if depth_exceeded (lo_max_depth o) (length (o_states c))
      then DepthExceeded (length (o_states c))
      else
        match lr_step_o (lo_trim o) tb c with
        | DoneO r => r
        | ContinueO c' => lr_loop_o fuel' tb o c'
        end
  end.

Definition lr_init_o (toks : list N) : lr_conf_o := mkConfO [0] [] toks [].

(** The options-aware model.  [fuel] bounds the number of loop iterations exactly as in [lr_run]:
    an accepting run over [n] tokens with [r] reductions needs [n + r + 1]; any larger value gives
    the same answer. *)
Definition lr_run_opts (fuel : nat) (tb : lr_table) (o : lr_options) (toks : list N) : lr_result_o :=
  lr_loop_o fuel tb o (lr_init_o toks).

(** ** The same loop built from the pinned [lr_step] *)
Inductive lr_result_d := RunDone (r : lr_result) | RunDepth (depth : nat).

Definition depth (c : lr_conf) : nat := length (c_states c).

Fixpoint lr_loop_d (fuel : nat) (tb : lr_table) (md : option N) (c : lr_conf) : lr_result_d :=
  match fuel with
  | O => RunDone OutOfFuel
  | S fuel' =>
      if depth_exceeded md (depth c) then RunDepth (depth c)
      else
        match lr_step tb c with
        | Done r => RunDone r
        | Continue c' => lr_loop_d fuel' tb md c'
        end
  end.

Definition lr_run_d (fuel : nat) (tb : lr_table) (md : option N) (toks : list N) : lr_result_d :=
  lr_loop_d fuel tb md (lr_init toks).

(** The untrimmed Rust tree of a model tree, and what is left of it on a trimmed stack. *)
Fixpoint embed (t : tree) : ptree :=
  match t with
  | Leaf a => PTerm a
  | Node p cs => PNonTerm (lhs p) (Some (map embed cs))
  end.

Definition shape (t : tree) : ptree :=
  match t with Leaf a => PTerm a | Node p _ => PNonTerm (lhs p) None end.

Definition conv (trim : bool) (t : tree) : ptree := if trim then shape t else embed t.

(** The arguments of the calls, read off the untrimmed forest: the i-th call gets the roots of the
    children of the i-th inner node in postorder (the label of a model node is
    [mkProd lhs (map root_sym children)]). *)
Definition calls_of (reds : list N) (forest : list tree) : list lr_call :=
  combine reds (map rhs (flat_map postorder forest)).

Definition built_of (trim : bool) (forest : list tree) : option (list ptree) :=
  if trim then None else Some (map embed forest).

Definition project (trim : bool) (r : lr_result) : lr_result_o :=
  match r with
  | Accepted reds forest => AcceptedO (calls_of reds forest) (built_of trim forest)
  | Rejected => RejectedO
  | OutOfFuel => OutOfFuelO
  | InternalErr s => InternalErrO s
  | Panic s => PanicO s
  end.

Definition project_d (trim : bool) (r : lr_result_d) : lr_result_o :=
  match r with RunDone r' => project trim r' | RunDepth k => DepthExceeded k end.

(** The run, the stack lengths at the loop heads, and their maximum. *)
Fixpoint lr_trace (fuel : nat) (tb : lr_table) (c : lr_conf) : list lr_conf :=
  match fuel with
  | O => []
  | S fuel' =>
      c :: match lr_step tb c with
           | Done _ => []
           | Continue c' => lr_trace fuel' tb c'
           end
  end.

Fixpoint lr_peak (fuel : nat) (tb : lr_table) (c : lr_conf) : nat :=
  match fuel with
  | O => 0%nat
  | S fuel' =>
      match lr_step tb c with
      | Done _ => depth c
      | Continue c' => Nat.max (depth c) (lr_peak fuel' tb c')
      end
  end.

(** Configurations at the loop heads of the run without a limit / their maximal stack length. *)
Definition lr_run_trace (fuel : nat) (tb : lr_table) (toks : list N) : list lr_conf :=
  lr_trace fuel tb (lr_init toks).
Definition lr_run_peak (fuel : nat) (tb : lr_table) (toks : list N) : nat :=
  lr_peak fuel tb (lr_init toks).

(** [fits d md]: a run whose stack never gets longer than [d] does not reach the limit [md]. *)
Definition fits (d : nat) (md : option N) : Prop :=
  match md with None => True | Some m => N.of_nat d <= m end.

(** [fits] is the negation of the Rust test (for harness use: [depth_exceeded md d] is computable). *)
Lemma fits_iff d md : fits d md <-> depth_exceeded md d = false.
Proof.
  destruct md as [m|]; cbn [fits depth_exceeded]; [|split; reflexivity].
  rewrite N.ltb_ge. reflexivity.
Qed.

(** ** Simulation of [lr_step_o] by [lr_step] *)
Lemma conv_arg b t : ptree_arg (conv b t) = root_sym t.
Proof. destruct b, t; reflexivity. Qed.

Lemma combine_fst_snd {A B} (l : list (A * B)) : combine (map fst l) (map snd l) = l.
Proof. induction l as [|[a b] l IH]; simpl; [reflexivity|]. rewrite IH. reflexivity. Qed.

Definition sim (b : bool) (c : lr_conf) (co : lr_conf_o) : Prop :=
  o_states co = c_states c /\ o_trees co = map (conv b) (c_trees c) /\ o_input co = c_input c /\
  map fst (o_calls co) = c_reds c /\
  map snd (rev (o_calls co)) = map rhs (flat_map postorder (rev (c_trees c))).

Lemma call_action_sim b tb p ts :
  match call_action tb p ts with
  | inl s => call_action_o b tb p (map (conv b) ts) = inl s
  | inr (n, ts') => exists args,
      call_action_o b tb p (map (conv b) ts) = inr (n, args, map (conv b) ts') /\
      map rhs (flat_map postorder (rev ts')) = map rhs (flat_map postorder (rev ts)) ++ [args]
  end.
Proof.
  unfold call_action, call_action_o.
  destruct (nth_error (lr_prods tb) (N.to_nat p)) as [lp|]; [|reflexivity].
  rewrite firstn_map, map_length, skipn_map.
  destruct (negb (Nat.eqb (length (firstn (lp_len lp) ts)) (lp_len lp))); [reflexivity|].
  destruct (negb (N.ltb (lp_lhs lp) (lr_nnt tb))); [reflexivity|].
  exists (map root_sym (rev (firstn (lp_len lp) ts))). split.
  - rewrite <- map_rev, map_map.
    rewrite (map_ext (fun x => ptree_arg (conv b x)) root_sym (fun t => conv_arg b t)).
    cbn [map]. destruct b; reflexivity.
  - pose proof (firstn_skipn (lp_len lp) ts) as Hts.
    set (a := firstn (lp_len lp) ts) in *. set (r := skipn (lp_len lp) ts) in *.
    rewrite <- Hts. cbn [rev]. rewrite rev_app_distr, !flat_map_app, !map_app.
    cbn [flat_map postorder]. rewrite app_nil_r, map_app, app_assoc. reflexivity.
Qed.

(** Results related by the simulation; it implies [ro = project b r] and keeps the fact that the
    calls and the inner nodes are equally many. *)
Definition res_rel (b : bool) (r : lr_result) (ro : lr_result_o) : Prop :=
  match r with
  | Accepted reds forest => exists calls,
      ro = AcceptedO calls (built_of b forest) /\ map fst calls = reds /\
      map snd calls = map rhs (flat_map postorder forest)
  | other => ro = project b other
  end.

Lemma res_rel_project b r ro : res_rel b r ro -> ro = project b r.
Proof.
  destruct r as [reds forest| | | |]; simpl; intros H; try exact H.
  destruct H as (calls & -> & Hf & Hs). unfold calls_of. rewrite <- Hf, <- Hs, combine_fst_snd.
  reflexivity.
Qed.

Definition step_rel (b : bool) (r : lr_step_result) (ro : lr_step_result_o) : Prop :=
  match r, ro with
  | Continue c', ContinueO co' => sim b c' co'
  | Done r', DoneO ro' => res_rel b r' ro'
  | _, _ => False
  end.

Lemma lr_step_sim b tb c co : sim b c co -> step_rel b (lr_step tb c) (lr_step_o b tb co).
Proof.
  destruct c as [sts ts inp reds], co as [osts ots oinp calls]. unfold sim. cbn [o_states o_trees o_input o_calls c_states c_trees c_input c_reds].
  intros (-> & -> & -> & Hf & Hs). unfold lr_step, lr_step_o.
  cbn [o_states o_trees o_input o_calls c_states c_trees c_input c_reds].
  destruct sts as [|cur sts']; [reflexivity|].
  destruct (nth_error (lr_states tb) (N.to_nat cur)) as [st|]; [|reflexivity].
  destruct (assoc (lookahead inp) (st_actions st)) as [ai|].
  2:{ destruct (negb (N.ltb (lookahead inp) (lr_nterm tb))); [reflexivity|].
      destruct (negb (forallb (fun e => N.ltb (fst e) (lr_nterm tb)) (st_actions st))); reflexivity. }
  destruct (nth_error (lr_actions tb) (N.to_nat ai)) as [[next|nt p|]|]; [| | |reflexivity].
  - (* Shift *)
    cbn [step_rel]. unfold sim. cbn [o_states o_trees o_input o_calls c_states c_trees c_input c_reds].
    repeat split; try assumption.
    + cbn [map]. f_equal. destruct b; reflexivity.
    + cbn [rev]. rewrite flat_map_app. cbn [flat_map postorder]. rewrite !app_nil_r. exact Hs.
  - (* Reduce *)
    pose proof (call_action_sim b tb p ts) as Hca.
    destruct (call_action tb p ts) as [site|[n ts']].
    + rewrite Hca. reflexivity.
    + destruct Hca as (args & -> & Hpo).
      destruct (Nat.ltb (length (cur :: sts')) n); [reflexivity|].
      destruct (skipn n (cur :: sts')) as [|s rest]; [reflexivity|].
      destruct (nth_error (lr_states tb) (N.to_nat s)) as [st'|]; [|reflexivity].
      destruct (assoc nt (st_gotos st')) as [gt|]; [|reflexivity].
      cbn [step_rel]. unfold sim. cbn [o_states o_trees o_input o_calls c_states c_trees c_input c_reds].
      repeat split.
      * cbn [map fst]. rewrite Hf. reflexivity.
      * cbn [rev]. rewrite map_app. cbn [map snd]. rewrite Hs, Hpo. reflexivity.
  - (* Accept *)
    destruct (find_start_prod tb) as [p0|]; [|reflexivity].
    pose proof (call_action_sim b tb p0 ts) as Hca.
    destruct (call_action tb p0 ts) as [site|[n ts']].
    + rewrite Hca. reflexivity.
    + destruct Hca as (args & -> & Hpo).
      cbn [step_rel res_rel]. exists (rev ((p0, args) :: calls)). split; [|split].
      * f_equal. unfold built_of. destruct b; [reflexivity|]. rewrite map_rev. reflexivity.
      * rewrite map_rev. cbn [map fst]. rewrite Hf. reflexivity.
      * cbn [rev]. rewrite map_app. cbn [map snd]. rewrite Hs, Hpo. reflexivity.
Qed.

Definition res_rel_d (b : bool) (r : lr_result_d) (ro : lr_result_o) : Prop :=
  match r with RunDone r' => res_rel b r' ro | RunDepth k => ro = DepthExceeded k end.

Lemma lr_loop_sim b md tb fuel : forall c co, sim b c co ->
  res_rel_d b (lr_loop_d fuel tb md c) (lr_loop_o fuel tb (mkLROpts b md) co).
Proof.
  induction fuel as [|fuel IH]; intros c co Hsim; [reflexivity|].
  cbn [lr_loop_d lr_loop_o lo_max_depth lo_trim]. unfold depth.
  assert (Hst : o_states co = c_states c) by apply Hsim. rewrite Hst.
  destruct (depth_exceeded md (length (c_states c))); [reflexivity|].
  pose proof (lr_step_sim b tb c co Hsim) as Hstep.
  destruct (lr_step tb c) as [c'|r], (lr_step_o b tb co) as [co'|ro]; cbn [step_rel] in Hstep;
    try contradiction.
  - apply IH. exact Hstep.
  - exact Hstep.
Qed.

Lemma sim_init b toks : sim b (lr_init toks) (lr_init_o toks).
Proof. unfold sim. repeat split. Qed.

Lemma lr_run_opts_rel f tb o toks :
  res_rel_d (lo_trim o) (lr_run_d f tb (lo_max_depth o) toks) (lr_run_opts f tb o toks).
Proof.
  destruct o as [b md]. unfold lr_run_d, lr_run_opts. apply lr_loop_sim. apply sim_init.
Qed.

(** *** The options-aware transcription IS the pinned step function with the depth check in front
        and a projection of the result behind. *)
Theorem lr_run_opts_wrap : forall f tb o toks,
  lr_run_opts f tb o toks = project_d (lo_trim o) (lr_run_d f tb (lo_max_depth o) toks).
Proof.
  intros f tb o toks. pose proof (lr_run_opts_rel f tb o toks) as H.
  destruct (lr_run_d f tb (lo_max_depth o) toks) as [r|k]; cbn [res_rel_d project_d] in *.
  - apply res_rel_project. exact H.
  - exact H.
Qed.

(** ** The depth check against the run without a limit *)
Lemma lr_loop_d_none f tb : forall c, lr_loop_d f tb None c = RunDone (lr_loop f tb c).
Proof.
  induction f as [|f IH]; intros c; [reflexivity|]. cbn [lr_loop_d lr_loop depth_exceeded].
  destruct (lr_step tb c) as [c'|r]; [apply IH|reflexivity].
Qed.

Definition over (m : N) (c : lr_conf) : bool := N.ltb m (N.of_nat (depth c)).

(** With a limit, the answer is the depth error of the FIRST loop head whose stack is longer than
    the limit, and the answer of the run without a limit if there is none. *)
Lemma lr_loop_d_find f tb m : forall c,
  lr_loop_d f tb (Some m) c =
  match find (over m) (lr_trace f tb c) with
  | Some c' => RunDepth (depth c')
  | None => RunDone (lr_loop f tb c)
  end.
Proof.
  induction f as [|f IH]; intros c; [reflexivity|].
  cbn [lr_loop_d lr_loop lr_trace find depth_exceeded]. fold (over m c).
  destruct (over m c); [reflexivity|].
  destruct (lr_step tb c) as [c'|r]; [apply IH|reflexivity].
Qed.

Theorem lr_peak_trace : forall f tb c, lr_peak f tb c = list_max (map depth (lr_trace f tb c)).
Proof.
  induction f as [|f IH]; intros tb c; [reflexivity|]. cbn [lr_peak lr_trace map list_max fold_right].
  destruct (lr_step tb c) as [c'|r].
  - rewrite IH. reflexivity.
  - cbn [map fold_right]. rewrite Nat.max_0_r. reflexivity.
Qed.

Lemma peak_le_iff l (m : N) :
  N.of_nat (list_max (map depth l)) <= m <-> Forall (fun c => over m c = false) l.
Proof.
  induction l as [|c l IH].
  - cbn. split; [constructor|lia].
  - cbn [map]. change (list_max (depth c :: map depth l)) with (Nat.max (depth c) (list_max (map depth l))).
    split.
    + intros H. constructor.
      * unfold over. apply N.ltb_ge. lia.
      * apply IH. lia.
    + intros H. inversion H as [|c0 l0 Hc Hl]; subst. apply IH in Hl.
      unfold over in Hc. apply N.ltb_ge in Hc. lia.
Qed.

Lemma find_none_iff {A} (f : A -> bool) l : find f l = None <-> Forall (fun x => f x = false) l.
Proof.
  induction l as [|x l IH]; cbn [find].
  - split; [constructor|reflexivity].
  - destruct (f x) eqn:E.
    + split; [discriminate|]. intros H. inversion H; subst. congruence.
    + rewrite IH. split; [intros H; constructor; assumption|intros H; inversion H; assumption].
Qed.

(** [find] returns the first element that satisfies the predicate. *)
Lemma find_first {A} (f : A -> bool) l x :
  find f l = Some x <->
  exists pre post, l = pre ++ x :: post /\ Forall (fun y => f y = false) pre /\ f x = true.
Proof.
  split.
  - induction l as [|y l IH]; cbn [find]; [discriminate|].
    destruct (f y) eqn:E.
    + intros H. inversion H; subst. exists [], l. repeat split; [constructor|exact E].
    + intros H. destruct (IH H) as (pre & post & -> & Hpre & Hx).
      exists (y :: pre), post. repeat split; [constructor; assumption|exact Hx].
  - intros (pre & post & -> & Hpre & Hx). induction Hpre as [|y pre Hy _ IH]; cbn [app find].
    + rewrite Hx. reflexivity.
    + rewrite Hy. exact IH.
Qed.

Lemma in_depth_le_peak c l : In c l -> (depth c <= list_max (map depth l))%nat.
Proof.
  intros H. assert (Hall : Forall (fun k => (k <= list_max (map depth l))%nat) (map depth l))
    by (apply list_max_le; apply Nat.le_refl).
  rewrite Forall_forall in Hall. apply Hall. apply in_map. exact H.
Qed.

(** ** (d) The depth error is returned exactly when the stack length first exceeds the limit *)
Theorem lr_depth_error_first : forall f tb o toks k,
  lr_run_opts f tb o toks = DepthExceeded k <->
  exists m pre c post,
    lo_max_depth o = Some m /\ lr_run_trace f tb toks = pre ++ c :: post /\
    Forall (fun c' => N.of_nat (depth c') <= m) pre /\ m < N.of_nat (depth c) /\ k = depth c.
Proof.
  intros f tb o toks k. rewrite lr_run_opts_wrap. unfold lr_run_d, lr_run_trace.
  destruct (lo_max_depth o) as [m|].
  - rewrite lr_loop_d_find. split.
    + destruct (find (over m) (lr_trace f tb (lr_init toks))) as [c|] eqn:E.
      * cbn [project_d]. intros H. inversion H; subst k.
        apply find_first in E. destruct E as (pre & post & Ht & Hpre & Hc).
        exists m, pre, c, post. split; [reflexivity|]. split; [exact Ht|]. split.
        -- eapply Forall_impl; [|exact Hpre]. intros c' Hc'. apply N.ltb_ge. exact Hc'.
        -- split; [apply N.ltb_lt; exact Hc|reflexivity].
      * cbn [project_d]. destruct (lr_loop f tb (lr_init toks)); discriminate.
    + intros (m' & pre & c & post & Hm & Ht & Hpre & Hc & ->). inversion Hm; subst m'.
      assert (E : find (over m) (lr_trace f tb (lr_init toks)) = Some c).
      { apply find_first. exists pre, post. split; [exact Ht|]. split.
        - eapply Forall_impl; [|exact Hpre]. intros c' Hc'. apply N.ltb_ge. exact Hc'.
        - apply N.ltb_lt. exact Hc. }
      rewrite E. reflexivity.
  - rewrite lr_loop_d_none. split.
    + cbn [project_d]. destruct (lr_loop f tb (lr_init toks)); discriminate.
    + intros (m & _ & _ & _ & Hm & _). discriminate.
Qed.

(** ** The master theorem: what the options do to the outcome *)
Theorem lr_options_outcome : forall f tb o toks,
  (fits (lr_run_peak f tb toks) (lo_max_depth o) ->
     lr_run_opts f tb o toks = project (lo_trim o) (lr_run f tb toks)) /\
  (forall m, lo_max_depth o = Some m -> m < N.of_nat (lr_run_peak f tb toks) ->
     exists k, lr_run_opts f tb o toks = DepthExceeded k /\
               m < N.of_nat k /\ (k <= lr_run_peak f tb toks)%nat).
Proof.
  intros f tb o toks. rewrite lr_run_opts_wrap. unfold lr_run_d, lr_run_peak, lr_run, fits.
  rewrite lr_peak_trace. split.
  - destruct (lo_max_depth o) as [m|].
    + intros Hfit. rewrite lr_loop_d_find.
      apply peak_le_iff, find_none_iff in Hfit. rewrite Hfit. reflexivity.
    + intros _. rewrite lr_loop_d_none. reflexivity.
  - intros m -> Hlt. rewrite lr_loop_d_find.
    destruct (find (over m) (lr_trace f tb (lr_init toks))) as [c|] eqn:E.
    + apply find_some in E. destruct E as [Hin Hc]. exists (depth c). split; [reflexivity|].
      split; [apply N.ltb_lt; exact Hc|]. apply in_depth_le_peak. exact Hin.
    + apply find_none_iff, peak_le_iff in E. lia.
Qed.

Lemma fits_dec d md : {fits d md} + {exists m, md = Some m /\ m < N.of_nat d}.
Proof.
  destruct md as [m|]; [|left; exact I].
  destruct (N.leb (N.of_nat d) m) eqn:E.
  - left. apply N.leb_le. exact E.
  - right. exists m. split; [reflexivity|]. apply N.leb_gt. exact E.
Defined.

(** ** (a) Default options *)
Theorem lr_run_opts_default : forall f tb toks,
  lr_run_opts f tb lr_default_options toks = project false (lr_run f tb toks).
Proof.
  intros f tb toks. apply (proj1 (lr_options_outcome f tb lr_default_options toks)). exact I.
Qed.

(** Acceptance under options, in terms of the pinned model: the production numbers are the
    reductions of [lr_run], the i-th argument vector is the right-hand side of the label of the
    i-th inner node of the (untrimmed) forest in postorder - whatever [lo_trim] says. *)
Theorem lr_opts_accept_inv : forall f tb o toks calls built,
  lr_run_opts f tb o toks = AcceptedO calls built <->
  fits (lr_run_peak f tb toks) (lo_max_depth o) /\
  exists forest, lr_run f tb toks = Accepted (map fst calls) forest /\
                 map snd calls = map rhs (flat_map postorder forest) /\
                 built = built_of (lo_trim o) forest.
Proof.
  intros f tb o toks calls built. split.
  - intros Hacc.
    destruct (fits_dec (lr_run_peak f tb toks) (lo_max_depth o)) as [Hfit|(m & Hm & Hlt)].
    + split; [exact Hfit|].
      pose proof (lr_run_opts_rel f tb o toks) as Hrel.
      assert (Hd : lr_run_d f tb (lo_max_depth o) toks = RunDone (lr_run f tb toks)).
      { unfold lr_run_d, lr_run. unfold lr_run_peak in Hfit. rewrite lr_peak_trace in Hfit.
        destruct (lo_max_depth o) as [m|].
        - rewrite lr_loop_d_find. apply peak_le_iff, find_none_iff in Hfit. rewrite Hfit. reflexivity.
        - apply lr_loop_d_none. }
      rewrite Hd, Hacc in Hrel. cbn [res_rel_d] in Hrel.
      destruct (lr_run f tb toks) as [reds forest| | | |]; cbn [res_rel project] in Hrel;
        try discriminate.
      destruct Hrel as (calls' & Heq & Hf & Hs). inversion Heq; subst calls' built.
      exists forest. subst reds. repeat split. exact Hs.
    + destruct (proj2 (lr_options_outcome f tb o toks) m Hm Hlt) as (k & Hk & _). congruence.
  - intros (Hfit & forest & Hrun & Hs & ->).
    rewrite (proj1 (lr_options_outcome f tb o toks) Hfit), Hrun. cbn [project]. f_equal.
    unfold calls_of. rewrite <- Hs. apply combine_fst_snd.
Qed.

(** ** (b) Options do not change acceptance or the semantic actions *)
Theorem lr_options_verdict : forall f tb o1 toks calls built,
  lr_run_opts f tb o1 toks = AcceptedO calls built ->
  exists d, d = lr_run_peak f tb toks /\ fits d (lo_max_depth o1) /\
  forall o2,
    (fits d (lo_max_depth o2) ->
       exists built2, lr_run_opts f tb o2 toks = AcceptedO calls built2 /\
                      (lo_trim o2 = lo_trim o1 -> built2 = built) /\
                      (built2 = None <-> lo_trim o2 = true)) /\
    (forall m, lo_max_depth o2 = Some m -> m < N.of_nat d ->
       exists k, lr_run_opts f tb o2 toks = DepthExceeded k /\ m < N.of_nat k /\ (k <= d)%nat).
Proof.
  intros f tb o1 toks calls built Hacc. exists (lr_run_peak f tb toks). split; [reflexivity|].
  apply lr_opts_accept_inv in Hacc. destruct Hacc as (Hfit1 & forest & Hrun & Hs & Hb).
  split; [exact Hfit1|]. intros o2. split.
  - intros Hfit2. exists (built_of (lo_trim o2) forest). split; [|split].
    + apply lr_opts_accept_inv. split; [exact Hfit2|]. exists forest. repeat split; assumption.
    + intros ->. symmetry. exact Hb.
    + unfold built_of. destruct (lo_trim o2); split; try reflexivity; discriminate.
  - apply (proj2 (lr_options_outcome f tb o2 toks)).
Qed.

(** ** (c) Options never turn a non-accepting run into an accepting one, and never add a panic *)
Theorem lr_options_reject : forall f tb o1 toks,
  lr_run_opts f tb o1 toks = RejectedO ->
  forall o2,
    (fits (lr_run_peak f tb toks) (lo_max_depth o2) -> lr_run_opts f tb o2 toks = RejectedO) /\
    (lr_run_opts f tb o2 toks = RejectedO \/ exists k, lr_run_opts f tb o2 toks = DepthExceeded k).
Proof.
  intros f tb o1 toks Hrej o2.
  assert (Hrun : lr_run f tb toks = Rejected).
  { destruct (fits_dec (lr_run_peak f tb toks) (lo_max_depth o1)) as [Hfit|(m & Hm & Hlt)].
    - rewrite (proj1 (lr_options_outcome f tb o1 toks) Hfit) in Hrej.
      destruct (lr_run f tb toks); cbn [project] in Hrej; try discriminate. reflexivity.
    - destruct (proj2 (lr_options_outcome f tb o1 toks) m Hm Hlt) as (k & Hk & _). congruence. }
  assert (H1 : fits (lr_run_peak f tb toks) (lo_max_depth o2) -> lr_run_opts f tb o2 toks = RejectedO).
  { intros Hfit. rewrite (proj1 (lr_options_outcome f tb o2 toks) Hfit), Hrun. reflexivity. }
  split; [exact H1|].
  destruct (fits_dec (lr_run_peak f tb toks) (lo_max_depth o2)) as [Hfit|(m & Hm & Hlt)].
  - left. apply H1. exact Hfit.
  - right. destruct (proj2 (lr_options_outcome f tb o2 toks) m Hm Hlt) as (k & Hk & _).
    exists k. exact Hk.
Qed.

(** Every outcome under options is the depth error or the projection of the outcome of [lr_run]. *)
Theorem lr_options_cases : forall f tb o toks,
  lr_run_opts f tb o toks = project (lo_trim o) (lr_run f tb toks) \/
  exists k, lr_run_opts f tb o toks = DepthExceeded k.
Proof.
  intros f tb o toks.
  destruct (fits_dec (lr_run_peak f tb toks) (lo_max_depth o)) as [Hfit|(m & Hm & Hlt)].
  - left. apply (proj1 (lr_options_outcome f tb o toks) Hfit).
  - right. destruct (proj2 (lr_options_outcome f tb o toks) m Hm Hlt) as (k & Hk & _).
    exists k. exact Hk.
Qed.

(** If [lr_run] does not accept, no choice of options accepts. *)
Theorem lr_options_never_accept : forall f tb toks,
  (forall reds forest, lr_run f tb toks <> Accepted reds forest) ->
  forall o calls built, lr_run_opts f tb o toks <> AcceptedO calls built.
Proof.
  intros f tb toks Hno o calls built Hacc. apply lr_opts_accept_inv in Hacc.
  destruct Hacc as (_ & forest & Hrun & _). exact (Hno _ _ Hrun).
Qed.

(** Panic- and InternalError-freedom of validated tables carry over to every option setting. *)
Theorem lr_opts_no_panic : forall g tb ann f o toks site,
  lr_safe_check g tb ann = true -> Forall (fun t => (t < lr_nterm tb)%N) toks ->
  lr_run_opts f tb o toks <> PanicO site.
Proof.
  intros g tb ann f o toks site Hchk Hall Hp.
  destruct (lr_options_cases f tb o toks) as [H|(k & H)]; rewrite H in Hp; [|discriminate].
  pose proof (lr_no_panic g tb ann f toks site Hchk Hall) as Hnp.
  destruct (lr_run f tb toks); cbn [project] in Hp; try discriminate.
  inversion Hp; subst. apply Hnp. reflexivity.
Qed.

Theorem lr_opts_no_internal_error : forall g tb ann f o toks site,
  lr_safe_check g tb ann = true -> lr_run_opts f tb o toks <> InternalErrO site.
Proof.
  intros g tb ann f o toks site Hchk Hp.
  destruct (lr_options_cases f tb o toks) as [H|(k & H)]; rewrite H in Hp; [|discriminate].
  pose proof (lr_no_internal_error g tb ann f toks site Hchk) as Hnp.
  destruct (lr_run f tb toks); cbn [project] in Hp; try discriminate.
  inversion Hp; subst. apply Hnp. reflexivity.
Qed.

(** For a validated table the argument vector of every call is the right-hand side of the
    production whose number is passed, under every option setting. *)
Theorem lr_opts_args_are_rhs : forall g tb ann f o toks calls built,
  lr_safe_check g tb ann = true ->
  lr_run_opts f tb o toks = AcceptedO calls built ->
  Forall (fun c => exists p, nth_error (prods g) (N.to_nat (fst c)) = Some p /\ rhs p = snd c) calls.
Proof.
  intros g tb ann f o toks calls built Hchk Hacc.
  apply lr_opts_accept_inv in Hacc. destruct Hacc as (_ & forest & Hrun & Hs & _).
  destruct (lr_safe_check_sound_gen g tb ann f toks _ _ Hchk Hrun)
    as (t & rest & -> & _ & _ & _ & _ & _ & Hnum).
  cbn [flat_map] in Hs. rewrite app_nil_r in Hs. unfold prod_numbers_ok in Hnum.
  revert Hs Hnum. generalize (postorder t). clear. induction calls as [|[p args] calls IH];
    intros ps Hs Hnum; [constructor|].
  destruct ps as [|q ps]; [discriminate|]. cbn [map fst snd] in *.
  inversion Hs as [[Ha Hs']]. inversion Hnum as [|? ? ? ? Hq Hnum']; subst. constructor.
  - exists q. split; [exact Hq|reflexivity].
  - apply (IH ps); assumption.
Qed.

(** ** Examples on the table of Tables/LRValidate.v ([S' -> S; S -> ( S ) | x]) *)
Definition ex_toks : list N := [5; 5; 7; 6; 6].
Definition ex_calls : list lr_call :=
  [(2, [T 7]); (1, [T 5; NT 1; T 6]); (1, [T 5; NT 1; T 6]); (0, [NT 1])].

(** Stack lengths at the loop heads; the peak is 5. *)
Example ex_trace_depths :
  map depth (lr_run_trace 100 ex_tb ex_toks) = [1; 2; 3; 4; 4; 5; 3; 4; 2]%nat /\
  lr_run_peak 100 ex_tb ex_toks = 5%nat.
Proof. vm_compute. split; reflexivity. Qed.

Example ex_default :
  lr_run_opts 100 ex_tb lr_default_options ex_toks
  = AcceptedO ex_calls (Some [embed (Node (mkProd 0 [NT 1]) [ex_paren (ex_paren ex_x)])]).
Proof. vm_compute. reflexivity. Qed.

(** Limit below the peak: the depth error, with the length that first exceeded the limit. *)
Example ex_limit_below_peak :
  lr_run_opts 100 ex_tb (mkLROpts false (Some 4)) ex_toks = DepthExceeded 5 /\
  lr_run_opts 100 ex_tb (mkLROpts true (Some 2)) ex_toks = DepthExceeded 3 /\
  lr_run_opts 100 ex_tb (mkLROpts false (Some 0)) ex_toks = DepthExceeded 1.
Proof. vm_compute. repeat split; reflexivity. Qed.

(** Limit at the peak: accepted, identical calls and identical tree. *)
Example ex_limit_at_peak :
  lr_run_opts 100 ex_tb (mkLROpts false (Some 5)) ex_toks
  = lr_run_opts 100 ex_tb lr_default_options ex_toks.
Proof. vm_compute. reflexivity. Qed.

(** Trimming: identical calls (numbers AND arguments), nothing for the tree builder. *)
Example ex_trim :
  lr_run_opts 100 ex_tb (mkLROpts true None) ex_toks = AcceptedO ex_calls None /\
  lr_run_opts 100 ex_tb (mkLROpts true (Some 5)) ex_toks = AcceptedO ex_calls None.
Proof. vm_compute. split; reflexivity. Qed.

(** A rejected input stays rejected (or hits the limit first). *)
Example ex_rejected :
  lr_run_opts 100 ex_tb lr_default_options [5; 7] = RejectedO /\
  lr_run_opts 100 ex_tb (mkLROpts true (Some 3)) [5; 7] = RejectedO /\
  lr_run_opts 100 ex_tb (mkLROpts true (Some 2)) [5; 7] = DepthExceeded 3.
Proof. vm_compute. repeat split; reflexivity. Qed.

(** The runtime's own unit test [lr_parser_returns_max_depth_error_when_limit_is_exceeded]:
    table [Start -> ;] with Accept in state 0, limit 0, empty input: depth 1. *)
Example ex_unit_test :
  let tb := mkLRTable [Accept] [mkLRState [(0, 0)] []] [mkLRProd 0 0] 0 1 1 in
  lr_run_opts 5 tb (mkLROpts false (Some 0)) [] = DepthExceeded 1 /\
  lr_run_opts 5 tb (mkLROpts false (Some 1)) [] = AcceptedO [(0, [])] (Some [PNonTerm 0 (Some [])]) /\
  lr_run_opts 5 tb (mkLROpts true (Some 1)) [] = AcceptedO [(0, [])] None.
Proof. vm_compute. repeat split; reflexivity. Qed.

(** The empty-production table: the left-recursive list keeps the stack short (peak 3 for any
    number of items). *)
Example ex_eps_peak :
  lr_run_peak 100 eps_tb [5; 5; 5; 5; 5; 5] = 3%nat /\
  exists built, lr_run_opts 100 eps_tb (mkLROpts false (Some 3)) [5; 5; 5; 5; 5; 5]
                = AcceptedO [(2, []); (1, [NT 1; T 5]); (1, [NT 1; T 5]); (1, [NT 1; T 5]);
                             (1, [NT 1; T 5]); (1, [NT 1; T 5]); (1, [NT 1; T 5]); (0, [NT 1])] built.
Proof. split; [vm_compute; reflexivity|]. eexists. vm_compute. reflexivity. Qed.

(** Non-vacuity of the hypotheses of the implications above. *)
Example ex_verdict_instance :
  lr_run_opts 100 ex_tb (mkLROpts true (Some 7)) ex_toks = AcceptedO ex_calls None /\
  fits (lr_run_peak 100 ex_tb ex_toks) (Some 5) /\
  lr_safe_check ex_g ex_tb ex_ann = true /\
  Forall (fun t => t < lr_nterm ex_tb) ex_toks.
Proof.
  split; [vm_compute; reflexivity|]. split; [vm_compute; discriminate|].
  split; [vm_compute; reflexivity|]. repeat constructor.
Qed.

Print Assumptions lr_run_opts_wrap.
Print Assumptions lr_run_opts_default.
Print Assumptions lr_options_outcome.
Print Assumptions lr_opts_accept_inv.
Print Assumptions lr_options_verdict.
Print Assumptions lr_options_reject.
Print Assumptions lr_options_cases.
Print Assumptions lr_options_never_accept.
Print Assumptions lr_opts_no_panic.
Print Assumptions lr_opts_no_internal_error.
Print Assumptions lr_opts_args_are_rhs.
Print Assumptions lr_peak_trace.
Print Assumptions lr_depth_error_first.
