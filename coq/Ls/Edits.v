(* ===================================================================== *)
(*  Ls/Edits.v  --  property C28 (model side)                             *)
(*                                                                       *)
(*  Application of a set of text edits (sorted, non-overlapping ranges   *)
(*  in code-point offsets) and the token-level statement used for the    *)
(*  rename request of parol-ls (parol_ls_grammar.rs: rename):            *)
(*  if the edits are exactly the spans of the selected identifier        *)
(*  tokens, each replaced by the new name, the resulting text is the     *)
(*  original token sequence with exactly those token texts replaced and  *)
(*  every other token and all inter-token text unchanged.                *)
(*  (LSP (line, character) positions are converted to code-point offsets *)
(*  by the caller, e.g. with Ls/PosOffset.v: pos_index.)                 *)
(* ===================================================================== *)
From Coq Require Import List Arith NArith Lia Bool.
Import ListNotations.

Definition text := list N.
Definition edit := (nat * nat * text)%type.      (* (start, end, replacement), end exclusive *)

(* [txt] is the part of the document starting at absolute offset [pos].
   None if the edits are not sorted / overlap / leave the text. *)
Fixpoint apply_from (pos : nat) (txt : text) (es : list edit) : option text :=
  match es with
  | [] => Some txt
  | (s, e, r) :: es' =>
      if (pos <=? s) && (s <=? e) && (e - pos <=? length txt) then
        match apply_from e (skipn (e - pos) txt) es' with
        | Some rest => Some (firstn (s - pos) txt ++ r ++ rest)
        | None => None
        end
      else None
  end.

Definition apply_edits (txt : text) (es : list edit) : option text :=
  apply_from 0 txt es.

Definition removed (es : list edit) : nat :=
  fold_right (fun x acc => match x with (s, e, _) => (e - s) + acc end) 0 es.
Definition inserted (es : list edit) : nat :=
  fold_right (fun x acc => match x with (_, _, r) => length r + acc end) 0 es.

(* ---------- tokens ---------------------------------------------------- *)

Record tok := mkTok {
  t_start : nat;       (* code-point offset of the first char *)
  t_end : nat;         (* offset one past the last char *)
  t_sel : bool         (* identifier token denoting the symbol being renamed *)
}.

(* spans are ordered, disjoint and inside the text; [txt] starts at [pos] *)
Fixpoint toks_ok (pos : nat) (txt : text) (ts : list tok) : Prop :=
  match ts with
  | [] => True
  | t :: ts' =>
      pos <= t_start t /\ t_start t <= t_end t /\ t_end t - pos <= length txt /\
      toks_ok (t_end t) (skipn (t_end t - pos) txt) ts'
  end.

Fixpoint toks_ok_b (pos : nat) (txt : text) (ts : list tok) : bool :=
  match ts with
  | [] => true
  | t :: ts' =>
      (pos <=? t_start t) && (t_start t <=? t_end t) && (t_end t - pos <=? length txt) &&
      toks_ok_b (t_end t) (skipn (t_end t - pos) txt) ts'
  end.

(* the edit set of a rename: the spans of the selected tokens, in order *)
Fixpoint edits_of (ts : list tok) (new : text) : list edit :=
  match ts with
  | [] => []
  | t :: ts' =>
      if t_sel t then (t_start t, t_end t, new) :: edits_of ts' new
      else edits_of ts' new
  end.

(* decomposition of the text into (inter-token text, token text, selected) and
   the text after the last token *)
Definition segment := (text * text * bool)%type.

Fixpoint segments (pos : nat) (txt : text) (ts : list tok) : list segment * text :=
  match ts with
  | [] => ([], txt)
  | t :: ts' =>
      let gap := firstn (t_start t - pos) txt in
      let body := firstn (t_end t - t_start t) (skipn (t_start t - pos) txt) in
      let st := segments (t_end t) (skipn (t_end t - pos) txt) ts' in
      ((gap, body, t_sel t) :: fst st, snd st)
  end.

Fixpoint render (segs : list segment) (tail : text) : text :=
  match segs with
  | [] => tail
  | (gap, body, _) :: segs' => gap ++ body ++ render segs' tail
  end.

Definition rename_segments (new : text) (segs : list segment) : list segment :=
  map (fun sg : segment =>
         match sg with (gap, body, b) => (gap, if b then new else body, b) end) segs.

(* ===================================================================== *)
(*  Proofs                                                               *)
(* ===================================================================== *)

Lemma firstn_split_sub : forall (A : Type) (t : list A) n m, n <= m ->
  firstn m t = firstn n t ++ firstn (m - n) (skipn n t).
Proof.
  intros A. induction t as [|c t IH]; intros n m H.
  - rewrite skipn_nil, !firstn_nil. reflexivity.
  - destruct n as [|n].
    + cbn [firstn skipn app]. rewrite Nat.sub_0_r. reflexivity.
    + destruct m as [|m]; [lia|]. cbn [firstn skipn app Nat.sub].
      f_equal. apply IH. lia.
Qed.

Lemma skipn_skipn' : forall (A : Type) (t : list A) n m,
  skipn m (skipn n t) = skipn (n + m) t.
Proof.
  intros A. induction t as [|c t IH]; intros n m.
  - rewrite !skipn_nil. reflexivity.
  - destruct n as [|n]; [reflexivity|]. cbn [skipn Nat.add]. apply IH.
Qed.

Theorem apply_from_length : forall es pos txt out,
  apply_from pos txt es = Some out ->
  length out + removed es = length txt + inserted es.
Proof.
  induction es as [|[[s e] r] es IH]; intros pos txt out H.
  - cbn [apply_from] in H. inversion H; subst. cbn. lia.
  - cbn [apply_from] in H.
    destruct ((pos <=? s) && (s <=? e) && (e - pos <=? length txt)) eqn:C; [|discriminate].
    apply andb_true_iff in C. destruct C as [C C3].
    apply andb_true_iff in C. destruct C as [C1 C2].
    apply Nat.leb_le in C1, C2, C3.
    destruct (apply_from e (skipn (e - pos) txt) es) as [rest|] eqn:R; [|discriminate].
    inversion H; subst out. specialize (IH _ _ _ R).
    rewrite skipn_length in IH.
    cbn [removed inserted fold_right]. fold (removed es). fold (inserted es).
    rewrite !app_length, firstn_length. lia.
Qed.

Theorem apply_edits_length : forall txt es out,
  apply_edits txt es = Some out ->
  length out + removed es = length txt + inserted es.
Proof. intros txt es out H. eapply apply_from_length. exact H. Qed.

(* edits that all start at or after [e] do not see the text before [e] *)
Lemma apply_from_shift : forall es pos e txt,
  pos <= e -> e - pos <= length txt ->
  match es with [] => True | (s', _, _) :: _ => e <= s' end ->
  apply_from pos txt es =
  option_map (app (firstn (e - pos) txt)) (apply_from e (skipn (e - pos) txt) es).
Proof.
  intros es pos e txt Hpe Hlen Hhd. destruct es as [|[[s' e'] r] es].
  - cbn [apply_from option_map]. rewrite firstn_skipn. reflexivity.
  - cbn [apply_from]. rewrite skipn_length.
    destruct (Nat.leb_spec pos s') as [L1|L1]; [|lia].
    destruct (Nat.leb_spec e s') as [L2|L2]; [|lia].
    destruct (Nat.leb_spec s' e') as [L3|L3]; cbn [andb]; [|reflexivity].
    destruct (Nat.leb_spec (e' - pos) (length txt)) as [L4|L4];
      destruct (Nat.leb_spec (e' - e) (length txt - (e - pos))) as [L5|L5];
      try lia; [|reflexivity].
    rewrite skipn_skipn'. replace (e - pos + (e' - e)) with (e' - pos) by lia.
    destruct (apply_from e' (skipn (e' - pos) txt) es) as [rest|]; [|reflexivity].
    cbn [option_map]. f_equal.
    rewrite (firstn_split_sub _ txt (e - pos) (s' - pos)) by lia.
    replace (s' - pos - (e - pos)) with (s' - e) by lia.
    rewrite <- app_assoc. reflexivity.
Qed.

Lemma edits_of_hd : forall ts pos txt new,
  toks_ok pos txt ts ->
  match edits_of ts new with [] => True | (s', _, _) :: _ => pos <= s' end.
Proof.
  induction ts as [|t ts IH]; intros pos txt new H; [exact I|].
  cbn [toks_ok] in H. destruct H as (H1 & H2 & H3 & H4).
  cbn [edits_of]. destruct (t_sel t); [exact H1|].
  specialize (IH _ _ new H4). destruct (edits_of ts new) as [|[[s' e'] r] es]; [exact I|lia].
Qed.

Lemma render_segments : forall ts pos txt,
  toks_ok pos txt ts ->
  render (fst (segments pos txt ts)) (snd (segments pos txt ts)) = txt.
Proof.
  induction ts as [|t ts IH]; intros pos txt H; [reflexivity|].
  cbn [toks_ok] in H. destruct H as (H1 & H2 & H3 & H4).
  cbn [segments fst snd render]. rewrite (IH _ _ H4).
  rewrite <- (firstn_skipn (t_end t - pos) txt) at 4.
  rewrite (firstn_split_sub _ txt (t_start t - pos) (t_end t - pos)) by lia.
  replace (t_end t - pos - (t_start t - pos)) with (t_end t - t_start t) by lia.
  rewrite <- app_assoc. reflexivity.
Qed.

Lemma rename_from : forall ts pos txt new,
  toks_ok pos txt ts ->
  apply_from pos txt (edits_of ts new) =
  Some (render (rename_segments new (fst (segments pos txt ts)))
               (snd (segments pos txt ts))).
Proof.
  induction ts as [|t ts IH]; intros pos txt new H; [reflexivity|].
  pose proof H as H0. cbn [toks_ok] in H. destruct H as (H1 & H2 & H3 & H4).
  cbn [edits_of segments fst snd rename_segments map render].
  fold (rename_segments new (fst (segments (t_end t) (skipn (t_end t - pos) txt) ts))).
  destruct (t_sel t) eqn:Sel.
  - cbn [apply_from].
    destruct (Nat.leb_spec pos (t_start t)) as [L1|L1]; [|lia].
    destruct (Nat.leb_spec (t_start t) (t_end t)) as [L2|L2]; [|lia].
    destruct (Nat.leb_spec (t_end t - pos) (length txt)) as [L3|L3]; [|lia].
    cbn [andb]. rewrite (IH _ _ new H4). reflexivity.
  - rewrite (apply_from_shift (edits_of ts new) pos (t_end t) txt); [|lia|lia|].
    + rewrite (IH _ _ new H4). cbn [option_map]. f_equal.
      rewrite (firstn_split_sub _ txt (t_start t - pos) (t_end t - pos)) by lia.
      replace (t_end t - pos - (t_start t - pos)) with (t_end t - t_start t) by lia.
      rewrite <- app_assoc. reflexivity.
    + apply (edits_of_hd ts (t_end t) (skipn (t_end t - pos) txt) new H4).
Qed.

(* C28, token level.  [ts] are the tokens of [txt] (ordered, disjoint spans);
   applying exactly the edits {(span of t, new) | t selected} yields the text
   whose segments are those of [txt] with the selected token texts replaced by
   [new]: unselected tokens, all inter-token text and the tail are unchanged. *)
Theorem rename_by_edits : forall txt ts new,
  toks_ok 0 txt ts ->
  let segs := fst (segments 0 txt ts) in
  let tail := snd (segments 0 txt ts) in
  render segs tail = txt /\
  apply_edits txt (edits_of ts new) = Some (render (rename_segments new segs) tail).
Proof.
  intros txt ts new H. cbn zeta. split.
  - apply render_segments. exact H.
  - apply rename_from. exact H.
Qed.

(* the segment list of the result has the same shape: same gaps, same flags *)
Lemma rename_segments_shape : forall new segs,
  map (fun sg : segment => (fst (fst sg), snd sg)) (rename_segments new segs)
  = map (fun sg : segment => (fst (fst sg), snd sg)) segs.
Proof.
  intros new segs. unfold rename_segments. rewrite map_map.
  apply map_ext. intros [[g b] f]. reflexivity.
Qed.

(* renaming nothing changes nothing *)
Lemma rename_segments_none : forall new segs,
  (forall sg, In sg segs -> snd sg = false) -> rename_segments new segs = segs.
Proof.
  intros new segs H. unfold rename_segments. rewrite <- (map_id segs) at 2.
  apply map_ext_in. intros [[g b] f] Hin. specialize (H _ Hin). cbn in H. subst f. reflexivity.
Qed.

Lemma toks_ok_b_spec : forall ts pos txt, toks_ok_b pos txt ts = true <-> toks_ok pos txt ts.
Proof.
  induction ts as [|t ts IH]; intros pos txt; cbn [toks_ok_b toks_ok]; [tauto|].
  rewrite !andb_true_iff, !Nat.leb_le, IH. tauto.
Qed.

(* ---------- examples -------------------------------------------------- *)

(* "A: B c;B: x;"  rename B (offsets 3..4 and 7..8) to "New" *)
Definition ex_txt : text := [65; 58; 32; 66; 32; 99; 59; 66; 58; 32; 120; 59]%N.
Definition ex_toks : list tok :=
  [mkTok 0 1 false; mkTok 1 2 false; mkTok 3 4 true; mkTok 5 6 false; mkTok 6 7 false;
   mkTok 7 8 true; mkTok 8 9 false; mkTok 10 11 false; mkTok 11 12 false].
Definition ex_new : text := [78; 101; 119]%N.

Example ex_ok : toks_ok 0 ex_txt ex_toks.
Proof. apply toks_ok_b_spec. reflexivity. Qed.
Example ex_edits : edits_of ex_toks ex_new = [(3, 4, ex_new); (7, 8, ex_new)].
Proof. reflexivity. Qed.
Example ex_apply :
  apply_edits ex_txt (edits_of ex_toks ex_new)
  = Some [65; 58; 32; 78; 101; 119; 32; 99; 59; 78; 101; 119; 58; 32; 120; 59]%N.
Proof. reflexivity. Qed.
Example ex_overlap : apply_edits ex_txt [(3, 5, ex_new); (4, 6, ex_new)] = None.
Proof. reflexivity. Qed.
Example ex_unsorted : apply_edits ex_txt [(7, 8, ex_new); (3, 4, ex_new)] = None.
Proof. reflexivity. Qed.
Example ex_out_of_range : apply_edits ex_txt [(11, 13, ex_new)] = None.
Proof. reflexivity. Qed.
Example ex_insert_delete :
  apply_edits ex_txt [(0, 0, ex_new); (2, 12, [])] = Some [78; 101; 119; 65; 58]%N.
Proof. reflexivity. Qed.

Print Assumptions apply_edits_length.
Print Assumptions rename_by_edits.
Print Assumptions rename_segments_shape.
Print Assumptions toks_ok_b_spec.
