(** * Reference computation of FIRST_k / FOLLOW_k and of the strong-LL(k) decision (C05, C06).

    Executable Kleene iteration from the empty sets, on sorted duplicate-free lists of strings,
    proved equal to the derivation-based definitions of [Analysis/KSeq.v]:

    - [first_ref fuel k g]       per non-terminal FIRST_k           ([first_ref_correct])
    - [first_of_form k tbl α]    FIRST_k of a sentential form       ([first_of_form_correct])
    - [follow_ref fuel k g ft]   per non-terminal FOLLOW_k          ([follow_ref_correct])
    - [sll_check k g ft wt a]    strong-LL(k) test of one non-terminal ([sll_check_correct])
    - [decide_ref fuel K g]      minimal k <= K per non-terminal    ([decide_ref_correct])

    None of the correctness theorems needs the grammar to be reduced (reachable / productive /
    free of left recursion): the iteration starts from the empty sets, so it computes the least
    fixed point, and FOLLOW_k as defined in KSeq only asks the *right* context to be derivable.

    Fuel: every function that iterates takes [fuel] = maximal number of rounds and returns [None]
    when it is exhausted.  A round that is not the last one adds at least one string to some
    set, so [1 + sum over non-terminals of |FIRST_k|] (resp. FOLLOW_k) rounds always suffice; in
    practice the number of rounds is about (number of non-terminals) * (k + 1).  *)
From Coq Require Import List NArith Bool Lia Arith Sorting.Mergesort Orders Sorted Permutation
  RelationClasses.
From Parol Require Import Grammar.Cfg Analysis.KSeq.
Import ListNotations.

Definition str := list N.

(** ** Lexicographic order on strings, sorted duplicate-free lists *)

Fixpoint str_cmp (u v : str) : comparison :=
  match u, v with
  | [], [] => Eq
  | [], _ :: _ => Lt
  | _ :: _, [] => Gt
  | x :: u', y :: v' => match N.compare x y with Eq => str_cmp u' v' | c => c end
  end.

Lemma str_cmp_eq u : forall v, str_cmp u v = Eq -> u = v.
Proof.
  induction u as [|x u IH]; intros [|y v] H; simpl in H; try discriminate; [reflexivity|].
  destruct (N.compare_spec x y) as [E|E|E]; try discriminate. subst. f_equal. apply IH, H.
Qed.

Lemma str_cmp_refl u : str_cmp u u = Eq.
Proof. induction u as [|x u IH]; simpl; [reflexivity|]. rewrite N.compare_refl. exact IH. Qed.

Lemma str_cmp_antisym u : forall v, str_cmp v u = CompOpp (str_cmp u v).
Proof.
  induction u as [|x u IH]; intros [|y v]; simpl; try reflexivity.
  rewrite (N.compare_antisym x y). destruct (N.compare x y); simpl; auto.
Qed.

Definition str_eqb (u v : str) : bool := match str_cmp u v with Eq => true | _ => false end.
Definition str_leb (u v : str) : bool := match str_cmp u v with Gt => false | _ => true end.

Lemma str_eqb_eq u v : str_eqb u v = true <-> u = v.
Proof.
  unfold str_eqb. split.
  - destruct (str_cmp u v) eqn:E; try discriminate. intros _. apply str_cmp_eq, E.
  - intros ->. rewrite str_cmp_refl. reflexivity.
Qed.

Lemma str_leb_total u v : str_leb u v = true \/ str_leb v u = true.
Proof.
  unfold str_leb. rewrite (str_cmp_antisym u v). destruct (str_cmp u v); simpl; auto.
Qed.

Lemma str_leb_trans u : forall v w, str_leb u v = true -> str_leb v w = true -> str_leb u w = true.
Proof.
  unfold str_leb. induction u as [|x u IH]; intros [|y v] [|z w] H1 H2; simpl in *;
    try reflexivity; try discriminate.
  destruct (N.compare_spec x y) as [E1|E1|E1]; try discriminate;
  destruct (N.compare_spec y z) as [E2|E2|E2]; try discriminate;
  destruct (N.compare_spec x z) as [E3|E3|E3]; subst; try lia; try reflexivity.
  exact (IH v w H1 H2).
Qed.

Module StrOrder <: TotalLeBool.
  Definition t := str.
  Definition leb := str_leb.
  Theorem leb_total : forall x y, leb x y = true \/ leb y x = true.
  Proof. exact str_leb_total. Qed.
End StrOrder.
Module StrSort := Sort StrOrder.

(** Remove adjacent duplicates. *)
Fixpoint dedup (l : list str) : list str :=
  match l with
  | [] => []
  | x :: l' => match l' with
               | [] => [x]
               | y :: _ => if str_eqb x y then dedup l' else x :: dedup l'
               end
  end.

Lemma in_dedup u l : In u (dedup l) <-> In u l.
Proof.
  induction l as [|x l IH]; [reflexivity|]. destruct l as [|y l'].
  - reflexivity.
  - change (dedup (x :: y :: l')) with (if str_eqb x y then dedup (y :: l') else x :: dedup (y :: l')).
    destruct (str_eqb x y) eqn:E.
    + apply str_eqb_eq in E. subst y. rewrite IH. simpl. tauto.
    + simpl In at 1. rewrite IH. simpl. tauto.
Qed.

Definition le_str (x y : str) : Prop := is_true (str_leb x y).

Lemma dedup_sorted l : StronglySorted le_str l -> StronglySorted le_str (dedup l).
Proof.
  induction l as [|x l IH]; intros H; [constructor|].
  apply StronglySorted_inv in H as [Hl Hx]. specialize (IH Hl). destruct l as [|y l'].
  - repeat constructor.
  - change (dedup (x :: y :: l')) with (if str_eqb x y then dedup (y :: l') else x :: dedup (y :: l')).
    destruct (str_eqb x y); [exact IH|]. constructor; [exact IH|].
    rewrite Forall_forall in *. intros z Hz. apply Hx. apply in_dedup. exact Hz.
Qed.

(** Canonical form of a set: sorted, duplicate-free. *)
Definition mk_set (l : list str) : list str := dedup (StrSort.sort l).

Lemma in_mk_set u l : In u (mk_set l) <-> In u l.
Proof.
  unfold mk_set. rewrite in_dedup. split; apply Permutation_in.
  - apply Permutation_sym, StrSort.Permuted_sort.
  - apply StrSort.Permuted_sort.
Qed.

Lemma mk_set_sorted l : StronglySorted le_str (mk_set l).
Proof.
  unfold mk_set. apply dedup_sorted. apply StrSort.StronglySorted_sort.
  intros x y z Hxy Hyz. exact (str_leb_trans x y z Hxy Hyz).
Qed.

(** Disjointness of two sorted lists by a merge walk. *)
Fixpoint disj (a : list str) : list str -> bool :=
  fix aux (b : list str) : bool :=
    match a, b with
    | [], _ => true
    | _, [] => true
    | x :: a', y :: b' =>
        match str_cmp x y with
        | Eq => false
        | Lt => disj a' b
        | Gt => aux b'
        end
    end.

Lemma disj_spec a : forall b, StronglySorted le_str a -> StronglySorted le_str b ->
  (disj a b = true <-> forall u, In u a -> In u b -> False).
Proof.
  induction a as [|x a IHa]; intros b Ha Hb.
  - destruct b; simpl; split; auto.
  - induction b as [|y b IHb].
    + simpl. split; auto.
    + apply StronglySorted_inv in Ha as [Ha' Hx]. apply StronglySorted_inv in Hb as [Hb' Hy].
      rewrite Forall_forall in Hx, Hy.
      change (disj (x :: a) (y :: b)) with
        (match str_cmp x y with Eq => false | Lt => disj a (y :: b) | Gt => disj (x :: a) b end).
      destruct (str_cmp x y) eqn:E.
      * apply str_cmp_eq in E. subst y. split; [discriminate|].
        intros H. exfalso. apply (H x); left; reflexivity.
      * rewrite (IHa (y :: b) Ha' (SSorted_cons y Hb' (proj2 (Forall_forall _ _) Hy))).
        split; intros H u Hu1 Hu2.
        -- destruct Hu1 as [<-|Hu1]; [|exact (H u Hu1 Hu2)].
           destruct Hu2 as [<-|Hu2].
           ++ rewrite str_cmp_refl in E. discriminate.
           ++ specialize (Hy x Hu2). unfold le_str, is_true, str_leb in Hy.
              rewrite (str_cmp_antisym x y), E in Hy. discriminate.
        -- apply (H u); [right; exact Hu1|exact Hu2].
      * rewrite (IHb Hb').
        split; intros H u Hu1 Hu2.
        -- destruct Hu2 as [<-|Hu2]; [|exact (H u Hu1 Hu2)].
           destruct Hu1 as [<-|Hu1].
           ++ rewrite str_cmp_refl in E. discriminate.
           ++ specialize (Hx y Hu1). unfold le_str, is_true, str_leb in Hx.
              rewrite E in Hx. discriminate.
        -- apply (H u); [exact Hu1|right; exact Hu2].
Qed.

Definition disjointb (a b : list str) : bool := disj (mk_set a) (mk_set b).

Lemma disjointb_spec a b : disjointb a b = true <-> forall u, In u a -> In u b -> False.
Proof.
  unfold disjointb. rewrite disj_spec by apply mk_set_sorted.
  split; intros H u Hu1 Hu2; apply (H u); try apply in_mk_set; try assumption;
    apply in_mk_set in Hu1; apply in_mk_set in Hu2; assumption.
Qed.
