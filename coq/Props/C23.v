(** Property C23 — The typed AST delivered to the user mirrors the input.
    Pinned statements (tools/pin.py); proofs in Gen2/AstModel.v: an executable stack-machine model [build_ast] of the
    GENERATED adapter (one function per production: members popped in reverse order with pop_item!, terminals taken
    from the children, clipped members dropped, Vec::new / push for CollectionStart / AddToCollection with the LL
    reversal at the RepetitionAnchor (pop_and_reverse_item!) and the left-recursive LALR form without reversal,
    Some / None for OptionalSome / OptionalNone, enum wrapping for non-terminals with several productions, the user
    action called with the built value) driven by the post-order action trace, and a reversal-free specification
    [sem] on attributed derivation trees.
    - build_ast_sem / build_ast_total: for every attributed grammar that passes the boolean check attrs_ok (the
      shapes canonicalization guarantees; evaluated on every real exported grammar) and every derivation tree, the
      adapter does not get stuck and leaves exactly the specified value.
    - ast_tokens: the tokens of that value, read in order, are exactly the visible (non-clipped) tokens of the yield.
    - start_action_count / start_action_last: the start symbol's action is called once per start-symbol node of the
      tree, and the LAST call is the root's and carries the whole AST; start_action_once: exactly once when the
      start symbol occurs on no right-hand side; start_action_once_refuted: for a recursive start symbol
      (S: "a" S | "b"; input a b) it is called twice — the literal "exactly once" of the property is false there
      (known finding, confirmed on the real generated adapter).
    - options_present_iff, repetition_order: Some/None reflects exactly which optional production was applied; the
      items of a Vec are the repetition's items in input order (LL and LALR). *)
From Coq Require Import List NArith.
From Parol Require Import Grammar.Cfg Gen2.AstModel.
Import ListNotations.

Theorem C23_build_ast_sem :
  forall (gt : gtype) (user : list N) (g : list aprod) (i : N) (p : aprod) (cs : list atree),
  attrs_ok gt g = true ->
  atree_ok g (ANode i p cs) ->
  exists v : V,
  sem gt g (ANode i p cs) = Some v /\
  build_ast gt user g (actions (ANode i p cs)) =
  Some (raw gt (ap_attr p) v, calls_of gt user g (ANode i p cs)).
Proof. exact build_ast_sem. Qed.

Theorem C23_build_ast_total :
  forall (gt : gtype) (user : list N) (g : list aprod) (i : N) (p : aprod) (cs : list atree),
  attrs_ok gt g = true ->
  atree_ok g (ANode i p cs) ->
  exists (v : V) (calls : list (N * V)),
  build_ast gt user g (actions (ANode i p cs)) = Some (v, calls).
Proof. exact build_ast_total. Qed.

Theorem C23_build_ast_sem_plain :
  forall (gt : gtype) (user : list N) (g : list aprod) (i : N) (p : aprod) (cs : list atree),
  attrs_ok gt g = true ->
  atree_ok g (ANode i p cs) ->
  kind_of_attr (ap_attr p) <> KColl ->
  exists v : V,
  sem gt g (ANode i p cs) = Some v /\
  build_ast gt user g (actions (ANode i p cs)) = Some (v, calls_of gt user g (ANode i p cs)).
Proof. exact build_ast_sem_plain. Qed.

Theorem C23_ast_tokens :
  forall (gt : gtype) (g : list aprod) (t : atree) (v : V),
  attrs_ok gt g = true ->
  atree_ok g t -> sem gt g t = Some v -> tokens_of v = visible_tokens t.
Proof. exact ast_tokens. Qed.

Theorem C23_calls_count :
  forall (gt : gtype) (user : list N) (g : list aprod) (s : N) (t : atree),
  attrs_ok gt g = true ->
  atree_ok g t ->
  count_calls s (calls_of gt user g t) = (if mem_N s user then count_nt s t else 0).
Proof. exact calls_count. Qed.

Theorem C23_start_action_count :
  forall (gt : gtype) (user : list N) (g : list aprod) (i : N) (p : aprod) 
  (cs : list atree) (v : V) (calls : list (N * V)),
  attrs_ok gt g = true ->
  atree_ok g (ANode i p cs) ->
  build_ast gt user g (actions (ANode i p cs)) = Some (v, calls) ->
  count_calls (ap_lhs p) calls =
  (if mem_N (ap_lhs p) user then count_nt (ap_lhs p) (ANode i p cs) else 0).
Proof. exact start_action_count. Qed.

Theorem C23_start_action_once :
  forall (gt : gtype) (user : list N) (g : list aprod) (i : N) (p : aprod) 
  (cs : list atree) (v : V) (calls : list (N * V)),
  attrs_ok gt g = true ->
  atree_ok g (ANode i p cs) ->
  mem_N (ap_lhs p) user = true ->
  no_rhs_occ g (ap_lhs p) = true ->
  build_ast gt user g (actions (ANode i p cs)) = Some (v, calls) ->
  count_calls (ap_lhs p) calls = 1.
Proof. exact start_action_once. Qed.

Theorem C23_start_action_last :
  forall (gt : gtype) (user : list N) (g : list aprod) (i : N) (p : aprod) (cs : list atree),
  attrs_ok gt g = true ->
  atree_ok g (ANode i p cs) ->
  ap_attr p = PNone ->
  mem_N (ap_lhs p) user = true ->
  exists (v : V) (calls' : list (N * V)),
  sem gt g (ANode i p cs) = Some v /\
  build_ast gt user g (actions (ANode i p cs)) = Some (v, calls' ++ [(ap_lhs p, v)]) /\
  tokens_of v = visible_tokens (ANode i p cs).
Proof. exact start_action_last. Qed.

Theorem C23_start_action_once_refuted :
  exists
  (gt : gtype) (user : list N) (g : list aprod) (i : N) (p : aprod) 
  (cs : list atree) (v : V) (calls : list (N * V)),
  attrs_ok gt g = true /\
  atree_ok g (ANode i p cs) /\
  mem_N (ap_lhs p) user = true /\
  build_ast gt user g (actions (ANode i p cs)) = Some (v, calls) /\
  count_calls (ap_lhs p) calls = 2.
Proof. exact start_action_once_refuted. Qed.

Theorem C23_options_present_iff :
  forall (gt : gtype) (g : list aprod) (i : N) (p : aprod) (cs : list atree) (v : V),
  kind_of_attr (ap_attr p) = KOpt ->
  sem gt g (ANode i p cs) = Some v ->
  ((exists fs : list V,
  v = VSome (VStruct fs) /\ fields_of (ap_rhs p) (map (sem gt g) cs) = Some fs) <->
  ap_attr p = POptionalSome) /\
  (v = VNone <-> ap_attr p = POptionalNone) /\ ((exists x : V, v = VSome x) \/ v = VNone).
Proof. exact options_present_iff. Qed.

Theorem C23_repetition_order :
  forall (gt : gtype) (g : list aprod) (t : atree),
  attrs_ok gt g = true ->
  atree_ok g t ->
  match t with
  | ALeaf _ => True
  | ANode _ p _ =>
  kind_of_attr (ap_attr p) = KColl ->
  (forall l : list V,
  sem gt g t = Some (VVec l) -> Forall2 (item_denotes gt g) (rep_items gt t) l) /\
  visible_tokens t = flat_map item_tokens (rep_items gt t)
  end.
Proof. exact repetition_order. Qed.

Theorem C23_visible_tokens_noclip :
  forall (g : list aprod) (t : atree),
  no_clip g = true -> atree_ok g t -> visible_tokens t = yield (to_tree t).
Proof. exact visible_tokens_noclip. Qed.

Theorem C23_to_tree_ok :
  forall (s : N) (g : list aprod) (t : atree),
  atree_ok g t -> atree_exact t -> tree_ok (to_cfg s g) (to_tree t).
Proof. exact to_tree_ok. Qed.

