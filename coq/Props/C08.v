(** Property C08 — Runtime production prediction is exact, also on erroneous input.
    Pinned statements only; proofs in Runtime/DfaEval.v.

    [eval] is the model of [LookaheadDFA::eval] (after the "fix:" commit that stops the walk at
    the first lookahead token without a transition); [accepts d u p] says that [u] is one of
    production [p]'s lookahead strings in automaton [d] read as a deterministic automaton from
    state 0. *)
From Coq Require Import List NArith ZArith.
From Parol Require Import Runtime.DfaEval.
Import ListNotations.

(** Prediction only on a prefix of the upcoming tokens that is a lookahead string of [p];
    since the prefix is contiguous, no lookahead token is stepped over. *)
Theorem C08_eval_exact : forall d buf p,
  sorted (transitions d) -> wfd d = true ->
  eval d buf = Predict p ->
  exists n, n <= depth d /\ accepts d (firstn n buf) p.
Proof. exact eval_exact. Qed.

(** A prediction error is reported only if the tokens begin with no lookahead string. *)
Theorem C08_eval_error_exact : forall d buf,
  sorted (transitions d) ->
  eval d buf = PredictionError ->
  forall n p, n <= depth d -> ~ accepts d (firstn n buf) p.
Proof. exact eval_error_exact. Qed.

(** With a buffer of at least [depth] tokens (the token stream pads with EOI) the walk never
    fails for lack of tokens: the answer is a prediction or a prediction error. *)
Theorem C08_eval_total : forall d buf, depth d <= length buf -> eval d buf <> LexerErr.
Proof. exact eval_total. Qed.

(** The early exits of the transition scan are exactly the strict automaton step when the
    transition array is sorted by (from-state, terminal) — what the generator must deliver. *)
Theorem C08_scan_is_step : forall ts state tok, sorted ts -> scan ts state tok false = step ts state tok.
Proof. exact scan_spec. Qed.

(** The executable checker applied to the real implementation's answers means what it says. *)
Theorem C08_checker_sound : forall d buf res,
  eval_check d buf res = true ->
  match res with
  | Some p => exists n, n <= depth d /\ accepts d (firstn n buf) p
  | None => forall n p, n <= depth d -> ~ accepts d (firstn n buf) p
  end.
Proof. exact eval_check_spec. Qed.

Theorem C08_model_passes_checker : forall d buf,
  sorted (transitions d) -> wfd d = true -> depth d <= length buf ->
  eval_check d buf (match eval d buf with Predict p => Some p | _ => None end) = true.
Proof. exact eval_passes_check. Qed.

(** The walk as it was at the pinned commit skipped unmatched tokens (defect D2, repaired by a
    "fix:" commit): automaton {a $ -> 1, a b c -> 2}, tokens a x $ predicted production 1. *)
Theorem C08_pinned_walk_refuted :
  exists d buf p, sortedb (transitions d) = true /\ wfd d = true /\
    eval_old d buf = Predict p /\
    forallb (fun n => negb (acceptsb d (firstn n buf) p)) (seq 0 (S (length buf))) = true.
Proof. exact eval_old_refuted. Qed.

(** Non-vacuity: the hypotheses hold for a concrete automaton, on which [eval] predicts. *)
Example C08_nonvacuous :
  sortedb (transitions d2_dfa) = true /\ wfd d2_dfa = true /\
  eval d2_dfa [5; 6; 7]%N = Predict 2 /\ eval d2_dfa [5; 0; 0]%N = Predict 1 /\
  eval d2_dfa [5; 9; 0]%N = PredictionError.
Proof. vm_compute. repeat split. Qed.
