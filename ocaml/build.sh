#!/bin/sh
# Extract the model from Coq and build the driver. Run from anywhere.
set -e
cd "$(dirname "$0")"
coqc -Q ../coq Parol ../coq/Extract/Extraction.v >/dev/null
mkdir -p _build
cp model.ml model.mli sexp.ml conv.ml driver.ml _build/
cd _build
ocamlfind ocamlopt -O3 -w -a -package str model.mli model.ml sexp.ml conv.ml driver.ml -o drv 2>/dev/null || \
ocamlfind ocamlopt -w -a -package str model.mli model.ml sexp.ml conv.ml driver.ml -o drv
