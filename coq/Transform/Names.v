(** * Fresh names: model of [generate_name] (crates/parol/src/utils/mod.rs)

    [[
    pub(crate) fn generate_name(exclusions, preferred_name: String) -> String {
        fn gen_name(exclusions, prefix: String, start_num: usize) -> String {
            let mut num = start_num;
            let mut new_name = format!("{prefix}{num}");
            while exclusions.clone().any(|n| n.as_ref() == new_name) {
                num += 1;
                new_name = format!("{prefix}{num}");
            }
            new_name
        }
        if exclusions.clone().any(|n| n.as_ref() == preferred_name) {
            let (suffix_number, prefix) =
                if let Some(match_) = RX_NUM_SUFFIX.find(&preferred_name) {     // [0-9]+$
                    let num = match_.as_str().parse::<usize>().unwrap_or(1);
                    (num, preferred_name[0..match_.start()].to_string())
                } else { (0, preferred_name.clone()) };
            gen_name(exclusions, prefix, suffix_number)
        } else { preferred_name }
    }
    ]]

    Strings are Coq [string]s (sequences of bytes, as Rust's [String]; the digits are single
    bytes and no UTF-8 continuation byte is a digit, so byte-wise treatment is exact).

    - [RX_NUM_SUFFIX.find] (leftmost match of [[0-9]+$]) is the maximal run of trailing digits:
      [split_num_suffix].
    - [parse::<usize>()] fails exactly on overflow (the match is a non-empty digit string):
      [parse_usize] returns [None] above [usize_max] = 2^64-1 (64-bit target), and the caller
      uses 1 in that case, as [unwrap_or(1)] does.
    - The unbounded [while] loop of [gen_name] is modelled by structural recursion on a copy of
      the exclusion list: after [length exclusions] occupied candidates the next candidate is
      returned without a test, because it cannot be occupied (pigeon-hole; candidates are
      pairwise different by [decimal_inj]).  [generate_name_least] shows that the result is the
      *first* free candidate, i.e. exactly what the unbounded loop computes, and
      [generate_name_fresh] that it is free.
    - [num += 1] on [usize] is modelled on [N] without overflow.  [gen_num_le] bounds the counter
      by [start + length exclusions], so the model is exact unless the numeric suffix is within
      [length exclusions] of 2^64 (where the Rust code panics in debug builds and wraps in
      release builds); [generate_name_counter] exposes the counter so that a caller can check. *)
From Coq Require Import String Ascii List NArith Arith Bool Lia DecimalString DecimalN.
Import ListNotations.

Definition is_digit (c : ascii) : bool :=
  let n := N_of_ascii c in (N.leb 48 n && N.leb n 57)%bool.

Definition digit_val (c : ascii) : N := (N_of_ascii c - 48)%N.

(** The longest prefix of digits (applied to the reversed string). *)
Fixpoint take_digits (r : list ascii) : list ascii :=
  match r with
  | c :: r' => if is_digit c then c :: take_digits r' else []
  | [] => []
  end.

(** [split_num_suffix s = (prefix, digits)]: [digits] is the maximal run of trailing digits. *)
Definition split_num_suffix (s : string) : string * list ascii :=
  let r := rev (list_ascii_of_string s) in
  let ds := take_digits r in
  (string_of_list_ascii (rev (skipn (length ds) r)), rev ds).

Definition usize_max : N := 18446744073709551615%N.

Definition parse_dec (ds : list ascii) : N :=
  fold_left (fun acc c => (10 * acc + digit_val c)%N) ds 0%N.

(** [str::parse::<usize>] on a non-empty digit string. *)
Definition parse_usize (ds : list ascii) : option N :=
  let v := parse_dec ds in if N.leb v usize_max then Some v else None.

(** [format!("{num}")]. *)
Definition dec (n : N) : string := NilEmpty.string_of_uint (N.to_uint n).

Definition mem (s : string) (l : list string) : bool := existsb (String.eqb s) l.

Definition candidate (prefix : string) (n : N) : string := (prefix ++ dec n)%string.

(** The counter on which the loop of [gen_name] stops ([rem] is a copy of [excl], see above). *)
Fixpoint gen_num (excl rem : list string) (prefix : string) (n : N) : N :=
  match rem with
  | [] => n
  | _ :: rem' => if mem (candidate prefix n) excl then gen_num excl rem' prefix (N.succ n) else n
  end.

(** Prefix and start number used when the preferred name is taken. *)
Definition name_base (pref : string) : string * N :=
  let '(prefix, ds) := split_num_suffix pref in
  match ds with
  | [] => (pref, 0%N)
  | _ :: _ => (prefix, match parse_usize ds with Some v => v | None => 1%N end)
  end.

Definition generate_name (excl : list string) (pref : string) : string :=
  if mem pref excl then
    let '(prefix, start) := name_base pref in
    candidate prefix (gen_num excl excl prefix start)
  else pref.

(** The final counter value ([None] when the preferred name is free and no counter is used). *)
Definition generate_name_counter (excl : list string) (pref : string) : option N :=
  if mem pref excl then
    let '(prefix, start) := name_base pref in Some (gen_num excl excl prefix start)
  else None.

(** ** Facts *)
Lemma mem_In s l : mem s l = true <-> In s l.
Proof.
  unfold mem. rewrite existsb_exists. split.
  - intros (x & Hx & E). apply String.eqb_eq in E. subst x. exact Hx.
  - intros H. exists s. split; [exact H|apply String.eqb_refl].
Qed.

Theorem decimal_inj a b : dec a = dec b -> a = b.
Proof.
  intros H. unfold dec in H.
  apply (f_equal NilEmpty.uint_of_string) in H. rewrite !NilEmpty.usu in H.
  inversion H as [H']. apply (f_equal N.of_uint) in H'. rewrite !Unsigned.of_to in H'. exact H'.
Qed.

Lemma append_inj_r p : forall a b, (p ++ a)%string = (p ++ b)%string -> a = b.
Proof.
  induction p as [|c p IH]; intros a b H; simpl in H; [exact H|].
  inversion H as [H']. exact (IH a b H').
Qed.

Lemma candidate_inj p a b : candidate p a = candidate p b -> a = b.
Proof. intros H. apply decimal_inj. exact (append_inj_r p _ _ H). Qed.

Lemma gen_num_spec excl prefix rem : forall n,
  let m := gen_num excl rem prefix n in
  (n <= m)%N /\ (m <= n + N.of_nat (length rem))%N /\
  (forall k, (n <= k < m)%N -> In (candidate prefix k) excl) /\
  ((m < n + N.of_nat (length rem))%N -> ~ In (candidate prefix m) excl).
Proof.
  induction rem as [|x rem IH]; intros n; cbn [gen_num length].
  - split; [lia|]. split; [lia|]. split; [intros k Hk; lia|intros Hlt; lia].
  - destruct (mem (candidate prefix n) excl) eqn:E.
    + specialize (IH (N.succ n)). cbv zeta in IH. destruct IH as (H1 & H2 & H3 & H4).
      split; [lia|]. split; [lia|]. split.
      * intros k Hk. destruct (N.eq_dec k n) as [->|Hne]; [apply mem_In; exact E|].
        apply H3. lia.
      * intros Hlt. apply H4. lia.
    + split; [lia|]. split; [lia|]. split; [intros k Hk; lia|].
      intros _ Hin. apply mem_In in Hin. congruence.
Qed.

Lemma gen_num_le excl prefix n :
  (n <= gen_num excl excl prefix n <= n + N.of_nat (length excl))%N.
Proof. destruct (gen_num_spec excl prefix excl n) as (H1 & H2 & _). split; assumption. Qed.

(** The candidates [n .. n+len-1]. *)
Fixpoint candidates (prefix : string) (n : N) (len : nat) : list string :=
  match len with
  | 0 => []
  | S k => candidate prefix n :: candidates prefix (N.succ n) k
  end.

Lemma in_candidates prefix len : forall n s,
  In s (candidates prefix n len) <-> exists k, (n <= k < n + N.of_nat len)%N /\ s = candidate prefix k.
Proof.
  induction len as [|len IH]; intros n s; cbn [candidates].
  - split; [intros []|intros (k & Hk & _); lia].
  - split.
    + intros [<-|H]; [exists n; split; [lia|reflexivity]|].
      apply IH in H as (k & Hk & ->). exists k. split; [lia|reflexivity].
    + intros (k & Hk & ->). destruct (N.eq_dec k n) as [->|Hne]; [left; reflexivity|right].
      apply IH. exists k. split; [lia|reflexivity].
Qed.

Lemma candidates_NoDup prefix len : forall n, NoDup (candidates prefix n len).
Proof.
  induction len as [|len IH]; intros n; cbn [candidates]; constructor; [|apply IH].
  intros H. apply in_candidates in H as (k & Hk & E). apply candidate_inj in E. lia.
Qed.

Lemma candidates_length prefix len : forall n, length (candidates prefix n len) = len.
Proof. induction len as [|len IH]; intros n; simpl; [reflexivity|]. rewrite IH. reflexivity. Qed.

Lemma gen_num_fresh excl prefix n : ~ In (candidate prefix (gen_num excl excl prefix n)) excl.
Proof.
  destruct (gen_num_spec excl prefix excl n) as (H1 & H2 & H3 & H4). cbv zeta in *.
  set (m := gen_num excl excl prefix n) in *.
  destruct (N.ltb_spec m (n + N.of_nat (length excl))) as [Hlt|Hge]; [exact (H4 Hlt)|].
  intros Hin.
  assert (Hincl : incl (candidates prefix n (S (length excl))) excl).
  { intros s Hs. apply in_candidates in Hs as (k & Hk & ->).
    destruct (N.eq_dec k m) as [->|Hne]; [exact Hin|]. apply H3. lia. }
  apply NoDup_incl_length in Hincl; [|apply candidates_NoDup].
  rewrite candidates_length in Hincl. lia.
Qed.

(** The result is not excluded. *)
Theorem generate_name_fresh excl pref : ~ In (generate_name excl pref) excl.
Proof.
  unfold generate_name. destruct (mem pref excl) eqn:E.
  - destruct (name_base pref) as [prefix start]. apply gen_num_fresh.
  - intros H. apply mem_In in H. congruence.
Qed.

Theorem generate_name_free excl pref : ~ In pref excl -> generate_name excl pref = pref.
Proof.
  intros H. unfold generate_name. destruct (mem pref excl) eqn:E; [|reflexivity].
  apply mem_In in E. contradiction.
Qed.

(** The result is the first free candidate counting up from the start number: what the
    unbounded loop of [gen_name] returns. *)
Theorem generate_name_least excl pref : In pref excl ->
  let '(prefix, start) := name_base pref in
  exists m, generate_name excl pref = candidate prefix m /\ (start <= m)%N /\
            ~ In (candidate prefix m) excl /\
            forall k, (start <= k < m)%N -> In (candidate prefix k) excl.
Proof.
  intros Hin. unfold generate_name. apply mem_In in Hin. rewrite Hin.
  destruct (name_base pref) as [prefix start].
  exists (gen_num excl excl prefix start).
  destruct (gen_num_spec excl prefix excl start) as (H1 & _ & H3 & _).
  repeat split; [exact H1|apply gen_num_fresh|exact H3].
Qed.

Theorem generate_name_counter_bound excl pref m :
  generate_name_counter excl pref = Some m ->
  (m <= snd (name_base pref) + N.of_nat (length excl))%N /\ (snd (name_base pref) <= usize_max)%N.
Proof.
  unfold generate_name_counter. destruct (mem pref excl); [|discriminate].
  destruct (name_base pref) as [prefix start] eqn:Eb. intros H. inversion H; subst m. cbn [snd]. split.
  - apply gen_num_le.
  - unfold name_base in Eb. destruct (split_num_suffix pref) as [p ds].
    destruct ds as [|d ds]; [inversion Eb; subst; unfold usize_max; lia|].
    unfold parse_usize in Eb. destruct (N.leb_spec (parse_dec (d :: ds)) usize_max) as [Hle|Hgt];
      inversion Eb; subst; [exact Hle|unfold usize_max; lia].
Qed.

(** ** Examples *)
Local Open Scope string_scope.

Example ex_split1 : split_num_suffix "Abc12" = ("Abc", ["1"%char; "2"%char]).
Proof. vm_compute. reflexivity. Qed.
Example ex_split2 : split_num_suffix "A1b" = ("A1b", []).
Proof. vm_compute. reflexivity. Qed.
Example ex_split3 : split_num_suffix "2024" = ("", ["2"%char; "0"%char; "2"%char; "4"%char]).
Proof. vm_compute. reflexivity. Qed.

Example ex_gn_free : generate_name ["A"; "B"] "C" = "C".
Proof. vm_compute. reflexivity. Qed.
Example ex_gn_count : generate_name ["A"; "A0"; "A1"] "A" = "A2".
Proof. vm_compute. reflexivity. Qed.
Example ex_gn_suffix : generate_name ["A1"; "A2"; "B"] "A1" = "A3".
Proof. vm_compute. reflexivity. Qed.
(** Leading zeros are dropped by [parse]/[format!]. *)
Example ex_gn_zeros : generate_name ["A007"; "A7"] "A007" = "A8".
Proof. vm_compute. reflexivity. Qed.
(** The occupied preferred name itself is re-tested as first candidate only if it is canonical. *)
Example ex_gn_same : generate_name ["A7"] "A7" = "A8".
Proof. vm_compute. reflexivity. Qed.
(** [usize] overflow: [unwrap_or(1)]. *)
Example ex_gn_overflow : generate_name ["X99999999999999999999"] "X99999999999999999999" = "X1".
Proof. vm_compute. reflexivity. Qed.
Example ex_gn_max : generate_name ["X18446744073709551615"] "X18446744073709551615" = "X18446744073709551616".
Proof. vm_compute. reflexivity. Qed.
(** ... where the model's counter leaves [usize]: the Rust code overflows here. *)
Example ex_gn_max_counter :
  generate_name_counter ["X18446744073709551615"] "X18446744073709551615" = Some (usize_max + 1)%N.
Proof. vm_compute. reflexivity. Qed.
(** A name consisting of digits only has the empty prefix. *)
Example ex_gn_digits : generate_name ["12"] "12" = "13".
Proof. vm_compute. reflexivity. Qed.

(** Non-vacuity of [generate_name_least]. *)
Example ex_gn_least_hyp : In "A1" ["A1"; "A2"; "B"].
Proof. left. reflexivity. Qed.

Print Assumptions decimal_inj.
Print Assumptions generate_name_fresh.
Print Assumptions generate_name_least.
Print Assumptions generate_name_counter_bound.
