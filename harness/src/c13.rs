//! C13: the REAL generated scanner (text from parol's lexer generator, tables built by scnr2_generate at run time,
//! executed by scnr2 + TokenStream) on random texts; the driver compares with the longest-match specification.
use crate::{dynscan, rng::Rng, rx, sx, Args};
use parol::generators::{generate_lexer_source, generate_terminal_names};
use parol::parser::parol_grammar::ScannerStateSwitch;
use parol::{obtain_grammar_config_from_string, CommonGeneratorConfig};

struct Cfg;
impl CommonGeneratorConfig for Cfg {
    fn user_type_name(&self) -> &str { "Gr" }
    fn module_name(&self) -> &str { "gr" }
    fn minimize_boxed_types(&self) -> bool { false }
    fn range(&self) -> bool { false }
    fn node_kind_enums(&self) -> bool { false }
}

pub fn random_par(rng: &mut Rng) -> String {
    let pool = ["\"if\"", "\"i\"", "/[a-z]+/", "/[0-9]+/", "\"==\"", "\"=\"", "\"\\+\\+\"", "\"\\+\"", "\"<-\"", "\"<\"", "\"-\"", "\"a\" ?= \"b\"",
                "/[a-z]+/ ?! /[0-9]/", "'fi'", "/i*f/", "/[ab]+/", "\"ab\"", "/(ab)+/", "/a|ab|abc/", "\"=\" ?= \"=\"", "/[0-9]+\\.[0-9]+/", "/\\./", "'.'", "'.'"];
    let mut s = String::from("%start S\n");
    if rng.chance(1, 3) { s.push_str("%line_comment '//'\n"); }
    if rng.chance(1, 4) { s.push_str("%block_comment '(*' '*)'\n"); }
    if rng.chance(1, 4) { s.push_str("%auto_newline_off\n"); }
    if rng.chance(1, 3) { s.push_str("%allow_unmatched\n"); }
    let states = rng.chance(1, 2);
    let how = [0usize, 1, 2, 2][rng.below(4)];
    // state-specific skip lists: the token that switches the scanner is skipped in exactly one of the two states, a
    // plain token in the other
    let skipmode = if states { rng.below(4) } else { 0 };
    if states {
        if skipmode == 1 { s.push_str("%skip Q\n"); }
        if skipmode == 3 { s.push_str("%skip W\n"); }
        s.push_str(match how { 0 => "%on Q %enter Str\n", 1 => "%on Q %push Str\n", _ => "%on Q %push Str\n" });
        s.push_str("%scanner Str {\n    %auto_newline_off\n    %auto_ws_off\n");
        if skipmode == 2 { s.push_str("    %skip Q\n"); }
        if skipmode == 3 { s.push_str("    %skip Q, W\n"); }
        s.push_str(match how { 0 => "    %on Q %enter INITIAL\n", 1 => "    %on Q %pop\n", _ => "    %on Q %pop\n    %on P %push Str\n" });
        s.push_str("}\n");
    }
    s.push_str("%%\n");
    let n = rng.range(2, 6);
    let mut alts: Vec<String> = vec![];
    for _ in 0..n {
        let t = pool[rng.below(pool.len())];
        if !alts.iter().any(|a| a == t) { alts.push(t.to_string()); }
    }
    if states {
        if rng.chance(1, 2) {
            // the same terminal under different state annotations at different places, the inner state's occurrence first
            alts.insert(0, "<Str> /[a-z]+/".to_string());
            if !alts.iter().any(|a| a == "/[a-z]+/") { alts.push("/[a-z]+/".to_string()); }
        }
        alts.push("Q".to_string());
        alts.push("<Str> /[^\"(]+/".to_string());
        if how == 2 { alts.push("P".to_string()); }
    }
    s.push_str(&format!("S: {{ T }};\nT: {};\n", alts.join(" | ")));
    if states {
        if skipmode == 3 { s.push_str("W: <INITIAL, Str> /w+/;\n"); }
        s.push_str("Q: <INITIAL, Str> \"\\u{22}\";\n");
        if how == 2 { s.push_str("P: <Str> \"\\(\";\n"); }
    }
    s
}

fn random_text(rng: &mut Rng) -> String {
    let atoms = ["if", "i", "f", "a", "b", "ab", "abc", "fi", "iif", "0", "12", "3.4", ".", "=", "==", "===", "+", "++", "+++", "<", "<-", "-", " ", "  ", "\n", "\r\n",
                 "\"", "(", ")", "(*", "*)", "//x", "#", "é", "z9", "a1", "ba",
                 // nested pushes of a state into itself and their pops
                 "\"((", "\"(", "\"\"", "((", "\"\"\"", "w", "ww ", "\"w\""];
    let n = rng.range(0, 14);
    (0..n).map(|_| atoms[rng.below(atoms.len())]).collect::<Vec<_>>().join("")
}

fn extract_macro_body(src: &str) -> Option<String> {
    let i = src.find("scanner! {")?;
    let rest = &src[i + "scanner! {".len()..];
    // the macro invocation is the last item of the lexer source: up to its final closing brace
    let j = rest.rfind('}')?;
    Some(rest[..j].to_string())
}

pub fn run(a: &Args) {
    let mut rng = Rng::new(a.seed ^ ((a.shard as u64) << 32) ^ 0xC13);
    for _ in 0..a.n {
        let par = random_par(&mut rng);
        let gc = match std::panic::catch_unwind(|| obtain_grammar_config_from_string(&par, false)) {
            Ok(Ok(g)) => g,
            _ => { println!("(scan {} (rejected))", sx::s(&par)); continue; }
        };
        let src = match std::panic::catch_unwind(|| generate_lexer_source(&gc, &Cfg)) {
            Ok(Ok(s)) => s,
            _ => { println!("(scan {} (lexer-generator-failed))", sx::s(&par)); continue; }
        };
        let body = match extract_macro_body(&src) { Some(b) => b, None => { println!("(scan {} (no-macro))", sx::s(&par)); continue; } };
        let sc: &'static dynscan::DynScanner = match dynscan::build(&body) {
            Ok(s) => Box::leak(Box::new(s)),
            Err(e) => { println!("(scan {} (scanner-build-failed {}))", sx::s(&par), sx::s(&e)); continue; }
        };
        // the mode tables as regexes, from the same build information the lexer generator uses
        let names = generate_terminal_names(&gc);
        let mut modes_sx = vec![];
        let mut ok = true;
        for sconf in &gc.scanner_configurations {
            let (maps, trans) = match sconf.generate_build_information(&gc, &names) { Ok(x) => x, Err(_) => { ok = false; break; } };
            let entries: Vec<String> = maps.iter().map(|(pat, ti, la, _)| {
                let r = rx::translate(pat).unwrap_or_else(|_| "(unsupported)".into());
                let l = match la { None => "none".to_string(), Some((pos, lp)) => format!("({} {})", *pos as u8, rx::translate(lp).unwrap_or_else(|_| "(unsupported)".into())) };
                format!("({} {} {})", ti, r, l)
            }).collect();
            let tr: Vec<String> = trans.iter().map(|(ti, sw)| match sw {
                ScannerStateSwitch::Switch(n, _) => format!("({} enter {})", ti, gc.scanner_configurations.iter().position(|c| &c.scanner_name == n).unwrap_or(999)),
                ScannerStateSwitch::SwitchPush(n, _) => format!("({} push {})", ti, gc.scanner_configurations.iter().position(|c| &c.scanner_name == n).unwrap_or(999)),
                ScannerStateSwitch::SwitchPop(_) => format!("({} pop)", ti),
            }).collect();
            modes_sx.push(format!("(({}) ({}))", entries.join(" "), tr.join(" ")));
        }
        if !ok { println!("(scan {} (build-info-failed))", sx::s(&par)); continue; }
        // which user terminals the GRAMMAR puts into which scanner state: the union of the state lists written at
        // the occurrences of the terminal (computed here from the productions, not from the generator's merged lists)
        let ordered = gc.cfg.get_ordered_terminals();
        let mut decl: Vec<std::collections::BTreeSet<usize>> = vec![Default::default(); ordered.len()];
        for p in &gc.cfg.pr {
            for s in p.get_r() {
                if let parol::Symbol::T(parol::Terminal::Trm(t, k, states, _, _, _, l)) = s {
                    if let Some(i) = ordered.iter().position(|(t2, k2, l2, _)| t2 == t && k2.behaves_like(*k) && l2 == l) {
                        decl[i].extend(states.iter().cloned());
                    }
                }
            }
        }
        let members_sx = (0..gc.scanner_configurations.len()).map(|m| format!("({})", decl.iter().enumerate().filter(|(_, d)| d.contains(&m)).map(|(i, _)| (i + 5).to_string()).collect::<Vec<_>>().join(" "))).collect::<Vec<_>>().join(" ");
        modes_sx.push(format!("(members {})", members_sx));
        // SKIP_TOKENS_BY_SCANNER_STATE as the parser generator emits it
        let skip_vecs: Vec<&'static [u16]> = gc.scanner_configurations.iter().map(|c| { let v: Vec<u16> = c.skip_tokens.clone(); let l: &'static [u16] = Box::leak(v.into_boxed_slice()); l }).collect();
        let skips: &'static [&'static [u16]] = Box::leak(skip_vecs.into_boxed_slice());
        modes_sx.push(format!("(skips {})", skips.iter().map(|l| format!("({})", l.iter().map(|t| t.to_string()).collect::<Vec<_>>().join(" "))).collect::<Vec<_>>().join(" ")));
        for _ in 0..6 {
            let text = random_text(&mut rng);
            let k = [1usize, 2, 5][rng.below(3)];
            let peek: Vec<bool> = (0..4).map(|_| rng.chance(1, 2)).collect();
            let toks = sc.tokens(&text, k, skips, &peek);
            // byte offset -> code point offset
            let cp = |b: u32| text[..(b as usize).min(text.len())].chars().count();
            let res = match toks {
                Ok(ts) => format!("({})", ts.iter().filter(|t| t.0 != 0).map(|t| format!("({} {} {} {})", t.0, cp(t.1), cp(t.2), t.3 as u8)).collect::<Vec<_>>().join(" ")),
                Err(e) => format!("(error {})", sx::s(&e)),
            };
            println!("(scan {} (modes {}) {} {} {})", sx::s(&par), modes_sx.join(" "), rx::cps(&text), k, res);
        }
    }
}
