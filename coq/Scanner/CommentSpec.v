(** * Property C15: comment regexes against a declarative specification.

    "A block comment token runs from its start delimiter to the FIRST subsequent occurrence of its
    end delimiter, and no further.  A line comment runs to the end of its line, including the line
    break."  The specification is a predicate on strings ([is_block_comment], [is_line_comment]).
    It is decided for a concrete regex by a proved bisimulation check between the derivatives of
    the regex and a deterministic specification automaton ([equiv_regex_dfa]); the specification
    automata ([block_spec], [line_spec]) are proved to accept exactly the declarative predicates,
    for ALL delimiters. *)
From Coq Require Import List NArith Bool Lia Arith.
From Parol Require Import Scanner.Regex Scanner.RegexEquiv.
Import ListNotations.

(** ** Deterministic automata over code points *)

Record dfa (st : Type) : Type := mkDfa {
  st_eqb : st -> st -> bool;
  init : st;
  step : st -> N -> st;
  acc : st -> bool;
  chars : list N          (* the characters the automaton compares its input with *)
}.
Arguments mkDfa {st}.
Arguments st_eqb {st}.
Arguments init {st}.
Arguments step {st}.
Arguments acc {st}.
Arguments chars {st}.

Definition dfa_run {st} (A : dfa st) (q : st) (w : list N) : st := fold_left (step A) w q.
Definition dfa_accepts {st} (A : dfa st) (w : list N) : bool := acc A (dfa_run A (init A) w).

(** interval starts that separate each listed character from its neighbours *)
Definition char_bounds (cs : list N) : list N := flat_map (fun c => [c; N.succ c]) cs.

Definition dfa_eqb_sound {st} (A : dfa st) : Prop := forall a b, st_eqb A a b = true -> a = b.

(** the automaton distinguishes characters only by comparing them with [chars A] *)
Definition dfa_step_uniform {st} (A : dfa st) : Prop :=
  forall q c c', same_side (char_bounds (chars A)) c c' -> step A q c = step A q c'.

(** (weaker, language level) *)
Definition dfa_uniform {st} (A : dfa st) : Prop :=
  forall w w', Forall2 (same_side (char_bounds (chars A))) w w' -> dfa_accepts A w = dfa_accepts A w'.

Lemma step_uniform_lang {st} (A : dfa st) : dfa_step_uniform A -> dfa_uniform A.
Proof.
  intros Hu w w' H. unfold dfa_accepts, dfa_run. generalize (init A) as q.
  induction H as [|c c' w w' Hc _ IH]; intros q; cbn [fold_left]; [reflexivity|].
  rewrite (Hu q c c' Hc). apply IH.
Qed.

Lemma same_side_eqb cs c c' c0 :
  In c0 cs -> same_side (char_bounds cs) c c' -> N.eqb c c0 = N.eqb c' c0.
Proof.
  intros Hin Hs.
  assert (H1 : N.leb c0 c = N.leb c0 c').
  { apply Hs. apply in_flat_map. exists c0. split; [assumption | left; reflexivity]. }
  assert (H2 : N.leb (N.succ c0) c = N.leb (N.succ c0) c').
  { apply Hs. apply in_flat_map. exists c0. split; [assumption | right; left; reflexivity]. }
  destruct (N.leb_spec c0 c); destruct (N.leb_spec c0 c'); try discriminate;
    destruct (N.leb_spec (N.succ c0) c); destruct (N.leb_spec (N.succ c0) c'); try discriminate;
    destruct (N.eqb_spec c c0); destruct (N.eqb_spec c' c0); try reflexivity; lia.
Qed.

Lemma char_bounds_incl cs cs' : incl cs cs' -> incl (char_bounds cs) (char_bounds cs').
Proof.
  intros Hi b Hb. apply in_flat_map in Hb. destruct Hb as [c [Hc Hb]].
  apply in_flat_map. exists c. split; [apply Hi; assumption | assumption].
Qed.

(** ** The alphabet: a list of inclusive ranges of valid characters *)

Definition code_points : list (N * N) := [(0%N, max_code_point)].
(** Unicode scalar values (code points without the surrogates) *)
Definition scalar_values : list (N * N) := [(0%N, 55295%N); (57344%N, max_code_point)].

Definition valid_char (alphabet : list (N * N)) (c : N) : Prop := in_ranges c alphabet = true.

Lemma valid_code_point c : valid_char code_points c <-> is_code_point c.
Proof.
  unfold valid_char, code_points, in_ranges, in_range, is_code_point. cbn [existsb fst snd].
  rewrite orb_false_r, andb_true_iff, !N.leb_le. split; [intros [_ H]; exact H | intros H; split; [lia | exact H]].
Qed.

(** representatives of the partition [B] lying in the alphabet *)
Definition reps_in (alphabet : list (N * N)) (B : list N) : list N :=
  filter (fun c => in_ranges c alphabet) (dedup (0%N :: B)).

Lemma rep_in_reps_in alphabet B c :
  incl (range_bounds alphabet) B -> valid_char alphabet c -> In (rep B c) (reps_in alphabet B).
Proof.
  intros Hi Hc. unfold reps_in. apply filter_In. split.
  - apply dedup_In. destruct (rep_in B c) as [H|H]; [left; symmetry; assumption | right; assumption].
  - unfold valid_char, in_ranges in *. apply existsb_exists in Hc. destruct Hc as [[lo hi] [Hin Hr]].
    apply existsb_exists. exists (lo, hi). split; [assumption|].
    unfold in_range in *. cbn [fst snd] in *. apply andb_prop in Hr as [H1 H2].
    apply N.leb_le in H1. apply N.leb_le in H2.
    assert (Hlo : In lo (range_bounds alphabet)).
    { clear - Hin. induction alphabet as [|p al IH]; [destruct Hin|]. cbn [range_bounds].
      destruct Hin as [Hin|Hin]; [subst p; left; reflexivity | right; right; apply IH; assumption]. }
    pose proof (rep_max B c lo (Hi _ Hlo) H1). pose proof (rep_le B c).
    apply andb_true_intro. split; apply N.leb_le; lia.
Qed.

Lemma reps_in_valid alphabet B c : In c (reps_in alphabet B) -> valid_char alphabet c.
Proof. unfold reps_in. intros H. apply filter_In in H. destruct H as [_ H]. exact H. Qed.

(** ** Bisimulation between the derivatives of a regex and the states of an automaton *)

Section Explore.
  Variable st : Type.
  Variable A : dfa st.

  Definition rq_eqb (p q : regex * st) : bool :=
    regex_eqb (fst p) (fst q) && st_eqb A (snd p) (snd q).

  Definition ditem : Type := (list N * regex * st)%type.
  Definition dpair (x : ditem) : regex * st := (snd (fst x), snd x).

  (** breadth-first; one unit of fuel per popped work item *)
  Fixpoint explore_d (fuel : nat) (reps : list N) (V : list (regex * st)) (W : list ditem)
    : option (option (list N)) :=
    match fuel with
    | O => None
    | S f =>
      match W with
      | [] => Some None
      | (w, a, q) :: W' =>
        if existsb (rq_eqb (a, q)) V then explore_d f reps V W'
        else if Bool.eqb (nullable a) (acc A q)
        then explore_d f reps ((a, q) :: V)
                       (W' ++ map (fun c => (c :: w, deriv c a, step A q c)) reps)
        else Some (Some (rev w))
      end
    end.

  Definition closed_d (reps : list N) (V W : list (regex * st)) : Prop :=
    forall a q, In (a, q) V ->
      nullable a = acc A q /\
      forall c, In c reps -> In (deriv c a, step A q c) V \/ In (deriv c a, step A q c) W.

  Hypothesis eqb_sound : dfa_eqb_sound A.

  Lemma rq_eqb_eq p q : rq_eqb p q = true -> p = q.
  Proof.
    destruct p as [a x], q as [b y]. unfold rq_eqb. cbn [fst snd]. intros H.
    apply andb_prop in H as [H1 H2]. apply regex_eqb_eq in H1. apply eqb_sound in H2.
    subst. reflexivity.
  Qed.

  Lemma explore_d_closed reps : forall f V W,
    explore_d f reps V W = Some None ->
    closed_d reps V (map dpair W) ->
    exists V', incl V V' /\ incl (map dpair W) V' /\ closed_d reps V' [].
  Proof.
    induction f as [|f IH]; intros V W He Hc; cbn [explore_d] in He; [discriminate|].
    destruct W as [|[[w a] q] W'].
    - exists V. split; [apply incl_refl|]. split; [intros p []|]. exact Hc.
    - cbn [map] in Hc. unfold dpair at 1 in Hc. cbn [fst snd] in Hc.
      destruct (existsb (rq_eqb (a, q)) V) eqn:Ev.
      { apply existsb_exists in Ev. destruct Ev as [p [Hp Hpe]]. apply rq_eqb_eq in Hpe. subst p.
        destruct (IH V W' He) as [V' [Hi [Hw Hc']]].
        - intros x y Hxy. destruct (Hc x y Hxy) as [Hn Hd]. split; [assumption|].
          intros c Hcr. destruct (Hd c Hcr) as [H|[H|H]]; auto.
          left. rewrite <- H. assumption.
        - exists V'. split; [assumption|]. split; [|assumption].
          intros p [Hp'|Hp']; [subst p; apply Hi; assumption | apply Hw; assumption]. }
      destruct (Bool.eqb (nullable a) (acc A q)) eqn:En; [|discriminate].
      apply eqb_prop in En.
      destruct (IH _ _ He) as [V' [Hi [Hw Hc']]].
      + intros x y [Hxy|Hxy].
        * inversion Hxy; subst x y. split; [assumption|]. intros c Hcr. right.
          rewrite map_app. apply in_or_app. right. rewrite map_map.
          apply in_map_iff. exists c. split; [reflexivity | assumption].
        * destruct (Hc x y Hxy) as [Hn Hd]. split; [assumption|].
          intros c Hcr. destruct (Hd c Hcr) as [H|[H|H]].
          -- left. right. assumption.
          -- left. left. assumption.
          -- right. rewrite map_app. apply in_or_app. left. assumption.
      + exists V'. split; [intros p Hp; apply Hi; right; assumption|]. split; [|assumption].
        intros p [Hp|Hp].
        * subst p. apply Hi. left. reflexivity.
        * apply Hw. rewrite map_app. apply in_or_app. left. assumption.
  Qed.

  Lemma closed_d_bisim reps V :
    closed_d reps V [] ->
    forall w, Forall (fun c => In c reps) w ->
    forall a q, In (a, q) V -> (matches a w <-> acc A (dfa_run A q w) = true).
  Proof.
    intros Hc w. induction w as [|c w IH]; intros Hw a q Haq; unfold dfa_run; cbn [fold_left].
    - rewrite <- nullable_spec. destruct (Hc a q Haq) as [Hn _]. rewrite Hn. reflexivity.
    - inversion Hw as [|c' w' Hcr Hw']; subst. rewrite <- deriv_spec.
      apply (IH Hw'). destruct (Hc a q Haq) as [_ Hd].
      destruct (Hd c Hcr) as [H|[]]. exact H.
  Qed.

  Lemma explore_d_sound reps f r :
    explore_d f reps [] [([], r, init A)] = Some None ->
    forall w, Forall (fun c => In c reps) w -> (matches r w <-> dfa_accepts A w = true).
  Proof.
    intros He w Hw. destruct (explore_d_closed reps f [] _ He) as [V' [_ [Hin Hc]]].
    - intros a b [].
    - apply (closed_d_bisim reps V' Hc w Hw). apply Hin. left. reflexivity.
  Qed.
End Explore.

Arguments explore_d {st}.

Section Witness.
  Variable st : Type.
  Variable A : dfa st.

  Definition dwork_ok (reps : list N) (r : regex) (W : list (ditem st)) : Prop :=
    forall w a q, In (w, a, q) W ->
      a = derivs r (rev w) /\ q = dfa_run A (init A) (rev w) /\ Forall (fun c => In c reps) w.

  Lemma explore_d_witness reps r : forall f V W w,
    explore_d A f reps V W = Some (Some w) -> dwork_ok reps r W ->
    matchb r w <> dfa_accepts A w /\ Forall (fun c => In c reps) w.
  Proof.
    induction f as [|f IH]; intros V W w He Hok; cbn [explore_d] in He; [discriminate|].
    destruct W as [|[[x a] q] W']; [discriminate|].
    assert (Hok' : dwork_ok reps r W').
    { intros y p z Hy. apply Hok. right. assumption. }
    destruct (Hok x a q (or_introl eq_refl)) as [Ha [Hq Hx]].
    destruct (existsb (rq_eqb st A (a, q)) V); [eapply IH; eassumption|].
    destruct (Bool.eqb (nullable a) (acc A q)) eqn:En.
    - apply (IH _ _ _ He). intros y p z Hy. apply in_app_or in Hy.
      destruct Hy as [Hy|Hy]; [apply Hok'; assumption|].
      apply in_map_iff in Hy. destruct Hy as [c [Hy Hc]]. inversion Hy; subst y p z.
      cbn [rev]. rewrite derivs_app. unfold dfa_run. rewrite fold_left_app.
      fold (dfa_run A (init A) (rev x)). rewrite <- Ha, <- Hq.
      repeat split; try reflexivity. constructor; assumption.
    - inversion He; subst w. apply eqb_false_iff in En. split.
      + unfold matchb, dfa_accepts. rewrite <- Ha, <- Hq. assumption.
      + apply Forall_rev. assumption.
  Qed.
End Witness.

(** ** The checker

    [fuel] = maximal number of distinct (derivative, state) pairs expanded.  [Some None]: [r] and
    [A] accept the same words over the alphabet; [Some (Some w)]: [w] (a shortest such word over
    the alphabet) is accepted by exactly one of them; [None]: out of fuel. *)
Definition equiv_regex_dfa_on {st} (alphabet : list (N * N)) (fuel : nat) (r : regex) (A : dfa st)
  : option (option (list N)) :=
  let reps := reps_in alphabet (range_bounds alphabet ++ bounds r ++ char_bounds (chars A)) in
  explore_d A (S (fuel * S (length reps))) reps [] [([], r, init A)].

Definition equiv_regex_dfa {st} (fuel : nat) (r : regex) (A : dfa st) : option (option (list N)) :=
  equiv_regex_dfa_on code_points fuel r A.

Theorem equiv_regex_dfa_on_sound {st} alphabet f r (A : dfa st) :
  dfa_eqb_sound A -> dfa_uniform A ->
  equiv_regex_dfa_on alphabet f r A = Some None ->
  forall w, Forall (valid_char alphabet) w -> (matches r w <-> dfa_accepts A w = true).
Proof.
  unfold equiv_regex_dfa_on. intros Heq Hun He w Hw.
  set (B := range_bounds alphabet ++ bounds r ++ char_bounds (chars A)) in *.
  rewrite (matches_rep B w r) by (apply incl_appr, incl_appl, incl_refl).
  rewrite (Hun w (map (rep B) w)).
  - apply (explore_d_sound st A Heq _ _ _ He).
    apply Forall_forall. intros c Hc. apply in_map_iff in Hc. destruct Hc as [d [Hd Hin]].
    subst c. apply rep_in_reps_in; [apply incl_appl, incl_refl|].
    rewrite Forall_forall in Hw. apply Hw. assumption.
  - clear. induction w as [|c w IH]; cbn [map]; constructor; [|exact IH].
    apply (same_side_incl B); [apply incl_appr, incl_appr, incl_refl | apply rep_same_side].
Qed.

Theorem equiv_regex_dfa_on_witness {st} alphabet f r (A : dfa st) w :
  equiv_regex_dfa_on alphabet f r A = Some (Some w) ->
  Forall (valid_char alphabet) w /\ matchb r w <> dfa_accepts A w.
Proof.
  unfold equiv_regex_dfa_on. intros He.
  destruct (explore_d_witness st A _ r _ _ _ _ He) as [H1 H2].
  - intros y p q [Hy|[]]. inversion Hy; subst. cbn [rev derivs dfa_run fold_left]. auto.
  - split; [|assumption]. apply Forall_forall. intros c Hc. rewrite Forall_forall in H2.
    apply (reps_in_valid _ _ _ (H2 c Hc)).
Qed.

Lemma Forall_code_points w : Forall is_code_point w <-> Forall (valid_char code_points) w.
Proof. rewrite !Forall_forall. split; intros H c Hc; apply valid_code_point, H, Hc. Qed.

Theorem equiv_regex_dfa_sound {st} f r (A : dfa st) :
  dfa_eqb_sound A -> dfa_uniform A ->
  equiv_regex_dfa f r A = Some None ->
  forall w, Forall is_code_point w -> (matches r w <-> dfa_accepts A w = true).
Proof.
  intros Heq Hun He w Hw. apply (equiv_regex_dfa_on_sound _ f r A Heq Hun He).
  apply Forall_code_points. exact Hw.
Qed.

Theorem equiv_regex_dfa_witness {st} f r (A : dfa st) w :
  equiv_regex_dfa f r A = Some (Some w) ->
  Forall is_code_point w /\ matchb r w <> dfa_accepts A w.
Proof.
  intros He. destruct (equiv_regex_dfa_on_witness _ f r A w He) as [H1 H2].
  split; [apply Forall_code_points; exact H1 | exact H2].
Qed.

(** ** Reading a fixed start delimiter, then continuing with another automaton *)

Inductive pstate (st : Type) : Type := PStart (i : nat) | PIn (q : st) | PDead.
Arguments PStart {st}.
Arguments PIn {st}.
Arguments PDead {st}.

Section Prefix.
  Variable st : Type.
  Variable s : list N.
  Variable A : dfa st.

  Definition pstate_eqb (a b : pstate st) : bool :=
    match a, b with
    | PStart i, PStart j => Nat.eqb i j
    | PIn p, PIn q => st_eqb A p q
    | PDead, PDead => true
    | _, _ => false
    end.

  Definition pstep (q : pstate st) (c : N) : pstate st :=
    match q with
    | PStart i =>
      match nth_error s i with
      | Some c0 =>
        if N.eqb c c0
        then (if Nat.eqb (S i) (length s) then PIn (init A) else PStart (S i))
        else PDead
      | None => PDead
      end
    | PIn p => PIn (step A p c)
    | PDead => PDead
    end.

  Definition pacc (q : pstate st) : bool :=
    match q with PIn p => acc A p | _ => false end.

  Definition prefix_dfa : dfa (pstate st) :=
    {| st_eqb := pstate_eqb;
       init := match s with [] => PIn (init A) | _ :: _ => PStart 0 end;
       step := pstep;
       acc := pacc;
       chars := s ++ chars A |}.

  Lemma prefix_eqb_sound : dfa_eqb_sound A -> dfa_eqb_sound prefix_dfa.
  Proof.
    intros Hs [i|p|] [j|q|] H; cbn in H; try discriminate; try reflexivity.
    - apply Nat.eqb_eq in H. subst. reflexivity.
    - apply Hs in H. subst. reflexivity.
  Qed.

  Lemma prefix_step_uniform : dfa_step_uniform A -> dfa_step_uniform prefix_dfa.
  Proof.
    intros Hu [i|p|] c c' Hs; cbn [step prefix_dfa pstep chars] in *; [| |reflexivity].
    - destruct (nth_error s i) as [c0|] eqn:En; [|reflexivity].
      rewrite (same_side_eqb (s ++ chars A) c c' c0); [reflexivity | | exact Hs].
      apply in_or_app. left. apply (nth_error_In _ _ En).
    - f_equal. apply Hu. apply (same_side_incl _ _ _ _ (char_bounds_incl _ _ (incl_appr _ (incl_refl _))) Hs).
  Qed.

  Lemma prun_dead x : fold_left pstep x PDead = PDead.
  Proof. induction x as [|c x IH]; cbn [fold_left pstep]; [reflexivity | exact IH]. Qed.

  Lemma prun_in x : forall p, fold_left pstep x (PIn p) = PIn (dfa_run A p x).
  Proof.
    unfold dfa_run. induction x as [|c x IH]; intros p; cbn [fold_left pstep]; [reflexivity | apply IH].
  Qed.

  Lemma skipn_nth_cons (l : list N) : forall i a,
    nth_error l i = Some a -> skipn i l = a :: skipn (S i) l.
  Proof.
    induction l as [|b l IH]; intros [|i] a H; cbn [nth_error] in H; try discriminate.
    - inversion H. reflexivity.
    - cbn [skipn]. rewrite (IH i a H). reflexivity.
  Qed.

  Lemma prun_start : forall x i, i < length s ->
    (pacc (fold_left pstep x (PStart i)) = true <->
     exists y, x = skipn i s ++ y /\ dfa_accepts A y = true).
  Proof.
    induction x as [|c x IH]; intros i Hi.
    - cbn [fold_left pacc]. split; [discriminate|]. intros [y [Hy _]].
      symmetry in Hy. apply app_eq_nil in Hy as [Hs _].
      pose proof (skipn_length i s) as Hl. rewrite Hs in Hl. cbn [length] in Hl. lia.
    - cbn [fold_left pstep].
      destruct (nth_error s i) as [c0|] eqn:En; [|apply nth_error_None in En; lia].
      rewrite (skipn_nth_cons s i c0 En).
      destruct (N.eqb_spec c c0) as [Hc|Hc].
      + subst c0. destruct (Nat.eqb_spec (S i) (length s)) as [Hl|Hl].
        * rewrite prun_in. cbn [pacc]. rewrite skipn_all2 by lia. cbn [app]. split.
          -- intros H. exists x. split; [reflexivity | exact H].
          -- intros [y [Hy H]]. inversion Hy; subst y. exact H.
        * rewrite (IH (S i)) by lia. split; intros [y [Hy H]]; exists y; split; try exact H.
          -- rewrite Hy. reflexivity.
          -- inversion Hy. reflexivity.
      + rewrite prun_dead. cbn [pacc]. split; [discriminate|].
        intros [y [Hy _]]. inversion Hy. congruence.
  Qed.

  Theorem prefix_correct x :
    dfa_accepts prefix_dfa x = true <-> exists y, x = s ++ y /\ dfa_accepts A y = true.
  Proof.
    unfold dfa_accepts at 1, dfa_run. cbn [step acc init prefix_dfa].
    destruct s as [|c0 s'] eqn:Es.
    - rewrite prun_in. cbn [pacc app]. split.
      + intros H. exists x. split; [reflexivity | exact H].
      + intros [y [Hy H]]. subst y. exact H.
    - rewrite <- Es. rewrite prun_start by (rewrite Es; cbn [length]; lia).
      cbn [skipn]. reflexivity.
  Qed.
End Prefix.

Arguments prefix_dfa {st}.

(** ** Sliding window: "the first occurrence of the pattern [p] ends exactly at the end" *)

Section Window.
  Variable X : Type.
  Variable xeqb : X -> X -> bool.
  Hypothesis xeqb_eq : forall a b, xeqb a b = true <-> a = b.
  Variable p : list X.
  Hypothesis p_ne : p <> [].

  Fixpoint leqb (u v : list X) : bool :=
    match u, v with
    | [], [] => true
    | a :: u', b :: v' => xeqb a b && leqb u' v'
    | _, _ => false
    end.

  Lemma leqb_eq u : forall v, leqb u v = true <-> u = v.
  Proof.
    induction u as [|a u IH]; intros [|b v]; cbn [leqb]; split; intros H;
      try reflexivity; try discriminate.
    - apply andb_prop in H as [H1 H2]. apply xeqb_eq in H1. apply IH in H2. subst. reflexivity.
    - inversion H; subst. apply andb_true_intro. split; [apply xeqb_eq | apply IH]; reflexivity.
  Qed.

  (** the last [k] elements *)
  Definition lastn (k : nat) (l : list X) : list X := skipn (length l - k) l.

  (** window: the last [min (length p) n] elements read *)
  Definition push (w : list X) (a : X) : list X :=
    if Nat.ltb (length w) (length p) then w ++ [a] else tl w ++ [a].

  (** [None] = dead.  Once the window equals [p] (an occurrence has been completed) every
      further element leads to the dead state. *)
  Definition wstep (q : option (list X)) (a : X) : option (list X) :=
    match q with
    | None => None
    | Some w => if leqb w p then None else Some (push w a)
    end.

  Definition wacc (q : option (list X)) : bool :=
    match q with None => false | Some w => leqb w p end.

  Definition first_occ_at_end (y : list X) : Prop :=
    exists b, y = b ++ p /\
              forall i, i < length b -> firstn (length p) (skipn i (b ++ p)) <> p.

  Lemma p_pos : 0 < length p.
  Proof. destruct p; [contradiction | cbn [length]; lia]. Qed.

  Lemma lastn_app_pat b : lastn (length p) (b ++ p) = p.
  Proof.
    unfold lastn. rewrite app_length.
    replace (length b + length p - length p) with (length b) by lia.
    rewrite skipn_app, skipn_all, Nat.sub_diag. reflexivity.
  Qed.

  Lemma lastn_split l : lastn (length p) l = p -> l = firstn (length l - length p) l ++ p.
  Proof.
    intros H. rewrite <- (firstn_skipn (length l - length p) l) at 1.
    unfold lastn in H. rewrite H. reflexivity.
  Qed.

  Lemma tl_skipn : forall m (l : list X), tl (skipn m l) = skipn (S m) l.
  Proof.
    induction m as [|m IH]; intros [|a l]; cbn [skipn tl]; try reflexivity.
    apply IH.
  Qed.

  Lemma lastn_snoc l a : lastn (length p) (l ++ [a]) = push (lastn (length p) l) a.
  Proof.
    pose proof p_pos as Hp. unfold lastn, push. rewrite app_length, skipn_length. cbn [length].
    destruct (Nat.lt_ge_cases (length l) (length p)) as [Hlt|Hge].
    - replace (length l - length p) with 0 by lia.
      replace (length l + 1 - length p) with 0 by lia.
      rewrite Nat.sub_0_r. destruct (Nat.ltb_spec (length l) (length p)); [reflexivity | lia].
    - destruct (Nat.ltb_spec (length l - (length l - length p)) (length p)); [lia|].
      rewrite tl_skipn.
      replace (length l + 1 - length p) with (S (length l - length p)) by lia.
      rewrite skipn_app.
      replace (S (length l - length p) - length l) with 0 by lia. reflexivity.
  Qed.

  (** a proper prefix of [y] ends with [p] *)
  Definition occ_before (y : list X) : Prop := exists b q, y = (b ++ p) ++ q /\ q <> [].

  Lemma window_run y :
    (occ_before y /\ fold_left wstep y (Some []) = None) \/
    (~ occ_before y /\ fold_left wstep y (Some []) = Some (lastn (length p) y)).
  Proof.
    induction y as [|a y IH] using rev_ind.
    - right. split.
      + intros [b [q [H Hq]]]. symmetry in H. apply app_eq_nil in H as [_ H]. contradiction.
      + reflexivity.
    - rewrite fold_left_app. cbn [fold_left]. destruct IH as [[Ho Hr]|[Hno Hr]]; rewrite Hr.
      + left. split; [|reflexivity]. destruct Ho as [b [q [H Hq]]].
        exists b, (q ++ [a]). split.
        * rewrite H, <- app_assoc. reflexivity.
        * intros E. apply app_eq_nil in E as [_ E]. discriminate.
      + cbn [wstep]. destruct (leqb (lastn (length p) y) p) eqn:El.
        * apply leqb_eq in El. left. split; [|reflexivity].
          exists (firstn (length y - length p) y), [a]. split; [|discriminate].
          rewrite <- (lastn_split y El). reflexivity.
        * right. split; [|rewrite lastn_snoc; reflexivity].
          intros [b [q [H Hq]]]. destruct (exists_last Hq) as [q' [a' Eq]]. subst q.
          rewrite app_assoc in H. apply app_inj_tail in H as [H _].
          destruct q' as [|x q'].
          -- rewrite app_nil_r in H. subst y. rewrite lastn_app_pat in El.
             rewrite (proj2 (leqb_eq p p) eq_refl) in El. discriminate.
          -- apply Hno. exists b, (x :: q'). split; [assumption | discriminate].
  Qed.

  Theorem window_correct y : wacc (fold_left wstep y (Some [])) = true <-> first_occ_at_end y.
  Proof.
    destruct (window_run y) as [[Ho Hr]|[Hno Hr]]; rewrite Hr; cbn [wacc].
    - split; [discriminate|]. intros [b [Hy Hfirst]]. exfalso.
      destruct Ho as [b' [q [H Hq]]].
      assert (Hlen : length b' < length b).
      { assert (E : length (b ++ p) = length ((b' ++ p) ++ q)) by (rewrite <- Hy, <- H; reflexivity).
        rewrite !app_length in E. destruct q; [contradiction | cbn [length] in E; lia]. }
      apply (Hfirst (length b') Hlen). rewrite <- Hy, H, <- app_assoc.
      rewrite skipn_app, skipn_all, Nat.sub_diag. cbn [skipn app].
      rewrite firstn_app, firstn_all, Nat.sub_diag. cbn [firstn]. apply app_nil_r.
    - rewrite leqb_eq. split.
      + intros El. exists (firstn (length y - length p) y).
        split; [apply lastn_split; assumption|].
        intros i Hi Hocc. rewrite <- (lastn_split y El) in Hocc. apply Hno.
        exists (firstn i y), (skipn (length p) (skipn i y)). split.
        * rewrite <- app_assoc. transitivity (firstn i y ++ skipn i y);
            [symmetry; apply firstn_skipn|]. f_equal.
          rewrite <- (firstn_skipn (length p) (skipn i y)) at 1. rewrite Hocc. reflexivity.
        * intros E. apply (f_equal (@length X)) in E. rewrite !skipn_length in E.
          cbn [length] in E. rewrite firstn_length in Hi. pose proof p_pos. lia.
      + intros [b [Hy Hfirst]]. subst y. apply lastn_app_pat.
  Qed.
End Window.

(** ** Block comments *)

(** [x] = start delimiter, body, end delimiter, and the first occurrence of the end delimiter in
    "body ++ end delimiter" is the final one *)
Definition ends_at_first (e y : list N) : Prop :=
  exists b, y = b ++ e /\
            forall i, i < length b -> firstn (length e) (skipn i (b ++ e)) <> e.

Definition is_block_comment (s e x : list N) : Prop :=
  exists b, x = s ++ b ++ e /\
            forall i, i < length b -> firstn (length e) (skipn i (b ++ e)) <> e.

Lemma is_block_comment_alt s e x :
  is_block_comment s e x <-> exists y, x = s ++ y /\ ends_at_first e y.
Proof.
  unfold is_block_comment, ends_at_first. split.
  - intros [b [Hx Hf]]. exists (b ++ e). split; [exact Hx|]. exists b. split; [reflexivity | exact Hf].
  - intros [y [Hx [b [Hy Hf]]]]. subst y. exists b. split; [exact Hx | exact Hf].
Qed.

Definition oN_eqb (a b : option N) : bool :=
  match a, b with
  | Some x, Some y => N.eqb x y
  | None, None => true
  | _, _ => false
  end.

Lemma oN_eqb_eq a b : oN_eqb a b = true <-> a = b.
Proof.
  destruct a as [x|], b as [y|]; cbn [oN_eqb]; split; intros H; try discriminate; try reflexivity.
  - apply N.eqb_eq in H. subst. reflexivity.
  - inversion H. apply N.eqb_refl.
Qed.

(** a character of the end delimiter stands for itself, all others are lumped together *)
Definition abs_char (e : list N) (c : N) : option N :=
  if existsb (N.eqb c) e then Some c else None.

Definition wstate : Type := option (list (option N)).

Definition wstate_eqb (a b : wstate) : bool :=
  match a, b with
  | Some u, Some v => leqb _ oN_eqb u v
  | None, None => true
  | _, _ => false
  end.

(** after the start delimiter: window of the last [length e] (abstracted) characters *)
Definition block_body (e : list N) : dfa wstate :=
  {| st_eqb := wstate_eqb;
     init := Some [];
     step := fun q c => wstep _ oN_eqb (map (abs_char e) e) q (abs_char e c);
     acc := wacc _ oN_eqb (map (abs_char e) e);
     chars := e |}.

Definition block_spec (s e : list N) : dfa (pstate wstate) := prefix_dfa s (block_body e).

Lemma abs_char_self e c : In c e -> abs_char e c = Some c.
Proof.
  intros H. unfold abs_char. replace (existsb (N.eqb c) e) with true; [reflexivity|].
  symmetry. apply existsb_exists. exists c. split; [exact H | apply N.eqb_refl].
Qed.

Lemma abs_char_inj e : forall l e', incl e' e -> map (abs_char e) l = map (abs_char e) e' -> l = e'.
Proof.
  induction l as [|c l IH]; intros [|c0 e'] Hi H; cbn [map] in H; try discriminate; [reflexivity|].
  inversion H as [[H1 H2]]. f_equal.
  - rewrite (abs_char_self e c0) in H1 by (apply Hi; left; reflexivity).
    unfold abs_char in H1. destruct (existsb (N.eqb c) e); [inversion H1; reflexivity | discriminate].
  - apply IH; [|exact H2]. intros z Hz. apply Hi. right. exact Hz.
Qed.

Lemma abs_char_uniform e c c' : same_side (char_bounds e) c c' -> abs_char e c = abs_char e c'.
Proof.
  intros Hs. unfold abs_char.
  destruct (existsb (N.eqb c) e) eqn:E1.
  - apply existsb_exists in E1. destruct E1 as [c0 [Hin Hc]]. apply N.eqb_eq in Hc. subst c0.
    pose proof (same_side_eqb e c c' c Hin Hs) as H. rewrite N.eqb_refl in H.
    symmetry in H. apply N.eqb_eq in H. subst c'.
    replace (existsb (N.eqb c) e) with true; [reflexivity|].
    symmetry. apply existsb_exists. exists c. split; [exact Hin | apply N.eqb_refl].
  - destruct (existsb (N.eqb c') e) eqn:E2; [|reflexivity].
    apply existsb_exists in E2. destruct E2 as [c0 [Hin Hc]]. apply N.eqb_eq in Hc. subst c0.
    pose proof (same_side_eqb e c c' c' Hin Hs) as H. rewrite N.eqb_refl in H.
    apply N.eqb_eq in H. subst c'.
    assert (Ht : existsb (N.eqb c) e = true).
    { apply existsb_exists. exists c. split; [exact Hin | apply N.eqb_refl]. }
    rewrite Ht in E1. discriminate.
Qed.

Lemma fold_left_map {X Y Z} (f : X -> Y -> X) (g : Z -> Y) (l : list Z) :
  forall a, fold_left f (map g l) a = fold_left (fun a x => f a (g x)) l a.
Proof. induction l as [|x l IH]; intros a; cbn [map fold_left]; [reflexivity | apply IH]. Qed.

Lemma first_occ_abs e y :
  first_occ_at_end _ (map (abs_char e) e) (map (abs_char e) y) <-> ends_at_first e y.
Proof.
  unfold first_occ_at_end, ends_at_first. rewrite map_length. split.
  - intros [b' [Hy Hf]].
    assert (Hsk : skipn (length b') y = e).
    { apply (abs_char_inj e _ e (incl_refl _)). rewrite <- skipn_map, Hy.
      rewrite skipn_app, skipn_all, Nat.sub_diag. reflexivity. }
    assert (Hlen : length b' <= length y).
    { apply (f_equal (@length _)) in Hy. rewrite map_length, app_length in Hy. lia. }
    assert (Hy' : firstn (length b') y ++ e = y).
    { rewrite <- Hsk at 1. apply firstn_skipn. }
    exists (firstn (length b') y). split; [symmetry; exact Hy'|].
    intros i Hi Hocc. rewrite firstn_length in Hi. apply (Hf i); [lia|].
    rewrite <- Hy, skipn_map, firstn_map. rewrite Hy' in Hocc. rewrite Hocc. reflexivity.
  - intros [b [Hy Hf]]. exists (map (abs_char e) b). split; [subst y; apply map_app|].
    rewrite map_length. intros i Hi Hocc. apply (Hf i Hi).
    rewrite <- map_app, skipn_map, firstn_map in Hocc.
    apply (abs_char_inj e _ e (incl_refl _)). exact Hocc.
Qed.

Lemma block_body_correct e y : e <> [] -> (dfa_accepts (block_body e) y = true <-> ends_at_first e y).
Proof.
  intros He. unfold dfa_accepts, dfa_run. cbn [step acc init block_body].
  rewrite <- (fold_left_map (wstep _ oN_eqb (map (abs_char e) e)) (abs_char e) y).
  rewrite (window_correct _ oN_eqb oN_eqb_eq).
  - apply first_occ_abs.
  - destruct e; [contradiction | discriminate].
Qed.

Lemma block_body_eqb_sound e : dfa_eqb_sound (block_body e).
Proof.
  intros [u|] [v|] H; cbn in H; try discriminate; try reflexivity.
  apply (leqb_eq _ oN_eqb oN_eqb_eq) in H. subst. reflexivity.
Qed.

Lemma block_body_step_uniform e : dfa_step_uniform (block_body e).
Proof.
  intros q c c' Hs. cbn [step block_body chars] in *. rewrite (abs_char_uniform e c c' Hs). reflexivity.
Qed.

Theorem block_spec_correct s e : e <> [] ->
  forall x, dfa_accepts (block_spec s e) x = true <-> is_block_comment s e x.
Proof.
  intros He x. unfold block_spec. rewrite prefix_correct, is_block_comment_alt.
  split; intros [y [Hx Hy]]; exists y; (split; [exact Hx|]); apply (block_body_correct e y He); exact Hy.
Qed.

Lemma block_spec_chars s e : chars (block_spec s e) = s ++ e.
Proof. reflexivity. Qed.

Theorem block_spec_eqb_sound s e : dfa_eqb_sound (block_spec s e).
Proof. apply prefix_eqb_sound, block_body_eqb_sound. Qed.

Theorem block_spec_step_uniform s e : dfa_step_uniform (block_spec s e).
Proof. apply prefix_step_uniform, block_body_step_uniform. Qed.

(** The check the harness uses: [r] against "from [s] to the first [e]". *)
Definition block_comment_check (fuel : nat) (r : regex) (s e : list N) : option (option (list N)) :=
  equiv_regex_dfa fuel r (block_spec s e).

Theorem block_comment_check_sound f r s e : e <> [] ->
  block_comment_check f r s e = Some None ->
  forall x, Forall is_code_point x -> (matches r x <-> is_block_comment s e x).
Proof.
  intros He Hc x Hx. rewrite <- (block_spec_correct s e He).
  apply (equiv_regex_dfa_sound f r _ (block_spec_eqb_sound s e)
           (step_uniform_lang _ (block_spec_step_uniform s e)) Hc x Hx).
Qed.

(** a witness is a code-point string on which regex and specification disagree *)
Theorem block_comment_check_witness f r s e w : e <> [] ->
  block_comment_check f r s e = Some (Some w) ->
  Forall is_code_point w /\
  ((matches r w /\ ~ is_block_comment s e w) \/ (~ matches r w /\ is_block_comment s e w)).
Proof.
  intros He Hc. destruct (equiv_regex_dfa_witness f r _ w Hc) as [Hw Hd]. split; [exact Hw|].
  pose proof (block_spec_correct s e He w) as Hs.
  destruct (matchb r w) eqn:E1; destruct (dfa_accepts (block_spec s e) w) eqn:E2; try congruence.
  - left. split; [apply matchb_spec; exact E1|]. intros H. apply Hs in H. discriminate.
  - right. split; [apply matchb_false; exact E1 | apply Hs; reflexivity].
Qed.

(** ** Line comments *)

Definition is_line_end (nl : list N) : Prop :=
  nl = [] \/ nl = [10%N] \/ nl = [13%N; 10%N] \/ nl = [13%N].

Definition is_line_rest (y : list N) : Prop :=
  exists b nl, y = b ++ nl /\ (forall c, In c b -> c <> 10%N /\ c <> 13%N) /\ is_line_end nl.

Definition is_line_comment (s x : list N) : Prop :=
  exists b nl, x = s ++ b ++ nl /\ (forall c, In c b -> c <> 10%N /\ c <> 13%N) /\ is_line_end nl.

Inductive lstate := LBody | LCR | LEnd | LDead.

Definition lstate_eqb (a b : lstate) : bool :=
  match a, b with
  | LBody, LBody => true | LCR, LCR => true | LEnd, LEnd => true | LDead, LDead => true
  | _, _ => false
  end.

Definition lstep (q : lstate) (c : N) : lstate :=
  match q with
  | LBody => if N.eqb c 10 then LEnd else if N.eqb c 13 then LCR else LBody
  | LCR => if N.eqb c 10 then LEnd else LDead
  | LEnd => LDead
  | LDead => LDead
  end.

Definition lacc (q : lstate) : bool := match q with LDead => false | _ => true end.

Definition line_body : dfa lstate :=
  {| st_eqb := lstate_eqb; init := LBody; step := lstep; acc := lacc; chars := [10%N; 13%N] |}.

Definition line_spec (s : list N) : dfa (pstate lstate) := prefix_dfa s line_body.

Lemma lrun_dead y : fold_left lstep y LDead = LDead.
Proof. induction y as [|c y IH]; cbn [fold_left lstep]; [reflexivity | exact IH]. Qed.

Lemma lrun_end y : lacc (fold_left lstep y LEnd) = true <-> y = [].
Proof.
  destruct y as [|c y]; cbn [fold_left lstep].
  - split; reflexivity.
  - rewrite lrun_dead. split; discriminate.
Qed.

Lemma lrun_cr y : lacc (fold_left lstep y LCR) = true <-> y = [] \/ y = [10%N].
Proof.
  destruct y as [|c y]; cbn [fold_left lstep].
  - split; [left; reflexivity | reflexivity].
  - destruct (N.eqb_spec c 10) as [Hc|Hc].
    + subst c. rewrite lrun_end. split.
      * intros H. subst y. right. reflexivity.
      * intros [H|H]; [discriminate | inversion H; reflexivity].
    + rewrite lrun_dead. split; [discriminate|].
      intros [H|H]; [discriminate | inversion H; congruence].
Qed.

Lemma line_rest_cons_nl c y :
  (c = 10%N \/ c = 13%N) ->
  (is_line_rest (c :: y) <-> is_line_end (c :: y)).
Proof.
  intros Hc. split.
  - intros [b [nl [Hy [Hb Hnl]]]]. destruct b as [|c' b].
    + cbn [app] in Hy. subst nl. exact Hnl.
    + inversion Hy as [[Ec Ey]]. subst c'. destruct (Hb c (or_introl eq_refl)) as [Hn10 Hn13].
      destruct Hc; contradiction.
  - intros H. exists [], (c :: y). split; [reflexivity|]. split; [intros z []|exact H].
Qed.

Lemma line_body_correct y : dfa_accepts line_body y = true <-> is_line_rest y.
Proof.
  unfold dfa_accepts, dfa_run. cbn [step acc init line_body].
  induction y as [|c y IH]; cbn [fold_left lstep].
  - split; [|reflexivity]. intros _. exists [], []. split; [reflexivity|].
    split; [intros z [] | left; reflexivity].
  - destruct (N.eqb_spec c 10) as [H10|H10]; [|destruct (N.eqb_spec c 13) as [H13|H13]].
    + subst c. rewrite lrun_end, (line_rest_cons_nl 10 y (or_introl eq_refl)).
      unfold is_line_end. split.
      * intros H. subst y. right. left. reflexivity.
      * intros [H|[H|[H|H]]]; inversion H; reflexivity.
    + subst c. rewrite lrun_cr, (line_rest_cons_nl 13 y (or_intror eq_refl)).
      unfold is_line_end. split.
      * intros [H|H]; subst y; [right; right; right | right; right; left]; reflexivity.
      * intros [H|[H|[H|H]]]; inversion H; [right | left]; reflexivity.
    + rewrite IH. split.
      * intros [b [nl [Hy [Hb Hnl]]]]. exists (c :: b), nl. split; [subst y; reflexivity|].
        split; [|exact Hnl]. intros z [Hz|Hz]; [subst z; split; assumption | apply Hb; exact Hz].
      * intros [b [nl [Hy [Hb Hnl]]]]. destruct b as [|c' b].
        -- cbn [app] in Hy. subst nl. exfalso.
           destruct Hnl as [H|[H|[H|H]]]; inversion H; congruence.
        -- inversion Hy; subst c'. exists b, nl. split; [reflexivity|]. split; [|exact Hnl].
           intros z Hz. apply Hb. right. exact Hz.
Qed.

Lemma line_body_eqb_sound : dfa_eqb_sound line_body.
Proof. intros [] [] H; cbn in H; try discriminate; reflexivity. Qed.

Lemma line_body_step_uniform : dfa_step_uniform line_body.
Proof.
  intros q c c' Hs. cbn [step line_body chars] in *.
  assert (H10 : N.eqb c 10 = N.eqb c' 10).
  { apply (same_side_eqb [10%N; 13%N]); [left; reflexivity | exact Hs]. }
  assert (H13 : N.eqb c 13 = N.eqb c' 13).
  { apply (same_side_eqb [10%N; 13%N]); [right; left; reflexivity | exact Hs]. }
  destruct q; cbn [lstep]; rewrite ?H10, ?H13; reflexivity.
Qed.

Theorem line_spec_correct s x : dfa_accepts (line_spec s) x = true <-> is_line_comment s x.
Proof.
  unfold line_spec. rewrite prefix_correct. unfold is_line_comment. split.
  - intros [y [Hx Hy]]. apply line_body_correct in Hy. destruct Hy as [b [nl [Hy H]]].
    exists b, nl. split; [subst y; exact Hx | exact H].
  - intros [b [nl [Hx H]]]. exists (b ++ nl). split; [exact Hx|].
    apply line_body_correct. exists b, nl. split; [reflexivity | exact H].
Qed.

Theorem line_spec_eqb_sound s : dfa_eqb_sound (line_spec s).
Proof. apply prefix_eqb_sound, line_body_eqb_sound. Qed.

Theorem line_spec_step_uniform s : dfa_step_uniform (line_spec s).
Proof. apply prefix_step_uniform, line_body_step_uniform. Qed.

Definition line_comment_check (fuel : nat) (r : regex) (s : list N) : option (option (list N)) :=
  equiv_regex_dfa fuel r (line_spec s).

Theorem line_comment_check_sound f r s :
  line_comment_check f r s = Some None ->
  forall x, Forall is_code_point x -> (matches r x <-> is_line_comment s x).
Proof.
  intros Hc x Hx. rewrite <- (line_spec_correct s).
  apply (equiv_regex_dfa_sound f r _ (line_spec_eqb_sound s)
           (step_uniform_lang _ (line_spec_step_uniform s)) Hc x Hx).
Qed.

Theorem line_comment_check_witness f r s w :
  line_comment_check f r s = Some (Some w) ->
  Forall is_code_point w /\
  ((matches r w /\ ~ is_line_comment s w) \/ (~ matches r w /\ is_line_comment s w)).
Proof.
  intros Hc. destruct (equiv_regex_dfa_witness f r _ w Hc) as [Hw Hd]. split; [exact Hw|].
  pose proof (line_spec_correct s w) as Hs.
  destruct (matchb r w) eqn:E1; destruct (dfa_accepts (line_spec s) w) eqn:E2; try congruence.
  - left. split; [apply matchb_spec; exact E1|]. intros H. apply Hs in H. discriminate.
  - right. split; [apply matchb_false; exact E1 | apply Hs; reflexivity].
Qed.

(** ** Negated classes over 0..0x10FFFF *)

Definition remove_char (c : N) (rs : list (N * N)) : list (N * N) :=
  flat_map (fun p : N * N =>
              if N.leb (fst p) c && N.leb c (snd p)
              then (if N.ltb (fst p) c then [(fst p, N.pred c)] else []) ++
                   (if N.ltb c (snd p) then [(N.succ c, snd p)] else [])
              else [p]) rs.

(** ranges of all code points except the listed characters *)
Definition not_chars (cs : list N) : list (N * N) :=
  fold_left (fun rs c => remove_char c rs) cs [(0%N, max_code_point)].

Definition cls_not (cs : list N) : regex := Cls (not_chars cs).
(** [.] of regex-syntax: everything except line feed *)
Definition dot : regex := cls_not [10%N].

Lemma in_ranges_app x rs1 rs2 : in_ranges x (rs1 ++ rs2) = in_ranges x rs1 || in_ranges x rs2.
Proof. unfold in_ranges. apply existsb_app. Qed.

Lemma remove_char_spec c x rs :
  in_ranges x (remove_char c rs) = in_ranges x rs && negb (N.eqb x c).
Proof.
  induction rs as [|[lo hi] rs IH]; [reflexivity|].
  unfold remove_char. cbn [flat_map]. fold (remove_char c rs).
  rewrite in_ranges_app, IH. change (in_ranges x ((lo, hi) :: rs)) with (in_range x (lo, hi) || in_ranges x rs).
  rewrite andb_orb_distrib_l. f_equal. cbn [fst snd].
  destruct (N.leb_spec lo c); destruct (N.leb_spec c hi); cbn [andb];
    destruct (N.ltb_spec lo c); destruct (N.ltb_spec c hi);
    cbn [app]; unfold in_ranges, in_range; cbn [existsb fst snd];
    destruct (N.eqb_spec x c);
    destruct (N.leb_spec lo x); destruct (N.leb_spec x hi);
    try destruct (N.leb_spec x (N.pred c)); try destruct (N.leb_spec (N.succ c) x);
    cbn [andb orb negb]; try reflexivity; lia.
Qed.

Lemma not_chars_spec cs x :
  in_ranges x (not_chars cs) = N.leb x max_code_point && negb (existsb (N.eqb x) cs).
Proof.
  unfold not_chars.
  assert (G : forall rs, in_ranges x (fold_left (fun rs c => remove_char c rs) cs rs)
                         = in_ranges x rs && negb (existsb (N.eqb x) cs)).
  { induction cs as [|c cs IH]; intros rs; cbn [fold_left existsb].
    - rewrite andb_true_r. reflexivity.
    - rewrite IH, remove_char_spec, negb_orb, andb_assoc. reflexivity. }
  rewrite G. f_equal. unfold in_ranges, in_range. cbn [existsb fst snd].
  rewrite orb_false_r. destruct (N.leb_spec 0 x); [reflexivity | lia].
Qed.

Theorem matches_cls_not cs w :
  matches (cls_not cs) w <-> exists c, w = [c] /\ is_code_point c /\ ~ In c cs.
Proof.
  unfold cls_not. rewrite matches_Cls_iff. split; intros [c [Hw Hc]]; exists c; (split; [exact Hw|]).
  - rewrite not_chars_spec in Hc. apply andb_prop in Hc as [H1 H2]. split; [apply N.leb_le; exact H1|].
    intros Hin. apply negb_true_iff in H2.
    assert (Ht : existsb (N.eqb c) cs = true).
    { apply existsb_exists. exists c. split; [exact Hin | apply N.eqb_refl]. }
    congruence.
  - destruct Hc as [H1 H2]. rewrite not_chars_spec. apply andb_true_intro.
    split; [apply N.leb_le; exact H1|]. apply negb_true_iff.
    destruct (existsb (N.eqb c) cs) eqn:E; [|reflexivity].
    apply existsb_exists in E. destruct E as [d [Hd He]]. apply N.eqb_eq in He. subst d. contradiction.
Qed.

(** ** The constructions of parol ([ScannerConfig::format_block_comment] and the line-comment
    expression of [generate_build_information]), on delimiters given as code-point lists (the
    atoms of the end delimiter with escapes removed).  [None]: parol reports an error. *)

Fixpoint lN_eqb (u v : list N) : bool :=
  match u, v with
  | [], [] => true
  | a :: u', b :: v' => N.eqb a b && lN_eqb u' v'
  | _, _ => false
  end.

(* slash star, optional slash, star of ( [^slash] or [^star] slash ), star slash *)
Definition parol_c_style_rx : regex :=
  Cat (rstr [47; 42]%N)
      (Cat (ropt (rchar 47))
           (Cat (Star (Alt (cls_not [47%N]) (Cat (cls_not [42%N]) (rchar 47))))
                (rstr [42; 47]%N))).

Definition parol_block_rx (s e : list N) : option regex :=
  if lN_eqb s [47; 42]%N && lN_eqb e [42; 47]%N then Some parol_c_style_rx
  else
    match e with
    | [] => None
    | [a0] =>
      (* s ([^a0])* e *)
      Some (Cat (rstr s) (Cat (Star (cls_not [a0])) (rstr e)))
    | [a0; a1] =>
      if N.eqb a0 a1
      then (* s ([^a0] | a0 [^a1])* e *)
        Some (Cat (rstr s)
                  (Cat (Star (Alt (cls_not [a0]) (Cat (rchar a0) (cls_not [a1])))) (rstr e)))
      else (* s [^a0]* ( a0+ [^a0 a1] [^a0]* )* a0+ a1 *)
        Some (Cat (rstr s)
                  (Cat (Star (cls_not [a0]))
                       (Cat (Star (Cat (rplus (rchar a0))
                                       (Cat (cls_not [a0; a1]) (Star (cls_not [a0])))))
                            (Cat (rplus (rchar a0)) (rchar a1)))))
    | [a0; a1; a2] =>
      (* s ([^a0] | a0 [^a1] | a0 a1 [^a2])* e *)
      Some (Cat (rstr s)
                (Cat (Star (Alt (cls_not [a0])
                                (Alt (Cat (rchar a0) (cls_not [a1]))
                                     (Cat (rstr [a0; a1]) (cls_not [a2])))))
                     (rstr e)))
    | _ => None
    end.

(* s, star of dot, optional ( CR LF | CR | LF ) *)
Definition parol_line_rx (s : list N) : regex :=
  Cat (rstr s)
      (Cat (Star dot) (ropt (Alt (rstr [13; 10]%N) (Alt (rchar 13) (rchar 10))))).

(** what a repaired generator could emit: no CR in the body *)
Definition fixed_line_rx (s : list N) : regex :=
  Cat (rstr s)
      (Cat (Star (cls_not [10; 13]%N)) (ropt (Alt (rstr [13; 10]%N) (Alt (rchar 13) (rchar 10))))).

(** a correct C-style expression: slash star, star of ( [^star] or plus star [^star slash] ),
    plus star, slash *)
Definition fixed_c_style_rx : regex :=
  Cat (rstr [47; 42]%N)
      (Cat (Star (Alt (cls_not [42%N]) (Cat (rplus (rchar 42)) (cls_not [42; 47]%N))))
           (Cat (rplus (rchar 42)) (rchar 47))).

Definition check_parol_block (fuel : nat) (s e : list N) : option (option (option (list N))) :=
  match parol_block_rx s e with
  | None => None
  | Some r => Some (block_comment_check fuel r s e)
  end.

(** ** Examples (decided by computation)

    Code points: slash 47, star 42, ( 40, ) 41, < 60, ! 33, - 45, > 62, # 35, | 124, a 97, b 98,
    c 99, LF 10, CR 13. *)

(* the specification itself, on concrete strings: "( * x * )" is a comment, "( * ) * )" is not
   (it runs past the first end delimiter) *)
Example ex_is_block_comment : is_block_comment [40; 42]%N [42; 41]%N [40; 42; 120; 42; 41]%N.
Proof. apply block_spec_correct; [discriminate | vm_compute; reflexivity]. Qed.
Example ex_not_block_comment :
  ~ is_block_comment [40; 42]%N [42; 41]%N [40; 42; 42; 41; 42; 41]%N.
Proof. intros H. apply block_spec_correct in H; [vm_compute in H|]; discriminate. Qed.
Example ex_is_line_comment : is_line_comment [47; 47]%N [47; 47; 120; 13; 10]%N.
Proof. apply line_spec_correct. vm_compute. reflexivity. Qed.

(* D6b: the dedicated C-style expression over-consumes: slash star star slash slash star slash
   is ONE match although the comment ends after the fourth character *)
Example ex_c_style_refuted :
  check_parol_block 500 [47; 42]%N [42; 47]%N = Some (Some (Some [47; 42; 42; 47; 47; 42; 47]%N)).
Proof. vm_compute. reflexivity. Qed.
Example ex_c_style_fixed :
  block_comment_check 500 fixed_c_style_rx [47; 42]%N [42; 47]%N = Some None.
Proof. vm_compute. reflexivity. Qed.
Example ex_c_style_fixed_scalar :
  equiv_regex_dfa_on scalar_values 500 fixed_c_style_rx (block_spec [47; 42]%N [42; 47]%N) = Some None.
Proof. vm_compute. reflexivity. Qed.

(* two distinct end atoms, Pascal style ( * ... * ): exact *)
Example ex_two_distinct_exact : check_parol_block 500 [40; 42]%N [42; 41]%N = Some (Some None).
Proof. vm_compute. reflexivity. Qed.
(* two equal end atoms, << ... -- and -- ... --: exact *)
Example ex_two_equal_exact : check_parol_block 500 [60; 60]%N [45; 45]%N = Some (Some None).
Proof. vm_compute. reflexivity. Qed.
Example ex_two_equal_exact2 : check_parol_block 500 [45; 45]%N [45; 45]%N = Some (Some None).
Proof. vm_compute. reflexivity. Qed.
(* one end atom, # ... | and # ... #: exact *)
Example ex_one_exact : check_parol_block 500 [35]%N [124]%N = Some (Some None).
Proof. vm_compute. reflexivity. Qed.
Example ex_one_exact2 : check_parol_block 500 [35]%N [35]%N = Some (Some None).
Proof. vm_compute. reflexivity. Qed.

(* D6a: three end atoms.  XML comments: "<!--" "--->" is a comment (it ends at the first "-->")
   but the generated expression does not match it *)
Example ex_xml_refuted :
  check_parol_block 500 [60; 33; 45; 45]%N [45; 45; 62]%N
  = Some (Some (Some [60; 33; 45; 45; 45; 45; 45; 62]%N)).
Proof. vm_compute. reflexivity. Qed.
(* end "abc": "#aabc" is a comment, not matched; likewise aab, aba, abb; aaa is exact *)
Example ex_abc_refuted :
  check_parol_block 500 [35]%N [97; 98; 99]%N = Some (Some (Some [35; 97; 97; 98; 99]%N)).
Proof. vm_compute. reflexivity. Qed.
Example ex_aab_refuted :
  check_parol_block 500 [35]%N [97; 97; 98]%N = Some (Some (Some [35; 97; 97; 97; 98]%N)).
Proof. vm_compute. reflexivity. Qed.
Example ex_aba_refuted :
  check_parol_block 500 [35]%N [97; 98; 97]%N = Some (Some (Some [35; 97; 97; 98; 97]%N)).
Proof. vm_compute. reflexivity. Qed.
Example ex_abb_refuted :
  check_parol_block 500 [35]%N [97; 98; 98]%N = Some (Some (Some [35; 97; 97; 98; 98]%N)).
Proof. vm_compute. reflexivity. Qed.
Example ex_aaa_exact : check_parol_block 500 [35]%N [97; 97; 97]%N = Some (Some None).
Proof. vm_compute. reflexivity. Qed.
(* more than three atoms: parol reports an error *)
Example ex_four_atoms : check_parol_block 500 [60]%N [97; 98; 99; 100]%N = None.
Proof. vm_compute. reflexivity. Qed.
(* out of fuel *)
Example ex_block_out_of_fuel : check_parol_block 2 [40; 42]%N [42; 41]%N = Some None.
Proof. vm_compute. reflexivity. Qed.

(* D7: the dot of the line-comment expression matches CR, so the comment runs past a lone CR *)
Example ex_line_refuted :
  line_comment_check 500 (parol_line_rx [47; 47]%N) [47; 47]%N = Some (Some [47; 47; 13; 0]%N).
Proof. vm_compute. reflexivity. Qed.
Example ex_line_fixed : line_comment_check 500 (fixed_line_rx [47; 47]%N) [47; 47]%N = Some None.
Proof. vm_compute. reflexivity. Qed.

(* the witnesses, stated with [matches] and the declarative specification *)
Example ex_xml_refuted_stmt :
  exists r, parol_block_rx [60; 33; 45; 45]%N [45; 45; 62]%N = Some r /\
            ~ matches r [60; 33; 45; 45; 45; 45; 45; 62]%N /\
            is_block_comment [60; 33; 45; 45]%N [45; 45; 62]%N [60; 33; 45; 45; 45; 45; 45; 62]%N.
Proof.
  eexists. split; [reflexivity|]. split.
  - apply matchb_false. vm_compute. reflexivity.
  - apply block_spec_correct; [discriminate | vm_compute; reflexivity].
Qed.

Print Assumptions equiv_regex_dfa_on_sound.
Print Assumptions equiv_regex_dfa_sound.
Print Assumptions equiv_regex_dfa_witness.
Print Assumptions prefix_correct.
Print Assumptions window_correct.
Print Assumptions block_spec_correct.
Print Assumptions block_spec_step_uniform.
Print Assumptions block_comment_check_sound.
Print Assumptions block_comment_check_witness.
Print Assumptions line_spec_correct.
Print Assumptions line_comment_check_sound.
Print Assumptions line_comment_check_witness.
Print Assumptions matches_cls_not.
