(** * Executable model of the LL(k) push-down parser [LLKParser::parse_into]
      (crates/parol_runtime/src/parser/parser_types.rs), including the way the [TokenStream]
      (lexer/token_stream.rs, lexer/token_buffer.rs) presents tokens to it.

    What is transcribed
    - [parse_into] with its ['WHILE] loop, [input_accepted], [push_production],
      [process_item_stack], [predict_production] (through the verified model [DfaEval.eval]),
      [handle_token_mismatch], [handle_prediction_error], [recover_from_token_mismatch],
      [recover_from_prediction_error], [add_error] (duplicate-location rule, 100-entries rule),
      the places where [error_entries] is drained, and the computation of the final verdict.
    - The token stream AFTER skip-token removal: a lookahead buffer ([tokens]) of located
      significant tokens, the not yet scanned significant tokens, the at most [max(1,k)] end-of-input
      tokens the [TokenIter] produces (located at the end of the text) and the unlimited
      [Token::eoi] padding of [read_tokens] (default location).  [ensure_buffer] is called at
      exactly the places where the Rust calls it.
    - Every index / [unwrap] / subtraction that can fail on malformed tables is a [Panic] with a
      site number (see the [SITE_...] constants).

    What is left to a function argument ([oracle]): the two pieces of the recovery that only compute NEW BUFFER
    CONTENTS: [o_expected] (= [Recovery::minimal_token_difference] over
    [Recovery::restore_terminal_strings]) and [o_adjust] (= [adjust_token_stream]).  Everything in
    [LLSound.v] is proved for EVERY oracle.  [faithful_oracle] is a transcription of those two
    functions (simple paths of the petgraph graph, [BTreeSet] order, Levenshtein edit script from
    [LevFaithful.lev_opt]); [ll_run] uses it.  Whether the set of restored terminal strings is
    empty decides the control flow ("Can't recover" drains the error entries), therefore this
    bit is NOT left to the oracle: [restore_status] computes it.

    Tokens are pairs (token type, location id).  Location ids only serve [add_error]'s
    "same location twice => RecoveryFailed" rule:  0 = [Location::default()], 1 = the default
    location with the file name set ([insert_token_at] beyond the buffer), 2 = the location of
    the [TokenIter]'s end-of-input tokens, 3 + i = the i-th significant token of the input. *)
From Coq Require Import List Arith NArith ZArith Bool Lia.
From Parol Require Import Grammar.Cfg Runtime.DfaEval Runtime.Levenshtein Runtime.LevFaithful.
Import ListNotations.

(** ** Tables, options, results *)

(** [Production]: [p_rev] is the right-hand side in REVERSED order, as the runtime stores it;
    [p_push] is [is_push_production] (only effect in the runtime: such productions do not count
    towards [production_depth]). *)
Record production := mkProduction { p_lhs : N; p_rev : list sym; p_push : bool }.

Record ll_tables := mkTables {
  tb_prods : list production;     (* PRODUCTIONS *)
  tb_automata : list dfa;         (* LOOKAHEAD_AUTOMATA, one per non-terminal *)
  tb_start : N;                   (* start_symbol_index *)
  tb_k : nat;                     (* MAX_K handed to TokenStream::new *)
  tb_nterms : N;                  (* TERMINAL_NAMES.len() *)
  tb_nnts : N                     (* NON_TERMINALS.len() *)
}.

Record options := mkOptions {
  o_recovery : bool;              (* enable_recovery (Rust default: true) *)
  o_trim : bool;                  (* trim_parse_tree *)
  o_max_depth : option N          (* max_parsing_depth *)
}.

Inductive pitem := PT (t : N) | PN (a : N) | PE (p : N).     (* ParseType *)
Inductive event := OpenRoot | Open (a : N) | Tok (t : N) | Close.

Inductive reject :=
| RSyntaxErrors          (* ParserError::SyntaxErrors { entries } *)
| RUnprocessedInput      (* ParserError::UnprocessedInput *)
| RRecoveryFailed        (* ParserError::RecoveryFailed *)
| RTooManyErrors         (* ParserError::TooManyErrors *)
| RPredictionError       (* ParserError::PredictionError (second prediction failed, first call) *)
| RLexerError            (* a LexerError (RecoveryError of the stream edits, lookahead) *)
| RDataError.            (* ParserError::DataError: automaton deeper than the stream's k *)

(** [Accepted acts evs]: [acts] = the calls of [call_semantic_action_for_production_number] in
    call order, each with the children handed over ([T t] = a token of type [t], [NT a] = the
    entry [ParseTreeType::N(name of a)]); [evs] = the calls on the tree builder in order.
    [Rejected r n]: [Err] of kind [r]; [n] = number of error entries (for [RSyntaxErrors]: the
    length of [entries]; otherwise the length of [error_entries] at the time of the return). *)
Inductive ll_result :=
| Accepted (acts : list (N * list sym)) (evs : list event)
| Rejected (r : reject) (n_errors : nat)
| DepthExceeded
| OutOfFuel
| Panic (site : nat)
| BadInput.              (* the token list contains a skip token type or EOI: not a list of significant tokens *)

Notation ltok := (N * N)%type (only parsing).       (* token type, location id *)

Definition LOC_DEFAULT : N := 0.
Definition LOC_FILE : N := 1.
Definition LOC_END : N := 2.
Definition LOC_FIRST : N := 3.

Inductive adjust_result := AdjOk (buf : list ltok) | AdjErr | AdjPanic.

(** The parts of error recovery that only choose new buffer contents. *)
Record oracle := mkOracle {
  (* minimal_token_difference(scanned, restore_terminal_strings(dfa)); [None] = a Rust panic *)
  o_expected : dfa -> list N -> option (list N);
  (* adjust_token_stream(buffer, expected): the edited buffer, a LexerError, or a panic *)
  o_adjust : list ltok -> list N -> adjust_result
}.

(** ** Panic sites *)
Definition SITE_PROD_INDEX : nat := 1.        (* self.productions[prod_num] in push_production *)
Definition SITE_NT_NAME_PUSH : nat := 2.      (* non_terminal_names[productions[p].lhs] *)
Definition SITE_AUTOMATON_INDEX : nat := 3.   (* self.lookahead_automata[non_terminal] *)
Definition SITE_END_PROD_INDEX : nat := 4.    (* self.productions[p] at an end-of-production marker *)
Definition SITE_DEPTH_UNDERFLOW : nat := 5.   (* production_depth -= 1 at 0 *)
Definition SITE_SPLIT_OFF : nat := 6.         (* parse_tree_stack.len() - l / split_off *)
Definition SITE_TERM_NAME_EXPECTED : nat := 7. (* terminal_names[t] in handle_token_mismatch *)
Definition SITE_DIAG_PROD_INDEX : nat := 8.   (* productions[current_production] in diagnostic_message *)
Definition SITE_DIAG_NAME : nat := 9.         (* a name index in Production::to_string *)
Definition SITE_TERM_NAME_TOKEN : nat := 10.  (* terminal_names[token.token_type] in handle_token_mismatch *)
Definition SITE_NT_NAME_ERROR : nat := 11.    (* non_terminal_names[non_terminal] in handle_prediction_error *)
Definition SITE_BUILD_ERROR_NAME : nat := 12. (* terminal_names[..] in LookaheadDFA::build_error *)
Definition SITE_RESTORE_UNWRAP : nat := 13.   (* nodes.get(..).unwrap() in restore_terminal_strings *)
Definition SITE_ORACLE_EXPECTED : nat := 14.  (* a panic inside minimal_token_difference / restore *)
Definition SITE_ORACLE_ADJUST : nat := 15.    (* expected_token_types[exp_idx] in adjust_token_stream *)
Definition SITE_INVALID_PROD_CAST : nat := 16. (* a negative production number cast to usize, then used as index *)

(** ** [Recovery::restore_terminal_strings]: is the result empty?

    Graph nodes are pairs (state, accepting?); the root is (0, prod0 != -1); a transition goes
    from (from,true) if that node exists, else from (from,false), else [unwrap] panics; likewise
    for the target (always exists).  The strings are read off the simple paths from the root to
    the accepting nodes different from the root (petgraph 0.8: a path never returns to its
    start), so the set is non-empty iff such a node is reachable. *)
Inductive rstatus := RS_Panic | RS_Empty | RS_NonEmpty.

Definition accepting_tr (t : trans) : bool := negb (Z.eqb (t_prod t) INVALID_PROD).
Definition memN (x : N) (l : list N) : bool := existsb (N.eqb x) l.

Definition expand (ts : list trans) (r : list N) : list N :=
  fold_left (fun acc t =>
               if (N.eqb (t_from t) 0 || memN (t_from t) acc) && negb (memN (t_to t) acc)
               then t_to t :: acc else acc) ts r.

Fixpoint iter_expand (n : nat) (ts : list trans) (r : list N) : list N :=
  match n with O => r | S n' => iter_expand n' ts (expand ts r) end.

(** States reachable from state 0 by at least one transition. *)
Definition reach1 (ts : list trans) : list N := iter_expand (S (length ts)) ts [].

Definition state_accepting (ts : list trans) (s : N) : bool :=
  existsb (fun t => N.eqb (t_to t) s && accepting_tr t) ts.

Definition restore_status (d : dfa) : rstatus :=
  let ts := transitions d in
  let root_acc := negb (Z.eqb (prod0 d) INVALID_PROD) in
  if negb (forallb (fun t => N.eqb (t_from t) 0 || existsb (fun t' => N.eqb (t_to t') (t_from t)) ts) ts)
  then RS_Panic
  else if negb root_acc && state_accepting ts 0 then RS_Empty   (* the root node (0,false) is isolated *)
  else if existsb (fun s => negb (N.eqb s 0) && state_accepting ts s) (reach1 ts) then RS_NonEmpty
  else RS_Empty.

(** ** The model proper *)
Section Model.
Variable orc : oracle.
Variable tb : ll_tables.
Variable opts : options.

(** [TokenStream::k = max(1, k)]; the [TokenIter] is created with the same value. *)
Definition stream_k : nat := Nat.max 1 (tb_k tb).

Definition prod_at (p : N) : option production := nth_error (tb_prods tb) (N.to_nat p).
Definition dfa_at (a : N) : option dfa := nth_error (tb_automata tb) (N.to_nat a).

(** *** Token stream *)
Record stream := mkStream {
  s_buf : list ltok;      (* TokenBuffer, significant tokens only *)
  s_rest : list ltok;     (* significant tokens not yet read from the scanner *)
  s_eois : nat;           (* EOI tokens the TokenIter will still produce *)
  s_eloc : N              (* their location id *)
}.

(** [read_tokens(n)]: [n] more significant tokens: scanner output, then the [TokenIter]'s EOI
    tokens, then [Token::eoi] fillers. Returns the new tokens, the remaining scanner output and
    the remaining number of iterator EOIs. *)
Fixpoint read_tokens (n : nat) (rest : list ltok) (eois : nat) (eloc : N)
  : list ltok * (list ltok * nat) :=
  match n with
  | O => ([], (rest, eois))
  | S n' =>
      match rest with
      | x :: rest' =>
          let r := read_tokens n' rest' eois eloc in (x :: fst r, snd r)
      | [] =>
          match eois with
          | S e' => let r := read_tokens n' [] e' eloc in ((0%N, eloc) :: fst r, snd r)
          | O => let r := read_tokens n' [] O eloc in ((0%N, LOC_DEFAULT) :: fst r, snd r)
          end
      end
  end.

(** [ensure_buffer] *)
Definition ensure (s : stream) : stream :=
  let len := length (s_buf s) in
  if len <? stream_k then
    let r := read_tokens (stream_k - len) (s_rest s) (s_eois s) (s_eloc s) in
    mkStream (s_buf s ++ fst r) (fst (snd r)) (snd (snd r)) (s_eloc s)
  else s.

Definition set_buf (s : stream) (b : list ltok) : stream :=
  mkStream b (s_rest s) (s_eois s) (s_eloc s).

(** [all_input_consumed] (no [ensure_buffer]). *)
Definition all_input_consumed (s : stream) : bool :=
  match s_buf s with
  | [] => true
  | x :: _ => N.eqb (fst x) 0
  end.

(** [TokenStream::consume]: [None] = LexerError::InternalError. *)
Definition consume (s : stream) : option (ltok * stream) :=
  let s1 := ensure s in
  match s_buf s1 with
  | [] => None
  | x :: b => Some (x, ensure (set_buf s1 b))
  end.

(** *** Prediction: [predict_production] = [LookaheadDFA::eval] on the stream *)
Inductive perr := PErrPred | PErrLexer | PErrData.
Inductive pres := POk (p : N) | PInvalidCast | PErr (e : perr).

Definition conv_eval (r : eval_result) : pres :=
  match r with
  | Predict p => if valid p then POk (Z.to_N p) else PInvalidCast
  | PredictionError => PErr PErrPred
  | LexerErr => PErr PErrLexer
  end.

(** [eval] calls [lookahead_token_type(i)] (hence [ensure_buffer]) only if its depth is > 0. *)
Definition predict (d : dfa) (s : stream) : pres * stream :=
  if stream_k <? depth d then (PErr PErrData, s)
  else
    match depth d with
    | O => (conv_eval (eval d []), s)
    | S _ => let s1 := ensure s in (conv_eval (eval d (map fst (s_buf s1))), s1)
    end.

Definition reject_of (e : perr) : reject :=
  match e with PErrPred => RPredictionError | PErrLexer => RLexerError | PErrData => RDataError end.

(** *** Configurations *)
Record config := mkConfig {
  c_stack : list pitem;              (* parser_stack, head = top *)
  c_stream : stream;
  c_pts : list sym;                  (* parse_tree_stack, head = top: T token-type | NT non-terminal *)
  c_acts : list (N * list sym);      (* semantic-action calls, latest first *)
  c_evs : list event;                (* tree-builder calls, latest first *)
  c_errs : list N;                   (* error_entries (their locations), latest first *)
  c_depth : N                        (* production_depth *)
}.

Definition set_stream (c : config) (s : stream) : config :=
  mkConfig (c_stack c) s (c_pts c) (c_acts c) (c_evs c) (c_errs c) (c_depth c).
Definition set_errs (c : config) (e : list N) : config :=
  mkConfig (c_stack c) (c_stream c) (c_pts c) (c_acts c) (c_evs c) e (c_depth c).
Definition set_stack (c : config) (st : list pitem) : config :=
  mkConfig st (c_stream c) (c_pts c) (c_acts c) (c_evs c) (c_errs c) (c_depth c).

Inductive outcome := Continue (c : config) | Break (c : config) | Return (r : ll_result).

Definition item_of (s : sym) : pitem := match s with T t => PT t | NT a => PN a end.

(** [for s in production { stack.push(s) }] *)
Definition push_items (l : list sym) (st : list pitem) : list pitem :=
  fold_left (fun st s => item_of s :: st) l st.

(** [push_production] *)
Definition push_production (c : config) (p : N) : outcome :=
  match prod_at p with
  | None => Return (Panic SITE_PROD_INDEX)
  | Some pr =>
      if negb (N.ltb (p_lhs pr) (tb_nnts tb)) then Return (Panic SITE_NT_NAME_PUSH) else
      let depth' := if p_push pr then c_depth c else N.succ (c_depth c) in
      let c' := mkConfig (push_items (p_rev pr) (PE p :: c_stack c)) (c_stream c)
                         (NT (p_lhs pr) :: c_pts c) (c_acts c)
                         (if o_trim opts then c_evs c else Open (p_lhs pr) :: c_evs c)
                         (c_errs c) depth' in
      match o_max_depth opts with
      | Some m => if N.ltb m depth' then Return DepthExceeded else Continue c'
      | None => Continue c'
      end
  end.

(** [split_off(len - n)]: the [n] top entries in push order, and the rest. *)
Fixpoint split_rev (n : nat) (l acc : list sym) : option (list sym * list sym) :=
  match n with
  | O => Some (acc, l)
  | S n' => match l with [] => None | x :: l' => split_rev n' l' (x :: acc) end
  end.

(** The [ParseType::E(p)] arm together with [process_item_stack]; [st'] = the popped stack. *)
Definition end_production (c : config) (p : N) (st' : list pitem) : outcome :=
  match prod_at p with
  | None => Return (Panic SITE_END_PROD_INDEX)
  | Some pr =>
      match (if p_push pr then Some (c_depth c)
             else if N.eqb (c_depth c) 0 then None else Some (N.pred (c_depth c))) with
      | None => Return (Panic SITE_DEPTH_UNDERFLOW)
      | Some depth' =>
          match split_rev (length (p_rev pr)) (c_pts c) [] with
          | None => Return (Panic SITE_SPLIT_OFF)
          | Some (children, pts') =>
              Continue (mkConfig st' (c_stream c) pts'
                          (match c_errs c with          (* !is_in_recovery_mode() *)
                           | [] => (p, children) :: c_acts c
                           | _ :: _ => c_acts c end)
                          (if o_trim opts then c_evs c else Close :: c_evs c)
                          (c_errs c) depth')
          end
      end
  end.

(** [add_error]: the new entries and the error it returns, if any. *)
Definition add_error (errs : list N) (loc : N) : list N * option reject :=
  if memN loc errs then (errs, Some RRecoveryFailed)
  else
    let errs' := loc :: errs in
    if 100 <? length errs' then (errs', Some RTooManyErrors) else (errs', None).

(** [current_production] and the indexing done by [diagnostic_message]; [Some site] = panic. *)
Fixpoint current_production (st : list pitem) : option N :=
  match st with
  | [] => None
  | PE p :: _ => Some p
  | _ :: st' => current_production st'
  end.

Definition sym_named (s : sym) : bool :=
  match s with T t => N.ltb t (tb_nterms tb) | NT a => N.ltb a (tb_nnts tb) end.

Definition diag_panic (st : list pitem) : option nat :=
  match current_production st with
  | None => None
  | Some p =>
      match prod_at p with
      | None => Some SITE_DIAG_PROD_INDEX
      | Some pr =>
          if forallb sym_named (p_rev pr) && N.ltb (p_lhs pr) (tb_nnts tb) then None
          else Some SITE_DIAG_NAME
      end
  end.

(** [ParseStack::expected_token_types] *)
Fixpoint expected_token_types (st : list pitem) : list N :=
  match st with
  | PT t :: st' => t :: expected_token_types st'
  | PE _ :: st' => expected_token_types st'
  | _ => []
  end.

(** The name lookups of [LookaheadDFA::build_error] ([false] = index out of range). *)
Fixpoint build_error_ok (ts : list trans) (state : N) (buf : list N) : bool :=
  match buf with
  | [] => true
  | ty :: buf' =>
      match find (fun t => N.eqb (t_from t) state && N.eqb (t_tok t) ty) ts with
      | Some t => N.ltb ty (tb_nterms tb) && build_error_ok ts (t_to t) buf'
      | None =>
          N.ltb ty (tb_nterms tb) &&
          forallb (fun t => negb (N.eqb (t_from t) state) || N.ltb (t_tok t) (tb_nterms tb)) ts
      end
  end.

Definition first_loc (buf : list ltok) : N :=
  match buf with [] => LOC_DEFAULT | x :: _ => snd x end.

(** [handle_token_mismatch] + [recover_from_token_mismatch]; [c]'s stream has just been through
    [lookahead(0)], [tok] is that token. [is_err()] of the result => [Break]. *)
Definition handle_token_mismatch (c : config) (t : N) (tok : ltok) : outcome :=
  if negb (N.ltb t (tb_nterms tb)) then Return (Panic SITE_TERM_NAME_EXPECTED) else
  match diag_panic (c_stack c) with
  | Some site => Return (Panic site)
  | None =>
      if negb (N.ltb (fst tok) (tb_nterms tb)) then Return (Panic SITE_TERM_NAME_TOKEN) else
      let ae := add_error (c_errs c) (snd tok) in
      let c1 := set_errs c (fst ae) in
      match snd ae with
      | Some _ => Break c1
      | None =>
          if negb (o_recovery opts) then Break c1 else
          let s1 := ensure (c_stream c1) in
          match o_adjust orc (s_buf s1) (expected_token_types (c_stack c)) with
          | AdjPanic => Return (Panic SITE_ORACLE_ADJUST)
          | AdjErr => Break (set_stream c1 s1)
          | AdjOk b => Continue (set_stream c1 (set_buf s1 b))
          end
      end
  end.

(** [handle_prediction_error] + [recover_from_prediction_error]. *)
Inductive hpe_result :=
| HOk (p : N) (c : config)
| HErr (r : reject) (n : nat) (c : config)
| HPanic (site : nat).

Definition handle_prediction_error (c : config) (a : N) (d : dfa) : hpe_result :=
  if negb (N.ltb a (tb_nnts tb)) then HPanic SITE_NT_NAME_ERROR else
  let buf := s_buf (c_stream c) in
  if negb (build_error_ok (transitions d) 0 (map fst buf)) then HPanic SITE_BUILD_ERROR_NAME else
  match diag_panic (c_stack c) with
  | Some site => HPanic site
  | None =>
      let ae := add_error (c_errs c) (first_loc buf) in
      let c1 := set_errs c (fst ae) in
      match snd ae with
      | Some r => HErr r (length (fst ae)) c1
      | None =>
          (* recover_from_prediction_error *)
          if negb (o_recovery opts) then HErr RRecoveryFailed (length (fst ae)) c1 else
          match restore_status d with
          | RS_Panic => HPanic SITE_RESTORE_UNWRAP
          | RS_Empty =>
              (* "Can't recover": lookahead(0).unwrap_or_default(), add_error (result ignored),
                 error_entries.drain(..) *)
              let s1 := ensure (c_stream c1) in
              let ae2 := add_error (fst ae) (first_loc (s_buf s1)) in
              HErr RSyntaxErrors (length (fst ae2)) (set_stream (set_errs c1 []) s1)
          | RS_NonEmpty =>
              (* minimal_token_difference always finds a string in a non-empty set, so the
                 "steamroller" branch with sync_token_stream is dead code *)
              match o_expected orc d (map fst buf) with
              | None => HPanic SITE_ORACLE_EXPECTED
              | Some expected =>
                  match o_adjust orc buf expected with
                  | AdjPanic => HPanic SITE_ORACLE_ADJUST
                  | AdjErr => HErr RLexerError (length (fst ae)) c1
                  | AdjOk b =>
                      match predict d (set_buf (c_stream c1) b) with
                      | (POk p, s2) => HOk p (set_stream c1 s2)
                      | (PInvalidCast, _) => HPanic SITE_INVALID_PROD_CAST
                      | (PErr e, s2) => HErr (reject_of e) (length (fst ae)) (set_stream c1 s2)
                      end
                  end
              end
          end
      end
  end.

(** One iteration of the ['WHILE] loop (the caller has checked [!input_accepted()]). *)
Definition ll_step (c : config) : outcome :=
  match c_stack c with
  | [] => Continue c      (* `if let Some(entry) = stack.last()`: nothing to do *)
  | PT t :: st' =>
      let s1 := ensure (c_stream c) in                (* lookahead(0)? *)
      match s_buf s1 with
      | [] => Return (Rejected RLexerError (length (c_errs c)))
      | tok :: _ =>
          if N.eqb (fst tok) t then
            match consume s1 with
            | None => Return (Rejected RLexerError (length (c_errs c)))
            | Some (_, s2) =>
                Continue (mkConfig st' s2 (T (fst tok) :: c_pts c) (c_acts c)
                            (if o_trim opts then c_evs c else Tok (fst tok) :: c_evs c)
                            (c_errs c) (c_depth c))
            end
          else handle_token_mismatch (set_stream c s1) t tok
      end
  | PN a :: st' =>
      match dfa_at a with
      | None => Return (Panic SITE_AUTOMATON_INDEX)
      | Some d =>
          match predict d (c_stream c) with
          | (POk p, s1) => push_production (set_stack (set_stream c s1) st') p
          | (PInvalidCast, _) => Return (Panic SITE_INVALID_PROD_CAST)
          | (PErr _, s1) =>
              match handle_prediction_error (set_stream c s1) a d with
              | HPanic site => Return (Panic site)
              | HErr _ _ c1 => Break c1
              | HOk p c1 => push_production (set_stack c1 st') p
              end
          end
      end
  | PE p :: st' => end_production c p st'
  end.

Definition input_accepted (st : list pitem) : bool :=
  match st with
  | [] => true
  | [PT 0%N] => true
  | _ => false
  end.

(** After the loop. *)
Definition ll_finish (c : config) : ll_result :=
  match c_errs c with
  | _ :: _ => Rejected RSyntaxErrors (length (c_errs c))
  | [] =>
      if all_input_consumed (c_stream c)
      then Accepted (rev (c_acts c)) (rev (Close :: c_evs c))
      else Rejected RUnprocessedInput 0
  end.

Fixpoint ll_loop (fuel : nat) (c : config) : ll_result :=
  match fuel with
  | O => OutOfFuel
  | S f =>
      if input_accepted (c_stack c) then ll_finish c
      else match ll_step c with
           | Continue c' => ll_loop f c'
           | Break c' => ll_finish c'
           | Return r => r
           end
  end.

(** Everything before the loop: the root node, the first prediction, the first push. *)
Definition ll_init (s0 : stream) : outcome :=
  let c0 := mkConfig [] s0 [] [] [OpenRoot] [] 0%N in
  match dfa_at (tb_start tb) with
  | None => Return (Panic SITE_AUTOMATON_INDEX)
  | Some d =>
      match predict d s0 with
      | (POk p, s1) => push_production (set_stream c0 s1) p
      | (PInvalidCast, _) => Return (Panic SITE_INVALID_PROD_CAST)
      | (PErr _, s1) =>
          match handle_prediction_error (set_stream c0 s1) (tb_start tb) d with
          | HPanic site => Return (Panic site)
          | HErr r n _ => Return (Rejected r n)          (* `?` *)
          | HOk p c1 => push_production c1 p
          end
      end
  end.

(** [TokenStream::new_with_skip_tokens]: [k = max(1, k)] is computed first, the [TokenIter] gets
    the same [k] (so it yields [max(1,k)] EOI tokens at the end of the input), and the buffer is
    filled at once. *)
Definition init_stream (ltoks : list ltok) (eloc : N) : stream :=
  ensure (mkStream [] ltoks stream_k eloc).

Definition ll_run_located (fuel : nat) (ltoks : list ltok) (eloc : N) : ll_result :=
  match ll_init (init_stream ltoks eloc) with
  | Continue c => ll_loop fuel c
  | Break c => ll_finish c          (* not produced by ll_init *)
  | Return r => r
  end.

End Model.

(** ** Input: a list of significant token types *)
Definition INVALID_TOKEN : N := 65534.
Definition significant (t : N) : bool :=
  negb (N.eqb t 0) && negb (N.leb 1 t && N.leb t 4) && negb (N.eqb t INVALID_TOKEN).

Fixpoint locate (toks : list N) (loc : N) : list ltok :=
  match toks with
  | [] => []
  | t :: toks' => (t, loc) :: locate toks' (N.succ loc)
  end.

Definition ll_run_with (orc : oracle) (fuel : nat) (tb : ll_tables) (opts : options) (toks : list N)
  : ll_result :=
  if forallb significant toks
  then ll_run_located orc tb opts fuel (locate toks LOC_FIRST) LOC_END
  else BadInput.

(** ** Transcription of the oracle functions *)

(** *** [adjust_token_stream] with [replace_token_type_at] / [insert_token_at] / [remove_token_at] *)
Fixpoint replace_at (buf : list ltok) (i : nat) (ty : N) : option (list ltok) :=
  match buf, i with
  | [], _ => None                                   (* "Can't replace beyond token buffer" *)
  | x :: b, O => if N.eqb (fst x) 0 then None       (* "Can't replace EOI" *)
                 else Some ((ty, snd x) :: b)
  | x :: b, S i' => match replace_at b i' ty with None => None | Some b' => Some (x :: b') end
  end.

Fixpoint insert_at (buf : list ltok) (i : nat) (ty : N) : option (list ltok) :=
  match i, buf with
  | O, [] => Some [(ty, LOC_FILE)]
  | O, x :: _ => Some ((ty, snd x) :: buf)
  | S _, [] => None                                 (* "Can't insert in token buffer at position" *)
  | S i', x :: b => match insert_at b i' ty with None => None | Some b' => Some (x :: b') end
  end.

Fixpoint remove_at (buf : list ltok) (i : nat) : option (list ltok) :=
  match buf, i with
  | [], _ => None                                   (* "Can't remove from token buffer" *)
  | _ :: b, O => Some b
  | x :: b, S i' => match remove_at b i' with None => None | Some b' => Some (x :: b') end
  end.

Fixpoint adjust_ops (ops : list op) (buf : list ltok) (idx : nat) (exp : list N) (eidx : nat)
  : adjust_result :=
  match ops with
  | [] => AdjOk buf
  | Keep :: ops' => adjust_ops ops' buf (S idx) exp (S eidx)
  | Replace :: ops' =>
      match nth_error exp eidx with
      | None => AdjPanic
      | Some ty => match replace_at buf idx ty with
                   | None => AdjErr
                   | Some b => adjust_ops ops' b (S idx) exp (S eidx)
                   end
      end
  | Insert :: ops' =>
      match nth_error exp eidx with
      | None => AdjPanic
      | Some ty => match insert_at buf idx ty with
                   | None => AdjErr
                   | Some b => adjust_ops ops' b (S idx) exp (S eidx)
                   end
      end
  | Delete :: ops' =>
      match remove_at buf idx with
      | None => AdjErr
      | Some b => adjust_ops ops' b idx exp eidx
      end
  end.

Definition faithful_adjust (buf : list ltok) (expected : list N) : adjust_result :=
  match lev_opt (map fst buf) expected with
  | None => AdjPanic
  | Some (_, ops) => adjust_ops ops buf 0 expected 0
  end.

(** *** [restore_terminal_strings] + [minimal_token_difference]

    Only used when [restore_status] says [RS_NonEmpty]; then the graph is a graph over state
    numbers.  [find_edge(a, b)] returns the most recently added edge, i.e. the LAST transition of
    the array leading from [a] to [b]. *)
Definition last_label (ts : list trans) (a b : N) : option N :=
  fold_left (fun acc t => if N.eqb (t_from t) a && N.eqb (t_to t) b then Some (t_tok t) else acc)
            ts None.

Definition successors (ts : list trans) (a : N) : list N :=
  fold_left (fun acc t => if N.eqb (t_from t) a && negb (memN (t_to t) acc) then acc ++ [t_to t] else acc)
            ts [].

(** All simple paths starting in [cur] (already in [visited]); [str] = the labels so far, reversed.
    A string is emitted for every accepting state reached.  (The order of the result is
    irrelevant: it is turned into a sorted set.)  [sp_go] walks over the successors of [cur];
    [rec] is the search one level deeper. *)
Fixpoint sp_go (rec : N -> list N -> list N -> option (list (list N))) (ts : list trans)
  (cur : N) (visited str : list N) (succs : list N) : option (list (list N)) :=
  match succs with
  | [] => Some []
  | s :: rest =>
      if memN s visited then sp_go rec ts cur visited str rest
      else
        match last_label ts cur s with
        | None => None
        | Some lab =>
            match rec s (s :: visited) (lab :: str), sp_go rec ts cur visited str rest with
            | Some sub, Some r =>
                Some ((if state_accepting ts s then [rev (lab :: str)] else []) ++ sub ++ r)
            | _, _ => None
            end
        end
  end.

Fixpoint simple_paths (fuel : nat) (ts : list trans) (cur : N) (visited : list N) (str : list N)
  : option (list (list N)) :=
  match fuel with
  | O => None
  | S f => sp_go (simple_paths f ts) ts cur visited str (successors ts cur)
  end.

(** [Vec<u16>] order of the [BTreeSet]. *)
Fixpoint lex_compare (a b : list N) : comparison :=
  match a, b with
  | [], [] => Eq
  | [], _ :: _ => Lt
  | _ :: _, [] => Gt
  | x :: a', y :: b' => match N.compare x y with Eq => lex_compare a' b' | c => c end
  end.

Fixpoint set_insert (x : list N) (l : list (list N)) : list (list N) :=
  match l with
  | [] => [x]
  | y :: l' => match lex_compare x y with
               | Lt => x :: l
               | Eq => l
               | Gt => y :: set_insert x l'
               end
  end.

Definition restore_terminal_strings (d : dfa) : option (list (list N)) :=
  match simple_paths (S (S (length (transitions d)))) (transitions d) 0 [0%N] [] with
  | None => None
  | Some l => Some (fold_left (fun acc x => set_insert x acc) l [])
  end.

(** [minimal_token_difference]: [best] = (min_distance, min_distance_string); [None] = usize::MAX. *)
Fixpoint min_diff (scanned : list N) (strs : list (list N)) (best : option (nat * list N))
  : option (option (nat * list N)) :=
  match strs with
  | [] => Some best
  | s :: strs' =>
      match lev_opt scanned s with
      | None => None
      | Some (dist, _) =>
          let best' :=
            match best with
            | None => Some (dist, s)
            | Some (m, ms) =>
                if dist <? m then Some (dist, s)
                else if (dist =? m) && memN 0 ms && negb (memN 0 s) then Some (dist, s)
                else best
            end in
          min_diff scanned strs' best'
      end
  end.

Definition faithful_expected (d : dfa) (scanned : list N) : option (list N) :=
  match restore_terminal_strings d with
  | None => None
  | Some strs =>
      match min_diff scanned strs None with
      | Some (Some (_, s)) => Some s
      | _ => None
      end
  end.

Definition faithful_oracle : oracle := mkOracle faithful_expected faithful_adjust.

(** The model of [LLKParser::parse_into]. *)
Definition ll_run (fuel : nat) (tb : ll_tables) (opts : options) (toks : list N) : ll_result :=
  ll_run_with faithful_oracle fuel tb opts toks.

(** ** The grammar of the tables *)
Definition cfg_prod (pr : production) : prod := mkProd (p_lhs pr) (rev (p_rev pr)).
Definition grammar_of (tb : ll_tables) : cfg := mkCfg (tb_start tb) (map cfg_prod (tb_prods tb)).

(** ** Well-formedness of tables (boolean) *)
Definition sym_ok (tb : ll_tables) (s : sym) : bool :=
  match s with
  | T t => negb (N.eqb t 0) && N.ltb t (tb_nterms tb)
  | NT a => (N.to_nat a <? length (tb_automata tb)) && N.ltb a (tb_nnts tb)
  end.

Definition production_ok (tb : ll_tables) (pr : production) : bool :=
  (N.to_nat (p_lhs pr) <? length (tb_automata tb)) && N.ltb (p_lhs pr) (tb_nnts tb)
  && forallb (sym_ok tb) (p_rev pr).

(** A production number an automaton can answer: in range and a production of [a]. *)
Definition predicts_own (tb : ll_tables) (a : N) (z : Z) : bool :=
  negb (valid z) ||
  match nth_error (tb_prods tb) (N.to_nat (Z.to_N z)) with
  | Some pr => N.eqb (p_lhs pr) a
  | None => false
  end.

Definition dfa_ok (tb : ll_tables) (a : N) (d : dfa) : bool :=
  sortedb (transitions d) && wfd d && (depth d <=? Nat.max 1 (tb_k tb))
  && predicts_own tb a (prod0 d)
  && forallb (fun t => predicts_own tb a (t_prod t) && N.ltb (t_tok t) (tb_nterms tb)) (transitions d).

Fixpoint forallb_idx {A} (f : N -> A -> bool) (i : N) (l : list A) : bool :=
  match l with
  | [] => true
  | x :: l' => f i x && forallb_idx f (N.succ i) l'
  end.

(** Everything but the recovery caveat. *)
Definition tables_ok_basic (tb : ll_tables) : bool :=
  (N.to_nat (tb_start tb) <? length (tb_automata tb)) && N.ltb (tb_start tb) (tb_nnts tb)
  && N.ltb 0 (tb_nterms tb)
  && forallb (production_ok tb) (tb_prods tb)
  && forallb_idx (dfa_ok tb) 0 (tb_automata tb).

(** An automaton that can fail has a non-empty set of restorable terminal strings, so that
    "Can't recover" (which drains the error entries) is never reached. *)
Definition la_wf_dfa (d : dfa) : bool :=
  valid (prod0 d) || match restore_status d with RS_NonEmpty => true | _ => false end.
Definition la_wf (tb : ll_tables) : bool := forallb la_wf_dfa (tb_automata tb).

Definition tables_ok (tb : ll_tables) : bool := tables_ok_basic tb && la_wf tb.

(** ** Tree-builder events as a tree *)
Fixpoint parse_events (evs : list event) (stk : list (option N * list tree)) : option tree :=
  match evs with
  | [] => None
  | OpenRoot :: evs' => match stk with [] => parse_events evs' [(None, [])] | _ => None end
  | Open a :: evs' => match stk with [] => None | _ => parse_events evs' ((Some a, []) :: stk) end
  | Tok t :: evs' =>
      match stk with
      | (n, cs) :: stk' => parse_events evs' ((n, Leaf t :: cs) :: stk')
      | [] => None
      end
  | Close :: evs' =>
      match stk with
      | (Some a, cs) :: (n, cs') :: stk' =>
          let kids := rev cs in
          parse_events evs' ((n, Node (mkProd a (map root_sym kids)) kids :: cs') :: stk')
      | [(None, [t])] => match evs' with [] => Some t | _ => None end
      | _ => None
      end
  end.

(** The tree below the artificial root node, if the events are
    [OpenRoot; <events of one tree>; Close]. *)
Definition events_to_tree (evs : list event) : option tree := parse_events evs [].

(** ** A small example: S -> a S b | c   (a = 5, b = 6, c = 7; k = 1) *)
Definition ex_tables : ll_tables :=
  mkTables
    [ mkProduction 0 [T 6; NT 0; T 5] false;     (* 0: S -> a S b *)
      mkProduction 0 [T 7] false ]               (* 1: S -> c *)
    [ mkDfa (-1) [ mkTrans 0 5 1 0; mkTrans 0 7 2 1 ] 1 ]
    0 1 10 1.

Definition ex_opts : options := mkOptions false false None.
Definition ex_opts_rec : options := mkOptions true false None.

Example ex_tables_ok : tables_ok ex_tables = true.
Proof. vm_compute. reflexivity. Qed.

Example ex_accept :
  ll_run 100 ex_tables ex_opts [5; 5; 7; 6; 6]%N =
  Accepted [ (1, [T 7]); (0, [T 5; NT 0; T 6]); (0, [T 5; NT 0; T 6]) ]%N
           [ OpenRoot; Open 0; Tok 5; Open 0; Tok 5; Open 0; Tok 7; Close; Tok 6; Close; Tok 6; Close; Close ]%N.
Proof. vm_compute. reflexivity. Qed.

Example ex_accept_tree :
  events_to_tree [ OpenRoot; Open 0; Tok 5; Open 0; Tok 7; Close; Tok 6; Close; Close ]%N =
  Some (Node (mkProd 0 [T 5; NT 0; T 6]) [Leaf 5; Node (mkProd 0 [T 7]) [Leaf 7]; Leaf 6])%N.
Proof. vm_compute. reflexivity. Qed.

Example ex_reject_mismatch : ll_run 100 ex_tables ex_opts [5; 7; 7]%N = Rejected RSyntaxErrors 1.
Proof. vm_compute. reflexivity. Qed.

Example ex_reject_prediction : ll_run 100 ex_tables ex_opts [5; 6]%N = Rejected RSyntaxErrors 1.
Proof. vm_compute. reflexivity. Qed.

Example ex_reject_unprocessed : ll_run 100 ex_tables ex_opts [7; 7]%N = Rejected RUnprocessedInput 0.
Proof. vm_compute. reflexivity. Qed.

Example ex_reject_foreign : ll_run 100 ex_tables ex_opts [5; 9; 6]%N = Rejected RSyntaxErrors 1.
Proof. vm_compute. reflexivity. Qed.

Example ex_out_of_fuel : ll_run 3 ex_tables ex_opts [5; 5; 7; 6; 6]%N = OutOfFuel.
Proof. vm_compute. reflexivity. Qed.

Example ex_depth : ll_run 100 ex_tables (mkOptions false false (Some 2%N)) [5; 5; 7; 6; 6]%N = DepthExceeded.
Proof. vm_compute. reflexivity. Qed.

Example ex_bad_input : ll_run 100 ex_tables ex_opts [5; 2; 7]%N = BadInput.
Proof. vm_compute. reflexivity. Qed.
