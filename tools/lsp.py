"""Minimal LSP client over stdio for driving the real parol-ls binary."""
import json, os, queue, subprocess, threading, time

VERIF = os.path.dirname(os.path.dirname(os.path.abspath(__file__)))
LS_BIN = os.path.join(VERIF, 'target', 'ls', 'debug', 'parol-ls')


def build_ls():
    """(Re)build parol-ls from /repo's working tree into /verif/target/ls (nothing is written under /repo)."""
    import checklib
    ok, out = checklib.build_repo_bin(['parol-ls'], 'ls')
    return ok, out[-4000:]


class Server:
    def __init__(self, lookahead=3, env_extra=None):
        env = dict(os.environ)
        if env_extra:
            env.update(env_extra)
        import tempfile
        self.errf = tempfile.TemporaryFile(dir=os.path.join(VERIF, 'work') if os.path.isdir(os.path.join(VERIF, 'work')) else None)
        self.p = subprocess.Popen([LS_BIN, '--stdio', '-k', str(lookahead)], stdin=subprocess.PIPE, stdout=subprocess.PIPE,
                                  stderr=self.errf, env=env)
        self.q = queue.Queue()
        self.next_id = 1
        self.notifications = []
        self.t = threading.Thread(target=self._reader, daemon=True)
        self.t.start()
        self.request('initialize', {'processId': None, 'rootUri': None, 'capabilities': {}})
        self.notify('initialized', {})

    def _reader(self):
        f = self.p.stdout
        try:
            while True:
                length = None
                while True:
                    line = f.readline()
                    if not line:
                        self.q.put(None)
                        return
                    line = line.strip()
                    if not line:
                        if length is None:
                            continue   # stray output on stdout (the table generator prints resolved conflicts there)
                        break
                    if line.lower().startswith(b'content-length:'):
                        length = int(line.split(b':')[1])
                body = f.read(length)
                self.q.put(json.loads(body))
        except Exception:
            self.q.put(None)

    def _send(self, msg):
        body = json.dumps(msg).encode()
        self.p.stdin.write(b'Content-Length: %d\r\n\r\n' % len(body) + body)
        self.p.stdin.flush()

    def notify(self, method, params):
        self._send({'jsonrpc': '2.0', 'method': method, 'params': params})

    def request(self, method, params, timeout=20):
        """Returns ('ok', result) | ('error', err) | ('dead', None) | ('timeout', None)."""
        rid = self.next_id
        self.next_id += 1
        try:
            self._send({'jsonrpc': '2.0', 'id': rid, 'method': method, 'params': params})
        except (BrokenPipeError, OSError):
            return ('dead', None)
        t_end = time.time() + timeout
        while True:
            try:
                m = self.q.get(timeout=max(0.01, t_end - time.time()))
            except queue.Empty:
                return ('timeout', None)
            if m is None:
                return ('dead', None)
            if 'id' in m and m.get('id') == rid and ('result' in m or 'error' in m):
                return ('ok', m['result']) if 'result' in m else ('error', m['error'])
            if 'method' in m and 'id' in m:
                # request from the server (e.g. registerCapability): answer with null
                self._send({'jsonrpc': '2.0', 'id': m['id'], 'result': None})
            elif 'method' in m:
                self.notifications.append(m)

    def drain(self, wait=0.3):
        """Collect notifications that arrive within `wait` seconds of silence."""
        while True:
            try:
                m = self.q.get(timeout=wait)
            except queue.Empty:
                return True
            if m is None:
                return False
            if 'method' in m and 'id' in m:
                self._send({'jsonrpc': '2.0', 'id': m['id'], 'result': None})
            elif 'method' in m:
                self.notifications.append(m)

    def panic_site(self):
        """'file:line' of the last panic message on the server's stderr ('' if none)."""
        try:
            self.errf.seek(0)
            data = self.errf.read().decode('utf-8', 'replace')
        except Exception:
            return ''
        import re
        m = re.findall(r"thread 'main'[^\n]*panicked at ([^\s:]+:\d+):\d+:\n([^\n]*)", data)
        if not m:
            return ''
        return m[-1][0].split('/')[-1] + ' ' + m[-1][1][:80]

    def alive(self):
        return self.p.poll() is None

    def open(self, uri, text, version=1):
        self.notify('textDocument/didOpen', {'textDocument': {'uri': uri, 'languageId': 'parol', 'version': version, 'text': text}})

    def change(self, uri, text, version):
        self.notify('textDocument/didChange', {'textDocument': {'uri': uri, 'version': version}, 'contentChanges': [{'text': text}]})

    def diagnostics(self, uri):
        return [n['params'] for n in self.notifications if n['method'] == 'textDocument/publishDiagnostics' and n['params']['uri'] == uri]

    def close(self):
        try:
            self.request('shutdown', None, timeout=3)
            self.notify('exit', None)
        except Exception:
            pass
        try:
            self.p.wait(timeout=3)
        except Exception:
            self.p.kill()


def apply_edits(text, edits):
    """Apply LSP TextEdits (ranges in line / UTF-16 code unit; here: chars) to text."""
    lines = text.split('\n')
    def off(pos):
        l, c = pos['line'], pos['character']
        if l >= len(lines):
            return len(text)
        return sum(len(x) + 1 for x in lines[:l]) + min(c, len(lines[l]))
    es = sorted(edits, key=lambda e: (off(e['range']['start']), off(e['range']['end'])), reverse=True)
    for e in es:
        s, t = off(e['range']['start']), off(e['range']['end'])
        text = text[:s] + e['newText'] + text[t:]
    return text
