(* drv — evaluates the extracted Coq models / checkers on the cases the Rust harness printed.
   Reads one S-expression per line on stdin; prints one verdict line per case:
     OK <nontrivial:0|1>
     FAIL <reason>
     SKIP <reason>
   Lines that do not start with '(' are ignored (harness diagnostics). *)
open Sexp
open Conv

let c31 = function
  | [act; exp; A "panic"; _] ->
    ignore act; ignore exp; "FAIL implementation panicked"
  | [act; exp; d; ops] ->
    let act' = ns_of_sx act and exp' = ns_of_sx exp in
    let d' = nat_of_int (int_of_sx d) in
    let ops' = List.map (function 0 -> Model.Keep | 1 -> Model.Insert | 2 -> Model.Delete
                                  | 3 -> Model.Replace | _ -> failwith "op") (ints_of_sx ops) in
    if Model.lev_check act' exp' d' ops' then
      let nt = act' <> [] && exp' <> [] && act' <> exp' in
      (* informational: does the faithful model give the very same script? *)
      let (md, mops) = Model.lev act' exp' in
      Printf.sprintf "OK %d %s" (if nt then 1 else 0) (if md = d' && mops = ops' then "same-as-faithful-model" else "other-minimal-script")
    else
      Printf.sprintf "FAIL lev_check rejected (model distance %d)" (int_of_nat (Model.dist act' exp'))
  | _ -> "FAIL malformed case"

(* C08 *)
let dfa_of_sx = function
  | L [p0; k; L ts] ->
    let tr = List.map (fun t -> match ints_of_sx t with
        | [f; c; t'; p] -> { Model.t_from = n_of_int f; t_tok = n_of_int c; t_to = n_of_int t'; t_prod = z_of_int p }
        | _ -> failwith "trans") ts in
    { Model.prod0 = z_of_int (int_of_sx p0); transitions = tr; depth = nat_of_int (int_of_sx k) }
  | _ -> failwith "dfa"

let c08 = function
  | [d; _; A "panic"] -> ignore d; "FAIL key=panic implementation panicked"
  | [d; buf; res] ->
    let d' = dfa_of_sx d in
    let buf' = ns_of_sx buf in
    if not (Model.sortedb d'.Model.transitions && Model.wfd d') then "SKIP automaton not sorted/well-formed"
    else begin
      let k = int_of_nat d'.Model.depth in
      match res with
      | L [A "err"; _] -> if List.length buf' < k then "SKIP short buffer" else "FAIL key=othererr unexpected error kind"
      | _ ->
        let r = (match res with L [A "ok"; p] -> Some (z_of_int (int_of_sx p)) | A "prederr" -> None | _ -> failwith "res") in
        (* non-trivial: the buffer follows the automaton for >= 1 token and then leaves it within depth *)
        let rec firstn n l = if n = 0 then [] else match l with [] -> [] | x :: t -> x :: firstn (n - 1) t in
        let runs n = Model.run d'.Model.transitions (firstn n buf') N0 d'.Model.prod0 <> None in
        let nt = ref false in
        for n = 1 to k - 1 do if runs n && not (runs (n + 1)) && List.length buf' > n then nt := true done;
        if Model.eval_check d' buf' r then Printf.sprintf "OK %d %s" (if !nt then 1 else 0) (match r with Some _ -> "predict" | None -> "error")
        else begin
          let m = (match Model.eval d' buf' with Model.Predict p -> Printf.sprintf "predict %d" (int_of_z p) | Model.PredictionError -> "prediction error" | Model.LexerErr -> "lexer error") in
          let old = (match Model.eval_old d' buf', r with Model.Predict p, Some q when p = q -> " (agrees with the pre-fix walk eval_old: an unmatched token was skipped)" | _ -> "") in
          Printf.sprintf "FAIL key=%s eval_check rejected: model says %s%s" (if old <> "" then "skips-unmatched-token" else "mismatch") m old
        end
    end
  | _ -> "FAIL malformed case"

let dispatch (sx : Sexp.t) : string =
  match sx with
  | L (A "lev" :: args) -> c31 args
  | L (A "eval" :: args) -> c08 args
  | _ -> "SKIP unknown case kind"

let () =
  try
    while true do
      let line = input_line stdin in
      if String.length line > 0 && line.[0] = '(' then begin
        let verdict =
          try dispatch (Sexp.parse line)
          with e -> "FAIL driver exception " ^ Printexc.to_string e in
        print_endline verdict
      end
    done
  with End_of_file -> ()
