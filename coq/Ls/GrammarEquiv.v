(** * Language equality of two EBNF grammars up to renaming, reordering and inlined helpers (C34).

    Property C34: "parol and its language server accept the same grammar texts".  At the syntactic
    level this says that the two PAR grammars

      - crates/parol/src/parser/parol.par   (start symbol [Parol])
      - crates/parol-ls/parol_ls.par        (start symbol [ParolLs])

    generate the same language over token kinds.  The two texts differ in cosmetic annotations
    (cut operators, member names, comments), in the name of one non-terminal ([RawString] vs
    [LiteralString]) and of the start symbol, in the order of productions and in one extra helper
    non-terminal [ProductionLHS: Identifier ":"] of parol_ls.par.

    A translator regenerates both grammars as terms [parol_par parol_ls_par : Ebnf.egrammar]
    (equal token kinds get equal terminal numbers, non-terminals are numbered independently).
    This file provides a *verified checker* deciding a sufficient condition for language equality:

    - [inline_nt x G]: inline the non-recursive, non-start non-terminal [x]
      ([inline_nt_sound], an instance of [Ebnf.ext_preserves]);
    - [gflat G]: splice groups with exactly one alternative into the surrounding sequence
      ([( A B ) C] = [A B C]; needed because inlining produces such groups) ([gflat_sound]);
    - [sim_check f G1 G2]: [f] is a simulation of [G1] in [G2] (every alternative of every
      non-terminal [a] of [G1], renamed by [f], is an alternative of [f a] in [G2]; alternatives,
      also the nested ones, are compared as sets) ([sim_check_sound]: language inclusion);
    - [iso_check f G1 G2]: [f] is functional and injective, maps start to start, and is a
      simulation in both directions ([iso_check_sound]: language equality);
    - [equiv_pipeline inl f G1 G2]: inline the helpers [inl] in [G2], flatten both grammars, run
      [iso_check] ([equiv_pipeline_sound]);
    - [guess_map]: an unverified helper computing a candidate map from the name tables. *)
From Coq Require Import List NArith Arith Bool Lia String.
From Parol Require Import Grammar.Cfg Grammar.Ebnf.
Import ListNotations.

(** ** All alternatives of a non-terminal *)

(** The concatenation, in order, of the alternative lists of all entries for [x]. *)
Definition alts_of (x : N) (ps : list eprod) : alts :=
  flat_map (fun p => if N.eqb (fst p) x then snd p else []) ps.

Lemma alts_of_in x ps alt :
  In alt (alts_of x ps) <-> exists b, In (x, b) ps /\ In alt b.
Proof.
  unfold alts_of. rewrite in_flat_map. split.
  - intros ([a b] & Hin & Halt). cbn [fst snd] in Halt.
    destruct (N.eqb_spec a x) as [->|Hne]; [|destruct Halt]. exists b. split; assumption.
  - intros (b & Hin & Halt). exists (x, b). split; [exact Hin|]. cbn [fst snd].
    rewrite N.eqb_refl. exact Halt.
Qed.

Lemma malts_alts_of ps x w : malts ps (alts_of x ps) w <-> mfac ps (FN x) w.
Proof.
  split.
  - intros H. apply malts_inv in H as (alt & Hin & Hm).
    apply alts_of_in in Hin as (b & Hb & Halt). econstructor; [exact Hb|].
    econstructor; [exact Halt|exact Hm].
  - intros H. apply mfac_N_inv in H as (b & Hb & Hm). apply malts_inv in Hm as (alt & Halt & Hm).
    econstructor; [|exact Hm]. apply alts_of_in. exists b. split; assumption.
Qed.

Lemma mfac_G_iff ps b w : mfac ps (FGroup b) w <-> malts ps b w.
Proof. split; [apply mfac_G_inv|apply mf_G]. Qed.

(** ** 1. Inlining a non-recursive non-terminal *)

(** Drop the entries of [x] and substitute [F] for [x] everywhere else. *)
Definition inline_prods (x : N) (F : factor) (ps : list eprod) : list eprod :=
  map (fun p => (fst p, subst_alts x F (snd p)))
      (filter (fun p => negb (N.eqb (fst p) x)) ps).

(** [inline_nt x G]: [G] with every occurrence of [FN x] (at any depth) replaced by the group of
    all alternatives of [x], and without the productions of [x].  [None] if [x] is the start
    symbol or occurs in its own alternatives. *)
Definition inline_nt (x : N) (G : egrammar) : option egrammar :=
  let bx := alts_of x (eprods G) in
  if negb (N.eqb x (estart G)) && afree x bx
  then Some (mkEg (estart G) (inline_prods x (FGroup bx) (eprods G)))
  else None.

Lemma inline_prods_in x F ps a c :
  In (a, c) (inline_prods x F ps) <-> exists b, In (a, b) ps /\ a <> x /\ c = subst_alts x F b.
Proof.
  unfold inline_prods. rewrite in_map_iff. split.
  - intros ([a0 b] & E & Hin). cbn [fst snd] in E. inversion E; subst a0 c. clear E.
    apply filter_In in Hin as [Hin Hne]. cbn [fst] in Hne.
    apply negb_true_iff, N.eqb_neq in Hne. exists b. repeat split; assumption.
  - intros (b & Hin & Hne & ->). exists (a, b). split; [reflexivity|].
    apply filter_In. split; [exact Hin|]. cbn [fst]. apply negb_true_iff, N.eqb_neq. exact Hne.
Qed.

Lemma afree_sub x b b' :
  afree x b' = true -> (forall alt, In alt b -> In alt b') -> afree x b = true.
Proof.
  unfold afree. rewrite !forallb_forall. intros H Hsub alt Hin. apply H, Hsub. exact Hin.
Qed.

(** The general form: every sequence not mentioning [x] matches the same strings. *)
Theorem inline_nt_match x G G' :
  inline_nt x G = Some G' ->
  estart G' = estart G /\ x <> estart G /\
  forall fs w, sfree x fs = true -> (ematch G' fs w <-> ematch G fs w).
Proof.
  unfold inline_nt. intros H.
  destruct (negb (N.eqb x (estart G)) && afree x (alts_of x (eprods G))) eqn:Ec; [|discriminate].
  inversion H; subst G'. clear H. apply andb_prop in Ec as [Hs Hfree].
  apply negb_true_iff, N.eqb_neq in Hs. split; [reflexivity|]. split; [exact Hs|].
  unfold ematch. cbn [eprods].
  set (bx := alts_of x (eprods G)) in *. set (ps' := eprods G).
  set (ps := inline_prods x (FGroup bx) ps').
  assert (HE : (forall fs w, sfree x fs = true -> (mseq ps fs w <-> mseq ps' fs w)) /\
               (forall w, mfac ps' (FN x) w <-> mfac ps (FGroup bx) w)).
  { apply ext_preserves.
    - exact Hfree.
    - intros a b Hin. destruct (N.eq_dec a x) as [->|Hne].
      + right. split; [reflexivity|]. intros w Hm.
        assert (Hb : afree x b = true).
        { apply (afree_sub x b bx Hfree). intros alt Halt. apply alts_of_in. exists b.
          split; assumption. }
        rewrite (subst_alts_free x _ b Hb) in Hm. apply malts_inv in Hm as (alt & Halt & Hm).
        constructor. econstructor; [|exact Hm]. apply alts_of_in. exists b. split; assumption.
      + left. split; [exact Hne|]. apply inline_prods_in. exists b. repeat split; assumption.
    - intros a b Hin. apply inline_prods_in in Hin as (b' & Hin & _ & ->). exists b'.
      split; [exact Hin|reflexivity].
    - intros w Hm. apply mfac_G_inv in Hm. apply malts_alts_of. exact Hm. }
  exact (proj1 HE).
Qed.

(** Every non-terminal other than [x] generates the same strings. *)
Corollary inline_nt_nt x G G' : inline_nt x G = Some G' ->
  forall a, a <> x -> forall w, ematch G' [FN a] w <-> ematch G [FN a] w.
Proof.
  intros H a Hne w. destruct (inline_nt_match x G G' H) as (_ & _ & Hm). apply Hm.
  cbn [sfree forallb xfree]. rewrite andb_true_r. apply negb_true_iff, N.eqb_neq. exact Hne.
Qed.

Theorem inline_nt_sound x G G' : inline_nt x G = Some G' -> forall w, elang G' w <-> elang G w.
Proof.
  intros H w. destruct (inline_nt_match x G G' H) as (Hs & Hne & _). unfold elang. rewrite Hs.
  apply (inline_nt_nt x G G' H). intros E. apply Hne. symmetry. exact E.
Qed.

(** Inlining a list of helpers, in order. *)
Fixpoint inline_all (l : list N) (G : egrammar) : option egrammar :=
  match l with
  | [] => Some G
  | x :: r => match inline_nt x G with
              | Some G' => inline_all r G'
              | None => None
              end
  end.

Theorem inline_all_sound l : forall G G', inline_all l G = Some G' ->
  forall w, elang G' w <-> elang G w.
Proof.
  induction l as [|x l IH]; intros G G' H w; cbn [inline_all] in H.
  - inversion H. reflexivity.
  - destruct (inline_nt x G) as [G1|] eqn:E1; [|discriminate].
    rewrite (IH G1 G' H w). apply (inline_nt_sound x G G1 E1).
Qed.

(** ** 2. Splicing single-alternative groups *)

(** [flat_f f] is the sequence of factors standing for [f]: a group with exactly one alternative
    (after flattening its content) is replaced by that alternative, everything else is kept,
    recursively. *)
Fixpoint flat_f (f : factor) : list factor :=
  let flat_seq := fix flat_seq (a : list factor) : list factor :=
    match a with [] => [] | g :: r => flat_f g ++ flat_seq r end in
  let flat_alts := fix flat_alts (b : alts) : alts :=
    match b with [] => [] | a :: r => flat_seq a :: flat_alts r end in
  match f with
  | FT t => [FT t]
  | FN a => [FN a]
  | FGroup b => match flat_alts b with [a] => a | b' => [FGroup b'] end
  | FOpt b => [FOpt (flat_alts b)]
  | FRep b => [FRep (flat_alts b)]
  end.

Fixpoint flat_seq (a : list factor) : list factor :=
  match a with [] => [] | g :: r => flat_f g ++ flat_seq r end.
Fixpoint flat_alts (b : alts) : alts :=
  match b with [] => [] | a :: r => flat_seq a :: flat_alts r end.

Lemma flat_f_group b :
  flat_f (FGroup b) = match flat_alts b with [a] => a | b' => [FGroup b'] end.
Proof. reflexivity. Qed.
Lemma flat_f_opt b : flat_f (FOpt b) = [FOpt (flat_alts b)].
Proof. reflexivity. Qed.
Lemma flat_f_rep b : flat_f (FRep b) = [FRep (flat_alts b)].
Proof. reflexivity. Qed.

Definition gflat (G : egrammar) : egrammar :=
  mkEg (estart G) (map (fun p => (fst p, flat_alts (snd p))) (eprods G)).

(** Within one grammar flattening does not change what is matched. *)
Lemma flat_same ps :
  (forall f w, mseq ps (flat_f f) w <-> mfac ps f w) /\
  (forall a w, mseq ps (flat_seq a) w <-> mseq ps a w) /\
  (forall b w, malts ps (flat_alts b) w <-> malts ps b w).
Proof.
  apply factor_mutind.
  - intros t w. apply mseq_single.
  - intros a w. apply mseq_single.
  - intros b IH w. rewrite flat_f_group. rewrite mfac_G_iff, <- (IH w).
    destruct (flat_alts b) as [|a [|a' r]].
    + rewrite mseq_single. apply mfac_G_iff.
    + symmetry. apply malts_single.
    + rewrite mseq_single. apply mfac_G_iff.
  - intros b IH w. rewrite flat_f_opt, mseq_single. split; intros H.
    + apply mfac_O_inv in H as [->|H]; [constructor|]. apply mf_O1. apply IH. exact H.
    + apply mfac_O_inv in H as [->|H]; [constructor|]. apply mf_O1. apply IH. exact H.
  - intros b IH w. rewrite flat_f_rep, mseq_single. split.
    + apply rep_mono. intros v. apply IH.
    + apply rep_mono. intros v. apply IH.
  - intros w. reflexivity.
  - intros f fs IHf IHs w. cbn [flat_seq]. split; intros H.
    + apply mseq_app_inv in H as (u & v & -> & Hu & Hv). constructor; [apply IHf|apply IHs]; assumption.
    + apply mseq_cons_inv in H as (u & v & -> & Hu & Hv).
      apply mseq_app; [apply IHf|apply IHs]; assumption.
  - intros w. reflexivity.
  - intros a b IHa IHb w. cbn [flat_alts]. rewrite !malts_cons, IHa, IHb. reflexivity.
Qed.

Theorem gflat_match G : forall fs w, ematch (gflat G) fs w <-> ematch G fs w.
Proof.
  intros fs w. unfold ematch, gflat. cbn [eprods]. set (ps := eprods G).
  set (ps' := map (fun p => (fst p, flat_alts (snd p))) ps). split.
  - revert fs w. apply mseq_incl_gen. intros a b' Hin w Hm. unfold ps' in Hin.
    apply in_map_iff in Hin as ([a0 b] & E & Hin). cbn [fst snd] in E. inversion E; subst a0 b'.
    econstructor; [exact Hin|]. apply (proj2 (proj2 (flat_same ps))). exact Hm.
  - revert fs w. apply mseq_incl_gen. intros a b Hin w Hm.
    apply (mf_N ps' a (flat_alts b)).
    + unfold ps'. apply in_map_iff. exists (a, b). split; [reflexivity|exact Hin].
    + apply (proj2 (proj2 (flat_same ps'))). exact Hm.
Qed.

Theorem gflat_sound G : forall w, elang (gflat G) w <-> elang G w.
Proof. intros w. unfold elang. change (estart (gflat G)) with (estart G). apply gflat_match. Qed.

(** ** 3. Simulation up to renaming of non-terminals, alternatives compared as sets *)

Fixpoint look (f : list (N * N)) (a : N) : option N :=
  match f with
  | [] => None
  | (x, y) :: r => if N.eqb x a then Some y else look r a
  end.

Section Sub.
  Variable lk : N -> option N.

  (** [fsub f1 f2]: [f2] is [f1] with its non-terminals renamed by [lk], except that the
      alternatives of a group/optional/repetition of [f1] need only be *among* those of [f2]. *)
  Fixpoint fsub (f1 f2 : factor) {struct f1} : bool :=
    let seqsub := fix seqsub (a1 a2 : list factor) {struct a1} : bool :=
      match a1, a2 with
      | [], [] => true
      | f :: r, g :: s => fsub f g && seqsub r s
      | _, _ => false
      end in
    let altsub := fix altsub (b1 b2 : alts) {struct b1} : bool :=
      match b1 with
      | [] => true
      | a1 :: r => existsb (seqsub a1) b2 && altsub r b2
      end in
    match f1, f2 with
    | FT t, FT t' => N.eqb t t'
    | FN a, FN a' => match lk a with Some x => N.eqb x a' | None => false end
    | FGroup b1, FGroup b2 => altsub b1 b2
    | FOpt b1, FOpt b2 => altsub b1 b2
    | FRep b1, FRep b2 => altsub b1 b2
    | _, _ => false
    end.

  Fixpoint seqsub (a1 a2 : list factor) {struct a1} : bool :=
    match a1, a2 with
    | [], [] => true
    | f :: r, g :: s => fsub f g && seqsub r s
    | _, _ => false
    end.

  Fixpoint altsub (b1 b2 : alts) {struct b1} : bool :=
    match b1 with
    | [] => true
    | a1 :: r => existsb (seqsub a1) b2 && altsub r b2
    end.

  Lemma fsub_T_inv t f2 : fsub (FT t) f2 = true -> f2 = FT t.
  Proof.
    destruct f2 as [t'|a|b|b|b]; cbn [fsub]; intros H; try discriminate H.
    apply N.eqb_eq in H. subst. reflexivity.
  Qed.
  Lemma fsub_N_inv a f2 : fsub (FN a) f2 = true -> exists a', f2 = FN a' /\ lk a = Some a'.
  Proof.
    destruct f2 as [t'|a'|b|b|b]; cbn [fsub]; intros H; try discriminate H.
    destruct (lk a) as [x|]; [|discriminate H]. apply N.eqb_eq in H. subst. eauto.
  Qed.
  Lemma fsub_G_inv b f2 : fsub (FGroup b) f2 = true -> exists b2, f2 = FGroup b2 /\ altsub b b2 = true.
  Proof.
    destruct f2 as [t'|a'|b2|b2|b2]; intros H; try discriminate H. exists b2. split; [reflexivity|exact H].
  Qed.
  Lemma fsub_O_inv b f2 : fsub (FOpt b) f2 = true -> exists b2, f2 = FOpt b2 /\ altsub b b2 = true.
  Proof.
    destruct f2 as [t'|a'|b2|b2|b2]; intros H; try discriminate H. exists b2. split; [reflexivity|exact H].
  Qed.
  Lemma fsub_R_inv b f2 : fsub (FRep b) f2 = true -> exists b2, f2 = FRep b2 /\ altsub b b2 = true.
  Proof.
    destruct f2 as [t'|a'|b2|b2|b2]; intros H; try discriminate H. exists b2. split; [reflexivity|exact H].
  Qed.

  Lemma altsub_in b b2 : altsub b b2 = true ->
    forall a, In a b -> exists a2, In a2 b2 /\ seqsub a a2 = true.
  Proof.
    induction b as [|a1 b IH]; intros H a Hin; [destruct Hin|]. cbn [altsub] in H.
    apply andb_prop in H as [H1 H2]. destruct Hin as [<-|Hin]; [|exact (IH H2 a Hin)].
    apply existsb_exists in H1. exact H1.
  Qed.

  (** The simulation lemma: if every entry of [ps1] is covered by [ps2] then every derivation of
      [ps1] is, after renaming, a derivation of [ps2]. *)
  Lemma sim_sound ps1 ps2 :
    (forall a b, In (a, b) ps1 ->
       exists a', lk a = Some a' /\ altsub b (alts_of a' ps2) = true) ->
    (forall fs w, mseq ps1 fs w -> forall fs2, seqsub fs fs2 = true -> mseq ps2 fs2 w) /\
    (forall f w, mfac ps1 f w -> forall f2, fsub f f2 = true -> mfac ps2 f2 w) /\
    (forall b w, malts ps1 b w -> forall b2, altsub b b2 = true -> malts ps2 b2 w).
  Proof.
    intros Hcov. apply ematch_mutind.
    - intros [|g s] H; [constructor|discriminate H].
    - intros f fs u v _ IHf _ IHs [|g s] H; [discriminate H|]. cbn [seqsub] in H.
      apply andb_prop in H as [H1 H2]. constructor; [apply IHf; exact H1|apply IHs; exact H2].
    - intros t f2 H. apply fsub_T_inv in H. subst f2. constructor.
    - intros a b w Hin _ IHb f2 H. apply fsub_N_inv in H as (a' & -> & Ha).
      destruct (Hcov a b Hin) as (a'' & Ha' & Hsub). rewrite Ha in Ha'. inversion Ha'; subst a''.
      apply malts_alts_of. apply IHb. exact Hsub.
    - intros b w _ IHb f2 H. apply fsub_G_inv in H as (b2 & -> & H). constructor. apply IHb. exact H.
    - intros b f2 H. apply fsub_O_inv in H as (b2 & -> & H). constructor.
    - intros b w _ IHb f2 H. apply fsub_O_inv in H as (b2 & -> & H). apply mf_O1. apply IHb. exact H.
    - intros b f2 H. apply fsub_R_inv in H as (b2 & -> & H). constructor.
    - intros b u v _ IHu _ IHv f2 H. pose proof H as H'. apply fsub_R_inv in H' as (b2 & -> & Hb).
      constructor; [apply IHu; exact Hb|apply IHv; exact H].
    - intros b a w Hin _ IHa b2 H. destruct (altsub_in b b2 H a Hin) as (a2 & Hin2 & Hs).
      econstructor; [exact Hin2|]. apply IHa. exact Hs.
  Qed.
End Sub.

(** [sim_prods f ps1 ps2]: every entry [(a, b)] of [ps1] has an image [f a], and each alternative
    of [b], renamed, is among the alternatives of [f a] in [ps2]. *)
Definition sim_prods (f : list (N * N)) (ps1 ps2 : list eprod) : bool :=
  forallb (fun p => match look f (fst p) with
                    | Some a' => altsub (look f) (snd p) (alts_of a' ps2)
                    | None => false
                    end) ps1.

Definition start_ok (f : list (N * N)) (G1 G2 : egrammar) : bool :=
  match look f (estart G1) with Some s => N.eqb s (estart G2) | None => false end.

(** One direction: [f] maps start to start and is a simulation of [G1] in [G2]. *)
Definition sim_check (f : list (N * N)) (G1 G2 : egrammar) : bool :=
  start_ok f G1 G2 && sim_prods f (eprods G1) (eprods G2).

Lemma sim_prods_cov f ps1 ps2 : sim_prods f ps1 ps2 = true ->
  forall a b, In (a, b) ps1 ->
    exists a', look f a = Some a' /\ altsub (look f) b (alts_of a' ps2) = true.
Proof.
  unfold sim_prods. rewrite forallb_forall. intros H a b Hin. specialize (H _ Hin).
  cbn [fst snd] in H. destruct (look f a) as [a'|]; [|discriminate H]. exists a'.
  split; [reflexivity|exact H].
Qed.

(** Renamed non-terminals generate at least as much. *)
Theorem sim_prods_sound f ps1 ps2 : sim_prods f ps1 ps2 = true ->
  forall a a' w, look f a = Some a' -> mfac ps1 (FN a) w -> mfac ps2 (FN a') w.
Proof.
  intros H a a' w Ha Hm.
  apply (proj1 (proj2 (sim_sound (look f) ps1 ps2 (sim_prods_cov f ps1 ps2 H))) _ w Hm).
  cbn [fsub]. rewrite Ha. apply N.eqb_refl.
Qed.

Theorem sim_check_sound f G1 G2 : sim_check f G1 G2 = true -> forall w, elang G1 w -> elang G2 w.
Proof.
  unfold sim_check, start_ok. intros H w Hw. apply andb_prop in H as [Hs Hp].
  destruct (look f (estart G1)) as [s|] eqn:Es; [|discriminate Hs]. apply N.eqb_eq in Hs. subst s.
  unfold elang, ematch in *. apply mseq_single. apply mseq_single in Hw.
  exact (sim_prods_sound f _ _ Hp _ _ w Es Hw).
Qed.

(** ** 4. The isomorphism check *)

Definition inv_map (f : list (N * N)) : list (N * N) := map (fun p => (snd p, fst p)) f.

Fixpoint memN (x : N) (l : list N) : bool :=
  match l with [] => false | y :: r => N.eqb x y || memN x r end.
Fixpoint nodupb (l : list N) : bool :=
  match l with [] => true | x :: r => negb (memN x r) && nodupb r end.

Lemma memN_In x l : memN x l = true <-> In x l.
Proof.
  induction l as [|y l IH]; cbn [memN In]; [split; [discriminate|intros []]|].
  rewrite orb_true_iff, N.eqb_eq, IH. split; intros [H|H]; auto.
Qed.

Lemma nodupb_NoDup l : nodupb l = true -> NoDup l.
Proof.
  induction l as [|x l IH]; cbn [nodupb]; intros H; [constructor|].
  apply andb_prop in H as [H1 H2]. constructor; [|exact (IH H2)].
  intros Hin. apply memN_In in Hin. rewrite Hin in H1. discriminate H1.
Qed.

(** [iso_check f G1 G2]: the association list [f] (non-terminal of [G1], non-terminal of [G2])
    is functional and injective, maps the start symbol to the start symbol, every non-terminal
    with productions of either grammar is in its domain resp. image, and the alternatives of [a]
    in [G1], renamed, are as a set the alternatives of [f a] in [G2] (nested alternatives are
    compared as sets too). *)
Definition iso_check (f : list (N * N)) (G1 G2 : egrammar) : bool :=
  nodupb (map fst f) && nodupb (map snd f) &&
  sim_check f G1 G2 && sim_check (inv_map f) G2 G1.

Theorem iso_check_sound f G1 G2 : iso_check f G1 G2 = true -> forall w, elang G1 w <-> elang G2 w.
Proof.
  unfold iso_check. intros H w. apply andb_prop in H as [H H2]. apply andb_prop in H as [_ H1].
  split; [apply (sim_check_sound f G1 G2 H1)|apply (sim_check_sound (inv_map f) G2 G1 H2)].
Qed.

(** What the check says about [f] (not needed for soundness). *)
Lemma iso_check_bij f G1 G2 : iso_check f G1 G2 = true ->
  NoDup (map fst f) /\ NoDup (map snd f) /\
  look f (estart G1) = Some (estart G2) /\ look (inv_map f) (estart G2) = Some (estart G1).
Proof.
  unfold iso_check, sim_check, start_ok. intros H.
  apply andb_prop in H as [H H4]. apply andb_prop in H as [H H3]. apply andb_prop in H as [H1 H2].
  apply andb_prop in H3 as [H3 _]. apply andb_prop in H4 as [H4 _].
  repeat split; [apply nodupb_NoDup; exact H1|apply nodupb_NoDup; exact H2| |].
  - destruct (look f (estart G1)) as [s|]; [|discriminate H3]. apply N.eqb_eq in H3. subst. reflexivity.
  - destruct (look (inv_map f) (estart G2)) as [s|]; [|discriminate H4]. apply N.eqb_eq in H4.
    subst. reflexivity.
Qed.

(** ** 5. The pipeline *)

(** Inline [inl1] in [G1] and [inl2] in [G2] (in order), flatten both, compare. *)
Definition equiv_pipeline_gen (inl1 inl2 : list N) (f : list (N * N)) (G1 G2 : egrammar) : bool :=
  match inline_all inl1 G1, inline_all inl2 G2 with
  | Some G1', Some G2' => iso_check f (gflat G1') (gflat G2')
  | _, _ => false
  end.

Definition equiv_pipeline (inl : list N) (f : list (N * N)) (G1 G2 : egrammar) : bool :=
  equiv_pipeline_gen [] inl f G1 G2.

Theorem equiv_pipeline_gen_sound inl1 inl2 f G1 G2 :
  equiv_pipeline_gen inl1 inl2 f G1 G2 = true -> forall w, elang G1 w <-> elang G2 w.
Proof.
  unfold equiv_pipeline_gen. intros H w.
  destruct (inline_all inl1 G1) as [G1'|] eqn:E1; [|discriminate H].
  destruct (inline_all inl2 G2) as [G2'|] eqn:E2; [|discriminate H].
  rewrite <- (inline_all_sound inl1 G1 G1' E1 w), <- (inline_all_sound inl2 G2 G2' E2 w).
  rewrite <- (gflat_sound G1' w), <- (gflat_sound G2' w).
  apply (iso_check_sound f _ _ H).
Qed.

Theorem equiv_pipeline_sound inl f G1 G2 :
  equiv_pipeline inl f G1 G2 = true -> forall w, elang G1 w <-> elang G2 w.
Proof. apply equiv_pipeline_gen_sound. Qed.

(** ** 6. Unverified helpers: candidate map and helper list from the name tables *)

(** Position (from [i]) of the first occurrence of [s]. *)
Fixpoint index_from (i : N) (s : string) (l : list string) : option N :=
  match l with
  | [] => None
  | x :: r => if String.eqb x s then Some i else index_from (N.succ i) s r
  end.

Fixpoint rename_of (renames : list (string * string)) (s : string) : string :=
  match renames with
  | [] => s
  | (x, y) :: r => if String.eqb x s then y else rename_of r s
  end.

Fixpoint guess_from (i : N) (names1 names2 : list string) (renames : list (string * string))
  : list (N * N) :=
  match names1 with
  | [] => []
  | n :: r =>
      let rest := guess_from (N.succ i) r names2 renames in
      match index_from 0 (rename_of renames n) names2 with
      | Some j => (i, j) :: rest
      | None => rest
      end
  end.

(** [guess_map names1 names2 renames]: [names1]/[names2] give the name of non-terminal [i] of the
    first/second grammar at position [i]; [renames] lists (name in the first grammar, name in the
    second grammar) for the non-terminals whose names differ.  Non-terminals without partner get
    no entry. *)
Definition guess_map (names1 names2 : list string) (renames : list (string * string))
  : list (N * N) := guess_from 0 names1 names2 renames.

(** The numbers of the listed names (unknown names are skipped; the checker then fails). *)
Fixpoint nts_named (names : list string) (l : list string) : list N :=
  match l with
  | [] => []
  | s :: r => match index_from 0 s names with
              | Some i => i :: nts_named names r
              | None => nts_named names r
              end
  end.

(** Everything from the name tables: [helpers] are names of non-terminals of the second grammar
    to be inlined. *)
Definition equiv_by_names (names1 names2 : list string) (renames : list (string * string))
  (helpers : list string) (G1 G2 : egrammar) : bool :=
  equiv_pipeline (nts_named names2 helpers) (guess_map names1 names2 renames) G1 G2.

Theorem equiv_by_names_sound names1 names2 renames helpers G1 G2 :
  equiv_by_names names1 names2 renames helpers G1 G2 = true ->
  forall w, elang G1 w <-> elang G2 w.
Proof. apply equiv_pipeline_sound. Qed.

(** ** 7. Examples *)

(** Terminals: a=10 b=11 c=12 d=13 e=14 f=15 x=16 y=17.
<<
    S: A "x" B | "y" ;              S=0 A=1 B=2
    A: "a" { "b" | "c" } ;
    B: [ "d" ] ( "e" | "f" ) ;
>> *)
Definition ex_g1 : egrammar :=
  mkEg 0 [ (0%N, [[FN 1; FT 16; FN 2]; [FT 17]]);
           (1%N, [[FT 10; FRep [[FT 11]; [FT 12]]]]);
           (2%N, [[FOpt [[FT 13]]; FGroup [[FT 14]; [FT 15]]]]) ].

(** Renamed, reordered (productions, alternatives, nested alternatives), one helper, one
    left-hand side split over two entries.
<<
    Bee: [ "d" ] ( "f" | "e" ) ;    A=0 Bee=1 H=2 T=3, start T
    T: "y" ;
    H: A "x" ;
    A: "a" { "c" | "b" } ;
    T: H Bee ;
>> *)
Definition ex_g2 : egrammar :=
  mkEg 3 [ (1%N, [[FOpt [[FT 13]]; FGroup [[FT 15]; [FT 14]]]]);
           (3%N, [[FT 17]]);
           (2%N, [[FN 0; FT 16]]);
           (0%N, [[FT 10; FRep [[FT 12]; [FT 11]]]]);
           (3%N, [[FN 2; FN 1]]) ].

(** As [ex_g2] but [A: "a" { "c" }] — a different language. *)
Definition ex_g3 : egrammar :=
  mkEg 3 [ (1%N, [[FOpt [[FT 13]]; FGroup [[FT 15]; [FT 14]]]]);
           (3%N, [[FT 17]]);
           (2%N, [[FN 0; FT 16]]);
           (0%N, [[FT 10; FRep [[FT 12]]]]);
           (3%N, [[FN 2; FN 1]]) ].

Definition ex_names1 : list string := ["S"; "A"; "B"]%string.
Definition ex_names2 : list string := ["A"; "Bee"; "H"; "T"]%string.
Definition ex_renames : list (string * string) := [("S", "T"); ("B", "Bee")]%string.

Example ex_guess : guess_map ex_names1 ex_names2 ex_renames = [(0, 3); (1, 0); (2, 1)]%N.
Proof. vm_compute. reflexivity. Qed.

Example ex_helpers : nts_named ex_names2 ["H"%string] = [2%N].
Proof. vm_compute. reflexivity. Qed.

Example ex_inline : inline_nt 2 ex_g2 =
  Some (mkEg 3 [ (1%N, [[FOpt [[FT 13]]; FGroup [[FT 15]; [FT 14]]]]);
                 (3%N, [[FT 17]]);
                 (0%N, [[FT 10; FRep [[FT 12]; [FT 11]]]]);
                 (3%N, [[FGroup [[FN 0; FT 16]]; FN 1]]) ]).
Proof. vm_compute. reflexivity. Qed.

(** Not inlinable: the start symbol, a recursive non-terminal. *)
Example ex_inline_start : inline_nt 3 ex_g2 = None.
Proof. vm_compute. reflexivity. Qed.
Example ex_inline_rec : inline_nt 1 (mkEg 0 [(0%N, [[FN 1]]); (1%N, [[FT 5; FN 1]; []])]) = None.
Proof. vm_compute. reflexivity. Qed.

Example ex_flat : eprods (gflat (mkEg 3 [(3%N, [[FGroup [[FGroup [[FN 0; FT 16]]; FN 1]]; FT 9]])]))
  = [(3%N, [[FN 0; FT 16; FN 1; FT 9]])].
Proof. vm_compute. reflexivity. Qed.

Example ex_equiv : equiv_pipeline [2%N] [(0, 3); (1, 0); (2, 1)]%N ex_g1 ex_g2 = true.
Proof. vm_compute. reflexivity. Qed.

Example ex_equiv_names :
  equiv_by_names ex_names1 ex_names2 ex_renames ["H"%string] ex_g1 ex_g2 = true.
Proof. vm_compute. reflexivity. Qed.

(** Without inlining the helper, or with a wrong map, the check fails. *)
Example ex_no_inline : equiv_pipeline [] [(0, 3); (1, 0); (2, 1)]%N ex_g1 ex_g2 = false.
Proof. vm_compute. reflexivity. Qed.
Example ex_wrong_map : equiv_pipeline [2%N] [(0, 3); (1, 1); (2, 0)]%N ex_g1 ex_g2 = false.
Proof. vm_compute. reflexivity. Qed.
Example ex_not_injective : iso_check [(0, 0); (1, 0)]%N
  (mkEg 0 [(0%N, [[FT 5]]); (1%N, [[FT 5]])]) (mkEg 0 [(0%N, [[FT 5]])]) = false.
Proof. vm_compute. reflexivity. Qed.

(** A pair with different languages fails; the difference is witnessed by [a b x e]. *)
Example ex_differ : equiv_pipeline [2%N] [(0, 3); (1, 0); (2, 1)]%N ex_g1 ex_g3 = false.
Proof. vm_compute. reflexivity. Qed.
Example ex_differ_in : emember (emember_fuel ex_g1 [10; 11; 16; 14]%N) ex_g1 [10; 11; 16; 14]%N = Some true.
Proof. vm_compute. reflexivity. Qed.
Example ex_differ_out : emember (emember_fuel ex_g3 [10; 11; 16; 14]%N) ex_g3 [10; 11; 16; 14]%N = Some false.
Proof. vm_compute. reflexivity. Qed.
(** One direction still holds: [ex_g3] (helper inlined) is simulated by [ex_g1]. *)
Example ex_sim_only : exists G3', inline_nt 2 ex_g3 = Some G3' /\
  sim_check [(3, 0); (0, 1); (1, 2)]%N (gflat G3') (gflat ex_g1) = true /\
  sim_check [(0, 3); (1, 0); (2, 1)]%N (gflat ex_g1) (gflat G3') = false.
Proof. eexists. split; [vm_compute; reflexivity|]. split; vm_compute; reflexivity. Qed.

(** The theorems applied. *)
Example ex_equiv_lang : forall w, elang ex_g1 w <-> elang ex_g2 w.
Proof. apply (equiv_pipeline_sound [2%N] [(0, 3); (1, 0); (2, 1)]%N). vm_compute. reflexivity. Qed.

Example ex_iso_plain : iso_check [(0, 1); (1, 0)]%N
  (mkEg 0 [(0%N, [[FT 5; FN 1]; []]); (1%N, [[FOpt [[FN 0]; [FT 6]]]])])
  (mkEg 1 [(0%N, [[FOpt [[FT 6]; [FN 1]]]]); (1%N, [[]]); (1%N, [[FT 5; FN 0]])]) = true.
Proof. vm_compute. reflexivity. Qed.

Print Assumptions inline_nt_match.
Print Assumptions inline_nt_sound.
Print Assumptions inline_all_sound.
Print Assumptions gflat_sound.
Print Assumptions sim_check_sound.
Print Assumptions iso_check_sound.
Print Assumptions iso_check_bij.
Print Assumptions equiv_pipeline_gen_sound.
Print Assumptions equiv_pipeline_sound.
Print Assumptions equiv_by_names_sound.
