//! Build a REAL scnr2 scanner at run time from the `scanner! { … }` text parol generates:
//! the same pipeline as `scnr2_generate::generate::generate` (parse the macro input, NFAs,
//! disjoint character classes, DFAs), but instead of emitting Rust source the resulting tables are
//! turned into the `scnr2` run-time structures directly (leaked to get `'static` lifetimes).
use scnr2::{AcceptData, Dfa, DfaState, DfaTransition, Lookahead, ScannerImpl, ScannerMode, Transition};
use scnr2_generate::character_classes::CharacterClasses;
use scnr2_generate::nfa::Nfa;
use scnr2_generate::pattern::{AutomatonType, Lookahead as GLook};
use scnr2_generate::scanner_data::{ScannerData, TransitionToNumericMode};
use std::cell::RefCell;
use std::rc::Rc;

pub struct DynScanner {
    pub modes: &'static [ScannerMode],
    /// elementary intervals (start, end inclusive, class index), sorted
    pub intervals: &'static [(u32, u32, usize)],
}

fn conv_dfa(d: &scnr2_generate::dfa::Dfa, nclasses: usize) -> Dfa {
    let states: Vec<DfaState> = d
        .states
        .iter()
        .map(|st| {
            let mut tr: Vec<Option<DfaTransition>> = vec![None; nclasses];
            for t in &st.transitions {
                tr[t.elementary_interval_index.as_usize()] = Some(DfaTransition { to: t.target.as_usize() });
            }
            let acc: Vec<AcceptData> = st
                .accept_data
                .iter()
                .map(|p| AcceptData {
                    token_type: p.terminal_type.as_usize(),
                    priority: p.priority,
                    lookahead: match &p.lookahead {
                        GLook::None => Lookahead::None,
                        GLook::Positive(AutomatonType::Dfa(d2)) => Lookahead::Positive(conv_dfa(d2, nclasses)),
                        GLook::Negative(AutomatonType::Dfa(d2)) => Lookahead::Negative(conv_dfa(d2, nclasses)),
                        _ => panic!("lookahead automaton is not a DFA"),
                    },
                })
                .collect();
            DfaState { transitions: Box::leak(tr.into_boxed_slice()), accept_data: Box::leak(acc.into_boxed_slice()) }
        })
        .collect();
    Dfa { states: Box::leak(states.into_boxed_slice()) }
}

/// `macro_text` is the text between the braces of `scanner! { … }`.
pub fn build(macro_text: &str) -> Result<DynScanner, String> {
    let ts: proc_macro2::TokenStream = macro_text.parse().map_err(|e| format!("tokenize: {e}"))?;
    let r = std::panic::catch_unwind(|| -> Result<DynScanner, String> {
        let data: ScannerData = syn::parse2(ts).map_err(|e| format!("parse: {e}"))?;
        let modes = data.build_scanner_modes().map_err(|e| format!("modes: {e}"))?;
        let mut nfas: Vec<Nfa> = vec![];
        for m in &modes {
            nfas.push(Nfa::build_from_patterns(&m.patterns).map_err(|e| format!("nfa: {e}"))?);
        }
        let mut cc = CharacterClasses::new();
        for n in &nfas { n.collect_character_classes(&mut cc); }
        cc.create_disjoint_character_classes();
        for n in &mut nfas { n.convert_to_disjoint_character_classes(&cc); }
        let mut dfas = vec![];
        for n in &nfas {
            dfas.push(scnr2_generate::dfa::Dfa::try_from(n).map_err(|e| format!("dfa: {e}"))?);
        }
        let nclasses = cc.intervals.len();
        let mut intervals: Vec<(u32, u32, usize)> = cc
            .elementary_intervals
            .iter()
            .map(|iv| {
                let cls = cc.intervals.iter().position(|g| g.contains(iv)).expect("interval without class");
                (*iv.start() as u32, *iv.end() as u32, cls)
            })
            .collect();
        intervals.sort();
        let rmodes: Vec<ScannerMode> = modes
            .iter()
            .zip(dfas.iter())
            .map(|(m, d)| {
                let tr: Vec<Transition> = m
                    .transitions
                    .iter()
                    .map(|t| match t {
                        TransitionToNumericMode::SetMode(tt, nm) => Transition::SetMode(*tt, *nm),
                        TransitionToNumericMode::PushMode(tt, nm) => Transition::PushMode(*tt, *nm),
                        TransitionToNumericMode::PopMode(tt) => Transition::PopMode(*tt),
                    })
                    .collect();
                ScannerMode { name: Box::leak(m.name.clone().into_boxed_str()), transitions: Box::leak(tr.into_boxed_slice()), dfa: conv_dfa(d, nclasses) }
            })
            .collect();
        Ok(DynScanner { modes: Box::leak(rmodes.into_boxed_slice()), intervals: Box::leak(intervals.into_boxed_slice()) })
    });
    match r { Ok(x) => x, Err(_) => Err("panic while building the scanner".to_string()) }
}

impl DynScanner {
    pub fn classify(&self, c: char) -> Option<usize> {
        let x = c as u32;
        self.intervals
            .binary_search_by(|iv| if x < iv.0 { std::cmp::Ordering::Greater } else if x > iv.1 { std::cmp::Ordering::Less } else { std::cmp::Ordering::Equal })
            .ok()
            .map(|i| self.intervals[i].2)
    }

    /// All tokens the real `TokenStream` (on the real `ScannerImpl`) delivers for `input` with lookahead buffer
    /// size `k`, consuming with the schedule `sched` (true = peek the farthest lookahead before consuming).
    pub fn tokens(&'static self, input: &str, k: usize, skip: &'static [&'static [u16]], peek: &[bool]) -> Result<Vec<(u16, u32, u32, bool)>, String> {
        let imp = Rc::new(RefCell::new(ScannerImpl::new(self.modes)));
        let f = move |c: char| self.classify(c);
        run_stream(input, k, skip, peek, imp, Box::leak(Box::new(f)))
    }
}

fn run_stream<F: Fn(char) -> Option<usize> + Clone + 'static>(
    input: &str, k: usize, skip: &'static [&'static [u16]], peek: &[bool], imp: Rc<RefCell<ScannerImpl>>, f: &'static F,
) -> Result<Vec<(u16, u32, u32, bool)>, String> {
    let mut ts = parol_runtime::TokenStream::new_with_skip_tokens(input, "input", imp, f, k, skip).map_err(|e| format!("{e:?}"))?;
    let mut out = vec![];
    let mut i = 0usize;
    loop {
        for t in ts.take_skip_tokens() {
            out.push((t.token_type, t.location.start, t.location.end, true));
        }
        if peek.get(i % peek.len().max(1)).copied().unwrap_or(false) {
            let _ = ts.lookahead(ts.k - 1);
        }
        i += 1;
        let la = ts.lookahead_token_type(0).map_err(|e| format!("{e:?}"))?;
        if la == 0 {
            for t in ts.take_skip_tokens() {
                out.push((t.token_type, t.location.start, t.location.end, true));
            }
            break;
        }
        // skip tokens that precede the token to be consumed
        for t in ts.take_skip_tokens() {
            out.push((t.token_type, t.location.start, t.location.end, true));
        }
        let t = ts.consume().map_err(|e| format!("{e:?}"))?;
        out.push((t.token_type, t.location.start, t.location.end, false));
        if out.len() > 100000 { return Err("too many tokens".into()); }
    }
    Ok(out)
}
