//! C21: the tables in the GENERATED PARSER SOURCE TEXT (written by parol::build::Builder, read back with syn)
//! against the language-agnostic export model, and handed to the driver for the proved checkers
//! (tables_ok / la_dfa_check against the verified reference analysis / lr_validate).
use crate::{c03, c07, c09, c13, c20, gram::*, rng::Rng, sx, Args};
use parol::parser::parol_grammar::GrammarType;
use serde_json::{json, Value};
use std::sync::Mutex;

static LAST_PANIC: Mutex<String> = Mutex::new(String::new());

/// A Rust constant expression as JSON: struct literals become objects (with "_" = type name), calls
/// `Name(a, b)` become {"_": "Name", "args": [...]}, paths become their last segment.
fn conv(e: &syn::Expr) -> Value {
    use syn::Expr::*;
    match e {
        Reference(r) => conv(&r.expr),
        Paren(p) => conv(&p.expr),
        Group(g) => conv(&g.expr),
        Array(a) => Value::Array(a.elems.iter().map(conv).collect()),
        Tuple(t) => Value::Array(t.elems.iter().map(conv).collect()),
        Struct(s) => {
            let mut m = serde_json::Map::new();
            m.insert("_".into(), json!(s.path.segments.last().map(|x| x.ident.to_string()).unwrap_or_default()));
            for f in &s.fields {
                if let syn::Member::Named(id) = &f.member { m.insert(id.to_string(), conv(&f.expr)); }
            }
            Value::Object(m)
        }
        Call(c) => {
            let name = if let Path(p) = &*c.func { p.path.segments.last().map(|x| x.ident.to_string()).unwrap_or_default() } else { "?".into() };
            json!({"_": name, "args": c.args.iter().map(conv).collect::<Vec<_>>()})
        }
        Path(p) => json!(p.path.segments.last().map(|x| x.ident.to_string()).unwrap_or_default()),
        Lit(l) => match &l.lit {
            syn::Lit::Int(i) => json!(i.base10_parse::<i64>().unwrap_or(i64::MIN)),
            syn::Lit::Bool(b) => json!(b.value),
            syn::Lit::Str(s) => json!(s.value()),
            _ => json!("?lit"),
        },
        Unary(u) => match (&u.op, conv(&u.expr)) {
            (syn::UnOp::Neg(_), Value::Number(n)) => json!(-n.as_i64().unwrap_or(0)),
            (_, v) => v,
        },
        _ => json!("?expr"),
    }
}

pub struct Source {
    pub consts: std::collections::BTreeMap<String, Value>,
    pub scanner_macro: Option<String>,
    pub start: Option<i64>,
    pub is_lr: bool,
}

pub fn read_source(src: &str) -> Result<Source, String> {
    let file = syn::parse_file(src).map_err(|e| format!("syn: {e}"))?;
    let mut consts = std::collections::BTreeMap::new();
    let mut scanner_macro = None;
    for it in &file.items {
        match it {
            syn::Item::Const(c) => { consts.insert(c.ident.to_string(), conv(&c.expr)); }
            syn::Item::Static(s) => { consts.insert(s.ident.to_string(), conv(&s.expr)); }
            syn::Item::Macro(m) if m.mac.path.is_ident("scanner") => { scanner_macro = Some(m.mac.tokens.to_string()); }
            _ => {}
        }
    }
    // the start symbol index is the first argument of LLKParser::new / LRParser::new
    let mut start = None;
    let mut is_lr = false;
    for pat in ["LLKParser::new(", "LRParser::new("] {
        if let Some(i) = src.find(pat) {
            let rest = &src[i + pat.len()..];
            let num: String = rest.chars().skip_while(|c| c.is_whitespace()).take_while(|c| c.is_ascii_digit()).collect();
            start = num.parse::<i64>().ok();
            is_lr = pat.starts_with("LRParser");
        }
    }
    Ok(Source { consts, scanner_macro, start, is_lr })
}

fn arr(v: &Value) -> &[Value] { v.as_array().map(|a| a.as_slice()).unwrap_or(&[]) }

/// Field-by-field comparison of the source tables with the export model; returns the differences.
fn compare(s: &Source, e: &Value) -> Vec<String> {
    let mut d: Vec<String> = vec![];
    let get = |n: &str| s.consts.get(n).cloned().unwrap_or(Value::Null);
    // names
    let nts: Vec<Value> = arr(&get("NON_TERMINALS")).to_vec();
    if Value::Array(nts.clone()) != e["non_terminal_names"] { d.push("non-terminal-names".into()); }
    if s.start != e["start_symbol_index"].as_i64() { d.push("start-symbol-index".into()); }
    let tnames = arr(&get("TERMINAL_NAMES")).len();
    // productions
    let sp = get("PRODUCTIONS");
    let ep = arr(&e["productions"]);
    let dt = arr(&e["production_datatypes"]);
    if arr(&sp).len() != ep.len() { d.push("production-count".into()); }
    for (i, (a, b)) in arr(&sp).iter().zip(ep.iter()).enumerate() {
        if a["lhs"] != b["lhs_index"] { d.push(format!("production-lhs:{i}")); }
        if b["production_index"].as_u64() != Some(i as u64) { d.push(format!("production-index:{i}")); }
        let rhs: Vec<(bool, i64)> = arr(&b["rhs"]).iter().map(|y| if let Some(n) = y.get("NonTerminal") { (false, n.as_i64().unwrap_or(-1)) } else { (true, y["Terminal"]["index"].as_i64().unwrap_or(-1)) }).collect();
        if s.is_lr {
            if a["len"].as_u64() != Some(rhs.len() as u64) { d.push(format!("production-len:{i}")); }
        } else {
            let src_rev: Vec<(bool, i64)> = arr(&a["production"]).iter().map(|y| (y["_"] == "T", y["args"][0].as_i64().unwrap_or(-2))).collect();
            let mut fwd = src_rev.clone(); fwd.reverse();
            if fwd != rhs { d.push(format!("production-rhs:{i}")); }
        }
        // push semantics: the export model carries it as the production's datatype attribute
        if let Some(t) = dt.iter().find(|t| t["production_index"].as_u64() == Some(i as u64)) {
            let push = t["production_attribute"] == "AddToCollection";
            if a["is_push_production"].as_bool() != Some(push) { d.push(format!("is-push-production:{i}")); }
        }
        for (t, n) in &rhs {
            if *t && (*n < 0 || *n as usize >= tnames) { d.push(format!("terminal-index-out-of-range:{i}")); }
            if !*t && (*n < 0 || *n as usize >= nts.len()) { d.push(format!("non-terminal-index-out-of-range:{i}")); }
        }
    }
    if !s.is_lr {
        let sa = get("LOOKAHEAD_AUTOMATA");
        let ea = arr(&e["lookahead_automata"]);
        if arr(&sa).len() != ea.len() || ea.len() != nts.len() { d.push("automaton-count".into()); }
        for b in ea {
            let i = b["non_terminal_index"].as_u64().unwrap_or(u64::MAX) as usize;
            let Some(a) = arr(&sa).get(i) else { d.push(format!("automaton-missing:{i}")); continue; };
            if nts.get(i) != Some(&b["non_terminal_name"]) { d.push(format!("automaton-name:{i}")); }
            if a["prod0"] != b["prod0"] || a["k"] != b["k"] { d.push(format!("automaton-head:{i}")); }
            let st: Vec<Vec<i64>> = arr(&a["transitions"]).iter().map(|t| arr(&t["args"]).iter().map(|x| x.as_i64().unwrap_or(i64::MIN)).collect()).collect();
            let et: Vec<Vec<i64>> = arr(&b["transitions"]).iter().map(|t| vec![t["from_state"].as_i64().unwrap_or(-9), t["term"].as_i64().unwrap_or(-9), t["to_state"].as_i64().unwrap_or(-9), t["prod_num"].as_i64().unwrap_or(-9)]).collect();
            if st != et { d.push(format!("automaton-transitions:{i}")); }
        }
        let maxk = ea.iter().map(|a| a["k"].as_i64().unwrap_or(0)).max().unwrap_or(0);
        if get("MAX_K").as_i64() != Some(maxk) { d.push("max-k".into()); }
    } else {
        let st = get("PARSE_TABLE");
        let et = &e["lalr_parse_table"];
        let sa: Vec<String> = arr(&st["actions"]).iter().map(|a| match a {
            Value::String(s) => s.clone(),
            o => format!("{} {}", o["_"].as_str().unwrap_or("?"), arr(&o["args"]).iter().map(|x| x.to_string()).collect::<Vec<_>>().join(" ")),
        }).collect();
        let ea: Vec<String> = arr(&et["actions"]).iter().map(|a| {
            if let Some(s) = a.as_str() { s.to_string() }
            else if let Some(x) = a.get("Shift") { format!("Shift {}", x) }
            else if let Some(x) = a.get("Reduce") {
                if x.is_array() { format!("Reduce {} {}", x[0], x[1]) }
                else { format!("Reduce {} {}", x.get("non_terminal_index").unwrap_or(&Value::Null), x.get("production_index").unwrap_or(&Value::Null)) }
            } else { a.to_string() }
        }).collect();
        if sa != ea { d.push(format!("lr-actions ({:?} vs {:?})", sa.iter().take(4).collect::<Vec<_>>(), ea.iter().take(4).collect::<Vec<_>>())); }
        let ss = arr(&st["states"]);
        let es = arr(&et["states"]);
        if ss.len() != es.len() { d.push("lr-state-count".into()); }
        for (i, (a, b)) in ss.iter().zip(es.iter()).enumerate() {
            if a["actions"] != b["actions"] { d.push(format!("lr-state-actions:{i}")); }
            if a["gotos"] != b["gotos"] { d.push(format!("lr-state-gotos:{i}")); }
        }
        if get("MAX_K").as_i64().map(|k| k != 1).unwrap_or(false) { d.push("max-k".into()); }
    }
    // scanner: modes, tokens, transitions, skip lists
    let skips = get("SKIP_TOKENS_BY_SCANNER_STATE");
    let emodes = arr(&e["scanner"]["scanner_states"]);
    if arr(&skips).len() != emodes.len() { d.push("skip-list-count".into()); }
    for (i, m) in emodes.iter().enumerate() {
        if arr(&skips).get(i) != Some(&m["skip_tokens"]) { d.push(format!("skip-list:{i}")); }
    }
    match &s.scanner_macro {
        None => d.push("no-scanner-macro".into()),
        Some(body) => {
            // `scanner! { Name { mode .. } }`: the macro tokens, parsed by scnr2's own front end
            let parsed = std::panic::catch_unwind(|| -> Result<Vec<scnr2_generate::scanner_mode::ScannerMode>, String> {
                let ts: proc_macro2::TokenStream = body.parse().map_err(|e| format!("{e}"))?;
                let data: scnr2_generate::scanner_data::ScannerData = syn::parse2(ts).map_err(|e| format!("{e}"))?;
                data.build_scanner_modes().map_err(|e| format!("{e}"))
            });
            match parsed {
                Ok(Ok(modes)) => {
                    if modes.len() != emodes.len() { d.push("scanner-mode-count".into()); }
                    let eterms = arr(&e["scanner"]["terminals"]);
                    for (i, (sm, em)) in modes.iter().zip(emodes.iter()).enumerate() {
                        if em["scanner_name"] != sm.name.as_str() { d.push(format!("scanner-mode-name:{i}")); }
                        // user terminals of this mode: (index, expanded pattern, lookahead sign)
                        let mut want: Vec<(u64, String, i8)> = eterms.iter().filter(|t| arr(&t["scanner_states"]).iter().any(|x| x.as_u64() == Some(i as u64)))
                            .map(|t| (t["index"].as_u64().unwrap_or(0), t["expanded_pattern"].as_str().unwrap_or("").to_string(),
                                      if t["lookahead"].is_null() { 0 } else if t["lookahead"]["is_positive"] == true { 1 } else { -1 })).collect();
                        want.sort();
                        let mut have: Vec<(u64, String, i8)> = sm.patterns.iter().filter(|p| p.terminal_type.as_usize() >= 5 && p.terminal_type.as_usize() + 1 != tnames || false)
                            .filter(|p| p.terminal_type.as_usize() >= 5)
                            .map(|p| (p.terminal_type.as_usize() as u64, p.pattern.clone(), match p.lookahead { scnr2_generate::pattern::Lookahead::None => 0, scnr2_generate::pattern::Lookahead::Positive(_) => 1, scnr2_generate::pattern::Lookahead::Negative(_) => -1 })).collect();
                        // the trailing catch-all error token is not a grammar terminal
                        have.retain(|(ix, _, _)| (*ix as usize) + 1 != tnames);
                        have.sort();
                        if want != have { d.push(format!("scanner-tokens:{i} (export {:?} vs source {:?})", want.iter().take(3).collect::<Vec<_>>(), have.iter().take(3).collect::<Vec<_>>())); }
                        let builtin = |t: usize| sm.patterns.iter().any(|p| p.terminal_type.as_usize() == t);
                        if builtin(1) != (em["auto_newline"] == true) { d.push(format!("scanner-auto-newline:{i}")); }
                        if builtin(2) != (em["auto_ws"] == true) { d.push(format!("scanner-auto-ws:{i}")); }
                        if builtin(3) != !arr(&em["line_comments"]).is_empty() { d.push(format!("scanner-line-comments:{i}")); }
                        if builtin(4) != !arr(&em["block_comments"]).is_empty() { d.push(format!("scanner-block-comments:{i}")); }
                        if builtin(tnames - 1) == (em["allow_unmatched"] == true) { d.push(format!("scanner-error-token-vs-allow-unmatched:{i}")); }
                        use scnr2_generate::scanner_data::TransitionToNumericMode as T;
                        let mut st: Vec<(u64, String, Option<u64>)> = sm.transitions.iter().map(|t| match t {
                            T::SetMode(a, b) => (*a as u64, "Enter".to_string(), Some(*b as u64)),
                            T::PushMode(a, b) => (*a as u64, "Push".to_string(), Some(*b as u64)),
                            T::PopMode(a) => (*a as u64, "Pop".to_string(), None),
                        }).collect();
                        st.sort();
                        let mut et: Vec<(u64, String, Option<u64>)> = arr(&em["transitions"]).iter().map(|t| (t["terminal_index"].as_u64().unwrap_or(0), t["kind"].as_str().unwrap_or("?").to_string(), t["target_scanner_state"].as_u64())).collect();
                        et.sort();
                        if st != et { d.push(format!("scanner-transitions:{i}")); }
                    }
                }
                Ok(Err(e)) => d.push(format!("scanner-macro-unreadable {e}")),
                Err(_) => d.push("scanner-macro-panic".into()),
            }
        }
    }
    d
}

fn ll_tables_sx(s: &Source) -> (String, String) {
    let get = |n: &str| s.consts.get(n).cloned().unwrap_or(Value::Null);
    let prods: Vec<String> = arr(&get("PRODUCTIONS")).iter().map(|p| format!("({} ({}) {})", p["lhs"],
        arr(&p["production"]).iter().map(|y| { let n = y["args"][0].as_i64().unwrap_or(0); if y["_"] == "T" { n.to_string() } else { format!("-{}", n + 1) } }).collect::<Vec<_>>().join(" "),
        (p["is_push_production"] == true) as u8)).collect();
    let tr = |a: &Value| arr(&a["transitions"]).iter().map(|t| format!("({})", arr(&t["args"]).iter().map(|x| x.to_string()).collect::<Vec<_>>().join(" "))).collect::<Vec<_>>().join(" ");
    let autos: Vec<String> = arr(&get("LOOKAHEAD_AUTOMATA")).iter().map(|a| format!("({} {} ({}))", a["prod0"], a["k"], tr(a))).collect();
    let autos_la: Vec<String> = arr(&get("LOOKAHEAD_AUTOMATA")).iter().enumerate().map(|(i, a)| format!("({} {} {} ({}))", i, a["prod0"], a["k"], tr(a))).collect();
    let k = get("MAX_K").as_i64().unwrap_or(0);
    (format!("(({}) ({}) {} {} {} {})", prods.join(" "), autos.join(" "), s.start.unwrap_or(-1), k, arr(&get("TERMINAL_NAMES")).len(), arr(&get("NON_TERMINALS")).len()),
     format!("({})", autos_la.join(" ")))
}

fn lr_table_sx(s: &Source) -> String {
    let get = |n: &str| s.consts.get(n).cloned().unwrap_or(Value::Null);
    let t = get("PARSE_TABLE");
    let acts: Vec<String> = arr(&t["actions"]).iter().map(|a| match a {
        Value::String(_) => "(a)".to_string(),
        o if o["_"] == "Shift" => format!("(s {})", o["args"][0]),
        o => format!("(r {} {})", o["args"][0], o["args"][1]),
    }).collect();
    let pairs = |v: &Value| arr(v).iter().map(|p| format!("({} {})", p[0], p[1])).collect::<Vec<_>>().join(" ");
    let states: Vec<String> = arr(&t["states"]).iter().map(|st| format!("(({}) ({}))", pairs(&st["actions"]), pairs(&st["gotos"]))).collect();
    let prods: Vec<String> = arr(&get("PRODUCTIONS")).iter().map(|p| format!("({} {})", p["lhs"], p["len"])).collect();
    format!("(({}) ({}) ({}) {} {} {})", acts.join(" "), states.join(" "), prods.join(" "), s.start.unwrap_or(-1), arr(&get("TERMINAL_NAMES")).len(), arr(&get("NON_TERMINALS")).len())
}

fn one(text: &str, kind: &str, k: usize, dir: &std::path::Path) -> String {
    let par = dir.join("g.par");
    let _ = std::fs::remove_file(dir.join("parser.rs"));
    std::fs::write(&par, text).unwrap();
    *LAST_PANIC.lock().unwrap() = String::new();
    let head = format!("(enc {} {} {}", kind, k, sx::s(text));
    let r = std::panic::catch_unwind(|| -> Result<String, String> {
        let mut b = parol::build::Builder::with_explicit_output_dir(dir);
        b.grammar_file(&par).parser_output_file("parser.rs").actions_output_file("trait.rs").expanded_grammar_output_file("exp.par")
            .user_type_name("Gr").user_trait_module_name("gr");
        b.max_lookahead(k).map_err(|_| "config".to_string())?;
        b.generate_parser().map_err(|_| "rejected".to_string())?;
        let src = std::fs::read_to_string(dir.join("parser.rs")).map_err(|_| "no-parser-file".to_string())?;
        let s = read_source(&src)?;
        // the export model of the same grammar as a user obtains it: `parol export -f g.par -k K -o model.json`
        let bin = std::env::var("PAROL_BIN").unwrap_or_else(|_| "/verif/target/ls/debug/parol".to_string());
        let out = dir.join("model.json");
        let _ = std::fs::remove_file(&out);
        let st = std::process::Command::new(&bin).args(["export", "-f"]).arg(&par).args(["-k", &k.to_string(), "-o"]).arg(&out)
            .stdout(std::process::Stdio::null()).stderr(std::process::Stdio::null()).status().map_err(|e| format!("cannot-run-parol-binary {e}"))?;
        if !st.success() { return Err("export-tool-failed".to_string()); }
        let ev: Value = serde_json::from_str(&std::fs::read_to_string(&out).map_err(|_| "no-export-file".to_string())?).map_err(|e| format!("export-json {e}"))?;
        // the transformed grammar the generator worked on (for the reference analysis in the driver)
        let gc = {
            let mut gc = parol::obtain_grammar_config(&par, false).map_err(|_| "rejected-by-obtain".to_string())?;
            let ign: std::collections::BTreeSet<String> = gc.unreachable_non_terminals_to_ignore.iter().cloned().collect();
            let cfg = parol::generators::grammar_trans::check_and_transform_grammar_with_ignored(&gc.cfg, gc.grammar_type, &ign).map_err(|_| "rejected-by-checks".to_string())?;
            gc.update_cfg(cfg);
            gc
        };
        let diffs = compare(&s, &ev);
        let lr_by_cfg = gc.grammar_type == GrammarType::LALR1;
        let mut diffs = diffs;
        if lr_by_cfg != s.is_lr { diffs.push("parser-kind".into()); }
        let algo = ev["algorithm"].as_str().unwrap_or("").to_lowercase();
        if (algo.contains("lalr")) != s.is_lr { diffs.push("export-algorithm".into()); }
        let _ = G::from_cfg(&gc.cfg, false);
        // the grammar in the numbering of the PRODUCTION TABLE: for LL(k) read from the generated source itself, for
        // LALR(1) (whose source table only has lengths) from the export model, which was compared with it above
        let g2_sx = if s.is_lr {
            let prods: Vec<String> = arr(&ev["productions"]).iter().map(|p| format!("({} {})", p["lhs_index"],
                arr(&p["rhs"]).iter().map(|y| if let Some(n) = y.get("NonTerminal") { format!("-{}", n.as_u64().unwrap_or(0) + 1) } else { y["Terminal"]["index"].to_string() }).collect::<Vec<_>>().join(" "))).collect();
            format!("({} {})", s.start.unwrap_or(0), prods.join(" "))
        } else {
            let sp = s.consts.get("PRODUCTIONS").cloned().unwrap_or(Value::Null);
            let prods: Vec<String> = arr(&sp).iter().map(|p| format!("({} {})", p["lhs"],
                arr(&p["production"]).iter().rev().map(|y| { let n = y["args"][0].as_i64().unwrap_or(0); if y["_"] == "T" { n.to_string() } else { format!("-{}", n + 1) } }).collect::<Vec<_>>().join(" "))).collect();
            format!("({} {})", s.start.unwrap_or(0), prods.join(" "))
        };
        let dsx = format!("({})", diffs.iter().map(|x| sx::s(x)).collect::<Vec<_>>().join(" "));
        if s.is_lr {
            Ok(format!("(lr {} {} {})", dsx, g2_sx, lr_table_sx(&s)))
        } else {
            let (tb, autos) = ll_tables_sx(&s);
            Ok(format!("(ll {} {} {} {})", dsx, g2_sx, tb, autos))
        }
    });
    match r {
        Ok(Ok(s)) => format!("{} {})", head, s),
        Ok(Err(why)) => format!("{} ({}))", head, why.split(' ').next().unwrap_or("err")),
        Err(_) => format!("{} (panic {}))", head, sx::s(&LAST_PANIC.lock().unwrap())),
    }
}

pub fn run(a: &Args) {
    std::panic::set_hook(Box::new(|info| {
        if let Some(l) = info.location() {
            let f = l.file();
            let short = f.rsplit('/').take(3).collect::<Vec<_>>().into_iter().rev().collect::<Vec<_>>().join("/");
            *LAST_PANIC.lock().unwrap() = format!("{}:{}", short, l.line());
        }
    }));
    let mut rng = Rng::new(a.seed ^ ((a.shard as u64) << 32) ^ 0xC21);
    let dir = std::path::PathBuf::from(format!("/verif/work/C21/tmp-{}", a.shard));
    let _ = std::fs::create_dir_all(&dir);
    // repository grammars: shard i takes every nshards-th file
    let corpus: Vec<&String> = a.rest.iter().filter(|p| p.ends_with(".par")).collect();
    for (i, p) in corpus.iter().enumerate() {
        if i % a.nshards != a.shard { continue; }
        if let Ok(t) = std::fs::read_to_string(p) {
            if t.len() < 12000 && (a.thorough || t.len() < 5000) { println!("{}", one(&t, "corpus", 3, &dir)); }
        }
    }
    for i in 0..a.n {
        let k = [1usize, 2, 3][rng.below(3)];
        match i % 7 {
            6 => { let t = crate::c18::random_par(&mut rng); println!("{}", one(&t, "mixed-quoting", k, &dir)); }
            0 => { let g = c09::random_ebnf(&mut rng, false); println!("{}", one(&g.par(false), "ebnf-ll", k.min(2), &dir)); }
            1 => { let g = c09::random_ebnf(&mut rng, false); println!("{}", one(&g.par(true), "ebnf-lr", 1, &dir)); }
            2 => { let g = c20::ll_ebnf(&mut rng); println!("{}", one(&g.par(false), "ebnf-ll1", k, &dir)); }
            3 => { let g = c07::ll_grammar(&mut rng, i / 6); println!("{}", one(&g.to_par(false), "bnf-ll", 4, &dir)); }
            4 => { let g = c03::lr_grammar(&mut rng, false); println!("{}", one(&g.to_par(true), "bnf-lr", 1, &dir)); }
            _ => {
                let mut t = c13::random_par(&mut rng);
                if rng.chance(1, 2) { t = t.replacen("%start S\n", "%start S\n%grammar_type 'lalr(1)'\n", 1); }
                println!("{}", one(&t, "scanner-modes", k, &dir));
            }
        }
    }
    let _ = std::fs::remove_dir_all(&dir);
}
