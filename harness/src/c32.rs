//! C32: random operation sequences on the real packed `Terminals` through its public API.
//! Four registers hold values; every step prints the raw 128-bit value it produced (decimal) or
//! the observation it made. `panic` ends a sequence.
use crate::{rng::Rng, sx, Args};
use parol::analysis::compiled_terminal::CompiledTerminal;
use parol::analysis::k_tuple::Terminals;
use std::panic::{catch_unwind, AssertUnwindSafe};

fn raw(t: &Terminals) -> String {
    t.verif_raw().to_string()
}

fn term(rng: &mut Rng, m: usize) -> u16 {
    match rng.below(12) {
        0 => 0,                // EOI
        1 => m as u16,         // the largest index
        _ => rng.below(m + 1) as u16,
    }
}

pub fn sequence(rng: &mut Rng, m: usize, nsteps: usize) -> String {
    let mut steps: Vec<String> = vec![];
    let mut regs: Vec<Terminals> = vec![];
    // all registers start as fresh values (new / eps / end)
    for d in 0..4 {
        let r = catch_unwind(|| match d {
            1 => Terminals::eps(m),
            2 => Terminals::end(m),
            _ => Terminals::new(m),
        });
        match r {
            Ok(t) => {
                steps.push(format!("({} {} {})", ["new", "eps", "end", "new"][d], d, raw(&t)));
                regs.push(t);
            }
            Err(_) => {
                steps.push("(panic)".to_string());
                return format!("(ktseq {} {})", m, sx::list(steps));
            }
        }
    }
    for _ in 0..nsteps {
        let d = rng.below(4);
        let s = rng.below(4);
        let k = rng.range(0, 10);
        let step = catch_unwind(AssertUnwindSafe(|| match rng.below(12) {
            0 => {
                let t = term(rng, m);
                let mut v = regs[d];
                let ok = v.push(CompiledTerminal(t)).is_ok();
                (Some((d, v)), format!("(push {} {} {} {})", d, t, if ok { "ok" } else { "err" }, raw(&v)))
            }
            1 => {
                let n = rng.below(4);
                let ts: Vec<u16> = (0..n).map(|_| term(rng, m)).collect();
                let mut v = regs[d];
                v.extend(ts.iter().cloned());
                (Some((d, v)), format!("(extend {} {} {})", d, sx::nums(&ts), raw(&v)))
            }
            2 | 3 | 4 => {
                let v = regs[d].k_concat(&regs[s], k);
                (Some((d, v)), format!("(kconcat {} {} {} {})", d, s, k, raw(&v)))
            }
            5 => {
                let v = Terminals::of(k, regs[s]);
                (Some((d, v)), format!("(of {} {} {} {})", d, s, k, raw(&v)))
            }
            6 => {
                let mut v = regs[d];
                v.clear();
                (Some((d, v)), format!("(clear {} {})", d, raw(&v)))
            }
            7 => {
                let v = match rng.below(3) { 0 => Terminals::eps(m), 1 => Terminals::end(m), _ => Terminals::new(m) };
                (Some((d, v)), format!("(set {} {})", d, raw(&v)))
            }
            8 | 9 => {
                let v = &regs[d];
                let it: Vec<u16> = v.iter().collect();
                let i = rng.below(11);
                let g = v.get(i).map(|c| c.0.to_string()).unwrap_or_else(|| "none".into());
                (
                    None,
                    format!(
                        "(obs {} {} {} {} {} {} {} {} {} {})",
                        d, v.len(), k, v.k_len(k), v.is_eps() as u8, v.is_k_complete(k) as u8, v.is_empty() as u8,
                        sx::nums(&it), i, g
                    ),
                )
            }
            _ => {
                let c = regs[d].cmp(&regs[s]);
                let e = regs[d] == regs[s];
                (None, format!("(cmp {} {} {} {})", d, s, match c { std::cmp::Ordering::Less => "lt", std::cmp::Ordering::Equal => "eq", _ => "gt" }, e as u8))
            }
        }));
        match step {
            Ok((upd, line)) => {
                if let Some((d, v)) = upd {
                    regs[d] = v;
                }
                steps.push(line);
            }
            Err(_) => {
                steps.push("(panic)".to_string());
                break;
            }
        }
    }
    format!("(ktseq {} {})", m, sx::list(steps))
}

pub fn run(a: &Args) {
    let mut rng = Rng::new(a.seed ^ ((a.shard as u64) << 32) ^ 0xC32);
    // boundary alphabets: 1, 2, 2^b - 2, 2^b - 1 for b = 1..12, plus the limit
    let mut ms: Vec<usize> = vec![1, 2, 3, 5, 6, 100, 4094];
    for b in 1..=12u32 {
        let p = 1usize << b;
        ms.push(p.saturating_sub(2).max(1));
        ms.push(p - 1);
        ms.push(p.min(4094));
    }
    ms.sort();
    ms.dedup();
    ms.retain(|m| *m <= 4094);
    for i in 0..a.n {
        let m = ms[(i + a.shard) % ms.len()];
        let n = rng.range(4, 24);
        println!("{}", sequence(&mut rng, m, n));
    }
    if a.shard == 0 {
        // beyond the limit: Terminals::new panics (finding D12)
        println!("{}", sequence(&mut rng, 4095, 2));
    }
}
