//! C08: real `LookaheadDFA::eval` on (automaton, token buffer) pairs.
use crate::{alpha, rng::Rng, sx, Args};
use parol_runtime::{LookaheadDFA, ParolError, ParserError, Trans};

pub struct Dfa {
    pub prod0: i32,
    pub trans: Vec<(usize, u16, usize, i32)>,
    pub k: usize,
}

/// Build a trie automaton from (string, production) pairs. Strings are over terminal indices,
/// 0 (EOI) only last. Later pairs overwrite earlier ones on the same string.
pub fn trie(pairs: &[(Vec<u16>, i32)]) -> Dfa {
    use std::collections::BTreeMap;
    let mut next: Vec<BTreeMap<u16, usize>> = vec![BTreeMap::new()];
    let mut prod: Vec<i32> = vec![-1];
    let mut k = 0;
    for (s, p) in pairs {
        let mut st = 0usize;
        for c in s {
            st = match next[st].get(c) {
                Some(n) => *n,
                None => {
                    next.push(BTreeMap::new());
                    prod.push(-1);
                    let n = next.len() - 1;
                    next[st].insert(*c, n);
                    n
                }
            };
        }
        prod[st] = *p;
        k = k.max(s.len());
    }
    let mut trans = vec![];
    for (st, m) in next.iter().enumerate() {
        for (c, to) in m {
            trans.push((st, *c, *to, prod[*to]));
        }
    }
    Dfa { prod0: prod[0], trans, k }
}

pub fn show_dfa(d: &Dfa) -> String {
    format!(
        "({} {} {})",
        d.prod0,
        d.k,
        sx::list(d.trans.iter().map(|t| format!("({} {} {} {})", t.0, t.1, t.2, t.3)))
    )
}

pub fn leak_dfa(d: &Dfa) -> LookaheadDFA {
    let tr: Vec<Trans> = d.trans.iter().map(|t| Trans(t.0, t.1, t.2, t.3)).collect();
    LookaheadDFA::new(d.prod0, Box::leak(tr.into_boxed_slice()), d.k)
}

fn random_strings(rng: &mut Rng, nterm: usize, prefix_free: bool) -> Vec<(Vec<u16>, i32)> {
    let nprod = rng.range(1, 4);
    let maxlen = rng.range(1, 4);
    let nstr = rng.range(1, 8);
    let mut out: Vec<(Vec<u16>, i32)> = vec![];
    for _ in 0..nstr {
        let len = rng.range(1, maxlen);
        let mut s: Vec<u16> = vec![];
        for i in 0..len {
            if i + 1 == len && rng.chance(1, 4) {
                s.push(0); // EOI ends a string
            } else {
                s.push(5 + rng.below(nterm) as u16);
            }
        }
        if prefix_free && out.iter().any(|(o, _)| o.starts_with(&s) || s.starts_with(o)) {
            continue;
        }
        out.push((s, rng.below(nprod) as i32));
    }
    if out.is_empty() {
        out.push((vec![5], 0));
    }
    out
}

pub fn eval_case(d: &Dfa, types: &[u16], extra_k: usize) -> String {
    let ldfa = leak_dfa(d);
    let text = alpha::render(types);
    let sk = d.k.max(1) + extra_k;
    let r = std::panic::catch_unwind(|| {
        let mut ts = alpha::stream(&text, sk, &[]);
        // the buffer as the token stream presents it
        let mut buf = vec![];
        for i in 0..sk {
            match ts.lookahead_token_type(i) {
                Ok(t) => buf.push(t),
                Err(_) => break,
            }
        }
        let res = ldfa.eval(&mut ts, 0);
        (buf, res)
    });
    match r {
        Err(_) => format!("(eval {} {} panic)", show_dfa(d), sx::nums(types)),
        Ok((buf, res)) => {
            let rs = match res {
                Ok(p) => format!("(ok {})", p as i64),
                Err(ParolError::ParserError(ParserError::PredictionError { .. })) => "prederr".to_string(),
                Err(e) => format!("(err {})", sx::s(&format!("{e:?}").chars().take(60).collect::<String>())),
            };
            format!("(eval {} {} {})", show_dfa(d), sx::nums(&buf), rs)
        }
    }
}

pub fn run(a: &Args) {
    let mut rng = Rng::new(a.seed ^ ((a.shard as u64) << 32) ^ 0xC08);
    // corpus first: the D2 witness
    if a.shard == 0 {
        let d = trie(&[(vec![5, 0], 1), (vec![5, 6, 7], 2)]);
        println!("{}", eval_case(&d, &[5, 28], 0));
        println!("{}", eval_case(&d, &[5, 28, 7], 0));
    }
    for _ in 0..a.n {
        let nterm = rng.range(1, 5);
        let prefix_free = !rng.chance(1, 5);
        let strs = random_strings(&mut rng, nterm, prefix_free);
        let d = trie(&strs);
        // buffers: a lookahead string, a mutated one, or random
        for _ in 0..3 {
            let mut types: Vec<u16> = match rng.below(3) {
                0 => rng.pick(&strs).0.clone(),
                1 => {
                    let mut s = rng.pick(&strs).0.clone();
                    if !s.is_empty() {
                        let i = rng.below(s.len());
                        match rng.below(3) {
                            0 => s[i] = 5 + rng.below(nterm + 1) as u16,
                            1 => {
                                s.remove(i);
                            }
                            _ => s.insert(i, 5 + rng.below(nterm + 1) as u16),
                        }
                    }
                    s
                }
                _ => (0..rng.below(5)).map(|_| 5 + rng.below(nterm + 1) as u16).collect(),
            };
            // EOI cannot be rendered: cut there (the stream pads with EOI itself)
            if let Some(p) = types.iter().position(|t| *t == 0) {
                types.truncate(p);
            }
            let extra = if rng.chance(1, 4) { rng.range(1, 2) } else { 0 };
            println!("{}", eval_case(&d, &types, extra));
        }
    }
}
