//! C20: the full option matrix (disable_recovery x trim_parse_tree x set_max_parsing_depth) of the real LLKParser
//! and (trim x depth) of the real LRParser, on real generated tables.
use crate::{alpha, c01, c03, c07, gram::*, rng::Rng, rt, Args};
use parol_runtime::LRParser;

const DEPTHS: [usize; 12] = [0, 1, 2, 3, 4, 5, 6, 8, 10, 13, 20, 3000];

fn lr_run_input(b: &c03::Built, types: &[u16], text: &str, trim: bool, depth: Option<usize>) -> String {
    let (start, table, prods, names) = b.parser_parts;
    let r = std::panic::catch_unwind(|| {
        let mut parser = LRParser::new(start, table, prods, rt::terminal_names(), names);
        if trim { parser.trim_parse_tree(); }
        if let Some(d) = depth { parser.set_max_parsing_depth(d); }
        let mut rec = rt::Recorder::new(names);
        let mut acts = rt::Actions::default();
        let ts = alpha::stream(text, 1, &[]);
        let res = parser.parse_into(&mut rec, ts, &mut acts);
        (res.map_err(|e| rt::err_kind(&e)), rec.sx(), acts.sx())
    });
    let opts = format!("{} {}", trim as u8, depth.map(|d| d.to_string()).unwrap_or_else(|| "none".into()));
    match r {
        Err(_) => format!("({} {} panic)", crate::sx::nums(types), opts),
        Ok((Ok(()), ev, ac)) => format!("({} {} ok {} {})", crate::sx::nums(types), opts, ac, ev),
        Ok((Err(k), _, ac)) => format!("({} {} (err {}) {})", crate::sx::nums(types), opts, k, if k == "(budget)" { "()".to_string() } else { ac }),
    }
}

pub fn run(a: &Args) {
    let mut rng = Rng::new(a.seed ^ ((a.shard as u64) << 32) ^ 0xC20);
    for i in 0..a.n {
        if i % 4 == 2 {
            // EBNF grammar with repetitions: the canonical grammar has push productions (AddToCollection), which
            // production_depth does not count
            let eg = ll_ebnf(&mut rng);
            let text = eg.par(false);
            let built = std::panic::catch_unwind(|| -> Result<c07::LlBuilt, String> {
                let gc = parol::obtain_grammar_config_from_string(&text, false).map_err(|_| "rejected-by-checks".to_string())?;
                if gc.cfg.pr.len() > 40 { return Err("too-large".to_string()); }
                c07::build_ll_transformed(&gc.cfg, 2)
            }).unwrap_or_else(|_| Err("panic".to_string()));
            match built {
                Err(why) => println!("(ll {} 3 ({}))", eg.sx(), why.split(' ').next().unwrap()),
                Ok(b) => {
                    let p = c01::parts(&b);
                    let g2 = &b.g2;
                    let mut terms: Vec<u16> = g2.prods.iter().flat_map(|(_, r)| r.iter()).filter_map(|y| if let Sy::T(t) = y { Some(*t) } else { None }).collect();
                    terms.sort(); terms.dedup();
                    let nterm = terms.len().max(1);
                    let mut ins: Vec<Vec<u16>> = vec![vec![]];
                    for _ in 0..10 {
                        if let Some(s) = random_sentence(&mut rng, g2, 18) {
                            if s.len() <= 30 { ins.push(mutate(&mut rng, &s, nterm)); ins.push(s); }
                        }
                    }
                    ins.sort(); ins.dedup();
                    ins.retain(|s| s.iter().all(|t| *t >= 5 && *t <= 30));
                    let mut runs = vec![];
                    let mut cruns = vec![];
                    for s in &ins {
                        let text = alpha::render(s);
                        let ctext = render_commented(&mut rng, s);
                        for (rc, tr) in [(true, false), (false, true)] { cruns.push(ll_comment_run(&p, s, &ctext, rc, tr)); }
                        for (rc, tr) in [(true, false), (false, false), (true, true), (false, true)] { runs.push(c01::run_input(&p, s, &text, rc, tr, None)); }
                        for d in DEPTHS { runs.push(c01::run_input(&p, s, &text, rng.chance(1, 2), rng.chance(1, 2), Some(d))); }
                    }
                    let npush = b.export_push_count();
                    println!("(ll {} 3 (built {} {} ({}) ({}) {}))", eg.sx(), b.g2.sx(), p.tables_sx, runs.join(" "), cruns.join(" "), npush);
                }
            }
        } else if i % 2 == 0 {
            let g = c07::ll_grammar(&mut rng, i / 2);
            let maxk = if i % 10 == 0 { 5 } else { rng.range(1, 3) };
            match c07::build_ll(&g, maxk) {
                Err(why) => println!("(ll {} {} ({}))", g.sx(), maxk, why.split(' ').next().unwrap()),
                Ok(b) => {
                    let p = c01::parts(&b);
                    let g2 = &b.g2;
                    let mut terms: Vec<u16> = g2.prods.iter().flat_map(|(_, r)| r.iter()).filter_map(|y| if let Sy::T(t) = y { Some(*t) } else { None }).collect();
                    terms.sort(); terms.dedup();
                    let nterm = terms.len().max(1);
                    let mut ins: Vec<Vec<u16>> = vec![vec![]];
                    for _ in 0..8 {
                        if let Some(s) = random_sentence(&mut rng, g2, 16) {
                            if s.len() <= 30 { ins.push(mutate(&mut rng, &s, nterm)); ins.push(s); }
                        }
                    }
                    for t in &terms { ins.push(vec![*t]); for u in &terms { ins.push(vec![*t, *u]); } }
                    ins.sort(); ins.dedup();
                    ins.retain(|s| s.iter().all(|t| *t >= 5 && *t <= 30));
                    let mut runs = vec![];
                    let mut cruns = vec![];
                    for s in &ins {
                        let text = alpha::render(s);
                        let ctext = render_commented(&mut rng, s);
                        for (rc, tr) in [(true, false), (false, false), (true, true), (false, true)] { cruns.push(ll_comment_run(&p, s, &ctext, rc, tr)); }
                        for (rc, tr) in [(true, false), (false, false), (true, true), (false, true)] {
                            runs.push(c01::run_input(&p, s, &text, rc, tr, None));
                        }
                        for d in DEPTHS { runs.push(c01::run_input(&p, s, &text, rng.chance(1, 2), rng.chance(1, 2), Some(d))); }
                    }
                    let inv: std::collections::BTreeMap<u16, u16> = b.tm.iter().map(|(pi, letter)| (*letter, *pi)).collect();
                    let gp = G { names: g.names.clone(), start: g.start, prods: g.prods.iter().map(|(l, r)| (*l, r.iter().map(|y| match y { Sy::T(t) => Sy::T(*inv.get(t).unwrap_or(&999)), Sy::N(n) => Sy::N(*n) }).collect())).collect() };
                    println!("(ll {} {} (built {} {} ({}) ({})))", gp.sx(), maxk, b.g2.sx(), p.tables_sx, runs.join(" "), cruns.join(" "));
                }
            }
        } else {
            let g = c03::lr_grammar(&mut rng, false);
            match c03::build(&g) {
                Err(why) => println!("(lro {} ({}))", g.sx(), why),
                Ok(b) => {
                    let ins = c03::inputs(&mut rng, &g, false);
                    let mut runs = vec![];
                    let mut cruns = vec![];
                    for s in ins.iter().filter(|s| s.len() != 3 || rng_free(s)) {
                        let text = alpha::render(s);
                        let ctext = render_commented(&mut rng, s);
                        for tr in [false, true] { cruns.push(lr_comment_run(&b, s, &ctext, tr)); }
                        // "no limit" is run with a limit far beyond anything a terminating run reaches (cyclic grammars never return otherwise)
                        runs.push(lr_run_input(&b, s, &text, false, Some(3000)));
                        runs.push(lr_run_input(&b, s, &text, true, Some(3000)));
                        for d in DEPTHS { runs.push(lr_run_input(&b, s, &text, rng.chance(1, 2), Some(d))); }
                    }
                    println!("(lro {} (built {} {} {} ({}) ({})))", g.sx(), b.g2.sx(), b.table_sx, b.nconf, runs.join(" "), cruns.join(" "));
                }
            }
        }
    }
}

fn rng_free(_s: &[u16]) -> bool { true }

/// An LL(1)-by-construction EBNF grammar with repetitions and optionals: every alternative is bracketed by its own
/// fresh terminals, every repetition / optional body starts with a fresh terminal.
pub fn ll_ebnf(rng: &mut Rng) -> crate::c09::EG {
    use crate::c09::{EG, F};
    let n = rng.range(1, 3);
    let mut next = 5u16;
    let mut fresh = |next: &mut u16| { let t = *next; if *next < 30 { *next += 1; } F::T(t) };
    let mut prods = vec![];
    for a in 0..n {
        let nalts = rng.range(1, 2);
        let mut alts = vec![];
        for _ in 0..nalts {
            let mut alt = vec![fresh(&mut next)];
            for _ in 0..rng.range(0, 3) {
                let body = |rng: &mut Rng, next: &mut u16, fresh: &mut dyn FnMut(&mut u16) -> F| {
                    let mut b = vec![fresh(next)];
                    if rng.chance(1, 2) { b.push(F::N(rng.below(n))); }
                    if rng.chance(1, 3) { b.push(fresh(next)); }
                    vec![b]
                };
                match rng.below(5) {
                    0 => alt.push(fresh(&mut next)),
                    1 => alt.push(F::N(rng.below(n))),
                    2 | 3 => alt.push(F::R(body(rng, &mut next, &mut fresh))),
                    _ => alt.push(F::O(body(rng, &mut next, &mut fresh))),
                }
            }
            alt.push(fresh(&mut next));
            alts.push(alt);
        }
        prods.push((a, alts));
    }
    EG { names: (0..n).map(crate::gram::nt_name).collect(), start: 0, prods }
}

/// The sentence with comments before, between and after the tokens.
pub fn render_commented(rng: &mut Rng, types: &[u16]) -> String {
    let mut t = String::new();
    let cm = |rng: &mut Rng, t: &mut String| {
        match rng.below(4) { 0 => t.push_str("/* c */"), 1 => t.push_str("// l\n"), 2 => t.push_str(" /*a*/ /*b*/ "), _ => {} }
    };
    cm(rng, &mut t);
    for x in types { t.push(alpha::letter(*x)); t.push(' '); cm(rng, &mut t); }
    match rng.below(3) { 0 => t.push_str("// end"), 1 => t.push_str("/* end */\n"), _ => t.push_str(" /*x*/ // y") }
    t
}

fn ll_comment_run(p: &c01::Parts, types: &[u16], text: &str, recovery: bool, trim: bool) -> String {
    use parol_runtime::parser::LLKParser;
    let r = std::panic::catch_unwind(|| {
        let mut parser = LLKParser::new(p.start, p.automata, p.productions, rt::terminal_names(), p.names);
        if !recovery { parser.disable_recovery(); }
        if trim { parser.trim_parse_tree(); }
        let mut rec = rt::Recorder::new(p.names);
        let mut acts = rt::Actions::default();
        let res = parser.parse_into(&mut rec, alpha::stream(text, p.k, &[]), &mut acts);
        (res.is_ok(), acts.sx(), cm_sx(&acts))
    });
    match r {
        Err(_) => format!("({} {} {} panic)", crate::sx::nums(types), recovery as u8, trim as u8),
        Ok((ok, ac, cm)) => format!("({} {} {} {} {} {})", crate::sx::nums(types), recovery as u8, trim as u8, ok as u8, ac, cm),
    }
}

fn cm_sx(acts: &rt::Actions) -> String {
    format!("({})", acts.comments.iter().map(|(t, s)| format!("({t} {s})")).collect::<Vec<_>>().join(" "))
}

fn lr_comment_run(b: &c03::Built, types: &[u16], text: &str, trim: bool) -> String {
    let (start, table, prods, names) = b.parser_parts;
    let r = std::panic::catch_unwind(|| {
        let mut parser = LRParser::new(start, table, prods, rt::terminal_names(), names);
        if trim { parser.trim_parse_tree(); }
        parser.set_max_parsing_depth(3000);
        let mut rec = rt::Recorder::new(names);
        let mut acts = rt::Actions::default();
        let res = parser.parse_into(&mut rec, alpha::stream(text, 1, &[]), &mut acts);
        (res.is_ok(), acts.sx(), cm_sx(&acts))
    });
    match r {
        Err(_) => format!("({} 1 {} panic)", crate::sx::nums(types), trim as u8),
        Ok((ok, ac, cm)) => format!("({} 1 {} {} {} {})", crate::sx::nums(types), trim as u8, ok as u8, ac, cm),
    }
}
