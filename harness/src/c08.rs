//! C08: real `LookaheadDFA::eval` on (automaton, token buffer) pairs.
use crate::{alpha, rng::Rng, sx, Args};
use parol_runtime::{LookaheadDFA, ParolError, ParserError, Trans};

pub struct Dfa {
    pub prod0: i32,
    pub trans: Vec<(usize, u16, usize, i32)>,
    pub k: usize,
}

/// Build a trie automaton from (string, production) pairs. Strings are over terminal indices,
/// 0 (EOI) only last. Later pairs overwrite earlier ones on the same string.
pub fn trie(pairs: &[(Vec<u16>, i32)]) -> Dfa {
    use std::collections::BTreeMap;
    let mut next: Vec<BTreeMap<u16, usize>> = vec![BTreeMap::new()];
    let mut prod: Vec<i32> = vec![-1];
    let mut k = 0;
    for (s, p) in pairs {
        let mut st = 0usize;
        for c in s {
            st = match next[st].get(c) {
                Some(n) => *n,
                None => {
                    next.push(BTreeMap::new());
                    prod.push(-1);
                    let n = next.len() - 1;
                    next[st].insert(*c, n);
                    n
                }
            };
        }
        prod[st] = *p;
        k = k.max(s.len());
    }
    let mut trans = vec![];
    for (st, m) in next.iter().enumerate() {
        for (c, to) in m {
            trans.push((st, *c, *to, prod[*to]));
        }
    }
    Dfa { prod0: prod[0], trans, k }
}

/// Merge states with the same behaviour (same production, same successors), keeping the smallest id of each class
/// (as parol's minimisation does): this creates edges from higher-numbered to lower-numbered states.
pub fn merged(d: &Dfa) -> Dfa {
    use std::collections::BTreeMap;
    let n = d.trans.iter().map(|t| t.0.max(t.2)).max().unwrap_or(0) + 1;
    let mut prod = vec![-1i32; n];
    prod[0] = d.prod0;
    for t in &d.trans { prod[t.2] = t.3; }
    let mut rep: Vec<usize> = (0..n).collect();
    loop {
        let mut sig: BTreeMap<(i32, Vec<(u16, usize)>), usize> = BTreeMap::new();
        let mut changed = false;
        for s in 1..n {
            if rep[s] != s { continue; }
            let mut out: Vec<(u16, usize)> = d.trans.iter().filter(|t| t.0 == s).map(|t| (t.1, rep[t.2])).collect();
            out.sort();
            match sig.get(&(prod[s], out.clone())) {
                Some(r) => { rep[s] = *r; changed = true; }
                None => { sig.insert((prod[s], out), s); }
            }
        }
        for s in 0..n { let mut r = rep[s]; while rep[r] != r { r = rep[r]; } rep[s] = r; }
        if !changed { break; }
    }
    let mut trans: Vec<(usize, u16, usize, i32)> = d.trans.iter().filter(|t| rep[t.0] == t.0).map(|t| (t.0, t.1, rep[t.2], t.3)).collect();
    trans.sort();
    trans.dedup();
    Dfa { prod0: d.prod0, trans, k: d.k }
}

/// Random renumbering of the states other than 0; transitions stay sorted by (from state, terminal).
pub fn renumbered(rng: &mut Rng, d: &Dfa) -> Dfa {
    let n = d.trans.iter().map(|t| t.0.max(t.2)).max().unwrap_or(0) + 1;
    let mut perm: Vec<usize> = (0..n).collect();
    for i in (2..n).rev() { let j = 1 + rng.below(i); perm.swap(i, j); }
    let mut trans: Vec<(usize, u16, usize, i32)> = d.trans.iter().map(|t| (perm[t.0], t.1, perm[t.2], t.3)).collect();
    trans.sort();
    Dfa { prod0: d.prod0, trans, k: d.k }
}

/// A random walk through the automaton: a lookahead string it knows (possibly a proper prefix of one).
fn walk(rng: &mut Rng, d: &Dfa) -> Vec<u16> {
    let mut st = 0usize;
    let mut out = vec![];
    for _ in 0..d.k {
        let c: Vec<&(usize, u16, usize, i32)> = d.trans.iter().filter(|t| t.0 == st).collect();
        if c.is_empty() { break; }
        let t = c[rng.below(c.len())];
        out.push(t.1);
        st = t.2;
    }
    out
}

pub fn show_dfa(d: &Dfa) -> String {
    format!(
        "({} {} {})",
        d.prod0,
        d.k,
        sx::list(d.trans.iter().map(|t| format!("({} {} {} {})", t.0, t.1, t.2, t.3)))
    )
}

pub fn leak_dfa(d: &Dfa) -> LookaheadDFA {
    let tr: Vec<Trans> = d.trans.iter().map(|t| Trans(t.0, t.1, t.2, t.3)).collect();
    LookaheadDFA::new(d.prod0, Box::leak(tr.into_boxed_slice()), d.k)
}

fn random_strings(rng: &mut Rng, nterm: usize, prefix_free: bool) -> Vec<(Vec<u16>, i32)> {
    let nprod = rng.range(1, 4);
    let maxlen = rng.range(1, 4);
    let nstr = rng.range(1, 8);
    let mut out: Vec<(Vec<u16>, i32)> = vec![];
    for _ in 0..nstr {
        let len = rng.range(1, maxlen);
        let mut s: Vec<u16> = vec![];
        for i in 0..len {
            if i + 1 == len && rng.chance(1, 4) {
                s.push(0); // EOI ends a string
            } else {
                s.push(5 + rng.below(nterm) as u16);
            }
        }
        if prefix_free && out.iter().any(|(o, _)| o.starts_with(&s) || s.starts_with(o)) {
            continue;
        }
        out.push((s, rng.below(nprod) as i32));
    }
    if out.is_empty() {
        out.push((vec![5], 0));
    }
    out
}

pub fn eval_case(d: &Dfa, types: &[u16], extra_k: usize) -> String {
    let ldfa = leak_dfa(d);
    let text = alpha::render(types);
    let sk = d.k.max(1) + extra_k;
    let r = std::panic::catch_unwind(|| {
        let mut ts = alpha::stream(&text, sk, &[]);
        // the buffer as the token stream presents it
        let mut buf = vec![];
        for i in 0..sk {
            match ts.lookahead_token_type(i) {
                Ok(t) => buf.push(t),
                Err(_) => break,
            }
        }
        let res = ldfa.eval(&mut ts, 0);
        (buf, res)
    });
    match r {
        Err(_) => format!("(eval {} {} panic)", show_dfa(d), sx::nums(types)),
        Ok((buf, res)) => {
            let rs = match res {
                Ok(p) => format!("(ok {})", p as i64),
                Err(ParolError::ParserError(ParserError::PredictionError { .. })) => "prederr".to_string(),
                Err(e) => format!("(err {})", sx::s(&format!("{e:?}").chars().take(60).collect::<String>())),
            };
            format!("(eval {} {} {})", show_dfa(d), sx::nums(&buf), rs)
        }
    }
}

pub fn run(a: &Args) {
    let mut rng = Rng::new(a.seed ^ ((a.shard as u64) << 32) ^ 0xC08);
    // corpus first: the D2 witness
    if a.shard == 0 {
        let d = trie(&[(vec![5, 0], 1), (vec![5, 6, 7], 2)]);
        println!("{}", eval_case(&d, &[5, 28], 0));
        println!("{}", eval_case(&d, &[5, 28, 7], 0));
    }
    // automata parol really generates (compiled and minimised), with their own lookahead strings and mutants
    for i in 0..(a.n / 20).max(2) {
        let g = crate::c07::ll_grammar(&mut rng, i);
        if let Ok(b) = crate::c07::build_ll(&g, if i % 3 == 0 { 4 } else { 3 }) {
            for au in &b.export.lookahead_automata {
                if au.transitions.is_empty() { continue; }
                let d = Dfa { prod0: au.prod0, k: au.k, trans: au.transitions.iter().map(|t| (t.from_state, t.term, t.to_state, t.prod_num)).collect() };
                for j in 0..6 {
                    let mut types = walk(&mut rng, &d);
                    if j % 2 == 1 && !types.is_empty() { let p = rng.below(types.len()); types[p] = 5 + rng.below(6) as u16; }
                    if let Some(p) = types.iter().position(|t| *t == 0) { types.truncate(p); }
                    println!("{}", eval_case(&d, &types, 0));
                }
            }
        }
    }
    for _ in 0..a.n {
        let nterm = rng.range(1, 5);
        let prefix_free = !rng.chance(1, 5);
        let strs = random_strings(&mut rng, nterm, prefix_free);
        let d = trie(&strs);
        // 1/2: as a trie; 1/4: equivalent states merged (edges to lower-numbered states); 1/4: states renumbered at random
        let d = match rng.below(4) { 0 => merged(&d), 1 => renumbered(&mut rng, &merged(&d)), _ => d };
        // buffers: a lookahead string, a mutated one, or random
        for _ in 0..3 {
            let mut types: Vec<u16> = match rng.below(3) {
                0 => rng.pick(&strs).0.clone(),
                1 => {
                    let mut s = rng.pick(&strs).0.clone();
                    if !s.is_empty() {
                        let i = rng.below(s.len());
                        match rng.below(3) {
                            0 => s[i] = 5 + rng.below(nterm + 1) as u16,
                            1 => {
                                s.remove(i);
                            }
                            _ => s.insert(i, 5 + rng.below(nterm + 1) as u16),
                        }
                    }
                    s
                }
                _ => (0..rng.below(5)).map(|_| 5 + rng.below(nterm + 1) as u16).collect(),
            };
            // EOI cannot be rendered: cut there (the stream pads with EOI itself)
            if let Some(p) = types.iter().position(|t| *t == 0) {
                types.truncate(p);
            }
            let extra = if rng.chance(1, 4) { rng.range(1, 2) } else { 0 };
            println!("{}", eval_case(&d, &types, extra));
        }
    }
}
